(* OwnersFacts.v -- proofs about the ownership model of Owners.v *)
From Coq Require Import List Arith Bool Lia.
From Moss Require Import Owners.
Import ListNotations.

(* ------------------------------------------------------------------ *)
(* multisets of object ids *)

Definition cn (x : oid) (l : list oid) : nat := count_occ Nat.eq_dec l x.
Arguments cn : simpl never.

Lemma cn_nil x : cn x [] = 0. Proof. reflexivity. Qed.
Lemma cn_app x l1 l2 : cn x (l1 ++ l2) = cn x l1 + cn x l2.
Proof. unfold cn. apply count_occ_app. Qed.
Lemma cn_cons x y l : cn x (y :: l) = (if Nat.eqb y x then 1 else 0) + cn x l.
Proof.
  unfold cn. simpl. destruct (Nat.eq_dec y x) as [E|E].
  - subst. rewrite Nat.eqb_refl. reflexivity.
  - apply Nat.eqb_neq in E. rewrite E. reflexivity.
Qed.
Lemma cn_in x l : In x l <-> cn x l > 0.
Proof. unfold cn. apply count_occ_In. Qed.
Lemma cn_olist x (o : option oid) :
  cn x (olist o) = match o with Some y => if Nat.eqb y x then 1 else 0 | None => 0 end.
Proof. destruct o; unfold olist; [rewrite cn_cons, cn_nil; lia | reflexivity]. Qed.

Lemma remove1_cn o l l' : remove1 o l = Some l' ->
  forall x, cn x l = (if Nat.eqb o x then 1 else 0) + cn x l'.
Proof.
  revert l'. induction l as [|y r IH]; simpl; intros l' H x; [discriminate|].
  destruct (Nat.eqb y o) eqn:E.
  - inversion H; subst. apply Nat.eqb_eq in E. subst. rewrite cn_cons. reflexivity.
  - destruct (remove1 o r) as [r'|] eqn:R; [|discriminate]. inversion H; subst.
    rewrite !cn_cons. rewrite (IH r' eq_refl x). lia.
Qed.
Lemma removes_cn rs : forall l l', removes rs l = Some l' ->
  forall x, cn x l = cn x rs + cn x l'.
Proof.
  induction rs as [|r t IH]; simpl; intros l l' H x.
  - inversion H; subst. reflexivity.
  - destruct (remove1 r l) as [l1|] eqn:R; [|discriminate].
    rewrite (remove1_cn _ _ _ R x), (IH _ _ H x), cn_cons. lia.
Qed.

Lemma upd_length i x h : length (upd i x h) = length h.
Proof. revert i. induction h; intros [|i]; simpl; auto. Qed.
Lemma nth_upd_same i x h : i < length h -> nth_error (upd i x h) i = Some x.
Proof. revert i. induction h; intros [|i] H; simpl in *; try lia; auto. apply IHh. lia. Qed.
Lemma nth_upd_other i j x h : i <> j -> nth_error (upd i x h) j = nth_error h j.
Proof.
  revert i j. induction h; intros [|i] [|j] H; simpl; auto; try lia. all: try (apply IHh; lia).
Qed.
Lemma nth_some_lt {A} (l : list A) i x : nth_error l i = Some x -> i < length l.
Proof. intros H. apply nth_error_Some. congruence. Qed.

Lemma allrefs_upd h : forall i ob ob', nth_error h i = Some ob ->
  forall x, cn x (allrefs (upd i ob' h)) + cn x (orefs ob) = cn x (allrefs h) + cn x (orefs ob').
Proof.
  induction h as [|y r IH]; intros [|i] ob ob' H x; simpl in *; try discriminate.
  - inversion H; subst. unfold allrefs. simpl. rewrite !cn_app. lia.
  - unfold allrefs in *. simpl. rewrite !cn_app. specialize (IH i ob ob' H x). lia.
Qed.
Lemma allrefs_snoc h ob x : cn x (allrefs (h ++ [ob])) = cn x (allrefs h) + cn x (orefs ob).
Proof. unfold allrefs. rewrite flat_map_app, cn_app. simpl. rewrite app_nil_r. reflexivity. Qed.
Lemma in_allrefs h a ob r : nth_error h a = Some ob -> In r (orefs ob) -> In r (allrefs h).
Proof.
  intros H1 H2. unfold allrefs. apply in_flat_map. exists ob. split; auto.
  eapply nth_error_In; eauto.
Qed.
Lemma allrefs_in h r : In r (allrefs h) -> exists a ob, nth_error h a = Some ob /\ In r (orefs ob).
Proof.
  unfold allrefs. intros H. apply in_flat_map in H. destruct H as [ob [H1 H2]].
  apply In_nth_error in H1. destruct H1 as [a Ha]. eauto.
Qed.

Lemma cnt_of_upd h i ob' x : i < length h ->
  cnt_of (upd i ob' h) x = if Nat.eqb x i then o_cnt ob' else cnt_of h x.
Proof.
  intros L. unfold cnt_of. destruct (Nat.eqb x i) eqn:E.
  - apply Nat.eqb_eq in E. subst. rewrite nth_upd_same; auto.
  - apply Nat.eqb_neq in E. rewrite nth_upd_other; auto.
Qed.

Lemma root_of_rset r s v x :
  cn x (root_of (rset r s v)) + cn x (olist (r s)) = cn x (root_of r) + cn x (olist v).
Proof.
  unfold root_of, all_slots, rset. simpl. rewrite !cn_app.
  destruct s; simpl; rewrite ?cn_app, ?cn_nil; lia.
Qed.

Lemma hrefs_app l1 l2 x :
  cn x (flat_map hrefs (l1 ++ l2)) = cn x (flat_map hrefs l1) + cn x (flat_map hrefs l2).
Proof. rewrite flat_map_app, cn_app. reflexivity. Qed.
Lemma hrefs_del l : forall i h, nth_error l i = Some h ->
  forall x, cn x (flat_map hrefs l) = cn x (hrefs h) + cn x (flat_map hrefs (del_nth i l)).
Proof.
  induction l as [|y r IH]; intros [|i] h H x; simpl in *; try discriminate.
  - inversion H; subst. rewrite cn_app. reflexivity.
  - rewrite !cn_app. rewrite (IH i h H x). lia.
Qed.

(* ------------------------------------------------------------------ *)
(* the ownership invariant over a heap and a multiset of outside references *)

Record ginv (h : heap) (L : list oid) : Prop := mkG {
  g_cnt : forall o, cnt_of h o = cn o L + cn o (allrefs h);
  g_dead : forall o ob, nth_error h o = Some ob -> o_cnt ob = 0 -> orefs ob = [];
  g_rank : forall a ob r, nth_error h a = Some ob -> In r (orefs ob) ->
             exists ob', nth_error h r = Some ob' /\ rank ob' < rank ob
}.

Definition Inv (st : state) : Prop := ginv (hp st) (roots st).

Lemma ginv_perm h L L' : (forall x, cn x L = cn x L') -> ginv h L -> ginv h L'.
Proof.
  intros E [A B C]. constructor; auto. intros o. rewrite (A o), (E o). reflexivity.
Qed.

Lemma ginv_upd h L L' o ob ob' :
  ginv h L -> nth_error h o = Some ob ->
  o_kind ob' = o_kind ob -> o_top ob' = o_top ob ->
  (forall x, (if Nat.eqb x o then o_cnt ob' else cnt_of h x) + cn x (orefs ob)
             = cn x L' + cn x (allrefs h) + cn x (orefs ob')) ->
  (o_cnt ob' = 0 -> orefs ob' = []) ->
  (forall r, In r (orefs ob') -> exists ob2, nth_error h r = Some ob2 /\ rank ob2 < rank ob) ->
  ginv (upd o ob' h) L'.
Proof.
  intros [A B C] Ho Hk Ht Hc Hd Hr.
  assert (Lo : o < length h) by (eapply nth_some_lt; eauto).
  assert (Rk : rank ob' = rank ob) by (unfold rank; rewrite Hk, Ht; reflexivity).
  assert (Rank_pres : forall r ob2, nth_error h r = Some ob2 ->
            exists ob3, nth_error (upd o ob' h) r = Some ob3 /\ rank ob3 = rank ob2).
  { intros r ob2 H2. destruct (Nat.eq_dec o r) as [->|N].
    - rewrite nth_upd_same; auto. exists ob'. split; auto. congruence.
    - rewrite nth_upd_other; auto. eauto. }
  constructor.
  - intros x. rewrite cnt_of_upd by auto. pose proof (allrefs_upd h o ob ob' Ho x). pose proof (Hc x). lia.
  - intros a oa Ha Hz. destruct (Nat.eq_dec o a) as [->|N].
    + rewrite nth_upd_same in Ha; auto. inversion Ha; subst. auto.
    + rewrite nth_upd_other in Ha; auto. eauto.
  - intros a oa r Ha Hin. destruct (Nat.eq_dec o a) as [->|N].
    + rewrite nth_upd_same in Ha; auto. inversion Ha; subst.
      destruct (Hr r Hin) as [ob2 [H2 H3]]. destruct (Rank_pres r ob2 H2) as [ob3 [H4 H5]].
      exists ob3. split; auto. lia.
    + rewrite nth_upd_other in Ha; auto. destruct (C a oa r Ha Hin) as [ob2 [H2 H3]].
      destruct (Rank_pres r ob2 H2) as [ob3 [H4 H5]]. exists ob3. split; auto. lia.
Qed.

Lemma ginv_fresh h L : ginv h L -> cn (length h) L = 0 /\ cn (length h) (allrefs h) = 0.
Proof.
  intros [A _ _]. specialize (A (length h)). unfold cnt_of in A.
  assert (nth_error h (length h) = None) by (apply nth_error_None; lia). rewrite H in A. lia.
Qed.

Lemma ginv_snoc h L L' ob :
  ginv h L ->
  (forall x, (if Nat.eqb x (length h) then o_cnt ob else cnt_of h x)
             = cn x L' + cn x (allrefs h) + cn x (orefs ob)) ->
  o_cnt ob > 0 ->
  (forall r, In r (orefs ob) -> exists ob2, nth_error h r = Some ob2 /\ rank ob2 < rank ob) ->
  ginv (h ++ [ob]) L'.
Proof.
  intros [A B C] Hc Hp Hr. constructor.
  - intros x. rewrite allrefs_snoc. specialize (Hc x). unfold cnt_of in *.
    destruct (Nat.eqb x (length h)) eqn:E.
    + apply Nat.eqb_eq in E. subst. rewrite nth_error_app2 by lia. rewrite Nat.sub_diag. simpl. lia.
    + apply Nat.eqb_neq in E. destruct (lt_dec x (length h)).
      * rewrite nth_error_app1 by lia. lia.
      * rewrite nth_error_app2 by lia. destruct (x - length h) as [|k] eqn:K; [lia|]. simpl.
        destruct k; simpl; assert (nth_error h x = None) by (apply nth_error_None; lia);
          rewrite H in Hc; lia.
  - intros a oa Ha Hz. destruct (lt_dec a (length h)).
    + rewrite nth_error_app1 in Ha by lia. eauto.
    + rewrite nth_error_app2 in Ha by lia. destruct (a - length h) as [|k]; simpl in Ha.
      * inversion Ha; subst. lia.
      * destruct k; discriminate.
  - intros a oa r Ha Hin.
    assert (W : forall r ob2, nth_error h r = Some ob2 -> nth_error (h ++ [ob]) r = Some ob2).
    { intros r0 ob2 H2. rewrite nth_error_app1; auto. eapply nth_some_lt; eauto. }
    destruct (lt_dec a (length h)).
    + rewrite nth_error_app1 in Ha by lia. destruct (C a oa r Ha Hin) as [ob2 [H2 H3]]. eauto.
    + rewrite nth_error_app2 in Ha by lia. destruct (a - length h) as [|k]; simpl in Ha.
      * inversion Ha; subst. destruct (Hr r Hin) as [ob2 [H2 H3]]. eauto.
      * destruct k; discriminate.
Qed.

(* ------------------------------------------------------------------ *)
(* the cascade: every reference of the work list is given back exactly once,
   and an object that reaches zero hands its own references to the work list *)

Lemma release_ginv : forall fuel work h fs lg R h' fs' lg',
  ginv h (work ++ R) ->
  release fuel work h fs lg = Some (h', fs', lg') ->
  ginv h' R.
Proof.
  induction fuel as [|f IH]; intros work h fs lg R h' fs' lg' G H.
  - destruct work; simpl in H; [|discriminate]. inversion H; subst. exact G.
  - destruct work as [|o w]; simpl in H.
    + inversion H; subst. exact G.
    + destruct (nth_error h o) as [ob|] eqn:Ho; [|discriminate].
      pose proof G as [A B C].
      destruct (o_cnt ob) as [|[|n]] eqn:Ec; [discriminate| |].
      * (* reaches zero *)
        eapply IH; [|exact H].
        assert (A0 := A o). unfold cnt_of in A0. rewrite Ho, Ec in A0.
        simpl in A0. rewrite cn_cons, Nat.eqb_refl, cn_app in A0.
        assert (Z1 : cn o (allrefs h) = 0) by lia.
        assert (Z2 : cn o (orefs ob) = 0).
        { destruct (cn o (orefs ob)) eqn:E; auto.
          assert (In o (orefs ob)) by (apply cn_in; lia).
          assert (In o (allrefs h)) by (eapply in_allrefs; eauto).
          apply cn_in in H1. lia. }
        eapply (ginv_upd h _ _ o ob (cleared ob) G Ho); simpl; auto.
        -- intros x. specialize (A x). simpl in A. rewrite cn_cons in A.
           rewrite !cn_app. rewrite cn_app in A. rewrite cn_nil.
           rewrite (Nat.eqb_sym o x) in A.
           destruct (Nat.eqb x o) eqn:E.
           ++ apply Nat.eqb_eq in E. subst x. lia.
           ++ lia.
        -- intros r [].
      * (* stays positive *)
        eapply IH; [|exact H].
        eapply (ginv_upd h _ _ o ob (set_cnt ob (S n)) G Ho); simpl; auto.
        -- intros x. specialize (A x). simpl in A. rewrite cn_cons in A.
           rewrite (Nat.eqb_sym o x) in A. unfold orefs at 2. simpl. fold (orefs ob).
           destruct (Nat.eqb x o) eqn:E.
           ++ apply Nat.eqb_eq in E. subst x. unfold cnt_of in A. rewrite Ho, Ec in A. lia.
           ++ lia.
        -- discriminate.
        -- intros r Hin. apply (C o ob r Ho Hin).
Qed.

(* ------------------------------------------------------------------ *)
(* every primitive of the language preserves the invariant *)

Definition preserves (m : M) : Prop := forall st st', Inv st -> m st = Some st' -> Inv st'.

Lemma pres_ret : preserves ret.
Proof. intros st st' I H. inversion H; subst. exact I. Qed.
Lemma pres_bind a b : preserves a -> preserves b -> preserves (a ;; b).
Proof.
  intros Pa Pb st st' I H. unfold bind in H. destruct (a st) as [s|] eqn:E; [|discriminate]. eauto.
Qed.
Lemma pres_rd {A} (f : state -> A) k : (forall a, preserves (k a)) -> preserves (rd f k).
Proof. intros P st st' I H. unfold rd in H. eapply P; eauto. Qed.
Lemma pres_whenS {A} (x : option A) k : (forall a, preserves (k a)) -> preserves (whenS x k).
Proof. intros P. destruct x; simpl; [apply P | apply pres_ret]. Qed.
Lemma pres_each {A} (l : list A) k : (forall a, preserves (k a)) -> preserves (each l k).
Proof. intros P. induction l; simpl; [apply pres_ret | apply pres_bind; auto]. Qed.
Lemma pres_guard b m : preserves m -> preserves (guard b m).
Proof.
  intros P st st' I H. unfold guard in H. destruct (b st); [eauto|]. inversion H; subst. exact I.
Qed.
Lemma pres_if (c : bool) a b : preserves a -> preserves b -> preserves (if c then a else b).
Proof. destruct c; auto. Qed.

Ltac roots_cn := unfold roots; simpl; repeat (rewrite cn_app || rewrite cn_cons).

Lemma pres_addref o : preserves (addref o).
Proof.
  intros st st' I H. unfold addref in H.
  destruct (nth_error (hp st) o) as [ob|] eqn:Ho; [|discriminate].
  destruct (o_cnt ob) as [|n] eqn:Ec; [discriminate|]. inversion H; subst; clear H.
  unfold Inv. simpl.
  eapply (ginv_upd _ _ _ o ob _ I Ho); simpl; auto.
  - intros x. destruct I as [A _ _]. specialize (A x). revert A. roots_cn. intros A.
    unfold orefs at 2. simpl. fold (orefs ob). rewrite (Nat.eqb_sym o x).
    destruct (Nat.eqb x o) eqn:E.
    + apply Nat.eqb_eq in E. subst x. unfold cnt_of in A. rewrite Ho, Ec in A. lia.
    + lia.
  - discriminate.
  - intros r Hin. destruct I as [_ _ C]. apply (C o ob r Ho Hin).
Qed.

Lemma pres_decref o : preserves (decref o).
Proof.
  intros st st' I H. unfold decref in H.
  destruct (remove1 o (hand st)) as [l|] eqn:R; [|discriminate].
  destruct (release _ _ _ _ _) as [[[h fs] lg]|] eqn:E; [|discriminate]. inversion H; subst; clear H.
  unfold Inv. simpl. eapply release_ginv; [|exact E].
  eapply ginv_perm; [|exact I]. intros x. pose proof (remove1_cn _ _ _ R x) as Q.
  simpl. rewrite cn_cons. roots_cn. lia.
Qed.

(* ------------------------------------------------------------------ *)
(* progress of the two primitives that stand for the real AddRef / DecRef:
   under the ownership invariant, DecRef of a reference that is held never
   meets a released object and its cascade ends (within the fuel), and AddRef
   of anything a root or a live object refers to succeeds.  What can still make
   the model refuse an operation is bookkeeping only (a local, slot or handle
   index used out of turn), which no_fault_bounded_partial explores. *)
Lemma total_upd h : forall o ob ob', nth_error h o = Some ob ->
  total (upd o ob' h) + o_cnt ob = total h + o_cnt ob'.
Proof.
  induction h as [|y r IH]; intros [|o] ob ob' H; simpl in *; try discriminate.
  - inversion H; subst. lia.
  - specialize (IH o ob ob' H). lia.
Qed.
Lemma total_ge h o ob : nth_error h o = Some ob -> o_cnt ob <= total h.
Proof.
  revert o. induction h as [|y r IH]; intros [|o] H; simpl in *; try discriminate.
  - inversion H; subst. lia.
  - specialize (IH o H). lia.
Qed.

Lemma release_progress : forall fuel work h fs lg R,
  ginv h (work ++ R) -> total h <= fuel ->
  exists h' fs' lg', release fuel work h fs lg = Some (h', fs', lg').
Proof.
  induction fuel as [|f IH]; intros work h fs lg R G T.
  - destruct work as [|o w]; simpl; [eauto|]. exfalso.
    pose proof G as [A _ _]. specialize (A o). simpl in A. rewrite cn_cons, Nat.eqb_refl in A.
    unfold cnt_of in A. destruct (nth_error h o) as [ob|] eqn:Ho; [|lia].
    pose proof (total_ge h o ob Ho). lia.
  - destruct work as [|o w]; simpl; [eauto|].
    pose proof G as [A B C]. assert (A0 := A o). simpl in A0.
    rewrite cn_cons, Nat.eqb_refl, cn_app in A0. unfold cnt_of in A0.
    destruct (nth_error h o) as [ob|] eqn:Ho; [|lia].
    destruct (o_cnt ob) as [|[|n]] eqn:Ec; [lia| |].
    + assert (Z1 : cn o (allrefs h) = 0) by lia.
      assert (Z2 : cn o (orefs ob) = 0).
      { destruct (cn o (orefs ob)) eqn:E; auto.
        assert (In o (orefs ob)) by (apply cn_in; lia).
        assert (In o (allrefs h)) by (eapply in_allrefs; eauto).
        apply cn_in in H0. lia. }
      eapply (IH _ _ _ _ R).
      * rewrite <- app_assoc.
        eapply (ginv_upd h _ _ o ob (cleared ob) G Ho); simpl; auto.
        -- intros x. specialize (A x). simpl in A. rewrite cn_cons in A.
           rewrite !cn_app. rewrite cn_app in A. rewrite cn_nil.
           rewrite (Nat.eqb_sym o x) in A.
           destruct (Nat.eqb x o) eqn:E.
           ++ apply Nat.eqb_eq in E. subst x. lia.
           ++ lia.
        -- intros r [].
      * pose proof (total_upd h o ob (cleared ob) Ho). simpl in H. lia.
    + eapply (IH _ _ _ _ R).
      * eapply (ginv_upd h _ _ o ob (set_cnt ob (S n)) G Ho); simpl; auto.
        -- intros x. specialize (A x). simpl in A. rewrite cn_cons in A.
           rewrite (Nat.eqb_sym o x) in A. unfold orefs at 2. simpl. fold (orefs ob).
           destruct (Nat.eqb x o) eqn:E.
           ++ apply Nat.eqb_eq in E. subst x. unfold cnt_of in A. rewrite Ho, Ec in A. lia.
           ++ lia.
        -- discriminate.
        -- intros r Hin. apply (C o ob r Ho Hin).
      * pose proof (total_upd h o ob (set_cnt ob (S n)) Ho). simpl in H. lia.
Qed.

Lemma in_remove1 o l : In o l -> exists l', remove1 o l = Some l'.
Proof.
  induction l as [|y r IH]; intros H; [destruct H|]. simpl.
  destruct (Nat.eqb y o) eqn:E; [eauto|]. destruct H as [H|H].
  - subst. rewrite Nat.eqb_refl in E. discriminate.
  - destruct (IH H) as [l' ->]. eauto.
Qed.

Theorem decref_of_held_reference_succeeds : forall st o,
  Inv st -> In o (hand st) -> exists st', decref o st = Some st'.
Proof.
  intros st o I Hin. unfold decref. destruct (in_remove1 o _ Hin) as [l R]. rewrite R.
  destruct (release_progress (S (total (hp st))) [o] (hp st) (files st) (elog st)
              (root_of (regs st) ++ flat_map hrefs (handles st) ++ l ++ leaked st))
    as [h [fs [lg E]]].
  - eapply ginv_perm; [|exact I]. intros x. pose proof (remove1_cn _ _ _ R x) as Q.
    simpl. rewrite cn_cons. roots_cn. lia.
  - lia.
  - rewrite E. eauto.
Qed.

Theorem addref_of_referenced_object_succeeds : forall st o,
  Inv st -> In o (roots st ++ allrefs (hp st)) -> exists st', addref o st = Some st'.
Proof.
  intros st o [A _ _] Hin. specialize (A o). apply cn_in in Hin. rewrite cn_app in Hin.
  unfold addref, cnt_of in *. destruct (nth_error (hp st) o) as [ob|]; [|lia].
  destruct (o_cnt ob); [lia|eauto].
Qed.

Lemma rank_lt_all_spec h rs n : rank_lt_all h rs n = true ->
  forall r, In r rs -> exists ob2, nth_error h r = Some ob2 /\ rank ob2 < n.
Proof.
  unfold rank_lt_all. intros H r Hin. rewrite forallb_forall in H. specialize (H r Hin).
  destruct (nth_error h r) as [ob2|]; [|discriminate]. exists ob2. split; auto.
  apply Nat.ltb_lt in H. exact H.
Qed.

Lemma pres_alloc k top rs ks file : preserves (alloc k top rs ks file).
Proof.
  intros st st' I H. unfold alloc in H.
  destruct (removes (rs ++ ks) (hand st)) as [l|] eqn:R; [|discriminate].
  destruct (rank_lt_all _ _ _) eqn:K; [|discriminate]. inversion H; subst; clear H.
  unfold Inv. simpl. pose proof (ginv_fresh _ _ I) as [F1 F2].
  eapply ginv_snoc; [exact I| | simpl; lia |].
  - intros x. destruct I as [A _ _]. specialize (A x).
    pose proof (removes_cn _ _ _ R x) as Q. revert A F1. roots_cn. intros A F1.
    unfold orefs; simpl. fold (rs ++ ks). rewrite (Nat.eqb_sym (length (hp st)) x).
    destruct (Nat.eqb x (length (hp st))) eqn:E.
    + apply Nat.eqb_eq in E. subst x. unfold cnt_of in A.
      assert (nth_error (hp st) (length (hp st)) = None) by (apply nth_error_None; lia).
      rewrite H in A. lia.
    + lia.
  - intros r Hin. eapply rank_lt_all_spec in K; eauto.
Qed.

Lemma pres_alloc_k k top rs ks file cont :
  (forall id, preserves (cont id)) -> preserves (alloc_k k top rs ks file cont).
Proof. intros P. unfold alloc_k. apply pres_rd. intros id. apply pres_bind; auto. apply pres_alloc. Qed.

Lemma pres_setrefs a rs : preserves (setrefs a rs).
Proof.
  intros st st' I H. unfold setrefs in H.
  destruct (nth_error (hp st) a) as [ob|] eqn:Ha; [|discriminate].
  destruct (o_cnt ob) as [|n] eqn:Ec; [discriminate|].
  destruct (removes rs (hand st)) as [l|] eqn:R; [|discriminate].
  destruct (rank_lt_all _ _ _) eqn:K; [|discriminate]. inversion H; subst; clear H.
  unfold Inv. simpl.
  eapply (ginv_upd _ _ _ a ob _ I Ha); simpl; auto.
  - intros x. destruct I as [A _ C]. specialize (A x). pose proof (removes_cn _ _ _ R x) as Q.
    revert A. roots_cn. intros A. unfold orefs. simpl. rewrite !cn_app.
    destruct (Nat.eqb x a) eqn:E.
    + apply Nat.eqb_eq in E. subst x. unfold cnt_of in A. rewrite Ha in A. lia.
    + lia.
  - rewrite Ec. discriminate.
  - intros r Hin. unfold orefs in Hin. simpl in Hin. apply in_app_or in Hin. destruct Hin as [Hin|Hin].
    + eapply rank_lt_all_spec in K; eauto.
    + destruct I as [_ _ C]. apply (C a ob r Ha). unfold orefs. apply in_or_app. auto.
Qed.

Lemma pres_put s o : preserves (put s o).
Proof.
  intros st st' I H. unfold put in H. destruct (regs st s) eqn:Rs; [discriminate|].
  destruct (remove1 o (hand st)) as [l|] eqn:R; [|discriminate]. inversion H; subst; clear H.
  unfold Inv. simpl. eapply ginv_perm; [|exact I]. intros x.
  pose proof (remove1_cn _ _ _ R x) as Q. pose proof (root_of_rset (regs st) s (Some o) x) as P.
  rewrite Rs in P. simpl in P. rewrite cn_cons, !cn_nil in P. roots_cn. lia.
Qed.
Lemma pres_take s : preserves (take s).
Proof.
  intros st st' I H. unfold take in H. inversion H; subst; clear H.
  unfold Inv. simpl. eapply ginv_perm; [|exact I]. intros x.
  pose proof (root_of_rset (regs st) s None x) as P. simpl in P. rewrite cn_nil in P. roots_cn. lia.
Qed.
Lemma pres_pushh h : preserves (pushh h).
Proof.
  intros st st' I H. unfold pushh in H.
  destruct (removes (hrefs h) (hand st)) as [l|] eqn:R; [|discriminate]. inversion H; subst; clear H.
  unfold Inv. simpl. eapply ginv_perm; [|exact I]. intros x.
  pose proof (removes_cn _ _ _ R x) as Q. roots_cn. rewrite hrefs_app. simpl. rewrite app_nil_r. lia.
Qed.
Lemma pres_poph i : preserves (poph i).
Proof.
  intros st st' I H. unfold poph in H.
  destruct (nth_error (handles st) i) as [h|] eqn:E; [|discriminate]. inversion H; subst; clear H.
  unfold Inv. simpl. eapply ginv_perm; [|exact I]. intros x.
  pose proof (hrefs_del _ _ _ E x) as Q. roots_cn. lia.
Qed.
Lemma pres_forget o : preserves (forget o).
Proof.
  intros st st' I H. unfold forget in H.
  destruct (remove1 o (hand st)) as [l|] eqn:R; [|discriminate]. inversion H; subst; clear H.
  unfold Inv. simpl. eapply ginv_perm; [|exact I]. intros x.
  pose proof (remove1_cn _ _ _ R x) as Q. roots_cn. lia.
Qed.
Lemma pres_finish : preserves finish.
Proof. intros st st' I H. unfold finish in H. destruct (hand st); inversion H; subst. exact I. Qed.
Lemma pres_set_ctl f : preserves (set_ctl f).
Proof. intros st st' I H. unfold set_ctl in H. inversion H; subst. exact I. Qed.
Lemma pres_setrm o : preserves (setrm o).
Proof.
  intros st st' I H. unfold setrm in H.
  destruct (nth_error (hp st) o) as [ob|] eqn:Ho; [|discriminate]. inversion H; subst; clear H.
  unfold Inv. simpl. change (roots (with_hp st (upd o (set_rm ob) (hp st)) (files st) (elog st))) with (roots st).
  eapply (ginv_upd _ _ _ o ob _ I Ho); simpl; auto.
  - intros x. destruct I as [A _ _]. specialize (A x). unfold orefs at 2. simpl. fold (orefs ob).
    destruct (Nat.eqb x o) eqn:E.
    + apply Nat.eqb_eq in E. subst x. unfold cnt_of in A. rewrite Ho in A. lia.
    + lia.
  - intros Z. destruct I as [_ B _]. apply (B o ob Ho Z).
  - intros r Hin. destruct I as [_ _ C]. apply (C o ob r Ho Hin).
Qed.
Lemma pres_unlog : preserves unlog.
Proof. intros st st' I H. inversion H; subst. exact I. Qed.
Lemma pres_bump_file : preserves bump_file.
Proof. intros st st' I H. inversion H; subst. exact I. Qed.
Lemma pres_check b : preserves (check b).
Proof. intros st st' I H. unfold check in H. destruct (b st); inversion H; subst. exact I. Qed.
Lemma pres_newfile cont : (forall id, preserves (cont id)) -> preserves (newfile cont).
Proof.
  intros P. unfold newfile. apply pres_rd. intros f. apply pres_bind.
  - apply pres_bump_file.
  - apply pres_alloc_k. exact P.
Qed.

(* ------------------------------------------------------------------ *)
(* every operation preserves the invariant: one generic argument over the
   structure of the operation's program *)

Ltac pres_step :=
  match goal with
  | |- preserves ret => apply pres_ret
  | |- preserves finish => apply pres_finish
  | |- preserves (addref _) => apply pres_addref
  | |- preserves (decref _) => apply pres_decref
  | |- preserves (put _ _) => apply pres_put
  | |- preserves (take _) => apply pres_take
  | |- preserves (pushh _) => apply pres_pushh
  | |- preserves (poph _) => apply pres_poph
  | |- preserves (forget _) => apply pres_forget
  | |- preserves (setrefs _ _) => apply pres_setrefs
  | |- preserves (setrm _) => apply pres_setrm
  | |- preserves (set_ctl _) => apply pres_set_ctl
  | |- preserves (check _) => apply pres_check
  | |- preserves unlog => apply pres_unlog
  | |- preserves (bind _ _) => apply pres_bind
  | |- preserves (guard _ _) => apply pres_guard
  | |- preserves (rd _ _) => apply pres_rd; intro
  | |- preserves (whenS _ _) => apply pres_whenS; intro
  | |- preserves (each _ _) => apply pres_each; intro
  | |- preserves (alloc_k _ _ _ _ _ _) => apply pres_alloc_k; intro
  | |- preserves (newfile _) => apply pres_newfile; intro
  | |- preserves (match ?x with _ => _ end) => destruct x
  | |- preserves (if ?x then _ else _) => destruct x
  end.
Ltac pres := repeat pres_step.

Lemma pres_odecref x : preserves (odecref x).
Proof. unfold odecref. pres. Qed.
Lemma pres_close_slot s : preserves (close_slot s).
Proof. unfold close_slot. pres. Qed.
Lemma pres_invalidate : preserves invalidate.
Proof. apply pres_close_slot. Qed.

Lemma pres_build_kids n : forall i f acc cont,
  (forall l, preserves (cont l)) -> preserves (build_kids n i f acc cont).
Proof.
  induction n as [|n IH]; intros i f acc cont P; simpl; [apply P|].
  pres; apply IH; exact P.
Qed.
Lemma pres_snapshot_build cont : (forall id, preserves (cont id)) -> preserves (snapshot_build cont).
Proof.
  intros P. unfold snapshot_build. pres; apply pres_build_kids; intro; pres; apply P.
Qed.
Lemma pres_new_mmaps n : forall fr acc cont,
  (forall l, preserves (cont l)) -> preserves (new_mmaps n fr acc cont).
Proof.
  induction n as [|n IH]; intros fr acc cont P; simpl; [apply P|].
  pres; apply IH; exact P.
Qed.
Lemma pres_load_footer top old nnew fr ks tg cont :
  (forall id, preserves (cont id)) -> preserves (load_footer top old nnew fr ks tg cont).
Proof.
  intros P. unfold load_footer. pres. apply pres_new_mmaps. intro. pres. apply P.
Qed.
Lemma pres_load_kids n : forall i oldf keep nnew fr acc cont,
  (forall l, preserves (cont l)) -> preserves (load_kids n i oldf keep nnew fr acc cont).
Proof.
  induction n as [|t n IH]; intros i oldf keep nnew fr acc cont P; simpl; [apply P|].
  pres. apply pres_load_footer. intro. apply IH. exact P.
Qed.
Lemma pres_start_or_reuse cont : (forall id, preserves (cont id)) -> preserves (start_or_reuse cont).
Proof. intros P. unfold start_or_reuse. pres; apply P. Qed.
Lemma pres_ll_iter s cont : (forall x, preserves (cont x)) -> preserves (ll_iter s cont).
Proof. intros P. unfold ll_iter. pres; apply P. Qed.
Lemma pres_plain_kids n : forall acc cont,
  (forall l, preserves (cont l)) -> preserves (plain_kids n acc cont).
Proof.
  induction n as [|n IH]; intros acc cont P; simpl; [apply P|]. pres. apply IH. exact P.
Qed.
Lemma pres_merge_kids cs : forall acc cont,
  (forall l, preserves (cont l)) -> preserves (merge_kids cs acc cont).
Proof.
  induction cs as [|c r IH]; intros acc cont P; simpl; [apply P|]. pres; apply IH; exact P.
Qed.
Lemma pres_refresh_kids cs : forall i f, preserves (refresh_kids cs i f).
Proof.
  induction cs as [|c r IH]; intros i f; simpl; [apply pres_ret|].
  pres; try apply pres_odecref; apply IH.
Qed.

Ltac pres_all :=
  repeat first
    [ pres_step
    | match goal with
      | |- preserves (odecref _) => apply pres_odecref
      | |- preserves (close_slot _) => apply pres_close_slot
      | |- preserves invalidate => apply pres_invalidate
      | |- preserves (snapshot_build _) => apply pres_snapshot_build; intro
      | |- preserves (load_footer _ _ _ _ _ _ _) => apply pres_load_footer; intro
      | |- preserves (load_kids _ _ _ _ _ _ _ _) => apply pres_load_kids; intro
      | |- preserves (start_or_reuse _) => apply pres_start_or_reuse; intro
      | |- preserves (ll_iter _ _) => apply pres_ll_iter; intro
      | |- preserves (plain_kids _ _ _) => apply pres_plain_kids; intro
      | |- preserves (merge_kids _ _ _) => apply pres_merge_kids; intro
      | |- preserves (refresh_kids _ _ _) => apply pres_refresh_kids
      | |- preserves (build_kids _ _ _ _ _) => apply pres_build_kids; intro
      | |- preserves (new_mmaps _ _ _ _) => apply pres_new_mmaps; intro
      end ].

Theorem step_preserves o : preserves (step o).
Proof.
  unfold step. apply pres_bind; [|apply pres_finish].
  destruct o; simpl;
    unfold op_snap_cached, op_snap_fresh, op_coll_get, op_child_snap, op_store_snap, op_prev,
           op_iter_start, op_iter_seek, op_iter_start_pre_fix, op_iter_seek_pre_fix, op_close_h, op_batch, op_drop_children, op_merger_ingest,
           op_merger_swap, op_merger_handover, op_persist_begin, op_persist_run,
           op_persist_publish, op_coll_close, op_store_close, coll_close_body, store_close_body,
           compact_full;
    pres_all.
Qed.

(* ------------------------------------------------------------------ *)
(* (1) the ownership invariant holds after every sequence of operations *)

Lemma Inv_init : Inv init.
Proof.
  constructor.
  - intros o. unfold cnt_of, init, roots. simpl.
    destruct o as [|[|o]]; simpl; try reflexivity.
    destruct o; reflexivity.
  - intros o ob H Z. destruct o as [|[|o]]; simpl in H.
    + inversion H; subst. discriminate.
    + inversion H; subst. discriminate.
    + destruct o; discriminate.
  - intros a ob r H Hin. destruct a as [|[|a]]; simpl in H.
    + inversion H; subst. destruct Hin.
    + inversion H; subst. destruct Hin as [<-|[]]. eexists. split; [reflexivity|]. unfold rank. simpl. lia.
    + destruct a; discriminate.
Qed.

Lemma run_from_inv ops : forall st st', Inv st -> run_from st ops = Some st' -> Inv st'.
Proof.
  induction ops as [|o r IH]; intros st st' I H; simpl in H.
  - inversion H; subst. exact I.
  - destruct (step o st) as [s|] eqn:E; [|discriminate].
    eapply IH; [|exact H]. eapply step_preserves; eauto.
Qed.

(* count = number of references held by live objects, roots, handles *)
Theorem ownership_invariant : forall ops st, run ops = Some st ->
  forall o, cnt_of (hp st) o = cn o (roots st) + cn o (allrefs (hp st)).
Proof.
  intros ops st H o. pose proof (run_from_inv ops init st Inv_init H) as [A _ _]. apply A.
Qed.

(* no function leaves a counted reference in a local *)
Lemma step_hand o st st' : step o st = Some st' -> hand st' = [].
Proof.
  unfold step, bind. destruct (body o st) as [s|]; [|discriminate].
  unfold finish. destruct (hand s) eqn:E; [|discriminate]. intros H. inversion H; subst. exact E.
Qed.
Theorem locals_released : forall ops st, run ops = Some st -> hand st = [].
Proof.
  unfold run. intros ops. generalize init, (eq_refl : hand init = []).
  induction ops as [|o r IH]; intros st0 H0 st H; simpl in H.
  - inversion H; subst. exact H0.
  - destruct (step o st0) as [s|] eqn:E; [|discriminate].
    eapply IH; [|exact H]. eapply step_hand; eauto.
Qed.

(* (2) no use after release: whatever a root, a handle or a live object holds
   a counted reference on is alive; released objects hold nothing *)
Theorem no_dangling_reference : forall ops st, run ops = Some st ->
  (forall o, In o (roots st) -> cnt_of (hp st) o > 0) /\
  (forall a ob r, nth_error (hp st) a = Some ob -> In r (orefs ob) ->
                  o_cnt ob > 0 /\ cnt_of (hp st) r > 0).
Proof.
  intros ops st H. pose proof (run_from_inv ops init st Inv_init H) as [A B C]. split.
  - intros o Hin. rewrite (A o). apply cn_in in Hin. lia.
  - intros a ob r Ha Hin. split.
    + destruct (o_cnt ob) eqn:E; [|lia]. rewrite (B a ob Ha E) in Hin. destruct Hin.
    + rewrite (A r). assert (In r (allrefs (hp st))) by (eapply in_allrefs; eauto).
      apply cn_in in H0. lia.
Qed.

Theorem released_objects_hold_nothing : forall ops st, run ops = Some st ->
  forall o ob, nth_error (hp st) o = Some ob -> o_cnt ob = 0 -> o_refs ob = [] /\ o_kids ob = [].
Proof.
  intros ops st H o ob Ho Z. pose proof (run_from_inv ops init st Inv_init H) as [_ B _].
  specialize (B o ob Ho Z). unfold orefs in B. apply app_eq_nil in B. exact B.
Qed.

(* handles keep their data alive: everything reachable through counted
   references from an open handle (snapshot -> wrapper -> footer -> mappings ->
   file, child stacks, child footers; the footers an iterator closes) is alive,
   whatever happened since the handle was opened *)
Inductive reach (h : heap) : oid -> oid -> Prop :=
  | reach_here : forall o, reach h o o
  | reach_step : forall a ob r o, nth_error h a = Some ob -> In r (orefs ob) ->
                                  reach h r o -> reach h a o.

Theorem handle_data_alive : forall ops st, run ops = Some st ->
  forall hd r o, In hd (handles st) -> In r (hrefs hd) -> reach (hp st) r o ->
    cnt_of (hp st) o > 0.
Proof.
  intros ops st H hd r o Hh Hr Hreach.
  destruct (no_dangling_reference ops st H) as [D1 D2].
  assert (L : cnt_of (hp st) r > 0).
  { apply D1. unfold roots. apply in_or_app. right. apply in_or_app. left.
    apply in_flat_map. exists hd. auto. }
  clear Hh Hr. induction Hreach as [o|a ob r o Ha Hin _ IH]; auto.
  apply IH. apply (D2 a ob r Ha Hin).
Qed.

(* when no root holds anything, nothing is alive: references only point
   down the ranks (stack > wrapper > footer > mapping > file), so a live object
   would need an infinite chain of live holders *)
Lemma rank_le6 ob : rank ob <= 6.
Proof. unfold rank. destruct (o_kind ob), (o_top ob); lia. Qed.

Lemma no_roots_all_zero h : ginv h [] -> forall o, cnt_of h o = 0.
Proof.
  intros [A B C].
  assert (K : forall n o ob, nth_error h o = Some ob -> rank ob + n >= 7 -> o_cnt ob = 0).
  { induction n as [|n IH]; intros o ob Ho Hr.
    - pose proof (rank_le6 ob). lia.
    - destruct (o_cnt ob) eqn:E; [reflexivity|]. exfalso.
      pose proof (A o) as Ao. unfold cnt_of in Ao. rewrite Ho, E, cn_nil in Ao.
      assert (In o (allrefs h)) by (apply cn_in; lia).
      apply allrefs_in in H. destruct H as [a [oa [Ha Hin]]].
      destruct (C a oa o Ha Hin) as [ob2 [H2 H3]]. rewrite Ho in H2. inversion H2; subst ob2.
      assert (Z : o_cnt oa = 0) by (apply (IH a oa Ha); lia).
      rewrite (B a oa Ha Z) in Hin. destruct Hin. }
  intros o. unfold cnt_of. destruct (nth_error h o) as [ob|] eqn:Ho; [|reflexivity].
  apply (K 7 o ob Ho). lia.
Qed.

Lemma root_of_nil_all (r : regfile) : root_of r = [] -> forall s, r s = None.
Proof.
  unfold root_of, all_slots. simpl. intros H s.
  destruct (r SFooter) eqn:E1; [discriminate|]. destruct (r SLL) eqn:E2; [discriminate|].
  destruct (r STop) eqn:E3; [discriminate|]. destruct (r SMid) eqn:E4; [discriminate|].
  destruct (r SBase) eqn:E5; [discriminate|]. destruct (r SClean) eqn:E6; [discriminate|].
  destruct (r SCached) eqn:E7; [discriminate|]. destruct (r MMid) eqn:E8; [discriminate|].
  destruct (r MBase) eqn:E9; [discriminate|]. destruct (r PNext) eqn:E10; [discriminate|].
  destruct s; assumption.
Qed.

(* ------------------------------------------------------------------ *)
(* frame properties: a generic argument for any preorder on states that the
   primitives respect *)

Definition sat (R : state -> state -> Prop) (m : M) : Prop :=
  forall st st', m st = Some st' -> R st st'.

Record PrimOK (R : state -> state -> Prop) : Prop := mkPrimOK {
  p_refl : forall st, R st st;
  p_trans : forall a b c, R a b -> R b c -> R a c;
  p_addref : forall o, sat R (addref o);
  p_decref : forall o, sat R (decref o);
  p_alloc : forall k t rs ks f, sat R (alloc k t rs ks f);
  p_setrefs : forall a rs, sat R (setrefs a rs);
  p_pushh : forall h, sat R (pushh h);
  p_poph : forall i, sat R (poph i);
  p_setrm : forall o, sat R (setrm o)
}.

Section Sat.
  Variable R : state -> state -> Prop.
  Hypothesis HP : PrimOK R.

  Lemma sat_ret : sat R ret.
  Proof. intros st st' H. inversion H; subst. apply (p_refl R HP). Qed.
  Lemma sat_bind a b : sat R a -> sat R b -> sat R (a ;; b).
  Proof.
    intros Pa Pb st st' H. unfold bind in H. destruct (a st) as [s|] eqn:E; [|discriminate].
    eapply (p_trans R HP); eauto.
  Qed.
  Lemma sat_rd {A} (f : state -> A) k : (forall a, sat R (k a)) -> sat R (rd f k).
  Proof. intros P st st' H. unfold rd in H. eapply P; eauto. Qed.
  Lemma sat_whenS {A} (x : option A) k : (forall a, sat R (k a)) -> sat R (whenS x k).
  Proof. intros P. destruct x; simpl; [apply P | apply sat_ret]. Qed.
  Lemma sat_each {A} (l : list A) k : (forall a, sat R (k a)) -> sat R (each l k).
  Proof. intros P. induction l; simpl; [apply sat_ret | apply sat_bind; auto]. Qed.
  Lemma sat_guard b m : sat R m -> sat R (guard b m).
  Proof.
    intros P st st' H. unfold guard in H. destruct (b st); [eauto|]. inversion H; subst.
    apply (p_refl R HP).
  Qed.
  Lemma sat_check b : sat R (check b).
  Proof. intros st st' H. unfold check in H. destruct (b st); inversion H; subst. apply (p_refl R HP). Qed.
  Lemma sat_finish : sat R finish.
  Proof. intros st st' H. unfold finish in H. destruct (hand st); inversion H; subst. apply (p_refl R HP). Qed.
  Lemma sat_alloc_k k top rs ks file cont :
    (forall id, sat R (cont id)) -> sat R (alloc_k k top rs ks file cont).
  Proof. intros P. unfold alloc_k. apply sat_rd. intros id. apply sat_bind; auto. apply (p_alloc R HP). Qed.

  Ltac s_step :=
    match goal with
    | |- sat R ret => apply sat_ret
    | |- sat R finish => apply sat_finish
    | |- sat R (check _) => apply sat_check
    | |- sat R (addref _) => apply (p_addref R HP)
    | |- sat R (decref _) => apply (p_decref R HP)
    | |- sat R (setrefs _ _) => apply (p_setrefs R HP)
    | |- sat R (pushh _) => apply (p_pushh R HP)
    | |- sat R (poph _) => apply (p_poph R HP)
    | |- sat R (setrm _) => apply (p_setrm R HP)
    | |- sat R (bind _ _) => apply sat_bind
    | |- sat R (guard _ _) => apply sat_guard
    | |- sat R (rd _ _) => apply sat_rd; intro
    | |- sat R (whenS _ _) => apply sat_whenS; intro
    | |- sat R (each _ _) => apply sat_each; intro
    | |- sat R (alloc_k _ _ _ _ _ _) => apply sat_alloc_k; intro
    | |- sat R (match ?x with _ => _ end) => destruct x
    | |- sat R (if ?x then _ else _) => destruct x
    end.
  Ltac s_go := repeat s_step.

  Lemma sat_odecref x : sat R (odecref x).
  Proof. unfold odecref. s_go. Qed.
  Lemma sat_build_kids n : forall i f acc cont,
    (forall l, sat R (cont l)) -> sat R (build_kids n i f acc cont).
  Proof.
    induction n as [|n IH]; intros i f acc cont P; simpl; [apply P|]. s_go; apply IH; exact P.
  Qed.
  Lemma sat_snapshot_build cont : (forall id, sat R (cont id)) -> sat R (snapshot_build cont).
  Proof. intros P. unfold snapshot_build. s_go; apply sat_build_kids; intro; s_go; apply P. Qed.
  Lemma sat_new_mmaps n : forall fr acc cont,
    (forall l, sat R (cont l)) -> sat R (new_mmaps n fr acc cont).
  Proof.
    induction n as [|n IH]; intros fr acc cont P; simpl; [apply P|]. s_go; apply IH; exact P.
  Qed.
  Lemma sat_load_footer top old nnew fr ks tg cont :
    (forall id, sat R (cont id)) -> sat R (load_footer top old nnew fr ks tg cont).
  Proof. intros P. unfold load_footer. s_go. apply sat_new_mmaps. intro. s_go. apply P. Qed.
  Lemma sat_load_kids n : forall i oldf keep nnew fr acc cont,
    (forall l, sat R (cont l)) -> sat R (load_kids n i oldf keep nnew fr acc cont).
  Proof.
    induction n as [|t n IH]; intros i oldf keep nnew fr acc cont P; simpl; [apply P|].
    s_go. apply sat_load_footer. intro. apply IH. exact P.
  Qed.
  Lemma sat_ll_iter s cont : (forall x, sat R (cont x)) -> sat R (ll_iter s cont).
  Proof. intros P. unfold ll_iter. s_go; apply P. Qed.
  Lemma sat_plain_kids n : forall acc cont,
    (forall l, sat R (cont l)) -> sat R (plain_kids n acc cont).
  Proof. induction n as [|n IH]; intros acc cont P; simpl; [apply P|]. s_go. apply IH. exact P. Qed.
  Lemma sat_merge_kids cs : forall acc cont,
    (forall l, sat R (cont l)) -> sat R (merge_kids cs acc cont).
  Proof. induction cs as [|c r IH]; intros acc cont P; simpl; [apply P|]. s_go; apply IH; exact P. Qed.
  Lemma sat_refresh_kids cs : forall i f, sat R (refresh_kids cs i f).
  Proof.
    induction cs as [|c r IH]; intros i f; simpl; [apply sat_ret|].
    s_go; try apply sat_odecref; apply IH.
  Qed.
End Sat.

(* the driver: prim solves put / take / set_ctl / bump_file / forget for the
   relation at hand *)
Ltac sat_step HP prim :=
  match goal with
  | |- sat _ ret => apply (sat_ret _ HP)
  | |- sat _ finish => apply (sat_finish _ HP)
  | |- sat _ (check _) => apply (sat_check _ HP)
  | |- sat _ (addref _) => apply (p_addref _ HP)
  | |- sat _ (decref _) => apply (p_decref _ HP)
  | |- sat _ (setrefs _ _) => apply (p_setrefs _ HP)
  | |- sat _ (pushh _) => apply (p_pushh _ HP)
  | |- sat _ (poph _) => apply (p_poph _ HP)
  | |- sat _ (setrm _) => apply (p_setrm _ HP)
  | |- sat _ (bind _ _) => apply (sat_bind _ HP)
  | |- sat _ (guard _ _) => apply (sat_guard _ HP)
  | |- sat _ (rd _ _) => apply sat_rd; intro
  | |- sat _ (whenS _ _) => apply (sat_whenS _ HP); intro
  | |- sat _ (each _ _) => apply (sat_each _ HP); intro
  | |- sat _ (alloc_k _ _ _ _ _ _) => apply (sat_alloc_k _ HP); intro
  | |- sat _ (odecref _) => apply (sat_odecref _ HP)
  | |- sat _ (snapshot_build _) => apply (sat_snapshot_build _ HP); intro
  | |- sat _ (load_footer _ _ _ _ _ _ _) => apply (sat_load_footer _ HP); intro
  | |- sat _ (load_kids _ _ _ _ _ _ _ _) => apply (sat_load_kids _ HP); intro
  | |- sat _ (ll_iter _ _) => apply (sat_ll_iter _ HP); intro
  | |- sat _ (plain_kids _ _ _) => apply (sat_plain_kids _ HP); intro
  | |- sat _ (merge_kids _ _ _) => apply (sat_merge_kids _ HP); intro
  | |- sat _ (refresh_kids _ _ _) => apply (sat_refresh_kids _ HP)
  | |- sat _ (build_kids _ _ _ _ _) => apply (sat_build_kids _ HP); intro
  | |- sat _ (new_mmaps _ _ _ _) => apply (sat_new_mmaps _ HP); intro
  | |- sat _ (match ?x with _ => _ end) => destruct x
  | |- sat _ (if ?x then _ else _) => destruct x
  | |- sat _ (put _ _) => prim
  | |- sat _ (take _) => prim
  | |- sat _ (set_ctl _) => prim
  | |- sat _ bump_file => prim
  | |- sat _ unlog => prim
  | |- sat _ (forget _) => prim
  end.
Ltac sat_go HP prim := repeat (sat_step HP prim).
Ltac unfold_ops :=
  unfold step; simpl body;
  unfold op_snap_cached, op_snap_fresh, op_coll_get, op_child_snap, op_store_snap, op_prev,
         op_iter_start, op_iter_seek, op_iter_start_pre_fix, op_iter_seek_pre_fix, op_close_h, op_batch, op_drop_children, op_merger_ingest,
         op_merger_swap, op_merger_handover, op_persist_begin, op_persist_run,
         op_persist_publish, op_coll_close, op_store_close,
         coll_close_body, store_close_body, invalidate, close_slot, compact_full, start_or_reuse, newfile.

(* taking a primitive apart *)
Ltac prim_inv H :=
  repeat match type of H with
         | context [match ?x with _ => _ end] => destruct x eqn:?; try discriminate
         | context [if ?x then _ else _] => destruct x eqn:?; try discriminate
         end;
  inversion H; subst; clear H.

(* ------------------------------------------------------------------ *)
(* instance 1: nothing but the error return of startIterator leaks a reference *)

Definition Rleak (a b : state) : Prop := leaked b = leaked a.

Lemma Rleak_ok : PrimOK Rleak.
Proof.
  constructor; unfold Rleak, sat.
  - reflexivity.
  - intros a b c H1 H2. congruence.
  - intros o st st' H. unfold addref in H. prim_inv H. reflexivity.
  - intros o st st' H. unfold decref in H. prim_inv H. reflexivity.
  - intros k t rs ks f st st' H. unfold alloc in H. prim_inv H. reflexivity.
  - intros a rs st st' H. unfold setrefs in H. prim_inv H. reflexivity.
  - intros h st st' H. unfold pushh in H. prim_inv H. reflexivity.
  - intros i st st' H. unfold poph in H. prim_inv H. reflexivity.
  - intros o st st' H. unfold setrm in H. prim_inv H. reflexivity.
Qed.

Ltac leak_prim :=
  let H := fresh in
  intros ? ? H; unfold Rleak;
  unfold put, take, set_ctl, bump_file, unlog in H;
  prim_inv H; reflexivity.

Lemma step_keeps_leaked o : no_ll_error o = true -> sat Rleak (step o).
Proof.
  intros N. destruct o; try (destruct ik; try discriminate N); unfold_ops;
    sat_go Rleak_ok leak_prim.
Qed.

Theorem no_leak_without_error_return : forall ops st,
  forallb no_ll_error ops = true -> run ops = Some st -> leaked st = [].
Proof.
  unfold run. intros ops. generalize init, (eq_refl : leaked init = []).
  induction ops as [|o r IH]; intros st0 H0 st F H; simpl in *.
  - inversion H; subst. exact H0.
  - apply andb_prop in F. destruct F as [F1 F2].
    destruct (step o st0) as [s|] eqn:E; [|discriminate].
    eapply (IH s); eauto. rewrite (step_keeps_leaked o F1 _ _ E). exact H0.
Qed.

(* ------------------------------------------------------------------ *)
(* instance 2: frames on the root slots and the control state *)

Definition Rfr (ok : slot -> bool) (a b : state) : Prop :=
  ct b = ct a /\ forall s, ok s = false -> regs b s = regs a s.

Lemma Rfr_ok ok : PrimOK (Rfr ok).
Proof.
  constructor; unfold Rfr, sat.
  - auto.
  - intros a b c [H1 H2] [H3 H4]. split; [congruence|]. intros s E. rewrite H4, H2; auto.
  - intros o st st' H. unfold addref in H. prim_inv H. auto.
  - intros o st st' H. unfold decref in H. prim_inv H. auto.
  - intros k t rs ks f st st' H. unfold alloc in H. prim_inv H. auto.
  - intros a rs st st' H. unfold setrefs in H. prim_inv H. auto.
  - intros h st st' H. unfold pushh in H. prim_inv H. auto.
  - intros i st st' H. unfold poph in H. prim_inv H. auto.
  - intros o st st' H. unfold setrm in H. prim_inv H. auto.
Qed.
Lemma rset_other r s v s' : slot_eqb s s' = false -> rset r s v s' = r s'.
Proof. unfold rset. intros ->. reflexivity. Qed.
Lemma slot_eqb_refl s : slot_eqb s s = true.
Proof. destruct s; reflexivity. Qed.
Lemma slot_eqb_eq a b : slot_eqb a b = true -> a = b.
Proof. destruct a, b; simpl; intros H; try discriminate; reflexivity. Qed.
Lemma Rfr_put ok s o : ok s = true -> sat (Rfr ok) (put s o).
Proof.
  intros K st st' H. unfold put in H. prim_inv H. split; auto. simpl. intros s' E.
  apply rset_other. destruct (slot_eqb s s') eqn:Q; auto. apply slot_eqb_eq in Q. congruence.
Qed.
Lemma Rfr_take ok s : ok s = true -> sat (Rfr ok) (take s).
Proof.
  intros K st st' H. unfold take in H. prim_inv H. split; auto. simpl. intros s' E.
  apply rset_other. destruct (slot_eqb s s') eqn:Q; auto. apply slot_eqb_eq in Q. congruence.
Qed.
Lemma Rfr_forget ok o : sat (Rfr ok) (forget o).
Proof. intros st st' H. unfold forget in H. prim_inv H. split; auto. Qed.
Lemma Rfr_unlog ok : sat (Rfr ok) unlog.
Proof. intros st st' H. unfold unlog in H. prim_inv H. split; auto. Qed.

Ltac fr_prim :=
  first [ apply Rfr_put; reflexivity | apply Rfr_take; reflexivity | apply Rfr_forget
        | apply Rfr_unlog ].

(* the operations on handles touch neither a root slot nor the control state *)
Definition handle_op (o : op) : bool :=
  match o with
  | OpChildSnap _ _ | OpStoreSnap | OpPrev _ _ _ _ _ | OpIterStart _ _ | OpIterSeek _ _
  | OpCloseH _ | OpCollGet _ | OpIterStart_pre_fix _ _ | OpIterSeek_pre_fix _ => true
  | _ => false
  end.
Lemma handle_op_frame o : handle_op o = true -> sat (Rfr (fun _ => false)) (step o).
Proof.
  intros N. destruct o; try discriminate N; unfold_ops;
    sat_go (Rfr_ok (fun _ => false)) fr_prim.
Qed.

(* instance 3: only Close changes copen / sopen *)
Definition Rc (a b : state) : Prop :=
  copen (ct b) = copen (ct a) /\ sopen (ct b) = sopen (ct a).
Lemma Rc_ok : PrimOK Rc.
Proof.
  constructor; unfold Rc, sat.
  - auto.
  - intros a b c [H1 H2] [H3 H4]. split; congruence.
  - intros o st st' H. unfold addref in H. prim_inv H. auto.
  - intros o st st' H. unfold decref in H. prim_inv H. auto.
  - intros k t rs ks f st st' H. unfold alloc in H. prim_inv H. auto.
  - intros a rs st st' H. unfold setrefs in H. prim_inv H. auto.
  - intros h st st' H. unfold pushh in H. prim_inv H. auto.
  - intros i st st' H. unfold poph in H. prim_inv H. auto.
  - intros o st st' H. unfold setrm in H. prim_inv H. auto.
Qed.
Ltac rc_prim :=
  let H := fresh in
  intros ? ? H; unfold Rc;
  unfold put, take, set_ctl, bump_file, forget, unlog in H;
  prim_inv H; simpl; auto.
Definition close_op (o : op) : bool :=
  match o with OpCollClose | OpStoreClose => true | _ => false end.
Lemma nonclose_frame o : close_op o = false -> sat Rc (step o).
Proof.
  intros N. destruct o; try discriminate N; unfold_ops; sat_go Rc_ok rc_prim.
Qed.

(* ------------------------------------------------------------------ *)
(* the control invariant: a closed collection / store holds no root *)

Definition Cinv (st : state) : Prop :=
  (copen (ct st) = false ->
     mph (ct st) = 0 /\ pph (ct st) = 0 /\ none_at coll_slots st = true) /\
  (sopen (ct st) = false -> copen (ct st) = false /\ regs st SFooter = None).

Lemma none_at_ext l a b : (forall s, In s l -> regs b s = regs a s) -> none_at l b = none_at l a.
Proof.
  unfold none_at. intros E. induction l as [|s r IH]; simpl; auto.
  rewrite (E s (or_introl eq_refl)). rewrite IH; auto. intros s' Hin. apply E. right. exact Hin.
Qed.

Lemma finish_same st st' : finish st = Some st' -> st' = st.
Proof. unfold finish. destruct (hand st); intros H; inversion H; reflexivity. Qed.

Lemma closed_noop o st st' :
  handle_op o = false -> close_op o = false ->
  copen (ct st) = false -> mph (ct st) = 0 -> pph (ct st) = 0 ->
  step o st = Some st' -> st' = st.
Proof.
  intros N1 N2 C M P H. unfold step, bind in H.
  assert (B : body o st = Some st).
  { destruct o; try discriminate N1; try discriminate N2; simpl;
      unfold op_snap_cached, op_snap_fresh, op_batch, op_drop_children, op_merger_ingest, op_merger_swap,
             op_merger_handover, op_persist_begin, op_persist_run, op_persist_publish, guard;
      rewrite ?C, ?M, ?P; simpl; reflexivity. }
  rewrite B in H. apply finish_same in H. exact H.
Qed.

Lemma step_Cinv o st st' : Cinv st -> step o st = Some st' -> Cinv st'.
Proof.
  intros [C1 C2] H.
  destruct (handle_op o) eqn:N1.
  { destruct (handle_op_frame o N1 st st' H) as [E1 E2].
    unfold Cinv. rewrite E1. rewrite (none_at_ext coll_slots st st'), (E2 SFooter); auto. }
  destruct (close_op o) eqn:N2.
  2:{ destruct (copen (ct st)) eqn:Co.
      - destruct (nonclose_frame o N2 st st' H) as [E1 E2]. split.
        + rewrite E1, Co. discriminate.
        + rewrite E2. intros S. destruct (C2 S) as [X _]. discriminate.
      - destruct (C1 eq_refl) as [M [P _]].
        rewrite (closed_noop o st st' N1 N2 Co M P H). unfold Cinv. rewrite Co. split; auto. }
  destruct o; try discriminate N2; unfold step, bind in H; simpl body in H.
  - (* collection Close *)
    unfold op_coll_close, guard in H.
    destruct (copen (ct st) && (mph (ct st) =? 0) && (pph (ct st) =? 0)) eqn:G.
    + apply andb_prop in G. destruct G as [G G3]. apply andb_prop in G. destruct G as [G1 G2].
      apply Nat.eqb_eq in G2, G3.
      unfold bind in H. destruct (coll_close_body st) as [s1|] eqn:B; [|discriminate].
      unfold check in H. destruct (none_at coll_slots s1) eqn:K; [|discriminate].
      unfold set_ctl in H. simpl in H. apply finish_same in H. subst st'.
      assert (F : Rfr (fun _ => true) st s1).
      { revert B. generalize st s1. change (sat (Rfr (fun _ => true)) coll_close_body).
        unfold coll_close_body, invalidate, close_slot. sat_go (Rfr_ok (fun _ => true)) fr_prim. }
      destruct F as [F1 _]. split; simpl.
      * intros _. rewrite F1. auto.
      * rewrite F1. intros S. destruct (C2 S) as [X _]. congruence.
    + destruct (body OpCollClose st); apply finish_same in H; subst; split; auto.
  - (* store Close *)
    unfold op_store_close, guard in H.
    destruct (sopen (ct st) && negb (copen (ct st))) eqn:G.
    + apply andb_prop in G. destruct G as [G1 G2]. apply negb_true_iff in G2.
      unfold bind in H. destruct (store_close_body st) as [s1|] eqn:B; [|discriminate].
      unfold check in H. destruct (none_at [SFooter] s1) eqn:K; [|discriminate].
      unfold set_ctl in H. simpl in H. apply finish_same in H. subst st'.
      assert (F : Rfr (slot_eqb SFooter) st s1).
      { revert B. generalize st s1. change (sat (Rfr (slot_eqb SFooter)) store_close_body).
        unfold store_close_body, close_slot. sat_go (Rfr_ok (slot_eqb SFooter)) fr_prim. }
      destruct F as [F1 F2]. destruct (C1 G2) as [M [P Q]]. split; simpl.
      * intros _. rewrite F1. split; auto. split; auto.
        change (none_at coll_slots s1 = true). rewrite <- Q. apply none_at_ext.
        intros s Hin. apply F2. destruct s; simpl in Hin; try reflexivity.
        repeat (destruct Hin as [Hin|Hin]; try discriminate Hin). destruct Hin.
      * intros _. rewrite F1. split; auto.
        unfold none_at in K. simpl in K. destruct (regs s1 SFooter); [discriminate|reflexivity].
    + destruct (body OpStoreClose st); apply finish_same in H; subst; split; auto.
Qed.

Lemma Cinv_init : Cinv init.
Proof. split; simpl; discriminate. Qed.

Lemma run_Cinv : forall ops st, run ops = Some st -> Cinv st.
Proof.
  unfold run. intros ops. generalize init, Cinv_init.
  induction ops as [|o r IH]; intros st0 C0 st H; simpl in H.
  - inversion H; subst. exact C0.
  - destruct (step o st0) as [s|] eqn:E; [|discriminate]. eapply IH; [|exact H].
    eapply step_Cinv; eauto.
Qed.

Lemma all_closed_no_roots st : Cinv st -> all_closed st -> hand st = [] -> leaked st = [] ->
  roots st = [].
Proof.
  intros [C1 C2] [H1 [H2 H3]] Hh Hl. destruct (C1 H2) as [_ [_ N]]. destruct (C2 H3) as [_ F].
  unfold roots. rewrite H1, Hh, Hl. simpl. rewrite app_nil_r.
  unfold none_at, coll_slots in N. simpl in N.
  unfold root_of, all_slots. simpl. rewrite F.
  repeat match type of N with
         | context [regs st ?s] => destruct (regs st s); [discriminate N|]
         end.
  reflexivity.
Qed.

(* (4) once every handle, the collection and the store are closed, every
   count is zero: no footer, stack or wrapper is alive, every mapping is
   unmapped and every file descriptor is closed -- provided no reference was
   lost on the error return of startIterator *)
Theorem all_closed_all_released : forall ops st,
  run ops = Some st -> all_closed st -> leaked st = [] ->
  (forall o, cnt_of (hp st) o = 0) /\ open_fds st = [] /\ mappings st = 0.
Proof.
  intros ops st H AC L.
  assert (Z : forall o, cnt_of (hp st) o = 0).
  { apply no_roots_all_zero.
    rewrite <- (all_closed_no_roots st (run_Cinv _ _ H) AC (locals_released _ _ H) L).
    exact (run_from_inv ops init st Inv_init H). }
  split; [exact Z|].
  assert (Zo : forall ob, In ob (hp st) -> o_cnt ob = 0).
  { intros ob Hin. apply In_nth_error in Hin. destruct Hin as [o Ho].
    specialize (Z o). unfold cnt_of in Z. rewrite Ho in Z. exact Z. }
  clear - Zo. unfold open_fds, mappings. split.
  - induction (hp st) as [|ob r IH]; simpl; auto.
    rewrite (Zo ob (or_introl eq_refl)).
    rewrite IH by (intros; apply Zo; right; auto). destruct (o_kind ob); reflexivity.
  - induction (hp st) as [|ob r IH]; simpl; auto.
    rewrite (Zo ob (or_introl eq_refl)).
    destruct (o_kind ob); simpl; apply IH; intros; apply Zo; right; auto.
Qed.

Corollary all_closed_all_released_no_error : forall ops st,
  forallb no_ll_error ops = true -> run ops = Some st -> all_closed st ->
  (forall o, cnt_of (hp st) o = 0) /\ open_fds st = [] /\ mappings st = 0.
Proof.
  intros ops st F H AC. eapply all_closed_all_released; eauto.
  eapply no_leak_without_error_return; eauto.
Qed.

(* ------------------------------------------------------------------ *)
(* instance 4 -- (3): a released object is never revived: its count stays
   zero (AddRef refuses a dead object, DecRef of a dead object does not
   happen), so the references it held were given back exactly once, when its
   count reached zero (release_ginv), and it holds none afterwards *)

Definition hmono (h h' : heap) : Prop :=
  forall o ob, nth_error h o = Some ob ->
    exists ob', nth_error h' o = Some ob' /\ o_kind ob' = o_kind ob /\ o_top ob' = o_top ob /\
                o_file ob' = o_file ob /\ (o_cnt ob = 0 -> o_cnt ob' = 0).

Lemma hmono_refl h : hmono h h.
Proof. intros o ob H. exists ob. auto. Qed.
Lemma hmono_trans a b c : hmono a b -> hmono b c -> hmono a c.
Proof.
  intros H1 H2 o ob H. destruct (H1 o ob H) as [ob1 [A1 [A2 [A3 [A4 A5]]]]].
  destruct (H2 o ob1 A1) as [ob2 [B1 [B2 [B3 [B4 B5]]]]].
  exists ob2. repeat split; try congruence. auto.
Qed.
Lemma hmono_upd h o ob ob' : nth_error h o = Some ob ->
  o_kind ob' = o_kind ob -> o_top ob' = o_top ob -> o_file ob' = o_file ob ->
  (o_cnt ob = 0 -> o_cnt ob' = 0) -> hmono h (upd o ob' h).
Proof.
  intros Ho K T F Z a oa Ha. destruct (Nat.eq_dec o a) as [->|N].
  - rewrite nth_upd_same by (eapply nth_some_lt; eauto). exists ob'.
    rewrite Ho in Ha. inversion Ha; subst. auto.
  - rewrite nth_upd_other by auto. exists oa. auto.
Qed.
Lemma hmono_snoc h ob : hmono h (h ++ [ob]).
Proof.
  intros a oa Ha. exists oa. rewrite nth_error_app1 by (eapply nth_some_lt; eauto). auto.
Qed.

Lemma release_mono : forall fuel work h fs lg h' fs' lg',
  release fuel work h fs lg = Some (h', fs', lg') -> hmono h h'.
Proof.
  induction fuel as [|f IH]; intros work h fs lg h' fs' lg' H.
  - destruct work; simpl in H; [|discriminate]. inversion H; subst. apply hmono_refl.
  - destruct work as [|o w]; simpl in H.
    + inversion H; subst. apply hmono_refl.
    + destruct (nth_error h o) as [ob|] eqn:Ho; [|discriminate].
      destruct (o_cnt ob) as [|[|n]] eqn:Ec; [discriminate| |].
      * eapply hmono_trans; [|eapply IH; exact H]. eapply hmono_upd; eauto.
      * eapply hmono_trans; [|eapply IH; exact H]. eapply hmono_upd; eauto. simpl. lia.
Qed.

Definition Rmono (a b : state) : Prop := hmono (hp a) (hp b).

Lemma Rmono_ok : PrimOK Rmono.
Proof.
  constructor; unfold Rmono, sat.
  - intros. apply hmono_refl.
  - intros a b c. apply hmono_trans.
  - intros o st st' H. unfold addref in H. prim_inv H. simpl. eapply hmono_upd; eauto. simpl. lia.
  - intros o st st' H. unfold decref in H.
    destruct (remove1 o (hand st)); [|discriminate].
    destruct (release _ _ _ _ _) as [[[h fs] lg]|] eqn:E; [|discriminate]. inversion H; subst. simpl.
    eapply release_mono; eauto.
  - intros k t rs ks f st st' H. unfold alloc in H. prim_inv H. simpl. apply hmono_snoc.
  - intros a rs st st' H. unfold setrefs in H. prim_inv H. simpl. eapply hmono_upd; eauto.
  - intros h st st' H. unfold pushh in H. prim_inv H. apply hmono_refl.
  - intros i st st' H. unfold poph in H. prim_inv H. apply hmono_refl.
  - intros o st st' H. unfold setrm in H. prim_inv H. simpl. eapply hmono_upd; eauto.
Qed.
Ltac mono_prim :=
  let H := fresh in
  intros ? ? H; unfold Rmono;
  unfold put, take, set_ctl, bump_file, forget, unlog in H;
  prim_inv H; simpl; apply hmono_refl.
Lemma step_mono o : sat Rmono (step o).
Proof. destruct o; unfold_ops; sat_go Rmono_ok mono_prim. Qed.

Lemma run_from_mono ops : forall st st', run_from st ops = Some st' -> hmono (hp st) (hp st').
Proof.
  induction ops as [|o r IH]; intros st st' H; simpl in H.
  - inversion H; subst. apply hmono_refl.
  - destruct (step o st) as [s|] eqn:E; [|discriminate].
    eapply hmono_trans; [apply (step_mono o st s E) | apply IH; exact H].
Qed.

Theorem released_stays_released : forall ops1 ops2 st1 st2,
  run ops1 = Some st1 -> run_from st1 ops2 = Some st2 ->
  forall o ob, nth_error (hp st1) o = Some ob -> o_cnt ob = 0 ->
    exists ob', nth_error (hp st2) o = Some ob' /\ o_kind ob' = o_kind ob /\
                o_cnt ob' = 0 /\ o_refs ob' = [] /\ o_kids ob' = [].
Proof.
  intros ops1 ops2 st1 st2 H1 H2 o ob Ho Z.
  destruct (run_from_mono ops2 st1 st2 H2 o ob Ho) as [ob' [A [B [_ [_ C]]]]].
  exists ob'. repeat split; auto.
  - assert (I2 : Inv st2) by (eapply run_from_inv; [eapply run_from_inv; [apply Inv_init|exact H1]|exact H2]).
    destruct I2 as [_ D _]. specialize (D o ob' A (C Z)). unfold orefs in D.
    apply app_eq_nil in D. apply D.
  - assert (I2 : Inv st2) by (eapply run_from_inv; [eapply run_from_inv; [apply Inv_init|exact H1]|exact H2]).
    destruct I2 as [_ D _]. specialize (D o ob' A (C Z)). unfold orefs in D.
    apply app_eq_nil in D. apply D.
Qed.

(* one DecRef (with its cascade) gives back exactly the reference it was asked
   to give back: the counting identity holds again without it *)
Theorem decref_gives_back_exactly_one : forall o st st',
  Inv st -> decref o st = Some st' ->
  forall x, cnt_of (hp st') x + (if Nat.eqb o x then 1 else 0) + cn x (allrefs (hp st))
            = cnt_of (hp st) x + cn x (allrefs (hp st')).
Proof.
  intros o st st' I H x. pose proof (pres_decref o st st' I H) as [A' _ _].
  destruct I as [A _ _]. specialize (A x). specialize (A' x).
  unfold decref in H. destruct (remove1 o (hand st)) as [l|] eqn:R; [|discriminate].
  destruct (release _ _ _ _ _) as [[[h fs] lg]|]; [|discriminate]. inversion H; subst; clear H.
  pose proof (remove1_cn _ _ _ R x) as Q. revert A A'. unfold roots. simpl.
  repeat rewrite cn_app. intros A A'. lia.
Qed.

(* ------------------------------------------------------------------ *)
(* the CURRENT code (repairs 75e1b64, 8951c44, 1882285): no operation loses a
   reference, so closing everything releases everything, unconditionally *)

Lemma current_no_ll_error o : current_code o = true -> no_ll_error o = true.
Proof. intros H. destruct o; try reflexivity; discriminate H. Qed.
Lemma forallb_current_no_ll_error ops :
  forallb current_code ops = true -> forallb no_ll_error ops = true.
Proof.
  induction ops as [|o r IH]; simpl; auto. intros H. apply andb_prop in H. destruct H as [H1 H2].
  rewrite (current_no_ll_error o H1), (IH H2). reflexivity.
Qed.

Theorem no_leak_in_current_code : forall ops st,
  forallb current_code ops = true -> run ops = Some st -> leaked st = [].
Proof.
  intros ops st F H. eapply no_leak_without_error_return; eauto.
  apply forallb_current_no_ll_error. exact F.
Qed.

Theorem all_closed_all_released_current_code : forall ops st,
  forallb current_code ops = true -> run ops = Some st -> all_closed st ->
  (forall o, cnt_of (hp st) o = 0) /\ open_fds st = [] /\ mappings st = 0.
Proof.
  intros ops st F H AC. eapply all_closed_all_released_no_error; eauto.
  apply forallb_current_no_ll_error. exact F.
Qed.

(* a heap iterator owns a counted reference on the stack it was started on
   (repair 75e1b64): the stack, its lower-level snapshot and everything below
   stay alive as long as the iterator is open, whatever is closed meanwhile *)
Theorem iterator_stack_alive : forall ops st, run ops = Some st ->
  forall s ll c, In (HIter (Some s) ll c) (handles st) ->
    cnt_of (hp st) s > 0 /\ forall o, reach (hp st) s o -> cnt_of (hp st) o > 0.
Proof.
  intros ops st H s ll c Hin. split.
  - apply (handle_data_alive ops st H (HIter (Some s) ll c) s s Hin); [left; reflexivity|constructor].
  - intros o R. apply (handle_data_alive ops st H (HIter (Some s) ll c) s o Hin); [left; reflexivity|exact R].
Qed.

Definition round (nc : bool) (m : pmode) (cache : bool) : list op :=
  [OpBatch nc; OpMergerIngest; OpMergerSwap BrMerged; OpMergerHandover;
   OpPersistBegin; OpPersistRun m; OpPersistPublish cache].

(* the history that broke the pre-repair iterator (R1 below): the snapshot is
   closed before its iterator and the cached copy invalidated; SeekTo then
   re-creates the cursors and keeps the lower-level cursor *)
Definition w_iter : list op :=
  round false (PAppend false 1 0) false ++
  [OpBatch false; OpSnapFresh; OpIterStart 0 IKHeap; OpCloseH 0; OpBatch false; OpIterSeek 0 SKLower].
Example iterator_keeps_lower_level :
  forallb current_code w_iter = true /\
  option_map (fun st => (handles st, borrow_safe_b st)) (run w_iter)
  = Some ([HIter (Some 10) (Some 7) None], true).
Proof. vm_compute. split; reflexivity. Qed.

(* ------------------------------------------------------------------ *)
(* what the code did NOT guarantee before the repairs (operations ..._pre_fix),
   and what the current code still does not (R2b) : witnesses *)

(* R1 (before 75e1b64). An iterator started on a collection snapshot kept only
   a BORROWED pointer to the snapshot's segmentStack (iterator.ss): it took no
   reference.  Once the snapshot handle is closed and the cached copy
   invalidated (any batch, merger cycle or persistence round), the stack is
   released while the open iterator still points to it. *)
Definition w_iter_pre_fix : list op :=
  round false (PAppend false 1 0) false ++
  [OpBatch false; OpSnapFresh; OpIterStart_pre_fix 0 IKHeap; OpCloseH 0; OpBatch false].

Theorem iterator_borrow_safe_refuted_pre_fix :
  exists ops st, forallb no_ll_error ops = true /\ run ops = Some st /\ ~ borrow_safe st.
Proof.
  exists w_iter_pre_fix. destruct (run w_iter_pre_fix) as [st|] eqn:E; [|vm_compute in E; discriminate].
  exists st. split; [reflexivity|]. split; [reflexivity|].
  intros B. assert (X : borrow_safe_b st = true).
  { unfold borrow_safe_b. apply forallb_forall. intros o Hin. apply Nat.ltb_lt. apply B. exact Hin. }
  revert X. vm_compute in E. inversion E; subst. vm_compute. discriminate.
Qed.

(* ... and what the code then did through that pointer: SeekTo restarting
   re-creates the cursors from iter.ss, whose lowerLevelSnapshot was set to nil
   by the release (segment_stack.go:55-58): the iterator silently lost its
   lower-level cursor although the store footer it was reading is still alive
   and current. *)
Theorem iterator_keeps_lower_level_refuted_pre_fix :
  exists ops st st' s f,
    run ops = Some st /\ nth_error (handles st) 0 = Some (HIter_pre_fix (Some s) (Some f) None) /\
    run (ops ++ [OpIterSeek_pre_fix 0]) = Some st' /\
    nth_error (handles st') 0 = Some (HIter_pre_fix (Some s) None None) /\
    regs st' SFooter = Some f /\ cnt_of (hp st') f > 0.
Proof.
  exists w_iter_pre_fix.
  destruct (run w_iter_pre_fix) as [st|] eqn:E; [|vm_compute in E; discriminate].
  destruct (run (w_iter_pre_fix ++ [OpIterSeek_pre_fix 0])) as [st'|] eqn:E'; [|vm_compute in E'; discriminate].
  exists st, st', 10, 7. vm_compute in E. inversion E; subst. vm_compute in E'. inversion E'; subst.
  repeat split; vm_compute; lia.
Qed.

(* R2. "Only the current data file remains" fails.
   (a) (before 1882285) data only in child collections, appended; then a full
       compaction: compactMaybe looked for the file to unlink through
       slocs[0].mref.fref of the TOP-LEVEL footer only, so the old file was
       never registered for removal. *)
Definition w_files_a_pre_fix : list op :=
  round true (PAppend false 0 1) false ++ round false PCompactFull_pre_fix false ++
  [OpCollClose; OpStoreClose].
Definition w_files_a : list op :=
  round true (PAppend false 0 1) false ++ round false PCompactFull false ++
  [OpCollClose; OpStoreClose].
(* (b) (CURRENT code, known finding F31) the only child collection holding data
       is dropped: the new footer has no segment at all, the file is closed
       and forgotten, the next round starts a new file. *)
Definition w_files_b : list op :=
  round true (PAppend false 0 1) false ++
  [OpDropChildren; OpMergerIngest; OpMergerSwap BrMerged; OpMergerHandover;
   OpPersistBegin; OpPersistRun (PAppend false 0 0); OpPersistPublish false] ++
  round false (PAppend false 1 0) false ++ [OpCollClose; OpStoreClose].

Definition stale_file (st : state) : Prop :=
  exists f, In f (files st) /\ cur (ct st) <> Some f.

Theorem only_current_file_refuted_pre_fix :
  exists st, forallb no_ll_error w_files_a_pre_fix = true /\ run w_files_a_pre_fix = Some st /\
             all_closed st /\ stale_file st.
Proof.
  destruct (run w_files_a_pre_fix) as [st|] eqn:E; [|vm_compute in E; discriminate].
  exists st. vm_compute in E. inversion E; subst.
  repeat split; try reflexivity. exists 1. split; [vm_compute; auto|vm_compute; discriminate].
Qed.

(* the same history on the current code leaves the current file only *)
Example only_current_file_witness_a_current_code :
  forallb current_code w_files_a = true /\
  option_map (fun st => (files st, cur (ct st), all_closed_b st)) (run w_files_a)
  = Some ([2], Some 2, true).
Proof. vm_compute. split; reflexivity. Qed.

(* NOT repaired: a refutation of the current code *)
Theorem only_current_file_refuted :
  exists st, forallb current_code w_files_b = true /\ run w_files_b = Some st /\
             all_closed st /\ stale_file st.
Proof.
  destruct (run w_files_b) as [st|] eqn:E; [|vm_compute in E; discriminate].
  exists st. vm_compute in E. inversion E; subst.
  repeat split; try reflexivity. exists 1. split; [vm_compute; auto|vm_compute; discriminate].
Qed.

(* R3 (before 8951c44). The error return of segmentStack.startIterator
   (lowerLevelIter.Current() failing, e.g. a merge operator that fails) dropped
   the lower-level iterator without Close(): its closer, one reference on the
   store footer, was never released. *)
Definition w_leak_pre_fix : list op :=
  round false (PAppend false 1 0) false ++
  [OpSnapFresh; OpIterStart_pre_fix 0 IKLLError; OpCloseH 0; OpCollClose; OpStoreClose].
Definition w_leak : list op :=
  round false (PAppend false 1 0) false ++
  [OpSnapFresh; OpIterStart 0 IKLLError; OpCloseH 0; OpCollClose; OpStoreClose].

Theorem all_released_with_error_return_refuted_pre_fix :
  exists st o, run w_leak_pre_fix = Some st /\ all_closed st /\
               cnt_of (hp st) o > 0 /\ open_fds st <> [] /\ mappings st > 0.
Proof.
  destruct (run w_leak_pre_fix) as [st|] eqn:E; [|vm_compute in E; discriminate].
  exists st, 7. vm_compute in E. inversion E; subst.
  repeat split; try reflexivity; vm_compute; try lia; discriminate.
Qed.

Example all_released_with_error_return_current_code :
  forallb current_code w_leak = true /\
  option_map (fun st => (all_closed_b st, leaked st, open_fds st, mappings st)) (run w_leak)
  = Some (true, [], [], 0).
Proof. vm_compute. split; reflexivity. Qed.

(* ------------------------------------------------------------------ *)
(* the persister's borrowed stackDirtyBase (persister.go:62) is safe: while
   the persister works on it the collection keeps it as m.stackDirtyBase *)

Definition Rp (tb : bool) (a b : state) : Prop :=
  pph (ct b) = pph (ct a) /\ pbase (ct b) = pbase (ct a) /\
  (tb = true -> regs b SBase = regs a SBase).

Lemma Rp_ok tb : PrimOK (Rp tb).
Proof.
  constructor; unfold Rp, sat.
  - auto.
  - intros a b c [H1 [H2 H3]] [H4 [H5 H6]]. repeat split; try congruence.
    intros T. rewrite H6, H3; auto.
  - intros o st st' H. unfold addref in H. prim_inv H. auto.
  - intros o st st' H. unfold decref in H. prim_inv H. auto.
  - intros k t rs ks f st st' H. unfold alloc in H. prim_inv H. auto.
  - intros a rs st st' H. unfold setrefs in H. prim_inv H. auto.
  - intros h st st' H. unfold pushh in H. prim_inv H. auto.
  - intros i st st' H. unfold poph in H. prim_inv H. auto.
  - intros o st st' H. unfold setrm in H. prim_inv H. auto.
Qed.
Ltac rp_prim :=
  let H := fresh in
  intros ? ? H; unfold Rp;
  unfold put, take, set_ctl, bump_file, forget, unlog in H;
  prim_inv H; simpl; repeat split; auto; try (intro; discriminate).

Definition Pinv (st : state) : Prop :=
  (pph (ct st) = 0 -> pbase (ct st) = None) /\
  (pph (ct st) <> 0 -> pbase (ct st) = regs st SBase /\ is_some (pbase (ct st)) = true).

Definition pp_special (o : op) : bool :=
  match o with
  | OpPersistBegin | OpPersistRun _ | OpPersistPublish _ | OpMergerHandover | OpCollClose => true
  | _ => false
  end.
Lemma pp_frame o : pp_special o = false -> sat (Rp true) (step o).
Proof.
  intros N. destruct o; try discriminate N; unfold_ops; sat_go (Rp_ok true) rp_prim.
Qed.

Lemma step_Pinv o st st' : Pinv st -> step o st = Some st' -> Pinv st'.
Proof.
  intros [P1 P2] H. destruct (pp_special o) eqn:N.
  2:{ destruct (pp_frame o N st st' H) as [E1 [E2 E3]]. unfold Pinv. rewrite E1, E2, E3; auto. }
  destruct o; try discriminate N; unfold step, bind in H; simpl body in H.
  - (* hand-over *)
    destruct (regs st SBase) as [b0|] eqn:B.
    + assert (X : op_merger_handover st = Some st \/
                  op_merger_handover st = Some (with_ct st (c_mph 0 (ct st)))).
      { unfold op_merger_handover, guard. destruct (mph (ct st) =? 2); auto.
        right. unfold bind, rd, reg. rewrite B. destruct (regs st SMid); reflexivity. }
      destruct X as [X|X]; rewrite X in H; apply finish_same in H; subst st';
        unfold Pinv; simpl; rewrite B; split; auto.
    + assert (Z : pph (ct st) = 0).
      { destruct (pph (ct st)) eqn:Q; auto. destruct P2 as [E1 E2]; [discriminate|].
        rewrite E1 in E2. discriminate. }
      destruct (op_merger_handover st) as [s1|] eqn:E; [|discriminate].
      apply finish_same in H. subst st'.
      assert (F : Rp false st s1).
      { revert E. generalize st s1. change (sat (Rp false) op_merger_handover).
        unfold op_merger_handover. sat_go (Rp_ok false) rp_prim. }
      destruct F as [F1 [F2 _]]. unfold Pinv. rewrite F1, F2. split; auto. intros X. contradiction.
  - (* persister takes the base *)
    unfold op_persist_begin, guard in H.
    destruct (copen (ct st) && (pph (ct st) =? 0) && is_some (reg SBase st)) eqn:G.
    + unfold rd, set_ctl in H. simpl in H. apply finish_same in H. subst st'.
      apply andb_prop in G. destruct G as [_ G]. split; simpl; [discriminate|]. intros _. split; auto.
    + apply finish_same in H. subst. split; auto.
  - (* Store.persist *)
    unfold op_persist_run, guard in H.
    destruct ((pph (ct st) =? 1) && sopen (ct st) && is_some (reg SFooter st)) eqn:G.
    + apply andb_prop in G. destruct G as [G G3]. apply andb_prop in G. destruct G as [G1 _].
      apply Nat.eqb_eq in G1.
      unfold rd at 1 in H. destruct (reg SFooter st) as [f|]; [|discriminate G3]. simpl whenS in H.
      unfold bind at 1 in H.
      match type of H with context [match ?X st with _ => _ end] => destruct (X st) as [s1|] eqn:E;
        [assert (F : Rp true st s1);
         [revert E; generalize st s1;
          match goal with |- forall a b, ?m a = Some b -> _ => change (sat (Rp true) m) end;
          unfold compact_full, start_or_reuse, newfile; sat_go (Rp_ok true) rp_prim|]
        | discriminate] end.
      unfold set_ctl in H. simpl in H. apply finish_same in H. subst st'.
      destruct F as [F1 [F2 F3]]. destruct P2 as [E1 E2]; [lia|].
      split; simpl; [discriminate|]. intros _. rewrite F2, F3; auto.
    + apply finish_same in H. subst. split; auto.
  - (* publish *)
    unfold op_persist_publish, guard in H. destruct (pph (ct st) =? 2).
    + unfold bind in H.
      repeat match type of H with
             | match match ?X with _ => _ end with _ => _ end = _ => destruct X; [|discriminate]
             end.
      unfold set_ctl in H. simpl in H. apply finish_same in H. subst st'.
      split; simpl; auto. intros X. contradiction.
    + apply finish_same in H. subst. split; auto.
  - (* collection Close *)
    unfold op_coll_close, guard in H.
    destruct (copen (ct st) && (mph (ct st) =? 0) && (pph (ct st) =? 0)) eqn:G.
    + apply andb_prop in G. destruct G as [_ G3]. apply Nat.eqb_eq in G3.
      destruct ((coll_close_body;; check (none_at coll_slots);; set_ctl (c_copen false)) st)
        as [s1|] eqn:E; [|discriminate].
      apply finish_same in H. subst st'.
      assert (F : Rp false st s1).
      { revert E. generalize st s1.
        match goal with |- forall a b, ?m a = Some b -> _ => change (sat (Rp false) m) end.
        unfold coll_close_body, invalidate, close_slot. sat_go (Rp_ok false) rp_prim. }
      destruct F as [F1 [F2 _]]. unfold Pinv. rewrite F1, F2. split; auto. intros X. contradiction.
    + apply finish_same in H. subst. split; auto.
Qed.

Lemma Pinv_init : Pinv init.
Proof. split; simpl; auto; intros X; contradiction. Qed.

Theorem persister_borrow_safe : forall ops st, run ops = Some st ->
  forall b, pbase (ct st) = Some b -> regs st SBase = Some b /\ cnt_of (hp st) b > 0.
Proof.
  intros ops st H b Hb.
  assert (P : Pinv st).
  { revert H. unfold run. generalize init, Pinv_init. induction ops as [|o r IH]; intros s0 P0 H; simpl in H.
    - inversion H; subst. exact P0.
    - destruct (step o s0) as [s|] eqn:E; [|discriminate]. eapply IH; [|exact H]. eapply step_Pinv; eauto. }
  destruct P as [P1 P2].
  assert (N : pph (ct st) <> 0) by (intros Z; rewrite (P1 Z) in Hb; discriminate).
  destruct (P2 N) as [E _]. rewrite Hb in E. split; auto.
  apply (proj1 (no_dangling_reference ops st H)). unfold roots. apply in_or_app. left.
  unfold root_of, all_slots. simpl. rewrite <- E. repeat (rewrite ?in_app_iff; simpl).
  destruct (regs st SFooter), (regs st SLL), (regs st STop), (regs st SMid); simpl; auto 10.
Qed.

(* ------------------------------------------------------------------ *)
(* the model against the implementation, STATIC part (the live tie is the
   director family "owners" with ocaml/ownersrun.ml over OwnersScenarios.v).
   These five traces were recorded BEFORE repairs 75e1b64 / 8951c44 / 1882285:
   scenario3 and scenario5, whose iterators hold a stack, use the ..._pre_fix
   operations; the others do not touch repaired code.  The reference-count events recorded
   from the real code (hook verifRef of /repo/verif_on.go, kind and count after
   each change, in order) for four scripted scenarios are, event for event,
   the events the model produces for the corresponding operation sequences *)

Definition ev_view (ops : list op) : option (list (kind * nat)) :=
  option_map (map (fun e => (fst (fst e), snd e))) (run_events ops).

(* two appended rounds (CompactionDisable); fresh and cached collection snapshot, store
   snapshot, iterator on the collection snapshot (everything persisted: the footer's own
   iterator is handed out); closes *)
Definition scenario1 : list op :=
  round false (PAppend false 1 0) false ++ round false (PAppend false 1 0) false ++
  [OpSnapFresh; OpSnapCached; OpStoreSnap; OpIterStart 0 IKLower;
   OpCloseH 3; OpCloseH 0; OpCloseH 0; OpCloseH 0; OpCollClose; OpStoreClose].
Definition recorded1 : list (kind * nat) :=
  [
   (KWrap, 2); (KStack, 0); (KWrap, 3); (KStack, 1); (KStack, 2); (KStack, 0); (KWrap, 2);
   (KStack, 1); (KWrap, 3); (KWrap, 2); (KFooter, 3); (KFooter, 2); (KFile, 2); (KFooter, 2);
   (KFooter, 1); (KFile, 1); (KStack, 0); (KWrap, 1); (KWrap, 0); (KFooter, 0); (KWrap, 2);
   (KStack, 0); (KWrap, 3); (KStack, 1); (KStack, 2); (KStack, 0); (KWrap, 2); (KStack, 1);
   (KWrap, 3); (KWrap, 2); (KFooter, 3); (KFile, 2); (KFooter, 2); (KMmap, 2); (KFile, 3);
   (KFooter, 2); (KFooter, 1); (KFile, 2); (KStack, 0); (KWrap, 1); (KWrap, 0); (KFooter, 0);
   (KMmap, 1); (KWrap, 2); (KStack, 2); (KStack, 3); (KFooter, 3); (KWrap, 3); (KFooter, 4);
   (KWrap, 2); (KFooter, 3); (KStack, 2); (KStack, 1); (KFooter, 2); (KStack, 0); (KWrap, 1);
   (KWrap, 0); (KFooter, 1); (KFooter, 0); (KMmap, 0); (KFile, 1); (KMmap, 0); (KFile, 0)
  ].
Example model_matches_recorded_trace1 : ev_view scenario1 = Some recorded1.
Proof. vm_compute. reflexivity. Qed.

(* a child collection, CompactionForce (every round compacts into a new file and unlinks
   the old one); store snapshot, its child snapshot, SnapshotPrevious (none), collection
   snapshot, its child snapshot, iterator on that; closes *)
Definition scenario2 : list op :=
  round true PCompactFull false ++ round false PCompactFull false ++
  [OpStoreSnap; OpChildSnap 0 0; OpPrev 0 false 0 0 0; OpSnapFresh; OpChildSnap 2 0;
   OpIterStart 3 IKLower; OpCloseH 4; OpCloseH 3; OpCloseH 2; OpCloseH 1; OpCloseH 0;
   OpCollClose; OpStoreClose].
Definition recorded2 : list (kind * nat) :=
  [
   (KWrap, 2); (KStack, 0); (KStack, 0); (KWrap, 3); (KStack, 1); (KStack, 2); (KStack, 0);
   (KWrap, 2); (KStack, 0); (KStack, 1); (KWrap, 3); (KWrap, 2); (KFooter, 3); (KFooter, 4);
   (KFile, 2); (KFile, 3); (KFooter, 3); (KFile, 2); (KFooter, 4); (KFooter, 3); (KFooter, 2);
   (KFooter, 1); (KFooter, 2); (KStack, 0); (KWrap, 1); (KStack, 0); (KWrap, 0); (KFooter, 0);
   (KWrap, 2); (KFooter, 2); (KStack, 0); (KStack, 0); (KWrap, 3); (KWrap, 2); (KStack, 1);
   (KStack, 2); (KStack, 0); (KWrap, 2); (KStack, 0); (KWrap, 1); (KStack, 1); (KWrap, 3);
   (KWrap, 2); (KFooter, 3); (KWrap, 0); (KFooter, 2); (KFooter, 3); (KFooter, 4); (KFile, 2);
   (KFile, 3); (KFooter, 3); (KFile, 2); (KFooter, 4); (KFooter, 3); (KFooter, 2);
   (KFooter, 1); (KFooter, 2); (KStack, 0); (KWrap, 1); (KStack, 0); (KWrap, 0); (KFooter, 1);
   (KWrap, 0); (KFooter, 0); (KMmap, 0); (KFile, 1); (KFooter, 0); (KMmap, 0); (KFile, 0);
   (KFooter, 3); (KFooter, 2); (KFooter, 4); (KFooter, 3); (KWrap, 2); (KFooter, 3);
   (KStack, 2); (KStack, 2); (KWrap, 2); (KFooter, 4); (KWrap, 1); (KFooter, 3); (KStack, 1);
   (KStack, 1); (KFooter, 2); (KFooter, 2); (KStack, 0); (KWrap, 1); (KStack, 0); (KWrap, 0);
   (KFooter, 1); (KWrap, 0); (KFooter, 1); (KFooter, 0); (KMmap, 0); (KFile, 1); (KFooter, 0);
   (KMmap, 0); (KFile, 0)
  ].
Example model_matches_recorded_trace2 : ev_view scenario2 = Some recorded2.
Proof. vm_compute. reflexivity. Qed.

(* CompactionAllow with CachePersisted: three appended rounds (compactMaybe declines), a
   partial compaction keeping the first segment location; heap iterator with a lower-level
   iterator, SeekTo backwards, snapshot closed before the iterator *)
Definition scenario3 : list op :=
  round false (PAppend true 1 0) true ++ round false (PAppend true 1 0) true ++
  round false (PAppend true 1 0) true ++ round false (PCompactPartial 1) true ++
  [OpSnapFresh; OpIterStart_pre_fix 0 IKHeap; OpIterSeek_pre_fix 1; OpCloseH 0; OpCloseH 0;
   OpCollClose; OpStoreClose].
Definition recorded3 : list (kind * nat) :=
  [
   (KWrap, 2); (KStack, 0); (KWrap, 3); (KStack, 1); (KStack, 2); (KStack, 0); (KWrap, 2);
   (KStack, 1); (KWrap, 3); (KWrap, 2); (KFooter, 3); (KFooter, 4); (KFooter, 3); (KFooter, 2);
   (KFooter, 3); (KFooter, 2); (KFile, 2); (KFooter, 2); (KFooter, 1); (KFile, 1); (KWrap, 1);
   (KWrap, 2); (KStack, 0); (KWrap, 3); (KStack, 1); (KStack, 2); (KStack, 0); (KWrap, 2);
   (KStack, 1); (KWrap, 3); (KWrap, 2); (KFooter, 3); (KFooter, 4); (KFooter, 3); (KFooter, 2);
   (KFooter, 3); (KFile, 2); (KFooter, 2); (KMmap, 2); (KFile, 3); (KFooter, 2); (KFooter, 1);
   (KFile, 2); (KStack, 0); (KWrap, 0); (KFooter, 0); (KWrap, 1); (KWrap, 2); (KStack, 0);
   (KWrap, 3); (KStack, 1); (KStack, 2); (KStack, 0); (KWrap, 2); (KStack, 1); (KWrap, 3);
   (KWrap, 2); (KFooter, 3); (KFooter, 4); (KFooter, 3); (KFooter, 2); (KFooter, 3);
   (KFile, 3); (KFooter, 2); (KMmap, 3); (KMmap, 2); (KFile, 4); (KFooter, 2); (KFooter, 1);
   (KFile, 3); (KStack, 0); (KWrap, 0); (KFooter, 0); (KMmap, 2); (KWrap, 1); (KWrap, 2);
   (KStack, 0); (KWrap, 3); (KStack, 1); (KStack, 2); (KStack, 0); (KWrap, 2); (KStack, 1);
   (KWrap, 3); (KWrap, 2); (KFooter, 3); (KFooter, 4); (KFooter, 5); (KFile, 4); (KFooter, 4);
   (KMmap, 3); (KFile, 5); (KFooter, 3); (KFile, 4); (KFooter, 4); (KFooter, 3); (KFooter, 2);
   (KFooter, 1); (KFooter, 2); (KStack, 0); (KWrap, 0); (KFooter, 0); (KMmap, 2); (KMmap, 1);
   (KWrap, 1); (KWrap, 2); (KStack, 2); (KWrap, 3); (KFooter, 3); (KWrap, 2); (KWrap, 3);
   (KFooter, 4); (KWrap, 2); (KFooter, 3); (KStack, 1); (KFooter, 2); (KStack, 0); (KWrap, 1);
   (KWrap, 0); (KFooter, 1); (KStack, 0); (KWrap, 0); (KFooter, 0); (KMmap, 1); (KMmap, 0);
   (KFile, 3); (KMmap, 0); (KFile, 2); (KFooter, 0); (KMmap, 0); (KFile, 1); (KMmap, 0);
   (KFile, 0)
  ].
Example model_matches_recorded_trace3 : ev_view scenario3 = Some recorded3.
Proof. vm_compute. reflexivity. Qed.

(* a child collection dropped and recreated while the persister is parked (VerifGate) at
   persister:begin of the round that persists the drop: the merger and a user snapshot see
   the prior incarnation in the lower level (childFooter.Close()), the empty-mid branch of
   mergerMain, the merger's reference on the base, the child refresh at hand-over *)
Definition scenario4 : list op :=
  round true (PAppend false 1 1) false ++
  [OpDropChildren; OpMergerIngest; OpMergerSwap BrEmpty; OpMergerHandover; OpPersistBegin;
   OpBatch true; OpMergerIngest; OpMergerSwap BrMerged; OpMergerHandover;
   OpSnapFresh;
   OpPersistRun (PAppend false 0 0); OpPersistPublish false;
   OpMergerIngest; OpMergerSwap BrMerged; OpMergerHandover; OpPersistBegin;
   OpPersistRun (PAppend false 0 1); OpPersistPublish false;
   OpCloseH 0; OpCollClose; OpStoreClose].
Definition recorded4 : list (kind * nat) :=
  [
   (KWrap, 2); (KStack, 0); (KStack, 0); (KWrap, 3); (KStack, 1); (KStack, 2); (KStack, 0);
   (KWrap, 2); (KStack, 0); (KStack, 1); (KWrap, 3); (KWrap, 2); (KFooter, 3); (KFooter, 2);
   (KFile, 2); (KFile, 3); (KFooter, 2); (KFooter, 1); (KFile, 2); (KStack, 0); (KWrap, 1);
   (KStack, 0); (KWrap, 0); (KFooter, 0); (KWrap, 2); (KStack, 0); (KStack, 3); (KStack, 2);
   (KStack, 1); (KWrap, 3); (KWrap, 2); (KWrap, 3); (KFooter, 2); (KFooter, 1); (KStack, 2);
   (KStack, 0); (KStack, 0); (KWrap, 4); (KStack, 1); (KStack, 2); (KStack, 0); (KWrap, 3);
   (KStack, 0); (KStack, 1); (KStack, 1); (KWrap, 4); (KFooter, 2); (KFooter, 1); (KStack, 2);
   (KFooter, 3); (KFile, 3); (KFooter, 2); (KMmap, 2); (KFooter, 2); (KFooter, 1); (KFile, 2);
   (KStack, 1); (KStack, 0); (KWrap, 3); (KWrap, 2); (KWrap, 2); (KStack, 0); (KWrap, 1);
   (KStack, 0); (KWrap, 3); (KStack, 1); (KStack, 2); (KStack, 0); (KWrap, 2); (KStack, 0);
   (KStack, 1); (KWrap, 3); (KWrap, 2); (KFooter, 3); (KFile, 3); (KFooter, 2); (KFile, 4);
   (KMmap, 3); (KFooter, 2); (KFooter, 1); (KFile, 3); (KStack, 0); (KWrap, 1); (KStack, 0);
   (KWrap, 0); (KFooter, 0); (KMmap, 2); (KStack, 0); (KWrap, 0); (KFooter, 0); (KMmap, 1);
   (KFooter, 0); (KMmap, 0); (KFile, 2); (KStack, 0); (KWrap, 0); (KFooter, 1); (KFooter, 0);
   (KMmap, 0); (KFile, 1); (KFooter, 0); (KMmap, 0); (KFile, 0)
  ].
Example model_matches_recorded_trace4 : ev_view scenario4 = Some recorded4.
Proof. vm_compute. reflexivity. Qed.

(* history walk (SnapshotPrevious finding a footer, then none), Collection.Get reaching
   the lower level, iterators with SkipLowerLevel and with a lower-level iterator that is
   done at once, an idle merger cycle (NotifyMerger) handing an empty stack to the
   persister, which just takes a store snapshot *)
Definition scenario5 : list op :=
  round false (PAppend false 1 0) false ++ round false (PAppend false 1 0) false ++
  [OpStoreSnap; OpPrev 0 true 1 0 0; OpPrev 1 false 0 0 0; OpCollGet true; OpSnapFresh;
   OpIterStart_pre_fix 2 IKSkipLL; OpIterStart_pre_fix 2 IKLLDone;
   OpMergerIngest; OpMergerSwap BrEmpty; OpMergerHandover; OpPersistBegin;
   OpPersistRun (PAppend false 0 0); OpPersistPublish false;
   OpCloseH 4; OpCloseH 3; OpCloseH 2; OpCloseH 1; OpCloseH 0; OpCollClose; OpStoreClose].
Definition recorded5 : list (kind * nat) :=
  [
   (KWrap, 2); (KStack, 0); (KWrap, 3); (KStack, 1); (KStack, 2); (KStack, 0); (KWrap, 2);
   (KStack, 1); (KWrap, 3); (KWrap, 2); (KFooter, 3); (KFooter, 2); (KFile, 2); (KFooter, 2);
   (KFooter, 1); (KFile, 1); (KStack, 0); (KWrap, 1); (KWrap, 0); (KFooter, 0); (KWrap, 2);
   (KStack, 0); (KWrap, 3); (KStack, 1); (KStack, 2); (KStack, 0); (KWrap, 2); (KStack, 1);
   (KWrap, 3); (KWrap, 2); (KFooter, 3); (KFile, 2); (KFooter, 2); (KMmap, 2); (KFile, 3);
   (KFooter, 2); (KFooter, 1); (KFile, 2); (KStack, 0); (KWrap, 1); (KWrap, 0); (KFooter, 0);
   (KMmap, 1); (KFooter, 3); (KFooter, 4); (KFile, 3); (KFooter, 3); (KFooter, 2);
   (KFooter, 1); (KWrap, 2); (KFooter, 4); (KFooter, 3); (KWrap, 1); (KWrap, 2); (KStack, 2);
   (KWrap, 3); (KFooter, 4); (KWrap, 2); (KFooter, 3); (KWrap, 3); (KStack, 1); (KStack, 3);
   (KStack, 2); (KStack, 1); (KWrap, 4); (KWrap, 3); (KFooter, 4); (KStack, 0); (KWrap, 2);
   (KWrap, 1); (KStack, 0); (KWrap, 0); (KFooter, 3); (KFooter, 0); (KMmap, 0); (KFile, 2);
   (KFooter, 2); (KWrap, 0); (KFooter, 1); (KFooter, 0); (KMmap, 0); (KFile, 1); (KMmap, 0);
   (KFile, 0)
  ].
Example model_matches_recorded_trace5 : ev_view scenario5 = Some recorded5.
Proof. vm_compute. reflexivity. Qed.

(* ------------------------------------------------------------------ *)
(* the model never gets stuck (a primitive refusing: AddRef or DecRef of a
   released object, a reference given back that the function does not hold, a
   slot overwritten, a local left over): checked exhaustively for every
   sequence of up to 4 operations over a concrete alphabet from the initial
   state, every sequence of up to 3 operations from states in the middle of
   five recorded histories, every sequence of up to 2 operations from the end
   states of 60 pseudo-random histories of 120 operations, and 600 pseudo-random
   histories of 300 operations (merger and persister steps weighted up).
   PARTIAL: a bounded check, not a proof for all sequences; the theorems above
   are stated for the sequences on which run succeeds.  For the operations of the
   CURRENT code the proof for all sequences is in OwnersProgressFacts.v
   (legal_use_never_faults); this check also covers the pre-repair operations. *)

Definition alphabet : list op :=
  [OpSnapCached; OpSnapFresh; OpCollGet true; OpChildSnap 0 0; OpChildSnap 1 0; OpChildSnap 2 1;
   OpStoreSnap; OpPrev 0 true 1 1 1; OpPrev 1 true 2 0 0; OpPrev 2 false 0 0 0;
   OpIterStart 0 IKHeap; OpIterStart 0 IKLower; OpIterStart 1 IKSkipLL; OpIterStart 1 IKLLDone;
   OpIterStart 0 IKLLError; OpIterStart 2 IKHeap;
   OpIterSeek 0 SKLower; OpIterSeek 1 SKLower; OpIterSeek 2 SKSkipLL; OpIterSeek 3 SKLLDone;
   OpCloseH 0; OpCloseH 1; OpCloseH 2;
   OpBatch false; OpBatch true; OpDropChildren;
   OpMergerIngest; OpMergerSwap BrMerged; OpMergerSwap BrEmpty; OpMergerSwap BrError;
   OpMergerHandover;
   OpPersistBegin; OpPersistRun PClean; OpPersistRun (PAppend true 1 1);
   OpPersistRun (PAppend false 0 1); OpPersistRun (PAppend false 0 0);
   OpPersistRun (PAppend false 2 0); OpPersistRun PCompactFull;
   OpPersistRun (PCompactPartial 1);
   OpPersistPublish true; OpPersistPublish false; OpCollClose; OpStoreClose].
Definition alphabet_open : list op := firstn 41 alphabet.   (* without the two Close *)

Fixpoint explore (depth : nat) (st : state) : bool :=
  match depth with
  | 0 => true
  | S d => forallb (fun o => match step o st with
                             | Some st' => explore d st'
                             | None => false end) alphabet
  end.

From Coq Require Import NArith.
Definition lcg (x : N) : N := ((x * 1103515245 + 12345) mod 2147483648)%N.
Fixpoint rand_run (al : list op) (n : nat) (x : N) (st : state) : option state :=
  match n with
  | O => Some st
  | S n' => let x' := lcg x in
            match step (nth (N.to_nat ((x' / 65536) mod (N.of_nat (length al)))%N) al OpStoreSnap) st with
            | Some st' => rand_run al n' x' st'
            | None => None
            end
  end.
Fixpoint seeds (k : nat) (x : N) : list N :=
  match k with O => [] | S k' => x :: seeds k' (x + 7919)%N end.
Definition is_ok {A} (x : option A) : bool := match x with Some _ => true | None => false end.

Definition busy0 : list op :=
  [OpBatch false; OpBatch true; OpMergerIngest; OpMergerSwap BrMerged; OpMergerHandover;
   OpPersistBegin; OpPersistRun (PAppend true 1 1); OpPersistRun (PAppend false 0 1);
   OpPersistRun PCompactFull; OpPersistRun (PCompactPartial 1);
   OpPersistPublish true; OpPersistPublish false].
Definition alphabet_busy : list op := alphabet_open ++ busy0 ++ busy0.

Theorem no_fault_bounded_partial :
  explore 4 init = true /\
  forallb (fun sc => match run (firstn 12 sc) with Some st => explore 3 st | None => false end)
          [scenario1; scenario2; scenario3; scenario4; scenario5] = true /\
  forallb (fun sc => match run (firstn 25 sc) with Some st => explore 3 st | None => false end)
          [scenario2; scenario3; scenario4] = true /\
  forallb (fun s => match rand_run alphabet_busy 120 s init with
                    | Some st => explore 2 st | None => false end) (seeds 60 1%N) = true /\
  forallb (fun s => is_ok (rand_run alphabet_busy 300 s init)) (seeds 300 1%N) = true /\
  forallb (fun s => match rand_run alphabet_busy 200 s init with
                    | Some st => is_ok (rand_run alphabet 100 s st) | None => false end)
          (seeds 300 5%N) = true.
Proof. vm_compute. repeat split. Qed.


(* the positive side of "only the current data file remains", PARTIAL (bounded):
   in histories where every appended round writes at least one top-level
   segment (so that every store footer since the first file has a top-level
   segment location) and startIterator never takes its error return, closing
   everything leaves at most the current data file.  Checked on 300
   pseudo-random histories of 300 operations followed by closing everything;
   not proved for all histories. *)
Definition alphabet_top : list op :=
  [OpSnapCached; OpSnapFresh; OpCollGet true; OpChildSnap 0 0; OpChildSnap 1 0; OpChildSnap 2 1;
   OpStoreSnap; OpPrev 0 true 1 1 1; OpPrev 1 true 2 0 0; OpPrev 2 false 0 0 0;
   OpIterStart 0 IKHeap; OpIterStart 0 IKLower; OpIterStart 1 IKSkipLL; OpIterStart 1 IKLLDone;
   OpIterStart 2 IKHeap;
   OpIterSeek 0 SKLower; OpIterSeek 1 SKLower; OpIterSeek 2 SKSkipLL; OpIterSeek 3 SKLLDone;
   OpCloseH 0; OpCloseH 1; OpCloseH 2;
   OpBatch false; OpBatch true; OpDropChildren;
   OpMergerIngest; OpMergerSwap BrMerged; OpMergerSwap BrEmpty; OpMergerSwap BrError;
   OpMergerHandover;
   OpPersistBegin; OpPersistRun PClean; OpPersistRun (PAppend true 1 1);
   OpPersistRun (PAppend false 1 0); OpPersistRun (PAppend false 2 0);
   OpPersistRun PCompactFull; OpPersistRun (PCompactPartial 1);
   OpPersistPublish true; OpPersistPublish false].
Definition busy : list op :=
  [OpBatch false; OpMergerIngest; OpMergerSwap BrMerged; OpMergerHandover; OpPersistBegin;
   OpPersistRun (PAppend true 1 1); OpPersistRun PCompactFull; OpPersistRun (PCompactPartial 1);
   OpPersistPublish true; OpPersistPublish false].
Definition alphabet_top_busy : list op := alphabet_top ++ busy ++ busy ++ busy.
Definition closing : list op :=
  [OpMergerSwap BrMerged; OpMergerHandover; OpPersistRun (PAppend false 1 0);
   OpPersistPublish false] ++ repeat (OpCloseH 0) 60 ++ [OpCollClose; OpStoreClose].
Definition files_ok (st : state) : bool :=
  all_closed_b st
  && forallb (fun f => match cur (ct st) with Some c => Nat.eqb f c | None => false end) (files st)
  && Nat.leb (length (files st)) 1
  && forallb (fun ob => Nat.eqb (o_cnt ob) 0) (hp st).

Theorem only_current_file_bounded_partial :
  forallb (fun s => match rand_run alphabet_top_busy 300 s init with
                    | Some st => match run_from st closing with
                                 | Some st' => files_ok st' | None => false end
                    | None => false end) (seeds 300 3%N) = true.
Proof. vm_compute. reflexivity. Qed.

(* ------------------------------------------------------------------ *)
Print Assumptions ownership_invariant.
Print Assumptions locals_released.
Print Assumptions no_dangling_reference.
Print Assumptions released_objects_hold_nothing.
Print Assumptions handle_data_alive.
Print Assumptions released_stays_released.
Print Assumptions decref_gives_back_exactly_one.
Print Assumptions decref_of_held_reference_succeeds.
Print Assumptions addref_of_referenced_object_succeeds.
Print Assumptions all_closed_all_released.
Print Assumptions all_closed_all_released_no_error.
Print Assumptions no_leak_without_error_return.
Print Assumptions persister_borrow_safe.
Print Assumptions no_leak_in_current_code.
Print Assumptions all_closed_all_released_current_code.
Print Assumptions iterator_stack_alive.
Print Assumptions iterator_keeps_lower_level.
Print Assumptions iterator_borrow_safe_refuted_pre_fix.
Print Assumptions iterator_keeps_lower_level_refuted_pre_fix.
Print Assumptions only_current_file_refuted_pre_fix.
Print Assumptions only_current_file_witness_a_current_code.
Print Assumptions only_current_file_refuted.
Print Assumptions all_released_with_error_return_refuted_pre_fix.
Print Assumptions all_released_with_error_return_current_code.
Print Assumptions model_matches_recorded_trace1.
Print Assumptions model_matches_recorded_trace2.
Print Assumptions model_matches_recorded_trace3.
Print Assumptions model_matches_recorded_trace4.
Print Assumptions model_matches_recorded_trace5.
Print Assumptions no_fault_bounded_partial.
Print Assumptions only_current_file_bounded_partial.
