(* C17 -- proofs: the locking discipline implies data-race freedom. *)

From Coq Require Import List Arith Bool Lia Relations.
Import ListNotations.
From Moss Require Import Locks.

(* ------------------------------------------------------------------ *)
(* States along a trace.                                               *)

Lemma fold_step_S : forall tr s k e,
  nth_error tr k = Some e ->
  fold_left step (firstn (S k) tr) s =
  step (fold_left step (firstn k tr) s) e.
Proof.
  induction tr as [|e0 tr IH]; intros s k e H.
  - destruct k; discriminate.
  - destruct k as [|k].
    + simpl in H. inversion H; subst. reflexivity.
    + simpl in H. change (firstn (S (S k)) (e0 :: tr)) with (e0 :: firstn (S k) tr).
      change (firstn (S k) (e0 :: tr)) with (e0 :: firstn k tr).
      simpl fold_left. apply IH. exact H.
Qed.

Lemma state_at_S : forall tr k e,
  nth_error tr k = Some e ->
  state_at tr (S k) = step (state_at tr k) e.
Proof. intros. unfold state_at. apply fold_step_S. assumption. Qed.

Lemma state_at_beyond : forall tr k,
  nth_error tr k = None -> state_at tr (S k) = state_at tr k.
Proof.
  intros tr k H. unfold state_at.
  apply nth_error_None in H.
  rewrite (firstn_all2 tr) by lia.
  rewrite (firstn_all2 tr) by lia. reflexivity.
Qed.

Lemma wf_from_enabled : forall tr s k e,
  wf_from s tr = true ->
  nth_error tr k = Some e ->
  enabled (fold_left step (firstn k tr) s) e = true.
Proof.
  induction tr as [|e0 tr IH]; intros s k e Hwf H.
  - destruct k; discriminate.
  - simpl in Hwf. apply andb_true_iff in Hwf. destruct Hwf as [He Hwf].
    destruct k as [|k].
    + simpl in H. inversion H; subst. exact He.
    + simpl in H. simpl. apply IH; assumption.
Qed.

Lemma wf_enabled_at : forall tr k e,
  wf_exec tr -> nth_error tr k = Some e ->
  enabled (state_at tr k) e = true.
Proof. intros. unfold state_at. apply wf_from_enabled; assumption. Qed.

(* ------------------------------------------------------------------ *)
(* Mutual exclusion.                                                   *)

Lemma upd_same : forall A (f : nat -> A) k v, upd f k v k = v.
Proof. intros. unfold upd. rewrite Nat.eqb_refl. reflexivity. Qed.

Lemma upd_other : forall A (f : nat -> A) k k' v, k' <> k -> upd f k v k' = f k'.
Proof.
  intros. unfold upd. destruct (Nat.eqb k' k) eqn:E.
  - apply Nat.eqb_eq in E. contradiction.
  - reflexivity.
Qed.

Lemma option_thread_dec : forall a b : option thread, {a = b} + {a <> b}.
Proof. decide equality. apply Nat.eq_dec. Qed.

(* A lock becomes held by [u] only through an acquire by [u]. *)
Lemma acquire_needed : forall tr m u d i,
  holder (state_at tr i) m <> Some u ->
  holder (state_at tr (i + d)) m = Some u ->
  exists b, i <= b /\ b < i + d /\ nth_error tr b = Some (Acq u m).
Proof.
  intros tr m u. induction d as [|d IH]; intros i Hi Hj.
  - rewrite Nat.add_0_r in Hj. contradiction.
  - replace (i + S d) with (S (i + d)) in Hj by lia.
    destruct (option_thread_dec (holder (state_at tr (i + d)) m) (Some u)) as [Heq|Hne].
    + destruct (IH i Hi Heq) as [b [H1 [H2 H3]]].
      exists b. repeat split; try lia. exact H3.
    + destruct (nth_error tr (i + d)) as [e|] eqn:He.
      * rewrite (state_at_S _ _ _ He) in Hj.
        destruct e as [t m'|t m'|t x|t x|t c]; simpl in Hj;
          try (exfalso; apply Hne; exact Hj).
        -- destruct (Nat.eq_dec m m') as [->|Hm].
           ++ rewrite upd_same in Hj. inversion Hj; subst.
              exists (i + d). repeat split; try lia. exact He.
           ++ rewrite upd_other in Hj by exact Hm. exfalso; apply Hne; exact Hj.
        -- destruct (Nat.eq_dec m m') as [->|Hm].
           ++ rewrite upd_same in Hj. discriminate.
           ++ rewrite upd_other in Hj by exact Hm. exfalso; apply Hne; exact Hj.
      * rewrite (state_at_beyond _ _ He) in Hj. exfalso; apply Hne; exact Hj.
Qed.

(* In a well-formed trace a lock held by [t] stops being held by [t] only
   through a release by [t]. *)
Lemma release_needed : forall tr m t,
  wf_exec tr ->
  forall d i,
  holder (state_at tr i) m = Some t ->
  holder (state_at tr (i + d)) m <> Some t ->
  exists r, i <= r /\ r < i + d /\ nth_error tr r = Some (Rel t m).
Proof.
  intros tr m t Hwf. induction d as [|d IH]; intros i Hi Hj.
  - rewrite Nat.add_0_r in Hj. contradiction.
  - replace (i + S d) with (S (i + d)) in Hj by lia.
    destruct (option_thread_dec (holder (state_at tr (i + d)) m) (Some t)) as [Heq|Hne].
    + destruct (nth_error tr (i + d)) as [e|] eqn:He.
      * pose proof (wf_enabled_at _ _ _ Hwf He) as Hen.
        rewrite (state_at_S _ _ _ He) in Hj.
        destruct e as [t' m'|t' m'|t' x|t' x|t' c]; simpl in Hj;
          try (exfalso; apply Hj; exact Heq).
        -- destruct (Nat.eq_dec m m') as [->|Hm].
           ++ simpl in Hen. rewrite Heq in Hen. discriminate.
           ++ rewrite upd_other in Hj by exact Hm. exfalso; apply Hj; exact Heq.
        -- destruct (Nat.eq_dec m m') as [->|Hm].
           ++ simpl in Hen. rewrite Heq in Hen. apply Nat.eqb_eq in Hen. subst t'.
              exists (i + d). repeat split; try lia. exact He.
           ++ rewrite upd_other in Hj by exact Hm. exfalso; apply Hj; exact Heq.
      * rewrite (state_at_beyond _ _ He) in Hj. exfalso; apply Hj; exact Heq.
    + destruct (IH i Hi Hne) as [r [H1 [H2 H3]]].
      exists r. repeat split; try lia. exact H3.
Qed.

(* Two critical sections of the same mutex by different threads: the
   earlier one is left, and then the later one entered, in between. *)
Lemma mutual_exclusion : forall tr m t u i j,
  wf_exec tr ->
  holds tr i t m -> holds tr j u m -> t <> u -> i < j ->
  exists r b, i <= r /\ r < b /\ b < j /\
              nth_error tr r = Some (Rel t m) /\
              nth_error tr b = Some (Acq u m).
Proof.
  unfold holds. intros tr m t u i j Hwf Hi Hj Htu Hij.
  assert (Hne : holder (state_at tr (i + (j - i))) m <> Some t).
  { replace (i + (j - i)) with j by lia. rewrite Hj. intro H. inversion H. congruence. }
  destruct (release_needed tr m t Hwf (j - i) i Hi Hne) as [r [Hr1 [Hr2 Hr3]]].
  assert (Hfree : holder (state_at tr (S r)) m <> Some u).
  { rewrite (state_at_S _ _ _ Hr3). simpl. rewrite upd_same. discriminate. }
  assert (Hj' : holder (state_at tr (S r + (j - S r))) m = Some u).
  { replace (S r + (j - S r)) with j by lia. exact Hj. }
  destruct (acquire_needed tr m u (j - S r) (S r) Hfree Hj') as [b [Hb1 [Hb2 Hb3]]].
  exists r, b. repeat split; try lia; assumption.
Qed.

(* ------------------------------------------------------------------ *)
(* Forks.                                                              *)

Lemma seen_step : forall s e c,
  seen s c = true -> seen (step s e) c = true.
Proof.
  intros s e c H.
  assert (G : upd (seen s) (thread_of e) true c = true).
  { unfold upd. destruct (Nat.eqb c (thread_of e)); [reflexivity|exact H]. }
  destruct e; simpl; exact G.
Qed.

Lemma seen_step_self : forall s e, seen (step s e) (thread_of e) = true.
Proof.
  intros s e.
  assert (G : upd (seen s) (thread_of e) true (thread_of e) = true)
    by apply upd_same.
  destruct e; simpl in *; exact G.
Qed.

Lemma seen_mono : forall tr c d i,
  seen (state_at tr i) c = true -> seen (state_at tr (i + d)) c = true.
Proof.
  intros tr c. induction d as [|d IH]; intros i H.
  - rewrite Nat.add_0_r. exact H.
  - replace (i + S d) with (S (i + d)) by lia.
    destruct (nth_error tr (i + d)) as [e|] eqn:He.
    + rewrite (state_at_S _ _ _ He). apply seen_step. apply IH. exact H.
    + rewrite (state_at_beyond _ _ He). apply IH. exact H.
Qed.

(* Every event of a forked thread comes after its fork. *)
Lemma fork_before_child : forall tr k t c j e,
  wf_exec tr ->
  nth_error tr k = Some (Fork t c) ->
  nth_error tr j = Some e -> thread_of e = c ->
  k < j.
Proof.
  intros tr k t c j e Hwf Hk Hj Hc.
  pose proof (wf_enabled_at _ _ _ Hwf Hk) as Hen. simpl in Hen.
  apply andb_true_iff in Hen. destruct Hen as [Hns Hne].
  apply negb_true_iff in Hns. apply negb_true_iff in Hne.
  apply Nat.eqb_neq in Hne.
  destruct (lt_eq_lt_dec j k) as [[Hlt|Heq]|Hgt].
  - exfalso.
    assert (Hs : seen (state_at tr (S j)) c = true).
    { rewrite (state_at_S _ _ _ Hj). rewrite <- Hc. apply seen_step_self. }
    pose proof (seen_mono tr c (k - S j) (S j) Hs) as Hm.
    replace (S j + (k - S j)) with k in Hm by lia.
    rewrite Hm in Hns. discriminate.
  - exfalso. subst j. rewrite Hk in Hj. inversion Hj; subst e.
    simpl in Hc. apply Hne. exact Hc.
  - exact Hgt.
Qed.

Lemma first_or_none : forall tr c n,
  (forall k e, k < n -> nth_error tr k = Some e -> thread_of e <> c) \/
  (exists f, f < n /\ first_of tr c f).
Proof.
  intros tr c. induction n as [|n IH].
  - left. intros k e H. lia.
  - destruct IH as [IH|[f [Hf1 Hf2]]].
    + destruct (nth_error tr n) as [e|] eqn:He.
      * destruct (Nat.eq_dec (thread_of e) c) as [Heq|Hneq].
        -- right. exists n. split; [lia|]. split.
           ++ exists e. split; assumption.
           ++ exact IH.
        -- left. intros k e' Hk Hk'.
           destruct (Nat.eq_dec k n) as [->|Hkn].
           ++ rewrite He in Hk'. inversion Hk'; subst. exact Hneq.
           ++ apply (IH k e'); [lia|exact Hk'].
      * left. intros k e' Hk Hk'.
        destruct (Nat.eq_dec k n) as [->|Hkn].
        -- rewrite He in Hk'. discriminate.
        -- apply (IH k e'); [lia|exact Hk'].
    + right. exists f. split; [lia|exact Hf2].
Qed.

Lemma exists_first : forall tr c j e,
  nth_error tr j = Some e -> thread_of e = c ->
  exists f, f <= j /\ first_of tr c f.
Proof.
  intros tr c j e Hj Hc.
  destruct (first_or_none tr c (S j)) as [H|[f [Hf1 Hf2]]].
  - exfalso. apply (H j e); [lia|exact Hj|exact Hc].
  - exists f. split; [lia|exact Hf2].
Qed.

(* In a well-formed trace a fork happens before every event of the child
   (fork -> first event of the child -> program order). *)
Lemma hb_fork_any : forall tr k t c j e,
  wf_exec tr ->
  nth_error tr k = Some (Fork t c) ->
  nth_error tr j = Some e -> thread_of e = c ->
  hb tr k j.
Proof.
  intros tr k t c j e Hwf Hk Hj Hc.
  destruct (exists_first tr c j e Hj Hc) as [f [Hfj Hf]].
  pose proof Hf as [[ef [Hef Hefc]] _].
  pose proof (fork_before_child tr k t c f ef Hwf Hk Hef Hefc) as Hkf.
  assert (H1 : hb tr k f).
  { apply t_step. eapply hb_fork; eassumption. }
  destruct (Nat.eq_dec f j) as [->|Hne].
  - exact H1.
  - eapply t_trans; [exact H1|].
    apply t_step. eapply hb_po with (e1 := ef) (e2 := e); try eassumption; try lia.
    all: congruence.
Qed.

(* ------------------------------------------------------------------ *)
(* Sanity: happens-before only goes forward in the trace.              *)

Lemma hb1_lt : forall tr i j, hb1 tr i j -> i < j.
Proof. intros tr i j H. destruct H; assumption. Qed.

Lemma hb_lt : forall tr i j, hb tr i j -> i < j.
Proof.
  intros tr i j H. induction H as [i j H|i k j _ IH1 _ IH2].
  - eapply hb1_lt; eassumption.
  - lia.
Qed.

(* ------------------------------------------------------------------ *)
(* The theorem.                                                        *)

Lemma access_thread : forall tr i t x w e,
  access_at tr i t x w -> nth_error tr i = Some e -> thread_of e = t.
Proof.
  unfold access_at. intros tr i t x w e H He. rewrite H in He.
  inversion He; subst. destruct w; reflexivity.
Qed.

(* Two accesses to a covered location by different threads, the first one
   earlier in the trace, are ordered by happens-before. *)
Lemma ordered_forward : forall guard tr,
  wf_exec tr -> disciplined guard tr ->
  forall x m i j ti tj wi wj,
    guard x = Some m ->
    access_at tr i ti x wi -> access_at tr j tj x wj ->
    ti <> tj -> i < j ->
    hb tr i j.
Proof.
  intros guard tr Hwf Hd x m i j ti tj wi wj Hg Hi Hj Hne Hij.
  destruct (Hd i ti x wi m Hi Hg) as [Hhi|Hpi].
  - destruct (Hd j tj x wj m Hj Hg) as [Hhj|Hpj].
    + (* both hold the mutex *)
      destruct (mutual_exclusion tr m ti tj i j Hwf Hhi Hhj Hne Hij)
        as [r [b [Hir [Hrb [Hbj [Hr Hb]]]]]].
      assert (Hir' : i < r).
      { destruct (Nat.eq_dec i r) as [->|]; [|lia].
        unfold access_at in Hi. rewrite Hr in Hi. destruct wi; discriminate. }
      eapply t_trans.
      { apply t_step. eapply hb_po with (e2 := Rel ti m); [exact Hir'|exact Hi|exact Hr|].
        destruct wi; reflexivity. }
      eapply t_trans.
      { apply t_step. eapply hb_sync; [exact Hrb|exact Hr|exact Hb]. }
      apply t_step. eapply hb_po with (e1 := Acq tj m); [exact Hbj|exact Hb|exact Hj|].
      destruct wj; reflexivity.
    + (* the later access claims to precede the fork of the earlier
         thread: impossible *)
      exfalso.
      destruct (Hpj i ti wi Hi Hne) as [k [Hjk Hk]].
      pose proof (fork_before_child tr k tj ti i _ Hwf Hk Hi
                    (access_thread _ _ _ _ _ _ Hi Hi)) as Hki.
      lia.
  - (* the earlier access precedes the fork of the later thread *)
    assert (Hne' : tj <> ti) by congruence.
    destruct (Hpi j tj wj Hj Hne') as [k [Hik Hk]].
    eapply t_trans.
    { apply t_step. eapply hb_po with (e2 := Fork ti tj); [exact Hik|exact Hi|exact Hk|].
      destruct wi; reflexivity. }
    eapply hb_fork_any; [exact Hwf|exact Hk|exact Hj|].
    destruct wj; reflexivity.
Qed.

(* Conflicting accesses to a covered location are always ordered. *)
Theorem C17_conflicts_ordered : forall guard tr,
  wf_exec tr -> disciplined guard tr ->
  forall x, covered guard x ->
  forall i j, conflict_on tr x i j -> hb tr i j \/ hb tr j i.
Proof.
  intros guard tr Hwf Hd x Hc i j [ti [tj [wi [wj [Hi [Hj [Hne _]]]]]]].
  unfold covered in Hc. destruct (guard x) as [m|] eqn:Hg; [|contradiction].
  destruct (lt_eq_lt_dec i j) as [[Hlt|Heq]|Hgt].
  - left. eapply ordered_forward; eassumption.
  - exfalso. subst j.
    pose proof (access_thread _ _ _ _ _ _ Hi Hi) as H1.
    pose proof (access_thread _ _ _ _ _ _ Hj Hi) as H2.
    congruence.
  - right. eapply ordered_forward with (ti := tj) (tj := ti); try eassumption.
    congruence.
Qed.

(* C17: a well-formed execution that follows the locking discipline has no
   data race on any covered location. *)
Theorem C17_discipline_drf : forall guard tr,
  wf_exec tr -> disciplined guard tr ->
  forall x, covered guard x ->
  forall i j, ~ race_on tr x i j.
Proof.
  intros guard tr Hwf Hd x Hc i j [Hconf [Hn1 Hn2]].
  destruct (C17_conflicts_ordered guard tr Hwf Hd x Hc i j Hconf); contradiction.
Qed.

(* ------------------------------------------------------------------ *)
(* The definitions are not vacuous.                                    *)

(* An unprotected pair of writes is a race. *)
Example racy_trace_has_race : race_on [Wr 0 5; Wr 1 5] 5 0 1.
Proof.
  assert (Hno : forall a b, ~ hb1 [Wr 0 5; Wr 1 5] a b).
  { intros a b H. inversion H as [i j e1 e2 Hlt H1 H2 Ht|i j t1 t2 m Hlt H1 H2|i j t c Hlt H1 H2]; subst.
    - destruct a as [|[|a]]; destruct b as [|[|b]]; simpl in *;
        try lia; try discriminate;
        try (destruct a; discriminate); try (destruct b; discriminate).
      inversion H1; inversion H2; subst. simpl in Ht. discriminate.
    - destruct a as [|[|a]]; simpl in *; try discriminate. destruct a; discriminate.
    - destruct a as [|[|a]]; simpl in *; try discriminate. destruct a; discriminate. }
  assert (Hnohb : forall a b, ~ hb [Wr 0 5; Wr 1 5] a b).
  { intros a b H. induction H as [a b H|a c b _ IH1 _ _].
    - exact (Hno _ _ H).
    - exact IH1. }
  split; [|split; apply Hnohb].
  exists 0, 1, true, true. repeat split; try reflexivity. discriminate.
Qed.

(* ... and is rejected by the discipline. *)
Example racy_trace_not_disciplined :
  ~ disciplined (fun x => if Nat.eqb x 5 then Some 7 else None) [Wr 0 5; Wr 1 5].
Proof.
  intro Hd.
  assert (Hwf : wf_exec [Wr 0 5; Wr 1 5]) by reflexivity.
  refine (C17_discipline_drf _ _ Hwf Hd 5 _ 0 1 racy_trace_has_race).
  unfold covered. simpl. discriminate.
Qed.

(* A trace in the style of moss: thread 0 constructs (writes location 5
   without the lock), starts thread 1, and then both use location 5 under
   mutex 7. *)
Definition good_trace : list ev :=
  [Wr 0 5; Fork 0 1; Acq 1 7; Wr 1 5; Rel 1 7; Acq 0 7; Rd 0 5; Rel 0 7].

Definition good_guard : loc -> option lock :=
  fun x => if Nat.eqb x 5 then Some 7 else None.

Example good_trace_wf : wf_exec good_trace.
Proof. reflexivity. Qed.

Lemma good_trace_accesses : forall i t x w,
  access_at good_trace i t x w ->
  (i = 0 /\ t = 0 /\ x = 5 /\ w = true) \/
  (i = 3 /\ t = 1 /\ x = 5 /\ w = true) \/
  (i = 6 /\ t = 0 /\ x = 5 /\ w = false).
Proof.
  unfold access_at, good_trace. intros i t x w H.
  destruct i as [|[|[|[|[|[|[|[|i]]]]]]]]; simpl in H;
    try (destruct i; discriminate);
    destruct w; try discriminate; inversion H; subst; auto 10.
Qed.

Example good_trace_disciplined : disciplined good_guard good_trace.
Proof.
  unfold disciplined. intros i t x w m Ha Hg.
  destruct (good_trace_accesses _ _ _ _ Ha)
    as [[-> [-> [-> ->]]]|[[-> [-> [-> ->]]]|[-> [-> [-> ->]]]]];
    inversion Hg; subst m.
  - (* the constructor's write *)
    right. intros j u w Hj Hu.
    destruct (good_trace_accesses _ _ _ _ Hj)
      as [[-> [-> [_ ->]]]|[[-> [-> [_ ->]]]|[-> [-> [_ ->]]]]];
      try (exfalso; apply Hu; reflexivity).
    exists 1. split; [lia|reflexivity].
  - left. reflexivity.
  - left. reflexivity.
Qed.

Example good_trace_race_free : forall i j, ~ race_on good_trace 5 i j.
Proof.
  apply (C17_discipline_drf good_guard good_trace good_trace_wf good_trace_disciplined).
  unfold covered, good_guard. simpl. discriminate.
Qed.

(* ------------------------------------------------------------------ *)
(* Part 2: the static table.                                           *)

Lemma just_ok_true : forall j, just_ok j = true -> j <> JNone.
Proof. intros j H Hj. subst j. discriminate. Qed.

Theorem C17_table_sound : forall tbl,
  check_table tbl = true ->
  forall a, In a tbl -> a_justification a <> JNone.
Proof.
  intros tbl H a Hin. unfold check_table in H.
  rewrite forallb_forall in H. apply just_ok_true. apply H. exact Hin.
Qed.

(* The checker is also complete, so a failing [vm_compute] in Table.v means
   there really is an unjustified access in the table. *)
Theorem C17_table_complete : forall tbl,
  (forall a, In a tbl -> a_justification a <> JNone) ->
  check_table tbl = true.
Proof.
  intros tbl H. unfold check_table. apply forallb_forall. intros a Hin.
  specialize (H a Hin). destruct (a_justification a); try reflexivity.
  exfalso. apply H. reflexivity.
Qed.

Print Assumptions C17_conflicts_ordered.
Print Assumptions C17_table_sound.
Print Assumptions C17_discipline_drf.
