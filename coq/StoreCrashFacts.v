(* StoreCrashFacts.v — proofs about StoreCrash.v *)
From Coq Require Import List Arith Bool Lia.
From Moss Require Import StoreOps StoreOpsFacts StoreCrash.
Import ListNotations.

(* ------------------------------------------------------------------ *)
(* 1. The program of a round computes what persister_round computes     *)

Ltac walk3 fo n :=
  repeat match goal with
  | |- context[if ?b then _ else _] =>
      first
      [ match b with
        | context[?v] => is_var v; match type of v with bool => idtac end;
                         destruct v; cbn [negb andb orb fst snd app]
        end
      | match b with
        | context[fl fo n ?s] =>
            let E := fresh "E" in destruct (fl fo n s) eqn:E; cbn [negb andb orb fst snd app]
        end ]
  end.

Definition body_or_noop (o : opts) (fo : oracle) (n : nat) (k : round_kind) (st0 : state) : state :=
  match k with
  | RNoop => fst (persister_round o fo n RNoop st0)
  | _ => fst (persister_body o fo n k st0)
  end.

Lemma prog_correct_file o fo n k st0 f :
  l_cur st0 = s_cur st0 -> o_file (objs st0 (s_cur st0)) = Some f ->
  exec_all f (nfiles st0) (s_cur st0) (next_id st0)
           (round_prog o fo n (round_content st0) (next_id st0) k true) st0
  = body_or_noop o fo n k st0.
Proof.
  intros Hl Hf.
  destruct o as [ns cs ms kf].
  unfold body_or_noop, persister_round, persister_body, store_persist, effective_kind, persist_append,
         persist_compact, start_or_reuse, start_file, persist_footer, remove_on_close,
         round_prog, prog_kind, prog_append, prog_compact, prog_start_or_reuse, prog_start_file,
         prog_footer, round_content.
  cbn [noSync compactionSync midSync].
  rewrite Hf. cbn [o_file o_content].
  destruct k; cbn [negb andb orb fst snd app].
  all: walk3 fo n.
  all: cbn [exec_all exec pk].
  all: autorewrite with sc; rewrite ?Hl.
  all: reflexivity.
Qed.

Lemma prog_correct_nofile o fo n k st0 :
  l_cur st0 = s_cur st0 -> o_file (objs st0 (s_cur st0)) = None ->
  exec_all (S (nfiles st0)) (nfiles st0) (s_cur st0) (next_id st0)
           (round_prog o fo n (round_content st0) (next_id st0) k false) st0
  = body_or_noop o fo n k st0.
Proof.
  intros Hl Hf.
  destruct o as [ns cs ms kf].
  unfold body_or_noop, persister_round, persister_body, store_persist, effective_kind, persist_append,
         persist_compact, start_or_reuse, start_file, persist_footer, remove_on_close,
         round_prog, prog_kind, prog_append, prog_compact, prog_start_or_reuse, prog_start_file,
         prog_footer, round_content.
  cbn [noSync compactionSync midSync].
  rewrite Hf. cbn [o_file o_content].
  destruct k; cbn [negb andb orb fst snd app].
  all: walk3 fo n.
  all: cbn [exec_all exec pk].
  all: autorewrite with sc; rewrite ?Hl.
  all: reflexivity.
Qed.

Lemma lcur_hand_over n st : l_cur (hand_over n st) = l_cur st.
Proof. unfold hand_over. destruct (dirty st); reflexivity. Qed.

(* (1) the crash points of a round end in the state persister_round gives *)
Theorem round_prog_correct o fo n k st :
  l_cur st = s_cur st ->
  round_end o fo n k st = fst (persister_round o fo n k st).
Proof.
  intros Hl. unfold round_end, the_prog, has_file, served_ix.
  set (st0 := handed n k st).
  assert (Hl0 : l_cur st0 = s_cur st0).
  { subst st0. destruct k; simpl; auto; rewrite lcur_hand_over, scur_hand_over; auto. }
  assert (E : body_or_noop o fo n k st0 = fst (persister_round o fo n k st)).
  { subst st0. destruct k; reflexivity. }
  rewrite <- E.
  destruct (o_file (objs st0 (s_cur st0))) as [f|] eqn:Hf.
  - apply prog_correct_file; auto.
  - apply prog_correct_nofile; auto.
Qed.

Lemma last_states_of f g c m p : forall s d,
  last (states_of f g c m p s) d = exec_all f g c m p s.
Proof.
  induction p as [|x r IH]; intros s d; [reflexivity|].
  simpl exec_all. rewrite <- (IH (exec f g c m x s) d).
  change (states_of f g c m (x :: r) s)
    with (s :: torn g x s ++ states_of f g c m r (exec f g c m x s)).
  assert (G : forall (l1 l2 : list state) a, l2 <> [] -> last (a :: l1 ++ l2) d = last l2 d).
  { intros l1 l2 a Hne. revert a. induction l1 as [|b l1 IH1]; intros a.
    - simpl. destruct l2; [contradiction|reflexivity].
    - change (last (a :: (b :: l1) ++ l2) d) with (last (b :: l1 ++ l2) d). apply IH1. }
  apply G. destruct r; discriminate.
Qed.

Corollary crash_states_end o fo n k st d :
  l_cur st = s_cur st ->
  last (crash_states o fo n k st) d = fst (persister_round o fo n k st).
Proof.
  intros Hl. unfold crash_states. rewrite last_states_of. apply (round_prog_correct o fo n k st Hl).
Qed.

Lemma crash_states_start o fo n k st :
  exists r, crash_states o fo n k st = handed n k st :: r.
Proof. unfold crash_states. destruct (the_prog o fo n k (handed n k st)); simpl; eauto. Qed.

(* ------------------------------------------------------------------ *)
(* 2. The program on views                                              *)

Definition vexec (p : prim) (v : vw) : vw :=
  match p with
  | PFile sel F => v_map_file sel F v
  | PCreate true => v_map_file true (fun _ => fresh_file) v
  | PCreate false => v
  | PObjInc sel => v_map_obj sel vobj_inc v
  | PObjDec sel => v_obj_decref sel v
  | PAlloc tsel ct => v_map_obj true (fun _ => {| vo_file := Some tsel; vo_content := ct; vo_refs := 1 |}) v
  | PBumpId => v_bump_id v
  | PBumpNf => v_bump_nf v
  | PSetSc sel => v_set_sc sel v
  | PSetLc sel => v_set_lc sel v
  | PSetDirty d => v_set_dirty d v
  end.

Definition vtorn (p : prim) (v : vw) : list vw :=
  match p with
  | PCreate _ => [v_map_file true (fun _ => created_file) v]
  | _ => []
  end.

Fixpoint vstates_of (p : list prim) (v : vw) : list vw :=
  v :: match p with
       | [] => []
       | x :: r => vtorn x v ++ vstates_of r (vexec x v)
       end.

Section SimExec.
  Variables (b : state) (f g c m : nat).
  Hypothesis Hfg : f <> g.
  Hypothesis Hcm : c <> m.

  Lemma sim_exec p v s :
    matches b f g c m v s -> matches b f g c m (vexec p v) (exec f g c m p s).
  Proof.
    intros H. destruct p as [sel F|ok|sel|sel|tsel ct| | |sel|sel|d]; simpl.
    - apply (sim_map_file b f g c m Hfg sel F v s H).
    - destruct ok; [|exact H]. apply (sim_map_file_g b f g c m Hfg _ v s H).
    - destruct sel; [apply sim_obj_addref_m | apply sim_obj_addref_c]; auto.
    - destruct sel; [apply sim_obj_decref_m | apply sim_obj_decref_c]; auto.
    - destruct tsel; [apply sim_alloc_m_g | apply sim_alloc_m_f]; auto.
    - apply sim_bump_id; auto.
    - apply sim_bump_nf; auto.
    - destruct sel; [apply sim_set_sc_m | apply sim_set_sc_c]; auto.
    - destruct sel; [apply sim_set_lc_m | apply sim_set_lc_c]; auto.
    - apply sim_set_dirty; auto.
  Qed.

  Lemma sim_torn p v s :
    matches b f g c m v s -> Forall2 (matches b f g c m) (vtorn p v) (torn g p s).
  Proof.
    intros H. destruct p; simpl; try solve [constructor].
    constructor; [|constructor].
    apply (sim_map_file_g b f g c m Hfg _ v s H).
  Qed.

  (* whatever holds of every view of the program's run holds of every crash point *)
  Lemma states_of_views (Q : state -> Prop) (R : vw -> Prop) :
    (forall V s, matches b f g c m V s -> R V -> Q s) ->
    forall p v s, matches b f g c m v s ->
      Forall R (vstates_of p v) -> Forall Q (states_of f g c m p s).
  Proof.
    intros HRQ. induction p as [|x r IH]; intros v s HM HF.
    - simpl in *. inversion HF; subst. constructor; eauto.
    - simpl in HF. inversion HF as [|? ? H1 H2]; subst.
      change (states_of f g c m (x :: r) s)
        with (s :: torn g x s ++ states_of f g c m r (exec f g c m x s)).
      constructor; [eauto|].
      apply Forall_app in H2. destruct H2 as (H2 & H3).
      apply Forall_app. split.
      + pose proof (sim_torn x v s HM) as HT.
        clear HF H3 IH. revert H2.
        induction HT as [|V1 s1 lV ls Hab HT' IHT]; intros H2; [constructor|].
        inversion H2; subst. constructor; eauto.
      + apply (IH (vexec x v)); auto. apply sim_exec; auto.
  Qed.
End SimExec.

(* ------------------------------------------------------------------ *)
(* 3. What the directory looks like at every crash point of a round,
      relative to the state the round started from                      *)

Definition nidP (m : nat) (P : list nat) : dfoot := {| d_id := m; d_content := P |}.

(* f: the served file (or an untouched index), g: the file this round may
   create, m / P: id and content of the footer this round may write;
   sy: the round syncs *)
Record DiskRel (hasfile sy : bool) (st0 : state) (f g m : nat) (P : list nat) (s : state) : Prop := {
  dr_other : forall i, i <> f -> i <> g -> files s i = files st0 i;
  dr_nf : nfiles s = g \/ nfiles s = S g;
  dr_ffoot : f_footers (files s f) = f_footers (files st0 f) \/
             f_footers (files s f) = nidP m P :: f_footers (files st0 f);
  dr_funs : incl (f_unsynced (files s f)) (m :: f_unsynced (files st0 f));
  dr_fhdr : f_header (files s f) = f_header (files st0 f);
  dr_fex : f_exists (files s f) = true -> f_exists (files st0 f) = true;
  dr_gfoot : f_footers (files s g) = [] \/ f_footers (files s g) = [nidP m P];
  dr_gnf : nfiles s = g -> f_exists (files s g) = false;
  dr_ghdr : f_exists (files s g) = true -> f_footers (files s g) <> [] -> f_header (files s g) = true;
  (* the served file is there, or else the new file is, with its footer durable *)
  dr_one : hasfile = true ->
           f_exists (files s f) = true \/
           (nfiles s = S g /\ f_exists (files s g) = true /\ f_header (files s g) = true /\
            f_footers (files s g) = [nidP m P] /\ (sy = true -> f_unsynced (files s g) = []))
}.

Definition VRel (hasfile sy : bool) (v0 : vw) (g m : nat) (P : list nat) (V : vw) : Prop :=
  (w_nf V = g \/ w_nf V = S g) /\
  (f_footers (vf V) = f_footers (vf v0) \/ f_footers (vf V) = nidP m P :: f_footers (vf v0)) /\
  incl (f_unsynced (vf V)) (m :: f_unsynced (vf v0)) /\
  f_header (vf V) = f_header (vf v0) /\
  (f_exists (vf V) = true -> f_exists (vf v0) = true) /\
  (f_footers (vg V) = [] \/ f_footers (vg V) = [nidP m P]) /\
  (w_nf V = g -> f_exists (vg V) = false) /\
  (f_exists (vg V) = true -> f_footers (vg V) <> [] -> f_header (vg V) = true) /\
  (hasfile = true ->
   f_exists (vf V) = true \/
   (w_nf V = S g /\ f_exists (vg V) = true /\ f_header (vg V) = true /\
    f_footers (vg V) = [nidP m P] /\ (sy = true -> f_unsynced (vg V) = []))).

Lemma rel_of_view hasfile sy st0 f g c m P v0 V s :
  matches st0 f g c m v0 st0 -> matches st0 f g c m V s ->
  VRel hasfile sy v0 g m P V -> DiskRel hasfile sy st0 f g m P s.
Proof.
  intros [Nf Ng Nfr Nc Nn Nor Nnf Nsc Nlc Nd Nid] [Mf Mg Mfr Mc Mn Mor Mnf Msc Mlc Md Mid]
         (V1 & V2 & V3 & V4 & V5 & V6 & V7 & V8 & V9).
  constructor; rewrite ?Mf, ?Mg, ?Mnf, ?Nf; auto.
Qed.

Ltac rsolve :=
  cbv zeta;
  repeat match goal with
  | |- _ /\ _ => split
  | |- _ -> _ => intro
  end;
  try solve [ reflexivity | lia | congruence | assumption
            | left; reflexivity | right; reflexivity
            | (let z := fresh "z" in let Hz := fresh "Hz" in intros z Hz; simpl in *; tauto)
            | right; repeat split; solve [reflexivity | congruence | intros; reflexivity | intros; congruence] ].

Ltac walk4 fo n :=
  repeat match goal with
  | |- context[if ?b then _ else _] =>
      first
      [ match b with
        | context[?v] => is_var v; match type of v with bool => idtac end;
                         destruct v; cbn [negb andb orb fst snd app]
        end
      | match b with
        | context[fl fo n ?s] => destruct (fl fo n s); cbn [negb andb orb fst snd app]
        end ]
  end.

Ltac clear_all := repeat match goal with H : _ |- _ => clear H end.

Ltac rel_walk fo n :=
  unfold round_prog, prog_kind, prog_append, prog_compact, prog_start_or_reuse, prog_start_file, prog_footer;
  cbn [noSync compactionSync midSync negb andb orb fst snd app];
  walk4 fo n;
  cbn [vstates_of vtorn vexec app];
  repeat (apply Forall_cons; [|]); try apply Forall_nil.

Lemma rel_file o fo n n' k st0 f :
  Inv n' st0 -> o_file (cur st0) = Some f ->
  Forall (DiskRel true (negb (noSync o)) st0 f (nfiles st0) (next_id st0) (round_content st0))
         (states_of f (nfiles st0) (s_cur st0) (next_id st0)
                    (round_prog o fo n (round_content st0) (next_id st0) k true) st0).
Proof.
  intros HI Hf.
  destruct HI as [Hsame Hclt Hcr Hor Hfr Hfresh Hdoom Hserved Hnodup Hidlt Hdids Horph Hdesc Hofresh].
  unfold cur in *. rewrite Hf in *.
  destruct Hserved as (Hflt & Hex & Hhd & Hnd & Hin).
  pose proof (Hfr f) as Hrf. rewrite Nat.eqb_refl in Hrf.
  pose proof (Hfresh (nfiles st0) (le_n _)) as Hgno.
  pose proof (Hofresh (next_id st0) (le_n _)) as Hmno.
  unfold round_content.
  destruct (files st0 f) as [ex rf dm hd F0 U0] eqn:Ef. simpl in Hex, Hhd, Hnd, Hrf, Hin. subst ex rf dm hd.
  destruct (objs st0 (s_cur st0)) as [cf K cr] eqn:Ec. simpl in Hf, Hcr. subst cf cr.
  cbn [o_content].
  pose (v0 := {| vf := {| f_exists := true; f_refs := 1; f_doomed := false; f_header := true; f_footers := F0; f_unsynced := U0 |};
                 vg := no_file;
                 vc := {| vo_file := Some false; vo_content := K; vo_refs := 2 |};
                 vn := {| vo_file := None; vo_content := []; vo_refs := 0 |};
                 w_nf := nfiles st0; w_sc := false; w_lc := false; w_dirty := dirty st0; w_id := next_id st0 |}).
  assert (Hfg : f <> nfiles st0) by lia. assert (Hcm : s_cur st0 <> next_id st0) by lia.
  assert (M0 : matches st0 f (nfiles st0) (s_cur st0) (next_id st0) v0 st0).
  { constructor; simpl; auto.
    - rewrite Ec. repeat split.
    - rewrite Hmno. repeat split. }
  apply (states_of_views st0 f (nfiles st0) (s_cur st0) (next_id st0) Hfg Hcm _
           (VRel true (negb (noSync o)) v0 (nfiles st0) (next_id st0) (K ++ dirty st0))) with (v := v0);
    [ intros V s HM HV; apply (rel_of_view true _ st0 f _ _ _ _ v0 V s M0 HM HV) | exact M0 | ].
  subst v0. clear_all.
  destruct o as [ns cs ms kf].
  destruct k.
  all: rel_walk fo n.
  all: unfold VRel, nidP, created_file; view_compute; rsolve.
Qed.

Lemma rel_nofile o fo n n' k st0 :
  Inv n' st0 -> o_file (cur st0) = None ->
  Forall (DiskRel false (negb (noSync o)) st0 (S (nfiles st0)) (nfiles st0) (next_id st0) (round_content st0))
         (states_of (S (nfiles st0)) (nfiles st0) (s_cur st0) (next_id st0)
                    (round_prog o fo n (round_content st0) (next_id st0) k false) st0).
Proof.
  intros HI Hf.
  destruct HI as [Hsame Hclt Hcr Hor Hfr Hfresh Hdoom Hserved Hnodup Hidlt Hdids Horph Hdesc Hofresh].
  unfold cur in *. rewrite Hf in *.
  set (f := S (nfiles st0)).
  pose proof (Hfresh f (le_S _ _ (le_n _))) as Hfno.
  pose proof (Hfresh (nfiles st0) (le_n _)) as Hgno.
  pose proof (Hofresh (next_id st0) (le_n _)) as Hmno.
  unfold round_content.
  destruct (objs st0 (s_cur st0)) as [cf K cr] eqn:Ec. simpl in Hf, Hcr. subst cf cr.
  cbn [o_content].
  pose (v0 := {| vf := no_file;
                 vg := no_file;
                 vc := {| vo_file := None; vo_content := K; vo_refs := 2 |};
                 vn := {| vo_file := None; vo_content := []; vo_refs := 0 |};
                 w_nf := nfiles st0; w_sc := false; w_lc := false; w_dirty := dirty st0; w_id := next_id st0 |}).
  assert (Hfg : f <> nfiles st0) by (subst f; lia). assert (Hcm : s_cur st0 <> next_id st0) by lia.
  assert (M0 : matches st0 f (nfiles st0) (s_cur st0) (next_id st0) v0 st0).
  { constructor; simpl; auto.
    - rewrite Ec. repeat split.
    - rewrite Hmno. repeat split. }
  apply (states_of_views st0 f (nfiles st0) (s_cur st0) (next_id st0) Hfg Hcm _
           (VRel false (negb (noSync o)) v0 (nfiles st0) (next_id st0) (K ++ dirty st0))) with (v := v0);
    [ intros V s HM HV; apply (rel_of_view false _ st0 f _ _ _ _ v0 V s M0 HM HV) | exact M0 | ].
  subst v0. clear_all.
  destruct o as [ns cs ms kf].
  destruct k.
  all: rel_walk fo n.
  all: unfold VRel, nidP, created_file; view_compute; rsolve.
Qed.

(* the relation holds at every crash point of a round *)
Lemma crash_states_rel o fo n n' k st :
  Inv n' (handed n k st) ->
  let st0 := handed n k st in
  Forall (DiskRel (has_file st0) (negb (noSync o)) st0 (served_ix st0) (nfiles st0) (next_id st0)
                  (round_content st0))
         (crash_states o fo n k st).
Proof.
  intros HI st0. unfold crash_states, the_prog. fold st0.
  unfold has_file, served_ix.
  destruct (o_file (objs st0 (s_cur st0))) as [f|] eqn:Hf.
  - apply (rel_file o fo n n' k st0 f HI Hf).
  - apply (rel_nofile o fo n n' k st0 HI Hf).
Qed.

(* ------------------------------------------------------------------ *)
(* 4. OpenStore on a crash image                                        *)

Lemma newest_usable_spec fs m :
  match newest_usable fs m with
  | Some t => t < m /\ usable (fs t) = true /\ forall i, t < i -> i < m -> usable (fs i) = false
  | None => forall i, i < m -> usable (fs i) = false
  end.
Proof.
  induction m as [|m IH]; simpl.
  - intros i Hi. lia.
  - destruct (usable (fs m)) eqn:Eu.
    + split; [lia|]. split; [exact Eu|]. intros i H1 H2. lia.
    + destruct (newest_usable fs m) as [t|].
      * destruct IH as (A & B & C). split; [lia|]. split; [exact B|].
        intros i H1 H2. destruct (Nat.eq_dec i m) as [->|Hne]; [exact Eu|]. apply C; lia.
      * intros i Hi. destruct (Nat.eq_dec i m) as [->|Hne]; [exact Eu|]. apply IH; lia.
Qed.

Lemma reopen_char st :
  match reopen st with
  | ReopenServes t d =>
      t < nfiles st /\ usable (files st t) = true /\ (exists r, f_footers (files st t) = d :: r) /\
      (forall i, t < i -> i < nfiles st -> usable (files st i) = false)
  | _ => forall i, i < nfiles st -> usable (files st i) = false
  end.
Proof.
  unfold reopen. destruct (dir_of st) as [|x xs] eqn:Ed.
  - intros i Hi. unfold usable. destruct (f_exists (files st i)) eqn:Ex; [|reflexivity].
    assert (Hin : In i (dir_of st)).
    { unfold dir_of. apply filter_In. split; [apply in_seq; lia|exact Ex]. }
    rewrite Ed in Hin. contradiction.
  - pose proof (newest_usable_spec (files st) (nfiles st)) as H.
    destruct (newest_usable (files st) (nfiles st)) as [t|]; [|exact H].
    destruct H as (A & B & C).
    destruct (f_footers (files st t)) as [|d r] eqn:Ef.
    + unfold usable in B. rewrite Ef in B. rewrite Bool.andb_false_r in B. discriminate.
    + split; [exact A|]. split; [exact B|]. split; [exists r; rewrite Ef; reflexivity|exact C].
Qed.

(* --- what an image keeps of a file --- *)

Lemma survive_in U l l' : survive true U l l' -> forall d, In d l' -> In d l.
Proof.
  induction 1 as [|d0 l l' Hu Hs IH|d0 d0' l l' Hid Hb Hs IH]; intros d Hin.
  - contradiction.
  - right. apply IH, Hin.
  - destruct Hin as [<-|Hin]; [left; symmetry; apply Hb; reflexivity|right; apply IH, Hin].
Qed.

Lemma survive_keeps U l l' :
  survive true U l l' -> forall d, In d l -> ~ In (d_id d) U -> In d l'.
Proof.
  induction 1 as [|d0 l l' Hu Hs IH|d0 d0' l l' Hid Hb Hs IH]; intros d Hin Hn.
  - contradiction.
  - destruct Hin as [<-|Hin]; [contradiction|apply IH; auto].
  - destruct Hin as [<-|Hin]; [left; apply Hb; reflexivity|right; apply IH; auto].
Qed.

Lemma survive_head U l l' :
  survive true U l l' -> desc l ->
  forall d' r d, l' = d' :: r -> In d l -> ~ In (d_id d) U -> d_id d <= d_id d'.
Proof.
  induction 1 as [|d0 l l' Hu Hs IH|d0 d0' l l' Hid Hb Hs IH]; intros Hd d' r d El Hin Hn.
  - contradiction.
  - destruct Hin as [<-|Hin]; [contradiction|]. destruct Hd as (_ & Hd). eapply IH; eauto.
  - injection El as <- <-. rewrite (Hb eq_refl). eapply desc_head_max; eauto.
Qed.

Lemma img_foot_in ns x y d : img_file true ns x y -> In d (f_footers y) -> In d (f_footers x).
Proof.
  unfold img_file. destruct ns.
  - intros (_ & _ & ->). auto.
  - intros (_ & _ & Hs & _). apply (survive_in _ _ _ Hs).
Qed.

Lemma img_exists ns x y : img_file true ns x y -> f_exists y = true -> f_exists x = true.
Proof.
  unfold img_file. destruct ns.
  - intros (-> & _). auto.
  - intros (H & _). exact H.
Qed.

Lemma img_keeps ns x y d :
  img_file true ns x y -> f_exists x = true -> f_header x = true -> In d (f_footers x) ->
  (ns = false -> ~ In (d_id d) (f_unsynced x)) ->
  usable y = true /\ In d (f_footers y).
Proof.
  unfold img_file, usable. destruct ns.
  - intros (-> & -> & ->) -> -> Hin _. split; [|exact Hin].
    destruct (f_footers x); [contradiction|reflexivity].
  - intros (_ & _ & Hs & Hb) Hex Hhd Hin Hn.
    pose proof (survive_keeps _ _ _ Hs d Hin (Hn eq_refl)) as Hy.
    assert (Hne : f_footers y <> []) by (intros E; rewrite E in Hy; contradiction).
    destruct (Hb eq_refl Hex Hne) as (-> & ->). split; [|exact Hy].
    destruct (f_footers y); [contradiction|reflexivity].
Qed.

Lemma img_head ns x y d' r d :
  img_file true ns x y -> desc (f_footers x) -> f_footers y = d' :: r -> In d (f_footers x) ->
  (ns = false -> ~ In (d_id d) (f_unsynced x)) -> d_id d <= d_id d'.
Proof.
  unfold img_file. destruct ns.
  - intros (_ & _ & ->) Hd E Hin _. rewrite E in *. eapply desc_head_max; eauto.
  - intros (_ & _ & Hs & _) Hd E Hin Hn. eapply survive_head; eauto.
Qed.

Lemma desc_inj l : desc l -> forall a b, In a l -> In b l -> d_id a = d_id b -> a = b.
Proof.
  induction l as [|x l IH]; intros Hd a b Ha Hb E; [contradiction|].
  destruct Hd as (Hlt & Hd).
  destruct Ha as [<-|Ha], Hb as [<-|Hb]; auto.
  - specialize (Hlt _ Hb). lia.
  - specialize (Hlt _ Ha). lia.
Qed.

(* --- the second invariant: what Inv does not say about old footers and
       about f_unsynced --- *)
Record Inv2 (o : opts) (st : state) : Prop := {
  (* while nothing is served from a file, every complete footer anywhere was
     written by a round that reported an error *)
  j_orph : o_file (cur st) = None ->
           forall i d, In d (f_footers (files st i)) -> s_cur st < d_id d;
  (* when rounds sync, only such footers can be un-synced in the served file *)
  j_sync : noSync o = false -> forall f, o_file (cur st) = Some f ->
           forall x, In x (f_unsynced (files st f)) -> s_cur st < x
}.

Lemma Inv2_init o : Inv2 o init.
Proof. constructor; simpl; intros; try contradiction; discriminate. Qed.

Lemma prefix_refl a : prefix a a.
Proof. exists []. rewrite app_nil_r. reflexivity. Qed.
Lemma prefix_app a b : prefix a (a ++ b).
Proof. exists b. reflexivity. Qed.
Lemma prefix_trans a b c : prefix a b -> prefix b c -> prefix a c.
Proof. intros (x & ->) (y & ->). exists (x ++ y). rewrite app_assoc. reflexivity. Qed.

(* the core: at a crash point related to the round's start state by DiskRel,
   OpenStore on any legal image is fine *)
Lemma crash_good o n st0 s img :
  Inv n st0 -> Inv2 o st0 -> Newest st0 ->
  DiskRel (has_file st0) (negb (noSync o)) st0 (served_ix st0) (nfiles st0) (next_id st0)
          (round_content st0) s ->
  crash_image true o s img ->
  crash_ok (o_file (cur st0) = None) (o_content (cur st0)) (pending st0) (reopen_image s img).
Proof.
  intros HI HJ HN HR Himg.
  assert (HP : round_content st0 = pending st0) by reflexivity.
  rewrite HP in HR. clear HP.
  unfold has_file, served_ix in HR. fold (cur st0) in HR.
  set (g := nfiles st0) in *. set (m := next_id st0) in *. set (P := pending st0) in *.
  set (ns := noSync o) in *.
  assert (HPc : prefix (o_content (cur st0)) P) by apply prefix_app.
  (* files of st0 below g *)
  assert (Hlt0 : forall i, f_exists (files st0 i) = true -> i < g).
  { intros i Hi. apply (exists_lt_nfiles n st0 i HI Hi). }
  (* the new footer is acceptable *)
  assert (HnidP : crash_ok (o_file (cur st0) = None) (o_content (cur st0)) P
                           (ReopenServes 0 (nidP m P)) ) by (simpl; split; [exact HPc|apply prefix_refl]).
  (* an orphan footer of st0 is acceptable *)
  assert (Horph : forall i d, In d (f_footers (files st0 i)) -> s_cur st0 < d_id d -> d_content d = P).
  { intros i d Hin Hlt. apply (i_orph _ _ HI i d Hin Hlt). }
  pose proof (reopen_char (set_files s img)) as HC.
  unfold reopen_image.
  destruct (o_file (cur st0)) as [f|] eqn:Hf.
  - (* something is served from file f *)
    destruct HR as [Rother Rnf Rffoot Rfuns Rfhdr Rfex Rgfoot Rgnf Rghdr Rone].
    destruct (served_footer_alive n st0 HI f Hf) as (Hex & Hnd & Hhd & Hrf & Hin).
    pose proof (i_served _ _ HI) as Hs. rewrite Hf in Hs. destruct Hs as (Hflt & _). fold g in Hflt.
    set (sf := {| d_id := s_cur st0; d_content := o_content (cur st0) |}) in *.
    assert (Hdescf : desc (f_footers (files s f))).
    { destruct Rffoot as [->| ->]; [apply (i_desc _ _ HI)|].
      apply desc_cons_lt; [apply (i_desc _ _ HI)|]. simpl. intros e He. apply (i_dids _ _ HI f e He). }
    assert (Hsfin : In sf (f_footers (files s f))).
    { destruct Rffoot as [->| ->]; [exact Hin|right; exact Hin]. }
    assert (Hsfsync : ns = false -> ~ In (d_id sf) (f_unsynced (files s f))).
    { intros Ens Hu. apply Rfuns in Hu. simpl in Hu. destruct Hu as [Hu|Hu].
      - pose proof (i_curlt _ _ HI). subst m. lia.
      - pose proof (j_sync _ _ HJ Ens f Hf _ Hu). lia. }
    (* one of f, g is usable in the image *)
    assert (Huse : (f < nfiles s /\ usable (img f) = true) \/ (nfiles s = S g /\ usable (img g) = true)).
    { destruct (Rone eq_refl) as [Hfe|(A & B & C & D & E)].
      - left. split; [destruct Rnf as [->| ->]; lia|].
        apply (img_keeps ns _ _ sf (Himg f)); auto. rewrite Rfhdr. exact Hhd.
      - right. split; [exact A|].
        apply (img_keeps ns _ _ (nidP m P) (Himg g)); auto.
        + rewrite D. left. reflexivity.
        + intros Ens. rewrite E; [intros []|]. rewrite Ens. reflexivity. }
    destruct (reopen (set_files s img)) as [| |t d].
    + exfalso. simpl in HC. destruct Huse as [(A & B)|(A & B)]; rewrite HC in B; try discriminate; lia.
    + exfalso. simpl in HC. destruct Huse as [(A & B)|(A & B)]; rewrite HC in B; try discriminate; lia.
    + simpl in HC. destruct HC as (Ht & Hu & (r & Er) & Hnew).
      assert (Hdin : In d (f_footers (files s t))).
      { apply (img_foot_in ns _ (img t) d (Himg t)). rewrite Er. left. reflexivity. }
      assert (Htex : f_exists (files s t) = true).
      { apply (img_exists ns _ (img t) (Himg t)). unfold usable in Hu.
        destruct (f_exists (img t)); [reflexivity|discriminate]. }
      destruct (Nat.eq_dec t g) as [->|Htg].
      { destruct Rgfoot as [E|E]; rewrite E in Hdin; [contradiction|].
        destruct Hdin as [<-|[]]. exact HnidP. }
      destruct (Nat.eq_dec t f) as [->|Htf].
      { assert (Hle : s_cur st0 <= d_id d).
        { apply (img_head ns _ _ d r sf (Himg f)); auto. }
        assert (Hcase : d = nidP m P \/ In d (f_footers (files st0 f))).
        { destruct Rffoot as [E|E]; rewrite E in Hdin; [right; exact Hdin|].
          destruct Hdin as [<-|Hd]; [left; reflexivity|right; exact Hd]. }
        destruct Hcase as [->|Hd0]; [exact HnidP|].
        simpl. destruct (Nat.eq_dec (d_id d) (s_cur st0)) as [He|Hne].
        - assert (d = sf) by (apply (desc_inj _ (i_desc _ _ HI f)); auto).
          subst d. simpl. split; [apply prefix_refl|exact HPc].
        - rewrite (Horph f d Hd0) by lia. split; [exact HPc|apply prefix_refl]. }
      exfalso.
      rewrite (Rother t Htf Htg) in Htex.
      pose proof (HN t Htex) as Hle. rewrite Hf in Hle.
      pose proof (Hlt0 t Htex) as Htl.
      destruct Huse as [(A & B)|(A & B)].
      * rewrite Hnew in B; [discriminate| |exact A]. simpl. lia.
      * rewrite Hnew in B; [discriminate| |]; simpl; lia.
  - (* nothing is served from a file yet *)
    destruct HR as [Rother Rnf Rffoot Rfuns Rfhdr Rfex Rgfoot Rgnf Rghdr Rone].
    destruct (reopen (set_files s img)) as [| |t d]; simpl; auto.
    simpl in HC. destruct HC as (Ht & Hu & (r & Er) & Hnew).
    assert (Hdin : In d (f_footers (files s t))).
    { apply (img_foot_in ns _ (img t) d (Himg t)). rewrite Er. left. reflexivity. }
    destruct (Nat.eq_dec t g) as [->|Htg].
    { destruct Rgfoot as [E|E]; rewrite E in Hdin; [contradiction|].
      destruct Hdin as [<-|[]]. exact HnidP. }
    assert (Htf : t <> S g) by (destruct Rnf as [E|E]; rewrite E in Ht; lia).
    rewrite (Rother t Htf Htg) in Hdin.
    pose proof (j_orph _ _ HJ Hf t d Hdin) as Hlt.
    rewrite (Horph t d Hdin Hlt). split; [exact HPc|apply prefix_refl].
Qed.

(* ------------------------------------------------------------------ *)
(* 5. Inv2 holds between rounds                                         *)

Lemma sync_req_syncing o k : noSync o = false -> sync_req o k = true.
Proof. intros H. unfold sync_req. rewrite H. destruct k; reflexivity. Qed.

Lemma last_In {A} (l : list A) d : l <> [] -> In (last l d) l.
Proof.
  induction l as [|a l IH]; intros Hne; [contradiction|].
  destruct l as [|b l]; [left; reflexivity|]. right. apply IH. discriminate.
Qed.

Lemma handed_cur n k st : cur (handed n k st) = cur st.
Proof. destruct k; simpl; auto; apply cur_hand_over. Qed.
Lemma handed_scur n k st : s_cur (handed n k st) = s_cur st.
Proof. destruct k; simpl; auto; apply scur_hand_over. Qed.
Lemma handed_files n k st : files (handed n k st) = files st.
Proof. destruct k; simpl; auto; apply files_hand_over. Qed.
Lemma handed_nfiles n k st : nfiles (handed n k st) = nfiles st.
Proof. destruct k; simpl; auto; apply nfiles_hand_over. Qed.

Lemma handed_Inv n k st : Inv n st -> Inv (S n) (handed n k st).
Proof.
  intros HI. destruct k; simpl; try apply (Inv_hand_over n st HI).
  apply Inv_mono with n; [lia|exact HI].
Qed.

Lemma handed_Inv2 o n k st : Inv2 o st -> Inv2 o (handed n k st).
Proof.
  intros [A B]. constructor; rewrite handed_cur, handed_scur, handed_files; auto.
Qed.

Lemma handed_Newest n k st : Newest st -> Newest (handed n k st).
Proof. intros H i. rewrite handed_cur, handed_files. apply H. Qed.

Lemma final_rel o fo n k st :
  Inv n st ->
  let st0 := handed n k st in
  DiskRel (has_file st0) (negb (noSync o)) st0 (served_ix st0) (nfiles st0) (next_id st0)
          (round_content st0) (fst (persister_round o fo n k st)).
Proof.
  intros HI st0.
  pose proof (crash_states_rel o fo n (S n) k st (handed_Inv n k st HI)) as HF.
  rewrite <- (crash_states_end o fo n k st st (i_same _ _ HI)).
  rewrite Forall_forall in HF. apply HF. apply last_In.
  destruct (crash_states_start o fo n k st) as (r & ->). discriminate.
Qed.

Lemma Inv2_round o fo n k st :
  Inv n st -> Inv2 o st -> Inv2 o (fst (persister_round o fo n k st)).
Proof.
  intros HI HJ.
  destruct (round_kind_eq_dec k RNoop) as [->|Hk].
  { rewrite noop_indep. destruct (noop_state st (i_crefs _ _ HI)) as (E1 & E2 & E3 & E4 & E5 & E6 & E7).
    destruct HJ as [A B]. constructor; unfold cur in *; rewrite ?E1, ?E3, ?E7; auto. }
  pose proof (final_rel o fo n k st HI) as HR. cbv zeta in HR.
  pose proof (handed_Inv2 o n k st HJ) as HJ0.
  pose proof (handed_Inv n k st HI) as HI0.
  assert (Eh : handed n k st = hand_over n st) by (destruct k; try reflexivity; contradiction).
  rewrite Eh in *. set (st0 := hand_over n st) in *.
  pose proof (round_spec o fo n k st HI Hk) as (_ & _ & _ & _ & HE & HO). fold st0 in HE, HO.
  set (st' := fst (persister_round o fo n k st)) in *.
  destruct (ro_error (snd (persister_round o fo n k st))).
  - destruct HE as (_ & [Esc Elc Ed Enf Eid Ecur Eor Eold Enew Efresh Eofresh]); auto.
    assert (Hcur : cur st' = cur st0) by (unfold cur; rewrite Esc, Ecur; reflexivity).
    destruct HR as [Rother Rnf Rffoot Rfuns Rfhdr Rfex Rgfoot Rgnf Rghdr Rone].
    pose proof (i_curlt _ _ HI0) as Hclt.
    constructor; rewrite Hcur, Esc.
    + intros Hnone i d Hin.
      destruct (Nat.eq_dec i (nfiles st0)) as [->|Hig].
      { destruct Rgfoot as [E|E]; rewrite E in Hin; [contradiction|].
        destruct Hin as [<-|[]]. simpl. exact Hclt. }
      destruct (Nat.eq_dec i (served_ix st0)) as [->|Hif].
      { destruct Rffoot as [E|E]; rewrite E in Hin.
        - apply (j_orph _ _ HJ0 Hnone _ d Hin).
        - destruct Hin as [<-|Hin]; [simpl; exact Hclt|apply (j_orph _ _ HJ0 Hnone _ d Hin)]. }
      rewrite (Rother i Hif Hig) in Hin. apply (j_orph _ _ HJ0 Hnone _ d Hin).
    + intros Hns f Hf x Hx.
      assert (Ef : served_ix st0 = f).
      { unfold served_ix. unfold cur in Hf. rewrite Hf. reflexivity. }
      rewrite Ef in Rfuns. apply Rfuns in Hx. destruct Hx as [<-|Hx]; [exact Hclt|].
      apply (j_sync _ _ HJ0 Hns f Hf x Hx).
  - destruct HO as (_ & [Ksc Klc Kd Kid Knf Kor Kfresh Kofresh
       (t & Kobj & Kt & Ktf & Kex & Khd & Knd & Krf & Kft & Ksy & Kother)]); auto.
    constructor; unfold cur; rewrite Ksc, Kobj; simpl.
    + discriminate.
    + intros Hns f Hf x Hx. injection Hf as <-.
      rewrite Ksy in Hx; [contradiction|]. apply sync_req_syncing. exact Hns.
Qed.

Lemma Inv2_run o fo ks : forall n st,
  Inv n st -> Inv2 o st -> Inv2 o (fst (run o fo n ks st)).
Proof.
  induction ks as [|k ks IH]; intros n st HI HJ; [exact HJ|].
  rewrite run_cons. simpl fst. apply (IH (S n)).
  - apply Inv_round; auto.
  - apply Inv2_round; auto.
Qed.

Corollary Inv2_reachable o fo ks : Inv2 o (reachable o fo ks).
Proof. apply (Inv2_run o fo ks 0 init Inv_init (Inv2_init o)). Qed.

(* ------------------------------------------------------------------ *)
(* 6. One round: every crash point, every legal image                   *)

Theorem crash_round_ok o fo n k st s img :
  Inv n st -> Inv2 o st -> Newest st ->
  In s (crash_states o fo n k st) -> crash_image true o s img ->
  crash_ok (o_file (cur st) = None) (o_content (cur st)) (pending (handed n k st))
           (reopen_image s img).
Proof.
  intros HI HJ HN Hin Himg.
  pose proof (crash_states_rel o fo n (S n) k st (handed_Inv n k st HI)) as HF. cbv zeta in HF.
  rewrite Forall_forall in HF. specialize (HF s Hin).
  rewrite <- (handed_cur n k st).
  apply (crash_good o (S n) (handed n k st) s img); auto.
  - apply handed_Inv; auto.
  - apply handed_Inv2; auto.
  - apply handed_Newest; auto.
Qed.

(* ------------------------------------------------------------------ *)
(* 7. Whole runs                                                        *)

Lemma firstn_length_le {A} r (l : list A) : length (firstn r l) <= r.
Proof. rewrite firstn_length. lia. Qed.

(* (A) + lower bound: crash point (r, j) of any run in which the clean-up Stat
   of removeFileOnClose did not fail in an EARLIER attempt; any legal image,
   power failure (noSync o = false) or process kill (noSync o = true).
   OpenStore serves a footer whose content d satisfies
        served-before-attempt-r  <=  d  <=  everything handed to the persister,
   in the prefix order on lists of round ids; it can only find the directory
   empty or unopenable while no round has ever committed. *)
Theorem crash_prefix_consistent o fo ks r j s img :
  (forall i, i < r -> rm_stat_ok fo i) ->
  crash_state o fo ks r j = Some s ->
  crash_image true o s img ->
  let st := reachable o fo (firstn r ks) in
  crash_ok (o_file (cur st) = None) (o_content (cur st))
           (pending (handed r (nth r ks RNoop) st)) (reopen_image s img).
Proof.
  intros Hrm Hcs Himg st. unfold crash_state in Hcs. fold (reachable o fo (firstn r ks)) in Hcs. fold st in Hcs.
  apply nth_error_In in Hcs.
  pose proof (firstn_length_le r ks) as Hlen.
  apply (crash_round_ok o fo r (nth r ks RNoop) st s img); auto.
  - apply Inv_mono with (length (firstn r ks)); [exact Hlen|apply Inv_reachable].
  - apply Inv2_reachable.
  - apply Newest_run; [apply Inv_init| |apply Newest_init].
    intros i _ Hi. apply Hrm. simpl in Hi. lia.
Qed.

(* the content served only grows, and a served file is never given up *)
Lemma cur_mono_round o fo n k st :
  Inv n st ->
  let st' := fst (persister_round o fo n k st) in
  prefix (o_content (cur st)) (o_content (cur st')) /\
  (o_file (cur st) <> None -> o_file (cur st') <> None).
Proof.
  intros HI st'.
  destruct (round_kind_eq_dec k RNoop) as [->|Hk].
  { subst st'. rewrite noop_indep.
    destruct (noop_state st (i_crefs _ _ HI)) as (E1 & E2 & E3 & E4 & E5 & E6 & E7).
    unfold cur. rewrite E3, E7. split; [apply prefix_refl|auto]. }
  destruct (ro_error (snd (persister_round o fo n k st))) eqn:Ee.
  - destruct (error_keeps_served o fo n k st HI Ee) as (_ & _ & _ & Hc & _). fold st' in Hc.
    rewrite Hc. split; [apply prefix_refl|auto].
  - destruct (success_is_served o fo n k st HI Hk Ee) as (_ & _ & _ & _ & _ & _ & Hc & (t & Ht & _)).
    fold st' in Hc, Ht. rewrite Hc, Ht. split; [apply prefix_app|discriminate].
Qed.

Lemma cur_mono_run o fo ks : forall n st,
  Inv n st ->
  let st' := fst (run o fo n ks st) in
  prefix (o_content (cur st)) (o_content (cur st')) /\
  (o_file (cur st) <> None -> o_file (cur st') <> None).
Proof.
  induction ks as [|k ks IH]; intros n st HI.
  - simpl. split; [apply prefix_refl|auto].
  - cbv zeta. rewrite run_cons. simpl fst.
    destruct (cur_mono_round o fo n k st HI) as (A & B).
    destruct (IH (S n) _ (Inv_round o fo n k st HI)) as (C & D).
    split; [eapply prefix_trans; eauto|auto].
Qed.

Lemma prefix_incl a b : prefix a b -> incl a b.
Proof. intros (r & ->). apply incl_appl, incl_refl. Qed.

Lemma firstn_app_length {A} (l1 l2 : list A) : firstn (length l1) (l1 ++ l2) = l1.
Proof.
  rewrite firstn_app, Nat.sub_diag, firstn_all. simpl. apply app_nil_r.
Qed.

Lemma nth_app_length {A} (l1 l2 : list A) x d : nth (length l1) (l1 ++ x :: l2) d = x.
Proof. rewrite app_nth2 by lia. rewrite Nat.sub_diag. reflexivity. Qed.

(* (B)/(C): a round that reported success before the crash point is never lost.
   Attempt number length ks1 (kind k) reports success; the run goes on with
   ks2; the crash happens during the attempt after those (kind kc; RNoop for an
   idle persister) or at its very start (j = 0: right after ks2).  With
   noSync o = false every round syncs (sync_req_syncing) and the image is a
   power-failure image; with noSync o = true the image is a process-kill image
   and "synced" is dropped. *)
Theorem committed_round_survives o fo ks1 k ks2 kc j s img :
  let ks := ks1 ++ k :: ks2 in
  let r := length ks in
  (forall i, i < r -> rm_stat_ok fo i) ->
  k <> RNoop ->
  let oc := snd (persister_round o fo (length ks1) k (reachable o fo ks1)) in
  ro_error oc = false ->
  crash_state o fo (ks ++ [kc]) r j = Some s ->
  crash_image true o s img ->
  exists t d,
    reopen_image s img = ReopenServes t d /\
    prefix (o_content (cur (reachable o fo (ks1 ++ [k])))) (d_content d) /\
    incl (ro_handed oc) (d_content d) /\
    prefix (d_content d) (pending (handed r kc (reachable o fo ks))).
Proof.
  intros ks r Hrm Hk oc Hok Hcs Himg.
  pose proof (crash_prefix_consistent o fo (ks ++ [kc]) r j s img Hrm Hcs Himg) as H.
  cbv zeta in H. unfold r in H. rewrite firstn_app_length, nth_app_length in H. fold r in H.
  (* the successful round *)
  pose proof (Inv_reachable o fo ks1) as HI1.
  destruct (success_is_served o fo (length ks1) k (reachable o fo ks1) HI1 Hk Hok)
    as (_ & _ & _ & _ & _ & _ & Hc & (t1 & Ht1 & _)).
  rewrite <- reachable_snoc in Hc, Ht1. fold oc in Hc.
  (* the rest of the run *)
  assert (Eks : reachable o fo ks = fst (run o fo (length (ks1 ++ [k])) ks2 (reachable o fo (ks1 ++ [k])))).
  { unfold ks, reachable. replace (ks1 ++ k :: ks2) with ((ks1 ++ [k]) ++ ks2) by (rewrite <- app_assoc; reflexivity).
    exact (run_app o fo (ks1 ++ [k]) ks2 0 init). }
  pose proof (Inv_reachable o fo (ks1 ++ [k])) as HI2.
  destruct (cur_mono_run o fo ks2 _ _ HI2) as (Hpre & Hfile). rewrite <- Eks in Hpre, Hfile.
  assert (Hsome : o_file (cur (reachable o fo ks)) <> None) by (apply Hfile; rewrite Ht1; discriminate).
  destruct (reopen_image s img) as [| |t d]; simpl in H; try contradiction.
  destruct H as (A & B). exists t, d. split; [reflexivity|].
  assert (Hp : prefix (o_content (cur (reachable o fo (ks1 ++ [k])))) (d_content d))
    by (eapply prefix_trans; eauto).
  split; [exact Hp|]. split; [|exact B].
  intros x Hx. apply (prefix_incl _ _ Hp). rewrite Hc. apply in_or_app. right. exact Hx.
Qed.

(* (C) process kill, spelled out: with NoSync the directory is exactly what
   the operations issued so far have made it, and OpenStore on it is fine *)
Lemma process_kill_image o s : noSync o = true -> crash_image true o s (files s).
Proof. intros H i. unfold img_file. rewrite H. auto. Qed.

Corollary process_kill_prefix_consistent o fo ks r j s :
  noSync o = true ->
  (forall i, i < r -> rm_stat_ok fo i) ->
  crash_state o fo ks r j = Some s ->
  let st := reachable o fo (firstn r ks) in
  crash_ok (o_file (cur st) = None) (o_content (cur st))
           (pending (handed r (nth r ks RNoop) st)) (reopen s).
Proof.
  intros Hns Hrm Hcs.
  apply (crash_prefix_consistent o fo ks r j s (files s) Hrm Hcs (process_kill_image o s Hns)).
Qed.

(* ------------------------------------------------------------------ *)
(* 8. (D) What does NOT hold: each side condition is needed             *)

Ltac survive_tac :=
  solve [ repeat first
    [ apply sv_nil
    | apply sv_kept; [reflexivity | (intros; first [reflexivity | discriminate]) | ]
    | apply sv_lost; [simpl; auto | ] ] ].

Ltac img_tac :=
  unfold img_file; cbn [noSync opts0 opts_nosync];
  repeat match goal with
  | |- _ /\ _ => split
  | |- _ -> _ => intro
  end;
  try solve [ reflexivity | assumption | discriminate | congruence | survive_tac
            | (exfalso; auto) ].

Definition crash_at (o : opts) (fo : oracle) (ks : list round_kind) (r j : nat) (Q : state -> Prop) : Prop :=
  match crash_state o fo ks r j with Some s => Q s | None => False end.

Definition header_only_dir (i : nat) : file :=
  match i with 0 => fresh_file | _ => no_file end.

(* F5 / F5b.  The first round has created data-0000000000000000.moss and
   written its header page (startFileLOCKED, store.go:287-307); the crash comes
   before the first footer is complete.  Whether rounds sync (power failure,
   the header page happens to be on disk) or not (process kill): the directory
   holds a data file without footer and OpenStore answers "could not
   open/parse any file" (store.go:653).  No I/O failure is involved.  So the
   alternative `never committed` of crash_ok cannot be dropped. *)
Theorem crash_before_first_commit_refuted :
  forall o, o = opts0 \/ o = opts_nosync ->
  exists ks fo r j img,
    (forall i, rm_stat_ok fo i) /\
    o_file (cur (reachable o fo (firstn r ks))) = None /\
    crash_at o fo ks r j (fun s =>
      crash_image true o s img /\ reopen_image s img = ReopenError).
Proof.
  intros o Ho.
  exists [RAppend], quiet, 0, 3, header_only_dir.
  split; [intros i; reflexivity|]. split; [reflexivity|].
  destruct Ho as [-> | ->].
  - unfold crash_at.
    assert (E : exists s, crash_state opts0 quiet [RAppend] 0 3 = Some s /\
                          (forall i, files s i = header_only_dir i) /\ nfiles s = 1).
    { eexists. split; [vm_compute; reflexivity|]. split; [|reflexivity].
      intros [|i]; reflexivity. }
    destruct E as (s & -> & Ef & En). split.
    + intros i. rewrite Ef. destruct i; img_tac.
    + unfold reopen_image, reopen, dir_of. simpl. rewrite En. reflexivity.
  - unfold crash_at.
    assert (E : exists s, crash_state opts_nosync quiet [RAppend] 0 3 = Some s /\
                          (forall i, files s i = header_only_dir i) /\ nfiles s = 1).
    { eexists. split; [vm_compute; reflexivity|]. split; [|reflexivity].
      intros [|i]; reflexivity. }
    destruct E as (s & -> & Ef & En). split.
    + intros i. rewrite Ef. destruct i; img_tac.
    + unfold reopen_image, reopen, dir_of. simpl. rewrite En. reflexivity.
Qed.

(* F30.  crash_prefix_consistent asks that the Stat inside removeFileOnClose
   (store.go:328) did not fail in an earlier attempt.  Without that: attempt 1,
   a full compaction into file 1, writes its footer completely, the Sync after
   it fails (store_footer.go:39), and so does the Stat of the clean-up
   (store_compact.go:318-323): file 1 stays, with a complete footer {0,1}.
   Attempts 2 and 3 append to file 0, sync, and report success: {0,1,3} is
   served and durable.  Crash (here: with the persister idle, nothing in
   flight); in the image file 1's footer has survived; OpenStore takes the
   newest file with a footer - file 1 - and serves {0,1}: round 3 is lost. *)
Definition f30_image (i : nat) : file :=
  match i with
  | 0 => {| f_exists := true; f_refs := 0; f_doomed := false; f_header := true;
            f_footers := [{| d_id := 4; d_content := [0; 1; 3] |};
                          {| d_id := 3; d_content := [0; 1] |};
                          {| d_id := 1; d_content := [0] |}];
            f_unsynced := [] |}
  | 1 => {| f_exists := true; f_refs := 0; f_doomed := false; f_header := true;
            f_footers := [{| d_id := 2; d_content := [0; 1] |}];
            f_unsynced := [] |}
  | _ => no_file
  end.

Theorem crash_after_failed_cleanup_refuted :
  exists o ks fo r j img,
    (forall i, i <> 1 -> rm_stat_ok fo i) /\
    map ro_error (snd (run o fo 0 ks init)) = [false; true; false; false] /\
    o_content (cur (reachable o fo (firstn r ks))) = [0; 1; 3] /\
    crash_at o fo ks r j (fun s =>
      crash_image true o s img /\
      reopen_image s img = ReopenServes 1 {| d_id := 2; d_content := [0; 1] |}) /\
    ~ prefix [0; 1; 3] [0; 1].
Proof.
  exists opts0, witness_loss_rounds, witness_loss_oracle, 4, 0, f30_image.
  split.
  { intros i Hi. unfold rm_stat_ok, fl, witness_loss_oracle, fail_at. simpl.
    destruct i as [|[|i]]; try reflexivity. contradiction. }
  split; [vm_compute; reflexivity|]. split; [vm_compute; reflexivity|].
  split.
  - unfold crash_at.
    assert (E : exists s, crash_state opts0 witness_loss_oracle witness_loss_rounds 4 0 = Some s /\
                          nfiles s = 2 /\
                          (forall i, f_exists (files s i) = f_exists (f30_image i) /\
                                     f_header (files s i) = f_header (f30_image i) /\
                                     f_footers (files s i) = f_footers (f30_image i) /\
                                     incl (f_unsynced (files s i)) [2])).
    { eexists. split; [vm_compute; reflexivity|]. split; [reflexivity|].
      intros [|[|i]]; vm_compute; repeat split; auto; intros x []. }
    destruct E as (s & -> & En & Ef). split.
    + intros i. destruct (Ef i) as (E1 & E2 & E3 & E4).
      unfold img_file. cbn [noSync opts0]. rewrite E1, E2, E3.
      destruct i as [|[|i]]; simpl.
      * repeat split; auto.
        repeat (apply sv_kept; [reflexivity|reflexivity|]). apply sv_nil.
      * repeat split; auto.
        repeat (apply sv_kept; [reflexivity|reflexivity|]). apply sv_nil.
      * repeat split; auto. apply sv_nil.
    + unfold reopen_image, reopen, dir_of. simpl. rewrite En. reflexivity.
  - intros (x & E). discriminate E.
Qed.

(* the barrier.  With barrier_holds = false - the Sync BEFORE the footer write
   dropped (store_footer.go:26-31) - a footer can be on disk without the data
   it refers to; it then reads as anything.  One quiet round, crash with the
   persister idle: OpenStore serves what is not a prefix of anything. *)
Definition garbage_image (i : nat) : file :=
  match i with
  | 0 => {| f_exists := true; f_refs := 0; f_doomed := false; f_header := true;
            f_footers := [{| d_id := 1; d_content := [7] |}]; f_unsynced := [] |}
  | _ => no_file
  end.

Theorem crash_without_barrier_refuted :
  exists o ks fo r j img,
    (forall i, rm_stat_ok fo i) /\
    pending (reachable o fo (firstn r ks)) = [0] /\
    crash_at o fo ks r j (fun s =>
      crash_image false o s img /\
      reopen_image s img = ReopenServes 0 {| d_id := 1; d_content := [7] |}) /\
    ~ prefix [7] [0].
Proof.
  exists opts0, [RAppend], quiet, 1, 0, garbage_image.
  split; [intros i; reflexivity|]. split; [vm_compute; reflexivity|].
  split.
  - unfold crash_at.
    assert (E : exists s, crash_state opts0 quiet [RAppend] 1 0 = Some s /\ nfiles s = 1 /\
                (forall i, f_exists (files s i) = f_exists (garbage_image i) /\
                           f_header (files s i) = f_header (garbage_image i) /\
                           f_footers (files s i) = match i with 0 => [{| d_id := 1; d_content := [0] |}] | _ => [] end)).
    { eexists. split; [vm_compute; reflexivity|]. split; [reflexivity|].
      intros [|i]; vm_compute; repeat split; auto. }
    destruct E as (s & -> & En & Ef). split.
    + intros i. destruct (Ef i) as (E1 & E2 & E3).
      unfold img_file. cbn [noSync opts0]. rewrite E1, E2, E3.
      destruct i as [|i]; simpl.
      * repeat split; auto; try discriminate.
        apply sv_kept; [reflexivity|discriminate|apply sv_nil].
      * repeat split; auto; try discriminate. apply sv_nil.
    + unfold reopen_image, reopen, dir_of. simpl. rewrite En. reflexivity.
  - intros (x & E). discriminate E.
Qed.

(* The file-system assumption "unlinks are ordered (durable once issued)".
   moss never syncs the DIRECTORY.  On a file system where an unlink that was
   not followed by a directory sync can be undone by a power failure, ONE
   failure suffices for the loss of F30: attempt 1, a full compaction into
   file 1, persists and SYNCS its footer, then mmap fails (store_footer.go:316,
   exit 3 of compact, store_compact.go:325-331); removeFileOnClose(frefCompact)
   works and the deferred DecRef unlinks file 1.  Attempts 2 and 3 append to
   file 0 and report success.  Power failure; the unlink is undone: file 1 is
   back with its durable footer {0,1}, OpenStore serves it and deletes file 0. *)
Definition crash_image_undo (s : state) (img : nat -> file) : Prop :=
  forall i, img_file_undo (files s i) (img i).

Theorem crash_with_undone_unlink_refuted :
  exists o ks fo r j img,
    (forall i, rm_stat_ok fo i /\ rm_old_stat_ok fo i) /\
    map ro_error (snd (run o fo 0 ks init)) = [false; true; false; false] /\
    o_content (cur (reachable o fo (firstn r ks))) = [0; 1; 3] /\
    dir_of (reachable o fo (firstn r ks)) = [0] /\
    crash_at o fo ks r j (fun s =>
      crash_image_undo s img /\
      reopen_image s img = ReopenServes 1 {| d_id := 2; d_content := [0; 1] |}).
Proof.
  exists opts0, witness_loss_rounds, (fail_at [(1, SMmap)]), 4, 0, f30_image.
  split.
  { intros i. unfold rm_stat_ok, rm_old_stat_ok, fl, fail_at. simpl.
    rewrite !Bool.andb_false_r. auto. }
  split; [vm_compute; reflexivity|]. split; [vm_compute; reflexivity|].
  split; [vm_compute; reflexivity|].
  unfold crash_at.
  assert (E : exists s, crash_state opts0 (fail_at [(1, SMmap)]) witness_loss_rounds 4 0 = Some s /\
                        nfiles s = 2 /\
                        (forall i, f_header (f30_image i) = f_header (files s i) /\
                                   f_footers (f30_image i) = f_footers (files s i) /\
                                   f_unsynced (files s i) = [] /\
                                   (f_exists (files s i) = true -> f_exists (f30_image i) = true))).
  { eexists. split; [vm_compute; reflexivity|]. split; [reflexivity|].
    intros [|[|i]]; vm_compute; repeat split; auto. }
  destruct E as (s & -> & En & Ef). split.
  - intros i. exact (Ef i).
  - unfold reopen_image, reopen, dir_of. simpl. rewrite En. reflexivity.
Qed.

(* ------------------------------------------------------------------ *)
(* 9. Non-vacuity                                                       *)

(* a crash point INSIDE a full compaction, rounds syncing: the footer of the
   new file 1 is written but not yet synced.  Two legal images - the footer
   lost (file 1 is then possibly missing), the footer kept - and what
   crash_prefix_consistent promises for each *)
Definition img_lost (i : nat) : file :=
  match i with
  | 0 => {| f_exists := true; f_refs := 0; f_doomed := false; f_header := true;
            f_footers := [{| d_id := 1; d_content := [0] |}]; f_unsynced := [] |}
  | _ => no_file
  end.
Definition img_kept (i : nat) : file :=
  match i with
  | 1 => {| f_exists := true; f_refs := 0; f_doomed := false; f_header := true;
            f_footers := [{| d_id := 2; d_content := [0; 1] |}]; f_unsynced := [] |}
  | _ => img_lost i
  end.

Example crash_inside_full_compaction :
  crash_at opts0 quiet [RAppend; RFull] 1 6 (fun s =>
    f_unsynced (files s 1) = [2] /\
    crash_image true opts0 s img_lost /\ crash_image true opts0 s img_kept /\
    reopen_image s img_lost = ReopenServes 0 {| d_id := 1; d_content := [0] |} /\
    reopen_image s img_kept = ReopenServes 1 {| d_id := 2; d_content := [0; 1] |}).
Proof.
  unfold crash_at.
  assert (E : exists s, crash_state opts0 quiet [RAppend; RFull] 1 6 = Some s /\ nfiles s = 2 /\
              (forall i, files s i =
                 match i with
                 | 0 => {| f_exists := true; f_refs := 1; f_doomed := false; f_header := true;
                           f_footers := [{| d_id := 1; d_content := [0] |}]; f_unsynced := [] |}
                 | 1 => {| f_exists := true; f_refs := 1; f_doomed := false; f_header := true;
                           f_footers := [{| d_id := 2; d_content := [0; 1] |}]; f_unsynced := [2] |}
                 | _ => no_file
                 end)).
  { eexists. split; [vm_compute; reflexivity|]. split; [reflexivity|].
    intros [|[|i]]; reflexivity. }
  destruct E as (s & -> & En & Ef).
  split; [rewrite Ef; reflexivity|].
  split; [intros i; rewrite Ef; destruct i as [|[|i]]; img_tac|].
  split; [intros i; rewrite Ef; destruct i as [|[|i]]; img_tac|].
  split; unfold reopen_image, reopen, dir_of; simpl; rewrite En; reflexivity.
Qed.

(* the hypotheses of the theorems hold for runs with real failures, and the
   conclusion then has content: after a failed Sync behind a complete footer
   the un-synced footer may or may not survive; both contents are prefixes *)
Example theorem_applies_after_failures :
  let fo := fail_at [(1, SSync2); (2, SWData)] in
  let ks := [RAppend; RAppend; RFull; RAppend] in
  (forall i, rm_stat_ok fo i) /\
  map ro_error (snd (run opts0 fo 0 ks init)) = [false; true; true; false] /\
  (forall j s img, crash_state opts0 fo ks 4 j = Some s -> crash_image true opts0 s img ->
     exists t d, reopen_image s img = ReopenServes t d /\
                 prefix [0; 1] (d_content d) /\ prefix (d_content d) [0; 1]).
Proof.
  cbv zeta. split.
  { intros i. unfold rm_stat_ok, fl, fail_at. simpl. rewrite !Bool.andb_false_r. reflexivity. }
  split; [vm_compute; reflexivity|].
  intros j s img Hcs Himg.
  pose proof (crash_prefix_consistent opts0 (fail_at [(1, SSync2); (2, SWData)])
                [RAppend; RAppend; RFull; RAppend] 4 j s img) as H.
  cbv zeta in H.
  assert (Hrm : forall i, i < 4 -> rm_stat_ok (fail_at [(1, SSync2); (2, SWData)]) i).
  { intros i _. unfold rm_stat_ok, fl, fail_at. simpl. rewrite !Bool.andb_false_r. reflexivity. }
  specialize (H Hrm Hcs Himg).
  assert (E1 : o_content (cur (reachable opts0 (fail_at [(1, SSync2); (2, SWData)])
                 (firstn 4 [RAppend; RAppend; RFull; RAppend]))) = [0; 1]) by (vm_compute; reflexivity).
  assert (E2 : pending (handed 4 (nth 4 [RAppend; RAppend; RFull; RAppend] RNoop)
                 (reachable opts0 (fail_at [(1, SSync2); (2, SWData)])
                 (firstn 4 [RAppend; RAppend; RFull; RAppend]))) = [0; 1]) by (vm_compute; reflexivity).
  assert (E3 : o_file (cur (reachable opts0 (fail_at [(1, SSync2); (2, SWData)])
                 (firstn 4 [RAppend; RAppend; RFull; RAppend]))) = Some 0) by (vm_compute; reflexivity).
  rewrite E1, E2, E3 in H.
  destruct (reopen_image s img) as [| |t d]; simpl in H; try discriminate H.
  exists t, d. tauto.
Qed.

(* every crash point exists: the list of crash points of a round is not empty
   and position 0 is the state the round starts from *)
Example crash_points_exist o fo ks r :
  crash_state o fo ks r 0 = Some (handed r (nth r ks RNoop) (reachable o fo (firstn r ks))).
Proof.
  unfold crash_state. fold (reachable o fo (firstn r ks)).
  destruct (crash_states_start o fo r (nth r ks RNoop) (reachable o fo (firstn r ks))) as (l & ->).
  reflexivity.
Qed.

Print Assumptions round_prog_correct.
Print Assumptions crash_states_end.
Print Assumptions crash_states_rel.
Print Assumptions Inv2_reachable.
Print Assumptions crash_round_ok.
Print Assumptions crash_prefix_consistent.
Print Assumptions committed_round_survives.
Print Assumptions process_kill_prefix_consistent.
Print Assumptions crash_before_first_commit_refuted.
Print Assumptions crash_after_failed_cleanup_refuted.
Print Assumptions crash_without_barrier_refuted.
Print Assumptions crash_with_undone_unlink_refuted.
Print Assumptions crash_inside_full_compaction.
Print Assumptions theorem_applies_after_failures.
