(* TreeColl.v — the collection with child collections as a labelled transition
   system over Tree.v's data.  Executable definitions only. *)
From Moss Require Export Tree.

Inductive tmpc := TMIdle | TMIngested (mbase : option sstack) | TMSwapped.

Record tstate := {
  t_coll : cnode;
  t_top : option sstack;
  t_mid : option sstack;
  t_base : option sstack;
  t_clean : option sstack;
  t_ll : option fnode;
  t_merger : tmpc;
  t_persister : ppc;
  t_cached : option sstack;
  t_closed : bool
}.

Inductive tlabel :=
| TBatch (b : tbatch)
| TIngest
| TSwap (t : lvltree)
| THandover
| TPBegin
| TPPublish (l : fnode)
| TPFail
| TSnap
| TClose.

Definition tinit (c : cnode) (l : option fnode) : tstate :=
  {| t_coll := c; t_top := None; t_mid := None; t_base := None; t_clean := None; t_ll := l;
     t_merger := TMIdle; t_persister := PIdle; t_cached := None; t_closed := false |}.

Definition olist1 {A} (o : option A) : list A := match o with Some x => [x] | None => [] end.

Section WithMerge.
  Variable fm : bytes -> value -> bytes -> value.

  Definition has_some {A} (o : option A) : bool := match o with Some _ => true | None => false end.

  (* collection.snapshot(skip...) *)
  Definition t_assemble (s : tstate) (secs : list (option sstack)) : sstack :=
    assemble (t_coll s) (concat (map olist1 secs)) (t_ll s) (has_some (t_ll s)).

  Definition t_mk_snapshot (s : tstate) : sstack :=
    t_assemble s [t_top s; t_mid s; t_base s; t_clean s].

  Definition t_cur_snapshot (s : tstate) : sstack :=
    match t_cached s with Some sn => sn | None => t_mk_snapshot s end.

  (* batch well-formedness: unique keys per node, something in it *)
  Fixpoint tb_ok (b : tbatch) : bool :=
    match b with
    | TB ops bkids =>
        uniq_keys (keys ops) &&
        (fix all (l : list (cname * option tbatch)) : bool :=
           match l with
           | [] => true
           | (_, Some c) :: r => tb_ok c && all r
           | (_, None) :: r => all r
           end) bkids
    end.
  Definition tb_nonempty (b : tbatch) : bool :=
    match b with TB ops bkids => negb (Nat.eqb (length ops) 0) || negb (Nat.eqb (length bkids) 0) end.

  Definition set_llcap (s : sstack) (l : option fnode) : sstack :=
    match s with SS a i _ k => SS a i l k end.

  (* mergerNotifyPersister: the stack handed to the persister gets the current
     lower-level snapshot, and so do - recursively - its child stacks of the
     current incarnations (refreshChildLLSnapshots; a child footer of another
     incarnation counts as absent).  Without a lower-level snapshot only the
     root's field is (re)set. *)
  Definition child_ll (ll : option fnode) (n : cname) (inc : N) : option fnode :=
    match ll with
    | Some f => match assoc n (fn_kids f) with
                | Some y => if N.eqb (fn_incar y) inc then Some y else None
                | None => None end
    | None => None
    end.
  Fixpoint refresh_llcap (m : cnode) (s : sstack) (ll : option fnode) {struct s} : sstack :=
    match s with
    | SS a inc _ kids =>
        SS a inc ll
           ((fix go (ks : list (cname * sstack)) : list (cname * sstack) :=
               match ks with
               | [] => []
               | (n, ch) :: r =>
                   (n, match assoc n (cn_kids m) with
                       | Some cm => if N.eqb (cn_incar cm) (ss_incar ch)
                                    then refresh_llcap cm ch (child_ll ll n (cn_incar cm))
                                    else ch
                       | None => ch
                       end) :: go r
               end) kids)
    end.
  Definition handover_llcap (m : cnode) (s : sstack) (ll : option fnode) : sstack :=
    match ll with Some _ => refresh_llcap m s ll | None => set_llcap s None end.

  Definition tstep (c : cfg) (s : tstate) (lb : tlabel) : option tstate :=
    if t_closed s then None else
    match lb with
    | TBatch b =>
        if tb_ok b && tb_nonempty b then
          let '(coll', top') := build_top (t_coll s) b (t_top s) in
          Some {| t_coll := coll'; t_top := Some top'; t_mid := t_mid s; t_base := t_base s;
                  t_clean := t_clean s; t_ll := t_ll s; t_merger := t_merger s;
                  t_persister := t_persister s; t_cached := None; t_closed := false |}
        else None
    | TIngest =>
        match t_merger s with
        | TMIdle =>
            Some {| t_coll := t_coll s; t_top := None;
                    t_mid := Some (t_assemble s [t_top s; t_mid s]);
                    t_base := t_base s; t_clean := t_clean s; t_ll := t_ll s;
                    t_merger := TMIngested (t_base s); t_persister := t_persister s;
                    t_cached := None; t_closed := false |}
        | _ => None
        end
    | TSwap t =>
        match t_merger s, t_mid s with
        | TMIngested mbase, Some m =>
            let m' := if ss_is_empty m then m else merge_node fm t m mbase in
            Some {| t_coll := t_coll s; t_top := t_top s; t_mid := Some m'; t_base := t_base s;
                    t_clean := t_clean s; t_ll := t_ll s; t_merger := TMSwapped;
                    t_persister := t_persister s;
                    t_cached := if ss_is_empty m then t_cached s else None; t_closed := false |}
        | _, _ => None
        end
    | THandover =>
        match t_merger s with
        | TMSwapped =>
            match t_base s, t_mid s with
            | None, Some m =>
                if has_ll c then
                  Some {| t_coll := t_coll s; t_top := t_top s; t_mid := None;
                          t_base := Some (handover_llcap (t_coll s) m (t_ll s)); t_clean := t_clean s;
                          t_ll := t_ll s; t_merger := TMIdle; t_persister := t_persister s;
                          t_cached := t_cached s; t_closed := false |}
                else
                  Some {| t_coll := t_coll s; t_top := t_top s; t_mid := t_mid s; t_base := t_base s;
                          t_clean := t_clean s; t_ll := t_ll s; t_merger := TMIdle;
                          t_persister := t_persister s; t_cached := t_cached s; t_closed := false |}
            | _, _ =>
                Some {| t_coll := t_coll s; t_top := t_top s; t_mid := t_mid s; t_base := t_base s;
                        t_clean := t_clean s; t_ll := t_ll s; t_merger := TMIdle;
                        t_persister := t_persister s; t_cached := t_cached s; t_closed := false |}
            end
        | _ => None
        end
    | TPBegin =>
        match t_persister s, t_base s with
        | PIdle, Some _ =>
            if has_ll c then
              Some {| t_coll := t_coll s; t_top := t_top s; t_mid := t_mid s; t_base := t_base s;
                      t_clean := t_clean s; t_ll := t_ll s; t_merger := t_merger s;
                      t_persister := PUpdating; t_cached := t_cached s; t_closed := false |}
            else None
        | _, _ => None
        end
    | TPPublish l' =>
        match t_persister s, t_base s with
        | PUpdating, Some b =>
            Some {| t_coll := t_coll s; t_top := t_top s; t_mid := t_mid s; t_base := None;
                    t_clean := if cache_persisted c && negb (ss_has_merge b) then Some b else None;
                    t_ll := Some l'; t_merger := t_merger s; t_persister := PIdle;
                    t_cached := None; t_closed := false |}
        | _, _ => None
        end
    | TPFail =>
        match t_persister s with
        | PUpdating =>
            Some {| t_coll := t_coll s; t_top := t_top s; t_mid := t_mid s; t_base := t_base s;
                    t_clean := t_clean s; t_ll := t_ll s; t_merger := t_merger s;
                    t_persister := PIdle; t_cached := t_cached s; t_closed := false |}
        | _ => None
        end
    | TSnap =>
        Some {| t_coll := t_coll s; t_top := t_top s; t_mid := t_mid s; t_base := t_base s;
                t_clean := t_clean s; t_ll := t_ll s; t_merger := t_merger s;
                t_persister := t_persister s; t_cached := Some (t_cur_snapshot s); t_closed := false |}
    | TClose =>
        Some {| t_coll := t_coll s; t_top := None; t_mid := None; t_base := None; t_clean := None;
                t_ll := t_ll s; t_merger := t_merger s; t_persister := t_persister s;
                t_cached := None; t_closed := true |}
    end.

  Fixpoint trun (c : cfg) (s : tstate) (ls : list tlabel) : option tstate :=
    match ls with
    | [] => Some s
    | l :: r => match tstep c s l with Some s' => trun c s' r | None => None end
    end.

  Fixpoint tbatches (ls : list tlabel) : list tbatch :=
    match ls with
    | [] => []
    | TBatch b :: r => b :: tbatches r
    | _ :: r => tbatches r
    end.

  (* ---- the reference: a tree of ordered maps ------------------------------ *)
  (* each node keeps the batch segments applied to it since it was created *)
  Inductive rtree := RT (rhist : list segment) (rkids : list (cname * rtree)).
  Definition rt_hist (t : rtree) := match t with RT h _ => h end.
  Definition rt_kids (t : rtree) := match t with RT _ k => k end.

  Fixpoint rt_apply (t : rtree) (b : tbatch) {struct b} : rtree :=
    match b with
    | TB ops bkids =>
        RT (rt_hist t ++ [ops])
           ((fix go (l : list (cname * option tbatch)) (ks : list (cname * rtree))
              : list (cname * rtree) :=
              match l with
              | [] => ks
              | (n, None) :: r => go r (aremove n ks)
              | (n, Some cb) :: r =>
                  let cur := match assoc n ks with Some x => x | None => RT [] [] end in
                  go r (aset n (rt_apply cur cb) ks)
              end) bkids (rt_kids t))
    end.

  Definition rt_get (t : rtree) (k : bytes) : value := ref_from fm no_below (rt_hist t) k.
End WithMerge.
