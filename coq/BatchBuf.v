(* BatchBuf.v — the in-memory batch / segment buffer of couchbase/moss:
   buf []byte that Alloc carves slices from and mutate appends to, and
   kvs []uint64 holding (op|keyLen|valLen word, start offset) pairs.
   Executable definitions only; every lemma is in BatchBufFacts.v.

   Go sources modelled here (segment.go):
     newBatch / newSegment          new_batch
     Set / Del / Merge -> mutate    mutate        (append key, append val, mutateEx)
     mutateEx                       mutate_ex     (guards, keyStart rule, kvs append)
     Alloc                          alloc         (room check against cap, buf = buf[0:len+n])
     AllocSet/AllocDel/AllocMerge   alloc_mutate  (keyStart := cap(a.buf) - cap(keyFromAlloc))
     caller's copy(handle, bytes)   fill
     Len                            batch_len
     getOperationKeyVal, all pos    entries       (= FileFormat.entries_of kvs buf)
     Swap / Less under sort.Sort    sort_batch    (specification: kvs PAIRS permuted into
                                                   key order; buf untouched)
     findStartKeyInclusivePos,
     findKeyPos (index == nil)      batch_find_start, batch_find_key (Index.v's loops over
                                                   the keys decoded from kvs + buf)

   What of Go's slices is kept:
     - a.buf is (backing array, len, cap).  The bytes a.buf[0:len] are b_buf, cap is b_cap,
       and the identity of the backing array is the generation number b_gen: append()
       beyond the capacity allocates a NEW array (b_gen + 1) whose capacity is chosen by
       the Go runtime (growslice size classes).  That number is not modelled: the plain
       calls carry the capacity OBSERVED after the call and the model uses it when (and
       only when) the append had to grow; the runner compares b_cap with the observation
       after every call.
     - the bytes a.buf[len:cap] are zero: make() zeroes, growslice clears the tail of a
       byte array, and the unchanged code never shrinks len.  Alloc therefore exposes
       zeros.
     - a slice handed out by Alloc is a handle (generation, lo, hi, capacity of the array
       it points into): len = hi - lo, cap = array capacity - lo, exactly Go's
       a.buf[lo:hi].  Re-slicing h[a:b] is h_sub.  Writing through a handle of an older
       generation lands in the abandoned array and is invisible to the segment.
     - cap(kvs) is not kept: no code depends on it.
   Not modelled: negative numBytes (Go panics), handles of another batch, re-slicing a
   handle beyond its length (h[:cap(h)]), the tot* counters (FileFormat.persist_segment_loc
   has them for the persisted form). *)
From Coq Require Export NArith List Bool.
From Moss Require Export Bytes Segment Codec FileFormat.
From Moss Require Index.
Export ListNotations.
Open Scope N_scope.

(* ---------- state, handles ---------- *)

Record bstate := mkB {
  b_buf : bytes;        (* a.buf[0:len(a.buf)] *)
  b_cap : N;            (* cap(a.buf) *)
  b_gen : N;            (* which backing array a.buf points into *)
  b_kvs : list N        (* a.kvs, flat: word, start, word, start, ... *)
}.

Record handle := mkH {
  h_gen : N;            (* backing array the slice points into *)
  h_lo : N;             (* offset of its first byte in that array *)
  h_hi : N;             (* lo + len *)
  h_acap : N            (* capacity of that array *)
}.

Definition h_len (h : handle) : N := h_hi h - h_lo h.
Definition h_cap (h : handle) : N := h_acap h - h_lo h.          (* Go's cap(h) *)
(* h[a:b] *)
Definition h_sub (h : handle) (a b : N) : handle :=
  mkH (h_gen h) (h_lo h + a) (h_lo h + b) (h_acap h).
(* a nil / empty []byte argument (Del passes no value; AllocSet(k, nil)) *)
Definition h_nil : handle := mkH 0 0 0 0.

(* newBatch(rootCollection, BatchOptions{TotalOps, TotalKeyValBytes}) *)
Definition new_batch (total_ops total_bytes : N) : bstate := mkB [] total_bytes 0 [].

Inductive berr := EKeyTooLarge | EValueTooLarge | EAllocTooLarge.
Inductive result := ROk | RErr (e : berr) | RHandle (h : handle).

(* ---------- mutateEx ---------- *)

Definition mutate_ex (st : bstate) (code keyStart kl vl : N) : bstate * result :=
  match mutate_guard kl vl with
  | Some ErrKeyTooLarge => (st, RErr EKeyTooLarge)
  | Some ErrValueTooLarge => (st, RErr EValueTooLarge)
  | None =>
      (mkB (b_buf st) (b_cap st) (b_gen st)
           (b_kvs st ++ [encode code kl vl; u64 (key_start_rule keyStart kl vl)]),
       ROk)
  end.

(* ---------- mutate (Set / Del / Merge) ----------
   keyStart := len(a.buf); a.buf = append(a.buf, key...); a.buf = append(a.buf, val...)
   return a.mutateEx(...)
   The bytes are appended BEFORE the guards run: a rejected plain operation leaves its
   key and value bytes in buf (and may have moved buf to a new array). *)
Definition append_buf (st : bstate) (d : bytes) (obscap : N) : bstate :=
  let nb := b_buf st ++ d in
  if blen nb <=? b_cap st then mkB nb (b_cap st) (b_gen st) (b_kvs st)
  else mkB nb (N.max obscap (blen nb)) (b_gen st + 1) (b_kvs st).

Definition mutate (st : bstate) (code : N) (k v : bytes) (obscap : N) : bstate * result :=
  let keyStart := blen (b_buf st) in
  mutate_ex (append_buf st (k ++ v) obscap) code keyStart (blen k) (blen v).

(* ---------- Alloc ----------
   if numBytes > bufCap-bufLen { return nil, ErrAllocTooLarge }
   rv := a.buf[bufLen : bufLen+numBytes]; a.buf = a.buf[0 : bufLen+numBytes]
   Alloc never grows the array. *)
Definition alloc (st : bstate) (n : N) : bstate * result :=
  let bufLen := blen (b_buf st) in
  if b_cap st - bufLen <? n then (st, RErr EAllocTooLarge)
  else (mkB (b_buf st ++ zeros n) (b_cap st) (b_gen st) (b_kvs st),
        RHandle (mkH (b_gen st) bufLen (bufLen + n) (b_cap st))).

(* ---------- the caller's copy(h, d) ---------- *)

Definition write_bytes (buf : bytes) (lo : N) (d : bytes) : bytes :=
  take lo buf ++ d ++ drop (lo + blen d) buf.

Definition fill (st : bstate) (h : handle) (d : bytes) : bstate :=
  let d' := take (h_len h) d in                       (* copy() stops at len(h) *)
  if (h_gen h =? b_gen st) && (h_lo h + blen d' <=? blen (b_buf st))
  then mkB (write_bytes (b_buf st) (h_lo h) d') (b_cap st) (b_gen st) (b_kvs st)
  else st.                                            (* an abandoned array *)

(* ---------- AllocSet / AllocDel / AllocMerge ----------
   bufCap := cap(a.buf); keyStart := bufCap - cap(keyFromAlloc)
   return a.mutateEx(op, keyStart, len(keyFromAlloc), len(valFromAlloc))
   Nothing else of valFromAlloc is looked at: the value is taken to start where the key
   ends.  (A key handle with cap > cap(a.buf) would make keyStart negative in Go; handles
   of this batch never have that, BatchBufFacts.handle_cap_le.) *)
Definition alloc_mutate (st : bstate) (code : N) (kh vh : handle) : bstate * result :=
  mutate_ex st code (b_cap st - h_cap kh) (h_len kh) (h_len vh).

(* ---------- calls ---------- *)

Inductive call :=
| CSet (k v : bytes) (obscap : N)
| CDel (k : bytes) (obscap : N)
| CMerge (k v : bytes) (obscap : N)
| CAlloc (n : N)
| CFill (h : handle) (d : bytes)
| CAllocSet (kh vh : handle)
| CAllocDel (kh : handle)
| CAllocMerge (kh vh : handle).

Definition step (st : bstate) (c : call) : bstate * result :=
  match c with
  | CSet k v oc => mutate st OperationSet k v oc
  | CDel k oc => mutate st OperationDel k [] oc
  | CMerge k v oc => mutate st OperationMerge k v oc
  | CAlloc n => alloc st n
  | CFill h d => (fill st h d, ROk)
  | CAllocSet kh vh => alloc_mutate st OperationSet kh vh
  | CAllocDel kh => alloc_mutate st OperationDel kh h_nil
  | CAllocMerge kh vh => alloc_mutate st OperationMerge kh vh
  end.

Definition run (st : bstate) (cs : list call) : bstate :=
  fold_left (fun s c => fst (step s c)) cs st.

(* ---------- reading ---------- *)

Definition batch_len (st : bstate) : N := N.of_nat (length (b_kvs st)) / 2.

(* every entry the way getOperationKeyVal decodes it; None where Go would fault on a
   slice bound (Go checks against cap(buf): the model is the stricter one) *)
Definition entries (st : bstate) : option segment := entries_of (b_kvs st) (b_buf st).

(* the bytes a handle shows to the caller (current array only) *)
Definition read (st : bstate) (h : handle) : bytes := subs (b_buf st) (h_lo h) (h_hi h).

(* ---------- the specification side: what a call contributes ---------- *)

Definition guard_ok (kl vl : N) : bool :=
  match mutate_guard kl vl with None => true | Some _ => false end.

Definition accepted (st : bstate) (c : call) : list entry :=
  match c with
  | CSet k v _ => if guard_ok (blen k) (blen v) then [(k, OSet v)] else []
  | CDel k _ => if guard_ok (blen k) 0 then [(k, ODel)] else []
  | CMerge k v _ => if guard_ok (blen k) (blen v) then [(k, OMerge v)] else []
  | CAllocSet kh vh =>
      if guard_ok (h_len kh) (h_len vh) then [(read st kh, OSet (read st vh))] else []
  | CAllocDel kh => if guard_ok (h_len kh) 0 then [(read st kh, ODel)] else []
  | CAllocMerge kh vh =>
      if guard_ok (h_len kh) (h_len vh) then [(read st kh, OMerge (read st vh))] else []
  | CAlloc _ | CFill _ _ => []
  end.

Fixpoint accepted_run (st : bstate) (cs : list call) : list entry :=
  match cs with
  | [] => []
  | c :: r => accepted st c ++ accepted_run (fst (step st c)) r
  end.

(* ---------- kvs as pairs; registered byte ranges ---------- *)

Fixpoint pairs_of (ws : list N) : list (N * N) :=
  match ws with
  | w :: s :: r => (w, s) :: pairs_of r
  | _ => []
  end.

Fixpoint flat (ps : list (N * N)) : list N :=
  match ps with
  | [] => []
  | (w, s) :: r => w :: s :: flat r
  end.

(* [start, start + keyLen + valLen) of a pair *)
Definition pair_range (p : N * N) : N * N :=
  let '(_, kl, vl) := decode (fst p) in (snd p, snd p + kl + vl).
Definition ranges (st : bstate) : list (N * N) := map pair_range (pairs_of (b_kvs st)).

(* the key bytes Less() compares *)
Definition pair_key (buf : bytes) (p : N * N) : bytes :=
  let '(_, kl, _) := decode (fst p) in subs buf (snd p) (snd p + kl).

Definition batch_keys (st : bstate) : list bytes :=
  map (pair_key (b_buf st)) (pairs_of (b_kvs st)).

(* ---------- sort.Sort(a): specification ----------
   Swap exchanges kvs pairs, Less compares the key bytes in buf; buf is not touched.
   The result is the key-ordered permutation of the pairs (insertion, as
   Segment.sort_seg; the batch contract is unique keys, and then the sorted permutation
   is unique, whatever algorithm sort.Sort runs). *)
Fixpoint pinsert (buf : bytes) (p : N * N) (ps : list (N * N)) : list (N * N) :=
  match ps with
  | [] => [p]
  | a :: r =>
      match bcmp (pair_key buf p) (pair_key buf a) with
      | Gt => a :: pinsert buf p r
      | _ => p :: ps
      end
  end.
Definition sort_pairs (buf : bytes) (ps : list (N * N)) : list (N * N) :=
  fold_right (pinsert buf) [] ps.

Definition sort_batch (st : bstate) : bstate :=
  mkB (b_buf st) (b_cap st) (b_gen st) (flat (sort_pairs (b_buf st) (pairs_of (b_kvs st)))).

(* ---------- the searches of a batch segment (a.index == nil) ---------- *)

Definition batch_find_start (st : bstate) (key : bytes) : nat :=
  Index.find_start_pos None (batch_keys st) key.
Definition batch_find_key (st : bstate) (key : bytes) : option nat :=
  Index.find_key_pos None (batch_keys st) key.
(* Segment.Get: operation and value at the position found *)
Definition batch_get (st : bstate) (key : bytes) : option op :=
  match batch_find_key st key, entries st with
  | Some p, Some es => option_map snd (nth_error es p)
  | _, _ => None
  end.

(* ---------- well-formed handles and legal calls ---------- *)

(* a handle into the CURRENT array, inside len(buf) *)
Definition h_live (st : bstate) (h : handle) : Prop :=
  h_gen h = b_gen st /\ h_acap h = b_cap st /\ h_lo h <= h_hi h /\ h_hi h <= blen (b_buf st).

Definition range_disjoint (r : N * N) (lo hi : N) : Prop := snd r <= lo \/ hi <= fst r.

(* a value argument: nil / empty, or the live handle that starts where the key ends *)
Definition val_follows (st : bstate) (kh vh : handle) : Prop :=
  h_len vh = 0 \/ (h_live st vh /\ h_lo vh = h_hi kh).

(* Go's int: every length and capacity stays below 2^63 *)
Definition fits_int (st : bstate) (n obscap : N) : Prop :=
  N.max obscap (blen (b_buf st) + n) < 9223372036854775808.

Definition call_legal (st : bstate) (c : call) : Prop :=
  match c with
  | CSet k v oc | CMerge k v oc => fits_int st (blen k + blen v) oc
  | CDel k oc => fits_int st (blen k) oc
  | CFill h d =>
      h_gen h <> b_gen st \/
      (h_live st h /\ Forall (fun r => range_disjoint r (h_lo h) (h_hi h)) (ranges st))
  | CAllocSet kh vh | CAllocMerge kh vh => h_live st kh /\ val_follows st kh vh
  | CAllocDel kh => h_live st kh
  | CAlloc _ => True
  end.

Fixpoint run_legal (st : bstate) (cs : list call) : Prop :=
  match cs with
  | [] => True
  | c :: r => call_legal st c /\ run_legal (fst (step st c)) r
  end.

(* the state invariant: buf inside its capacity and addressable by an int; kvs holds
   whole pairs *)
Definition wf (st : bstate) : Prop :=
  blen (b_buf st) <= b_cap st /\ b_cap st < 9223372036854775808 /\
  flat (pairs_of (b_kvs st)) = b_kvs st.

(* ---------- the usual way to build an entry with Alloc ----------
   buf, _ := b.Alloc(len(k)+len(v)); copy(buf, k); copy(buf[len(k):], v)
   b.AllocSet(buf[:len(k)], buf[len(k):])          (harness/director/coll.go: fill) *)
Definition alloc_entry (st : bstate) (k : bytes) (o : op) : bstate * result :=
  match alloc st (blen k + blen (op_val o)) with
  | (st1, RHandle h) =>
      let st2 := fill st1 h (k ++ op_val o) in
      alloc_mutate st2 (op_code o) (h_sub h 0 (blen k))
        (h_sub h (blen k) (h_len h))
  | (st1, r) => (st1, r)
  end.

Definition plain_entry (st : bstate) (k : bytes) (o : op) (obscap : N) : bstate * result :=
  mutate st (op_code o) k (op_val o) obscap.

(* a batch built from a list of (alloc?, key, op, observed cap) *)
Inductive hop := HPlain (k : bytes) (o : op) (obscap : N) | HAlloc (k : bytes) (o : op).

Definition hstep (st : bstate) (h : hop) : bstate * result :=
  match h with
  | HPlain k o oc => plain_entry st k o oc
  | HAlloc k o => alloc_entry st k o
  end.

Definition hop_entry (h : hop) : entry :=
  match h with HPlain k o _ => (k, o) | HAlloc k o => (k, o) end.

(* the operations that returned nil, in call order *)
Fixpoint haccepted (st : bstate) (hs : list hop) : list entry :=
  match hs with
  | [] => []
  | h :: r =>
      let (st', res) := hstep st h in
      match res with
      | ROk => hop_entry h :: haccepted st' r
      | _ => haccepted st' r
      end
  end.

Definition hrun (st : bstate) (hs : list hop) : bstate :=
  fold_left (fun s h => fst (hstep s h)) hs st.

(* ---------- runner helpers (extraction) ---------- *)

Definition res_code (r : result) : N :=
  match r with
  | ROk => 0 | RErr EKeyTooLarge => 1 | RErr EValueTooLarge => 2 | RErr EAllocTooLarge => 3
  | RHandle _ => 0
  end.
