(* Sync2ProgressC.v - heavy cases of open_step (checked in parallel with B) *)
From Coq Require Import List Arith Bool Lia.
Import ListNotations.
From Moss Require Import Sync2 Sync2Facts Sync2ProgressA.

Section C.
Variable c : config.
Hypothesis cap_pos : 1 <= c_cap c.
Hypothesis qcap_pos : 1 <= c_qcap c.

Lemma open_MDrain s : octx c s -> z_mp s = MDrain -> ogoal c s.
Proof. octx_intro. intros Emp. unfold ogoal. take c s LMDrain; timeout 800 (dd odec). Qed.

Lemma open_MIngest s : octx c s -> z_mp s = MIngest -> ogoal c s.
Proof. octx_intro. intros Emp. unfold ogoal. take c s LMIngest; timeout 800 (dd odec). Qed.
End C.
