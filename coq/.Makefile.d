Bytes.vo Bytes.glob Bytes.v.beautified Bytes.required_vo: Bytes.v 
Bytes.vio: Bytes.v 
Bytes.vos Bytes.vok Bytes.required_vos: Bytes.v 
BytesFacts.vo BytesFacts.glob BytesFacts.v.beautified BytesFacts.required_vo: BytesFacts.v Bytes.vo
BytesFacts.vio: BytesFacts.v Bytes.vio
BytesFacts.vos BytesFacts.vok BytesFacts.required_vos: BytesFacts.v Bytes.vos
Segment.vo Segment.glob Segment.v.beautified Segment.required_vo: Segment.v Bytes.vo
Segment.vio: Segment.v Bytes.vio
Segment.vos Segment.vok Segment.required_vos: Segment.v Bytes.vos
Stack.vo Stack.glob Stack.v.beautified Stack.required_vo: Stack.v Segment.vo
Stack.vio: Stack.v Segment.vio
Stack.vos Stack.vok Stack.required_vos: Stack.v Segment.vos
SegmentFacts.vo SegmentFacts.glob SegmentFacts.v.beautified SegmentFacts.required_vo: SegmentFacts.v Bytes.vo BytesFacts.vo Segment.vo
SegmentFacts.vio: SegmentFacts.v Bytes.vio BytesFacts.vio Segment.vio
SegmentFacts.vos SegmentFacts.vok SegmentFacts.required_vos: SegmentFacts.v Bytes.vos BytesFacts.vos Segment.vos
StackFacts.vo StackFacts.glob StackFacts.v.beautified StackFacts.required_vo: StackFacts.v Bytes.vo BytesFacts.vo Segment.vo SegmentFacts.vo Stack.vo
StackFacts.vio: StackFacts.v Bytes.vio BytesFacts.vio Segment.vio SegmentFacts.vio Stack.vio
StackFacts.vos StackFacts.vok StackFacts.required_vos: StackFacts.v Bytes.vos BytesFacts.vos Segment.vos SegmentFacts.vos Stack.vos
Collection.vo Collection.glob Collection.v.beautified Collection.required_vo: Collection.v Stack.vo
Collection.vio: Collection.v Stack.vio
Collection.vos Collection.vok Collection.required_vos: Collection.v Stack.vos
CollectionFacts.vo CollectionFacts.glob CollectionFacts.v.beautified CollectionFacts.required_vo: CollectionFacts.v Bytes.vo BytesFacts.vo Segment.vo SegmentFacts.vo Stack.vo StackFacts.vo Collection.vo
CollectionFacts.vio: CollectionFacts.v Bytes.vio BytesFacts.vio Segment.vio SegmentFacts.vio Stack.vio StackFacts.vio Collection.vio
CollectionFacts.vos CollectionFacts.vok CollectionFacts.required_vos: CollectionFacts.v Bytes.vos BytesFacts.vos Segment.vos SegmentFacts.vos Stack.vos StackFacts.vos Collection.vos
Store.vo Store.glob Store.v.beautified Store.required_vo: Store.v Collection.vo
Store.vio: Store.v Collection.vio
Store.vos Store.vok Store.required_vos: Store.v Collection.vos
LowerLevel.vo LowerLevel.glob LowerLevel.v.beautified LowerLevel.required_vo: LowerLevel.v Collection.vo
LowerLevel.vio: LowerLevel.v Collection.vio
LowerLevel.vos LowerLevel.vok LowerLevel.required_vos: LowerLevel.v Collection.vos
StoreFacts.vo StoreFacts.glob StoreFacts.v.beautified StoreFacts.required_vo: StoreFacts.v Bytes.vo BytesFacts.vo Segment.vo SegmentFacts.vo Stack.vo StackFacts.vo Collection.vo CollectionFacts.vo Store.vo LowerLevel.vo
StoreFacts.vio: StoreFacts.v Bytes.vio BytesFacts.vio Segment.vio SegmentFacts.vio Stack.vio StackFacts.vio Collection.vio CollectionFacts.vio Store.vio LowerLevel.vio
StoreFacts.vos StoreFacts.vok StoreFacts.required_vos: StoreFacts.v Bytes.vos BytesFacts.vos Segment.vos SegmentFacts.vos Stack.vos StackFacts.vos Collection.vos CollectionFacts.vos Store.vos LowerLevel.vos
FlatRun.vo FlatRun.glob FlatRun.v.beautified FlatRun.required_vo: FlatRun.v Collection.vo Store.vo LowerLevel.vo
FlatRun.vio: FlatRun.v Collection.vio Store.vio LowerLevel.vio
FlatRun.vos FlatRun.vok FlatRun.required_vos: FlatRun.v Collection.vos Store.vos LowerLevel.vos
Prefix.vo Prefix.glob Prefix.v.beautified Prefix.required_vo: Prefix.v Bytes.vo BytesFacts.vo Segment.vo SegmentFacts.vo Stack.vo StackFacts.vo Collection.vo CollectionFacts.vo
Prefix.vio: Prefix.v Bytes.vio BytesFacts.vio Segment.vio SegmentFacts.vio Stack.vio StackFacts.vio Collection.vio CollectionFacts.vio
Prefix.vos Prefix.vok Prefix.required_vos: Prefix.v Bytes.vos BytesFacts.vos Segment.vos SegmentFacts.vos Stack.vos StackFacts.vos Collection.vos CollectionFacts.vos
Theorems.vo Theorems.glob Theorems.v.beautified Theorems.required_vo: Theorems.v Bytes.vo BytesFacts.vo Segment.vo SegmentFacts.vo Stack.vo StackFacts.vo Collection.vo CollectionFacts.vo Store.vo LowerLevel.vo StoreFacts.vo Prefix.vo
Theorems.vio: Theorems.v Bytes.vio BytesFacts.vio Segment.vio SegmentFacts.vio Stack.vio StackFacts.vio Collection.vio CollectionFacts.vio Store.vio LowerLevel.vio StoreFacts.vio Prefix.vio
Theorems.vos Theorems.vok Theorems.required_vos: Theorems.v Bytes.vos BytesFacts.vos Segment.vos SegmentFacts.vos Stack.vos StackFacts.vos Collection.vos CollectionFacts.vos Store.vos LowerLevel.vos StoreFacts.vos Prefix.vos
Refuted.vo Refuted.glob Refuted.v.beautified Refuted.required_vo: Refuted.v Bytes.vo Segment.vo Stack.vo Collection.vo
Refuted.vio: Refuted.v Bytes.vio Segment.vio Stack.vio Collection.vio
Refuted.vos Refuted.vok Refuted.required_vos: Refuted.v Bytes.vos Segment.vos Stack.vos Collection.vos
Tree.vo Tree.glob Tree.v.beautified Tree.required_vo: Tree.v Stack.vo Collection.vo Store.vo
Tree.vio: Tree.v Stack.vio Collection.vio Store.vio
Tree.vos Tree.vok Tree.required_vos: Tree.v Stack.vos Collection.vos Store.vos
TreeColl.vo TreeColl.glob TreeColl.v.beautified TreeColl.required_vo: TreeColl.v Tree.vo
TreeColl.vio: TreeColl.v Tree.vio
TreeColl.vos TreeColl.vok TreeColl.required_vos: TreeColl.v Tree.vos
TreeRun.vo TreeRun.glob TreeRun.v.beautified TreeRun.required_vo: TreeRun.v TreeColl.vo FlatRun.vo
TreeRun.vio: TreeRun.v TreeColl.vio FlatRun.vio
TreeRun.vos TreeRun.vok TreeRun.required_vos: TreeRun.v TreeColl.vos FlatRun.vos
TreeFacts.vo TreeFacts.glob TreeFacts.v.beautified TreeFacts.required_vo: TreeFacts.v Bytes.vo BytesFacts.vo Segment.vo SegmentFacts.vo Stack.vo StackFacts.vo Collection.vo CollectionFacts.vo Store.vo StoreFacts.vo Tree.vo TreeColl.vo
TreeFacts.vio: TreeFacts.v Bytes.vio BytesFacts.vio Segment.vio SegmentFacts.vio Stack.vio StackFacts.vio Collection.vio CollectionFacts.vio Store.vio StoreFacts.vio Tree.vio TreeColl.vio
TreeFacts.vos TreeFacts.vok TreeFacts.required_vos: TreeFacts.v Bytes.vos BytesFacts.vos Segment.vos SegmentFacts.vos Stack.vos StackFacts.vos Collection.vos CollectionFacts.vos Store.vos StoreFacts.vos Tree.vos TreeColl.vos
Index.vo Index.glob Index.v.beautified Index.required_vo: Index.v Bytes.vo
Index.vio: Index.v Bytes.vio
Index.vos Index.vok Index.required_vos: Index.v Bytes.vos
IndexFacts.vo IndexFacts.glob IndexFacts.v.beautified IndexFacts.required_vo: IndexFacts.v Bytes.vo BytesFacts.vo Segment.vo SegmentFacts.vo Index.vo
IndexFacts.vio: IndexFacts.v Bytes.vio BytesFacts.vio Segment.vio SegmentFacts.vio Index.vio
IndexFacts.vos IndexFacts.vok IndexFacts.required_vos: IndexFacts.v Bytes.vos BytesFacts.vos Segment.vos SegmentFacts.vos Index.vos
OpenDir.vo OpenDir.glob OpenDir.v.beautified OpenDir.required_vo: OpenDir.v 
OpenDir.vio: OpenDir.v 
OpenDir.vos OpenDir.vok OpenDir.required_vos: OpenDir.v 
OpenDirFacts.vo OpenDirFacts.glob OpenDirFacts.v.beautified OpenDirFacts.required_vo: OpenDirFacts.v OpenDir.vo
OpenDirFacts.vio: OpenDirFacts.v OpenDir.vio
OpenDirFacts.vos OpenDirFacts.vok OpenDirFacts.required_vos: OpenDirFacts.v OpenDir.vos
Codec.vo Codec.glob Codec.v.beautified Codec.required_vo: Codec.v Bytes.vo Segment.vo
Codec.vio: Codec.v Bytes.vio Segment.vio
Codec.vos Codec.vok Codec.required_vos: Codec.v Bytes.vos Segment.vos
CodecFacts.vo CodecFacts.glob CodecFacts.v.beautified CodecFacts.required_vo: CodecFacts.v Bytes.vo BytesFacts.vo Segment.vo Codec.vo
CodecFacts.vio: CodecFacts.v Bytes.vio BytesFacts.vio Segment.vio Codec.vio
CodecFacts.vos CodecFacts.vok CodecFacts.required_vos: CodecFacts.v Bytes.vos BytesFacts.vos Segment.vos Codec.vos
FileFormat.vo FileFormat.glob FileFormat.v.beautified FileFormat.required_vo: FileFormat.v Codec.vo
FileFormat.vio: FileFormat.v Codec.vio
FileFormat.vos FileFormat.vok FileFormat.required_vos: FileFormat.v Codec.vos
FileFormatFacts.vo FileFormatFacts.glob FileFormatFacts.v.beautified FileFormatFacts.required_vo: FileFormatFacts.v Bytes.vo BytesFacts.vo Segment.vo Codec.vo CodecFacts.vo FileFormat.vo
FileFormatFacts.vio: FileFormatFacts.v Bytes.vio BytesFacts.vio Segment.vio Codec.vio CodecFacts.vio FileFormat.vio
FileFormatFacts.vos FileFormatFacts.vok FileFormatFacts.required_vos: FileFormatFacts.v Bytes.vos BytesFacts.vos Segment.vos Codec.vos CodecFacts.vos FileFormat.vos
BatchBuf.vo BatchBuf.glob BatchBuf.v.beautified BatchBuf.required_vo: BatchBuf.v Bytes.vo Segment.vo Codec.vo FileFormat.vo Index.vo
BatchBuf.vio: BatchBuf.v Bytes.vio Segment.vio Codec.vio FileFormat.vio Index.vio
BatchBuf.vos BatchBuf.vok BatchBuf.required_vos: BatchBuf.v Bytes.vos Segment.vos Codec.vos FileFormat.vos Index.vos
BatchBufFacts.vo BatchBufFacts.glob BatchBufFacts.v.beautified BatchBufFacts.required_vo: BatchBufFacts.v Bytes.vo BytesFacts.vo Segment.vo SegmentFacts.vo Codec.vo CodecFacts.vo FileFormat.vo FileFormatFacts.vo BatchBuf.vo Index.vo IndexFacts.vo
BatchBufFacts.vio: BatchBufFacts.v Bytes.vio BytesFacts.vio Segment.vio SegmentFacts.vio Codec.vio CodecFacts.vio FileFormat.vio FileFormatFacts.vio BatchBuf.vio Index.vio IndexFacts.vio
BatchBufFacts.vos BatchBufFacts.vok BatchBufFacts.required_vos: BatchBufFacts.v Bytes.vos BytesFacts.vos Segment.vos SegmentFacts.vos Codec.vos CodecFacts.vos FileFormat.vos FileFormatFacts.vos BatchBuf.vos Index.vos IndexFacts.vos
Locks.vo Locks.glob Locks.v.beautified Locks.required_vo: Locks.v 
Locks.vio: Locks.v 
Locks.vos Locks.vok Locks.required_vos: Locks.v 
LocksFacts.vo LocksFacts.glob LocksFacts.v.beautified LocksFacts.required_vo: LocksFacts.v Locks.vo
LocksFacts.vio: LocksFacts.v Locks.vio
LocksFacts.vos LocksFacts.vok LocksFacts.required_vos: LocksFacts.v Locks.vos
SortProto.vo SortProto.glob SortProto.v.beautified SortProto.required_vo: SortProto.v 
SortProto.vio: SortProto.v 
SortProto.vos SortProto.vok SortProto.required_vos: SortProto.v 
SortProtoFacts.vo SortProtoFacts.glob SortProtoFacts.v.beautified SortProtoFacts.required_vo: SortProtoFacts.v SortProto.vo
SortProtoFacts.vio: SortProtoFacts.v SortProto.vio
SortProtoFacts.vos SortProtoFacts.vok SortProtoFacts.required_vos: SortProtoFacts.v SortProto.vos
SortProtoSafety.vo SortProtoSafety.glob SortProtoSafety.v.beautified SortProtoSafety.required_vo: SortProtoSafety.v SortProto.vo SortProtoFacts.vo
SortProtoSafety.vio: SortProtoSafety.v SortProto.vio SortProtoFacts.vio
SortProtoSafety.vos SortProtoSafety.vok SortProtoSafety.required_vos: SortProtoSafety.v SortProto.vos SortProtoFacts.vos
SortProtoMutants.vo SortProtoMutants.glob SortProtoMutants.v.beautified SortProtoMutants.required_vo: SortProtoMutants.v SortProto.vo
SortProtoMutants.vio: SortProtoMutants.v SortProto.vio
SortProtoMutants.vos SortProtoMutants.vok SortProtoMutants.required_vos: SortProtoMutants.v SortProto.vos
Previous.vo Previous.glob Previous.v.beautified Previous.required_vo: Previous.v Collection.vo Store.vo
Previous.vio: Previous.v Collection.vio Store.vio
Previous.vos Previous.vok Previous.required_vos: Previous.v Collection.vos Store.vos
PreviousFacts.vo PreviousFacts.glob PreviousFacts.v.beautified PreviousFacts.required_vo: PreviousFacts.v Bytes.vo Segment.vo Stack.vo StackFacts.vo Collection.vo CollectionFacts.vo Store.vo StoreFacts.vo Previous.vo
PreviousFacts.vio: PreviousFacts.v Bytes.vio Segment.vio Stack.vio StackFacts.vio Collection.vio CollectionFacts.vio Store.vio StoreFacts.vio Previous.vio
PreviousFacts.vos PreviousFacts.vok PreviousFacts.required_vos: PreviousFacts.v Bytes.vos Segment.vos Stack.vos StackFacts.vos Collection.vos CollectionFacts.vos Store.vos StoreFacts.vos Previous.vos
PrevTree.vo PrevTree.glob PrevTree.v.beautified PrevTree.required_vo: PrevTree.v Tree.vo TreeRun.vo
PrevTree.vio: PrevTree.v Tree.vio TreeRun.vio
PrevTree.vos PrevTree.vok PrevTree.required_vos: PrevTree.v Tree.vos TreeRun.vos
PrevTreeFacts.vo PrevTreeFacts.glob PrevTreeFacts.v.beautified PrevTreeFacts.required_vo: PrevTreeFacts.v Bytes.vo Segment.vo Tree.vo TreeRun.vo PrevTree.vo
PrevTreeFacts.vio: PrevTreeFacts.v Bytes.vio Segment.vio Tree.vio TreeRun.vio PrevTree.vio
PrevTreeFacts.vos PrevTreeFacts.vok PrevTreeFacts.required_vos: PrevTreeFacts.v Bytes.vos Segment.vos Tree.vos TreeRun.vos PrevTree.vos
Faults.vo Faults.glob Faults.v.beautified Faults.required_vo: Faults.v 
Faults.vio: Faults.v 
Faults.vos Faults.vok Faults.required_vos: Faults.v 
FaultsFacts.vo FaultsFacts.glob FaultsFacts.v.beautified FaultsFacts.required_vo: FaultsFacts.v Faults.vo
FaultsFacts.vio: FaultsFacts.v Faults.vio
FaultsFacts.vos FaultsFacts.vok FaultsFacts.required_vos: FaultsFacts.v Faults.vos
Sync.vo Sync.glob Sync.v.beautified Sync.required_vo: Sync.v 
Sync.vio: Sync.v 
Sync.vos Sync.vok Sync.required_vos: Sync.v 
SyncFacts.vo SyncFacts.glob SyncFacts.v.beautified SyncFacts.required_vo: SyncFacts.v Sync.vo
SyncFacts.vio: SyncFacts.v Sync.vio
SyncFacts.vos SyncFacts.vok SyncFacts.required_vos: SyncFacts.v Sync.vos
Sync2.vo Sync2.glob Sync2.v.beautified Sync2.required_vo: Sync2.v 
Sync2.vio: Sync2.v 
Sync2.vos Sync2.vok Sync2.required_vos: Sync2.v 
Sync2Run.vo Sync2Run.glob Sync2Run.v.beautified Sync2Run.required_vo: Sync2Run.v Sync2.vo
Sync2Run.vio: Sync2Run.v Sync2.vio
Sync2Run.vos Sync2Run.vok Sync2Run.required_vos: Sync2Run.v Sync2.vos
Sync2Facts.vo Sync2Facts.glob Sync2Facts.v.beautified Sync2Facts.required_vo: Sync2Facts.v Sync2.vo
Sync2Facts.vio: Sync2Facts.v Sync2.vio
Sync2Facts.vos Sync2Facts.vok Sync2Facts.required_vos: Sync2Facts.v Sync2.vos
Sync2RunFacts.vo Sync2RunFacts.glob Sync2RunFacts.v.beautified Sync2RunFacts.required_vo: Sync2RunFacts.v Sync2.vo Sync2Facts.vo Sync2Run.vo
Sync2RunFacts.vio: Sync2RunFacts.v Sync2.vio Sync2Facts.vio Sync2Run.vio
Sync2RunFacts.vos Sync2RunFacts.vok Sync2RunFacts.required_vos: Sync2RunFacts.v Sync2.vos Sync2Facts.vos Sync2Run.vos
Sync2ProgressA.vo Sync2ProgressA.glob Sync2ProgressA.v.beautified Sync2ProgressA.required_vo: Sync2ProgressA.v Sync2.vo Sync2Facts.vo
Sync2ProgressA.vio: Sync2ProgressA.v Sync2.vio Sync2Facts.vio
Sync2ProgressA.vos Sync2ProgressA.vok Sync2ProgressA.required_vos: Sync2ProgressA.v Sync2.vos Sync2Facts.vos
Sync2ProgressB.vo Sync2ProgressB.glob Sync2ProgressB.v.beautified Sync2ProgressB.required_vo: Sync2ProgressB.v Sync2.vo Sync2Facts.vo Sync2ProgressA.vo
Sync2ProgressB.vio: Sync2ProgressB.v Sync2.vio Sync2Facts.vio Sync2ProgressA.vio
Sync2ProgressB.vos Sync2ProgressB.vok Sync2ProgressB.required_vos: Sync2ProgressB.v Sync2.vos Sync2Facts.vos Sync2ProgressA.vos
Sync2ProgressC.vo Sync2ProgressC.glob Sync2ProgressC.v.beautified Sync2ProgressC.required_vo: Sync2ProgressC.v Sync2.vo Sync2Facts.vo Sync2ProgressA.vo
Sync2ProgressC.vio: Sync2ProgressC.v Sync2.vio Sync2Facts.vio Sync2ProgressA.vio
Sync2ProgressC.vos Sync2ProgressC.vok Sync2ProgressC.required_vos: Sync2ProgressC.v Sync2.vos Sync2Facts.vos Sync2ProgressA.vos
Sync2Progress.vo Sync2Progress.glob Sync2Progress.v.beautified Sync2Progress.required_vo: Sync2Progress.v Sync2.vo Sync2Facts.vo Sync2ProgressA.vo Sync2ProgressB.vo Sync2ProgressC.vo
Sync2Progress.vio: Sync2Progress.v Sync2.vio Sync2Facts.vio Sync2ProgressA.vio Sync2ProgressB.vio Sync2ProgressC.vio
Sync2Progress.vos Sync2Progress.vok Sync2Progress.required_vos: Sync2Progress.v Sync2.vos Sync2Facts.vos Sync2ProgressA.vos Sync2ProgressB.vos Sync2ProgressC.vos
Sync2StallA.vo Sync2StallA.glob Sync2StallA.v.beautified Sync2StallA.required_vo: Sync2StallA.v Sync2.vo Sync2Facts.vo Sync2ProgressA.vo Sync2Progress.vo
Sync2StallA.vio: Sync2StallA.v Sync2.vio Sync2Facts.vio Sync2ProgressA.vio Sync2Progress.vio
Sync2StallA.vos Sync2StallA.vok Sync2StallA.required_vos: Sync2StallA.v Sync2.vos Sync2Facts.vos Sync2ProgressA.vos Sync2Progress.vos
Sync2StallB.vo Sync2StallB.glob Sync2StallB.v.beautified Sync2StallB.required_vo: Sync2StallB.v Sync2.vo Sync2Facts.vo Sync2ProgressA.vo Sync2Progress.vo Sync2StallA.vo
Sync2StallB.vio: Sync2StallB.v Sync2.vio Sync2Facts.vio Sync2ProgressA.vio Sync2Progress.vio Sync2StallA.vio
Sync2StallB.vos Sync2StallB.vok Sync2StallB.required_vos: Sync2StallB.v Sync2.vos Sync2Facts.vos Sync2ProgressA.vos Sync2Progress.vos Sync2StallA.vos
Sync2StallC.vo Sync2StallC.glob Sync2StallC.v.beautified Sync2StallC.required_vo: Sync2StallC.v Sync2.vo Sync2Facts.vo Sync2ProgressA.vo Sync2Progress.vo Sync2StallA.vo
Sync2StallC.vio: Sync2StallC.v Sync2.vio Sync2Facts.vio Sync2ProgressA.vio Sync2Progress.vio Sync2StallA.vio
Sync2StallC.vos Sync2StallC.vok Sync2StallC.required_vos: Sync2StallC.v Sync2.vos Sync2Facts.vos Sync2ProgressA.vos Sync2Progress.vos Sync2StallA.vos
Sync2Stall.vo Sync2Stall.glob Sync2Stall.v.beautified Sync2Stall.required_vo: Sync2Stall.v Sync2.vo Sync2Facts.vo Sync2ProgressA.vo Sync2Progress.vo Sync2StallA.vo Sync2StallB.vo Sync2StallC.vo
Sync2Stall.vio: Sync2Stall.v Sync2.vio Sync2Facts.vio Sync2ProgressA.vio Sync2Progress.vio Sync2StallA.vio Sync2StallB.vio Sync2StallC.vio
Sync2Stall.vos Sync2Stall.vok Sync2Stall.required_vos: Sync2Stall.v Sync2.vos Sync2Facts.vos Sync2ProgressA.vos Sync2Progress.vos Sync2StallA.vos Sync2StallB.vos Sync2StallC.vos
Iterator.vo Iterator.glob Iterator.v.beautified Iterator.required_vo: Iterator.v Bytes.vo Segment.vo Stack.vo
Iterator.vio: Iterator.v Bytes.vio Segment.vio Stack.vio
Iterator.vos Iterator.vok Iterator.required_vos: Iterator.v Bytes.vos Segment.vos Stack.vos
IteratorFacts.vo IteratorFacts.glob IteratorFacts.v.beautified IteratorFacts.required_vo: IteratorFacts.v Bytes.vo BytesFacts.vo Segment.vo SegmentFacts.vo Stack.vo StackFacts.vo Iterator.vo
IteratorFacts.vio: IteratorFacts.v Bytes.vio BytesFacts.vio Segment.vio SegmentFacts.vio Stack.vio StackFacts.vio Iterator.vio
IteratorFacts.vos IteratorFacts.vok IteratorFacts.required_vos: IteratorFacts.v Bytes.vos BytesFacts.vos Segment.vos SegmentFacts.vos Stack.vos StackFacts.vos Iterator.vos
History.vo History.glob History.v.beautified History.required_vo: History.v 
History.vio: History.v 
History.vos History.vok History.required_vos: History.v 
HistoryFacts.vo HistoryFacts.glob HistoryFacts.v.beautified HistoryFacts.required_vo: HistoryFacts.v Bytes.vo BytesFacts.vo Segment.vo SegmentFacts.vo Stack.vo StackFacts.vo Collection.vo CollectionFacts.vo Theorems.vo History.vo
HistoryFacts.vio: HistoryFacts.v Bytes.vio BytesFacts.vio Segment.vio SegmentFacts.vio Stack.vio StackFacts.vio Collection.vio CollectionFacts.vio Theorems.vio History.vio
HistoryFacts.vos HistoryFacts.vok HistoryFacts.required_vos: HistoryFacts.v Bytes.vos BytesFacts.vos Segment.vos SegmentFacts.vos Stack.vos StackFacts.vos Collection.vos CollectionFacts.vos Theorems.vos History.vos
Refs.vo Refs.glob Refs.v.beautified Refs.required_vo: Refs.v 
Refs.vio: Refs.v 
Refs.vos Refs.vok Refs.required_vos: Refs.v 
RefsFacts.vo RefsFacts.glob RefsFacts.v.beautified RefsFacts.required_vo: RefsFacts.v Refs.vo
RefsFacts.vio: RefsFacts.v Refs.vio
RefsFacts.vos RefsFacts.vok RefsFacts.required_vos: RefsFacts.v Refs.vos
IterBridge.vo IterBridge.glob IterBridge.v.beautified IterBridge.required_vo: IterBridge.v Bytes.vo Segment.vo Stack.vo Collection.vo Iterator.vo
IterBridge.vio: IterBridge.v Bytes.vio Segment.vio Stack.vio Collection.vio Iterator.vio
IterBridge.vos IterBridge.vok IterBridge.required_vos: IterBridge.v Bytes.vos Segment.vos Stack.vos Collection.vos Iterator.vos
IterBridgeFacts.vo IterBridgeFacts.glob IterBridgeFacts.v.beautified IterBridgeFacts.required_vo: IterBridgeFacts.v Bytes.vo BytesFacts.vo Segment.vo SegmentFacts.vo Stack.vo StackFacts.vo Collection.vo CollectionFacts.vo Iterator.vo IteratorFacts.vo IterBridge.vo
IterBridgeFacts.vio: IterBridgeFacts.v Bytes.vio BytesFacts.vio Segment.vio SegmentFacts.vio Stack.vio StackFacts.vio Collection.vio CollectionFacts.vio Iterator.vio IteratorFacts.vio IterBridge.vio
IterBridgeFacts.vos IterBridgeFacts.vok IterBridgeFacts.required_vos: IterBridgeFacts.v Bytes.vos BytesFacts.vos Segment.vos SegmentFacts.vos Stack.vos StackFacts.vos Collection.vos CollectionFacts.vos Iterator.vos IteratorFacts.vos IterBridge.vos
ReadPaths.vo ReadPaths.glob ReadPaths.v.beautified ReadPaths.required_vo: ReadPaths.v Collection.vo Theorems.vo SegmentFacts.vo Iterator.vo IterBridge.vo IterBridgeFacts.vo
ReadPaths.vio: ReadPaths.v Collection.vio Theorems.vio SegmentFacts.vio Iterator.vio IterBridge.vio IterBridgeFacts.vio
ReadPaths.vos ReadPaths.vok ReadPaths.required_vos: ReadPaths.v Collection.vos Theorems.vos SegmentFacts.vos Iterator.vos IterBridge.vos IterBridgeFacts.vos
Crash.vo Crash.glob Crash.v.beautified Crash.required_vo: Crash.v 
Crash.vio: Crash.v 
Crash.vos Crash.vok Crash.required_vos: Crash.v 
CrashFacts.vo CrashFacts.glob CrashFacts.v.beautified CrashFacts.required_vo: CrashFacts.v Crash.vo
CrashFacts.vio: CrashFacts.v Crash.vio
CrashFacts.vos CrashFacts.vok CrashFacts.required_vos: CrashFacts.v Crash.vos
CrashFiles.vo CrashFiles.glob CrashFiles.v.beautified CrashFiles.required_vo: CrashFiles.v 
CrashFiles.vio: CrashFiles.v 
CrashFiles.vos CrashFiles.vok CrashFiles.required_vos: CrashFiles.v 
CrashFilesFacts.vo CrashFilesFacts.glob CrashFilesFacts.v.beautified CrashFilesFacts.required_vo: CrashFilesFacts.v CrashFiles.vo
CrashFilesFacts.vio: CrashFilesFacts.v CrashFiles.vio
CrashFilesFacts.vos CrashFilesFacts.vok CrashFilesFacts.required_vos: CrashFilesFacts.v CrashFiles.vos
IteratorIncl.vo IteratorIncl.glob IteratorIncl.v.beautified IteratorIncl.required_vo: IteratorIncl.v Iterator.vo
IteratorIncl.vio: IteratorIncl.v Iterator.vio
IteratorIncl.vos IteratorIncl.vok IteratorIncl.required_vos: IteratorIncl.v Iterator.vos
IteratorInclFacts.vo IteratorInclFacts.glob IteratorInclFacts.v.beautified IteratorInclFacts.required_vo: IteratorInclFacts.v Bytes.vo BytesFacts.vo Segment.vo SegmentFacts.vo Stack.vo StackFacts.vo Iterator.vo IteratorFacts.vo IteratorIncl.vo
IteratorInclFacts.vio: IteratorInclFacts.v Bytes.vio BytesFacts.vio Segment.vio SegmentFacts.vio Stack.vio StackFacts.vio Iterator.vio IteratorFacts.vio IteratorIncl.vio
IteratorInclFacts.vos IteratorInclFacts.vok IteratorInclFacts.required_vos: IteratorInclFacts.v Bytes.vos BytesFacts.vos Segment.vos SegmentFacts.vos Stack.vos StackFacts.vos Iterator.vos IteratorFacts.vos IteratorIncl.vos
TreeInv.vo TreeInv.glob TreeInv.v.beautified TreeInv.required_vo: TreeInv.v Bytes.vo Segment.vo Stack.vo Collection.vo Store.vo Tree.vo TreeColl.vo
TreeInv.vio: TreeInv.v Bytes.vio Segment.vio Stack.vio Collection.vio Store.vio Tree.vio TreeColl.vio
TreeInv.vos TreeInv.vok TreeInv.required_vos: TreeInv.v Bytes.vos Segment.vos Stack.vos Collection.vos Store.vos Tree.vos TreeColl.vos
TreeInvFacts.vo TreeInvFacts.glob TreeInvFacts.v.beautified TreeInvFacts.required_vo: TreeInvFacts.v Bytes.vo BytesFacts.vo Segment.vo SegmentFacts.vo Stack.vo StackFacts.vo Collection.vo CollectionFacts.vo Store.vo StoreFacts.vo Tree.vo TreeColl.vo TreeFacts.vo TreeInv.vo
TreeInvFacts.vio: TreeInvFacts.v Bytes.vio BytesFacts.vio Segment.vio SegmentFacts.vio Stack.vio StackFacts.vio Collection.vio CollectionFacts.vio Store.vio StoreFacts.vio Tree.vio TreeColl.vio TreeFacts.vio TreeInv.vio
TreeInvFacts.vos TreeInvFacts.vok TreeInvFacts.required_vos: TreeInvFacts.v Bytes.vos BytesFacts.vos Segment.vos SegmentFacts.vos Stack.vos StackFacts.vos Collection.vos CollectionFacts.vos Store.vos StoreFacts.vos Tree.vos TreeColl.vos TreeFacts.vos TreeInv.vos
TreeCycles.vo TreeCycles.glob TreeCycles.v.beautified TreeCycles.required_vo: TreeCycles.v Bytes.vo Segment.vo Stack.vo Collection.vo Store.vo Tree.vo TreeColl.vo TreeInv.vo
TreeCycles.vio: TreeCycles.v Bytes.vio Segment.vio Stack.vio Collection.vio Store.vio Tree.vio TreeColl.vio TreeInv.vio
TreeCycles.vos TreeCycles.vok TreeCycles.required_vos: TreeCycles.v Bytes.vos Segment.vos Stack.vos Collection.vos Store.vos Tree.vos TreeColl.vos TreeInv.vos
TreeCyclesFacts.vo TreeCyclesFacts.glob TreeCyclesFacts.v.beautified TreeCyclesFacts.required_vo: TreeCyclesFacts.v Bytes.vo BytesFacts.vo Segment.vo SegmentFacts.vo Stack.vo StackFacts.vo Collection.vo CollectionFacts.vo Store.vo StoreFacts.vo Tree.vo TreeColl.vo TreeFacts.vo TreeInv.vo TreeInvFacts.vo TreeCycles.vo FlatRun.vo TreeRun.vo
TreeCyclesFacts.vio: TreeCyclesFacts.v Bytes.vio BytesFacts.vio Segment.vio SegmentFacts.vio Stack.vio StackFacts.vio Collection.vio CollectionFacts.vio Store.vio StoreFacts.vio Tree.vio TreeColl.vio TreeFacts.vio TreeInv.vio TreeInvFacts.vio TreeCycles.vio FlatRun.vio TreeRun.vio
TreeCyclesFacts.vos TreeCyclesFacts.vok TreeCyclesFacts.required_vos: TreeCyclesFacts.v Bytes.vos BytesFacts.vos Segment.vos SegmentFacts.vos Stack.vos StackFacts.vos Collection.vos CollectionFacts.vos Store.vos StoreFacts.vos Tree.vos TreeColl.vos TreeFacts.vos TreeInv.vos TreeInvFacts.vos TreeCycles.vos FlatRun.vos TreeRun.vos
TreeCyclesRun.vo TreeCyclesRun.glob TreeCyclesRun.v.beautified TreeCyclesRun.required_vo: TreeCyclesRun.v Tree.vo TreeColl.vo TreeRun.vo TreeInv.vo TreeCycles.vo TreeCyclesFacts.vo
TreeCyclesRun.vio: TreeCyclesRun.v Tree.vio TreeColl.vio TreeRun.vio TreeInv.vio TreeCycles.vio TreeCyclesFacts.vio
TreeCyclesRun.vos TreeCyclesRun.vok TreeCyclesRun.required_vos: TreeCyclesRun.v Tree.vos TreeColl.vos TreeRun.vos TreeInv.vos TreeCycles.vos TreeCyclesFacts.vos
StoreOps.vo StoreOps.glob StoreOps.v.beautified StoreOps.required_vo: StoreOps.v 
StoreOps.vio: StoreOps.v 
StoreOps.vos StoreOps.vok StoreOps.required_vos: StoreOps.v 
StoreOpsFacts.vo StoreOpsFacts.glob StoreOpsFacts.v.beautified StoreOpsFacts.required_vo: StoreOpsFacts.v StoreOps.vo
StoreOpsFacts.vio: StoreOpsFacts.v StoreOps.vio
StoreOpsFacts.vos StoreOpsFacts.vok StoreOpsFacts.required_vos: StoreOpsFacts.v StoreOps.vos
StoreCrash.vo StoreCrash.glob StoreCrash.v.beautified StoreCrash.required_vo: StoreCrash.v StoreOps.vo
StoreCrash.vio: StoreCrash.v StoreOps.vio
StoreCrash.vos StoreCrash.vok StoreCrash.required_vos: StoreCrash.v StoreOps.vos
StoreCrashFacts.vo StoreCrashFacts.glob StoreCrashFacts.v.beautified StoreCrashFacts.required_vo: StoreCrashFacts.v StoreOps.vo StoreOpsFacts.vo StoreCrash.vo
StoreCrashFacts.vio: StoreCrashFacts.v StoreOps.vio StoreOpsFacts.vio StoreCrash.vio
StoreCrashFacts.vos StoreCrashFacts.vok StoreCrashFacts.required_vos: StoreCrashFacts.v StoreOps.vos StoreOpsFacts.vos StoreCrash.vos
Owners.vo Owners.glob Owners.v.beautified Owners.required_vo: Owners.v 
Owners.vio: Owners.v 
Owners.vos Owners.vok Owners.required_vos: Owners.v 
OwnersFacts.vo OwnersFacts.glob OwnersFacts.v.beautified OwnersFacts.required_vo: OwnersFacts.v Owners.vo
OwnersFacts.vio: OwnersFacts.v Owners.vio
OwnersFacts.vos OwnersFacts.vok OwnersFacts.required_vos: OwnersFacts.v Owners.vos
OwnersScenarios.vo OwnersScenarios.glob OwnersScenarios.v.beautified OwnersScenarios.required_vo: OwnersScenarios.v Owners.vo OwnersFacts.vo
OwnersScenarios.vio: OwnersScenarios.v Owners.vio OwnersFacts.vio
OwnersScenarios.vos OwnersScenarios.vok OwnersScenarios.required_vos: OwnersScenarios.v Owners.vos OwnersFacts.vos
OwnersRevert.vo OwnersRevert.glob OwnersRevert.v.beautified OwnersRevert.required_vo: OwnersRevert.v Owners.vo
OwnersRevert.vio: OwnersRevert.v Owners.vio
OwnersRevert.vos OwnersRevert.vok OwnersRevert.required_vos: OwnersRevert.v Owners.vos
OwnersRevertFacts.vo OwnersRevertFacts.glob OwnersRevertFacts.v.beautified OwnersRevertFacts.required_vo: OwnersRevertFacts.v Owners.vo OwnersFacts.vo OwnersRevert.vo
OwnersRevertFacts.vio: OwnersRevertFacts.v Owners.vio OwnersFacts.vio OwnersRevert.vio
OwnersRevertFacts.vos OwnersRevertFacts.vok OwnersRevertFacts.required_vos: OwnersRevertFacts.v Owners.vos OwnersFacts.vos OwnersRevert.vos
OwnersRevertProgress.vo OwnersRevertProgress.glob OwnersRevertProgress.v.beautified OwnersRevertProgress.required_vo: OwnersRevertProgress.v Owners.vo OwnersFacts.vo OwnersRevert.vo OwnersRevertFacts.vo
OwnersRevertProgress.vio: OwnersRevertProgress.v Owners.vio OwnersFacts.vio OwnersRevert.vio OwnersRevertFacts.vio
OwnersRevertProgress.vos OwnersRevertProgress.vok OwnersRevertProgress.required_vos: OwnersRevertProgress.v Owners.vos OwnersFacts.vos OwnersRevert.vos OwnersRevertFacts.vos
OwnersProgress.vo OwnersProgress.glob OwnersProgress.v.beautified OwnersProgress.required_vo: OwnersProgress.v Owners.vo OwnersRevert.vo
OwnersProgress.vio: OwnersProgress.v Owners.vio OwnersRevert.vio
OwnersProgress.vos OwnersProgress.vok OwnersProgress.required_vos: OwnersProgress.v Owners.vos OwnersRevert.vos
OwnersProgressRules.vo OwnersProgressRules.glob OwnersProgressRules.v.beautified OwnersProgressRules.required_vo: OwnersProgressRules.v Owners.vo OwnersFacts.vo OwnersProgress.vo
OwnersProgressRules.vio: OwnersProgressRules.v Owners.vio OwnersFacts.vio OwnersProgress.vio
OwnersProgressRules.vos OwnersProgressRules.vok OwnersProgressRules.required_vos: OwnersProgressRules.v Owners.vos OwnersFacts.vos OwnersProgress.vos
OwnersProgressLoops.vo OwnersProgressLoops.glob OwnersProgressLoops.v.beautified OwnersProgressLoops.required_vo: OwnersProgressLoops.v Owners.vo OwnersFacts.vo OwnersProgress.vo OwnersProgressRules.vo
OwnersProgressLoops.vio: OwnersProgressLoops.v Owners.vio OwnersFacts.vio OwnersProgress.vio OwnersProgressRules.vio
OwnersProgressLoops.vos OwnersProgressLoops.vok OwnersProgressLoops.required_vos: OwnersProgressLoops.v Owners.vos OwnersFacts.vos OwnersProgress.vos OwnersProgressRules.vos
OwnersProgressFacts.vo OwnersProgressFacts.glob OwnersProgressFacts.v.beautified OwnersProgressFacts.required_vo: OwnersProgressFacts.v Owners.vo OwnersFacts.vo OwnersProgress.vo OwnersProgressRules.vo OwnersProgressLoops.vo
OwnersProgressFacts.vio: OwnersProgressFacts.v Owners.vio OwnersFacts.vio OwnersProgress.vio OwnersProgressRules.vio OwnersProgressLoops.vio
OwnersProgressFacts.vos OwnersProgressFacts.vok OwnersProgressFacts.required_vos: OwnersProgressFacts.v Owners.vos OwnersFacts.vos OwnersProgress.vos OwnersProgressRules.vos OwnersProgressLoops.vos
OwnersRevertProgressFacts.vo OwnersRevertProgressFacts.glob OwnersRevertProgressFacts.v.beautified OwnersRevertProgressFacts.required_vo: OwnersRevertProgressFacts.v Owners.vo OwnersFacts.vo OwnersRevert.vo OwnersRevertFacts.vo OwnersProgress.vo OwnersProgressRules.vo OwnersProgressLoops.vo OwnersProgressFacts.vo
OwnersRevertProgressFacts.vio: OwnersRevertProgressFacts.v Owners.vio OwnersFacts.vio OwnersRevert.vio OwnersRevertFacts.vio OwnersProgress.vio OwnersProgressRules.vio OwnersProgressLoops.vio OwnersProgressFacts.vio
OwnersRevertProgressFacts.vos OwnersRevertProgressFacts.vok OwnersRevertProgressFacts.required_vos: OwnersRevertProgressFacts.v Owners.vos OwnersFacts.vos OwnersRevert.vos OwnersRevertFacts.vos OwnersProgress.vos OwnersProgressRules.vos OwnersProgressLoops.vos OwnersProgressFacts.vos
OwnersRevertScenarios.vo OwnersRevertScenarios.glob OwnersRevertScenarios.v.beautified OwnersRevertScenarios.required_vo: OwnersRevertScenarios.v Owners.vo OwnersFacts.vo OwnersScenarios.vo OwnersRevert.vo OwnersRevertFacts.vo
OwnersRevertScenarios.vio: OwnersRevertScenarios.v Owners.vio OwnersFacts.vio OwnersScenarios.vio OwnersRevert.vio OwnersRevertFacts.vio
OwnersRevertScenarios.vos OwnersRevertScenarios.vok OwnersRevertScenarios.required_vos: OwnersRevertScenarios.v Owners.vos OwnersFacts.vos OwnersScenarios.vos OwnersRevert.vos OwnersRevertFacts.vos
