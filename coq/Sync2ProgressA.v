(* Sync2ProgressA.v - measures for the progress theorems about Sync2.v, helper lemmas,
   and the light cases of open_step.  The heavy cases are in Sync2ProgressB/C.v so that
   they are checked in parallel; Sync2Progress.v assembles the theorems. *)
From Coq Require Import List Arith Bool Lia.
Import ListNotations.
From Moss Require Import Sync2 Sync2Facts.

Ltac step_none H :=
  unfold step, step_gen, guard in H;
  repeat match type of H with
    | (match ?x with _ => _ end) = None =>
        let E := fresh "E" in destruct x eqn:E; try discriminate H
    end.
Ltac take c s l :=
  let Hs := fresh "Hs" in
  destruct (step c s l) as [?s'|] eqn:Hs;
  [ eexists l, _; split; [reflexivity | split; [exact Hs|]]; step_cases Hs
  | exfalso; step_none Hs ].
Ltac bool_cases := repeat match goal with
  | |- context[if ?x then _ else _] => let E := fresh "E" in destruct x eqn:E end.
Ltac pp_cases := repeat match goal with
  | |- context[match z_pp ?x with _ => _ end] => let E := fresh "E" in destruct (z_pp x) eqn:E end.
Ltac out_cases := repeat match goal with
  | |- context[match z_out ?x with _ => _ end] => let E := fresh "E" in destruct (z_out x) eqn:E end.
Ltac hyp_cases := repeat match goal with
  | H : context[if ?x then _ else _] |- _ => let E := fresh "E" in destruct x eqn:E end.
Ltac inj := repeat match goal with
  | H : _ :: _ = _ :: _ |- _ => injection H as ? ?; subst end.
Ltac rwall := repeat match goal with
  | E : z_mp ?s = _ |- _ => rewrite E in *
  | E : z_pp ?s = _ |- _ => rewrite E in *
  | E : z_q ?s = _ |- _ => rewrite E in *
  | E : z_closed ?s = _ |- _ => rewrite E in *
  end.
Ltac ndec := zs; b2p; try lia; try congruence; sat; try triv.

Section A1.
Variable c : config.

(* ------------------------------------------------------------------ *)
(* (2) progress while the collection is open *)

(* persister: steps until it has closed the outgoing channel the merger waits on *)
Definition dP (s : state) : nat :=
  if z_oready s then 0 else
  match z_pp s with
  | PCloseOut (Some g) =>
      match z_mp s with MWaitOut g' => if g =? g' then 1 else 7 | _ => 7 end
  | PTop | PWoken => 6 | PChk => 5 | PUpdate => 4 | PPublish => 3
  | _ => 7
  end.

(* merger: steps until it has ingested / answered its pongs / drained the queue *)
Definition dI (s : state) : nat :=
  match z_mp s with
  | MIngest => 1 | MDrain => 2 | MSelect => 3 | MCheck => 4 | MReply => 5
  | MWaitOut _ => 6 + dP s | MHandover => 14 | MMerge => 15 | _ => 0 end.
Definition dR (s : state) : nat :=
  match z_mp s with
  | MReply => 1 | MWaitOut _ => 2 + dP s | MHandover => 10 | MMerge => 11 | MIngest => 12
  | MDrain => 13 | MSelect => 14 | MCheck => 15 | _ => 0 end.
Definition dDr (s : state) : nat :=
  match z_mp s with
  | MDrain => 1 | MSelect => 2 | MCheck => 3 | MReply => 4 | MWaitOut _ => 5 + dP s
  | MHandover => 13 | MMerge => 14 | MIngest => 15 | _ => 0 end.

(* the farthest of the merger events some caller in flight is waiting for:
   writers held back by a full top need the ingest, senders held back by a full queue
   the drain, queued synchronous pings the drain and then the reply, collected ones
   the reply *)
Definition muD (s : state) : nat :=
  Nat.max
    (Nat.max (if 0 <? z_wwait s + (if z_top s <? c_cap c then 0 else z_wwoken s) then dI s else 0)
             (if 0 <? (if room c s then 0 else z_nsyn s + z_nasy s) then dDr s else 0))
    (Nat.max (if 0 <? nsync (z_q s) then dDr s + 12 else 0)
             (if 0 <? z_pongs s then dR s else 0)).

(* weighted measure: callers not yet accepted weigh more than a whole merger cycle *)
Definition mu_o (s : state) : nat :=
  30 * (z_wwait s + z_wwoken s + z_nsyn s + z_nasy s) + z_wclcur s + z_wclold s + muD s.

(* some call has been made and has not returned *)
Definition pending (s : state) : Prop :=
  0 < z_wwait s + z_wwoken s + z_wclcur s + z_wclold s + z_nsyn s + z_nasy s
      + nsync (z_q s) + z_pongs s.

Lemma muD_bound s : muD s <= 27.
Proof.
  unfold muD, dI, dR, dDr, dP.
  destruct (z_mp s); zs; bool_cases; try lia; pp_cases; bool_cases; try lia;
  repeat match goal with |- context[match ?x with _ => _ end] => destruct x end; bool_cases; lia.
Qed.

Lemma dP_bound s : dP s <= 7.
Proof.
  unfold dP. destruct (z_oready s); [lia|]. destruct (z_pp s); try lia.
  destruct g; try lia. destruct (z_mp s); try lia. destruct (_ =? _); lia.
Qed.

Lemma bb_top s : z_top (broadcast_base s) = z_top s.
Proof. unfold broadcast_base; destruct (z_pp s); reflexivity. Qed.
Lemma bb_wwait s : z_wwait (broadcast_base s) = z_wwait s.
Proof. unfold broadcast_base; destruct (z_pp s); reflexivity. Qed.
Lemma bb_wwoken s : z_wwoken (broadcast_base s) = z_wwoken s.
Proof. unfold broadcast_base; destruct (z_pp s); reflexivity. Qed.
Lemma bb_q s : z_q (broadcast_base s) = z_q s.
Proof. unfold broadcast_base; destruct (z_pp s); reflexivity. Qed.
Lemma bb_nsyn s : z_nsyn (broadcast_base s) = z_nsyn s.
Proof. unfold broadcast_base; destruct (z_pp s); reflexivity. Qed.
Lemma bb_nasy s : z_nasy (broadcast_base s) = z_nasy s.
Proof. unfold broadcast_base; destruct (z_pp s); reflexivity. Qed.
Lemma bb_pongs s : z_pongs (broadcast_base s) = z_pongs s.
Proof. unfold broadcast_base; destruct (z_pp s); reflexivity. Qed.
Lemma bb_wclcur s : z_wclcur (broadcast_base s) = z_wclcur s.
Proof. unfold broadcast_base; destruct (z_pp s); reflexivity. Qed.
Lemma bb_wclold s : z_wclold (broadcast_base s) = z_wclold s.
Proof. unfold broadcast_base; destruct (z_pp s); reflexivity. Qed.
Lemma bb_out s : z_out (broadcast_base s) = z_out s.
Proof. unfold broadcast_base; destruct (z_pp s); reflexivity. Qed.
Lemma bb_mid s : z_mid (broadcast_base s) = z_mid s.
Proof. unfold broadcast_base; destruct (z_pp s); reflexivity. Qed.
Lemma bb_base s : z_base (broadcast_base s) = z_base s.
Proof. unfold broadcast_base; destruct (z_pp s); reflexivity. Qed.
Lemma bb_oready s : z_oready (broadcast_base s) = z_oready s.
Proof. unfold broadcast_base; destruct (z_pp s); reflexivity. Qed.
Lemma bb_mp s : z_mp (broadcast_base s) = z_mp s.
Proof. unfold broadcast_base; destruct (z_pp s); reflexivity. Qed.
Lemma bb_closed s : z_closed (broadcast_base s) = z_closed s.
Proof. unfold broadcast_base; destruct (z_pp s); reflexivity. Qed.
Lemma bb_cp s : z_cp (broadcast_base s) = z_cp s.
Proof. unfold broadcast_base; destruct (z_pp s); reflexivity. Qed.
Ltac bbr := rewrite ?bb_top, ?bb_wwait, ?bb_wwoken, ?bb_q, ?bb_nsyn, ?bb_nasy, ?bb_pongs, ?bb_wclcur, ?bb_wclold, ?bb_out, ?bb_mid, ?bb_base, ?bb_oready, ?bb_mp, ?bb_closed.
Definition same_callers (s s' : state) : Prop :=
  z_top s' = z_top s /\ z_wwait s' = z_wwait s /\ z_wwoken s' = z_wwoken s /\ z_q s' = z_q s /\
  z_nsyn s' = z_nsyn s /\ z_nasy s' = z_nasy s /\ z_pongs s' = z_pongs s /\
  z_wclcur s' = z_wclcur s /\ z_wclold s' = z_wclold s.

(* some caller in flight waits for a merger event *)
Definition needs (s : state) : bool :=
  (0 <? z_wwait s + (if z_top s <? c_cap c then 0 else z_wwoken s)) ||
  (0 <? (if room c s then 0 else z_nsyn s + z_nasy s)) ||
  (0 <? nsync (z_q s)) || (0 <? z_pongs s).

Lemma move_dec s s' :
  same_callers s s' -> needs s = true ->
  dI s' < dI s -> dR s' < dR s -> dDr s' < dDr s -> mu_o s' < mu_o s.
Proof.
  intros (A1&A2&A3&A4&A5&A6&A7&A8&A9) N HI HR HD.
  unfold mu_o, muD, needs, room in *. rewrite A1, A2, A3, A4, A5, A6, A7, A8, A9.
  destruct (0 <? z_wwait s + (if z_top s <? c_cap c then 0 else z_wwoken s));
  destruct (0 <? (if length (z_q s) <? c_qcap c then 0 else z_nsyn s + z_nasy s));
  destruct (0 <? nsync (z_q s)); destruct (0 <? z_pongs s); simpl in N; try discriminate; lia.
Qed.

Lemma needs_of_pending s :
  pending s -> z_wclcur s = 0 -> z_wclold s = 0 ->
  (0 <? z_wwoken s) && (z_top s <? c_cap c) = false ->
  (0 <? z_nsyn s) && room c s = false -> (0 <? z_nasy s) && room c s = false ->
  needs s = true.
Proof.
  unfold pending, needs. intros P W1 W2 C3 C4 C5.
  destruct (z_top s <? c_cap c) eqn:Et; destruct (room c s) eqn:Er;
  rewrite ?andb_true_r, ?andb_false_r in *; b2p;
  repeat match goal with |- context[?a <? ?b] => destruct (Nat.ltb_spec a b) end;
  cbn [orb]; auto; lia.
Qed.

Lemma handover_mp s s' :
  step c s LMHandover = Some s' -> same_callers s s' /\
  (z_mp s' = MReply \/ exists g, z_mp s' = MWaitOut g).
Proof.
  destruct s. unfold step, step_gen, guard, same_callers, broadcast_base. simpl.
  destruct z_mp; try discriminate.
  destruct (c_ll c); simpl.
  2:{ intros H; injection H as <-. simpl. split; [repeat split|left]; reflexivity. }
  destruct z_lk; simpl; try discriminate.
  destruct z_base, z_mid; simpl;
  repeat (match goal with |- context[match ?x with _ => _ end] => destruct x end; simpl);
  intros H; injection H as <-; simpl;
  (split; [repeat split; reflexivity|]); eauto.
Qed.


(* the situation in which a merger / persister step has to be taken: the collection is
   open, some call is in flight, and no caller has a step of its own that accepts it *)
Definition octx (s : state) : Prop :=
  inv c s /\ z_closed s = false /\ pending s /\
  (0 <? z_wclcur s) = false /\ (0 <? z_wclold s) = false /\
  (0 <? z_wwoken s) && (z_top s <? c_cap c) = false /\
  (0 <? z_nsyn s) && room c s = false /\ (0 <? z_nasy s) && room c s = false.
Definition ogoal (s : state) : Prop :=
  exists l s', bg l = true /\ step c s l = Some s' /\ mu_o s' < mu_o s.

Lemma octx_needs s : octx s -> needs s = true.
Proof.
  intros (I & Cl & P & C1 & C2 & C3 & C4 & C5).
  apply needs_of_pending; auto; b2p; lia.
Qed.
End A1.

Ltac bbr := rewrite ?bb_top, ?bb_wwait, ?bb_wwoken, ?bb_q, ?bb_nsyn, ?bb_nasy, ?bb_pongs, ?bb_wclcur, ?bb_wclold, ?bb_out, ?bb_mid, ?bb_base, ?bb_oready, ?bb_mp, ?bb_closed.
Ltac absdP := repeat match goal with
  | |- context[dP ?x] => generalize (dP_bound x); generalize (dP x); intros ? ? end.
Ltac ounf := unfold mu_o, muD, dI, dR, dDr, dP, room, writer_enter, broadcast_top, broadcast_base in *; zs.
(* steps that accept a caller: the weight 30 pays for whatever happens to muD *)
Ltac adec := subst;
  match goal with |- mu_o ?c ?x < mu_o _ ?y => generalize (muD_bound c x) end;
  unfold mu_o, writer_enter, room in *; zs; bool_cases; zs; b2p; intros; try lia.
(* merger / persister steps *)
Ltac odec := subst; ounf; rwall; inj; zs; cbn [nsync length] in *; bool_cases; zs; b2p; try lia;
  hyp_cases; b2p; try lia; try (exfalso; congruence).
Ltac dd tac := match goal with |- False => ndec | _ => tac end.
Ltac octx_intro :=
  match goal with |- octx _ _ -> _ =>
    let X := fresh "X" in intros X; pose proof (octx_needs _ _ X) as N;
    destruct X as (I & Cl & P & C1 & C2 & C3 & C4 & C5); unfold inv in I; unfold pending in P
  end.

Section A2.
Variable c : config.
Hypothesis cap_pos : 1 <= c_cap c.
Hypothesis qcap_pos : 1 <= c_qcap c.

(* callers' own steps *)
Lemma open_r1 s : inv c s -> z_closed s = false -> (0 <? z_wclcur s) = true -> ogoal c s.
Proof. intros I Cl C1. unfold inv in I. unfold ogoal. take c s LWCloseInc; timeout 100 (dd odec). Qed.
Lemma open_r2 s : inv c s -> z_closed s = false -> (0 <? z_wclold s) = true -> ogoal c s.
Proof. intros I Cl C2. unfold inv in I. unfold ogoal. take c s LWCloseOld; timeout 100 (dd odec). Qed.
Lemma open_r3 s : inv c s -> z_closed s = false ->
  (0 <? z_wwoken s) && (z_top s <? c_cap c) = true -> ogoal c s.
Proof. intros I Cl C3. unfold inv in I. unfold ogoal. take c s LWRecheck; timeout 100 (dd adec). Qed.
Lemma open_r4 s : inv c s -> z_closed s = false ->
  (0 <? z_nsyn s) && room c s = true -> ogoal c s.
Proof. intros I Cl C4. unfold inv in I. unfold ogoal. take c s (LNSend true); timeout 100 (dd adec). Qed.
Lemma open_r5 s : inv c s -> z_closed s = false ->
  (0 <? z_nasy s) && room c s = true -> ogoal c s.
Proof. intros I Cl C5. unfold inv in I. unfold ogoal. take c s (LNSend false); timeout 100 (dd adec). Qed.

(* pure moves of the merger: every distance shrinks *)
Lemma open_MCheck s : octx c s -> z_mp s = MCheck -> ogoal c s.
Proof.
  octx_intro. intros Emp. unfold ogoal.
  take c s LMCheck; [|ndec..].
  bool_cases;
  (apply move_dec; auto;
   [unfold same_callers; zs; b2p; repeat split; try reflexivity; try lia| | |];
   unfold dI, dR, dDr; zs; rwall; lia).
Qed.

Lemma open_MSelInc s : octx c s -> z_mp s = MSelect -> z_incc s = true -> ogoal c s.
Proof.
  octx_intro. intros Emp Ei. unfold ogoal.
  take c s LMSelInc; [|ndec..].
  apply move_dec; auto; [unfold same_callers; zs; repeat split; reflexivity| | |];
  unfold dI, dR, dDr; zs; rwall; lia.
Qed.

(* a sleeping merger that nothing can wake: then nobody is waiting for it *)
Lemma open_MSelect_empty s :
  octx c s -> z_mp s = MSelect -> z_incc s = false -> z_q s = [] -> False.
Proof.
  octx_intro. intros Emp Ei Eq. rewrite Emp in *.
  unfold room in *. rewrite Eq in *. cbn [nsync length] in *.
  assert (R0 : (0 <? c_qcap c) = true) by (apply Nat.ltb_lt; lia). rewrite R0 in *.
  rewrite !andb_true_r in *. b2p; sat; zs; sat;
  destruct (z_armed s) eqn:Ea; sat; try lia.
Qed.

Lemma open_MMerge s : octx c s -> z_mp s = MMerge -> ogoal c s.
Proof.
  octx_intro. intros Emp. unfold ogoal.
  take c s LMMergeOk; [|ndec..].
  apply move_dec; auto; [unfold same_callers; zs; repeat split; reflexivity| | |];
  unfold dI, dR, dDr; zs; rwall; lia.
Qed.

Lemma open_MHandover s : octx c s -> z_mp s = MHandover -> ogoal c s.
Proof.
  octx_intro. intros Emp. unfold ogoal.
    destruct (step c s LMHandover) as [s'|] eqn:Hs.
    + exists LMHandover, s'. split; [reflexivity|split; [exact Hs|]].
      destruct (handover_mp _ _ _ Hs) as [SC M].
      pose proof (dP_bound s').
      apply move_dec; auto; unfold dI, dR, dDr; rewrite Emp;
      (destruct M as [M|[g M]]; rewrite M; lia).
    + exfalso. step_none Hs; ndec.
Qed.

Lemma open_MWaitOut s g : octx c s -> z_mp s = MWaitOut g -> ogoal c s.
Proof.
  octx_intro. intros Emp. unfold ogoal. rewrite Emp in I.
    destruct (z_oready s) eqn:Er.
    { exists LMOutWake, (set_mp MReply s). split; [reflexivity|]. split.
      { unfold step, step_gen, guard. rewrite Emp, Er. reflexivity. }
      apply move_dec; auto;
        [unfold same_callers; zs; repeat split; reflexivity| | |];
      unfold dI, dR, dDr, dP; zs; rewrite ?Emp, ?Er; zs; lia. }
    destruct I as (I1&I2&I3&I3b&I4&I4b&I5&I6&I7&J1&J1b&J2&J3&J4&J5a&J5b&J5c&I9a&I9b&I10&I11&I12).
    assert (Ho : z_pp s = PCloseOut (Some g) \/ z_out s = Some g).
    { destruct (z_out s) as [x|] eqn:Eo.
      - destruct (Nat.eq_dec x g); [subst; auto|]. left. apply (J2 g eq_refl); auto; congruence.
      - left. apply (J2 g eq_refl); auto; congruence. }
    assert (Hb : z_out s = Some g -> z_base s = true).
    { intros Eo. apply J3; [congruence|]. rewrite (I9b Cl). discriminate. }
    assert (SCs : forall p, same_callers s (set_pp p s)).
    { intros p. unfold same_callers; zs; repeat split; reflexivity. }
    destruct (z_pp s) eqn:Epp.
    + (* PTop *)
      destruct Ho as [Ho|Ho]; [discriminate|]. pose proof (Hb Ho) as Hbt.
      exists LPTop, (set_pp PChk s). split; [reflexivity|]. split.
      { unfold step, step_gen, guard. rewrite Epp, I2, Hbt. reflexivity. }
      apply move_dec; auto; unfold dI, dR, dDr, dP; zs; rewrite ?Emp, ?Er, ?Epp; zs; lia.
    + (* PWait *)
      destruct Ho as [Ho|Ho]; [discriminate|]. pose proof (Hb Ho). pose proof (J1 eq_refl). congruence.
    + (* PWoken *)
      destruct Ho as [Ho|Ho]; [discriminate|]. pose proof (Hb Ho) as Hbt.
      exists LPTop, (set_pp PChk s). split; [reflexivity|]. split.
      { unfold step, step_gen, guard. rewrite Epp, I2, Hbt. reflexivity. }
      apply move_dec; auto; unfold dI, dR, dDr, dP; zs; rewrite ?Emp, ?Er, ?Epp; zs; lia.
    + (* PChk *)
      exists LPChk, (set_pp PUpdate s). split; [reflexivity|]. split.
      { unfold step, step_gen. rewrite Epp, Cl. reflexivity. }
      apply move_dec; auto; unfold dI, dR, dDr, dP; zs; rewrite ?Emp, ?Er, ?Epp; zs; lia.
    + (* PUpdate *)
      exists LPUpdOk, (set_pp PPublish s). split; [reflexivity|]. split.
      { unfold step, step_gen. rewrite Epp. reflexivity. }
      apply move_dec; auto; unfold dI, dR, dDr, dP; zs; rewrite ?Emp, ?Er, ?Epp; zs; lia.
    + (* PPublish *)
      destruct Ho as [Ho|Ho]; [discriminate|].
      eexists LPPublish, _. split; [reflexivity|]. split.
      { unfold step, step_gen, guard. rewrite Epp, I2. reflexivity. }
      apply move_dec; auto; [unfold same_callers; zs; repeat split; reflexivity| | |];
      unfold dI, dR, dDr, dP; zs; rewrite ?Emp, ?Er, ?Epp, ?Ho; zs; rewrite ?Nat.eqb_refl; lia.
    + (* PCloseOut *)
      eexists LPCloseOut, _. split; [reflexivity|]. split.
      { unfold step, step_gen. rewrite Epp, Emp. reflexivity. }
      destruct g0 as [g0|].
      * destruct (g0 =? g) eqn:Eg.
        -- apply move_dec; auto; [unfold same_callers; zs; repeat split; reflexivity| | |];
           unfold dI, dR, dDr, dP; zs; rewrite ?Emp, ?Er, ?Epp, ?Eg; zs; lia.
        -- apply move_dec; auto;
           unfold dI, dR, dDr, dP; zs; rewrite ?Emp, ?Er, ?Epp, ?Eg; zs; lia.
      * apply move_dec; auto;
        unfold dI, dR, dDr, dP; zs; rewrite ?Emp, ?Er, ?Epp; zs; lia.
    + (* PSendLocked *) congruence.
    + (* PDone *)
      destruct Ho as [Ho|Ho]; [discriminate|].
      destruct (c_ll c) eqn:El.
      * pose proof (J4 eq_refl eq_refl). congruence.
      * pose proof (J5b eq_refl). congruence.
Qed.
End A2.
