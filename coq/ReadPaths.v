(* ReadPaths.v - C10, first sentence in one statement: on every reachable state of an open
   collection the three read paths agree - what an iterator over a fresh snapshot enumerates
   (any bounds, any naive-seek budget, any program of calls) is exactly the set of in-range
   keys for which Snapshot.Get and Collection.Get return a value, with that value.
   Pure composition of iteration_is_reference, snapshot_reads_reference, collection_get_agrees. *)
From Coq Require Import List.
From Moss Require Import Collection Theorems SegmentFacts Iterator IterBridge IterBridgeFacts.

Section ReadPaths.
  Variable fm : bytes -> value -> bytes -> value.

  Theorem three_read_paths_agree (c : cfg) (l0 : llsnap) (ls : list label) (s : cstate)
          (start end_ : option bytes) (tries : nat) :
    nonil fm -> run fm c (init l0) ls = Some s -> closed s = false ->
    let cfg := snap_cfg fm (cur_snapshot s) start end_ tries in
    (forall prog, run_model fm cfg prog = run_spec fm cfg prog) /\
    asc (map fst (live_range fm cfg)) /\
    (forall k v, In (k, v) (live_range fm cfg) <->
       in_range start end_ k = true /\ v <> None /\
       v = snap_get fm (cur_snapshot s) k /\ v = coll_get fm s k).
  Proof.
    intros Hn Hrun Hc cfg.
    destruct (iteration_is_reference fm c l0 ls s start end_ tries Hn Hrun Hc) as (H1 & H2 & H3).
    split; [exact H1|]. split; [exact H2|].
    intros k v. subst cfg.
    pose proof (H3 k v) as H3kv. cbv zeta in H3kv.
    rewrite (collection_get_agrees fm c l0 ls s Hrun Hc k).
    rewrite (snapshot_reads_reference fm c l0 ls s Hrun Hc k).
    tauto.
  Qed.
End ReadPaths.
Print Assumptions three_read_paths_agree.
