(* PrevTreeFacts.v — proofs about the footer chain with tree footers (PrevTree.v). *)
From Coq Require Import List NArith Bool Lia Arith.
From Moss Require Import Bytes Segment Tree TreeRun PrevTree.
Import ListNotations.

Definition tlinks_ok (f : tfile) : Prop :=
  forall i fi, nth_error f i = Some fi -> forall j, tf_prev fi = Some j -> j < i.

Definition tsegs_ok (f : tfile) : Prop :=
  forall x, In x f -> fn_any_segs (tf_node x) = true.

Lemma tcurrent_lt f i : tcurrent f = Some i -> i < length f.
Proof. destruct f; simpl; [discriminate|]. intros [= <-]. lia. Qed.

Lemma tcurrent_snoc f x : tcurrent (f ++ [x]) = Some (length f).
Proof.
  unfold tcurrent. destruct (f ++ [x]) eqn:E.
  - destruct f; discriminate.
  - f_equal. rewrite <- E, app_length. simpl. lia.
Qed.

Lemma nth_error_snoc_last {A} (f : list A) x : nth_error (f ++ [x]) (length f) = Some x.
Proof. rewrite nth_error_app2 by lia. now rewrite Nat.sub_diag. Qed.

Lemma nth_error_snoc_old {A} (f : list A) x i : i < length f -> nth_error (f ++ [x]) i = nth_error f i.
Proof. intros. now apply nth_error_app1. Qed.

Lemma tlinks_ok_snoc f x :
  tlinks_ok f -> (forall j, tf_prev x = Some j -> j < length f) -> tlinks_ok (f ++ [x]).
Proof.
  intros H Hx i fi Hn j Hj.
  destruct (Nat.lt_ge_cases i (length f)) as [Hi|Hi].
  - rewrite nth_error_snoc_old in Hn by auto. eapply H; eauto.
  - rewrite nth_error_app2 in Hn by auto.
    destruct (i - length f) as [|k] eqn:E; simpl in Hn.
    + injection Hn as <-. specialize (Hx j Hj). lia.
    + destruct k; discriminate.
Qed.

Lemma tsegs_ok_snoc f x : tsegs_ok f -> fn_any_segs (tf_node x) = true -> tsegs_ok (f ++ [x]).
Proof.
  intros H Hx y Hy. apply in_app_or in Hy. destruct Hy as [Hy|[<-|[]]]; auto.
Qed.

(* SnapshotPrevious only ever leads to an older footer *)
Lemma th_previous_lt f i j : tlinks_ok f -> th_previous f i = Some j -> j < i.
Proof.
  unfold th_previous. intros H. destruct (nth_error f i) as [fi|] eqn:E; [|discriminate].
  destruct (fn_any_segs (tf_node fi)); [|discriminate]. intros Hj. eapply H; eauto.
Qed.

Lemma th_walk_lt f : tlinks_ok f -> forall fuel i j, In j (th_walk fuel f i) -> j < i.
Proof.
  intros H. induction fuel as [|k IH]; simpl; intros i j Hj; [contradiction|].
  destruct (th_previous f i) as [p|] eqn:E; [|contradiction].
  pose proof (th_previous_lt f i p H E). destruct Hj as [<-|Hj]; auto.
  specialize (IH p j Hj). lia.
Qed.

(* appending a footer changes no older footer and no walk that starts at an older footer *)
Lemma th_previous_stable f x i : i < length f -> th_previous (f ++ [x]) i = th_previous f i.
Proof. intros Hi. unfold th_previous. now rewrite nth_error_snoc_old. Qed.

Lemma th_walk_stable f x : tlinks_ok f ->
  forall fuel i, i < length f -> th_walk fuel (f ++ [x]) i = th_walk fuel f i.
Proof.
  intros H. induction fuel as [|k IH]; simpl; intros i Hi; [reflexivity|].
  rewrite th_previous_stable by auto.
  destruct (th_previous f i) as [p|] eqn:E; [|reflexivity].
  pose proof (th_previous_lt f i p H E). rewrite IH by lia. reflexivity.
Qed.

(* the fuel never decides: any fuel above the starting index gives the same walk *)
Lemma th_walk_fuel f : tlinks_ok f ->
  forall fuel fuel' i, i < fuel -> i < fuel' -> th_walk fuel f i = th_walk fuel' f i.
Proof.
  intros H. induction fuel as [|k IH]; intros fuel' i Hi Hi'; [lia|].
  destruct fuel' as [|k']; [lia|]. simpl.
  destruct (th_previous f i) as [p|] eqn:E; [|reflexivity].
  pose proof (th_previous_lt f i p H E). f_equal. apply IH; lia.
Qed.

Definition bs_at (f : tfile) (j : nat) : list tbatch :=
  match nth_error f j with Some x => tf_bs x | None => [] end.

Lemma walk_contents_eq f i : tcurrent f = Some i ->
  walk_contents f = map (bs_at f) (th_walk (length f) f i).
Proof. intros H. unfold walk_contents. now rewrite H. Qed.

Lemma map_bs_at_stable f x l : (forall j, In j l -> j < length f) ->
  map (bs_at (f ++ [x])) l = map (bs_at f) l.
Proof.
  intros H. apply map_ext_in. intros j Hj. unfold bs_at. now rewrite nth_error_snoc_old by auto.
Qed.

(* the walk from a freshly appended footer that links to the footer that was current *)
Lemma walk_contents_linked f x c :
  tlinks_ok f -> tcurrent f = Some c -> tf_prev x = Some c -> fn_any_segs (tf_node x) = true ->
  walk_contents (f ++ [x]) = bs_at f c :: walk_contents f.
Proof.
  intros Hl Hc Hp Hs.
  pose proof (tcurrent_lt f c Hc) as Hlt.
  rewrite (walk_contents_eq (f ++ [x]) (length f)) by apply tcurrent_snoc.
  rewrite (walk_contents_eq f c Hc).
  rewrite app_length. simpl. replace (length f + 1) with (S (length f)) by lia.
  simpl. unfold th_previous at 1. rewrite nth_error_snoc_last, Hs, Hp. simpl.
  rewrite th_walk_stable by auto.
  f_equal.
  - unfold bs_at. now rewrite nth_error_snoc_old.
  - apply map_bs_at_stable. intros j Hj. pose proof (th_walk_lt f Hl _ _ _ Hj). lia.
Qed.

Lemma walk_contents_unlinked f x : tf_prev x = None -> walk_contents (f ++ [x]) = [].
Proof.
  intros Hp. rewrite (walk_contents_eq (f ++ [x]) (length f)) by apply tcurrent_snoc.
  rewrite app_length. simpl. replace (length f + 1) with (S (length f)) by lia. simpl.
  unfold th_previous. rewrite nth_error_snoc_last, Hp. now destruct (fn_any_segs _).
Qed.

Lemma walk_contents_single x : tf_prev x = None -> walk_contents [x] = [].
Proof. intros Hp. exact (walk_contents_unlinked [] x Hp). Qed.

(* ---- the invariant that ties a file to the history that produced it ------------- *)
Record tinv (f : tfile) (chain file : list (list tbatch)) : Prop := {
  ti_links : tlinks_ok f;
  ti_segs : tsegs_ok f;
  ti_file : map tf_bs f = file;
  ti_chain : chain = match f with [] => [] | _ => tcur_bs f :: walk_contents f end
}.

Lemma tcur_bs_snoc f x : tcur_bs (f ++ [x]) = tf_bs x.
Proof. unfold tcur_bs, tcur_footer. now rewrite tcurrent_snoc, nth_error_snoc_last. Qed.

Lemma tcur_bs_at f c : tcurrent f = Some c -> tcur_bs f = bs_at f c.
Proof. intros H. unfold tcur_bs, tcur_footer, bs_at. now rewrite H. Qed.

Lemma snoc_not_nil {A} (f : list A) x : f ++ [x] <> [].
Proof. destruct f; discriminate. Qed.

Definition ev_segs_ok (e : tev) : Prop :=
  match e with ERound _ _ n => fn_any_segs n = true | ERevert _ => True end.

Lemma tinv_init : tinv [] [] [].
Proof.
  constructor; try reflexivity.
  - intros i fi Hn. destruct i; discriminate.
  - intros x [].
Qed.

Lemma chain_head f chain file : tinv f chain file ->
  match chain with c :: _ => c | [] => [] end = tcur_bs f.
Proof.
  intros [_ _ _ Hc]. destruct f as [|a f]; subst chain; reflexivity.
Qed.

Lemma tinv_linked f chain file x :
  tinv f chain file -> f <> [] -> tf_prev x = tcurrent f -> fn_any_segs (tf_node x) = true ->
  tinv (f ++ [x]) (tf_bs x :: chain) (file ++ [tf_bs x]).
Proof.
  intros [Hl Hs Hf Hc] Hne Hp Hx.
  destruct (tcurrent f) as [c|] eqn:Ec; [|destruct f; [contradiction|discriminate]].
  constructor.
  - apply tlinks_ok_snoc; auto. intros j Hj. rewrite Hp in Hj. injection Hj as <-. now apply tcurrent_lt.
  - now apply tsegs_ok_snoc.
  - rewrite map_app, Hf. reflexivity.
  - destruct (f ++ [x]) eqn:E; [now apply snoc_not_nil in E|]. rewrite <- E.
    rewrite tcur_bs_snoc. f_equal.
    rewrite (walk_contents_linked f x c) by auto.
    rewrite Hc. destruct f; [contradiction|]. now rewrite (tcur_bs_at _ c Ec).
Qed.

Lemma tinv_unlinked f chain file x :
  tinv f chain file -> tf_prev x = None -> fn_any_segs (tf_node x) = true ->
  tinv (f ++ [x]) [tf_bs x] (file ++ [tf_bs x]).
Proof.
  intros [Hl Hs Hf Hc] Hp Hx. constructor.
  - apply tlinks_ok_snoc; auto. intros j Hj. rewrite Hp in Hj. discriminate.
  - now apply tsegs_ok_snoc.
  - rewrite map_app, Hf. reflexivity.
  - destruct (f ++ [x]) eqn:E; [now apply snoc_not_nil in E|]. rewrite <- E.
    now rewrite tcur_bs_snoc, walk_contents_unlinked.
Qed.

Lemma tinv_newfile x : tf_prev x = None -> fn_any_segs (tf_node x) = true ->
  tinv [x] [tf_bs x] [tf_bs x].
Proof.
  intros Hp Hx. pose proof (tinv_unlinked [] [] [] x tinv_init Hp Hx) as H. exact H.
Qed.

Lemma tinv_step f chain file e f' :
  tinv f chain file -> ev_segs_ok e -> th_step f e = Some f' ->
  tinv f' (fst (spec_step (chain, file) e)) (snd (spec_step (chain, file) e)).
Proof.
  intros Hinv Hok Hstep. pose proof (chain_head f chain file Hinv) as Hhd.
  destruct e as [k b n|t]; simpl in *.
  - injection Hstep as <-. rewrite Hhd.
    destruct k; simpl.
    + (* append *)
      destruct f as [|a f0] eqn:Ef.
      * (* the first footer of the very first file *)
        destruct Hinv as [_ _ Hf Hc]. simpl in Hf. subst file chain. unfold th_round. simpl.
        apply (tinv_newfile {| tf_node := n; tf_bs := tcur_bs [] ++ [b]; tf_prev := None |}); auto.
      * rewrite <- Ef in *.
        apply (tinv_linked f chain file {| tf_node := n; tf_bs := tcur_bs f ++ [b]; tf_prev := tcurrent f |}); auto.
        subst f; discriminate.
    + apply (tinv_unlinked f chain file {| tf_node := n; tf_bs := tcur_bs f ++ [b]; tf_prev := None |}); auto.
    + apply (tinv_newfile {| tf_node := n; tf_bs := tcur_bs f ++ [b]; tf_prev := None |}); auto.
  - unfold th_revert in Hstep.
    destruct (nth_error f t) as [ft|] eqn:Et; [|discriminate].
    destruct (tcur_footer f) as [fc|] eqn:Ec; [|discriminate].
    destruct (fn_any_segs (tf_node ft) || fn_any_segs (tf_node fc)); [|discriminate].
    injection Hstep as <-.
    assert (Hfile : nth_error file t = Some (tf_bs ft)).
    { destruct Hinv as [_ _ Hf _]. rewrite <- Hf. now rewrite nth_error_map, Et. }
    rewrite Hfile. simpl.
    assert (Hne : f <> []) by (intros ->; destruct t; discriminate).
    apply (tinv_linked f chain file {| tf_node := tf_node ft; tf_bs := tf_bs ft; tf_prev := tcurrent f |}); auto.
    simpl. destruct Hinv as [_ Hs _ _]. apply Hs. eapply nth_error_In; eauto.
Qed.

Lemma tinv_run evs : forall f chain file f',
  tinv f chain file -> Forall ev_segs_ok evs -> th_run f evs = Some f' ->
  tinv f' (fst (fold_left spec_step evs (chain, file))) (snd (fold_left spec_step evs (chain, file))).
Proof.
  induction evs as [|e r IH]; intros f chain file f' Hinv Hok Hrun.
  - simpl in *. injection Hrun as <-. exact Hinv.
  - inversion Hok as [|? ? He Hr]; subst. simpl in Hrun.
    destruct (th_step f e) as [f1|] eqn:E; [|discriminate].
    pose proof (tinv_step f chain file e f1 Hinv He E) as H1.
    change (fold_left spec_step (e :: r) (chain, file))
      with (fold_left spec_step r (spec_step (chain, file) e)).
    rewrite (surjective_pairing (spec_step (chain, file) e)).
    exact (IH f1 _ _ f' H1 Hr Hrun).
Qed.

(* MAIN: for every history of rounds (appended, compacted, moved to a new file) and
   reverts that the store accepts, walking back from the current snapshot yields exactly
   the contents exposed since the last compaction, newest first, then nil; and the
   current content is the head of that list. *)
Theorem walk_is_history evs f :
  Forall ev_segs_ok evs -> th_run [] evs = Some f -> f <> [] ->
  tcur_bs f :: walk_contents f = fst (spec_run evs).
Proof.
  intros Hok Hrun Hne.
  pose proof (tinv_run evs [] [] [] f tinv_init Hok Hrun) as [_ _ _ Hc].
  unfold spec_run. rewrite Hc. destruct f; [contradiction|reflexivity].
Qed.

(* a revert the history model accepts: exact content, new current, walkable, nothing older changed *)
Theorem tree_revert_is_exact f t f' ft i :
  tlinks_ok f -> nth_error f t = Some ft -> tcurrent f = Some i -> th_revert f t = Some f' ->
  tcurrent f' = Some (length f) /\
  (exists fr, nth_error f' (length f) = Some fr /\ tf_node fr = tf_node ft /\ tf_bs fr = tf_bs ft) /\
  (fn_any_segs (tf_node ft) = true ->
     forall fuel, th_walk (S fuel) f' (length f) = i :: th_walk fuel f i) /\
  (forall j, j < length f -> nth_error f' j = nth_error f j).
Proof.
  intros Hl Ht Hi Hr. unfold th_revert in Hr. rewrite Ht in Hr.
  destruct (tcur_footer f) as [fc|]; [|discriminate].
  destruct (_ || _); [|discriminate]. injection Hr as <-.
  repeat split.
  - apply tcurrent_snoc.
  - eexists. rewrite nth_error_snoc_last. simpl. auto.
  - intros Hs fuel. simpl. unfold th_previous at 1. rewrite nth_error_snoc_last. simpl.
    rewrite Hs, Hi. f_equal. apply th_walk_stable; auto. now apply tcurrent_lt.
  - intros j Hj. now apply nth_error_snoc_old.
Qed.

(* every footer of the current file whose tree holds a segment can be reverted to *)
Theorem tree_revert_defined f t ft :
  f <> [] -> nth_error f t = Some ft -> fn_any_segs (tf_node ft) = true ->
  exists f', th_revert f t = Some f'.
Proof.
  intros Hne Ht Hs. unfold th_revert. rewrite Ht.
  destruct (tcur_footer f) as [fc|] eqn:Ec.
  - rewrite Hs. simpl. eauto.
  - exfalso. unfold tcur_footer in Ec. destruct (tcurrent f) as [c|] eqn:E.
    + apply tcurrent_lt in E. apply nth_error_None in Ec. lia.
    + destruct f; [contradiction|discriminate].
Qed.

(* a footer whose tree holds no segment at all leads nowhere (the file cannot be found) *)
Theorem tree_previous_needs_a_segment f i fi :
  nth_error f i = Some fi -> fn_any_segs (tf_node fi) = false -> th_previous f i = None.
Proof. intros Hn Hs. unfold th_previous. now rewrite Hn, Hs. Qed.

(* batches persisted after a revert build on the reverted content *)
Theorem tree_round_after_revert_builds_on_target f t f' ft k b n :
  nth_error f t = Some ft -> th_revert f t = Some f' ->
  tcur_bs (th_round k f' b n) = tf_bs ft ++ [b].
Proof.
  intros Ht Hr. unfold th_revert in Hr. rewrite Ht in Hr.
  destruct (tcur_footer f); [|discriminate]. destruct (_ || _); [|discriminate]. injection Hr as <-.
  destruct k; unfold th_round.
  - now rewrite tcur_bs_snoc, tcur_bs_snoc.
  - now rewrite tcur_bs_snoc, tcur_bs_snoc.
  - unfold tcur_bs at 1, tcur_footer. simpl. now rewrite tcur_bs_snoc.
Qed.

(* ---- the pinned code: refuted ------------------------------------------------- *)
Definition seg1 : segment := [([97%N], OSet [49%N])].     (* a = "1" *)
Definition seg2 : segment := [([97%N], OSet [50%N])].     (* a = "2" *)
Definition kid : cname := [99%N; 49%N].                   (* "c1" *)

(* F37: all data in a child collection, two appended rounds *)
Definition child_only_1 : fnode := FN [] 0 [(kid, FN [seg1] 1 [])].
Definition child_only_2 : fnode := FN [] 0 [(kid, FN [seg1; seg2] 1 [])].
Definition b_child (s : segment) : tbatch := TB [] [(kid, Some (TB s []))].
Definition f37_file : tfile :=
  th_round TKAppend (th_round TKAppend [] (b_child seg1) child_only_1) (b_child seg2) child_only_2.

Theorem previous_pinned_refuted_F37 :
  exists f i j, th_run [] [ERound TKAppend (b_child seg1) child_only_1; ERound TKAppend (b_child seg2) child_only_2] = Some f /\
    tcurrent f = Some i /\ th_previous f i = Some j /\ th_previous_pinned f i = None /\
    walk_contents f = [[b_child seg1]].
Proof. exists f37_file, 1, 0. repeat split; reflexivity. Qed.

(* F38: the target has a child collection without persisted segments (created by an empty child batch) *)
Definition with_empty_child : fnode := FN [seg1] 0 [(kid, FN [] 1 [])].
Definition with_empty_child_2 : fnode := FN [seg1; seg2] 0 [(kid, FN [] 1 [])].
Definition b_top_and_empty_child (s : segment) : tbatch := TB s [(kid, Some (TB [] []))].
Definition f38_file : tfile :=
  th_round TKAppend (th_round TKAppend [] (b_top_and_empty_child seg1) with_empty_child) (TB seg2 []) with_empty_child_2.

Theorem revert_pinned_refuted_F38 :
  exists f t f', tlinks_ok f /\ nth_error f t <> None /\
    th_revert f t = Some f' /\ th_revert_pinned f t = None /\
    tcur_bs f' = [b_top_and_empty_child seg1].
Proof.
  exists f38_file, 0. eexists. split; [|repeat split; try reflexivity; discriminate].
  intros i fi Hn j Hj. destruct i as [|[|i]]; simpl in Hn.
  - injection Hn as <-. discriminate.
  - injection Hn as <-. simpl in Hj. injection Hj as <-. lia.
  - destruct i; discriminate.
Qed.

(* ... and a child-only target is refused by the pinned revert as well *)
Theorem revert_pinned_refuted_child_only :
  exists f t f', th_revert f t = Some f' /\ th_revert_pinned f t = None /\ tcur_bs f' = [b_child seg1].
Proof. exists f37_file, 0. eexists. repeat split; reflexivity. Qed.

(* F42: with the pinned back link the walk from the first footer of a new file never ends
   (whatever the fuel, it is used up) - where the repaired code, and the specification, say nil *)
Theorem new_file_walk_pinned_never_ends_F42 f b n :
  fn_any_segs n = true ->
  forall fuel, th_walk fuel (th_round_newfile_pinned f b n) 0 = repeat 0 fuel.
Proof.
  intros Hs. induction fuel as [|k IH]; [reflexivity|].
  simpl. unfold th_previous. simpl. rewrite Hs. simpl. f_equal. exact IH.
Qed.

Theorem new_file_walk_is_nil f b n fuel : th_walk fuel (th_round TKNewFile f b n) 0 = [].
Proof. destruct fuel; [reflexivity|]. simpl. unfold th_previous. simpl. now destruct (fn_any_segs n). Qed.

(* non-vacuity of the main theorem: a history with child-only rounds, a compaction, a revert *)
Example walk_is_history_applies :
  let evs := [ERound TKAppend (b_child seg1) child_only_1;
              ERound TKAppend (b_child seg2) child_only_2;
              ERevert 0;
              ERound TKAppend (TB seg2 []) (FN [seg2] 0 [(kid, FN [seg1] 1 [])])] in
  Forall ev_segs_ok evs /\
  exists f, th_run [] evs = Some f /\ f <> [] /\
    tcur_bs f :: walk_contents f =
      [[b_child seg1; TB seg2 []]; [b_child seg1]; [b_child seg1; b_child seg2]; [b_child seg1]].
Proof.
  split; [repeat constructor|]. eexists. split; [reflexivity|]. split; [discriminate|reflexivity].
Qed.

Print Assumptions walk_is_history.
Print Assumptions tree_revert_is_exact.
Print Assumptions previous_pinned_refuted_F37.
Print Assumptions revert_pinned_refuted_F38.
