(* Sync2RunFacts.v - every state the lock-step driver of Sync2Run.v visits is a
   reachable state of the Sync2 model, so the theorems of Sync2Facts.v (bounded
   top, no lost wake-up, no blocking under the lock, Close releases everybody)
   hold of it. *)
From Coq Require Import List Arith Bool.
Import ListNotations.
From Moss Require Import Sync2 Sync2Facts Sync2Run.

Theorem start_reachable c : reachable c (start c).
Proof. exact (start_is_run c). Qed.

Theorem apply_label_reachable c s l s' :
  reachable c s -> apply_label c s l = Some s' -> reachable c s'.
Proof.
  intros [ls H] A. destruct (apply_label_is_run _ _ _ _ A) as [tr Htr].
  exists (ls ++ tr). eapply run_app2; eassumption.
Qed.

Theorem apply_labels_reachable c ls s' :
  apply_labels c (start c) ls = Some s' -> reachable c s'.
Proof.
  intros A. destruct (start_is_run c) as [t0 H0].
  destruct (apply_labels_is_run _ _ _ _ A) as [tr Htr].
  exists (t0 ++ tr). eapply run_app2; eassumption.
Qed.

(* what that buys, for every state the lock-step compares with the implementation
   (the harness uses MaxPreMergerBatches 1..3 and the ping queue holds 10) *)
Corollary lockstep_top_bounded c ls s' :
  1 <= c_cap c -> 1 <= c_qcap c ->
  apply_labels c (start c) ls = Some s' -> obs_top s' <= c_cap c.
Proof. intros C Q A. apply bounded_top2; auto. eapply apply_labels_reachable; eassumption. Qed.

Corollary lockstep_never_blocks_under_lock c ls s' :
  1 <= c_cap c -> 1 <= c_qcap c ->
  apply_labels c (start c) ls = Some s' -> z_lk s' = false.
Proof. intros C Q A. apply (no_block_under_lock c); auto. eapply apply_labels_reachable; eassumption. Qed.

Corollary lockstep_no_lost_wakeup c ls s' :
  1 <= c_cap c -> 1 <= c_qcap c ->
  apply_labels c (start c) ls = Some s' ->
  0 < z_wwait s' -> z_top s' = c_cap c /\ z_closed s' = false.
Proof. intros C Q A. apply no_lost_wakeup; auto. eapply apply_labels_reachable; eassumption. Qed.
