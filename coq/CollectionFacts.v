(* CollectionFacts.v — the master invariant of the collection model and its
   preservation by every step. *)
From Coq Require Import List NArith Bool Lia Arith.
From Moss Require Import Bytes BytesFacts Segment SegmentFacts Stack StackFacts Collection.

Section WithMerge.
  Variable fm : bytes -> value -> bytes -> value.
  Notation sget := (sget fm).
  Notation llv := (llv fm).
  Notation step := (step fm).
  Notation run := (run fm).
  Notation ref_from := (ref_from fm).
  Notation snap_get := (snap_get fm).

  Lemma value_eqb_true a b : value_eqb a b = true <-> a = b.
  Proof.
    destruct a, b; simpl; try (split; congruence).
    rewrite beqb_true. split; congruence.
  Qed.

  (* --- reference ---------------------------------------------------------- *)
  Lemma ref_from_app m0 h1 h2 : ref_from m0 (h1 ++ h2) = ref_from (ref_from m0 h1) h2.
  Proof. unfold ref_from. apply fold_left_app. Qed.

  Lemma ref_from_snoc m0 h b k :
    ref_from m0 (h ++ [b]) k =
    match find b k with Some o => apply_op fm k (ref_from m0 h k) o | None => ref_from m0 h k end.
  Proof. rewrite ref_from_app. reflexivity. Qed.

  (* the reference is the stack semantics of the raw batch list *)
  Lemma ref_from_sget m0 h k : ref_from m0 h k = sget (rev h) m0 k.
  Proof.
    revert m0. induction h as [|b h IH] using rev_ind; intros m0; [reflexivity|].
    rewrite ref_from_snoc, rev_unit. simpl. now rewrite IH.
  Qed.

  (* --- congruence of merge in the `below` function ------------------------ *)
  Lemma emit_all_ext tail incl upper f1 f2 ks :
    (forall k, f1 k = f2 k) -> emit_all tail incl upper f1 ks = emit_all tail incl upper f2 ks.
  Proof.
    intros H. induction ks as [|k r IH]; simpl; auto.
    unfold emit_one. rewrite (H k), IH. reflexivity.
  Qed.

  Lemma merge_stack_ext lvl ss b1 b2 :
    (forall k, b1 k = b2 k) -> merge_stack fm lvl ss b1 = merge_stack fm lvl ss b2.
  Proof.
    intros H. unfold merge_stack, split_at, merge_range. f_equal.
    apply emit_all_ext. intros k. apply sget_ext. apply H.
  Qed.

  (* --- merge-freeness ------------------------------------------------------ *)
  Definition mf_stack (st : list segment) : Prop := forall s, In s st -> seg_has_merge s = false.

  Lemma seg_has_merge_false s : seg_has_merge s = false <-> forall k o, In (k, o) s -> is_merge o = false.
  Proof.
    unfold seg_has_merge. split.
    - intros H k o Hin. destruct (is_merge o) eqn:E; auto.
      assert (existsb (fun e => is_merge (snd e)) s = true); [|congruence].
      apply existsb_exists. exists (k, o); auto.
    - intros H. destruct (existsb (fun e => is_merge (snd e)) s) eqn:E; auto. apply existsb_exists in E.
      destruct E as [[k o] [Hin Hm]]. simpl in Hm. rewrite (H k o Hin) in Hm. discriminate.
  Qed.

  Lemma mf_find s k o : seg_has_merge s = false -> find s k = Some o -> is_merge o = false.
  Proof. intros H F. apply find_some_in in F. eapply seg_has_merge_false; eauto. Qed.

  Lemma mf_newest st k o : mf_stack st -> newest st k = Some o -> is_merge o = false.
  Proof.
    induction st as [|s r IH]; simpl; intros H E; [discriminate|].
    destruct (find s k) eqn:F.
    - injection E as <-. eapply mf_find; eauto. apply H; simpl; auto.
    - apply IH; auto. intros s' Hs. apply H; simpl; auto.
  Qed.

  Lemma sort_seg_mf b : seg_has_merge b = false -> seg_has_merge (sort_seg b) = false.
  Proof.
    rewrite !seg_has_merge_false. intros H k o Hin. apply -> sort_seg_in in Hin. apply (H k o Hin).
  Qed.

  Lemma emit_all_mf tail incl upper fg ks :
    mf_stack upper -> seg_has_merge (emit_all tail incl upper fg ks) = false.
  Proof.
    intros Hm. apply seg_has_merge_false. induction ks as [|k r IH]; simpl; [intros ? ? []|].
    destruct (skip_del incl upper k); auto.
    unfold emit_one. destruct (newest upper k) as [o|] eqn:En; auto.
    pose proof (mf_newest _ _ _ Hm En) as Ho.
    destruct (tail && Nat.eqb (cursors_at upper k) 1).
    - intros k' o' [[= <- <-]|Hin]; eauto.
    - destruct o; try discriminate; intros k' o' [[= <- <-]|Hin]; eauto.
  Qed.

  Lemma merge_stack_mf lvl ss below : mf_stack ss -> mf_stack (merge_stack fm lvl ss below).
  Proof.
    intros H. unfold merge_stack, split_at. intros s [<-|Hin].
    - apply emit_all_mf. intros s Hs. apply H. eapply In_firstn_in; eauto.
    - apply H. eapply In_skipn_in; eauto.
  Qed.

  Lemma sget_idem_mf st f k : mf_stack st -> sget st (sget st f) k = sget st f k.
  Proof.
    induction st as [|s r IH]; simpl; intros H; auto.
    destruct (find s k) eqn:F.
    - assert (is_merge o = false) by (eapply mf_find; eauto; apply H; simpl; auto).
      apply apply_op_setdel; auto.
    - transitivity (sget r (sget r f) k).
      + apply sget_ext. simpl. now rewrite F.
      + apply IH. intros s' Hs; apply H; simpl; auto.
  Qed.

  (* --- publish_ok ---------------------------------------------------------- *)
  Lemma llv_not_in_keys l k : ~ In k (all_keys l) -> llv l k = None.
  Proof.
    intros H. unfold Collection.llv.
    assert (E : newest l k = None).
    { destruct (newest l k) eqn:E; auto. exfalso. apply H. apply newest_some_in_all_keys. congruence. }
    pose proof (sget_newest_none fm l [] no_below k E) as H1.
    rewrite app_nil_r in H1. rewrite H1. reflexivity.
  Qed.

  Lemma all_keys_app a b k : In k (all_keys (a ++ b)) <-> In k (all_keys a) \/ In k (all_keys b).
  Proof.
    rewrite !all_keys_in. split.
    - intros [s [H1 H2]]. apply in_app_or in H1. destruct H1; [left|right]; eauto.
    - intros [[s [H1 H2]]|[s [H1 H2]]]; exists s; split; auto; apply in_or_app; auto.
  Qed.

  Lemma publish_ok_spec bs l l' :
    publish_ok fm bs l l' = true -> forall k, llv l' k = sget bs (llv l) k.
  Proof.
    unfold publish_ok. rewrite forallb_forall. intros H k.
    destruct (in_dec (list_eq_dec N.eq_dec) k (all_keys (l' ++ bs ++ l))) as [Hin|Hn].
    - apply value_eqb_true. apply H; auto.
    - rewrite !all_keys_app in Hn.
      rewrite llv_not_in_keys by tauto.
      assert (E : newest bs k = None).
      { destruct (newest bs k) eqn:E; auto. exfalso. apply Hn. right; left.
        apply newest_some_in_all_keys. congruence. }
      pose proof (sget_newest_none fm bs [] (llv l) k E) as H1.
      rewrite app_nil_r in H1. rewrite H1. simpl.
      symmetry. apply llv_not_in_keys. tauto.
  Qed.

  (* --- the invariant -------------------------------------------------------- *)
  Definition dirty (s : cstate) : list segment := top s ++ olist (mid s) ++ olist (base s).

  Record InvOpen (c : cfg) (m0 : bytes -> value) (h : list segment) (s : cstate) : Prop := {
    inv_view : forall k, sget (dirty s) (llv (ll s)) k = ref_from m0 h k;
    inv_clean : forall k, sget (clean s) (llv (ll s)) k = llv (ll s) k;
    inv_mcap : match merger s with
               | MIngested mb ml =>
                   forall k, sget (olist mb) (llv ml) k = sget (olist (base s)) (llv (ll s)) k
               | _ => True
               end;
    inv_cached : match cached s with
                 | Some sn => forall k, snap_get sn k = ref_from m0 h k
                 | None => True
                 end
  }.

  Definition Inv c m0 h s : Prop := closed s = true \/ InvOpen c m0 h s.

  Lemma inv_init c l : Inv c (llv l) [] (init l).
  Proof.
    right. constructor; simpl; auto.
  Qed.

  Lemma mk_snapshot_view c m0 h s :
    InvOpen c m0 h s -> forall k, snap_get (mk_snapshot s) k = ref_from m0 h k.
  Proof.
    intros [Hv Hc _ _] k. unfold Collection.snap_get, mk_snapshot; simpl.
    rewrite <- (Hv k). unfold dirty.
    rewrite !app_assoc. rewrite sget_app. rewrite <- !app_assoc.
    apply sget_ext. apply Hc.
  Qed.

  Lemma inv_same c m0 h s s' :
    top s' = top s -> mid s' = mid s -> base s' = base s -> clean s' = clean s ->
    ll s' = ll s -> cached s' = cached s ->
    (merger s' = merger s \/ merger s' = MIdle \/ merger s' = MSwapped) ->
    InvOpen c m0 h s -> InvOpen c m0 h s'.
  Proof.
    intros E1 E2 E3 E4 E5 E6 E7 [Hv Hc Hm Hca].
    constructor; unfold dirty in *; rewrite ?E1, ?E2, ?E3, ?E4, ?E5, ?E6; auto.
    destruct E7 as [->|[->| ->]]; auto.
  Qed.

  Definition label_batches (lb : label) : list segment :=
    match lb with LBatch b => [b] | _ => [] end.

  Lemma mf_stack_existsb b : existsb seg_has_merge b = false -> mf_stack b.
  Proof.
    intros H sg Hin. destruct (seg_has_merge sg) eqn:E; auto.
    assert (existsb seg_has_merge b = true); [|congruence].
    apply existsb_exists. eauto.
  Qed.

  Theorem step_inv c m0 h s lb s' :
    Inv c m0 h s -> step c s lb = Some s' -> Inv c m0 (h ++ label_batches lb) s'.
  Proof.
    intros [Hcl|HI] Hs.
    { unfold Collection.step in Hs. rewrite Hcl in Hs. discriminate. }
    unfold Collection.step in Hs. destruct (closed s) eqn:Ecl; [discriminate|].
    pose proof HI as HI0. destruct HI as [Hv Hc Hm Hca].
    destruct lb; simpl label_batches; rewrite ?app_nil_r.
    - (* LBatch *)
      destruct (uniq_keys (keys b) && negb (Nat.eqb (length b) 0)) eqn:G; [|discriminate].
      injection Hs as <-. apply andb_true_iff in G. destruct G as [Gu _].
      apply uniq_keys_NoDup in Gu.
      right. constructor; simpl; auto.
      intros k. unfold dirty; simpl. rewrite ref_from_snoc.
      rewrite find_sort_seg by auto. fold (dirty s). rewrite (Hv k). reflexivity.
    - (* LIngest *)
      destruct (merger s); try discriminate. injection Hs as <-.
      right. constructor; simpl; auto.
      intros k. unfold dirty; simpl. rewrite <- (Hv k). unfold dirty.
      now rewrite <- app_assoc.
    - (* LSwap *)
      destruct (merger s) as [|mb ml|] eqn:Em; try discriminate.
      destruct (Nat.ltb lvl (length (olist (mid s))) || Nat.eqb (length (olist (mid s))) 0) eqn:G;
        [|discriminate].
      injection Hs as <-.
      set (B := sget (olist (base s)) (llv (ll s))).
      assert (Hm' : forall k, sget (match olist (mid s) with
                              | [] => olist (mid s)
                              | _ => if Nat.ltb lvl (length (olist (mid s)))
                                     then merge_stack fm lvl (olist (mid s)) (sget (olist mb) (llv ml))
                                     else olist (mid s) end) B k = sget (olist (mid s)) B k).
      { intros k. destruct (olist (mid s)) as [|x xs] eqn:Eo; auto.
        destruct (Nat.ltb lvl (length (x :: xs))); auto.
        rewrite (merge_stack_ext lvl (x :: xs) _ B) by (intros; apply Hm).
        apply merge_stack_view. }
      right. constructor; simpl; auto.
      + intros k. rewrite <- (Hv k). unfold dirty; simpl.
        rewrite !(sget_app fm (top s)). apply sget_ext. rewrite !sget_app. fold B. apply Hm'.
      + destruct (olist (mid s)); [exact Hca|exact I].
    - (* LHandover *)
      destruct (merger s) eqn:Em; try discriminate.
      destruct (base s) eqn:Eb, (mid s) eqn:Emid;
        try (injection Hs as <-; right; apply (inv_same c m0 h s); simpl; auto; fail).
      destruct (has_ll c); injection Hs as <-.
      + right. constructor; simpl; auto.
        intros k. rewrite <- (Hv k). unfold dirty; simpl. rewrite Eb, Emid; simpl.
        rewrite ?app_nil_r. reflexivity.
      + right. apply (inv_same c m0 h s); simpl; auto.
    - (* LPBegin *)
      destruct (persister s); try discriminate.
      destruct (base s) eqn:Eb; try discriminate.
      destruct (has_ll c); try discriminate. injection Hs as <-.
      right. apply (inv_same c m0 h s); simpl; auto.
    - (* LPPublish *)
      destruct (persister s); try discriminate.
      destruct (base s) as [b|] eqn:Eb; try discriminate.
      destruct (publish_ok fm b (ll s) ll') eqn:G; [|discriminate].
      injection Hs as <-. pose proof (publish_ok_spec _ _ _ G) as Hp.
      right. constructor; simpl; auto.
      + intros k. rewrite <- (Hv k). unfold dirty; simpl. rewrite Eb; simpl.
        rewrite app_nil_r. rewrite (app_assoc (top s)). rewrite (sget_app fm (top s ++ olist (mid s)) b).
        apply sget_ext. apply Hp.
      + intros k. destruct (cache_persisted c && negb (existsb seg_has_merge b)) eqn:Ecp; simpl; auto.
        apply andb_true_iff in Ecp. destruct Ecp as [_ Ecp]. apply negb_true_iff in Ecp.
        rewrite (sget_ext fm b (llv ll') (sget b (llv (ll s))) k (Hp k)).
        rewrite Hp. apply sget_idem_mf. apply mf_stack_existsb; auto.
      + destruct (merger s) as [|mb ml|]; auto.
        intros k. rewrite (Hm k). simpl. symmetry; apply Hp.
    - (* LPFail *)
      destruct (persister s); try discriminate. injection Hs as <-.
      right. apply (inv_same c m0 h s); simpl; auto.
    - (* LSnap *)
      injection Hs as <-. right. constructor; unfold dirty; simpl; auto.
      unfold cur_snapshot. destruct (cached s) eqn:Ec.
      + exact Hca.
      + apply (mk_snapshot_view c m0 h s HI0).
    - (* LClose *)
      injection Hs as <-. left. reflexivity.
  Qed.

  Lemma batches_cons lb ls : batches (lb :: ls) = label_batches lb ++ batches ls.
  Proof. destruct lb; reflexivity. Qed.

  Theorem run_inv c m0 h s ls s' :
    Inv c m0 h s -> run c s ls = Some s' -> Inv c m0 (h ++ batches ls) s'.
  Proof.
    revert h s. induction ls as [|lb ls IH]; intros h s HI Hr; simpl in Hr.
    - injection Hr as <-. simpl. now rewrite app_nil_r.
    - destruct (step c s lb) as [s1|] eqn:Es; [|discriminate].
      rewrite batches_cons, app_assoc. apply IH with s1; auto.
      eapply step_inv; eauto.
  Qed.

  (* --- what the invariant gives the reader --------------------------------- *)

  Theorem reads_are_reference c l ls s :
    run c (init l) ls = Some s -> closed s = false ->
    forall k,
      snap_get (cur_snapshot s) k = ref_from (llv l) (batches ls) k /\
      snap_get (mk_snapshot s) k = ref_from (llv l) (batches ls) k.
  Proof.
    intros Hr Hcl k.
    pose proof (run_inv c (llv l) [] (init l) ls s (inv_init c l) Hr) as HI.
    simpl in HI. destruct HI as [HI|HI]; [congruence|].
    split.
    - unfold cur_snapshot. destruct (cached s) eqn:Ec.
      + pose proof (inv_cached _ _ _ _ HI) as H. rewrite Ec in H. apply H.
      + eapply mk_snapshot_view; eauto.
    - eapply mk_snapshot_view; eauto.
  Qed.
End WithMerge.
