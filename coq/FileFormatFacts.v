(* FileFormatFacts.v — proofs about FileFormat.v. *)
From Coq Require Import ZArith NArith List Bool Lia ZifyN ZifyNat.
From Moss Require Import Bytes BytesFacts Segment Codec CodecFacts FileFormat.
Open Scope N_scope.

Arguments N.mul : simpl never.
Arguments N.add : simpl never.
Arguments N.sub : simpl never.
Arguments N.div : simpl never.
Arguments N.modulo : simpl never.
Arguments N.pow : simpl never.

(* ------------------------------------------------------------------ *)
(* lists of bytes indexed by N                                         *)

Lemma blen_nil : blen [] = 0.
Proof. reflexivity. Qed.

Lemma blen_app a b : blen (a ++ b) = blen a + blen b.
Proof. unfold blen. rewrite app_length. lia. Qed.

Lemma blen_cons c b : blen (c :: b) = 1 + blen b.
Proof. unfold blen. cbn [length]. lia. Qed.

Lemma blen_0_nil b : blen b = 0 -> b = [].
Proof. destruct b; [reflexivity|]. rewrite blen_cons. lia. Qed.

Lemma to_nat_blen b : N.to_nat (blen b) = length b.
Proof. unfold blen. apply Nat2N.id. Qed.

Lemma take_app_exact a b : take (blen a) (a ++ b) = a.
Proof.
  unfold take. rewrite to_nat_blen.
  rewrite firstn_app, Nat.sub_diag, firstn_O, app_nil_r. apply firstn_all.
Qed.

Lemma drop_app_exact a b : drop (blen a) (a ++ b) = b.
Proof.
  unfold drop. rewrite to_nat_blen.
  rewrite skipn_app, Nat.sub_diag, skipn_all. reflexivity.
Qed.

Lemma take_0 b : take 0 b = [].
Proof. reflexivity. Qed.

Lemma drop_0 b : drop 0 b = b.
Proof. reflexivity. Qed.

Lemma blen_take n b : n <= blen b -> blen (take n b) = n.
Proof. unfold blen, take. intro H. rewrite firstn_length. lia. Qed.

Lemma blen_drop n b : blen (drop n b) = blen b - n.
Proof. unfold blen, drop. rewrite skipn_length. lia. Qed.

Lemma take_drop n b : take n b ++ drop n b = b.
Proof. apply firstn_skipn. Qed.

Lemma skipn_skipn' (n m : nat) (b : bytes) : skipn n (skipn m b) = skipn (m + n) b.
Proof.
  revert b; induction m as [|m IH]; intro b; [reflexivity|].
  destruct b as [|c b]; [now rewrite !skipn_nil|]. cbn [skipn Nat.add]. apply IH.
Qed.

Lemma drop_drop n m b : drop n (drop m b) = drop (m + n) b.
Proof.
  unfold drop. rewrite skipn_skipn'. f_equal. lia.
Qed.

Lemma take_take n m b : n <= m -> take n (take m b) = take n b.
Proof.
  unfold take. intro H. rewrite firstn_firstn. f_equal. lia.
Qed.

Lemma drop_take n m b : drop n (take (n + m) b) = take m (drop n b).
Proof.
  unfold drop, take. rewrite skipn_firstn_comm. f_equal. lia.
Qed.

Lemma take_app_l n a b : n <= blen a -> take n (a ++ b) = take n a.
Proof.
  unfold take, blen. intro H. rewrite firstn_app.
  replace (N.to_nat n - length a)%nat with 0%nat by lia.
  rewrite firstn_O, app_nil_r. reflexivity.
Qed.

Lemma drop_app_l n a b : n <= blen a -> drop n (a ++ b) = drop n a ++ b.
Proof.
  unfold drop, blen. intro H. rewrite skipn_app.
  replace (N.to_nat n - length a)%nat with 0%nat by lia. reflexivity.
Qed.

Lemma subs_mid a b c lo hi :
  lo = blen a -> hi = blen a + blen b -> subs (a ++ b ++ c) lo hi = b.
Proof.
  intros -> ->. unfold subs. rewrite drop_app_exact.
  replace (blen a + blen b - blen a) with (blen b) by lia.
  apply take_app_exact.
Qed.

Lemma subs_0_take b n : subs b 0 n = take n b.
Proof. unfold subs. rewrite drop_0. f_equal. lia. Qed.

(* ------------------------------------------------------------------ *)
(* slice / read_at / write_at                                          *)

Lemma slice_some f off n x :
  slice f off n = Some x <-> off + n <= blen f /\ x = take n (drop off f).
Proof.
  unfold slice. destruct (N.leb_spec (off + n) (blen f)); split.
  - intros [= <-]. auto.
  - intros [_ ->]. reflexivity.
  - discriminate.
  - intros [H' _]. lia.
Qed.

Lemma slice_blen f off n x : slice f off n = Some x -> blen x = n.
Proof.
  intro H. apply slice_some in H as [Hb ->].
  apply blen_take. rewrite blen_drop. lia.
Qed.

Lemma slice_mid a b c : slice (a ++ b ++ c) (blen a) (blen b) = Some b.
Proof.
  apply slice_some. split.
  - rewrite !blen_app. lia.
  - rewrite drop_app_exact, take_app_exact. reflexivity.
Qed.

Lemma slice_mid' a b c off : off = blen a -> slice (a ++ b ++ c) off (blen b) = Some b.
Proof. intros ->. apply slice_mid. Qed.

Lemma slice_end a b off : off = blen a -> slice (a ++ b) off (blen b) = Some b.
Proof. intros ->. pose proof (slice_mid a b []) as H. rewrite app_nil_r in H. exact H. Qed.

Lemma slice_app_l f c off n x : slice f off n = Some x -> slice (f ++ c) off n = Some x.
Proof.
  intro H. apply slice_some in H as [Hb ->]. apply slice_some. split.
  - rewrite blen_app. lia.
  - rewrite drop_app_l by lia. rewrite take_app_l; [reflexivity|].
    rewrite blen_drop. lia.
Qed.

Lemma slice_split f off n m x :
  slice f off (n + m) = Some x ->
  slice f off n = Some (take n x) /\ slice f (off + n) m = Some (drop n x).
Proof.
  intro H. apply slice_some in H as [Hb ->]. split; apply slice_some; split; try lia.
  - rewrite take_take by lia. reflexivity.
  - rewrite drop_take, drop_drop. reflexivity.
Qed.

Lemma take_all t f : blen f <= t -> take t f = f.
Proof. unfold take, blen. intro H. apply firstn_all2. lia. Qed.

Lemma slice_take_le f t off n :
  off + n <= t -> slice (take t f) off n = slice f off n.
Proof.
  intro H. unfold slice.
  destruct (N.leb_spec t (blen f)) as [Ht|Ht].
  - rewrite blen_take by assumption.
    destruct (N.leb_spec (off + n) t); [|lia].
    destruct (N.leb_spec (off + n) (blen f)); [|lia].
    f_equal. rewrite <- (take_drop t f) at 2.
    rewrite drop_app_l by (rewrite blen_take; lia).
    rewrite take_app_l; [reflexivity|]. rewrite blen_drop, blen_take; lia.
  - rewrite take_all by lia. reflexivity.
Qed.

Lemma blen_take_le t f : blen (take t f) <= t.
Proof. unfold blen, take. rewrite firstn_length. lia. Qed.

Lemma blen_take_min t f : blen (take t f) = N.min t (blen f).
Proof. unfold blen, take. rewrite firstn_length. lia. Qed.

Lemma slice_take_some f t off n x :
  slice (take t f) off n = Some x -> slice f off n = Some x.
Proof.
  intro H. assert (Hb : off + n <= t).
  { apply slice_some in H as [Hb _]. pose proof (blen_take_le t f). lia. }
  rewrite <- (slice_take_le f t off n Hb). exact H.
Qed.

Lemma read_at_some f off n x :
  read_at f off n = Some x -> 0 < n -> slice f off n = Some x.
Proof. unfold read_at. destruct (N.eqb_spec n 0); [lia|auto]. Qed.

Lemma read_at_slice f off n : 0 < n -> read_at f off n = slice f off n.
Proof. unfold read_at. destruct (N.eqb_spec n 0); [lia|auto]. Qed.

Lemma zeros_blen n : blen (zeros n) = n.
Proof. unfold blen, zeros. rewrite repeat_length. lia. Qed.

Lemma write_at_append f off d :
  d <> [] -> blen f <= off -> write_at f off d = f ++ zeros (off - blen f) ++ d.
Proof.
  intros Hd Hle. unfold write_at. destruct d as [|c d]; [congruence|].
  destruct (N.leb_spec (blen f) off); [reflexivity|lia].
Qed.

Lemma write_at_nil f off : write_at f off [] = f.
Proof. reflexivity. Qed.

Lemma write_at_append_contains f off d :
  blen f <= off -> contains (write_at f off d) off d.
Proof.
  intros Hle Hd. rewrite write_at_append by assumption.
  rewrite app_assoc.
  apply slice_end. rewrite blen_app, zeros_blen. lia.
Qed.

Lemma write_at_append_blen f off d :
  d <> [] -> blen f <= off -> blen (write_at f off d) = off + blen d.
Proof.
  intros Hd Hle. rewrite write_at_append by assumption.
  rewrite !blen_app, zeros_blen. lia.
Qed.

Lemma write_at_append_keeps f off d off0 d0 :
  blen f <= off -> contains f off0 d0 -> contains (write_at f off d) off0 d0.
Proof.
  intros Hle Hc Hd0. destruct d as [|c d]; [rewrite write_at_nil; auto|].
  rewrite write_at_append by (assumption || discriminate).
  apply slice_app_l. auto.
Qed.

(* ------------------------------------------------------------------ *)
(* segment image                                                       *)

Lemma words_of_cons w rest : words_of (le_u64 w ++ rest) = le_dec (le_u64 w) :: words_of rest.
Proof. reflexivity. Qed.

Lemma words_of_kvs_bytes ws :
  Forall (fun w => w < two64) ws -> words_of (kvs_bytes ws) = ws.
Proof.
  induction 1 as [|w ws Hw _ IH]; [reflexivity|].
  unfold kvs_bytes in *. cbn [flat_map]. rewrite words_of_cons, IH.
  f_equal. apply le_u64_roundtrip. exact Hw.
Qed.

Lemma u64_lt x : u64 x < two64.
Proof. unfold u64. apply N.mod_lt. discriminate. Qed.

Lemma kvs_words_lt s : forall off, Forall (fun w => w < two64) (kvs_words s off).
Proof.
  induction s as [|[k o] r IH]; intro off; cbn [kvs_words]; constructor.
  - apply encode_lt_two64.
  - constructor; [apply u64_lt | apply IH].
Qed.

Lemma kvs_bytes_blen ws : blen (kvs_bytes ws) = 8 * N.of_nat (length ws).
Proof.
  induction ws as [|w ws IH]; [reflexivity|].
  unfold kvs_bytes in *. cbn [flat_map length]. rewrite blen_app, IH.
  unfold blen, le_u64. rewrite le_enc_length. lia.
Qed.

Lemma sub_checked_mid a b c :
  sub_checked (a ++ b ++ c) (blen a) (blen a + blen b) = Some b.
Proof.
  unfold sub_checked.
  destruct (N.leb_spec (blen a) (blen a + blen b)); [|lia].
  destruct (N.leb_spec (blen a + blen b) (blen (a ++ b ++ c))) as [|H'];
    [|rewrite !blen_app in H'; lia].
  cbn [andb]. f_equal. apply subs_mid; reflexivity.
Qed.

Lemma op_code_valid o : valid_op_code (op_code o).
Proof. destruct o; cbv [op_code valid_op_code]; auto. Qed.

Lemma mk_op_ok o : mk_op (op_code o) (op_val o) = Some o.
Proof. destruct o; reflexivity. Qed.

Lemma entry_decodes B pre k o post :
  B = pre ++ (k ++ op_val o) ++ post ->
  blen k <= maxKeyLength -> blen (op_val o) <= maxValLength -> blen B < two64 ->
  get_operation_key_val B (encode (op_code o) (blen k) (blen (op_val o)))
     (u64 (key_start_rule (blen pre) (blen k) (blen (op_val o)))) = Some (k, o).
Proof.
  intros HB Hk Hv HBl. unfold get_operation_key_val.
  rewrite C19_word_roundtrip;
    [| unfold maxKeyLength in Hk; change (2 ^ 24 - 1) with 16777215; exact Hk
     | unfold maxValLength in Hv; change (2 ^ 28 - 1) with 268435455; exact Hv
     | apply op_code_valid].
  unfold key_start_rule.
  destruct (N.eqb_spec (blen k) 0) as [Ek|Ek];
    [destruct (N.eqb_spec (blen (op_val o)) 0) as [Ev|Ev]|]; cbn [andb].
  - (* empty key and empty value: keyStart = 0 *)
    rewrite Ek, Ev. apply blen_0_nil in Ek. subst k.
    change (u64 0) with 0.
    pose proof (sub_checked_mid [] [] B) as S. cbn [app] in S.
    change (blen []) with 0 in S. rewrite !N.add_0_l in S. repeat rewrite N.add_0_l. rewrite !S.
    destruct o as [v| |v]; cbn [op_val] in *;
      try (apply blen_0_nil in Ev; subst v); reflexivity.
  - unfold u64. rewrite N.mod_small by (subst B; rewrite !blen_app in HBl; lia).
    subst B. rewrite <- app_assoc.
    rewrite (sub_checked_mid pre k (op_val o ++ post)).
    replace (pre ++ k ++ op_val o ++ post) with ((pre ++ k) ++ op_val o ++ post)
      by (now rewrite <- app_assoc).
    replace (blen pre + blen k) with (blen (pre ++ k)) by apply blen_app.
    rewrite (sub_checked_mid (pre ++ k) (op_val o) post).
    rewrite mk_op_ok. reflexivity.
  - unfold u64. rewrite N.mod_small by (subst B; rewrite !blen_app in HBl; lia).
    subst B. rewrite <- app_assoc.
    rewrite (sub_checked_mid pre k (op_val o ++ post)).
    replace (pre ++ k ++ op_val o ++ post) with ((pre ++ k) ++ op_val o ++ post)
      by (now rewrite <- app_assoc).
    replace (blen pre + blen k) with (blen (pre ++ k)) by apply blen_app.
    rewrite (sub_checked_mid (pre ++ k) (op_val o) post).
    rewrite mk_op_ok. reflexivity.
Qed.

Lemma entries_roundtrip s : forall pre B,
  B = pre ++ seg_buf s -> Forall entry_ok s -> blen B < two64 ->
  entries_of (kvs_words s (blen pre)) B = Some s.
Proof.
  induction s as [|[k o] r IH]; intros pre B HB Hok HBl; [reflexivity|].
  inversion Hok as [|e l [Hk Hv] Hr]; subst e l. cbn [fst snd] in Hk, Hv.
  cbn [kvs_words entries_of seg_buf] in *.
  rewrite (entry_decodes B pre k o (seg_buf r)); trivial;
    [| now rewrite <- app_assoc].
  replace (blen pre + blen k + blen (op_val o)) with (blen (pre ++ k ++ op_val o))
    by (rewrite !blen_app; lia).
  rewrite (IH (pre ++ k ++ op_val o) B); trivial.
  rewrite HB, <- !app_assoc. reflexivity.
Qed.

Lemma kvs_bytes_nonempty k o r off : kvs_bytes (kvs_words ((k, o) :: r) off) <> [].
Proof.
  intro H. apply (f_equal blen) in H. rewrite kvs_bytes_blen in H.
  cbn [kvs_words length] in H. change (blen []) with 0 in H. lia.
Qed.

(* C19: a persisted segment loads back as itself, from any file that has the
   two written regions at their offsets — whatever the other bytes are. *)
Theorem C19_segment_roundtrip P pos s f :
  0 < P -> seg_ok s ->
  contains f (seg_kvs_pos P pos) (kvs_bytes (kvs_words s 0)) ->
  contains f (seg_buf_pos P pos s) (seg_buf s) ->
  load_segment f (persist_segment_loc P pos s) = Some s.
Proof.
  intros HP [Hok Hlen] Hkvs Hbuf.
  unfold load_segment, persist_segment_loc.
  cbn [KvsOffset KvsBytes BufOffset BufBytes].
  set (kvs := kvs_bytes (kvs_words s 0)) in *.
  set (buf := seg_buf s) in *.
  set (kp := seg_kvs_pos P pos) in *.
  assert (Hbp : kp + blen kvs <= seg_buf_pos P pos s).
  { unfold seg_buf_pos. fold kvs. fold kp. apply ceil_ge. exact HP. }
  set (bp := seg_buf_pos P pos s) in *.
  destruct (N.ltb_spec (bp + blen buf) kp); [lia|].
  assert (Hws : (if 0 <? blen kvs
                 then if bp + blen buf - kp <? blen kvs then None
                      else option_map words_of (slice f kp (blen kvs))
                 else Some []) = Some (kvs_words s 0)).
  { destruct (N.ltb_spec 0 (blen kvs)) as [Hpos|Hz].
    - destruct (N.ltb_spec (bp + blen buf - kp) (blen kvs)); [lia|].
      rewrite Hkvs by (intro E; rewrite E in Hpos; cbn in Hpos; lia).
      cbn [option_map]. unfold kvs. rewrite words_of_kvs_bytes; [reflexivity|].
      apply kvs_words_lt.
    - destruct s as [|[k o] r]; [reflexivity|].
      exfalso. apply (kvs_bytes_nonempty k o r 0). apply blen_0_nil. subst kvs. apply N.le_0_r in Hz. exact Hz. }
  rewrite Hws.
  assert (Hb : (if 0 <? blen buf
                then if bp <? kp then None else slice f bp (blen buf)
                else Some []) = Some buf).
  { destruct (N.ltb_spec 0 (blen buf)) as [Hpos|Hz].
    - destruct (N.ltb_spec bp kp); [lia|].
      apply Hbuf. intro E; rewrite E in Hpos; cbn in Hpos; lia.
    - f_equal. symmetry. apply blen_0_nil. lia. }
  rewrite Hb.
  apply (entries_roundtrip s [] buf); trivial.
  unfold two64. fold buf in Hlen. lia.
Qed.
Print Assumptions C19_segment_roundtrip.

(* the two writes of persistBasicSegment, applied at the end of a file (pos =
   finfo.Size()), leave both regions in the file *)
Lemma persist_segment_contains P pos s f :
  0 < P -> blen f <= pos ->
  let f' := apply_delta f (persist_segment P pos s) in
  contains f' (seg_kvs_pos P pos) (kvs_bytes (kvs_words s 0)) /\
  contains f' (seg_buf_pos P pos s) (seg_buf s).
Proof.
  intros HP Hpos. unfold apply_delta, persist_segment. cbn [fold_left fst snd].
  set (kvs := kvs_bytes (kvs_words s 0)).
  set (kp := seg_kvs_pos P pos).
  assert (Hkp : blen f <= kp).
  { unfold kp, seg_kvs_pos. pose proof (ceil_ge P HP pos). lia. }
  assert (Hbp : kp + blen kvs <= seg_buf_pos P pos s).
  { unfold seg_buf_pos. fold kvs. fold kp. apply ceil_ge. exact HP. }
  set (bp := seg_buf_pos P pos s) in *.
  assert (Hlen1 : blen (write_at f kp kvs) <= bp).
  { destruct kvs as [|c kvs'] eqn:E.
    - rewrite write_at_nil. change (blen []) with 0 in Hbp. lia.
    - rewrite write_at_append_blen by (discriminate || assumption). lia. }
  split.
  - apply write_at_append_keeps; [exact Hlen1|].
    apply write_at_append_contains. exact Hkp.
  - apply write_at_append_contains. exact Hlen1.
Qed.

Lemma op_eqb_refl o : op_eqb o o = true.
Proof. destruct o; cbn [op_eqb]; auto using beqb_refl. Qed.

Lemma seg_eqb_refl s : seg_eqb s s = true.
Proof.
  induction s as [|[k o] r IH]; [reflexivity|].
  cbn [seg_eqb]. now rewrite beqb_refl, op_eqb_refl, IH.
Qed.

Theorem roundtrip_check_true P pos s :
  0 < P -> seg_ok s -> roundtrip_check P pos s = true.
Proof.
  intros HP Hok. unfold roundtrip_check.
  destruct (persist_segment_contains P pos s (zeros pos) HP) as [H1 H2].
  { rewrite zeros_blen. lia. }
  rewrite (C19_segment_roundtrip P pos s _ HP Hok H1 H2).
  apply seg_eqb_refl.
Qed.
Print Assumptions roundtrip_check_true.

(* "in particular": the empty key, empty values, bytes 0x00 / 0xFF, and keys
   and values equal to the footer magics are all covered by seg_ok *)
Definition corner_segment : segment :=
  [ ([], OSet []);
    ([0], OSet [255; 0; 255]);
    ([0; 0], ODel);
    (magicBeg, OSet magicEnd);
    (magicBeg ++ magicBeg, OMerge []);
    (magicEnd, OMerge (magicBeg ++ magicBeg ++ le_u32 4 ++ le_u32 44));
    ([255], OSet [0]);
    ([255; 255], ODel) ].

Lemma corner_segment_ok : seg_ok corner_segment.
Proof.
  split; [|reflexivity].
  repeat constructor; cbv; discriminate.
Qed.

Example C19_corner_roundtrip f P pos :
  0 < P ->
  contains f (seg_kvs_pos P pos) (kvs_bytes (kvs_words corner_segment 0)) ->
  contains f (seg_buf_pos P pos corner_segment) (seg_buf corner_segment) ->
  load_segment f (persist_segment_loc P pos corner_segment) = Some corner_segment.
Proof. intros HP. apply C19_segment_roundtrip; [exact HP | exact corner_segment_ok]. Qed.

Example C19_corner_roundtrip_computed : roundtrip_check 4096 5000 corner_segment = true.
Proof. vm_compute. reflexivity. Qed.

(* the only entry whose key start is forced to 0 *)
Example C19_empty_entry_image :
  kvs_words [([1], OSet [2]); ([], OSet [])] 0
  = [encode OperationSet 1 1; 0; encode OperationSet 0 0; 0].
Proof. vm_compute. reflexivity. Qed.

(* ------------------------------------------------------------------ *)
(* footer framing                                                      *)

Definition footer_beg (L : N) : bytes :=
  magicBeg ++ magicBeg ++ le_u32 StoreVersion ++ le_u32 L.
Definition footer_data (F L : N) (json : bytes) : bytes :=
  json ++ le_u64 F ++ le_u32 L ++ magicEnd ++ magicEnd.

Lemma footer_bytes_split F json :
  footer_bytes F json = footer_beg (footer_len json) ++ footer_data F (footer_len json) json.
Proof. unfold footer_bytes, footer_beg, footer_data. now rewrite <- !app_assoc. Qed.

Lemma footer_beg_blen L : blen (footer_beg L) = footerBegLen.
Proof. reflexivity. Qed.

Lemma footer_data_blen F L json : blen (footer_data F L json) = blen json + footerEndLen.
Proof. unfold footer_data. rewrite blen_app. reflexivity. Qed.

Lemma footer_bytes_blen F json : blen (footer_bytes F json) = footer_len json.
Proof.
  rewrite footer_bytes_split, blen_app, footer_beg_blen, footer_data_blen.
  unfold footer_len. lia.
Qed.

Lemma footer_len_ge json : footerBegLen + footerEndLen <= footer_len json.
Proof. unfold footer_len. lia. Qed.

Lemma footer_bytes_nonnil F json : footer_bytes F json <> [].
Proof.
  intro E. apply (f_equal blen) in E. rewrite footer_bytes_blen in E.
  pose proof (footer_len_ge json). change (blen []) with 0 in E.
  change (footerBegLen + footerEndLen) with 44 in *. lia.
Qed.

(* the fields ScanFooter reads out of the first footerBegLen bytes *)
Lemma footer_beg_fields L :
  magic_beg_ok (footer_beg L) = true /\
  le_dec (subs (footer_beg L) 12 16) = StoreVersion /\
  subs (footer_beg L) 16 20 = le_u32 L.
Proof. repeat split; reflexivity. Qed.

(* ... and out of the remaining length - footerBegLen bytes *)
Lemma footer_data_fields F L json n :
  n = blen json + footerEndLen ->
  magic_end_ok (footer_data F L json) n = true /\
  subs (footer_data F L json) (n - footerEndLen) (n - footerEndLen + 8) = le_u64 F /\
  subs (footer_data F L json) (n - footerEndLen + 8) (n - footerEndLen + 12) = le_u32 L /\
  subs (footer_data F L json) 0 (n - footerEndLen) = json.
Proof.
  intros ->. unfold magic_end_ok, footer_data.
  change footerEndLen with 24. change lenMagicEnd with 6. change (6 * 2) with 12.
  replace (blen json + 24 - 24) with (blen json) by lia.
  assert (E1 : subs (json ++ le_u64 F ++ le_u32 L ++ magicEnd ++ magicEnd)
                    (blen json + 24 - 12) (blen json + 24 - 6) = magicEnd).
  { replace (json ++ le_u64 F ++ le_u32 L ++ magicEnd ++ magicEnd)
      with ((json ++ le_u64 F ++ le_u32 L) ++ magicEnd ++ magicEnd)
      by (now rewrite <- !app_assoc).
    apply subs_mid.
    - rewrite !blen_app. change (blen (le_u64 F)) with 8. change (blen (le_u32 L)) with 4. lia.
    - rewrite !blen_app. change (blen (le_u64 F)) with 8. change (blen (le_u32 L)) with 4.
      change (blen magicEnd) with 6. lia. }
  assert (E2 : subs (json ++ le_u64 F ++ le_u32 L ++ magicEnd ++ magicEnd)
                    (blen json + 24 - 6) (blen json + 24) = magicEnd).
  { replace (json ++ le_u64 F ++ le_u32 L ++ magicEnd ++ magicEnd)
      with ((json ++ le_u64 F ++ le_u32 L ++ magicEnd) ++ magicEnd ++ [])
      by (now rewrite <- !app_assoc, app_nil_r).
    apply subs_mid.
    - rewrite !blen_app. change (blen (le_u64 F)) with 8. change (blen (le_u32 L)) with 4.
      change (blen magicEnd) with 6. lia.
    - rewrite !blen_app. change (blen (le_u64 F)) with 8. change (blen (le_u32 L)) with 4.
      change (blen magicEnd) with 6. lia. }
  rewrite E1, E2. repeat split.
  - apply subs_mid; [reflexivity|]. change (blen (le_u64 F)) with 8. reflexivity.
  - replace (json ++ le_u64 F ++ le_u32 L ++ magicEnd ++ magicEnd)
      with ((json ++ le_u64 F) ++ le_u32 L ++ magicEnd ++ magicEnd)
      by (now rewrite <- !app_assoc).
    apply subs_mid.
    + rewrite blen_app. change (blen (le_u64 F)) with 8. reflexivity.
    + rewrite blen_app. change (blen (le_u64 F)) with 8. change (blen (le_u32 L)) with 4. lia.
  - rewrite subs_0_take. apply take_app_exact.
Qed.

(* a complete footer in the file at F, split into the two reads *)
Lemma footer_reads f F json :
  slice f F (footer_len json) = Some (footer_bytes F json) ->
  slice f F footerBegLen = Some (footer_beg (footer_len json)) /\
  slice f (F + footerBegLen) (footer_len json - footerBegLen)
    = Some (footer_data F (footer_len json) json).
Proof.
  intro H. pose proof (footer_len_ge json) as Hge.
  change (footerBegLen + footerEndLen) with 44 in Hge. change footerBegLen with 20 in *.
  replace (footer_len json) with (20 + (footer_len json - 20)) in H at 1 by lia.
  apply slice_split in H as [H1 H2].
  rewrite footer_bytes_split in H1, H2.
  change 20 with (blen (footer_beg (footer_len json))) in H1 at 2.
  change 20 with (blen (footer_beg (footer_len json))) in H2 at 3.
  rewrite take_app_exact in H1. rewrite drop_app_exact in H2. auto.
Qed.

Lemma len_minus json : footer_len json - footerBegLen = blen json + footerEndLen.
Proof. unfold footer_len. lia. Qed.

(* both versions of the loop body accept a complete, well-formed footer *)
Lemma step_at_footer f F json :
  slice f F (footer_len json) = Some (footer_bytes F json) ->
  F < 2 ^ 64 -> footer_len json < 2 ^ 32 ->
  scan_step f F = Done (Found F json) /\ scan_step_repaired f F = Done (Found F json).
Proof.
  intros Hs HF HL. destruct (footer_reads f F json Hs) as [R1 R2].
  pose proof (footer_len_ge json) as Hge.
  destruct (footer_beg_fields (footer_len json)) as (B1 & B2 & B3).
  destruct (footer_data_fields F (footer_len json) json _ (len_minus json))
    as (D1 & D2 & D3 & D4).
  assert (Hn : 0 < footer_len json - footerBegLen)
    by (rewrite len_minus; change footerEndLen with 24; lia).
  assert (Hc : footer_len json - footerBegLen - footerEndLen = blen json)
    by (rewrite len_minus; lia).
  rewrite len_minus in D2, D3, D4.
  replace (blen json + footerEndLen - footerEndLen) with (blen json) in D2, D3, D4 by lia.
  unfold scan_step, scan_step_repaired.
  rewrite !(read_at_slice f F footerBegLen) by reflexivity. rewrite R1.
  rewrite B1, B2, B3, le_u32_roundtrip by exact HL. cbn [negb].
  change (StoreVersion =? StoreVersion) with true. cbn [negb].
  destruct (N.ltb_spec (footer_len json) footerBegLen);
    [change footerBegLen with 20 in *; change footerEndLen with 24 in *; lia|].
  destruct (N.ltb_spec (footer_len json) (footerBegLen + footerEndLen)); [lia|].
  rewrite !(read_at_slice f _ _ Hn), R2, D1.
  destruct (N.ltb_spec (footer_len json - footerBegLen) (lenMagicEnd * 2));
    [rewrite len_minus in *; change footerEndLen with 24 in *;
     change (lenMagicEnd * 2) with 12 in *; lia|].
  rewrite Hc, D2, D3, D4, le_u64_roundtrip, le_u32_roundtrip by assumption.
  rewrite !N.eqb_refl. cbn [negb]. auto.
Qed.

(* no double magic: both versions move on *)
Lemma step_no_magic f q beg :
  read_at f q footerBegLen = Some beg -> magic_beg_ok beg = false ->
  scan_step f q = Continue /\ scan_step_repaired f q = Continue.
Proof.
  intros R M. unfold scan_step, scan_step_repaired. rewrite R, M. auto.
Qed.

Lemma step_repaired_short f q :
  read_at f q footerBegLen = None -> scan_step_repaired f q = Continue.
Proof. intro R. unfold scan_step_repaired. now rewrite R. Qed.

Lemma step_short f q :
  read_at f q footerBegLen = None -> scan_step f q = Done ScanError.
Proof. intro R. unfold scan_step. now rewrite R. Qed.

(* the head of a real footer whose tail is cut off *)
Lemma step_truncated f q L :
  read_at f q footerBegLen = Some (footer_beg L) ->
  footerBegLen + footerEndLen <= L -> L < 2 ^ 32 ->
  blen f < q + L ->
  scan_step_repaired f q = Continue /\ scan_step f q = Done ScanError.
Proof.
  intros R Hge HL Hcut.
  destruct (footer_beg_fields L) as (B1 & B2 & B3).
  assert (Hn : 0 < L - footerBegLen)
    by (change footerBegLen with 20 in *; change footerEndLen with 24 in *; lia).
  assert (Hr : read_at f (q + footerBegLen) (L - footerBegLen) = None).
  { rewrite read_at_slice by exact Hn. unfold slice.
    destruct (N.leb_spec (q + footerBegLen + (L - footerBegLen)) (blen f)); [lia|reflexivity]. }
  unfold scan_step, scan_step_repaired.
  rewrite R, B1, B2, B3, le_u32_roundtrip by exact HL. cbn [negb].
  change (StoreVersion =? StoreVersion) with true. cbn [negb].
  destruct (N.ltb_spec L (footerBegLen + footerEndLen)); [lia|].
  destruct (N.ltb_spec L footerBegLen); [lia|].
  rewrite Hr. auto.
Qed.

(* ------------------------------------------------------------------ *)
(* the backward scan                                                   *)

Section Scan.
  Variable P : N.
  Hypothesis HP : footerBegLen <= P.      (* 20 <= P; the real P is 4096 *)

  Lemma P_pos : 0 < P.
  Proof. change footerBegLen with 20 in HP. lia. Qed.

  (* "fuel = number of pages suffices": from a page-aligned position, any two
     fuels above pos/P give the same answer, so the fuel-exhausted branch of
     scan_loop never decides the result of scan_with. *)
  Lemma scan_loop_fuel step f : forall fuel1 fuel2 q,
    aligned P q -> q / P < N.of_nat fuel1 -> q / P < N.of_nat fuel2 ->
    scan_loop step fuel1 P f q = scan_loop step fuel2 P f q.
  Proof.
    induction fuel1 as [|k1 IH]; intros fuel2 q Ha H1 H2;
      pose proof (N.le_0_l (q / P)) as Hnn; [lia|].
    destruct fuel2 as [|k2]; [lia|].
    cbn [scan_loop]. destruct (N.eqb_spec q 0) as [|Hq]; [reflexivity|].
    destruct (step f q); [reflexivity|].
    destruct (aligned_div_sub P P_pos q Ha) as [Hd Hd1]; [lia|].
    apply IH; [apply aligned_sub; [apply P_pos|exact Ha] | lia | lia].
  Qed.

  Theorem scan_fuel_suffices step f pos extra :
    scan_loop step (scan_fuel P (pageAlignFloor P pos) + extra) P f (pageAlignFloor P pos)
    = scan_with step P f pos.
  Proof.
    unfold scan_with. apply scan_loop_fuel.
    - apply floor_aligned, P_pos.
    - unfold scan_fuel. lia.
    - unfold scan_fuel. lia.
  Qed.

  (* descending over positions that are skipped, down to [lo] where the scan
     stops: either lo = 0 (ErrNoValidFooter) or the body returns R at lo *)
  Definition stops_at (step : bytes -> N -> step_result) f lo R : Prop :=
    (lo = 0 /\ R = NoValidFooter) \/ (0 < lo /\ step f lo = Done R).

  Lemma scan_loop_reach step f lo R :
    aligned P lo -> stops_at step f lo R ->
    forall fuel q,
      aligned P q -> lo <= q -> q / P < N.of_nat fuel ->
      (forall q', aligned P q' -> lo < q' -> q' <= q -> step f q' = Continue) ->
      scan_loop step fuel P f q = R.
  Proof.
    intros Hlo Hstop. induction fuel as [|k IH]; intros q Ha Hle Hfuel Hskip;
      pose proof (N.le_0_l (q / P)) as Hnn; [lia|].
    cbn [scan_loop]. destruct (N.eqb_spec q 0) as [Hq0|Hq0].
    - destruct Hstop as [[_ ->]|[Hpos _]]; [reflexivity|lia].
    - destruct (N.eq_dec q lo) as [->|Hne].
      + destruct Hstop as [[-> _]|[_ ->]]; [lia|reflexivity].
      + rewrite (Hskip q Ha) by lia.
        pose proof (aligned_gap P P_pos lo q Hlo Ha) as Hgap.
        destruct (aligned_div_sub P P_pos q Ha) as [Hd Hd1]; [lia|].
        apply IH; [apply aligned_sub; [apply P_pos|exact Ha] | lia | lia |].
        intros q' Ha' Hlt Hle'. apply Hskip; trivial. lia.
  Qed.

  Lemma scan_with_reach step f lo R pos :
    aligned P lo -> lo <= pos -> stops_at step f lo R ->
    (forall q, aligned P q -> lo < q -> q <= pos -> step f q = Continue) ->
    scan_with step P f pos = R.
  Proof.
    intros Hlo Hle Hstop Hskip. unfold scan_with.
    pose proof (floor_le P P_pos pos) as Hfl.
    apply (scan_loop_reach step f lo R Hlo Hstop).
    - apply floor_aligned, P_pos.
    - apply floor_greatest; [apply P_pos|exact Hlo|exact Hle].
    - unfold scan_fuel. lia.
    - intros q Ha Hlt Hq. apply Hskip; trivial. lia.
  Qed.

  (* ---- the shape of a file after persist_footer ---- *)

  Lemma footer_pos_ge g : blen g <= footer_pos P g.
  Proof. apply ceil_ge, P_pos. Qed.

  Lemma footer_pos_aligned g : aligned P (footer_pos P g).
  Proof. apply ceil_aligned, P_pos. Qed.

  Lemma persist_footer_eq g json :
    persist_footer P g json
    = g ++ zeros (footer_pos P g - blen g) ++ footer_bytes (footer_pos P g) json.
  Proof.
    unfold persist_footer. apply write_at_append.
    - apply footer_bytes_nonnil.
    - apply footer_pos_ge.
  Qed.

  Lemma persist_footer_blen g json :
    blen (persist_footer P g json) = footer_pos P g + footer_len json.
  Proof.
    rewrite persist_footer_eq, !blen_app, zeros_blen, footer_bytes_blen.
    pose proof (footer_pos_ge g). lia.
  Qed.

  Lemma persist_footer_slice g json :
    slice (persist_footer P g json) (footer_pos P g) (footer_len json)
    = Some (footer_bytes (footer_pos P g) json).
  Proof.
    rewrite persist_footer_eq, app_assoc, <- footer_bytes_blen with (F := footer_pos P g).
    apply slice_end. rewrite blen_app, zeros_blen. pose proof (footer_pos_ge g). lia.
  Qed.

  Lemma persist_footer_prefix g json : exists c, persist_footer P g json = g ++ c.
  Proof. rewrite persist_footer_eq. eauto. Qed.

  Lemma build_snoc header rounds r :
    build P header (rounds ++ [r]) = add_round P (build P header rounds) r.
  Proof. unfold build. rewrite fold_left_app. reflexivity. Qed.

  (* ---- C05: the scan of a complete file finds the last footer ---- *)

  (* f = g ++ gap ++ footer(F, json): any aligned q above F that is not cut
     short and has no double magic is skipped *)
  Lemma skip_above f F q :
    no_fake_footer P f F F -> aligned P q -> F < q -> q + footerBegLen <= blen f ->
    scan_step f q = Continue /\ scan_step_repaired f q = Continue.
  Proof.
    intros Hnf Ha Hlt Hfit.
    assert (Hr : exists beg, read_at f q footerBegLen = Some beg).
    { rewrite read_at_slice by reflexivity. unfold slice.
      destruct (N.leb_spec (q + footerBegLen) (blen f)); [eauto|lia]. }
    destruct Hr as [beg Hr].
    apply (step_no_magic f q beg Hr).
    specialize (Hnf q Ha Hlt). unfold magic_at in Hnf. rewrite Hr in Hnf.
    apply Hnf. lia.
  Qed.

  Theorem C05_scan_finds_last header rounds d json :
    let g := build P header rounds ++ d in
    let f := build P header (rounds ++ [(d, json)]) in
    let F := footer_pos P g in
    0 < blen g ->
    footer_len json < 2 ^ 32 -> F < 2 ^ 64 ->
    no_fake_footer P f F F ->
    footerBegLen <= blen f - pageAlignFloor P (blen f - 1) ->
    read_footer P f = Found F json.
  Proof.
    intros g f F Hg HL HF Hnf Hlast.
    assert (Ef : f = persist_footer P g json).
    { unfold f. rewrite build_snoc. reflexivity. }
    assert (Hlen : blen f = F + footer_len json) by (rewrite Ef; apply persist_footer_blen).
    assert (Hsl : slice f F (footer_len json) = Some (footer_bytes F json))
      by (rewrite Ef; apply persist_footer_slice).
    pose proof (footer_len_ge json) as Hge. change (footerBegLen + footerEndLen) with 44 in Hge.
    pose proof (footer_pos_ge g) as HFg. fold F in HFg.
    unfold read_footer, scan_footer.
    apply (scan_with_reach scan_step f F (Found F json)).
    - apply footer_pos_aligned.
    - lia.
    - right. split; [lia|]. apply (step_at_footer f F json Hsl HF HL).
    - intros q Ha Hlt Hq.
      apply (skip_above f F q Hnf Ha Hlt).
      set (p0 := pageAlignFloor P (blen f - 1)) in *.
      assert (Hqp : q <= p0) by (apply floor_greatest; [apply P_pos|exact Ha|exact Hq]).
      destruct (N.eq_dec q p0) as [->|Hne]; [lia|].
      pose proof (aligned_gap P P_pos q p0 Ha (floor_aligned P P_pos _)) as Hgap.
      pose proof (floor_le P P_pos (blen f - 1)) as Hfl. fold p0 in Hfl. lia.
  Qed.

  (* single-page footers always satisfy the last-page condition *)
  Lemma single_page_last f F L :
    aligned P F -> blen f = F + L -> footerBegLen + footerEndLen <= L -> L <= P ->
    pageAlignFloor P (blen f - 1) = F.
  Proof.
    intros Ha Hlen Hge HLP. change (footerBegLen + footerEndLen) with 44 in Hge.
    pose proof (floor_le P P_pos (blen f - 1)) as Hfl.
    pose proof (floor_aligned P P_pos (blen f - 1)) as Hal.
    assert (Hlo : F <= pageAlignFloor P (blen f - 1))
      by (apply floor_greatest; [apply P_pos|exact Ha|lia]).
    destruct (N.eq_dec (pageAlignFloor P (blen f - 1)) F) as [E|Hne]; [exact E|].
    pose proof (aligned_gap P P_pos F _ Ha Hal). lia.
  Qed.

  Corollary C05_scan_finds_last_single_page header rounds d json :
    let g := build P header rounds ++ d in
    let f := build P header (rounds ++ [(d, json)]) in
    let F := footer_pos P g in
    0 < blen g ->
    footer_len json <= P -> footer_len json < 2 ^ 32 -> F < 2 ^ 64 ->
    no_fake_footer P f F F ->
    read_footer P f = Found F json.
  Proof.
    intros g f F Hg HLP HL HF Hnf.
    apply C05_scan_finds_last; trivial. fold g f F.
    assert (Hlen : blen f = F + footer_len json).
    { unfold f. rewrite build_snoc. apply persist_footer_blen. }
    pose proof (footer_len_ge json) as Hge.
    rewrite (single_page_last f F (footer_len json)); trivial.
    - change (footerBegLen + footerEndLen) with 44 in Hge. change footerBegLen with 20. lia.
    - apply footer_pos_aligned.
  Qed.

  (* ---- C05: torn last footer, repaired scan ---- *)

  (* skipping, in the truncated file, every aligned position above lo *)
  Lemma skip_torn f t lo F2 j2 q :
    no_fake_footer P f lo F2 ->
    slice f F2 (footer_len j2) = Some (footer_bytes F2 j2) ->
    footer_len j2 < 2 ^ 32 ->
    t < F2 + footer_len j2 -> t <= blen f ->
    aligned P q -> lo < q ->
    scan_step_repaired (take t f) q = Continue.
  Proof.
    intros Hnf Hsl HL Ht Htf Ha Hlt.
    destruct (read_at (take t f) q footerBegLen) as [beg|] eqn:Hr;
      [|apply step_repaired_short; exact Hr].
    assert (Hs' : slice (take t f) q footerBegLen = Some beg)
      by (apply read_at_some; [exact Hr|reflexivity]).
    pose proof (slice_take_some f t q footerBegLen beg Hs') as Hs.
    destruct (N.eq_dec q F2) as [->|Hne].
    - destruct (footer_reads f F2 j2 Hsl) as [R1 _].
      rewrite R1 in Hs. injection Hs as <-.
      apply (step_truncated (take t f) F2 (footer_len j2) Hr); trivial.
      + apply footer_len_ge.
      + rewrite blen_take by exact Htf. exact Ht.
    - apply (step_no_magic (take t f) q beg Hr).
      specialize (Hnf q Ha Hlt Hne). unfold magic_at in Hnf.
      rewrite read_at_slice, Hs in Hnf by reflexivity. exact Hnf.
  Qed.

  Theorem C05_scan_torn_repaired header rounds d1 j1 d2 j2 t :
    let g1 := build P header rounds ++ d1 in
    let F1 := footer_pos P g1 in
    let f1 := build P header (rounds ++ [(d1, j1)]) in
    let g2 := f1 ++ d2 in
    let F2 := footer_pos P g2 in
    let f := build P header ((rounds ++ [(d1, j1)]) ++ [(d2, j2)]) in
    0 < blen g1 ->
    footer_len j1 < 2 ^ 32 -> F1 < 2 ^ 64 -> footer_len j2 < 2 ^ 32 ->
    no_fake_footer P f F1 F2 ->
    F2 <= t -> t < F2 + footer_len j2 ->            (* cut anywhere inside the last footer *)
    read_footer_repaired P (take t f) = Found F1 j1.
  Proof.
    intros g1 F1 f1 g2 F2 f Hg HL1 HF1 HL2 Hnf Ht1 Ht2.
    assert (Ef1 : f1 = persist_footer P g1 j1) by (unfold f1; now rewrite build_snoc).
    assert (Ef : f = persist_footer P g2 j2) by (unfold f; now rewrite build_snoc).
    assert (Hlen1 : blen f1 = F1 + footer_len j1) by (rewrite Ef1; apply persist_footer_blen).
    assert (Hlen : blen f = F2 + footer_len j2) by (rewrite Ef; apply persist_footer_blen).
    assert (Hsl1 : slice f1 F1 (footer_len j1) = Some (footer_bytes F1 j1))
      by (rewrite Ef1; apply persist_footer_slice).
    assert (Hsl2 : slice f F2 (footer_len j2) = Some (footer_bytes F2 j2))
      by (rewrite Ef; apply persist_footer_slice).
    pose proof (footer_pos_ge g2) as HF2. fold F2 in HF2.
    assert (Hg2 : blen g2 = blen f1 + blen d2) by (unfold g2; apply blen_app).
    pose proof (footer_len_ge j1) as Hge1. change (footerBegLen + footerEndLen) with 44 in Hge1.
    assert (Hsl1' : slice (take t f) F1 (footer_len j1) = Some (footer_bytes F1 j1)).
    { rewrite slice_take_le by lia.
      destruct (persist_footer_prefix g2 j2) as [c Ec]. rewrite Ef, Ec.
      unfold g2. rewrite <- app_assoc. apply slice_app_l. exact Hsl1. }
    assert (Hbt : blen (take t f) = t) by (apply blen_take; lia).
    unfold read_footer_repaired, scan_footer_repaired. rewrite Hbt.
    apply (scan_with_reach scan_step_repaired (take t f) F1 (Found F1 j1)).
    - apply footer_pos_aligned.
    - lia.
    - right. split.
      + pose proof (footer_pos_ge g1). fold F1 in H. lia.
      + apply (step_at_footer (take t f) F1 j1 Hsl1' HF1 HL1).
    - intros q Ha Hlt _.
      apply (skip_torn f t F1 F2 j2 q); trivial. lia.
  Qed.

  (* no earlier footer: the repaired scan reports ErrNoValidFooter *)
  Theorem C05_scan_torn_repaired_first header d2 j2 t :
    let g2 := header ++ d2 in
    let F2 := footer_pos P g2 in
    let f := build P header [(d2, j2)] in
    footer_len j2 < 2 ^ 32 ->
    no_fake_footer P f 0 F2 ->
    F2 <= t -> t < F2 + footer_len j2 ->
    read_footer_repaired P (take t f) = NoValidFooter.
  Proof.
    intros g2 F2 f HL2 Hnf Ht1 Ht2.
    assert (Ef : f = persist_footer P g2 j2) by reflexivity.
    assert (Hlen : blen f = F2 + footer_len j2) by (rewrite Ef; apply persist_footer_blen).
    assert (Hsl2 : slice f F2 (footer_len j2) = Some (footer_bytes F2 j2))
      by (rewrite Ef; apply persist_footer_slice).
    unfold read_footer_repaired, scan_footer_repaired.
    apply (scan_with_reach scan_step_repaired (take t f) 0 NoValidFooter).
    - apply aligned_0, P_pos.
    - lia.
    - left. auto.
    - intros q Ha Hlt _.
      apply (skip_torn f t 0 F2 j2 q); trivial. lia.
  Qed.
  (* ---- C05 refuted, in general: the code as it stands turns EVERY cut
          strictly inside the last footer into an error ---- *)

  Lemma no_fake_take f t lo F :
    no_fake_footer P f lo F -> no_fake_footer P (take t f) lo F.
  Proof.
    intros Hnf q Ha Hlt Hne. specialize (Hnf q Ha Hlt Hne).
    unfold magic_at in *.
    destruct (read_at (take t f) q footerBegLen) as [beg|] eqn:Hr; [|reflexivity].
    apply read_at_some in Hr; [|reflexivity].
    apply slice_take_some in Hr.
    rewrite read_at_slice, Hr in Hnf by reflexivity. exact Hnf.
  Qed.

  Theorem C05_scan_torn_always_error header rounds d2 j2 t :
    let g2 := build P header rounds ++ d2 in
    let F2 := footer_pos P g2 in
    let f := build P header (rounds ++ [(d2, j2)]) in
    0 < blen g2 ->
    footer_len j2 < 2 ^ 32 ->
    no_fake_footer P f F2 F2 ->
    F2 < t -> t < F2 + footer_len j2 ->
    read_footer P (take t f) = ScanError.
  Proof.
    intros g2 F2 f Hg HL2 Hnf Ht1 Ht2.
    assert (Ef : f = persist_footer P g2 j2) by (unfold f; now rewrite build_snoc).
    assert (Hlen : blen f = F2 + footer_len j2) by (rewrite Ef; apply persist_footer_blen).
    assert (Hsl2 : slice f F2 (footer_len j2) = Some (footer_bytes F2 j2))
      by (rewrite Ef; apply persist_footer_slice).
    pose proof (footer_pos_ge g2) as HF2. fold F2 in HF2.
    pose proof (footer_pos_aligned g2) as HaF2. fold F2 in HaF2.
    assert (Hbt : blen (take t f) = t) by (apply blen_take; lia).
    unfold read_footer, scan_footer. rewrite Hbt.
    set (p0 := pageAlignFloor P (t - 1)).
    pose proof (floor_le P P_pos (t - 1)) as Hfl. fold p0 in Hfl.
    pose proof (floor_aligned P P_pos (t - 1)) as Hal. fold p0 in Hal.
    assert (Hp0 : F2 <= p0) by (apply floor_greatest; [apply P_pos|exact HaF2|lia]).
    destruct (N.le_gt_cases (p0 + footerBegLen) t) as [Hfit|Hshort].
    - (* the last page of the torn file has footerBegLen bytes: the scan walks
         down to F2, where the second ReadAt comes back short *)
      apply (scan_with_reach scan_step (take t f) F2 ScanError); trivial.
      + lia.
      + right. split; [lia|].
        apply (step_truncated (take t f) F2 (footer_len j2)).
        * rewrite read_at_slice by reflexivity.
          rewrite slice_take_le by lia.
          apply (footer_reads f F2 j2 Hsl2).
        * apply footer_len_ge.
        * exact HL2.
        * rewrite Hbt. exact Ht2.
      + intros q Ha Hlt Hq.
        apply (skip_above (take t f) F2 q (no_fake_take f t F2 F2 Hnf) Ha Hlt).
        rewrite Hbt.
        assert (Hqp : q <= p0) by (apply floor_greatest; [apply P_pos|exact Ha|exact Hq]).
        lia.
    - (* fewer than footerBegLen bytes in the last page: the very first ReadAt
         returns io.EOF *)
      apply (scan_with_reach scan_step (take t f) p0 ScanError); trivial.
      + right. split; [lia|].
        apply step_short. rewrite read_at_slice by reflexivity. unfold slice.
        rewrite Hbt. destruct (N.leb_spec (p0 + footerBegLen) t); [lia|reflexivity].
      + intros q Ha Hlt Hq.
        assert (Hqp : q <= p0) by (apply floor_greatest; [apply P_pos|exact Ha|exact Hq]).
        lia.
  Qed.
End Scan.

Print Assumptions scan_fuel_suffices.
Print Assumptions C05_scan_finds_last.
Print Assumptions C05_scan_finds_last_single_page.
Print Assumptions C05_scan_torn_repaired.
Print Assumptions C05_scan_torn_repaired_first.
Print Assumptions C05_scan_torn_always_error.

(* ------------------------------------------------------------------ *)
(* Concrete witnesses, page size 64 (P is a parameter exactly so that these
   compute).  Header page of '\n', two rounds.                          *)

Definition w_hdr : bytes := repeat 10 64.
Definition w_d1 : bytes := [1; 2; 3].
Definition w_j1 : bytes := [123; 49; 125].            (* {1} *)
Definition w_d2 : bytes := [4; 5].
Definition w_j2 : bytes := [123; 50; 50; 125].        (* {22} *)
Definition w_f1 : bytes := build 64 w_hdr [(w_d1, w_j1)].
Definition w_f : bytes := build 64 w_hdr [(w_d1, w_j1); (w_d2, w_j2)].

Lemma w_facts :
  footer_pos 64 (build 64 w_hdr [] ++ w_d1) = 128 /\
  footer_pos 64 (w_f1 ++ w_d2) = 192 /\
  blen w_f1 = 175 /\ blen w_f = 240 /\
  footer_len w_j1 = 47 /\ footer_len w_j2 = 48.
Proof. repeat split; vm_compute; reflexivity. Qed.

Lemma aligned64_above q lo : aligned 64 q -> lo < q -> exists k, q = k * 64 /\ lo < k * 64.
Proof.
  intros Ha Hlt. apply (aligned_iff 64) in Ha; [|reflexivity].
  destruct Ha as [k ->]. eauto.
Qed.

Lemma w_no_fake : no_fake_footer 64 w_f 128 192.
Proof.
  intros q Ha Hlt Hne. destruct (aligned64_above q 128 Ha Hlt) as (k & -> & Hk).
  unfold magic_at, read_at. change (footerBegLen =? 0) with false. cbv iota.
  unfold slice. replace (blen w_f) with 240 by (symmetry; apply w_facts).
  change footerBegLen with 20.
  destruct (N.leb_spec (k * 64 + 20) 240); [lia|reflexivity].
Qed.

(* the complete file is read correctly ... *)
Example w_complete_ok : read_footer 64 w_f = Found 192 w_j2.
Proof. vm_compute. reflexivity. Qed.

(* C05 refuted: there is a file and a cut strictly inside its last footer that
   satisfy every hypothesis of C05_scan_torn_repaired, for which the code as it
   stands returns an error although the previous footer (F1, j1) is intact —
   and is what the repaired scan returns. *)
Theorem C05_scan_torn_refuted :
  exists (P : N) header rounds d1 j1 d2 j2 t,
    let g1 := build P header rounds ++ d1 in
    let F1 := footer_pos P g1 in
    let f1 := build P header (rounds ++ [(d1, j1)]) in
    let g2 := f1 ++ d2 in
    let F2 := footer_pos P g2 in
    let f := build P header ((rounds ++ [(d1, j1)]) ++ [(d2, j2)]) in
    footerBegLen <= P /\ 0 < blen g1 /\
    footer_len j1 < 2 ^ 32 /\ F1 < 2 ^ 64 /\ footer_len j2 < 2 ^ 32 /\
    no_fake_footer P f F1 F2 /\
    F2 <= t /\ t < F2 + footer_len j2 /\
    read_footer P f1 = Found F1 j1 /\
    read_footer P (take t f) = ScanError /\
    read_footer_repaired P (take t f) = Found F1 j1.
Proof.
  exists 64, w_hdr, [], w_d1, w_j1, w_d2, w_j2, 222.
  cbv zeta. cbn [app].
  change (build 64 w_hdr [(w_d1, w_j1)]) with w_f1.
  change (build 64 w_hdr [(w_d1, w_j1); (w_d2, w_j2)]) with w_f.
  destruct w_facts as (E1 & E2 & E3 & E4 & E5 & E6).
  rewrite E1, E2, E5, E6.
  repeat split;
    first [ exact w_no_fake | vm_compute; reflexivity | vm_compute; discriminate ].
Qed.
Print Assumptions C05_scan_torn_refuted.

(* every cut inside the last footer of this file, byte by byte *)
Example w_torn_every_cut :
  forallb (fun t => match read_footer 64 (take t w_f), read_footer_repaired 64 (take t w_f) with
                    | ScanError, Found 128 j => beqb j w_j1
                    | _, _ => false
                    end)
          (map (fun i => 193 + N.of_nat i) (seq 0 47)) = true.
Proof. vm_compute. reflexivity. Qed.

(* short first read (io.EOF on the magic) and short second read *)
Example w_torn_short_head : read_footer 64 (take 197 w_f) = ScanError.
Proof. vm_compute. reflexivity. Qed.
Example w_torn_short_tail : read_footer 64 (take 239 w_f) = ScanError.
Proof. vm_compute. reflexivity. Qed.

(* An UNTORN file the code cannot read: a footer of 64 + 5 bytes.  Its last
   page holds 5 < footerBegLen bytes, so the first ReadAt returns io.EOF.  All
   hypotheses of C05_scan_finds_last hold except the last-page one. *)
Definition w_j3 : bytes := repeat 65 25.
Definition w_f3 : bytes := build 64 w_hdr [(w_d1, w_j1); (w_d2, w_j3)].

Theorem C05_scan_complete_refuted :
  footer_len w_j3 = 69 /\ blen w_f3 = 192 + 69 /\
  slice w_f3 192 69 = Some (footer_bytes 192 w_j3) /\
  read_footer 64 w_f3 = ScanError /\
  read_footer_repaired 64 w_f3 = Found 192 w_j3.
Proof. repeat split; vm_compute; reflexivity. Qed.
Print Assumptions C05_scan_complete_refuted.

(* the same for the first two writes of the NEXT round: a 16-byte kvs region
   (one entry) written after a complete file, footer not yet written *)
Example C05_scan_unfinished_round_refuted :
  let f := apply_delta w_f (persist_segment 64 (blen w_f) [([7], OSet [8])]) in
  blen f = 322 /\
  read_footer 64 f = ScanError /\ read_footer_repaired 64 f = Found 192 w_j2.
Proof. repeat split; vm_compute; reflexivity. Qed.

(* hostile length fields: run-time panics *)
Definition hostile (len : N) (tail : bytes) : bytes :=
  w_hdr ++ magicBeg ++ magicBeg ++ le_u32 4 ++ le_u32 len ++ tail.

Example panic_makeslice_negative : read_footer 64 (hostile 10 []) = ScanPanic.
Proof. vm_compute. reflexivity. Qed.
Example panic_slice_negative_low : read_footer 64 (hostile 25 [0; 0; 0; 0; 0]) = ScanPanic.
Proof. vm_compute. reflexivity. Qed.
Example panic_len_eq_beg : read_footer 64 (hostile 20 []) = ScanPanic.
Proof. vm_compute. reflexivity. Qed.
Example panic_content_negative :
  read_footer 64 (hostile 32 (magicEnd ++ magicEnd)) = ScanPanic.
Proof. vm_compute. reflexivity. Qed.
(* and a wrong version aborts instead of scanning on *)
Example error_version :
  read_footer 64 (w_f1 ++ zeros 17 ++ magicBeg ++ magicBeg ++ le_u32 3 ++ le_u32 44 ++ zeros 24)
  = ScanError.
Proof. vm_compute. reflexivity. Qed.

(* ------------------------------------------------------------------ *)
(* the real page size                                                  *)

Lemma StorePageSize_ok : footerBegLen <= StorePageSize.
Proof. vm_compute. discriminate. Qed.

Definition C05_scan_finds_last_4096 := C05_scan_finds_last StorePageSize StorePageSize_ok.
Definition C05_scan_finds_last_single_page_4096 :=
  C05_scan_finds_last_single_page StorePageSize StorePageSize_ok.
Definition C05_scan_torn_repaired_4096 := C05_scan_torn_repaired StorePageSize StorePageSize_ok.
Definition C05_scan_torn_repaired_first_4096 :=
  C05_scan_torn_repaired_first StorePageSize StorePageSize_ok.
Definition C05_scan_torn_always_error_4096 :=
  C05_scan_torn_always_error StorePageSize StorePageSize_ok.
Definition C19_segment_roundtrip_4096 f pos s :=
  C19_segment_roundtrip StorePageSize pos s f StorePageSize_pos.

(* ------------------------------------------------------------------ *)
(* Positive theorems for the REPAIRED scan (the implementation now behaves
   as scan_step_repaired).                                              *)

(* the repaired loop body either moves on or accepts a footer at that very
   position — it never errors or panics *)
Lemma step_repaired_dichotomy f q :
  scan_step_repaired f q = Continue \/
  exists j, scan_step_repaired f q = Done (Found q j).
Proof.
  unfold scan_step_repaired.
  repeat match goal with
         | |- context [match ?x with _ => _ end] => destruct x
         end; eauto.
Qed.

(* "no complete, self-consistent footer at an aligned offset above lo": the
   repaired body accepts nowhere above lo.  By the dichotomy this is the same
   as: scan_step_repaired f q is never Done (Found _ _) there.  It is weaker
   than no_fake_footer: a fake magicBeg magicBeg start that fails validation
   (bad version, impossible length, short data, bad end magics, offset or
   length mismatch) is allowed. *)
Definition no_accepted_footer (P : N) (f : bytes) (lo : N) : Prop :=
  forall q, aligned P q -> lo < q -> scan_step_repaired f q = Continue.

Lemma no_accepted_footer_iff P f lo :
  no_accepted_footer P f lo <->
  (forall q, aligned P q -> lo < q ->
     forall p j, scan_step_repaired f q <> Done (Found p j)).
Proof.
  split.
  - intros H q Ha Hlt p j E. rewrite (H q Ha Hlt) in E. discriminate.
  - intros H q Ha Hlt. destruct (step_repaired_dichotomy f q) as [E|[j E]]; [exact E|].
    exfalso. exact (H q Ha Hlt q j E).
Qed.

(* no double magic (or not even footerBegLen bytes) at q: the repaired body moves on *)
Lemma step_repaired_no_magic f q : magic_at f q = false -> scan_step_repaired f q = Continue.
Proof.
  unfold magic_at. intro H.
  destruct (read_at f q footerBegLen) as [beg|] eqn:Hr.
  - apply (step_no_magic f q beg Hr H).
  - apply step_repaired_short. exact Hr.
Qed.

Lemma no_fake_no_accepted P f lo : no_fake_footer P f lo lo -> no_accepted_footer P f lo.
Proof.
  intros Hnf q Ha Hlt. apply step_repaired_no_magic. apply Hnf; trivial. lia.
Qed.

Lemma take_app_ge (a c : bytes) t :
  blen a <= t -> take t (a ++ c) = a ++ take (t - blen a) c.
Proof.
  intro H. unfold take. rewrite firstn_app.
  rewrite firstn_all2 by (unfold blen in H; lia).
  do 2 f_equal. unfold blen. lia.
Qed.

Section Repaired.
  Variable P : N.
  Hypothesis HP : footerBegLen <= P.

  (* The general statement: ANY file that holds a complete footer (F1, j1) at a
     page-aligned F1 > 0 and in which the repaired body accepts nothing at an
     aligned offset above F1 — whatever else those later bytes are, however
     many there are — is read as (F1, j1). *)
  Theorem C05_repaired_general f' F1 j1 :
    aligned P F1 -> 0 < F1 ->
    slice f' F1 (footer_len j1) = Some (footer_bytes F1 j1) ->
    footer_len j1 < 2 ^ 32 -> F1 < 2 ^ 64 ->
    no_accepted_footer P f' F1 ->
    read_footer_repaired P f' = Found F1 j1.
  Proof.
    intros Ha Hpos Hsl HL HF Hna.
    assert (Hb : F1 + footer_len j1 <= blen f') by (apply slice_some in Hsl; tauto).
    pose proof (footer_len_ge j1) as Hge. change (footerBegLen + footerEndLen) with 44 in Hge.
    unfold read_footer_repaired, scan_footer_repaired.
    apply (scan_with_reach P HP scan_step_repaired f' F1 (Found F1 j1)); trivial.
    - lia.
    - right. split; [exact Hpos|]. apply (step_at_footer f' F1 j1 Hsl HF HL).
    - intros q Haq Hlt _. apply Hna; trivial.
  Qed.

  (* F43.  With the payload in the picture: ANY file that holds a complete footer (F1, j1)
     with a valid payload, and in which every candidate at an aligned offset above F1 is
     either not accepted by the framing checks or carries an INVALID payload (a torn
     multi-page footer whose first and last page made it to the disk), is read as (F1, j1). *)
  Definition no_valid_footer (valid : bytes -> bool) (f : bytes) (lo : N) : Prop :=
    forall q, aligned P q -> lo < q ->
      scan_step_repaired f q = Continue \/
      exists p j, scan_step_repaired f q = Done (Found p j) /\ valid j = false.

  Theorem C05_json_general valid f' F1 j1 :
    aligned P F1 -> 0 < F1 ->
    slice f' F1 (footer_len j1) = Some (footer_bytes F1 j1) ->
    footer_len j1 < 2 ^ 32 -> F1 < 2 ^ 64 ->
    valid j1 = true ->
    no_valid_footer valid f' F1 ->
    read_footer_json valid P f' = Found F1 j1.
  Proof.
    intros Ha Hpos Hsl HL HF Hv Hna.
    assert (Hb : F1 + footer_len j1 <= blen f') by (apply slice_some in Hsl; tauto).
    pose proof (footer_len_ge j1) as Hge. change (footerBegLen + footerEndLen) with 44 in Hge.
    unfold read_footer_json.
    apply (scan_with_reach P HP (scan_step_json valid) f' F1 (Found F1 j1)); trivial.
    - lia.
    - right. split; [exact Hpos|]. unfold scan_step_json.
      rewrite (proj2 (step_at_footer f' F1 j1 Hsl HF HL)), Hv. reflexivity.
    - intros q Haq Hlt _. unfold scan_step_json.
      destruct (Hna q Haq Hlt) as [E|(p & j & E & Hj)]; rewrite E; [reflexivity|].
      rewrite Hj. reflexivity.
  Qed.

  (* the pinned code on the same file: as soon as the newest accepted candidate has an
     invalid payload, the open fails although (F1, j1) is intact *)
  Theorem C05_json_pinned_refuted valid f' q p j :
    aligned P q -> 0 < q -> q <= blen f' - 1 ->
    scan_step_repaired f' q = Done (Found p j) -> valid j = false ->
    (forall q', aligned P q' -> q < q' -> q' <= blen f' - 1 ->
                scan_step_repaired f' q' = Continue) ->
    read_footer_json_pinned valid P f' = ScanError.
  Proof.
    intros Ha Hpos Hle E Hj Habove.
    unfold read_footer_json_pinned.
    apply (scan_with_reach P HP (scan_step_json_pinned valid) f' q ScanError).
    - exact Ha.
    - exact Hle.
    - right. split; [exact Hpos|]. unfold scan_step_json_pinned. rewrite E, Hj. reflexivity.
    - intros q' Haq Hlt Hle'. unfold scan_step_json_pinned. rewrite (Habove q' Haq Hlt Hle'). reflexivity.
  Qed.

  (* the last footer of a built file, as a slice of that file *)
  Lemma build_last_footer header rounds d1 j1 :
    let g1 := build P header rounds ++ d1 in
    let F1 := footer_pos P g1 in
    let f1 := build P header (rounds ++ [(d1, j1)]) in
    aligned P F1 /\ blen g1 <= F1 /\ blen f1 = F1 + footer_len j1 /\
    slice f1 F1 (footer_len j1) = Some (footer_bytes F1 j1).
  Proof.
    intros g1 F1 f1.
    assert (Ef1 : f1 = persist_footer P g1 j1) by (unfold f1; now rewrite build_snoc).
    repeat split.
    - apply footer_pos_aligned, HP.
    - apply footer_pos_ge, HP.
    - rewrite Ef1. apply persist_footer_blen, HP.
    - rewrite Ef1. apply persist_footer_slice, HP.
  Qed.

  (* 2/3. whatever is appended after a complete file f1 — a torn footer, partial
     segment data, a subset of the next round's pages, garbage — as long as the
     repaired body accepts nothing at an aligned offset above F1 *)
  Theorem C05_repaired_ignores_tail header rounds d1 j1 tail :
    let g1 := build P header rounds ++ d1 in
    let F1 := footer_pos P g1 in
    let f1 := build P header (rounds ++ [(d1, j1)]) in
    0 < blen g1 ->
    footer_len j1 < 2 ^ 32 -> F1 < 2 ^ 64 ->
    no_accepted_footer P (f1 ++ tail) F1 ->
    read_footer_repaired P (f1 ++ tail) = Found F1 j1.
  Proof.
    intros g1 F1 f1 Hg HL HF Hna.
    destruct (build_last_footer header rounds d1 j1) as (Ha & Hge & Hlen & Hsl).
    fold g1 F1 f1 in Ha, Hge, Hlen, Hsl.
    apply C05_repaired_general; trivial.
    - lia.
    - apply slice_app_l. exact Hsl.
  Qed.

  (* the same under the stronger, simpler hypothesis: no aligned offset above
     F1 in f1 ++ tail starts with magicBeg magicBeg *)
  Corollary C05_repaired_ignores_tail_no_fake header rounds d1 j1 tail :
    let g1 := build P header rounds ++ d1 in
    let F1 := footer_pos P g1 in
    let f1 := build P header (rounds ++ [(d1, j1)]) in
    0 < blen g1 ->
    footer_len j1 < 2 ^ 32 -> F1 < 2 ^ 64 ->
    no_fake_footer P (f1 ++ tail) F1 F1 ->
    read_footer_repaired P (f1 ++ tail) = Found F1 j1.
  Proof.
    intros g1 F1 f1 Hg HL HF Hnf.
    apply C05_repaired_ignores_tail; trivial.
    apply no_fake_no_accepted. exact Hnf.
  Qed.

  (* 1. a COMPLETE file: the repaired scan returns its last footer, with no
     condition on how many bytes the last page holds (multi-page footers
     included) *)
  Theorem C05_repaired_finds_last header rounds d json :
    let g := build P header rounds ++ d in
    let f := build P header (rounds ++ [(d, json)]) in
    let F := footer_pos P g in
    0 < blen g ->
    footer_len json < 2 ^ 32 -> F < 2 ^ 64 ->
    no_fake_footer P f F F ->
    read_footer_repaired P f = Found F json.
  Proof.
    intros g f F Hg HL HF Hnf.
    pose proof (C05_repaired_ignores_tail_no_fake header rounds d json []) as H.
    cbv zeta in H. rewrite app_nil_r in H. apply H; trivial.
  Qed.

  (* two-round setup: f1 complete, then d2, then the footer (F2, j2) *)

  (* every cut at or after the end of f1 and before the end of f — inside d2,
     inside the alignment gap, or inside the last footer — gives (F1, j1) *)
  Theorem C05_repaired_any_cut header rounds d1 j1 d2 j2 t :
    let g1 := build P header rounds ++ d1 in
    let F1 := footer_pos P g1 in
    let f1 := build P header (rounds ++ [(d1, j1)]) in
    let g2 := f1 ++ d2 in
    let F2 := footer_pos P g2 in
    let f := build P header ((rounds ++ [(d1, j1)]) ++ [(d2, j2)]) in
    0 < blen g1 ->
    footer_len j1 < 2 ^ 32 -> F1 < 2 ^ 64 -> footer_len j2 < 2 ^ 32 ->
    no_fake_footer P f F1 F2 ->
    blen f1 <= t -> t < F2 + footer_len j2 ->
    read_footer_repaired P (take t f) = Found F1 j1.
  Proof.
    intros g1 F1 f1 g2 F2 f Hg HL1 HF1 HL2 Hnf Ht1 Ht2.
    destruct (build_last_footer header rounds d1 j1) as (Ha1 & Hge1 & Hlen1 & Hsl1).
    fold g1 F1 f1 in Ha1, Hge1, Hlen1, Hsl1.
    destruct (build_last_footer header (rounds ++ [(d1, j1)]) d2 j2) as (Ha2 & Hge2 & Hlen & Hsl2).
    fold f1 g2 F2 f in Ha2, Hge2, Hlen, Hsl2.
    assert (Ef : f = persist_footer P g2 j2) by (unfold f; now rewrite build_snoc).
    apply C05_repaired_general; trivial.
    - lia.
    - rewrite slice_take_le by lia.
      destruct (persist_footer_prefix P HP g2 j2) as [c Ec]. rewrite Ef, Ec.
      unfold g2. rewrite <- app_assoc. apply slice_app_l. exact Hsl1.
    - intros q Haq Hlt.
      apply (skip_torn P f t F1 F2 j2 q); trivial. lia.
  Qed.

  (* the crash happened while d2 was being written, before any byte of the
     next footer: no assumption on j2 at all *)
  Theorem C05_repaired_cut_before_footer header rounds d1 j1 d2 j2 t :
    let g1 := build P header rounds ++ d1 in
    let F1 := footer_pos P g1 in
    let f1 := build P header (rounds ++ [(d1, j1)]) in
    let g2 := f1 ++ d2 in
    let F2 := footer_pos P g2 in
    let f := build P header ((rounds ++ [(d1, j1)]) ++ [(d2, j2)]) in
    0 < blen g1 ->
    footer_len j1 < 2 ^ 32 -> F1 < 2 ^ 64 ->
    no_fake_footer P f F1 F2 ->
    blen f1 <= t -> t <= F2 ->
    read_footer_repaired P (take t f) = Found F1 j1.
  Proof.
    intros g1 F1 f1 g2 F2 f Hg HL1 HF1 Hnf Ht1 Ht2.
    destruct (build_last_footer header rounds d1 j1) as (Ha1 & Hge1 & Hlen1 & Hsl1).
    fold g1 F1 f1 in Ha1, Hge1, Hlen1, Hsl1.
    assert (Ef : f = persist_footer P g2 j2) by (unfold f; now rewrite build_snoc).
    apply C05_repaired_general; trivial.
    - lia.
    - rewrite slice_take_le by lia.
      destruct (persist_footer_prefix P HP g2 j2) as [c Ec]. rewrite Ef, Ec.
      unfold g2. rewrite <- app_assoc. apply slice_app_l. exact Hsl1.
    - intros q Haq Hlt. apply step_repaired_no_magic.
      destruct (N.eq_dec q F2) as [->|Hne].
      + unfold magic_at. rewrite read_at_slice by reflexivity. unfold slice.
        pose proof (blen_take_le t f).
        destruct (N.leb_spec (F2 + footerBegLen) (blen (take t f))); [|reflexivity].
        change footerBegLen with 20 in *. lia.
      + apply (no_fake_take P f t F1 F2 Hnf q Haq Hlt Hne).
  Qed.
End Repaired.

Print Assumptions C05_repaired_general.
Print Assumptions C05_repaired_ignores_tail.
Print Assumptions C05_repaired_ignores_tail_no_fake.
Print Assumptions C05_repaired_finds_last.
Print Assumptions C05_repaired_any_cut.
Print Assumptions C05_repaired_cut_before_footer.

(* instances at the real page size (a concrete complete file that the
   unrepaired code rejects and the repaired scan reads is w_f3 in
   C05_scan_complete_refuted above) *)
Definition C05_repaired_finds_last_4096 := C05_repaired_finds_last StorePageSize StorePageSize_ok.
Definition C05_repaired_ignores_tail_4096 := C05_repaired_ignores_tail StorePageSize StorePageSize_ok.
Definition C05_repaired_any_cut_4096 := C05_repaired_any_cut StorePageSize StorePageSize_ok.
Definition C05_repaired_cut_before_footer_4096 :=
  C05_repaired_cut_before_footer StorePageSize StorePageSize_ok.
