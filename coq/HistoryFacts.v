From Coq Require Import List Arith Bool Lia.
From Moss Require Import Bytes BytesFacts Segment SegmentFacts Stack StackFacts Collection CollectionFacts Theorems History.

(* ---- the declarative reading of the check ------------------------------------ *)
Definition hist_ok (h : history) : Prop :=
  (forall s, In s (h_snaps h) -> forall v, In v (s_views s) -> exists p, view_prefix v = Some p) /\
  (forall s b, In s (h_snaps h) -> In b (h_batches h) ->
     exists p, prefix_of s (b_writer b) = Some p /\
               (b_end b < s_start s -> b_seq b <= p) /\ (s_end s < b_start b -> p < b_seq b)) /\
  (forall s1 s2, In s1 (h_snaps h) -> In s2 (h_snaps h) -> s_end s1 < s_start s2 ->
     forall w, w < Nat.max (length (s_views s1)) (length (s_views s2)) ->
       exists p1 p2, prefix_of s1 w = Some p1 /\ prefix_of s2 w = Some p2 /\ p1 <= p2).

Theorem check_hist_sound h : check_hist h = true -> hist_ok h.
Proof.
  unfold check_hist. rewrite !andb_true_iff, !forallb_forall. intros [[H1 H2] H3].
  repeat split.
  - intros s Hs v Hv. specialize (H1 s Hs). unfold snap_atomic in H1.
    rewrite forallb_forall in H1. specialize (H1 v Hv).
    destruct (view_prefix v); eauto. discriminate.
  - intros s b Hs Hb. specialize (H2 s Hs). unfold snap_realtime in H2.
    rewrite forallb_forall in H2. specialize (H2 b Hb).
    destruct (prefix_of s (b_writer b)) as [p|]; [|discriminate].
    exists p. apply andb_true_iff in H2. destruct H2 as [Ha Hb2]. repeat split; auto.
    + intros Hlt. apply Nat.ltb_lt in Hlt. rewrite Hlt in Ha. now apply Nat.leb_le.
    + intros Hlt. apply Nat.ltb_lt in Hlt. rewrite Hlt in Hb2. now apply Nat.ltb_lt.
  - intros s1 s2 Hs1 Hs2 Hlt w Hw. specialize (H3 s1 Hs1). rewrite forallb_forall in H3.
    specialize (H3 s2 Hs2). unfold snaps_monotone in H3.
    apply Nat.ltb_lt in Hlt. rewrite Hlt in H3. rewrite forallb_forall in H3.
    assert (Hin : In w (seq 0 (Nat.max (length (s_views s1)) (length (s_views s2))))) by (apply in_seq; lia).
    specialize (H3 w Hin).
    destruct (prefix_of s1 w) as [p1|]; [|discriminate].
    destruct (prefix_of s2 w) as [p2|]; [|discriminate].
    exists p1, p2. repeat split; auto. now apply Nat.leb_le.
Qed.

Theorem check_hist_complete h : hist_ok h -> check_hist h = true.
Proof.
  intros [H1 [H2 H3]]. unfold check_hist. rewrite !andb_true_iff, !forallb_forall. repeat split.
  - intros s Hs. unfold snap_atomic. apply forallb_forall. intros v Hv.
    destruct (H1 s Hs v Hv) as [p ->]. reflexivity.
  - intros s Hs. unfold snap_realtime. apply forallb_forall. intros b Hb.
    destruct (H2 s b Hs Hb) as [p [-> [Ha Hc]]]. apply andb_true_iff. split.
    + destruct (Nat.ltb (b_end b) (s_start s)) eqn:E; auto. apply Nat.ltb_lt in E. apply Nat.leb_le; auto.
    + destruct (Nat.ltb (s_end s) (b_start b)) eqn:E; auto. apply Nat.ltb_lt in E. apply Nat.ltb_lt; auto.
  - intros s1 Hs1. apply forallb_forall. intros s2 Hs2. unfold snaps_monotone.
    destruct (Nat.ltb (s_end s1) (s_start s2)) eqn:E; auto. apply Nat.ltb_lt in E.
    apply forallb_forall. intros w Hw. apply in_seq in Hw.
    destruct (H3 s1 s2 Hs1 Hs2 E w) as [p1 [p2 [-> [-> Hle]]]]; [lia|]. now apply Nat.leb_le.
Qed.

(* ---- the model: writers on disjoint key sets ---------------------------------- *)
Section WithMerge.
  Variable fm : bytes -> value -> bytes -> value.
  Notation ref_from := (ref_from fm).

  (* batches tagged with their writer; own k = the writer whose key set holds k *)
  Definition tagged := list (nat * segment).
  Variable own : bytes -> nat.
  Definition respects (h : tagged) : Prop :=
    forall w b, In (w, b) h -> forall k, In k (keys b) -> own k = w.

  Definition of_writer (w : nat) (h : tagged) : tagged := filter (fun p => Nat.eqb (fst p) w) h.

  (* restricted to a writer's keys, the reference over ANY interleaving is the
     reference over that writer's own batches alone *)
  Lemma ref_restrict m0 (h : tagged) k :
    respects h ->
    ref_from m0 (map snd h) k = ref_from m0 (map snd (of_writer (own k) h)) k.
  Proof.
    intros Hr. induction h as [|[w b] r IH] using rev_ind; [reflexivity|].
    assert (Hr' : respects r).
    { intros w' b' Hin. apply (Hr w' b'). apply in_or_app; auto. }
    unfold of_writer. rewrite filter_app, !map_app. simpl.
    destruct (Nat.eqb w (own k)) eqn:E; simpl.
    - rewrite !ref_from_snoc. fold (of_writer (own k) r). rewrite <- (IH Hr'). reflexivity.
    - rewrite app_nil_r. rewrite ref_from_snoc. fold (of_writer (own k) r). rewrite <- (IH Hr').
      destruct (Segment.find b k) eqn:F; auto.
      exfalso. apply find_some_key in F.
      assert (own k = w) by (apply (Hr w b); [apply in_or_app; right; simpl; auto|auto]).
      apply Nat.eqb_neq in E. congruence.
  Qed.

  (* the batches of one writer inside a prefix of the interleaving are a prefix
     of that writer's batches *)
  Lemma of_writer_firstn w (h : tagged) n :
    of_writer w (firstn n h) = firstn (length (of_writer w (firstn n h))) (of_writer w h).
  Proof.
    revert n. induction h as [|[w' b] r IH]; intros n; destruct n; simpl; auto.
    destruct (Nat.eqb w' w) eqn:E; simpl.
    - f_equal. apply IH.
    - apply IH.
  Qed.

  Lemma of_writer_firstn_mono w (h : tagged) n1 n2 :
    n1 <= n2 -> length (of_writer w (firstn n1 h)) <= length (of_writer w (firstn n2 h)).
  Proof.
    revert n1 n2. induction h as [|[w' b] r IH]; intros n1 n2 Hle; destruct n1, n2; simpl; try lia.
    destruct (Nat.eqb w' w); simpl; specialize (IH n1 n2); lia.
  Qed.

  (* C03 on the model: a snapshot taken after the first n batch steps of ANY
     interleaving shows, on writer w's keys, exactly the reference after a
     prefix of w's own batches; the prefix grows with n; a batch among the
     first n is included. *)
  Theorem snapshot_shows_writer_prefix m0 (h : tagged) n k :
    respects h ->
    exists p, p = length (of_writer (own k) (firstn n h)) /\
      ref_from m0 (map snd (firstn n h)) k
      = ref_from m0 (map snd (firstn p (of_writer (own k) h))) k.
  Proof.
    intros Hr. eexists. split; [reflexivity|].
    rewrite ref_restrict.
    - rewrite <- of_writer_firstn. reflexivity.
    - intros w b Hin. apply (Hr w b). eapply In_firstn_in; eauto.
  Qed.
  (* C03 on the collection model: whatever the interleaving of the writers'
     batches with merger, persister and compaction steps, a snapshot shows on
     writer w's keys exactly the reference of w's own batches executed so far *)
  Theorem snapshot_is_per_writer_prefix c l0 ls s (h : tagged) :
    run fm c (init l0) ls = Some s -> closed s = false ->
    batches ls = map snd h -> respects h ->
    forall k, snap_get fm (cur_snapshot s) k
              = ref_from (llv fm l0) (map snd (of_writer (own k) h)) k.
  Proof.
    intros Hr Hc Hb Hres k.
    rewrite (snapshot_reads_reference fm c l0 ls s Hr Hc k). rewrite Hb.
    apply ref_restrict. exact Hres.
  Qed.
End WithMerge.
