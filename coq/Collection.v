(* Collection.v — the in-memory collection as a labelled transition system
   (no child collections; those are in Tree.v).  One label = one critical
   section of collection.go / collection_merger.go / persister.go.
   Lists are newest first.  Executable definitions only. *)
From Moss Require Export Stack.

(* With CachePersisted the persisted base is kept as the clean section unless
   it holds Merge operands (as the pinned commit had it, every base was kept,
   and operands already folded into the lower level were applied twice —
   see C08_refuted_pre_fix in Refuted.v). *)
Record cfg := { cache_persisted : bool;      (* CollectionOptions.CachePersisted *)
                has_ll : bool }.             (* LowerLevelUpdate != nil *)

(* A lower-level snapshot is an immutable value: the persisted segment stack
   (store footer) or, for an application lower level, one Set-only segment. *)
Definition llsnap := list segment.

Inductive mpc := MIdle | MIngested (mbase : option (list segment)) (mll : llsnap) | MSwapped.
Inductive ppc := PIdle | PUpdating.

Record snapshot := { sn_segs : list segment; sn_ll : llsnap }.

Record cstate := {
  top : list segment;                 (* stackDirtyTop.a, nil ~ [] *)
  mid : option (list segment);        (* stackDirtyMid: nil vs. empty matters for hand-over *)
  base : option (list segment);       (* stackDirtyBase *)
  clean : list segment;               (* stackClean *)
  ll : llsnap;                        (* lowerLevelSnapshot *)
  merger : mpc;
  persister : ppc;
  cached : option snapshot;           (* latestSnapshot *)
  closed : bool
}.

Definition init (l : llsnap) : cstate :=
  {| top := []; mid := None; base := None; clean := []; ll := l;
     merger := MIdle; persister := PIdle; cached := None; closed := false |}.

Definition olist (o : option (list segment)) : list segment :=
  match o with Some l => l | None => [] end.

Inductive label :=
| LBatch (b : segment)            (* ExecuteBatch of a non-empty batch (unsorted ops, unique keys) *)
| LIngest                         (* merger: top -> mid, capture base *)
| LSwap (lvl : nat)               (* merger: swap in the merged mid; lvl = segments kept below *)
| LHandover                       (* merger: mid -> base if base is free *)
| LPBegin                         (* persister: picks up base, calls LowerLevelUpdate *)
| LPPublish (ll' : llsnap)        (* persister: LowerLevelUpdate succeeded with ll' *)
| LPFail                          (* persister: LowerLevelUpdate failed *)
| LSnap                           (* Collection.Snapshot (cache fill) *)
| LClose.

Section WithMerge.
  Variable fm : bytes -> value -> bytes -> value.
  Notation sget := (sget fm).

  Definition llv (l : llsnap) : bytes -> value := sget l no_below.

  (* what collection.snapshot() assembles *)
  Definition mk_snapshot (s : cstate) : snapshot :=
    {| sn_segs := top s ++ olist (mid s) ++ olist (base s) ++ clean s; sn_ll := ll s |}.

  Definition snap_get (sn : snapshot) (k : bytes) : value :=
    sget (sn_segs sn) (llv (sn_ll sn)) k.

  (* the snapshot Collection.Snapshot() hands out now *)
  Definition cur_snapshot (s : cstate) : snapshot :=
    match cached s with Some sn => sn | None => mk_snapshot s end.

  (* value equality incl. nil vs empty *)
  Definition value_eqb (a b : value) : bool :=
    match a, b with
    | None, None => true
    | Some x, Some y => beqb x y
    | _, _ => false
    end.

  (* legality of a LowerLevelUpdate result: the new lower level reads as the
     handed-down stack over the old lower level.  Decidable: only the keys
     occurring in either side matter. *)
  Definition publish_ok (bs : list segment) (l l' : llsnap) : bool :=
    forallb (fun k => value_eqb (llv l' k) (sget bs (llv l) k))
            (all_keys (l' ++ bs ++ l)).

  Definition step (c : cfg) (s : cstate) (lb : label) : option cstate :=
    if closed s then None else
    match lb with
    | LBatch b =>
        if uniq_keys (keys b) && negb (Nat.eqb (length b) 0) then
          Some {| top := sort_seg b :: top s; mid := mid s; base := base s; clean := clean s;
                  ll := ll s; merger := merger s; persister := persister s;
                  cached := None; closed := false |}
        else None
    | LIngest =>
        match merger s with
        | MIdle =>
            Some {| top := []; mid := Some (top s ++ olist (mid s)); base := base s;
                    clean := clean s; ll := ll s;
                    merger := MIngested (base s) (ll s); persister := persister s;
                    cached := None; closed := false |}
        | _ => None
        end
    | LSwap lvl =>
        match merger s with
        | MIngested mbase mll =>
            let m := olist (mid s) in
            let m' := match m with
                      | [] => m
                      | _ => if Nat.ltb lvl (length m)
                             then merge_stack fm lvl m (sget (olist mbase) (llv mll))
                             else m
                      end in
            if Nat.ltb lvl (length m) || Nat.eqb (length m) 0 then
              Some {| top := top s; mid := Some m'; base := base s; clean := clean s;
                      ll := ll s; merger := MSwapped; persister := persister s;
                      cached := match m with [] => cached s | _ => None end; closed := false |}
            else None
        | _ => None
        end
    | LHandover =>
        match merger s with
        | MSwapped =>
            match base s, mid s with
            | None, Some m =>
                if has_ll c then
                  Some {| top := top s; mid := None; base := Some m; clean := clean s;
                          ll := ll s; merger := MIdle; persister := persister s;
                          cached := cached s; closed := false |}
                else
                  Some {| top := top s; mid := mid s; base := base s; clean := clean s;
                          ll := ll s; merger := MIdle; persister := persister s;
                          cached := cached s; closed := false |}
            | _, _ =>
                Some {| top := top s; mid := mid s; base := base s; clean := clean s;
                        ll := ll s; merger := MIdle; persister := persister s;
                        cached := cached s; closed := false |}
            end
        | _ => None
        end
    | LPBegin =>
        match persister s, base s with
        | PIdle, Some _ =>
            if has_ll c then
              Some {| top := top s; mid := mid s; base := base s; clean := clean s;
                      ll := ll s; merger := merger s; persister := PUpdating;
                      cached := cached s; closed := false |}
            else None
        | _, _ => None
        end
    | LPPublish l' =>
        match persister s, base s with
        | PUpdating, Some b =>
            if publish_ok b (ll s) l' then
              Some {| top := top s; mid := mid s; base := None;
                      clean := if cache_persisted c && negb (existsb seg_has_merge b) then b else [];
                      ll := l'; merger := merger s; persister := PIdle;
                      cached := None; closed := false |}
            else None
        | _, _ => None
        end
    | LPFail =>
        match persister s with
        | PUpdating =>
            Some {| top := top s; mid := mid s; base := base s; clean := clean s;
                    ll := ll s; merger := merger s; persister := PIdle;
                    cached := cached s; closed := false |}
        | _ => None
        end
    | LSnap =>
        Some {| top := top s; mid := mid s; base := base s; clean := clean s;
                ll := ll s; merger := merger s; persister := persister s;
                cached := Some (cur_snapshot s); closed := false |}
    | LClose =>
        Some {| top := []; mid := None; base := None; clean := []; ll := ll s;
                merger := merger s; persister := persister s;
                cached := None; closed := true |}
    end.

  Fixpoint run (c : cfg) (s : cstate) (ls : list label) : option cstate :=
    match ls with
    | [] => Some s
    | l :: r => match step c s l with Some s' => run c s' r | None => None end
    end.

  (* the batches executed by a label sequence, oldest first *)
  Fixpoint batches (ls : list label) : list segment :=
    match ls with
    | [] => []
    | LBatch b :: r => b :: batches r
    | _ :: r => batches r
    end.

  (* --- the reference: an ordered map folded over the batch history ------ *)
  Definition ref_apply (m : bytes -> value) (b : segment) : bytes -> value :=
    fun k => match find b k with Some o => apply_op fm k (m k) o | None => m k end.
  Definition ref_from (m0 : bytes -> value) (h : list segment) : bytes -> value :=
    fold_left ref_apply h m0.
  Definition ref (h : list segment) : bytes -> value := ref_from no_below h.

  (* --- the read paths --------------------------------------------------- *)

  (* Collection.Get as the pinned commit had it: one lookup per section,
     chained on nil (kept for the refutation witness). *)
  Definition first_some (l : list value) : value :=
    fold_right (fun v acc => match v with Some _ => v | None => acc end) None l.
  Definition coll_get_sectionwise (s : cstate) (k : bytes) : value :=
    first_some [ sget (top s) no_below k; sget (olist (mid s)) no_below k;
                 sget (olist (base s)) no_below k; sget (clean s) no_below k;
                 llv (ll s) k ].
  (* Collection.Get after the repair: one lookup over the concatenated stack. *)
  Definition coll_get (s : cstate) (k : bytes) : value := snap_get (mk_snapshot s) k.

  (* dirty gauges of Stats() (ops, segments; bytes follow ops) *)
  Definition dirty_segments (s : cstate) : nat :=
    length (top s) + length (olist (mid s)) + length (olist (base s)).
  Definition dirty_ops (s : cstate) : nat :=
    length (concat (top s)) + length (concat (olist (mid s))) + length (concat (olist (base s))).
End WithMerge.
