(* Refs.v — reference-count events of the ref-counted objects (segment stacks,
   snapshot wrappers, footers, mappings, file refs) and the monitor applied to
   traces recorded from the implementation: counts move by one, nothing is
   touched after its count reached zero (use after release), and when every
   handle, the collection and the store are closed every object has been
   released (no leak).  Executable definitions only. *)
From Coq Require Export List ZArith Bool.
Export ListNotations.

Record rev := { r_obj : nat; r_after : Z }.       (* object id, count after the change *)

Definition rstate := list (nat * Z).              (* last known count per object *)

Fixpoint rlookup (o : nat) (st : rstate) : option Z :=
  match st with
  | [] => None
  | (o', c) :: r => if Nat.eqb o' o then Some c else rlookup o r
  end.

Fixpoint rset (o : nat) (c : Z) (st : rstate) : rstate :=
  match st with
  | [] => [(o, c)]
  | (o', c') :: r => if Nat.eqb o' o then (o, c) :: r else (o', c') :: rset o c r
  end.

Inductive rerr := EJump (o : nat) | EUseAfterRelease (o : nat).
Inductive rverdict := ROK | RJump (o : nat) | RUseAfterRelease (o : nat) | RLeak (o : nat).

(* one event: the first event of an object is accepted as it is (objects are
   created with a count of one, or zero for child footers loaded from disk) *)
Definition rstep (st : rstate) (e : rev) : rstate + rerr :=
  match rlookup (r_obj e) st with
  | None => inl (rset (r_obj e) (r_after e) st)
  | Some c =>
      if Z.leb c 0 then inr (EUseAfterRelease (r_obj e))
      else if Z.eqb (r_after e) (c + 1) || Z.eqb (r_after e) (c - 1)
           then inl (rset (r_obj e) (r_after e) st)
           else inr (EJump (r_obj e))
  end.

Fixpoint rrun (st : rstate) (tr : list rev) : rstate + rerr :=
  match tr with
  | [] => inl st
  | e :: r => match rstep st e with
              | inl st' => rrun st' r
              | inr v => inr v
              end
  end.

Definition first_leak (st : rstate) : rverdict :=
  match find (fun p => Z.ltb 0 (snd p)) st with
  | Some p => RLeak (fst p)
  | None => ROK
  end.

(* all_closed: the trace ends with everything closed *)
Definition refs_check (all_closed : bool) (tr : list rev) : rverdict :=
  match rrun [] tr with
  | inr (EJump o) => RJump o
  | inr (EUseAfterRelease o) => RUseAfterRelease o
  | inl st => if all_closed then first_leak st else ROK
  end.
