(* IteratorInclFacts.v — the moss iterator model (Iterator.v) with
   IteratorOptions.IncludeDeletions = true against the specifications of
   IteratorIncl.v.

   Main results (Section Incl, for an arbitrary merge operator fm, any cfg with
   cfg_ok cfg and c_incl cfg = true, any naive-seek budget c_tries):
   - C09i_start / C09i_next / C09i_current / C09i_current_ex / C09i_done_sticky:
     start state, Next, Current, CurrentEx are as specified over raw_spec;
   - C09i_seek: SeekTo is seek_naive (exactly what moss does);
   - C09i_seek_natural: SeekTo is the natural seek unless it walks forward
     from a live entry onto a deletion (fwd_onto_del);
   - C09i_program_naive: run_model = run_spec_incl_naive for every program;
   - C09i_program_partial: run_model = run_spec_incl (natural) on tame programs;
   - C09i_program_refuted / C09i_seek_refuted: the natural specification is
     false of the model (and of moss) in general. *)
From Coq Require Import List NArith Bool Lia Arith.
From Moss Require Import Bytes BytesFacts Segment SegmentFacts Stack StackFacts
     Iterator IteratorFacts IteratorIncl.

(* ====================================================================== *)
(* A. walk / seek_list on plain lists                                      *)

Section ListFacts.
  Context {A : Type}.
  Variable isdel : A -> bool.

  Lemma walk_fuel_irrel : forall n m x (l : list (bytes * A)),
    length l < n -> length l < m -> walk isdel n x l = walk isdel m x l.
  Proof.
    induction n as [|n IH]; intros m x l Hn Hm; [lia|].
    destruct m as [|m]; [lia|].
    destruct l as [|[k a] t]; cbn [walk]; auto.
    destruct (negb (isdel a) && bleb x k); auto.
    destruct t as [|e t']; auto. apply IH; cbn [length] in *; lia.
  Qed.

  Lemma walk_res : forall n x (l : list (bytes * A)),
    match snd (walk isdel n x l) with
    | NOk => fst (walk isdel n x l) <> []
    | NDone => fst (walk isdel n x l) = []
    | NMax => True
    end.
  Proof.
    induction n as [|n IH]; intros x l; cbn [walk]; [exact I|].
    destruct l as [|[k a] t]; [reflexivity|].
    destruct (negb (isdel a) && bleb x k); [cbn [fst snd]; discriminate|].
    destruct t as [|e t']; [reflexivity|]. apply IH.
  Qed.

  (* when the first entry at or after x is not a deletion the walk, if it
     finishes, is the natural seek *)
  Lemma walk_natural : forall n x (l : list (bytes * A)),
    hd_isdel isdel (drop_lt x l) = false ->
    match snd (walk isdel n x l) with
    | NMax => True
    | _ => fst (walk isdel n x l) = drop_lt x l
    end.
  Proof.
    induction n as [|n IH]; intros x l Hd; cbn [walk]; [exact I|].
    destruct l as [|[k a] t]; [reflexivity|].
    cbn [drop_lt fst] in Hd |- *.
    destruct (bleb x k) eqn:E.
    - assert (El : bltb k x = false) by (now apply bltb_false).
      rewrite El in Hd |- *. cbn [hd_isdel] in Hd. rewrite Hd. reflexivity.
    - assert (El : bltb k x = true) by (now apply bleb_false).
      rewrite El in Hd |- *. rewrite andb_false_r.
      destruct t as [|e t']; [reflexivity|]. now apply IH.
  Qed.


  (* a walk that does not give up stops at the first live entry at or after x *)
  Lemma walk_first_live : forall n x (l : list (bytes * A)),
    snd (walk isdel n x l) <> NMax -> fst (walk isdel n x l) = first_live_ge isdel x l.
  Proof.
    induction n as [|n IH]; intros x l; cbn [walk]; [cbn [snd]; congruence|].
    destruct l as [|[k a] t]; [reflexivity|]. cbn [first_live_ge].
    destruct (negb (isdel a) && bleb x k); [reflexivity|].
    destruct t as [|e t']; [reflexivity|]. apply IH.
  Qed.

  (* with a budget of at least the number of entries left it never gives up *)
  Lemma walk_enough : forall n x (l : list (bytes * A)),
    0 < n -> length l <= n -> snd (walk isdel n x l) <> NMax.
  Proof.
    induction n as [|n IH]; intros x l Hn Hl; [lia|]. cbn [walk].
    destruct l as [|[k a] t]; [cbn [snd]; discriminate|].
    destruct (negb (isdel a) && bleb x k); [cbn [snd]; discriminate|].
    destruct t as [|e t']; [cbn [snd]; discriminate|].
    apply IH; cbn [length] in *; lia.
  Qed.

  Lemma first_live_all_ge x (l : list (bytes * A)) :
    (forall e, In e l -> bleb x (fst e) = true) -> first_live_ge isdel x l = skip_dels isdel l.
  Proof.
    induction l as [|[k a] t IH]; intros H; auto. cbn [first_live_ge skip_dels].
    pose proof (H (k, a) (or_introl eq_refl)) as Hk. cbn [fst] in Hk. rewrite Hk, andb_true_r.
    destruct (isdel a); cbn [negb]; auto. apply IH. intros e He. apply H. now right.
  Qed.

  (* on an ascending list: the natural seek, then skip the leading deletions *)
  Lemma first_live_sorted x (l : list (bytes * A)) : asc (map fst l) ->
    first_live_ge isdel x l = skip_dels isdel (drop_lt x l).
  Proof.
    induction l as [|[k a] t IH]; intros Ha; auto.
    cbn [drop_lt fst]. destruct (bltb k x) eqn:E.
    - cbn [first_live_ge]. assert (bleb x k = false) as -> by (now apply bleb_false).
      rewrite andb_false_r. apply IH. cbn [map] in Ha. eapply asc_tail; eauto.
    - apply first_live_all_ge. intros e He. apply bltb_false in E.
      eapply bleb_trans; [exact E|]. apply (sorted_head_le (k, a) t e Ha He).
  Qed.

  Lemma drop_lt_suffix (pre : list (bytes * A)) e t x :
    asc (map fst (pre ++ e :: t)) -> bleb (fst e) x = true ->
    drop_lt x (pre ++ e :: t) = drop_lt x (e :: t).
  Proof.
    induction pre as [|a pre IH]; intros Ha He; auto.
    change ((a :: pre) ++ e :: t) with (a :: (pre ++ e :: t)) in *.
    cbn [map] in Ha. cbn [drop_lt].
    assert (Hlt : bltb (fst a) x = true).
    { eapply bltb_bleb_trans; [|exact He]. apply blt_bltb.
      eapply asc_head_lt; [exact Ha|]. rewrite map_app. apply in_or_app. right. simpl; auto. }
    rewrite Hlt. apply IH; auto. eapply asc_tail; eauto.
  Qed.

  Lemma drop_lt_self (k : bytes) (a : A) t : drop_lt k ((k, a) :: t) = (k, a) :: t.
  Proof. cbn [drop_lt fst]. now rewrite bltb_irrefl. Qed.


  Lemma seek_list_forward start tries (full : list (bytes * A)) x k a t :
    isdel a = false -> bcmp x k = Gt ->
    seek_list isdel start tries full x ((k, a) :: t)
    = match walk isdel (walk_fuel tries ((k, a) :: t)) x ((k, a) :: t) with
      | (_, NMax) => drop_lt (seek_bound start x) full
      | (l', _) => l'
      end.
  Proof. intros H1 H2. unfold seek_list. cbv zeta. now rewrite H1, H2. Qed.

  Lemma seek_list_natural start tries (full : list (bytes * A)) x l pre :
    asc (map fst full) -> full = pre ++ l ->
    (forall e, In e full -> bleb (lo_key start) (fst e) = true) ->
    fwd_onto_del isdel x l = false ->
    seek_list isdel start tries full x l = drop_lt (seek_bound start x) full.
  Proof.
    intros Ha Hf Hlo Hfw. unfold seek_list. cbv zeta.
    destruct l as [|[k a] t]; [reflexivity|].
    destruct (isdel a) eqn:Ed; [reflexivity|].
    assert (Hk : bleb (lo_key start) k = true).
    { apply (Hlo (k, a)). rewrite Hf. apply in_or_app. right. simpl; auto. }
    destruct (bcmp x k) eqn:Ec; [| reflexivity |].
    - apply bcmp_eq in Ec. subst x. rewrite (seek_bound_id _ _ Hk). rewrite Hf.
      rewrite drop_lt_suffix; [now rewrite drop_lt_self| rewrite <- Hf; exact Ha | apply bleb_refl].
    - assert (Hlt : bltb k x = true) by (apply bltb_true; now apply bcmp_gt_lt).
      assert (Hkx : bleb k x = true) by (now apply bltb_bleb).
      assert (Hsb : seek_bound start x = x).
      { apply seek_bound_id. eapply bleb_trans; eauto. }
      cbn [fwd_onto_del] in Hfw. rewrite Ed, Hlt in Hfw. cbn [negb andb] in Hfw.
      pose proof (walk_natural (walk_fuel tries ((k, a) :: t)) x ((k, a) :: t) Hfw) as Hw.
      assert (Hd : drop_lt x ((k, a) :: t) = drop_lt x full).
      { rewrite Hf. symmetry. apply drop_lt_suffix; [rewrite <- Hf; exact Ha|exact Hkx]. }
      destruct (walk isdel (walk_fuel tries ((k, a) :: t)) x ((k, a) :: t)) as [l' r].
      cbn [fst snd] in Hw. rewrite Hsb.
      destruct r; [rewrite Hw; exact Hd | rewrite Hw; exact Hd | reflexivity].
  Qed.
End ListFacts.

Section MapFacts.
  Context {A B : Type}.
  Variable g : bytes * A -> bytes * B.
  Variable dA : A -> bool.
  Variable dB : B -> bool.
  Variable g_fst : forall e, fst (g e) = fst e.
  Variable g_del : forall e, dB (snd (g e)) = dA (snd e).

  Lemma drop_lt_map x l : drop_lt x (map g l) = map g (drop_lt x l).
  Proof.
    induction l as [|e l IH]; auto. cbn [map drop_lt]. rewrite g_fst.
    destruct (bltb (fst e) x); auto.
  Qed.

  Lemma walk_map : forall n x l,
    walk dB n x (map g l) = (map g (fst (walk dA n x l)), snd (walk dA n x l)).
  Proof.
    induction n as [|n IH]; intros x l; [reflexivity|].
    destruct l as [|[k a] t]; [reflexivity|].
    cbn [map].
    pose proof (g_fst (k, a)) as E1. pose proof (g_del (k, a)) as E2.
    destruct (g (k, a)) as [k' b] eqn:Eg. cbn [fst snd] in E1, E2. subst k'.
    cbn [walk]. rewrite E2.
    destruct (negb (dA a) && bleb x k).
    - cbn [fst snd map]. now rewrite Eg.
    - destruct t as [|p t']; [reflexivity|].
      change (map g (p :: t')) with (g p :: map g t').
      cbv iota. change (g p :: map g t') with (map g (p :: t')). apply IH.
  Qed.

  Lemma hd_isdel_map l : hd_isdel dB (map g l) = hd_isdel dA l.
  Proof.
    destruct l as [|[k a] t]; auto. cbn [map].
    pose proof (g_del (k, a)) as E2. destruct (g (k, a)) as [k' b]. exact E2.
  Qed.

  Lemma fwd_onto_del_map x l : fwd_onto_del dB x (map g l) = fwd_onto_del dA x l.
  Proof.
    destruct l as [|[k a] t]; auto.
    pose proof (hd_isdel_map (drop_lt x ((k, a) :: t))) as Hh.
    rewrite <- drop_lt_map in Hh. cbn [map] in Hh |- *.
    pose proof (g_fst (k, a)) as E1. pose proof (g_del (k, a)) as E2.
    destruct (g (k, a)) as [k' b] eqn:Eg. cbn [fst snd] in E1, E2. subst k'.
    cbn [fwd_onto_del]. now rewrite E2, Hh.
  Qed.

  Lemma seek_list_map start tries full x l :
    map g (seek_list dA start tries full x l)
    = seek_list dB start tries (map g full) x (map g l).
  Proof.
    unfold seek_list. cbv zeta. rewrite drop_lt_map.
    destruct l as [|[k a] t]; [reflexivity|].
    assert (Hfuel : walk_fuel tries (map g ((k, a) :: t)) = walk_fuel tries ((k, a) :: t)).
    { unfold walk_fuel. now rewrite map_length. }
    pose proof (walk_map (walk_fuel tries ((k, a) :: t)) x ((k, a) :: t)) as Hw.
    rewrite <- Hfuel in Hw at 1.
    cbn [map] in Hw |- *.
    pose proof (g_fst (k, a)) as E1. pose proof (g_del (k, a)) as E2.
    destruct (g (k, a)) as [k' b] eqn:Eg. cbn [fst snd] in E1, E2. subst k'.
    rewrite E2. destruct (dA a); [reflexivity|].
    destruct (bcmp x k); [cbn [map]; now rewrite Eg | reflexivity |].
    rewrite Hw.
    destruct (walk dA (walk_fuel tries ((k, a) :: t)) x ((k, a) :: t)) as [l' r].
    cbn [fst snd]. destruct r; reflexivity.
  Qed.
End MapFacts.


Lemma drop_lt_in {A} x (l : list (bytes * A)) e : In e (drop_lt x l) -> In e l.
Proof.
  induction l as [|a l IH]; auto. cbn [drop_lt].
  destruct (bltb (fst a) x); auto. intros H. right. auto.
Qed.

Lemma drop_lt_split {A} x (l : list (bytes * A)) : exists pre, l = pre ++ drop_lt x l.
Proof.
  induction l as [|a l [pre IH]]; [exists []; reflexivity|]. cbn [drop_lt].
  destruct (bltb (fst a) x).
  - exists (a :: pre). cbn [app]. now f_equal.
  - exists []. reflexivity.
Qed.

Lemma fwd_onto_del_nodel x (l : list (bytes * op)) :
  (forall e, In e l -> is_del (snd e) = false) -> fwd_onto_del is_del x l = false.
Proof.
  intros H. destruct l as [|[k o] t]; auto. cbn [fwd_onto_del].
  assert (G : hd_isdel is_del (drop_lt x ((k, o) :: t)) = false).
  { destruct (drop_lt x ((k, o) :: t)) as [|[k' o'] t'] eqn:E; auto. cbn [hd_isdel].
    apply (H (k', o')). apply (drop_lt_in x). rewrite E. simpl; auto. }
  rewrite G. apply andb_false_r.
Qed.

(* naiveSeekTo against the walk, for any implementation of the iterator *)
Lemma naive_seek_walk {S : Type} (rawS : S -> segment) (inv : S -> Prop)
      (curkey : S -> option (option bytes)) (next : S -> S * bool) :
  (forall s, inv s ->
     curkey s = match rawS s with [] => None | e :: _ => Some (entry_key e) end) ->
  (forall s, inv s -> inv (fst (next s)) /\ rawS (fst (next s)) = tl (rawS s) /\
                      snd (next s) = nonempty (rawS (fst (next s)))) ->
  forall x, bleb x [] = false ->
  forall n s, inv s ->
    inv (fst (naive_seek curkey next n x s)) /\
    rawS (fst (naive_seek curkey next n x s)) = fst (walk is_del n x (rawS s)) /\
    snd (naive_seek curkey next n x s) = snd (walk is_del n x (rawS s)).
Proof.
  intros Hcur Hnext x Hx. induction n as [|n IH]; intros s Hs; [cbn; auto|].
  cbn [naive_seek walk]. rewrite (Hcur s Hs).
  destruct (rawS s) as [|[k o] t] eqn:Er.
  - cbn [fst snd]. rewrite Er. auto.
  - assert (Hc : bleb x (match entry_key (k, o) with Some k0 => k0 | None => [] end)
                 = negb (is_del o) && bleb x k).
    { destruct o; cbn [entry_key is_del negb andb]; auto. }
    rewrite Hc. destruct (negb (is_del o) && bleb x k).
    + cbn [fst snd]. rewrite Er. auto.
    + destruct (Hnext s Hs) as [N1 [N2 N3]]. rewrite Er in N2. cbn [tl] in N2.
      destruct (next s) as [s' ok]. cbn [fst snd] in N1, N2, N3. rewrite N2 in N3.
      destruct t as [|e t'].
      * cbn [nonempty] in N3. subst ok. cbn [fst snd]. auto.
      * cbn [nonempty] in N3. subst ok. rewrite <- N2. apply IH. exact N1.
Qed.

Lemma bleb_nil_false k x : bltb k x = true -> bleb x [] = false.
Proof.
  intros H. destruct (bleb x []) eqn:E; auto.
  pose proof (bleb_antisym _ _ E (bleb_nil x)) as ->.
  pose proof (bltb_bleb_trans _ _ _ H (bleb_nil k)) as G. rewrite bltb_irrefl in G. discriminate.
Qed.

Lemma vis_true (s : segment) : vis true s = s.
Proof. apply filter_all. reflexivity. Qed.

Lemma map_pointwise {X Y} (f g : X -> Y) l : map f l = map g l -> forall a, In a l -> f a = g a.
Proof.
  induction l as [|b l IH]; intros H a Hin; [destruct Hin|].
  cbn [map] in H. injection H as H1 H2. destruct Hin as [<-|Hin]; auto.
Qed.

Lemma slice_nil lo hi : slice lo hi [] = [].
Proof. destruct hi; reflexivity. Qed.

Lemma filter_kf_sub (P R : bytes -> bool) (s : segment) :
  (forall k, P k = true -> R k = true) ->
  filter (kf P) (filter (kf R) s) = filter (kf P) s.
Proof.
  intros H. rewrite filter_filter. apply filter_ext. intros e. unfold kf.
  destruct (P (fst e)) eqn:E; [now rewrite (H _ E)|now rewrite andb_false_r].
Qed.

(* ====================================================================== *)
(* B. the iterator with IncludeDeletions                                   *)

Section Incl.
  Variable fm : bytes -> value -> bytes -> value.

  Lemma raw_range_asc cfg : asc (keys (raw_range cfg)).
  Proof. unfold raw_range. apply asc_keys_filter, view_asc. Qed.

  Lemma raw_range_in_range cfg e : In e (raw_range cfg) -> rng cfg (fst e) = true.
  Proof. unfold raw_range. intros H. apply filter_In in H. tauto. Qed.

  Lemma raw_range_lo cfg e : In e (raw_range cfg) -> bleb (lo_key (c_start cfg)) (fst e) = true.
  Proof.
    intros H. apply raw_range_in_range in H. unfold rng, in_range in H.
    apply andb_true_iff in H. tauto.
  Qed.

  Lemma raw_range_drop cfg x' : bleb (lo_key (c_start cfg)) x' = true ->
    filter (kf (in_range (Some x') (c_end cfg))) (view (all_segs cfg)) = drop_lt x' (raw_range cfg).
  Proof.
    intros Hx. rewrite (drop_lt_filter x' (raw_range cfg) (raw_range_asc cfg)).
    unfold raw_range. rewrite filter_filter. apply filter_ext. intros e. unfold kf.
    now apply in_range_some_split.
  Qed.

  (* all entries of the range have the value a single segment alone gives them *)
  Definition flat_ok (cfg : config) : Prop :=
    forall e, In e (raw_range cfg) -> full_get fm cfg (fst e) = apply_op fm (fst e) None (snd e).

  Definition seek_safeI (st : iter_state) : Prop :=
    match st_impl st with
    | IHeap _ => True
    | ISingle c _ => filter (kf (rng (st_cfg st))) (sc_seg c) = raw_range (st_cfg st) /\ flat_ok (st_cfg st)
    | ILower all rest => all = raw_range (st_cfg st) /\ flat_ok (st_cfg st) /\
                         exists pre, all = pre ++ rest
    end.

  (* reachable states *)
  Definition wfI (st : iter_state) : Prop :=
    wf_pre_fix st /\ seek_safeI st /\ c_incl (st_cfg st) = true.

  (* entries left *)
  Definition absI (st : iter_state) : list ientry := map (dec fm (st_cfg st)) (raw st).

  Lemma dec_fst cfg e : fst (dec fm cfg e) = fst e.
  Proof. reflexivity. Qed.

  Lemma dec_del cfg e : idel (snd (dec fm cfg e)) = is_del (snd e).
  Proof. reflexivity. Qed.

  (* ------------------------------------------------------------------ *)
  (* the entries left are a suffix of the range *)

  Lemma raw_suffix st : wfI st -> exists pre, raw_range (st_cfg st) = pre ++ raw st.
  Proof.
    intros [[Hc [Hp Hw]] [Hs Hi]]. unfold raw, seek_safeI in *.
    destruct (st_impl st) as [rem|c cur|all rest]; cbn [wf_impl raw_impl] in *.
    - destruct Hw as [P [HP [Hu _]]]. rewrite Hi, vis_true.
      assert (E : view rem = filter (kf P) (raw_range (st_cfg st))).
      { rewrite HP, view_filter. unfold raw_range. symmetry.
        apply (filter_kf_sub P (rng (st_cfg st))). apply Hu. }
      rewrite E. apply (upclosed_suffix (rng (st_cfg st)) P); auto.
      + apply raw_range_asc.
      + apply raw_range_in_range.
    - destruct Hw as [_ [_ [_ [_ [P [Hu HP]]]]]]. destruct Hs as [Hs _]. rewrite Hi, vis_true.
      assert (E : sc_rest c = filter (kf P) (raw_range (st_cfg st))).
      { rewrite HP, <- Hs. symmetry. apply filter_kf_sub. apply Hu. }
      rewrite E. apply (upclosed_suffix (rng (st_cfg st)) P); auto.
      + apply raw_range_asc.
      + apply raw_range_in_range.
    - destruct Hs as [Hs [_ Hpre]]. now rewrite <- Hs.
  Qed.

  (* ------------------------------------------------------------------ *)
  (* start *)

  Lemma heap_start_incl cfg lo : c_incl cfg = true ->
    heap_start cfg lo = map (slice lo (c_end cfg)) (all_segs cfg).
  Proof. intros Hi. unfold heap_start. now rewrite Hi. Qed.

  Theorem C09i_wf_start cfg : cfg_ok cfg -> c_incl cfg = true -> wfI (iter_start cfg).
  Proof.
    intros Hc Hi. destruct (C09_wf_start fm cfg Hc) as [Hw _].
    split; [exact Hw|]. split; [|exact Hi].
    unfold seek_safeI, iter_start, optimize. cbn [st_impl st_cfg].
    destruct (Nat.eqb (num_cursors_at_start cfg (c_start cfg)) 1) eqn:En; [|exact I].
    unfold optimize_pre_fix. rewrite (heap_start_incl cfg (c_start cfg) Hi).
    destruct (only_cursor (map (slice (c_start cfg) (c_end cfg)) (all_segs cfg))) as [i|] eqn:Eo;
      [|exact I].
    set (rem0 := map (slice (c_start cfg) (c_end cfg)) (all_segs cfg)) in *.
    assert (Hrem : rem0 = map (filter (kf (rng cfg))) (all_segs cfg)) by (apply slices_filter; auto).
    assert (Ha : all_asc rem0) by (rewrite Hrem; now apply all_asc_filter).
    pose proof (view_only rem0 i Ha Eo) as Hv.
    assert (Hvr : view rem0 = raw_range cfg).
    { rewrite Hrem, view_filter. reflexivity. }
    assert (Hn : nth i rem0 [] = filter (kf (rng cfg)) (nth i (all_segs cfg) [])).
    { rewrite Hrem. apply (map_nth (filter (kf (rng cfg))) (all_segs cfg) [] i). }
    assert (Hflat : flat_ok cfg).
    { pose proof (only_abs fm cfg (rng cfg) rem0 i true Hc Hrem Eo) as Habs.
      rewrite !vis_true, <- Hv, Hvr in Habs.
      intros e He. pose proof (map_pointwise _ _ _ Habs e He) as G.
      unfold valf, eval0 in G. now injection G. }
    destruct (i <? length (c_segs cfg)) eqn:Ei; cbn [st_impl sc_seg seg_cursor].
    - apply Nat.ltb_lt in Ei. split; auto.
      rewrite <- (nth_with_ll_lt (c_segs cfg) (c_ll cfg) i Ei). fold (all_segs cfg).
      now rewrite <- Hn, <- Hv.
    - split; [|split; auto].
      + assert (Hsl : slice (c_start cfg) (c_end cfg) (nth i (all_segs cfg) []) = nth i rem0 []).
        { unfold rem0. rewrite <- (slice_nil (c_start cfg) (c_end cfg)) at 2.
          symmetry. apply map_nth. }
        now rewrite Hsl, <- Hv.
      + exists []. cbn [app]. unfold rem0. rewrite <- (slice_nil (c_start cfg) (c_end cfg)) at 2.
        symmetry. apply map_nth.
  Qed.

  Theorem C09i_start cfg : cfg_ok cfg -> c_incl cfg = true ->
    absI (iter_start cfg) = raw_spec fm cfg.
  Proof.
    intros Hc Hi. unfold absI, raw_spec. rewrite (raw_start fm cfg Hc), Hi, vis_true. reflexivity.
  Qed.

  (* ------------------------------------------------------------------ *)
  (* Next, CurrentEx *)

  Lemma seek_safeI_next st : wf_pre_fix st -> seek_safeI st -> seek_safeI (fst (iter_next st)).
  Proof.
    intros [Hc [Hp Hw]] Hs. unfold iter_next, seek_safeI in *.
    destruct (st_impl st) as [rem|c cur|all rest] eqn:Ei; cbn [wf_impl] in *.
    - destruct (heap_next _ _ rem). exact I.
    - pose proof (single_next_spec fm _ _ _ _ Hw) as G. cbv zeta in G.
      destruct (single_next (c_incl (st_cfg st)) c) as [[c' cur'] ok].
      cbn [fst snd st_cfg st_impl] in *. destruct G as [[[E _] _] _]. now rewrite E.
    - cbn [fst st_impl st_cfg]. destruct Hs as [H1 [H2 [pre H3]]]. split; auto. split; auto.
      destruct rest as [|e t]; cbn [tl].
      + exists all. now rewrite app_nil_r.
      + exists (pre ++ [e]). rewrite <- app_assoc. exact H3.
  Qed.

  Theorem C09i_next st : wfI st ->
    wfI (fst (iter_next st)) /\
    st_cfg (fst (iter_next st)) = st_cfg st /\
    absI (fst (iter_next st)) = tl (absI st) /\
    snd (iter_next st) = nonempty (tl (absI st)).
  Proof.
    intros [Hw [Hs Hi]]. destruct (C09_next_pre_fix fm st Hw) as [A [B _]].
    destruct (raw_next_pre_fix fm st Hw) as [C D].
    split; [|split; [exact B|split]].
    - split; [exact A|]. split; [now apply seek_safeI_next|]. now rewrite B.
    - unfold absI. rewrite B, C. apply map_tl.
    - unfold absI. rewrite <- map_tl, nonempty_map. exact D.
  Qed.

  Theorem C09i_current_ex st : wfI st -> iter_current_ex st = spec_current_ex (absI st).
  Proof.
    intros [Hw _]. rewrite (raw_current_ex_pre_fix fm st Hw). unfold absI.
    destruct (raw st) as [|[k o] t]; reflexivity.
  Qed.

  (* ------------------------------------------------------------------ *)
  (* Current *)

  Lemma heap_view_min cfg rem i k o : cfg_ok cfg -> wf_heap cfg rem ->
    min_cursor (cpfx cfg) rem = Some (i, (k, o)) -> exists t, view rem = (k, o) :: t.
  Proof.
    intros Hc Hw Hm. pose proof (wf_heap_asc _ _ Hc Hw) as Ha.
    pose proof (wf_heap_keys fm _ _ Hw) as Hk.
    rewrite (view_min _ _ _ _ _ Ha Hk Hm). eauto.
  Qed.

  Lemma heap_view_none cfg rem : min_cursor (cpfx cfg) rem = None -> view rem = [].
  Proof. intros Hm. apply min_none_total in Hm. now apply total_zero_view. Qed.

  Lemma heap_current_incl cfg rem : cfg_ok cfg -> wf_heap cfg rem ->
    heap_current fm cfg (cpfx cfg) rem = spec_current_incl (map (dec fm cfg) (view rem)).
  Proof.
    intros Hc Hw. unfold heap_current.
    destruct (min_cursor (cpfx cfg) rem) as [[i [k o]]|] eqn:Hm.
    - destruct (heap_view_min _ _ _ _ _ Hc Hw Hm) as [t0 Hv]. rewrite Hv.
      cbn [map dec fst snd spec_current_incl].
      pose proof (wf_heap_asc _ _ Hc Hw) as Ha. pose proof (wf_heap_keys fm _ _ Hw) as Hk.
      destruct (min_cursor_spec _ _ _ _ _ Ha Hk Hm) as [[t A] [_ C]].
      destruct Hw as [P [HP _]].
      assert (Hn : forall j, nth j rem [] = filter (kf P) (nth j (all_segs cfg) [])).
      { intros j. rewrite HP. apply (map_nth (filter (kf P)) (all_segs cfg) [] j). }
      assert (HPk : P k = true).
      { assert (G : In (k, o) (nth i rem [])) by (rewrite A; simpl; auto).
        rewrite Hn in G. apply filter_In in G. tauto. }
      assert (Hf : forall j, find (nth j rem []) k = find (nth j (all_segs cfg) []) k).
      { intros j. rewrite Hn. unfold kf. rewrite find_filter. now rewrite HPk. }
      assert (Hfull : full_get fm cfg k
                      = apply_op fm k (sget fm (skipn (S i) (all_segs cfg)) no_below k) o).
      { rewrite full_get_bridge. apply sget_nth.
        - intros j Hj. rewrite <- Hf. now apply C.
        - rewrite <- Hf, A. simpl. now rewrite beqb_refl. }
      destruct o as [v| |v]; cbn [is_del entry_result].
      + cbn [apply_op] in Hfull. now rewrite Hfull.
      + reflexivity.
      + cbn [apply_op] in Hfull. rewrite Hfull. f_equal. f_equal.
        symmetry. unfold all_segs. apply older_bridge.
        apply (merge_idx (c_segs cfg) (c_ll cfg) i k v). fold (all_segs cfg).
        rewrite <- Hf, A. simpl. now rewrite beqb_refl.
    - now rewrite (heap_view_none _ _ Hm).
  Qed.

  Lemma flat_current cfg (e : entry) : flat_ok cfg -> In e (raw_range cfg) ->
    entry_result fm (fun _ => None) e = spec_current_incl [dec fm cfg e].
  Proof.
    intros Hf He. specialize (Hf e He). destruct e as [k o]. cbn [fst snd] in Hf.
    cbn [dec fst snd spec_current_incl]. rewrite Hf.
    destruct o; reflexivity.
  Qed.

  Lemma spec_current_incl_hd (e : ientry) t : spec_current_incl (e :: t) = spec_current_incl [e].
  Proof. destruct e as [k [o v]]. reflexivity. Qed.

  Theorem C09i_current st : wfI st -> iter_current fm st = spec_current_incl (absI st).
  Proof.
    intros Hwf. destruct (raw_suffix st Hwf) as [pre Hpre].
    destruct Hwf as [[Hc [Hp Hw]] [Hs Hi]]. unfold iter_current, absI, raw, seek_safeI in *.
    destruct (st_impl st) as [rem|c cur|all rest]; cbn [wf_impl raw_impl] in *.
    - rewrite Hp, Hi, vis_true. now apply heap_current_incl.
    - destruct Hw as [_ [_ [Hcur _]]]. destruct Hs as [_ Hfl]. rewrite Hi, vis_true in *.
      subst cur. destruct (sc_rest c) as [|e t]; [reflexivity|]. cbn [hd_error map].
      rewrite spec_current_incl_hd. apply flat_current; auto.
      rewrite Hpre. apply in_or_app. right. simpl; auto.
    - destruct Hs as [_ [Hfl _]]. destruct rest as [|e t]; [reflexivity|]. cbn [map].
      rewrite spec_current_incl_hd. apply flat_current; auto.
      rewrite Hpre. apply in_or_app. right. simpl; auto.
  Qed.

  (* ------------------------------------------------------------------ *)
  (* SeekTo on the heap *)

  Definition seek_raw (cfg : config) (x : bytes) (l : segment) : segment :=
    seek_list is_del (c_start cfg) (c_tries cfg) (raw_range cfg) x l.

  Lemma heap_restart_incl cfg x' : cfg_ok cfg -> c_incl cfg = true ->
    bleb (lo_key (c_start cfg)) x' = true ->
    wf_heap cfg (heap_start cfg (Some x')) /\
    view (heap_start cfg (Some x')) = drop_lt x' (raw_range cfg) /\
    negb (Nat.eqb (total (heap_start cfg (Some x'))) 0) = nonempty (view (heap_start cfg (Some x'))).
  Proof.
    intros Hc Hi Hx. destruct (heap_start_spec cfg (Some x') Hc) as [P [E1 [Hu [Hh Hv]]]].
    assert (Hw : wf_heap cfg (heap_start cfg (Some x'))).
    { exists P. split; auto. split; auto. eapply upclosed_restart; eauto. }
    split; auto. rewrite Hi, !vis_true in Hv. split.
    - rewrite Hv. now apply raw_range_drop.
    - symmetry. rewrite <- (vis_true (view (heap_start cfg (Some x')))).
      apply (vis_view_nonempty true (cpfx cfg)).
      + eapply wf_heap_asc; eauto.
      + now apply (wf_heap_keys fm).
      + apply hd_vis_true.
  Qed.

  Lemma heap_curkey_incl cfg rem : cfg_ok cfg -> wf_heap cfg rem ->
    option_map entry_key (heap_current_ex (cpfx cfg) rem)
    = match view rem with [] => None | e :: _ => Some (entry_key e) end.
  Proof.
    intros Hc Hw. unfold heap_current_ex.
    destruct (min_cursor (cpfx cfg) rem) as [[i [k o]]|] eqn:Hm.
    - destruct (heap_view_min _ _ _ _ _ Hc Hw Hm) as [t ->]. reflexivity.
    - now rewrite (heap_view_none _ _ Hm).
  Qed.

  Lemma heap_next_incl cfg rem : cfg_ok cfg -> c_incl cfg = true -> wf_heap cfg rem ->
    wf_heap cfg (fst (heap_next (c_incl cfg) (cpfx cfg) rem)) /\
    view (fst (heap_next (c_incl cfg) (cpfx cfg) rem)) = tl (view rem) /\
    snd (heap_next (c_incl cfg) (cpfx cfg) rem)
    = nonempty (view (fst (heap_next (c_incl cfg) (cpfx cfg) rem))).
  Proof.
    intros Hc Hi Hw.
    pose proof (wf_heap_asc _ _ Hc Hw) as Ha. pose proof (wf_heap_keys fm _ _ Hw) as Hk.
    destruct (heap_next_wf fm _ _ Hc Hw) as [Hw' _]. split; auto.
    destruct Hw as [P [_ [_ Hh]]].
    destruct (heap_next_spec (c_incl cfg) (cpfx cfg) rem Ha Hk Hh) as [b [R1 [R2 [R3 R4]]]].
    pose proof (vis_view_nonempty (c_incl cfg) (cpfx cfg) _
                  (wf_heap_asc _ _ Hc Hw') (wf_heap_keys fm _ _ Hw') R4) as Hne.
    rewrite Hi in *. rewrite !vis_true in R2, Hne. rewrite R2, R3, <- Hne, R2. rewrite ?vis_true. auto.
  Qed.

  Lemma heap_seek_incl cfg x rem : cfg_ok cfg -> c_incl cfg = true -> wf_heap cfg rem ->
    wf_heap cfg (fst (heap_seek cfg (cpfx cfg) x rem)) /\
    view (fst (heap_seek cfg (cpfx cfg) x rem)) = seek_raw cfg x (view rem) /\
    snd (heap_seek cfg (cpfx cfg) x rem) = nonempty (view (fst (heap_seek cfg (cpfx cfg) x rem))).
  Proof.
    intros Hc Hi Hw.
    pose proof (heap_restart_incl cfg (seek_bound (c_start cfg) x) Hc Hi (seek_bound_ge _ _)) as Hrs.
    unfold seek_bound in Hrs at 1 2 4 5.
    remember (heap_seek cfg (cpfx cfg) x rem) as R eqn:ER.
    unfold heap_seek in ER. cbv zeta in ER.
    unfold seek_raw, seek_list. cbv zeta.
    destruct (min_cursor (cpfx cfg) rem) as [[i [k o]]|] eqn:Hm.
    2:{ assert (Hce : heap_current_ex (cpfx cfg) rem = None) by (unfold heap_current_ex; now rewrite Hm).
        rewrite Hce in ER. subst R. cbn [fst snd]. rewrite (heap_view_none _ _ Hm). exact Hrs. }
    assert (Hce : heap_current_ex (cpfx cfg) rem = Some (k, o)) by (unfold heap_current_ex; now rewrite Hm).
    rewrite Hce in ER.
    destruct (heap_view_min _ _ _ _ _ Hc Hw Hm) as [t Hv]. rewrite Hv.
    destruct (is_del o) eqn:Ed.
    { destruct o; try discriminate. cbn [entry_key] in ER. subst R. cbn [fst snd]. exact Hrs. }
    assert (Hek : entry_key (k, o) = Some k) by (destruct o; try discriminate; reflexivity).
    rewrite Hek in ER.
    destruct (bcmp x k) eqn:Ec.
    - subst R. cbn [fst snd]. split; auto. rewrite Hv. auto.
    - subst R. cbn [fst snd]. exact Hrs.
    - assert (Hlt : bltb k x = true) by (apply bltb_true; now apply bcmp_gt_lt).
      pose proof (naive_seek_walk view (wf_heap cfg)
                    (fun r => option_map entry_key (heap_current_ex (cpfx cfg) r))
                    (heap_next (c_incl cfg) (cpfx cfg))
                    (fun s Hs => heap_curkey_incl cfg s Hc Hs)
                    (fun s Hs => heap_next_incl cfg s Hc Hi Hs)
                    x (bleb_nil_false _ _ Hlt)
                    (naive_fuel (c_tries cfg) (total rem)) rem Hw) as Hn.
      assert (Hfuel : walk is_del (naive_fuel (c_tries cfg) (total rem)) x (view rem)
                      = walk is_del (walk_fuel (c_tries cfg) (view rem)) x (view rem)).
      { unfold naive_fuel, walk_fuel. destruct (Nat.eqb (c_tries cfg) 0); auto.
        assert (G : length (view rem) <= total rem).
        { unfold view. rewrite map_length. apply all_keys_length. }
        apply walk_fuel_irrel; apply Nat.lt_succ_r; [exact G | apply le_n]. }
      rewrite Hfuel, Hv in Hn.
      pose proof (walk_res is_del (walk_fuel (c_tries cfg) ((k, o) :: t)) x ((k, o) :: t)) as Hres.
      destruct (naive_seek (fun r => option_map entry_key (heap_current_ex (cpfx cfg) r))
                           (heap_next (c_incl cfg) (cpfx cfg))
                           (naive_fuel (c_tries cfg) (total rem)) x rem) as [r res].
      cbn [fst snd] in Hn. destruct Hn as [Hwr [Hr1 Hr2]].
      destruct (walk is_del (walk_fuel (c_tries cfg) ((k, o) :: t)) x ((k, o) :: t)) as [l' res'].
      cbn [fst snd] in Hr1, Hr2, Hres. subst res'.
      destruct res; subst R; cbn [fst snd].
      + split; auto. split; auto. rewrite Hr1. destruct l'; [congruence|reflexivity].
      + split; auto. split; auto. rewrite Hr1, Hres. reflexivity.
      + exact Hrs.
  Qed.

  (* ------------------------------------------------------------------ *)
  (* SeekTo on iteratorSingle *)

  Definition seekI_post (cfg : config) (seg : segment) (l : segment)
             (r : scursor * option entry * bool) : Prop :=
    wf_single cfg seg (fst (fst r)) (snd (fst r)) /\
    sc_rest (fst (fst r)) = l /\
    snd r = nonempty (sc_rest (fst (fst r))).

  Lemma single_fall_incl cfg seg c x : frame_ok cfg seg c -> c_incl cfg = true ->
    seekI_post cfg seg
      (filter (kf (fun k => rng cfg k && bleb (seek_bound (c_start cfg) x) k)) seg)
      (single_fall cfg x c).
  Proof.
    intros Hfr Hi. destruct (sc_seek_spec cfg seg c x Hfr) as [F1 [F2 [F3 F4]]].
    pose proof (frame_pos_ok _ _ _ F1 F2) as Hp.
    pose proof (sc_current_rest _ Hp) as Hcur.
    unfold single_fall. cbv zeta. rewrite Hi.
    change (sc_seek x c) with (fst (sc_seek x c), snd (sc_seek x c)).
    set (c' := fst (sc_seek x c)) in *. cbv iota. rewrite F4.
    assert (Hgen : seekI_post cfg seg
                     (filter (kf (fun k => rng cfg k && bleb (seek_bound (c_start cfg) x) k)) seg)
                     (c', sc_current c', nonempty (sc_rest c'))).
    { unfold seekI_post. cbn [fst snd]. split; [|split; auto].
      split; auto. split; auto. split; auto. split; [rewrite Hi; apply hd_vis_true|].
      eexists. split; [apply (upclosed_lo fm)|exact F3]. }
    destruct (sc_rest c') as [|e t] eqn:Er; cbn [nonempty] in *.
    - rewrite Hcur in Hgen. cbn [hd_error] in Hgen. exact Hgen.
    - destruct (sc_current c') as [[k [v| |v]]|] eqn:Ecur; exact Hgen.
  Qed.

  Lemma single_next_incl cfg seg (s : scursor * option entry) :
    c_incl cfg = true -> wf_single cfg seg (fst s) (snd s) ->
    let r := (let '(c', cur', ok) := single_next (c_incl cfg) (fst s) in ((c', cur'), ok)) in
    wf_single cfg seg (fst (fst r)) (snd (fst r)) /\
    sc_rest (fst (fst r)) = tl (sc_rest (fst s)) /\
    snd r = nonempty (sc_rest (fst (fst r))).
  Proof.
    intros Hi Hs. cbv zeta.
    pose proof (single_next_spec fm cfg seg (fst s) (snd s) Hs) as G. cbv zeta in G.
    destruct Hs as [Hfr [Hpos _]]. pose proof (frame_pos_ok _ _ _ Hfr Hpos) as Hpk.
    destruct (single_next_aux_spec (c_incl cfg) (sc_end (fst s) - sc_curr (fst s)) (fst s) Hpk (le_n _))
      as [_ [_ [_ [_ [A5 [A6 _]]]]]].
    fold (single_next (c_incl cfg) (fst s)) in A5, A6.
    destruct (single_next (c_incl cfg) (fst s)) as [[c' cur'] ok]. cbn [fst snd] in *.
    rewrite Hi, !vis_true in A5. split; [tauto|]. split; auto.
  Qed.

  Lemma single_seek_incl cfg seg c cur x : wf_single cfg seg c cur -> c_incl cfg = true ->
    filter (kf (rng cfg)) seg = raw_range cfg ->
    seekI_post cfg seg (seek_raw cfg x (sc_rest c)) (single_seek cfg x c cur).
  Proof.
    intros Hw Hi Hsafe. rewrite single_seek_unfold.
    pose proof Hw as [Hfr [Hpos [Hcur [Hh [P [Hu HP]]]]]].
    pose proof Hfr as [_ [Ha _]].
    assert (Hfall : forall c0, frame_ok cfg seg c0 ->
              seekI_post cfg seg (drop_lt (seek_bound (c_start cfg) x) (raw_range cfg))
                         (single_fall cfg x c0)).
    { intros c0 Hfr0. pose proof (single_fall_incl cfg seg c0 x Hfr0 Hi) as G.
      assert (E : filter (kf (fun k => rng cfg k && bleb (seek_bound (c_start cfg) x) k)) seg
                  = drop_lt (seek_bound (c_start cfg) x) (raw_range cfg)).
      { rewrite (drop_lt_filter _ (raw_range cfg) (raw_range_asc cfg)), <- Hsafe.
        unfold kf. now rewrite filter_filter. }
      now rewrite E in G. }
    unfold seek_raw, seek_list. cbv zeta. subst cur.
    assert (G : length (sc_rest c) <= sc_end c - sc_curr c).
    { rewrite (sc_rest_eq _ (frame_pos_ok _ _ _ Hfr Hpos)), firstn_length. lia. }
    assert (Hfuel : walk is_del (naive_fuel (c_tries cfg) (sc_end c - sc_curr c)) x (sc_rest c)
                    = walk is_del (walk_fuel (c_tries cfg) (sc_rest c)) x (sc_rest c)).
    { unfold naive_fuel, walk_fuel. destruct (Nat.eqb (c_tries cfg) 0); auto.
      apply walk_fuel_irrel; apply Nat.lt_succ_r; [exact G | apply le_n]. }
    pose proof (walk_res is_del (walk_fuel (c_tries cfg) (sc_rest c)) x (sc_rest c)) as Hres.
    destruct (sc_rest c) as [|[k o] t] eqn:Er; cbn [hd_error].
    { now apply Hfall. }
    destruct (is_del o) eqn:Ed.
    { destruct o; try discriminate. cbn [entry_key]. now apply Hfall. }
    assert (Hek : entry_key (k, o) = Some k) by (destruct o; try discriminate; reflexivity).
    rewrite Hek.
    destruct (bcmp x k) eqn:Ec.
    - unfold seekI_post. cbn [fst snd]. rewrite Er. split; auto.
    - now apply Hfall.
    - assert (Hlt : bltb k x = true) by (apply bltb_true; now apply bcmp_gt_lt).
      assert (Hw0 : wf_single cfg seg (fst (c, Some (k, o))) (snd (c, Some (k, o)))).
      { cbn [fst snd]. exact Hw. }
      pose proof (naive_seek_walk (fun s : scursor * option entry => sc_rest (fst s))
                    (fun s => wf_single cfg seg (fst s) (snd s))
                    (fun s : scursor * option entry => option_map entry_key (snd s))
                    (fun s => let '(c', cur', ok) := single_next (c_incl cfg) (fst s) in ((c', cur'), ok)))
        as Hn.
      assert (Hck : forall s : scursor * option entry, wf_single cfg seg (fst s) (snd s) ->
                option_map entry_key (snd s)
                = match sc_rest (fst s) with [] => None | e :: _ => Some (entry_key e) end).
      { intros s [_ [_ [Hcs _]]]. rewrite Hcs. destruct (sc_rest (fst s)); reflexivity. }
      specialize (Hn Hck (fun s Hs => single_next_incl cfg seg s Hi Hs) x (bleb_nil_false _ _ Hlt)
                     (naive_fuel (c_tries cfg) (sc_end c - sc_curr c)) (c, Some (k, o)) Hw0).
      match type of Hn with context [naive_seek ?f1 ?f2 ?f3 ?f4 ?f5] =>
        match goal with |- context [snaive cfg x c ?cu] =>
          assert (Esn : snaive cfg x c cu = naive_seek f1 f2 f3 f4 f5) by reflexivity end;
        rewrite Esn; clear Esn;
        destruct (naive_seek f1 f2 f3 f4 f5) as [s res] end.
      cbn [fst snd] in Hn. rewrite Er in Hn. rewrite Hfuel in Hn.
      destruct Hn as [Hws [Hr1 Hr2]].
      match type of Hr2 with _ = snd ?w => destruct w as [l' res'] end.
      cbn [fst snd] in Hr1, Hr2, Hres. subst res'.
      destruct res.
      + unfold seekI_post. cbn [fst snd]. split; auto. split; auto.
        rewrite Hr1. destruct l'; [congruence|reflexivity].
      + unfold seekI_post. cbn [fst snd]. split; auto. split; auto.
        rewrite Hr1, Hres. reflexivity.
      + apply Hfall. destruct Hws as [G0 _]. exact G0.
  Qed.

  (* ------------------------------------------------------------------ *)
  (* SeekTo *)

  Lemma drop_lt_seek_bound_raw cfg x :
    drop_lt (seek_bound (c_start cfg) x) (raw_range cfg) = drop_lt x (raw_range cfg).
  Proof.
    unfold seek_bound. destruct (c_start cfg) as [s|] eqn:Es; auto.
    destruct (bltb x s) eqn:E; auto.
    assert (G : forall e, In e (raw_range cfg) -> bleb s (fst e) = true).
    { intros e He. apply raw_range_lo in He. now rewrite Es in He. }
    rewrite !drop_lt_all_ge; auto.
    intros e He. apply bltb_bleb. eapply bltb_bleb_trans; eauto.
  Qed.


  Lemma lower_all_set (all rest : segment) : wf_lower all rest ->
    forall e, In e rest -> is_del (snd e) = false.
  Proof.
    intros [_ [Hset Hsub]] e He. destruct (Hset e (Hsub e He)) as [v ->]. reflexivity.
  Qed.

  Theorem C09i_seek_raw x st : wfI st ->
    wfI (fst (iter_seek x st)) /\
    st_cfg (fst (iter_seek x st)) = st_cfg st /\
    raw (fst (iter_seek x st)) = seek_raw (st_cfg st) x (raw st) /\
    snd (iter_seek x st) = nonempty (raw (fst (iter_seek x st))).
  Proof.
    intros Hwf. destruct (raw_suffix st Hwf) as [pre Hpre].
    destruct Hwf as [[Hc [Hp Hw]] [Hs Hi]].
    unfold iter_seek, raw, wfI, wf_pre_fix, seek_safeI in *.
    destruct (st_impl st) as [rem|c cur|all rest] eqn:Ei; cbn [wf_impl raw_impl] in *.
    - rewrite Hp. destruct (heap_seek_incl _ x _ Hc Hi Hw) as [A [B C]].
      destruct (heap_seek (st_cfg st) (cpfx (st_cfg st)) x rem) as [rem' ok].
      cbn [fst snd st_cfg st_pfx st_impl wf_impl raw_impl] in *.
      rewrite Hi, !vis_true. auto 10.
    - destruct Hs as [Hs Hfl].
      pose proof (single_seek_incl _ _ _ _ x Hw Hi Hs) as G. unfold seekI_post in G.
      destruct (single_seek (st_cfg st) x c cur) as [[c' cur'] ok].
      cbn [fst snd st_cfg st_pfx st_impl wf_impl raw_impl] in *.
      destruct G as [A [B C]].
      assert (Es : sc_seg c' = sc_seg c) by (destruct A as [[E _] _]; exact E).
      rewrite Es, Hi, !vis_true. auto 10.
    - cbn [fst snd st_cfg st_pfx st_impl wf_impl raw_impl].
      destruct Hs as [Hs [Hfl [pre0 Hpre0]]].
      pose proof Hw as [H1 [H2 H3]].
      assert (Hnat : seek_raw (st_cfg st) x rest = skipn (lower_bound all x) all).
      { unfold seek_raw.
        rewrite (seek_list_natural is_del _ _ (raw_range (st_cfg st)) x rest pre).
        - rewrite drop_lt_seek_bound_raw, <- Hs.
          rewrite (drop_lt_filter x all H1). symmetry. now apply skipn_lb.
        - apply raw_range_asc.
        - exact Hpre.
        - apply raw_range_lo.
        - apply fwd_onto_del_nodel. now apply (lower_all_set all rest). }
      rewrite Hnat.
      split; [|split; [reflexivity|split; [reflexivity|]]].
      + split; [|split; [|exact Hi]].
        * split; auto. split; auto. split; auto. split; auto.
          intros e He. eapply In_skipn_in; eauto.
        * split; auto. split; auto. exists (firstn (lower_bound all x) all).
          symmetry. apply firstn_skipn.
      + destruct (skipn (lower_bound all x) all); reflexivity.
  Qed.

  Lemma seek_raw_dec cfg x l :
    map (dec fm cfg) (seek_raw cfg x l) = seek_naive fm cfg x (map (dec fm cfg) l).
  Proof.
    unfold seek_raw, seek_naive, raw_spec.
    apply (seek_list_map (dec fm cfg) is_del idel (dec_fst cfg) (dec_del cfg)).
  Qed.

  (* Required statement 2, SeekTo: exactly what moss does *)
  Theorem C09i_seek x st : wfI st ->
    wfI (fst (iter_seek x st)) /\
    st_cfg (fst (iter_seek x st)) = st_cfg st /\
    absI (fst (iter_seek x st)) = seek_naive fm (st_cfg st) x (absI st) /\
    snd (iter_seek x st) = nonempty (absI (fst (iter_seek x st))).
  Proof.
    intros Hwf. destruct (C09i_seek_raw x st Hwf) as [A [B [C D]]].
    split; auto. split; auto. unfold absI. rewrite B, C, nonempty_map. split.
    - apply seek_raw_dec.
    - now rewrite D, C.
  Qed.

  Lemma raw_spec_sorted cfg : asc (map fst (raw_spec fm cfg)).
  Proof. unfold raw_spec. rewrite map_map. apply raw_range_asc. Qed.

  Lemma raw_spec_lo cfg e : In e (raw_spec fm cfg) -> bleb (lo_key (c_start cfg)) (fst e) = true.
  Proof.
    unfold raw_spec. intros H. apply in_map_iff in H. destruct H as [e0 [<- H]].
    now apply raw_range_lo.
  Qed.

  (* on a suffix of the range the two seeks agree unless the walk runs onto a deletion *)
  Lemma seek_naive_natural cfg x l pre : raw_spec fm cfg = pre ++ l ->
    fwd_onto_del idel x l = false ->
    seek_naive fm cfg x l = seek_natural fm cfg x l.
  Proof.
    intros Hpre Hf. unfold seek_naive, seek_natural.
    apply (seek_list_natural idel _ _ (raw_spec fm cfg) x l pre); auto.
    - apply raw_spec_sorted.
    - apply raw_spec_lo.
  Qed.

  Lemma absI_suffix st : wfI st -> exists pre, raw_spec fm (st_cfg st) = pre ++ absI st.
  Proof.
    intros Hwf. destruct (raw_suffix st Hwf) as [pre Hpre].
    exists (map (dec fm (st_cfg st)) pre). unfold raw_spec, absI. now rewrite Hpre, map_app.
  Qed.

  (* Required statement 2, SeekTo, natural form: holds unless SeekTo walks
     forward from a live entry onto a deletion entry *)
  Theorem C09i_seek_natural x st : wfI st -> fwd_onto_del idel x (absI st) = false ->
    absI (fst (iter_seek x st))
    = drop_lt (seek_bound (c_start (st_cfg st)) x) (raw_spec fm (st_cfg st)).
  Proof.
    intros Hwf Hf. destruct (C09i_seek x st Hwf) as [_ [_ [C _]]]. rewrite C.
    destruct (absI_suffix st Hwf) as [pre Hpre].
    now apply (seek_naive_natural _ x _ pre).
  Qed.

  (* x at or behind the current key, on a deletion entry, or after exhaustion *)
  Corollary C09i_seek_back x st : wfI st ->
    match absI st with
    | [] => True
    | (k, (o, _)) :: _ => is_del o = true \/ bleb x k = true
    end ->
    absI (fst (iter_seek x st))
    = drop_lt (seek_bound (c_start (st_cfg st)) x) (raw_spec fm (st_cfg st)).
  Proof.
    intros Hwf H. apply C09i_seek_natural; auto.
    destruct (absI st) as [|[k [o v]] t]; auto. cbn [fwd_onto_del]. unfold idel at 1. cbn [fst].
    destruct H as [->|H]; auto.
    assert (bltb k x = false) as -> by (now apply bltb_false). now rewrite andb_false_r.
  Qed.

  (* forward, and the first entry at or after x is live (or there is none) *)
  Corollary C09i_seek_forward_live x st : wfI st ->
    hd_isdel idel (drop_lt x (absI st)) = false ->
    absI (fst (iter_seek x st))
    = drop_lt (seek_bound (c_start (st_cfg st)) x) (raw_spec fm (st_cfg st)).
  Proof.
    intros Hwf H. apply C09i_seek_natural; auto.
    destruct (absI st) as [|[k a] t]; auto. cbn [fwd_onto_del]. rewrite H. apply andb_false_r.
  Qed.


  Lemma asc_app_r (p l : list bytes) : asc (p ++ l) -> asc l.
  Proof. induction p as [|a p IH]; auto. intros H. apply IH. simpl in H. eapply asc_tail; eauto. Qed.

  (* SeekTo x forward from a live entry, in closed form: the natural position,
     then on to the next live entry - unless the walk gives up, which it does
     not when the budget is unbounded or at least the number of entries left *)
  Theorem C09i_seek_forward x st k o v t : wfI st ->
    absI st = (k, (o, v)) :: t -> is_del o = false -> bltb k x = true ->
    let cfg := st_cfg st in
    let W := walk idel (walk_fuel (c_tries cfg) (absI st)) x (absI st) in
    (snd W = NMax -> absI (fst (iter_seek x st)) = drop_lt x (raw_spec fm cfg)) /\
    (snd W <> NMax ->
     absI (fst (iter_seek x st)) = skip_dels idel (drop_lt x (raw_spec fm cfg))) /\
    (c_tries cfg = 0 \/ length (absI st) <= c_tries cfg -> snd W <> NMax).
  Proof.
    intros Hwf Habs Ho Hlt. cbv zeta.
    destruct (C09i_seek x st Hwf) as [_ [_ [C _]]]. rewrite C. clear C.
    destruct (absI_suffix st Hwf) as [pre Hpre].
    assert (Hk : bleb (lo_key (c_start (st_cfg st))) k = true).
    { apply (raw_spec_lo (st_cfg st) (k, (o, v))). rewrite Hpre, Habs.
      apply in_or_app. right. simpl; auto. }
    assert (Hkx : bleb k x = true) by (now apply bltb_bleb).
    assert (Hsb : seek_bound (c_start (st_cfg st)) x = x).
    { apply seek_bound_id. eapply bleb_trans; eauto. }
    assert (Hd : drop_lt x (absI st) = drop_lt x (raw_spec fm (st_cfg st))).
    { rewrite Hpre, Habs. symmetry. apply drop_lt_suffix; auto.
      pose proof (raw_spec_sorted (st_cfg st)) as G. rewrite Hpre, Habs in G. exact G. }
    assert (Hasc : asc (map fst (absI st))).
    { pose proof (raw_spec_sorted (st_cfg st)) as G. rewrite Hpre, map_app in G.
      eapply asc_app_r; eauto. }
    assert (Hgt : bcmp x k = Gt) by (apply bcmp_lt_gt; now apply bltb_true).
    unfold seek_naive. rewrite Habs in Hd, Hasc |- *.
    rewrite (seek_list_forward idel _ _ _ x k (o, v) t Ho Hgt), Hsb.
    pose proof (walk_first_live idel (walk_fuel (c_tries (st_cfg st)) ((k, (o, v)) :: t)) x
                  ((k, (o, v)) :: t)) as Hf.
    pose proof (walk_enough idel (walk_fuel (c_tries (st_cfg st)) ((k, (o, v)) :: t)) x
                  ((k, (o, v)) :: t)) as He.
    rewrite (first_live_sorted idel x _ Hasc), Hd in Hf.
    destruct (walk idel (walk_fuel (c_tries (st_cfg st)) ((k, (o, v)) :: t)) x ((k, (o, v)) :: t))
      as [l' r].
    cbn [fst snd] in *. split; [|split].
    - intros ->. reflexivity.
    - intros Hr. rewrite <- (Hf Hr). destruct r; congruence.
    - intros Hb. apply He; unfold walk_fuel.
      + destruct (Nat.eqb (c_tries (st_cfg st)) 0) eqn:E0; [lia|]. apply Nat.eqb_neq in E0. lia.
      + destruct (Nat.eqb (c_tries (st_cfg st)) 0) eqn:E0; [lia|]. apply Nat.eqb_neq in E0.
        destruct Hb as [Hb|Hb]; [congruence|exact Hb].
  Qed.

  Theorem C09i_done_sticky st : wfI st -> absI st = [] ->
    iter_current fm st = RDone /\
    iter_current_ex st = None /\
    snd (iter_next st) = false /\
    absI (fst (iter_next st)) = [].
  Proof.
    intros Hw Ha. rewrite (C09i_current st Hw), (C09i_current_ex st Hw), Ha.
    destruct (C09i_next st Hw) as [_ [_ [B C]]]. rewrite B, C, Ha. auto.
  Qed.

  (* ------------------------------------------------------------------ *)
  (* programs *)

  Lemma run_sim_incl : forall prog st, wfI st ->
    run_calls fm st prog
    = run_spec_incl_from (seek_naive fm) (st_cfg st) (absI st) prog.
  Proof.
    induction prog as [|c p IH]; intros st Hw; auto.
    destruct c as [|x|]; cbn [run_calls run_spec_incl_from].
    - destruct (C09i_next st Hw) as [A [B [C D]]].
      destruct (iter_next st) as [st' ok]. cbn [fst snd] in *.
      rewrite D. f_equal. rewrite <- C, <- B. now apply IH.
    - destruct (C09i_seek x st Hw) as [A [B [C D]]].
      destruct (iter_seek x st) as [st' ok]. cbn [fst snd] in *. cbv zeta.
      rewrite D, <- C. f_equal. rewrite <- B. now apply IH.
    - rewrite (C09i_current st Hw). f_equal. now apply IH.
  Qed.

  (* Required statement 3: every program answers like the specification moss meets *)
  Theorem C09i_program_naive cfg prog : cfg_ok cfg -> c_incl cfg = true ->
    run_model fm cfg prog = run_spec_incl_naive fm cfg prog.
  Proof.
    intros Hc Hi. unfold run_model, run_spec_incl_naive. rewrite <- (C09i_start cfg Hc Hi).
    apply (run_sim_incl prog (iter_start cfg)). now apply C09i_wf_start.
  Qed.


  (* the iterator of the pinned commit (optimize() before the repair) is the same
     iterator in this mode: there is no leading-deletion skip to confuse it *)
  Lemma total_zero_num rem : total rem = 0 -> num_cursors rem = 0.
  Proof.
    unfold num_cursors. induction rem as [|r rest IH]; simpl; auto.
    destruct r; simpl; [exact IH|discriminate].
  Qed.

  Lemma only_cursor_num rem i : only_cursor rem = Some i -> num_cursors rem = 1.
  Proof.
    revert i. induction rem as [|r rest IH]; intros i H; simpl in H; [discriminate|].
    destruct r as [|e t].
    - destruct (only_cursor rest) as [i'|] eqn:E; [|discriminate].
      unfold num_cursors in *. simpl. now apply (IH i').
    - destruct (Nat.eqb (total rest) 0) eqn:E; [|discriminate]. apply Nat.eqb_eq in E.
      apply total_zero_num in E. unfold num_cursors in *. simpl. now rewrite E.
  Qed.

  Theorem C09i_pre_fix_same cfg : c_incl cfg = true -> iter_start_pre_fix cfg = iter_start cfg.
  Proof.
    intros Hi. unfold iter_start_pre_fix, iter_start. f_equal.
    unfold optimize, num_cursors_at_start. rewrite (heap_start_incl cfg (c_start cfg) Hi).
    destruct (Nat.eqb (num_cursors (map (slice (c_start cfg) (c_end cfg)) (all_segs cfg))) 1) eqn:E; auto.
    unfold optimize_pre_fix.
    destruct (only_cursor (map (slice (c_start cfg) (c_end cfg)) (all_segs cfg))) as [i|] eqn:Eo; auto.
    apply only_cursor_num in Eo. rewrite Eo in E. discriminate.
  Qed.

  Corollary C09i_program_naive_pre_fix cfg prog : cfg_ok cfg -> c_incl cfg = true ->
    run_model_pre_fix fm cfg prog = run_spec_incl_naive fm cfg prog.
  Proof.
    intros Hc Hi. unfold run_model_pre_fix. rewrite (C09i_pre_fix_same cfg Hi).
    now apply C09i_program_naive.
  Qed.

  Lemma exec_sim_incl : forall prog st, wfI st ->
    wfI (exec_calls st prog) /\ st_cfg (exec_calls st prog) = st_cfg st /\
    absI (exec_calls st prog) = exec_spec_incl (seek_naive fm) (st_cfg st) (absI st) prog.
  Proof.
    induction prog as [|c p IH]; intros st Hw; [cbn; auto|].
    destruct c as [|x|]; cbn [exec_calls exec_spec_incl].
    - destruct (C09i_next st Hw) as [A [B [C D]]].
      destruct (IH _ A) as [E1 [E2 E3]]. rewrite E2, E3, B, C. auto.
    - destruct (C09i_seek x st Hw) as [A [B [C D]]].
      destruct (IH _ A) as [E1 [E2 E3]]. rewrite E2, E3, B, C. auto.
    - now apply IH.
  Qed.

  (* the state reached by any program, hence what CurrentEx reports there *)
  Theorem C09i_exec cfg prog : cfg_ok cfg -> c_incl cfg = true ->
    wfI (exec_calls (iter_start cfg) prog) /\
    absI (exec_calls (iter_start cfg) prog)
    = exec_spec_incl (seek_naive fm) cfg (raw_spec fm cfg) prog /\
    iter_current_ex (exec_calls (iter_start cfg) prog)
    = spec_current_ex (exec_spec_incl (seek_naive fm) cfg (raw_spec fm cfg) prog) /\
    iter_current fm (exec_calls (iter_start cfg) prog)
    = spec_current_incl (exec_spec_incl (seek_naive fm) cfg (raw_spec fm cfg) prog).
  Proof.
    intros Hc Hi. destruct (exec_sim_incl prog (iter_start cfg) (C09i_wf_start cfg Hc Hi)) as [A [B C]].
    rewrite (C09i_start cfg Hc Hi) in C. cbn [iter_start st_cfg] in C.
    split; auto. split; auto. split.
    - rewrite (C09i_current_ex _ A). now rewrite C.
    - rewrite (C09i_current _ A). now rewrite C.
  Qed.

  (* ------------------------------------------------------------------ *)
  (* the natural specification on tame programs *)

  Lemma tame_spec : forall prog cfg l pre, raw_spec fm cfg = pre ++ l ->
    tame fm cfg l prog = true ->
    run_spec_incl_from (seek_naive fm) cfg l prog = run_spec_incl_from (seek_natural fm) cfg l prog.
  Proof.
    induction prog as [|c p IH]; intros cfg l pre Hpre Ht; auto.
    destruct c as [|x|]; cbn [run_spec_incl_from tame] in *.
    - f_equal. destruct l as [|e t]; cbn [tl] in *.
      + now apply (IH cfg [] pre).
      + apply (IH cfg t (pre ++ [e])); auto. now rewrite <- app_assoc.
    - apply andb_true_iff in Ht. destruct Ht as [Hf Ht]. apply negb_true_iff in Hf.
      cbv zeta. rewrite (seek_naive_natural cfg x l pre Hpre Hf). f_equal.
      destruct (drop_lt_split (seek_bound (c_start cfg) x) (raw_spec fm cfg)) as [pre' Hpre'].
      apply (IH cfg _ pre'); auto.
    - f_equal. now apply (IH cfg l pre).
  Qed.

  (* Required statement 3, natural form, PARTIAL: only for programs in which
     no SeekTo walks forward from a live entry onto a deletion entry.  What is
     missing is refuted below (C09i_program_refuted). *)
  Theorem C09i_program_partial cfg prog : cfg_ok cfg -> c_incl cfg = true ->
    tame fm cfg (raw_spec fm cfg) prog = true ->
    run_model fm cfg prog = run_spec_incl fm cfg prog.
  Proof.
    intros Hc Hi Ht. rewrite (C09i_program_naive cfg prog Hc Hi).
    unfold run_spec_incl_naive, run_spec_incl. now apply (tame_spec prog cfg _ []).
  Qed.

  Lemma tame_nodel : forall prog cfg l,
    (forall e, In e (raw_spec fm cfg) -> idel (snd e) = false) ->
    (forall e, In e l -> idel (snd e) = false) ->
    tame fm cfg l prog = true.
  Proof.
    induction prog as [|c p IH]; intros cfg l Hall Hl; auto.
    destruct c as [|x|]; cbn [tame].
    - apply IH; auto. intros e He. apply Hl. destruct l; simpl in *; auto.
    - apply andb_true_iff. split.
      + apply negb_true_iff. destruct l as [|[k a] t]; auto. cbn [fwd_onto_del].
        assert (G : hd_isdel idel (drop_lt x ((k, a) :: t)) = false).
        { destruct (drop_lt x ((k, a) :: t)) as [|[k' a'] t'] eqn:E; auto. cbn [hd_isdel].
          apply (Hl (k', a')). apply (drop_lt_in x). rewrite E. simpl; auto. }
        rewrite G. apply andb_false_r.
      + apply IH; auto. intros e He. apply Hall. eapply drop_lt_in; eauto.
    - now apply IH.
  Qed.

  (* no deletion entry in the range: the natural specification, every program *)
  Corollary C09i_program_nodel cfg prog : cfg_ok cfg -> c_incl cfg = true ->
    (forall e, In e (raw_range cfg) -> is_del (snd e) = false) ->
    run_model fm cfg prog = run_spec_incl fm cfg prog.
  Proof.
    intros Hc Hi Hn. apply C09i_program_partial; auto.
    assert (Hall : forall e, In e (raw_spec fm cfg) -> idel (snd e) = false).
    { intros e He. unfold raw_spec in He. apply in_map_iff in He. destruct He as [e0 [<- He]].
      now apply Hn. }
    now apply tame_nodel.
  Qed.

  (* ------------------------------------------------------------------ *)
  (* the specification list, characterised *)

  Lemma newest_sget (S : list segment) below k o : newest S k = Some o ->
    exists older, sget fm S below k = apply_op fm k older o.
  Proof.
    induction S as [|s r IH]; simpl; [discriminate|].
    destruct (find s k) as [o'|].
    - intros [= ->]. eauto.
    - exact IH.
  Qed.

  Theorem raw_spec_in cfg k o v :
    In (k, (o, v)) (raw_spec fm cfg) <->
    in_range (c_start cfg) (c_end cfg) k = true /\
    newest (all_segs cfg) k = Some o /\
    v = sget fm (c_segs cfg) (ll_get (c_ll cfg)) k.
  Proof.
    unfold raw_spec, dec, raw_range, full_get. rewrite in_map_iff. split.
    - intros [[k' o'] [E H]]. cbn [fst snd] in E. injection E as -> -> <-.
      apply filter_In in H. destruct H as [H Hr]. apply view_in in H. auto.
    - intros [Hr [Hn ->]]. exists (k, o). split; auto.
      apply filter_In. split; auto. now apply view_in.
  Qed.

  Theorem raw_spec_value cfg k o v : In (k, (o, v)) (raw_spec fm cfg) ->
    match o with
    | OSet b => v = Some b
    | ODel => v = None
    | OMerge b => exists older, v = fm k older b
    end.
  Proof.
    intros H. apply raw_spec_in in H. destruct H as [_ [Hn ->]].
    fold (full_get fm cfg k). rewrite full_get_bridge.
    destruct (newest_sget (all_segs cfg) no_below k o Hn) as [older ->].
    destruct o; cbn [apply_op]; eauto.
  Qed.

End Incl.

(* ====================================================================== *)
(* C. the natural specification is false of the model, and of moss: the same
      calls on the real iterator (both the heap iterator and iteratorSingle,
      checked with a Go test against the pinned sources) give the answers computed here     *)

Local Open Scope N_scope.

(* one segment, no lower level: iteratorSingle.  "a" live, "c" deleted, "e" live *)
Definition cfg_i1 : config :=
  mk_cfg [[(kA, OSet [1]); (kC, ODel); (kE, OSet [5])]] None None None true 100.

(* two segments: the heap iterator *)
Definition cfg_i2 : config :=
  mk_cfg [[(kA, OSet [1]); (kC, ODel); (kE, OSet [5])]; [(kB, OSet [2])]] None None None true 100.

(* nothing but deletion entries at or after "c" *)
Definition cfg_i3 : config :=
  mk_cfg [[(kA, OSet [1]); (kC, ODel); (kE, ODel)]; [(kB, OSet [2])]] None None None true 100.

(* cfg_i2 with a naive-seek budget of 1: the walk gives up and SeekTo restarts *)
Definition cfg_i4 : config :=
  mk_cfg [[(kA, OSet [1]); (kC, ODel); (kE, OSet [5])]; [(kB, OSet [2])]] None None None true 1.

(* Required statement 3 in its natural form is REFUTED: SeekTo("c") from "a"
   lands on "e", stepping over the deletion entry "c" *)
Theorem C09i_program_refuted :
  exists cfg prog, cfg_ok cfg /\ c_incl cfg = true /\
    run_model fm_append cfg prog <> run_spec_incl fm_append cfg prog.
Proof.
  exists cfg_i2, [CSeek kC; CCurrent]. split; [solve_cfg_ok|]. split; [reflexivity|].
  vm_compute. discriminate.
Qed.

Theorem C09i_seek_refuted :
  exists cfg x, cfg_ok cfg /\ c_incl cfg = true /\
    absI fm_append (fst (iter_seek x (iter_start cfg)))
    <> drop_lt (seek_bound (c_start cfg) x) (raw_spec fm_append cfg).
Proof.
  exists cfg_i2, kC. split; [solve_cfg_ok|]. split; [reflexivity|].
  vm_compute. discriminate.
Qed.

(* the same SeekTo("c") issued twice gives two different positions *)
Example ex_incl_heap :
  run_model fm_append cfg_i2 [CCurrent; CSeek kC; CCurrent; CSeek kC; CCurrent]
  = [RCur kA (Some [1]); ROk; RCur kE (Some [5]); ROk; RDeleted] /\
  run_spec_incl fm_append cfg_i2 [CCurrent; CSeek kC; CCurrent; CSeek kC; CCurrent]
  = [RCur kA (Some [1]); ROk; RDeleted; ROk; RDeleted] /\
  run_spec_incl_naive fm_append cfg_i2 [CCurrent; CSeek kC; CCurrent; CSeek kC; CCurrent]
  = [RCur kA (Some [1]); ROk; RCur kE (Some [5]); ROk; RDeleted].
Proof. repeat split; vm_compute; reflexivity. Qed.

Example ex_incl_single :
  (match st_impl (iter_start cfg_i1) with ISingle _ _ => true | _ => false end) = true /\
  run_model fm_append cfg_i1 [CCurrent; CSeek kC; CCurrent; CSeek kC; CCurrent]
  = [RCur kA (Some [1]); ROk; RCur kE (Some [5]); ROk; RDeleted] /\
  run_spec_incl fm_append cfg_i1 [CCurrent; CSeek kC; CCurrent; CSeek kC; CCurrent]
  = [RCur kA (Some [1]); ROk; RDeleted; ROk; RDeleted].
Proof. repeat split; vm_compute; reflexivity. Qed.

(* SeekTo("c") reports ErrIteratorDone although "c" and "e" are in the
   enumeration; asked again, it finds "c" *)
Example ex_incl_done :
  run_model fm_append cfg_i3 [CSeek kC; CCurrent; CSeek kC; CCurrent; CNext; CCurrent; CNext]
  = [RDone; RDone; ROk; RDeleted; ROk; RDeleted; RDone] /\
  run_spec_incl fm_append cfg_i3 [CSeek kC; CCurrent; CSeek kC; CCurrent; CNext; CCurrent; CNext]
  = [ROk; RDeleted; ROk; RDeleted; ROk; RDeleted; RDone].
Proof. split; vm_compute; reflexivity. Qed.

(* the answer depends on DefaultNaiveSeekToMaxTries *)
Example ex_incl_budget :
  run_model fm_append cfg_i4 [CSeek kC; CCurrent] = [ROk; RDeleted] /\
  run_model fm_append cfg_i2 [CSeek kC; CCurrent] = [ROk; RCur kE (Some [5])].
Proof. split; vm_compute; reflexivity. Qed.

(* a full example in the mode: shadowing, merge over an older Set, lower level,
   bounds, backward/forward/past-the-end seeks, seek after exhaustion *)
Example ex_incl_program :
  let cfg := mk_cfg [ex_s1; ex_s2] (Some ex_ll) (Some kA) (Some kE) true 100 in
  let prog := [CCurrent; CNext; CCurrent; CNext; CCurrent; CNext; CCurrent; CNext; CCurrent;
               CSeek kB; CCurrent; CSeek [0]; CCurrent; CSeek kE; CCurrent; CSeek kD; CCurrent] in
  run_model fm_append cfg prog = run_spec_incl_naive fm_append cfg prog /\
  run_model fm_append cfg prog
  = [RDeleted; ROk; RCur kB (Some [2]); ROk; RCur kC (Some [3; 58; 120]); ROk; RDeleted; RDone; RDone;
     ROk; RCur kB (Some [2]); ROk; RDeleted; RDone; RDone; ROk; RDeleted] /\
  raw_spec fm_append cfg
  = [(kA, (ODel, None)); (kB, (OSet [2], Some [2])); (kC, (OMerge [120], Some [3; 58; 120]));
     (kD, (ODel, None))].
Proof. repeat split; vm_compute; reflexivity. Qed.

Print Assumptions C09i_wf_start.
Print Assumptions C09i_start.
Print Assumptions C09i_next.
Print Assumptions C09i_current.
Print Assumptions C09i_current_ex.
Print Assumptions C09i_seek.
Print Assumptions C09i_seek_natural.
Print Assumptions C09i_seek_back.
Print Assumptions C09i_seek_forward_live.
Print Assumptions C09i_seek_forward.
Print Assumptions C09i_done_sticky.
Print Assumptions C09i_program_naive.
Print Assumptions C09i_program_naive_pre_fix.
Print Assumptions C09i_exec.
Print Assumptions C09i_program_partial.
Print Assumptions C09i_program_nodel.
Print Assumptions raw_spec_in.
Print Assumptions raw_spec_value.
Print Assumptions raw_spec_sorted.
Print Assumptions C09i_program_refuted.
Print Assumptions C09i_seek_refuted.
