(* Sync2.v - the wait/notify protocol of moss at the granularity of critical
   sections and blocking operations: writers (ExecuteBatch), the merger
   (runMerger / mergerWaitForWork / mergerMain / mergerNotifyPersister), the
   persister (runPersister), notifiers (NotifyMerger) and the closer (Close).

   One step = one critical section (Lock ... Unlock, or Lock ... Cond.Wait) or
   one blocking / channel operation outside the lock.  The collection lock is
   explicit (z_lk): it is only ever held ACROSS steps by an actor that blocks
   inside its critical section.  Condition variables follow Go: Wait releases
   the lock, a waiter is woken only by a later Broadcast and re-acquires the
   lock before it runs.  Channels have capacities; a send on a full queue is
   not enabled.  Writers and notifiers are symmetric, so "one program counter
   per writer" is kept as one counter per program-counter value (a multiset of
   program counters): any number of writers and notifiers.
   Executable definitions only. *)
From Coq Require Import List Arith Bool String.
Import ListNotations.
Open Scope nat_scope.

(* the five seeded defects, the NotifyMerger without stop cases (Mut6: the code before
   the repair of the notify-after-Close hang), the merger's sleep decision that ignores a pending
   hand-over (Mut7: the code before the repair of the persistence stall, 683d401) and the current code (MutNone) *)
Inductive mutation := MutNone | Mut1 | Mut2 | Mut3 | Mut4 | Mut5 | Mut6 | Mut7.

Record config := {
  c_cap : nat;                          (* MaxPreMergerBatches *)
  c_qcap : nat;                         (* cap(pingMergerCh) = 10 *)
  c_ll : bool;                          (* options.LowerLevelUpdate != nil *)
  c_over : nat -> bool -> bool -> bool  (* dirty limits exceeded, as a function of
                                           len(top), mid != nil, base != nil; constantly
                                           false when no limit is configured *)
}.

(* merger: positions in runMerger's loop *)
Inductive mpc :=
| MReply            (* loop top: replyToPings(pings) *)
| MCheck            (* mergerWaitForWork: Lock; top == nil ? arm waitDirtyIncomingCh; Unlock *)
| MSelect           (* select { stopCh, pingMergerCh, waitDirtyIncomingCh } *)
| MDrain            (* receivePings (non-blocking drain) *)
| MIngest           (* gate "merger:ingest"; snapshot callback under the lock *)
| MMerge            (* gate "merger:swap"; mergerMain: merge outside the lock, install under it *)
| MHandover         (* gate "merger:handover"; mergerNotifyPersister's critical section *)
| MWaitOut (g : nat)(* select { stopCh, waitDirtyOutgoingCh (generation g) } *)
| MExit             (* deferred: receivePings; replyToPings *)
| MDone.            (* doneMergerCh closed *)

Inductive ppc :=
| PTop              (* Lock; for base == nil && !closed { maybe ping; Wait } *)
| PWait             (* inside stackDirtyBaseCond.Wait(), not woken *)
| PWoken            (* woken, has to re-acquire the lock *)
| PChk              (* after Unlock: if isClosed() return *)
| PUpdate           (* gate "persister:begin"; LowerLevelUpdate outside the lock *)
| PPublish          (* gate "persister:publish"; critical section *)
| PCloseOut (g : option nat) (* close(waitDirtyOutgoingCh) taken at publish *)
| PSendLocked       (* only with Mut1: blocked in the ping send, holding the lock *)
| PDone.            (* donePersisterCh closed *)

Inductive cpc := CIdle | CJoinM | CJoinP | CFinal | CRet.

Record state := {
  z_top : nat;
  z_mid : bool;
  z_base : bool;
  z_closed : bool;
  z_armed : bool;
  z_incc : bool;
  z_out : option nat;
  z_onext : nat;
  z_oready : bool;
  z_q : list bool;
  z_lk : bool;
  z_mp : mpc;
  z_pongs : nat;
  z_hp : bool;
  z_pp : ppc;
  z_cp : cpc;
  z_wwait : nat;
  z_wwoken : nat;
  z_wsort : nat;
  z_wclcur : nat;
  z_wclold : nat;
  z_wok : nat;
  z_werr : nat;
  z_nsyn : nat;
  z_nasy : nat;
  z_nans : nat;
  z_naret : nat;
  z_nerr : nat
}.

Definition set_top (v : nat) (s : state) : state :=
  {| z_top := v; z_mid := z_mid s; z_base := z_base s; z_closed := z_closed s; z_armed := z_armed s; z_incc := z_incc s; z_out := z_out s; z_onext := z_onext s; z_oready := z_oready s; z_q := z_q s; z_lk := z_lk s; z_mp := z_mp s; z_pongs := z_pongs s; z_hp := z_hp s; z_pp := z_pp s; z_cp := z_cp s; z_wwait := z_wwait s; z_wwoken := z_wwoken s; z_wsort := z_wsort s; z_wclcur := z_wclcur s; z_wclold := z_wclold s; z_wok := z_wok s; z_werr := z_werr s; z_nsyn := z_nsyn s; z_nasy := z_nasy s; z_nans := z_nans s; z_naret := z_naret s; z_nerr := z_nerr s |}.
Definition set_mid (v : bool) (s : state) : state :=
  {| z_top := z_top s; z_mid := v; z_base := z_base s; z_closed := z_closed s; z_armed := z_armed s; z_incc := z_incc s; z_out := z_out s; z_onext := z_onext s; z_oready := z_oready s; z_q := z_q s; z_lk := z_lk s; z_mp := z_mp s; z_pongs := z_pongs s; z_hp := z_hp s; z_pp := z_pp s; z_cp := z_cp s; z_wwait := z_wwait s; z_wwoken := z_wwoken s; z_wsort := z_wsort s; z_wclcur := z_wclcur s; z_wclold := z_wclold s; z_wok := z_wok s; z_werr := z_werr s; z_nsyn := z_nsyn s; z_nasy := z_nasy s; z_nans := z_nans s; z_naret := z_naret s; z_nerr := z_nerr s |}.
Definition set_base (v : bool) (s : state) : state :=
  {| z_top := z_top s; z_mid := z_mid s; z_base := v; z_closed := z_closed s; z_armed := z_armed s; z_incc := z_incc s; z_out := z_out s; z_onext := z_onext s; z_oready := z_oready s; z_q := z_q s; z_lk := z_lk s; z_mp := z_mp s; z_pongs := z_pongs s; z_hp := z_hp s; z_pp := z_pp s; z_cp := z_cp s; z_wwait := z_wwait s; z_wwoken := z_wwoken s; z_wsort := z_wsort s; z_wclcur := z_wclcur s; z_wclold := z_wclold s; z_wok := z_wok s; z_werr := z_werr s; z_nsyn := z_nsyn s; z_nasy := z_nasy s; z_nans := z_nans s; z_naret := z_naret s; z_nerr := z_nerr s |}.
Definition set_closed (v : bool) (s : state) : state :=
  {| z_top := z_top s; z_mid := z_mid s; z_base := z_base s; z_closed := v; z_armed := z_armed s; z_incc := z_incc s; z_out := z_out s; z_onext := z_onext s; z_oready := z_oready s; z_q := z_q s; z_lk := z_lk s; z_mp := z_mp s; z_pongs := z_pongs s; z_hp := z_hp s; z_pp := z_pp s; z_cp := z_cp s; z_wwait := z_wwait s; z_wwoken := z_wwoken s; z_wsort := z_wsort s; z_wclcur := z_wclcur s; z_wclold := z_wclold s; z_wok := z_wok s; z_werr := z_werr s; z_nsyn := z_nsyn s; z_nasy := z_nasy s; z_nans := z_nans s; z_naret := z_naret s; z_nerr := z_nerr s |}.
Definition set_armed (v : bool) (s : state) : state :=
  {| z_top := z_top s; z_mid := z_mid s; z_base := z_base s; z_closed := z_closed s; z_armed := v; z_incc := z_incc s; z_out := z_out s; z_onext := z_onext s; z_oready := z_oready s; z_q := z_q s; z_lk := z_lk s; z_mp := z_mp s; z_pongs := z_pongs s; z_hp := z_hp s; z_pp := z_pp s; z_cp := z_cp s; z_wwait := z_wwait s; z_wwoken := z_wwoken s; z_wsort := z_wsort s; z_wclcur := z_wclcur s; z_wclold := z_wclold s; z_wok := z_wok s; z_werr := z_werr s; z_nsyn := z_nsyn s; z_nasy := z_nasy s; z_nans := z_nans s; z_naret := z_naret s; z_nerr := z_nerr s |}.
Definition set_incc (v : bool) (s : state) : state :=
  {| z_top := z_top s; z_mid := z_mid s; z_base := z_base s; z_closed := z_closed s; z_armed := z_armed s; z_incc := v; z_out := z_out s; z_onext := z_onext s; z_oready := z_oready s; z_q := z_q s; z_lk := z_lk s; z_mp := z_mp s; z_pongs := z_pongs s; z_hp := z_hp s; z_pp := z_pp s; z_cp := z_cp s; z_wwait := z_wwait s; z_wwoken := z_wwoken s; z_wsort := z_wsort s; z_wclcur := z_wclcur s; z_wclold := z_wclold s; z_wok := z_wok s; z_werr := z_werr s; z_nsyn := z_nsyn s; z_nasy := z_nasy s; z_nans := z_nans s; z_naret := z_naret s; z_nerr := z_nerr s |}.
Definition set_out (v : option nat) (s : state) : state :=
  {| z_top := z_top s; z_mid := z_mid s; z_base := z_base s; z_closed := z_closed s; z_armed := z_armed s; z_incc := z_incc s; z_out := v; z_onext := z_onext s; z_oready := z_oready s; z_q := z_q s; z_lk := z_lk s; z_mp := z_mp s; z_pongs := z_pongs s; z_hp := z_hp s; z_pp := z_pp s; z_cp := z_cp s; z_wwait := z_wwait s; z_wwoken := z_wwoken s; z_wsort := z_wsort s; z_wclcur := z_wclcur s; z_wclold := z_wclold s; z_wok := z_wok s; z_werr := z_werr s; z_nsyn := z_nsyn s; z_nasy := z_nasy s; z_nans := z_nans s; z_naret := z_naret s; z_nerr := z_nerr s |}.
Definition set_onext (v : nat) (s : state) : state :=
  {| z_top := z_top s; z_mid := z_mid s; z_base := z_base s; z_closed := z_closed s; z_armed := z_armed s; z_incc := z_incc s; z_out := z_out s; z_onext := v; z_oready := z_oready s; z_q := z_q s; z_lk := z_lk s; z_mp := z_mp s; z_pongs := z_pongs s; z_hp := z_hp s; z_pp := z_pp s; z_cp := z_cp s; z_wwait := z_wwait s; z_wwoken := z_wwoken s; z_wsort := z_wsort s; z_wclcur := z_wclcur s; z_wclold := z_wclold s; z_wok := z_wok s; z_werr := z_werr s; z_nsyn := z_nsyn s; z_nasy := z_nasy s; z_nans := z_nans s; z_naret := z_naret s; z_nerr := z_nerr s |}.
Definition set_oready (v : bool) (s : state) : state :=
  {| z_top := z_top s; z_mid := z_mid s; z_base := z_base s; z_closed := z_closed s; z_armed := z_armed s; z_incc := z_incc s; z_out := z_out s; z_onext := z_onext s; z_oready := v; z_q := z_q s; z_lk := z_lk s; z_mp := z_mp s; z_pongs := z_pongs s; z_hp := z_hp s; z_pp := z_pp s; z_cp := z_cp s; z_wwait := z_wwait s; z_wwoken := z_wwoken s; z_wsort := z_wsort s; z_wclcur := z_wclcur s; z_wclold := z_wclold s; z_wok := z_wok s; z_werr := z_werr s; z_nsyn := z_nsyn s; z_nasy := z_nasy s; z_nans := z_nans s; z_naret := z_naret s; z_nerr := z_nerr s |}.
Definition set_q (v : list bool) (s : state) : state :=
  {| z_top := z_top s; z_mid := z_mid s; z_base := z_base s; z_closed := z_closed s; z_armed := z_armed s; z_incc := z_incc s; z_out := z_out s; z_onext := z_onext s; z_oready := z_oready s; z_q := v; z_lk := z_lk s; z_mp := z_mp s; z_pongs := z_pongs s; z_hp := z_hp s; z_pp := z_pp s; z_cp := z_cp s; z_wwait := z_wwait s; z_wwoken := z_wwoken s; z_wsort := z_wsort s; z_wclcur := z_wclcur s; z_wclold := z_wclold s; z_wok := z_wok s; z_werr := z_werr s; z_nsyn := z_nsyn s; z_nasy := z_nasy s; z_nans := z_nans s; z_naret := z_naret s; z_nerr := z_nerr s |}.
Definition set_lk (v : bool) (s : state) : state :=
  {| z_top := z_top s; z_mid := z_mid s; z_base := z_base s; z_closed := z_closed s; z_armed := z_armed s; z_incc := z_incc s; z_out := z_out s; z_onext := z_onext s; z_oready := z_oready s; z_q := z_q s; z_lk := v; z_mp := z_mp s; z_pongs := z_pongs s; z_hp := z_hp s; z_pp := z_pp s; z_cp := z_cp s; z_wwait := z_wwait s; z_wwoken := z_wwoken s; z_wsort := z_wsort s; z_wclcur := z_wclcur s; z_wclold := z_wclold s; z_wok := z_wok s; z_werr := z_werr s; z_nsyn := z_nsyn s; z_nasy := z_nasy s; z_nans := z_nans s; z_naret := z_naret s; z_nerr := z_nerr s |}.
Definition set_mp (v : mpc) (s : state) : state :=
  {| z_top := z_top s; z_mid := z_mid s; z_base := z_base s; z_closed := z_closed s; z_armed := z_armed s; z_incc := z_incc s; z_out := z_out s; z_onext := z_onext s; z_oready := z_oready s; z_q := z_q s; z_lk := z_lk s; z_mp := v; z_pongs := z_pongs s; z_hp := z_hp s; z_pp := z_pp s; z_cp := z_cp s; z_wwait := z_wwait s; z_wwoken := z_wwoken s; z_wsort := z_wsort s; z_wclcur := z_wclcur s; z_wclold := z_wclold s; z_wok := z_wok s; z_werr := z_werr s; z_nsyn := z_nsyn s; z_nasy := z_nasy s; z_nans := z_nans s; z_naret := z_naret s; z_nerr := z_nerr s |}.
Definition set_pongs (v : nat) (s : state) : state :=
  {| z_top := z_top s; z_mid := z_mid s; z_base := z_base s; z_closed := z_closed s; z_armed := z_armed s; z_incc := z_incc s; z_out := z_out s; z_onext := z_onext s; z_oready := z_oready s; z_q := z_q s; z_lk := z_lk s; z_mp := z_mp s; z_pongs := v; z_hp := z_hp s; z_pp := z_pp s; z_cp := z_cp s; z_wwait := z_wwait s; z_wwoken := z_wwoken s; z_wsort := z_wsort s; z_wclcur := z_wclcur s; z_wclold := z_wclold s; z_wok := z_wok s; z_werr := z_werr s; z_nsyn := z_nsyn s; z_nasy := z_nasy s; z_nans := z_nans s; z_naret := z_naret s; z_nerr := z_nerr s |}.
Definition set_hp (v : bool) (s : state) : state :=
  {| z_top := z_top s; z_mid := z_mid s; z_base := z_base s; z_closed := z_closed s; z_armed := z_armed s; z_incc := z_incc s; z_out := z_out s; z_onext := z_onext s; z_oready := z_oready s; z_q := z_q s; z_lk := z_lk s; z_mp := z_mp s; z_pongs := z_pongs s; z_hp := v; z_pp := z_pp s; z_cp := z_cp s; z_wwait := z_wwait s; z_wwoken := z_wwoken s; z_wsort := z_wsort s; z_wclcur := z_wclcur s; z_wclold := z_wclold s; z_wok := z_wok s; z_werr := z_werr s; z_nsyn := z_nsyn s; z_nasy := z_nasy s; z_nans := z_nans s; z_naret := z_naret s; z_nerr := z_nerr s |}.
Definition set_pp (v : ppc) (s : state) : state :=
  {| z_top := z_top s; z_mid := z_mid s; z_base := z_base s; z_closed := z_closed s; z_armed := z_armed s; z_incc := z_incc s; z_out := z_out s; z_onext := z_onext s; z_oready := z_oready s; z_q := z_q s; z_lk := z_lk s; z_mp := z_mp s; z_pongs := z_pongs s; z_hp := z_hp s; z_pp := v; z_cp := z_cp s; z_wwait := z_wwait s; z_wwoken := z_wwoken s; z_wsort := z_wsort s; z_wclcur := z_wclcur s; z_wclold := z_wclold s; z_wok := z_wok s; z_werr := z_werr s; z_nsyn := z_nsyn s; z_nasy := z_nasy s; z_nans := z_nans s; z_naret := z_naret s; z_nerr := z_nerr s |}.
Definition set_cp (v : cpc) (s : state) : state :=
  {| z_top := z_top s; z_mid := z_mid s; z_base := z_base s; z_closed := z_closed s; z_armed := z_armed s; z_incc := z_incc s; z_out := z_out s; z_onext := z_onext s; z_oready := z_oready s; z_q := z_q s; z_lk := z_lk s; z_mp := z_mp s; z_pongs := z_pongs s; z_hp := z_hp s; z_pp := z_pp s; z_cp := v; z_wwait := z_wwait s; z_wwoken := z_wwoken s; z_wsort := z_wsort s; z_wclcur := z_wclcur s; z_wclold := z_wclold s; z_wok := z_wok s; z_werr := z_werr s; z_nsyn := z_nsyn s; z_nasy := z_nasy s; z_nans := z_nans s; z_naret := z_naret s; z_nerr := z_nerr s |}.
Definition set_wwait (v : nat) (s : state) : state :=
  {| z_top := z_top s; z_mid := z_mid s; z_base := z_base s; z_closed := z_closed s; z_armed := z_armed s; z_incc := z_incc s; z_out := z_out s; z_onext := z_onext s; z_oready := z_oready s; z_q := z_q s; z_lk := z_lk s; z_mp := z_mp s; z_pongs := z_pongs s; z_hp := z_hp s; z_pp := z_pp s; z_cp := z_cp s; z_wwait := v; z_wwoken := z_wwoken s; z_wsort := z_wsort s; z_wclcur := z_wclcur s; z_wclold := z_wclold s; z_wok := z_wok s; z_werr := z_werr s; z_nsyn := z_nsyn s; z_nasy := z_nasy s; z_nans := z_nans s; z_naret := z_naret s; z_nerr := z_nerr s |}.
Definition set_wwoken (v : nat) (s : state) : state :=
  {| z_top := z_top s; z_mid := z_mid s; z_base := z_base s; z_closed := z_closed s; z_armed := z_armed s; z_incc := z_incc s; z_out := z_out s; z_onext := z_onext s; z_oready := z_oready s; z_q := z_q s; z_lk := z_lk s; z_mp := z_mp s; z_pongs := z_pongs s; z_hp := z_hp s; z_pp := z_pp s; z_cp := z_cp s; z_wwait := z_wwait s; z_wwoken := v; z_wsort := z_wsort s; z_wclcur := z_wclcur s; z_wclold := z_wclold s; z_wok := z_wok s; z_werr := z_werr s; z_nsyn := z_nsyn s; z_nasy := z_nasy s; z_nans := z_nans s; z_naret := z_naret s; z_nerr := z_nerr s |}.
Definition set_wsort (v : nat) (s : state) : state :=
  {| z_top := z_top s; z_mid := z_mid s; z_base := z_base s; z_closed := z_closed s; z_armed := z_armed s; z_incc := z_incc s; z_out := z_out s; z_onext := z_onext s; z_oready := z_oready s; z_q := z_q s; z_lk := z_lk s; z_mp := z_mp s; z_pongs := z_pongs s; z_hp := z_hp s; z_pp := z_pp s; z_cp := z_cp s; z_wwait := z_wwait s; z_wwoken := z_wwoken s; z_wsort := v; z_wclcur := z_wclcur s; z_wclold := z_wclold s; z_wok := z_wok s; z_werr := z_werr s; z_nsyn := z_nsyn s; z_nasy := z_nasy s; z_nans := z_nans s; z_naret := z_naret s; z_nerr := z_nerr s |}.
Definition set_wclcur (v : nat) (s : state) : state :=
  {| z_top := z_top s; z_mid := z_mid s; z_base := z_base s; z_closed := z_closed s; z_armed := z_armed s; z_incc := z_incc s; z_out := z_out s; z_onext := z_onext s; z_oready := z_oready s; z_q := z_q s; z_lk := z_lk s; z_mp := z_mp s; z_pongs := z_pongs s; z_hp := z_hp s; z_pp := z_pp s; z_cp := z_cp s; z_wwait := z_wwait s; z_wwoken := z_wwoken s; z_wsort := z_wsort s; z_wclcur := v; z_wclold := z_wclold s; z_wok := z_wok s; z_werr := z_werr s; z_nsyn := z_nsyn s; z_nasy := z_nasy s; z_nans := z_nans s; z_naret := z_naret s; z_nerr := z_nerr s |}.
Definition set_wclold (v : nat) (s : state) : state :=
  {| z_top := z_top s; z_mid := z_mid s; z_base := z_base s; z_closed := z_closed s; z_armed := z_armed s; z_incc := z_incc s; z_out := z_out s; z_onext := z_onext s; z_oready := z_oready s; z_q := z_q s; z_lk := z_lk s; z_mp := z_mp s; z_pongs := z_pongs s; z_hp := z_hp s; z_pp := z_pp s; z_cp := z_cp s; z_wwait := z_wwait s; z_wwoken := z_wwoken s; z_wsort := z_wsort s; z_wclcur := z_wclcur s; z_wclold := v; z_wok := z_wok s; z_werr := z_werr s; z_nsyn := z_nsyn s; z_nasy := z_nasy s; z_nans := z_nans s; z_naret := z_naret s; z_nerr := z_nerr s |}.
Definition set_wok (v : nat) (s : state) : state :=
  {| z_top := z_top s; z_mid := z_mid s; z_base := z_base s; z_closed := z_closed s; z_armed := z_armed s; z_incc := z_incc s; z_out := z_out s; z_onext := z_onext s; z_oready := z_oready s; z_q := z_q s; z_lk := z_lk s; z_mp := z_mp s; z_pongs := z_pongs s; z_hp := z_hp s; z_pp := z_pp s; z_cp := z_cp s; z_wwait := z_wwait s; z_wwoken := z_wwoken s; z_wsort := z_wsort s; z_wclcur := z_wclcur s; z_wclold := z_wclold s; z_wok := v; z_werr := z_werr s; z_nsyn := z_nsyn s; z_nasy := z_nasy s; z_nans := z_nans s; z_naret := z_naret s; z_nerr := z_nerr s |}.
Definition set_werr (v : nat) (s : state) : state :=
  {| z_top := z_top s; z_mid := z_mid s; z_base := z_base s; z_closed := z_closed s; z_armed := z_armed s; z_incc := z_incc s; z_out := z_out s; z_onext := z_onext s; z_oready := z_oready s; z_q := z_q s; z_lk := z_lk s; z_mp := z_mp s; z_pongs := z_pongs s; z_hp := z_hp s; z_pp := z_pp s; z_cp := z_cp s; z_wwait := z_wwait s; z_wwoken := z_wwoken s; z_wsort := z_wsort s; z_wclcur := z_wclcur s; z_wclold := z_wclold s; z_wok := z_wok s; z_werr := v; z_nsyn := z_nsyn s; z_nasy := z_nasy s; z_nans := z_nans s; z_naret := z_naret s; z_nerr := z_nerr s |}.
Definition set_nsyn (v : nat) (s : state) : state :=
  {| z_top := z_top s; z_mid := z_mid s; z_base := z_base s; z_closed := z_closed s; z_armed := z_armed s; z_incc := z_incc s; z_out := z_out s; z_onext := z_onext s; z_oready := z_oready s; z_q := z_q s; z_lk := z_lk s; z_mp := z_mp s; z_pongs := z_pongs s; z_hp := z_hp s; z_pp := z_pp s; z_cp := z_cp s; z_wwait := z_wwait s; z_wwoken := z_wwoken s; z_wsort := z_wsort s; z_wclcur := z_wclcur s; z_wclold := z_wclold s; z_wok := z_wok s; z_werr := z_werr s; z_nsyn := v; z_nasy := z_nasy s; z_nans := z_nans s; z_naret := z_naret s; z_nerr := z_nerr s |}.
Definition set_nasy (v : nat) (s : state) : state :=
  {| z_top := z_top s; z_mid := z_mid s; z_base := z_base s; z_closed := z_closed s; z_armed := z_armed s; z_incc := z_incc s; z_out := z_out s; z_onext := z_onext s; z_oready := z_oready s; z_q := z_q s; z_lk := z_lk s; z_mp := z_mp s; z_pongs := z_pongs s; z_hp := z_hp s; z_pp := z_pp s; z_cp := z_cp s; z_wwait := z_wwait s; z_wwoken := z_wwoken s; z_wsort := z_wsort s; z_wclcur := z_wclcur s; z_wclold := z_wclold s; z_wok := z_wok s; z_werr := z_werr s; z_nsyn := z_nsyn s; z_nasy := v; z_nans := z_nans s; z_naret := z_naret s; z_nerr := z_nerr s |}.
Definition set_nans (v : nat) (s : state) : state :=
  {| z_top := z_top s; z_mid := z_mid s; z_base := z_base s; z_closed := z_closed s; z_armed := z_armed s; z_incc := z_incc s; z_out := z_out s; z_onext := z_onext s; z_oready := z_oready s; z_q := z_q s; z_lk := z_lk s; z_mp := z_mp s; z_pongs := z_pongs s; z_hp := z_hp s; z_pp := z_pp s; z_cp := z_cp s; z_wwait := z_wwait s; z_wwoken := z_wwoken s; z_wsort := z_wsort s; z_wclcur := z_wclcur s; z_wclold := z_wclold s; z_wok := z_wok s; z_werr := z_werr s; z_nsyn := z_nsyn s; z_nasy := z_nasy s; z_nans := v; z_naret := z_naret s; z_nerr := z_nerr s |}.
Definition set_naret (v : nat) (s : state) : state :=
  {| z_top := z_top s; z_mid := z_mid s; z_base := z_base s; z_closed := z_closed s; z_armed := z_armed s; z_incc := z_incc s; z_out := z_out s; z_onext := z_onext s; z_oready := z_oready s; z_q := z_q s; z_lk := z_lk s; z_mp := z_mp s; z_pongs := z_pongs s; z_hp := z_hp s; z_pp := z_pp s; z_cp := z_cp s; z_wwait := z_wwait s; z_wwoken := z_wwoken s; z_wsort := z_wsort s; z_wclcur := z_wclcur s; z_wclold := z_wclold s; z_wok := z_wok s; z_werr := z_werr s; z_nsyn := z_nsyn s; z_nasy := z_nasy s; z_nans := z_nans s; z_naret := v; z_nerr := z_nerr s |}.
Definition set_nerr (v : nat) (s : state) : state :=
  {| z_top := z_top s; z_mid := z_mid s; z_base := z_base s; z_closed := z_closed s; z_armed := z_armed s; z_incc := z_incc s; z_out := z_out s; z_onext := z_onext s; z_oready := z_oready s; z_q := z_q s; z_lk := z_lk s; z_mp := z_mp s; z_pongs := z_pongs s; z_hp := z_hp s; z_pp := z_pp s; z_cp := z_cp s; z_wwait := z_wwait s; z_wwoken := z_wwoken s; z_wsort := z_wsort s; z_wclcur := z_wclcur s; z_wclold := z_wclold s; z_wok := z_wok s; z_werr := z_werr s; z_nsyn := z_nsyn s; z_nasy := z_nasy s; z_nans := z_nans s; z_naret := z_naret s; z_nerr := v |}.

Definition init (c : config) : state :=
  {| z_top := 0; z_mid := false; z_base := false; z_closed := false;
     z_armed := false; z_incc := false; z_out := None; z_onext := 0; z_oready := false;
     z_q := []; z_lk := false;
     z_mp := MReply; z_pongs := 0; z_hp := false; z_pp := (if c_ll c then PTop else PDone); z_cp := CIdle;
     z_wwait := 0; z_wwoken := 0; z_wsort := 0; z_wclcur := 0; z_wclold := 0; z_wok := 0; z_werr := 0;
     z_nsyn := 0; z_nasy := 0; z_nans := 0; z_naret := 0; z_nerr := 0 |}.

Inductive step_label :=
(* writers: ExecuteBatch (collection.go 338-387) *)
| LWCall        (* a new call: Lock; back-pressure loop; closed check; push; Unlock  (338-371) *)
| LWRecheck     (* a woken writer re-acquires the lock and re-runs the loop condition (340-359) *)
| LWCloseInc    (* close(waitDirtyIncomingCh) of the generation the merger waits on (375-378) *)
| LWCloseOld    (* ... of an older generation: no effect *)
| LWRelock      (* only Mut4: re-take the lock after sorting and Wait *)
(* notifiers: NotifyMerger (collection_merger.go 21-52) *)
| LNCall (sync : bool)   (* the call is made; next: the send *)
| LNSend (sync : bool)   (* case pingMergerCh <- ping: enabled only while the queue has room (32-35) *)
| LNStopSend (sync : bool) (* case <-stopCh of the send select: return ErrClosed (36-37) *)
| LNStopWaitQ (n : nat)  (* case <-stopCh of the pong select (43-44), the caller's ping being the
                            n-th entry of the queue: from now on nobody listens to its pong *)
| LNStopWaitP            (* ... the caller's ping being among those the merger has collected *)
(* merger *)
| LMReply | LMCheck | LMSelStop | LMSelPing | LMSelInc | LMDrain | LMIngest
| LMMergeOk | LMMergeFail | LMHandover | LMOutStop | LMOutWake | LMExit
(* persister *)
| LPTop | LPSendLocked | LPChk | LPUpdOk | LPUpdFail | LPPublish | LPCloseOut
(* closer: Close (collection.go 122-181) *)
| LCBegin | LCJoinM | LCJoinP | LCFinal.

Fixpoint nsync (q : list bool) : nat :=
  match q with [] => 0 | b :: r => (if b then 1 else 0) + nsync r end.

(* the n-th queued ping loses its listener: it behaves like an asynchronous one *)
Fixpoint orphan_nth (n : nat) (q : list bool) : option (list bool) :=
  match q, n with
  | [], _ => None
  | true :: r, 0 => Some (false :: r)
  | false :: _, 0 => None
  | b :: r, S k => match orphan_nth k r with Some r' => Some (b :: r') | None => None end
  end.

Definition guard (b : bool) (s : state) : option state := if b then Some s else None.

Definition room (c : config) (s : state) : bool := List.length (z_q s) <? c_qcap c.

(* Cond.Broadcast: every waiter becomes runnable (it still has to get the lock) *)
Definition broadcast_top (s : state) : state :=
  set_wwoken (z_wwoken s + z_wwait s) (set_wwait 0 s).
Definition broadcast_base (s : state) : state :=
  match z_pp s with PWait => set_pp PWoken s | _ => s end.

(* ExecuteBatch's critical section, first entry (recheck = false) or after a wake-up *)
Definition writer_enter (m : mutation) (c : config) (recheck : bool) (s : state) : state :=
  let skip_loop := match m with Mut2 => recheck | _ => false end in
  if negb skip_loop && (c_cap c <=? z_top s) then
    if z_closed s then set_werr (S (z_werr s)) s               (* 342-345 *)
    else match m with
         | Mut4 => set_wsort (S (z_wsort s)) s                 (* seeded: Unlock; sort; Lock; Wait *)
         | _ => set_wwait (S (z_wwait s)) s                    (* 352: Wait *)
         end
  else if z_closed s then set_werr (S (z_werr s)) s            (* 356-359 *)
  else
    let s1 := set_top (S (z_top s)) s in                       (* 363-366 *)
    if z_armed s then set_armed false (set_wclcur (S (z_wclcur s)) s1)  (* 368-369, close pending *)
    else set_wok (S (z_wok s)) s1.

Definition is_mwaitout (p : mpc) : bool := match p with MWaitOut _ => true | _ => false end.

Definition step_gen (m : mutation) (c : config) (s : state) (l : step_label) : option state :=
  match l with
  | LWCall => guard (negb (z_lk s)) (writer_enter m c false s)
  | LWRecheck =>
      guard (negb (z_lk s) && (0 <? z_wwoken s))
            (writer_enter m c true (set_wwoken (z_wwoken s - 1) s))
  | LWCloseInc =>
      guard (0 <? z_wclcur s)
            (set_wok (S (z_wok s)) (set_incc true (set_wclcur (z_wclcur s - 1) s)))
  | LWCloseOld =>
      guard (0 <? z_wclold s) (set_wok (S (z_wok s)) (set_wclold (z_wclold s - 1) s))
  | LWRelock =>
      guard (negb (z_lk s) && (0 <? z_wsort s))
            (set_wwait (S (z_wwait s)) (set_wsort (z_wsort s - 1) s))
  | LNCall true => Some (set_nsyn (S (z_nsyn s)) s)
  | LNCall false => Some (set_nasy (S (z_nasy s)) s)
  | LNSend true =>
      guard ((0 <? z_nsyn s) && room c s)
            (set_q (z_q s ++ [true]) (set_nsyn (z_nsyn s - 1) s))
  | LNSend false =>
      guard ((0 <? z_nasy s) && room c s)
            (set_naret (S (z_naret s)) (set_q (z_q s ++ [false]) (set_nasy (z_nasy s - 1) s)))
  | LNStopSend true =>
      match m with
      | Mut6 => None
      | _ => guard (z_closed s && (0 <? z_nsyn s))
                   (set_nerr (S (z_nerr s)) (set_nsyn (z_nsyn s - 1) s))
      end
  | LNStopSend false =>
      match m with
      | Mut6 => None
      | _ => guard (z_closed s && (0 <? z_nasy s))
                   (set_nerr (S (z_nerr s)) (set_nasy (z_nasy s - 1) s))
      end
  | LNStopWaitQ n =>
      match m with
      | Mut6 => None
      | _ => if z_closed s then
               match orphan_nth n (z_q s) with
               | Some q' => Some (set_nerr (S (z_nerr s)) (set_q q' s))
               | None => None
               end
             else None
      end
  | LNStopWaitP =>
      match m with
      | Mut6 => None
      | _ => guard (z_closed s && (0 <? z_pongs s))
                   (set_nerr (S (z_nerr s)) (set_pongs (z_pongs s - 1) s))
      end
  (* ---- merger ---- *)
  | LMReply =>        (* collection_merger.go 82-83: close every collected pongCh *)
      match z_mp s with
      | MReply => Some (set_mp MCheck (set_pongs 0 (set_nans (z_nans s + z_pongs s) s)))
      | _ => None end
  | LMCheck =>        (* 217-227 *)
      match z_mp s with
      | MCheck =>
          guard (negb (z_lk s))
            (let retry := match m with                      (* retryHandover; Mut7: ignored *)
                          | Mut7 => false
                          | _ => z_hp s && z_mid s && negb (z_base s)
                          end in
             if (z_top s =? 0) && negb retry then
               set_mp MSelect (set_hp false (set_armed true (set_incc false
                 (set_wclold (z_wclold s + z_wclcur s) (set_wclcur 0 s)))))
             else set_mp MDrain (set_hp false s))
      | _ => None end
  | LMSelStop =>      (* 233-235: return stopped; the deferred exit handler runs *)
      match z_mp s with MSelect => guard (z_closed s) (set_mp MExit s) | _ => None end
  | LMSelPing =>      (* 237-244 *)
      match z_mp s, z_q s with
      | MSelect, b :: r =>
          Some (set_mp MDrain (set_q r (set_pongs (z_pongs s + (if b then 1 else 0)) s)))
      | _, _ => None end
  | LMSelInc =>       (* 246-247 *)
      match z_mp s with MSelect => guard (z_incc s) (set_mp MDrain s) | _ => None end
  | LMDrain =>        (* 255: receivePings *)
      match z_mp s with
      | MDrain => Some (set_mp MIngest (set_q [] (set_pongs (z_pongs s + nsync (z_q s)) s)))
      | _ => None end
  | LMIngest =>       (* 103-129: top := nil; mid := ss; Broadcast *)
      match z_mp s with
      | MIngest =>
          guard (negb (z_lk s))
                (set_mp MMerge (broadcast_top (set_mid true (set_top 0 s))))
      | _ => None end
  | LMMergeOk =>      (* 141, mergerMain 292-299 / 308-311 *)
      match z_mp s with
      | MMerge => guard (negb (z_lk s)) (set_mp MHandover s)
      | _ => None end
  | LMMergeFail =>    (* 142-144: continue OUTER *)
      match z_mp s with MMerge => Some (set_mp MReply s) | _ => None end
  | LMHandover =>     (* 338-388 *)
      match z_mp s with
      | MHandover =>
          if negb (c_ll c) then Some (set_mp MReply (set_hp false s))   (* no lower level *)
          else
            guard (negb (z_lk s))
              (let s1 :=
                 if negb (z_base s) && z_mid s then          (* hand-over; handoverPending = false *)
                   broadcast_base
                     (set_hp false (set_onext (S (z_onext s)) (set_out (Some (z_onext s))
                        (set_mid false (set_base true s)))))
                 else set_hp (z_mid s) s in                  (* skipped: handoverPending = mid != nil *)
               if c_over c (z_top s1) (z_mid s1) (z_base s1) then   (* 377-386 *)
                 match z_out s1 with
                 | Some g => set_mp (MWaitOut g) (set_oready false s1)
                 | None => set_mp MReply s1
                 end
               else set_mp MReply s1)
      | _ => None end
  | LMOutStop =>      (* 394-396 *)
      match z_mp s with MWaitOut _ => guard (z_closed s) (set_mp MReply s) | _ => None end
  | LMOutWake =>      (* 398-399 *)
      match z_mp s with MWaitOut _ => guard (z_oready s) (set_mp MReply s) | _ => None end
  | LMExit =>         (* 65-71 then 47-51 *)
      match z_mp s with
      | MExit =>
          match m with
          | Mut5 => Some (set_mp MDone (set_pongs 0 (set_nans (z_nans s + z_pongs s) s)))
          | _ => Some (set_mp MDone (set_q [] (set_pongs 0
                         (set_nans (z_nans s + z_pongs s + nsync (z_q s)) s))))
          end
      | _ => None end
  (* ---- persister ---- *)
  | LPTop =>          (* persister.go 32-64 *)
      match z_pp s with
      | PTop | PWoken =>
          guard (negb (z_lk s))
            (if negb (z_base s) && negb (z_closed s) then
               if z_armed s && z_mid s && (z_top s =? 0) then      (* 47-48 *)
                 if room c s then set_pp PWait (set_q (z_q s ++ [false]) s)   (* 51-54, 58 *)
                 else match m with
                      | Mut1 => set_pp PSendLocked (set_lk true s)  (* seeded: blocking send *)
                      | _ => set_pp PWait s                         (* default: ; 58 *)
                      end
               else set_pp PWait s
             else set_pp PChk s)
      | _ => None end
  | LPSendLocked =>
      match z_pp s with
      | PSendLocked =>
          guard (room c s) (set_pp PWait (set_lk false (set_q (z_q s ++ [false]) s)))
      | _ => None end
  | LPChk =>          (* 66-68 *)
      match z_pp s with
      | PChk => Some (if z_closed s then set_pp PDone s else set_pp PUpdate s)
      | _ => None end
  | LPUpdOk =>        (* 76, 87 *)
      match z_pp s with PUpdate => Some (set_pp PPublish s) | _ => None end
  | LPUpdFail =>      (* 77-85: continue OUTER *)
      match z_pp s with
      | PUpdate =>
          match m with
          | Mut3 => guard (negb (z_lk s)) (set_pp PWait s)   (* seeded: waits for a signal *)
          | _ => Some (set_pp PTop s)
          end
      | _ => None end
  | LPPublish =>      (* 94-117 *)
      match z_pp s with
      | PPublish =>
          guard (negb (z_lk s))
                (set_pp (PCloseOut (z_out s)) (set_out None (set_base false s)))
      | _ => None end
  | LPCloseOut =>     (* 131-133 *)
      match z_pp s with
      | PCloseOut og =>
          Some (set_pp PTop
                  (match og, z_mp s with
                   | Some g, MWaitOut g' => if g =? g' then set_oready true s else s
                   | _, _ => s end))
      | _ => None end
  (* ---- closer ---- *)
  | LCBegin =>        (* collection.go 131-141 *)
      match z_cp s with
      | CIdle =>
          guard (negb (z_lk s))
                (set_cp CJoinM (broadcast_base (broadcast_top (set_closed true s))))
      | _ => None end
  | LCJoinM =>        (* 143 *)
      match z_cp s, z_mp s with CJoinM, MDone => Some (set_cp CJoinP s) | _, _ => None end
  | LCJoinP =>        (* 146 *)
      match z_cp s, z_pp s with CJoinP, PDone => Some (set_cp CFinal s) | _, _ => None end
  | LCFinal =>        (* 149-171 *)
      match z_cp s with
      | CFinal =>
          guard (negb (z_lk s))
                (set_cp CRet (set_base false (set_mid false (set_top 0 s))))
      | _ => None end
  end.

(* the current code and the five seeded defects *)
Definition step := step_gen MutNone.
Definition step_mut1 := step_gen Mut1.   (* persister: blocking ping under the lock *)
Definition step_mut2 := step_gen Mut2.   (* for -> if around the back-pressure wait *)
Definition step_mut3 := step_gen Mut3.   (* persister waits on baseCond after a failed update *)
Definition step_mut4 := step_gen Mut4.   (* DeferredSort writer: relock and Wait without re-check *)
Definition step_mut5 := step_gen Mut5.   (* exiting merger leaves queued pings unanswered *)
Definition step_mut6 := step_gen Mut6.   (* NotifyMerger without the stop cases *)
Definition step_mut7 := step_gen Mut7.   (* merger goes to sleep although a hand-over is pending *)

Fixpoint run_gen (m : mutation) (c : config) (s : state) (ls : list step_label) : option state :=
  match ls with
  | [] => Some s
  | l :: r => match step_gen m c s l with Some s' => run_gen m c s' r | None => None end
  end.
Definition run := run_gen MutNone.

(* steps of the background goroutines and of calls already in flight: no new
   call, no Close, and the oracles (lower-level update, merge) succeed *)
Definition bg (l : step_label) : bool :=
  match l with
  | LWCall | LNCall _ | LCBegin | LPUpdFail | LMMergeFail | LWRelock | LPSendLocked => false
  | _ => true
  end.

(* ---- observation, for a harness that drives the real code through gates ---- *)
Record observable := {
  o_top : nat;            (* len(stackDirtyTop.a) *)
  o_blocked : nat;        (* TotExecuteBatchWaitBeg - TotExecuteBatchWaitEnd *)
  o_ok : nat;             (* ExecuteBatch calls that returned nil *)
  o_closedret : nat;      (* ... that returned ErrClosed *)
  o_syncret : nat;        (* synchronous NotifyMerger calls that returned nil *)
  o_notiferr : nat;       (* NotifyMerger calls that returned ErrClosed *)
  o_closed : bool
}.

Definition waitpong (s : state) : nat := nsync (z_q s) + z_pongs s.

Definition observe (s : state) : observable :=
  {| o_top := z_top s; o_blocked := z_wwait s + z_wwoken s;
     o_ok := z_wok s + z_wclcur s + z_wclold s; o_closedret := z_werr s;
     o_syncret := z_nans s; o_notiferr := z_nerr s; o_closed := z_closed s |}.

Definition run_schedule (c : config) (ls : list step_label) : option observable :=
  match run c (init c) ls with Some s => Some (observe s) | None => None end.

(* the gate of the instrumented code at which the actor is parked BEFORE the step *)
Definition gate_of (l : step_label) : option string :=
  match l with
  | LMIngest => Some "merger:ingest"%string
  | LMMergeOk | LMMergeFail => Some "merger:swap"%string
  | LMHandover => Some "merger:handover"%string
  | LPUpdOk | LPUpdFail => Some "persister:begin"%string
  | LPPublish => Some "persister:publish"%string
  | _ => None
  end.

(* the labels of the existing sync family (famsync.go) as schedules of this model *)
Definition sched_arrive : list step_label := [LWCall].
Definition sched_ingest : list step_label := [LMIngest].
Definition sched_cycleend_noll : list step_label := [LMMergeOk; LMHandover; LMReply; LMCheck].
Definition sched_notifysync : list step_label := [LNCall true; LNSend true].
