From Coq Require Import List NArith Bool Lia.
From Moss Require Import OpenDir.

Lemma open_loop_ro_effects o all l :
  o_readonly o = true -> forallb (fun e => negb (mutating e)) (snd (open_loop o all l)) = true.
Proof.
  intros Hro. induction l as [|[seq st] r IH]; simpl; auto.
  destruct st; simpl;
    try (destruct (open_loop o all r) as [res e]; simpl in *; rewrite Hro; simpl; exact IH).
  rewrite Hro, orb_true_r. reflexivity.
Qed.

(* C18: a read-only open performs no mutating effect, whatever the directory holds *)
Theorem readonly_open_never_mutates o d :
  o_readonly o = true -> forallb (fun e => negb (mutating e)) (snd (open_store o d)) = true.
Proof.
  intros Hro. unfold open_store. destruct d as [|x r]; auto.
  apply open_loop_ro_effects; auto.
Qed.

Theorem readonly_persist_never_mutates o cur has_data compacts :
  o_readonly o = true -> persist_effects o cur has_data compacts = [].
Proof. intros H. unfold persist_effects. now rewrite H. Qed.

(* which file is served: the newest one with a valid footer *)
Fixpoint newest_valid (newest_first : list (N * fstate)) : option (N * N) :=
  match newest_first with
  | [] => None
  | (seq, FValid fid) :: _ => Some (seq, fid)
  | _ :: r => newest_valid r
  end.

Theorem open_serves_newest_valid o d :
  d <> [] ->
  fst (open_store o d) =
    match newest_valid (rev d) with Some (s, f) => Opened s f | None => OpenFailed end.
Proof.
  intros Hd. unfold open_store. destruct d as [|x r]; [congruence|].
  generalize (map fst (x :: r)) as all. generalize (rev (x :: r)) as l.
  induction l as [|[seq st] l IH]; intros all; simpl; auto.
  destruct st; simpl; auto;
    specialize (IH all); destruct (open_loop o all l) as [res e]; simpl in *; auto.
Qed.

(* what a read-write open removes: exactly the other data files (unless KeepFiles) *)
Theorem open_removes_only_others o d seq fid :
  fst (open_store o d) = Opened seq fid ->
  forall s, In (ERemove s) (snd (open_store o d)) -> s <> seq /\ In s (map fst d).
Proof.
  unfold open_store. destruct d as [|x r]; [discriminate|].
  generalize (map fst (x :: r)) as all. generalize (rev (x :: r)) as l.
  induction l as [|[sq st] l IH]; intros all; simpl; [discriminate|].
  destruct st; simpl.
  - intros [= <- <-] s [H|H]; [discriminate|].
    destruct (o_keepfiles o || o_readonly o); [destruct H|].
    apply in_map_iff in H. destruct H as [y [[= <-] Hy]].
    apply filter_In in Hy. destruct Hy as [Hy1 Hy2].
    apply negb_true_iff, N.eqb_neq in Hy2. auto.
  - specialize (IH all). destruct (open_loop o all l) as [res e]; simpl in *.
    intros H s [H1|H1]; [discriminate|]. apply IH; auto.
  - specialize (IH all). destruct (open_loop o all l) as [res e]; simpl in *.
    intros H s [H1|H1]; [discriminate|]. apply IH; auto.
  - specialize (IH all). destruct (open_loop o all l) as [res e]; simpl in *.
    intros H s [H1|H1]; [discriminate|]. apply IH; auto.
Qed.
