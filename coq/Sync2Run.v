(* Sync2Run.v - executable glue that runs the fine-grained wait/notify model
   (Sync2.v) in lock step with the sync family of the Go harness
   (harness/director/famsync.go, ordinary cases).

   A harness label is ONE action from outside (a call is made, or an actor is
   let through a gate) followed by everything the real goroutines then do by
   themselves until every one of them is parked at a gate, blocked, asleep or
   gone (famsync.go: settle / quiesce / waitPark).  The model does the same:
   the external or gated step(s) of the label, then `settle` fires enabled
   FREE steps in a fixed priority order until none is enabled.

   Gating.  The ordinary cases of the family open the collection with gating
   on (harness.go: open) and nothing switches it off before Close.  closeAll
   starts Close, waits until the collection reports closed, THEN switches
   gating off and releases whoever is parked (and keeps releasing what still
   arrives at a gate).  So: the gated steps are held exactly while z_closed is
   false.  The gate "merger:wait" is off in these cases (h.gateWait = 0).

   The lemma at the end says that apply_label only ever takes `step`
   transitions; Sync2RunFacts.v turns it into `reachable`.
   Executable definitions, and that one lemma. *)
From Coq Require Import List Arith Bool.
From Moss Require Import Sync2.
Import ListNotations.
Open Scope nat_scope.

Inductive harness_label := HArrive | HIngest | HCycleEnd | HNotifySync | HClose.

(* calls from outside: made by the harness, never by the system itself *)
Definition external (l : step_label) : bool :=
  match l with LWCall | LNCall _ | LCBegin => true | _ => false end.

(* steps in front of which the instrumented code calls verifGate (Sync2.gate_of) *)
Definition gated (l : step_label) : bool :=
  match l with
  | LMIngest | LMMergeOk | LMMergeFail | LMHandover | LPUpdOk | LPUpdFail | LPPublish => true
  | _ => false
  end.

(* steps the lock-step never takes: the oracles succeed (string-append merge operator, no
   injected lower-level failure in these cases), and the steps that only a seeded defect has *)
Definition never (l : step_label) : bool :=
  match l with LMMergeFail | LPUpdFail | LWRelock | LPSendLocked => true | _ => false end.

(* gating is on until the harness has seen the collection closed *)
Definition gating (s : state) : bool := negb (z_closed s).

(* what the real system does by itself between two harness labels *)
Definition free_in (g : bool) (l : step_label) : bool :=
  negb (external l) && negb (never l) && negb (g && gated l).

(* the two instances, for reference: while the collection is open / after Close has begun *)
Definition free : step_label -> bool := free_in true.
Definition free_closed : step_label -> bool := free_in false.

(* Candidate steps in priority order.  Where the real code has a genuine race the order
   picks the outcome that the goroutine already blocked in the select takes (the stop case
   of a notifier that waits for its pong is ready the moment Close closes stopCh, its pong
   only after the merger has run on); the counts the harness reports are the same for
   every order (the runner compares answered + failed notifications as one number).
     writers first (they only need the lock), then notifiers, merger, persister, closer. *)
Definition candidates (s : state) : list step_label :=
  [LWCloseInc; LWCloseOld; LWRecheck;
   LNSend true; LNSend false; LNStopSend true; LNStopSend false; LNStopWaitP]
  ++ map LNStopWaitQ (seq 0 (List.length (z_q s)))
  ++ [LMReply; LMCheck; LMSelStop; LMSelInc; LMSelPing; LMDrain;
      LMIngest; LMMergeOk; LMHandover; LMOutWake; LMOutStop; LMExit;
      LPTop; LPChk; LPUpdOk; LPPublish; LPCloseOut;
      LCJoinM; LCJoinP; LCFinal].

Fixpoint first_enabled (c : config) (s : state) (ls : list step_label)
  : option (step_label * state) :=
  match ls with
  | [] => None
  | l :: r => match step c s l with
              | Some s' => Some (l, s')
              | None => first_enabled c s r
              end
  end.

Definition next_free (c : config) (s : state) : option (step_label * state) :=
  first_enabled c s (filter (free_in (gating s)) (candidates s)).

Fixpoint settle (c : config) (fuel : nat) (s : state) : state :=
  match fuel with
  | 0 => s
  | S f => match next_free c s with
           | Some (_, s') => settle c f s'
           | None => s
           end
  end.

(* the same, with the labels taken: for replay files and for the examples below *)
Fixpoint settle_trace (c : config) (fuel : nat) (s : state) : list step_label :=
  match fuel with
  | 0 => []
  | S f => match next_free c s with
           | Some (l, s') => l :: settle_trace c f s'
           | None => []
           end
  end.

(* nothing free is enabled: the state a settled harness observation corresponds to *)
Definition quiescent (c : config) (s : state) : bool :=
  match next_free c s with None => true | Some _ => false end.

(* far above what one label can set off with the few dozen callers of a case; the runner
   checks `quiescent` after every label and reports when the fuel did not suffice *)
Definition settle_fuel : nat := 2000.

(* The action from outside, per label (famsync.go, the switch in famSync):
   arrive      a goroutine calls ExecuteBatch                                  LWCall
   ingest      releaseActor(merger) at "merger:ingest", waitPark "merger:swap" LMIngest
   cycleend    release at "merger:swap", waitPark "merger:handover", release,
               quiesce                                            LMMergeOk, then LMHandover
   notifysync  a goroutine calls NotifyMerger(sync)           LNCall true (the send is free)
   close       closeAll: Close() is called; gating goes off once closed           LCBegin *)
Definition ext_steps (l : harness_label) : list step_label :=
  match l with
  | HArrive => [LWCall]
  | HIngest => [LMIngest]
  | HCycleEnd => [LMMergeOk; LMHandover]
  | HNotifySync => [LNCall true]
  | HClose => [LCBegin]
  end.

(* every action from outside is followed by what the system does by itself *)
Fixpoint drive (c : config) (s : state) (ls : list step_label) : option state :=
  match ls with
  | [] => Some s
  | l :: r => match step c s l with
              | Some s' => drive c (settle c settle_fuel s') r
              | None => None
              end
  end.

Definition apply_label (c : config) (s : state) (l : harness_label) : option state :=
  drive c s (ext_steps l).

(* the state of a collection that has been opened and has quiesced (harness.go: open):
   the merger has looked for work, found none and sleeps *)
Definition start (c : config) : state := settle c settle_fuel (init c).

(* a whole case *)
Fixpoint apply_labels (c : config) (s : state) (ls : list harness_label) : option state :=
  match ls with
  | [] => Some s
  | l :: r => match apply_label c s l with Some s' => apply_labels c s' r | None => None end
  end.

(* the configurations of the ordinary cases: no lower level, no dirty limits *)
Definition cfg_sync (cap : nat) : config :=
  {| c_cap := cap; c_qcap := 10; c_ll := false; c_over := fun _ _ _ => false |}.

(* what the harness line of a label is compared with *)
Definition obs_top (s : state) : nat := o_top (observe s).
Definition obs_blocked (s : state) : nat := o_blocked (observe s).
Definition obs_ok (s : state) : nat := o_ok (observe s).
Definition obs_closedret (s : state) : nat := o_closedret (observe s).
(* famsync.go counts a synchronous NotifyMerger as returned whatever it returned *)
Definition obs_syncdone (s : state) : nat := o_syncret (observe s) + o_notiferr (observe s).
Definition obs_syncret (s : state) : nat := o_syncret (observe s).
Definition obs_closed (s : state) : bool := o_closed (observe s).
(* the merger is parked at this gate (0 = none, 1 ingest, 2 swap, 3 handover) *)
Definition obs_mgate (s : state) : nat :=
  match z_mp s with MIngest => 1 | MMerge => 2 | MHandover => 3 | _ => 0 end.
(* ... or asleep in mergerWaitForWork's select *)
Definition obs_asleep (s : state) : bool :=
  match z_mp s with MSelect => true | _ => false end.

(* ---- apply_label only takes transitions of `step` ---- *)

Lemma run_app2 c ls1 : forall s s' ls2 s'',
  run c s ls1 = Some s' -> run c s' ls2 = Some s'' -> run c s (ls1 ++ ls2) = Some s''.
Proof.
  unfold run. induction ls1 as [|l r IH]; simpl; intros s s' ls2 s'' H1 H2.
  - inversion H1; subst. exact H2.
  - destruct (step_gen MutNone c s l) as [s1|] eqn:E; [|discriminate].
    eapply IH; eassumption.
Qed.

Lemma first_enabled_step c s ls l s' :
  first_enabled c s ls = Some (l, s') -> step c s l = Some s'.
Proof.
  induction ls as [|a r IH]; simpl; [discriminate|].
  destruct (step c s a) as [s1|] eqn:E; intros H.
  - inversion H; subst. exact E.
  - auto.
Qed.

Lemma first_enabled_in c s ls l s' :
  first_enabled c s ls = Some (l, s') -> In l ls.
Proof.
  induction ls as [|a r IH]; simpl; [discriminate|].
  destruct (step c s a) as [s1|] eqn:E; intros H.
  - inversion H; subst. now left.
  - right; auto.
Qed.

(* the steps settle takes are free ones *)
Lemma next_free_free c s l s' :
  next_free c s = Some (l, s') -> step c s l = Some s' /\ free_in (gating s) l = true.
Proof.
  unfold next_free. intros H. split.
  - eapply first_enabled_step; eassumption.
  - apply first_enabled_in in H. apply filter_In in H. tauto.
Qed.

Lemma settle_is_run c fuel : forall s,
  run c s (settle_trace c fuel s) = Some (settle c fuel s).
Proof.
  induction fuel as [|f IH]; simpl; intros s; [reflexivity|].
  destruct (next_free c s) as [[l s']|] eqn:E; [|reflexivity].
  apply next_free_free in E. destruct E as [E _].
  unfold run in *. simpl. fold (step c s l). rewrite E. apply IH.
Qed.

Lemma drive_is_run c ls : forall s s',
  drive c s ls = Some s' -> exists tr, run c s tr = Some s'.
Proof.
  induction ls as [|l r IH]; intros s s' H; cbn [drive] in H.
  - inversion H; subst. exists []. reflexivity.
  - destruct (step c s l) as [s1|] eqn:E; [|discriminate].
    destruct (IH _ _ H) as [tr Htr].
    exists ((l :: settle_trace c settle_fuel s1) ++ tr).
    eapply run_app2; [|exact Htr].
    unfold run. cbn [run_gen]. fold (step c s l). rewrite E. apply settle_is_run.
Qed.

Theorem apply_label_is_run c s l s' :
  apply_label c s l = Some s' -> exists ls, run c s ls = Some s'.
Proof. unfold apply_label. apply drive_is_run. Qed.

Theorem start_is_run c : exists ls, run c (init c) ls = Some (start c).
Proof. exists (settle_trace c settle_fuel (init c)). apply settle_is_run. Qed.

Theorem apply_labels_is_run c ls : forall s s',
  apply_labels c s ls = Some s' -> exists tr, run c s tr = Some s'.
Proof.
  induction ls as [|l r IH]; intros s s' H; cbn [apply_labels] in H.
  - inversion H; subst. exists []. reflexivity.
  - destruct (apply_label c s l) as [s1|] eqn:E; [|discriminate].
    destruct (apply_label_is_run _ _ _ _ E) as [t1 H1].
    destruct (IH _ _ H) as [t2 H2].
    exists (t1 ++ t2). eapply run_app2; eassumption.
Qed.

(* ---- the label-to-schedule maps of Sync2.v, re-derived by settle ---- *)

(* the first arrival on a fresh collection wakes the sleeping merger, which parks at the
   ingest gate; ingest; the cycle's end is Sync2.sched_cycleend_noll and two more steps
   (nothing is pending: the merger arms its channel and sleeps) *)
Example settle_from_init :
  settle_trace (cfg_sync 1) settle_fuel (init (cfg_sync 1)) = [LMReply; LMCheck].
Proof. vm_compute. reflexivity. Qed.

Example arrive_wakes_merger :
  let c := cfg_sync 1 in
  let s0 := start c in
  match step c s0 LWCall with
  | Some s1 => settle_trace c settle_fuel s1 = [LWCloseInc; LMSelInc; LMDrain]
  | None => False
  end.
Proof. vm_compute. reflexivity. Qed.

Example cycleend_is_sched_noll :
  let c := cfg_sync 1 in
  let s0 := start c in
  match apply_label c s0 HArrive with
  | Some s1 =>
      match apply_label c s1 HIngest with
      | Some s2 =>
          match run c s2 [LMMergeOk; LMHandover] with
          | Some s3 =>
              [LMMergeOk; LMHandover] ++ settle_trace c settle_fuel s3 = sched_cycleend_noll
              /\ apply_label c s2 HCycleEnd = Some (settle c settle_fuel s3)
              /\ obs_asleep (settle c settle_fuel s3) = true
          | None => False
          end
      | None => False
      end
  | None => False
  end.
Proof. vm_compute. repeat split; reflexivity. Qed.

Example notifysync_is_sched :
  let c := cfg_sync 1 in
  let s0 := start c in
  match step c s0 (LNCall true) with
  | Some s1 =>
      firstn 2 (LNCall true :: settle_trace c settle_fuel s1) = sched_notifysync
      /\ obs_mgate (settle c settle_fuel s1) = 1
  | None => False
  end.
Proof. vm_compute. repeat split; reflexivity. Qed.
