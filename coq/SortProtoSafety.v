(* C17 -- the deferred-sort ticket protocol: the invariant is inductive;
   safety and progress theorems for the current programs. *)

From Coq Require Import List Bool Arith ZArith Lia.
Import ListNotations.
From Moss Require Import SortProto SortProtoFacts.

Lemma step_frame_next : forall st g f x' f' k' v,
  Inv st -> g_frame (gs st g) = Some f ->
  fstep g (ss st (f_seg f)) (g_known (gs st g) (f_seg f)) f = FNext x' f' k' v ->
  Inv (mk_state (upd (gs st) g (mk_gst (g_kind (gs st g)) (g_sorted (gs st g)) (g_loop (gs st g))
                                       (g_code (gs st g)) (Some f')
                                       (upd (g_known (gs st g)) (f_seg f) k') (g_ret (gs st g))))
                (upd (ss st) (f_seg f) x') (note v (bad st))).
Proof.
  intros st g f x' f' k' v (Hb & Hs & Hg) Hfr Hst.
  remember (f_seg f) as s eqn:Hseg.
  remember (mk_gst (g_kind (gs st g)) (g_sorted (gs st g)) (g_loop (gs st g)) (g_code (gs st g))
                   (Some f') (upd (g_known (gs st g)) s k') (g_ret (gs st g))) as G' eqn:HG'.
  assert (Hoth : forall h, h <> g -> upd (gs st) g G' h = gs st h) by (intros; now apply upd_other).
  assert (Hfr' : g_frame (upd (gs st) g G' g) = Some f') by (rewrite upd_same, HG'; reflexivity).
  assert (Hkn' : g_known (upd (gs st) g G' g) s = k') by (rewrite upd_same, HG'; cbn; apply upd_same).
  destruct (Hg g) as (Hgf & Hgk).
  pose proof (Hgf f Hfr) as Hfi. rewrite <- Hseg in Hfi.
  destruct (fstep_next (gs st) (upd (gs st) g G') g (ss st s) _ f x' f' k' v s
              (eq_sym Hseg) Hfr eq_refl Hfi (Hs s) Hst Hoth Hfr' Hkn')
    as (Hv & Hf' & Hseg' & Hsy' & Hkm & Hstab & Hsi').
  split; [subst v; cbn; rewrite Hb; reflexivity|]. split; cbn.
  - intros s1. destruct (Nat.eq_dec s1 s) as [->|Hne]; [now rewrite upd_same|].
    rewrite upd_other by assumption.
    apply (sinv_passive (gs st) (upd (gs st) g G') g (ss st s1) s1 (Hs s1) Hoth).
    + rewrite upd_same, HG'. cbn. rewrite upd_other by assumption. auto.
    + intros f0 Hf0 Hs0. rewrite Hfr in Hf0. injection Hf0 as <-. congruence.
  - intros h. destruct (Nat.eq_dec h g) as [->|Hne].
    + rewrite upd_same. split.
      * intros f0 Hf0. rewrite HG' in Hf0. cbn in Hf0. injection Hf0 as <-.
        rewrite Hseg', upd_same, HG'. cbn. now rewrite upd_same.
      * assert (Hsf : forall s1, sfor (ss st) (gs st g) s1 = true ->
                                 sfor (upd (ss st) s x') G' s1 = true).
        { intros s1. unfold sfor. rewrite HG'. cbn. unfold upd.
          destruct (Nat.eqb_spec s1 s) as [->|_]; [|auto].
          destruct Hstab as (-> & _). intros H. apply orb_true_iff in H. apply orb_true_iff.
          destruct H; auto. }
        assert (Hkd : g_kind G' = g_kind (gs st g)) by (rewrite HG'; reflexivity).
        assert (Hfd : g_frame G' = Some f') by (rewrite HG'; reflexivity).
        assert (Hld : g_loop G' = g_loop (gs st g)) by (rewrite HG'; reflexivity).
        assert (Hcd : g_code G' = g_code (gs st g)) by (rewrite HG'; reflexivity).
        assert (Hsd : g_sorted G' = g_sorted (gs st g)) by (rewrite HG'; reflexivity).
        assert (Hrd : g_ret G' = g_ret (gs st g)) by (rewrite HG'; reflexivity).
        rewrite Hkd. destruct (g_kind (gs st g)) eqn:Hkind.
        -- destruct Hgk as (Hx & _). congruence.
        -- eapply einv_mono; try eassumption.
           rewrite Hfr, Hfd. split; congruence.
        -- destruct Hgk as (H1 & H2 & H3). rewrite Hfr in H3. rewrite Hld, Hcd, Hfd, Hrd.
           destruct H3 as (H3 & H4 & H5). repeat split; congruence.
        -- contradiction.
    + rewrite upd_other by assumption. eapply ginv_other; eauto.
      intros Ht. eapply sinv_ticket; eauto.
Qed.

Lemma cov_weaken : forall SS G lo hi z z', (z <= z')%Z -> cov SS G lo hi z -> cov SS G lo hi z'.
Proof. unfold cov; intros SS G lo hi z z' Hle H s Hs Hr. apply H; [lia|assumption]. Qed.

Lemma step_frame_ret : forall st g f b,
  Inv st -> g_frame (gs st g) = Some f ->
  fstep g (ss st (f_seg f)) (g_known (gs st g) (f_seg f)) f = FRet b ->
  Inv (match g_loop (gs st g) with
       | Some (l, seg) =>
           set_g st g (mk_gst (g_kind (gs st g)) (apply_acc (l_acc l) (g_sorted (gs st g)) b)
                              (Some (l, (seg - 1)%Z)) (g_code (gs st g)) None (g_known (gs st g))
                              (g_ret (gs st g)))
       | None =>
           set_g st g (mk_gst (g_kind (gs st g)) (g_sorted (gs st g)) None (g_code (gs st g)) None
                              (g_known (gs st g)) (Some b))
       end).
Proof.
  intros st g f b HI Hfr Hst. pose proof HI as (Hb & Hs & Hg).
  destruct (Hg g) as (Hgf & Hgk).
  pose proof (fstep_ret _ _ _ _ _ (Hgf f Hfr) Hst) as Hret.
  assert (Hns : forall f0, g_frame (gs st g) = Some f0 ->
            ~ sorter f0 (ss st (f_seg f0)) (g_known (gs st g) (f_seg f0))).
  { intros f0 Hf0 Hso. rewrite Hfr in Hf0. injection Hf0 as <-. eapply sorter_not_ret; eauto. }
  destruct (g_kind (gs st g)) eqn:Hkind.
  - destruct Hgk as (Hx & _). congruence.
  - (* ensureSorted *)
    destruct Hgk as [H|[H|[H|[H|[H|[H|[H|H]]]]]]];
      try (destruct H as (_ & _ & Hx & _); congruence); try (destruct H as (_ & _ & Hx); congruence).
    + destruct H as (z & Hc & Hl & Hz & Hcov & Hcall). unfold call_ok in Hcall. rewrite Hfr in Hcall.
      destruct Hcall as (Hsg & Hlo & Hsy). rewrite Hl.
      apply inv_local; [assumption|reflexivity|assumption|]. split; [intros f0 Hf0; discriminate|].
      cbn. rewrite ?Hkind. right; right; right; left. exists (z - 1)%Z. cbn.
      split; [assumption|]. split; [reflexivity|]. split; [lia|]. split; [|exact I].
      intros Hsb. apply andb_true_iff in Hsb. destruct Hsb as (Hs1 & ->).
      intros s1 Hz1 Hr1. destruct (Z.eq_dec (Z.of_nat s1) z) as [He|He].
      * assert (s1 = f_seg f) by lia. subst s1. exact Hret.
      * apply (Hcov Hs1 s1); [lia|assumption].
    + destruct H as (z & Hc & Hl & Hz & Hcov & Hcall). unfold call_ok in Hcall. rewrite Hfr in Hcall.
      destruct Hcall as (Hsg & Hlo & Hsy). rewrite Hl.
      apply inv_local; [assumption|reflexivity|assumption|]. split; [intros f0 Hf0; discriminate|].
      cbn. rewrite ?Hkind. right; right; right; right; right; right; left. exists (z - 1)%Z. cbn.
      split; [assumption|]. split; [reflexivity|]. split; [lia|]. split; [|exact I].
      destruct b; [|congruence].
      intros s1 Hz1 Hr1. destruct (Z.eq_dec (Z.of_nat s1) z) as [He|He].
      * assert (s1 = f_seg f) by lia. subst s1. exact Hret.
      * apply (Hcov s1); [lia|assumption].
  - (* RequestSort *)
    destruct Hgk as (H1 & H2 & H3). rewrite Hfr in H3. destruct H3 as (H3 & H4 & H5). rewrite H1.
    apply inv_local; [assumption|reflexivity|assumption|]. split; [intros f0 Hf0; discriminate|].
    cbn. rewrite ?Hkind. split; [reflexivity|]. split; [assumption|].
    intros b0 Hb0. injection Hb0 as <-. subst s sync. destruct b; exact Hret.
  - contradiction.
Qed.

Lemma stable_read : forall g x, stable g x (mark_read x).
Proof. intros; repeat split; cbn; tauto. Qed.

Lemma known_done : forall GS x s g, sinv GS x s -> s_nil x || g_known (GS g) s = true ->
  s_inw x = 0 /\ (s_nil x = false -> s_done x = true).
Proof.
  unfold sinv; intros GS x s g H Hk. destruct (s_nil x) eqn:Hn; [intuition congruence|].
  cbn in Hk. destruct H as (Hkn & _ & Hm). pose proof (Hkn g Hk) as Hd. split; [|auto].
  destruct Hm as [Hm|(_ & h & _ & [Hm|(_ & f & _ & _ & Hso)])]; [intuition congruence|tauto|].
  destruct Hso as [Hso|[Hso|[Hso|Hso]]]; intuition congruence.
Qed.

Lemma inv_read : forall st g ch,
  Inv st -> sfor (ss st) (gs st g) ch = true ->
  Inv (mk_state (gs st) (upd (ss st) ch (mark_read (ss st ch)))
                (note (read_viol g ch (ss st ch) (g_known (gs st g) ch)) (bad st))).
Proof.
  intros st g ch (Hb & Hs & Hg) Hsf. unfold sfor in Hsf.
  destruct (known_done _ _ _ g (Hs ch) Hsf) as (Hw & Hd).
  split; [|split]; cbn.
  - unfold read_viol. rewrite Hw, Hsf. cbn. now rewrite Hb.
  - intros s1. destruct (Nat.eq_dec s1 ch) as [->|Hne]; [|rewrite upd_other by assumption; apply Hs].
    rewrite upd_same. specialize (Hs ch). unfold sinv, sorter in *. cbn.
    destruct (s_nil (ss st ch)); [assumption|].
    destruct Hs as (H1 & H2 & H3). split; [assumption|]. split; [auto|assumption].
  - intros h. apply ginv_other with (g := S h); [lia|apply Hg|apply stable_read|].
    intros Ht. eapply sinv_ticket; eauto.
Qed.

Lemma step_noframe : forall st g ch,
  Inv st -> g_frame (gs st g) = None -> Inv (step current_progs st g ch).
Proof.
  intros st g ch HI Hfr. pose proof HI as (Hb & Hs & Hg).
  destruct (Hg g) as (Hgf & Hgk). unfold step. rewrite Hfr.
  assert (Hns : forall f0, g_frame (gs st g) = Some f0 ->
            ~ sorter f0 (ss st (f_seg f0)) (g_known (gs st g) (f_seg f0))) by (intros; congruence).
  destruct (g_kind (gs st g)) eqn:Hkind.
  - destruct Hgk as (_ & -> & ->). cbn. assumption.
  - (* ensureSorted *)
    cbn [lrange]. unfold einv in Hgk.
    destruct Hgk as [H|[H|[H|[H|[H|[H|[H|H]]]]]]].
    + destruct H as (Hc & Hl & _). rewrite Hl, Hc. cbn.
      apply inv_local; [assumption|reflexivity|assumption|]. split; [intros f0 Hf0; discriminate|].
      cbn. rewrite ?Hkind. right; left. cbn. auto.
    + destruct H as (Hc & Hl & _). rewrite Hl, Hc. cbn.
      apply inv_local; [assumption|reflexivity|assumption|]. split; [intros f0 Hf0; discriminate|].
      cbn. rewrite ?Hkind. right; right; left. cbn. auto.
    + destruct H as (Hc & Hl & _ & Hso). rewrite Hl, Hc. cbn.
      apply inv_local; [assumption|reflexivity|assumption|]. split; [intros f0 Hf0; discriminate|].
      cbn. rewrite ?Hkind. right; right; right; left. exists (Z.of_nat hi + 0)%Z. cbn.
      split; [reflexivity|]. split; [reflexivity|]. split; [lia|]. split; [|exact I].
      intros _ s1 Hz1 Hr1. lia.
    + destruct H as (z & Hc & Hl & Hz & Hcov & _). rewrite Hl. cbn. unfold eval_bound. cbn.
      destruct (Z.leb_spec (Z.of_nat lo + 0) z) as [Hle|Hgt].
      * destruct (g_sorted (gs st g)) eqn:Hso; cbn.
        -- destruct (Z.ltb_spec z 0) as [Hneg|_]; [lia|].
           apply inv_local; [assumption|reflexivity|assumption|]. split.
           ++ intros f0 Hf0. cbn in Hf0. injection Hf0 as <-. exists P0. cbn. auto.
           ++ cbn. rewrite ?Hkind. right; right; right; left. exists z. cbn.
              split; [assumption|]. split; [reflexivity|]. split; [assumption|].
              split; [intros _; exact (Hcov eq_refl)|]. unfold call_ok. cbn. repeat split; lia.
        -- apply inv_local; [assumption|reflexivity|assumption|]. split; [intros f0 Hf0; discriminate|].
           cbn. rewrite ?Hkind. right; right; right; left. exists (z - 1)%Z. cbn.
           split; [assumption|]. split; [reflexivity|]. split; [lia|]. split; [congruence|exact I].
      * apply inv_local; [assumption|reflexivity|assumption|]. split; [intros f0 Hf0; discriminate|].
        cbn. rewrite ?Hkind. right; right; right; right; left. cbn.
        split; [assumption|]. split; [reflexivity|]. split; [reflexivity|].
        intros Hso. eapply cov_weaken; [|exact (Hcov Hso)]. lia.
    + destruct H as (Hc & Hl & _ & Hcov). rewrite Hl, Hc. cbn.
      apply inv_local; [assumption|reflexivity|assumption|]. split; [intros f0 Hf0; discriminate|].
      cbn. rewrite ?Hkind. destruct (g_sorted (gs st g)) eqn:Hso; cbn.
      * right; right; right; right; right; right; right. cbn. auto.
      * right; right; right; right; right; left. cbn. auto.
    + destruct H as (Hc & Hl & _). rewrite Hl, Hc. cbn.
      apply inv_local; [assumption|reflexivity|assumption|]. split; [intros f0 Hf0; discriminate|].
      cbn. rewrite ?Hkind. right; right; right; right; right; right; left.
      exists (Z.of_nat hi + 0)%Z. cbn.
      split; [reflexivity|]. split; [reflexivity|]. split; [lia|]. split; [|exact I].
      intros s1 Hz1 Hr1. lia.
    + destruct H as (z & Hc & Hl & Hz & Hcov & _). rewrite Hl. cbn. unfold eval_bound. cbn.
      destruct (Z.leb_spec (Z.of_nat lo + 0) z) as [Hle|Hgt].
      * destruct (Z.ltb_spec z 0) as [Hneg|_]; [lia|].
        apply inv_local; [assumption|reflexivity|assumption|]. split.
        -- intros f0 Hf0. cbn in Hf0. injection Hf0 as <-. exists P0. cbn. auto.
        -- cbn. rewrite ?Hkind. right; right; right; right; right; right; left. exists z. cbn.
           split; [assumption|]. split; [reflexivity|]. split; [assumption|].
           split; [assumption|]. unfold call_ok. cbn. repeat split; lia.
      * apply inv_local; [assumption|reflexivity|assumption|]. split; [intros f0 Hf0; discriminate|].
        cbn. rewrite ?Hkind. right; right; right; right; right; right; right. cbn.
        split; [assumption|]. split; [reflexivity|]. split; [reflexivity|].
        eapply cov_weaken; [|exact Hcov]. lia.
    + destruct H as (Hc & Hl & _ & Hcov). rewrite Hl, Hc. cbn.
      destruct ((lo <=? ch) && (ch <=? hi)) eqn:Hr; [|assumption].
      apply inv_read; [assumption|]. apply andb_true_iff in Hr. destruct Hr as (H1 & H2).
      apply Nat.leb_le in H1. apply Nat.leb_le in H2. apply Hcov; lia.
  - destruct Hgk as (-> & -> & _). cbn. assumption.
  - contradiction.
Qed.

Theorem step_inv : forall st g ch, Inv st -> Inv (step current_progs st g ch).
Proof.
  intros st g ch HI. destruct (g_frame (gs st g)) as [f|] eqn:Hfr; [|now apply step_noframe].
  unfold step. rewrite Hfr.
  destruct (fstep g (ss st (f_seg f)) (g_known (gs st g) (f_seg f)) f) eqn:Hst.
  - assumption.
  - now apply step_frame_ret with (f := f).
  - now apply step_frame_next.
Qed.

Theorem run_inv : forall sch st, Inv st -> Inv (run current_progs st sch).
Proof.
  induction sch as [|[g ch] r IH]; intros st HI; cbn; [assumption|]. apply IH. now apply step_inv.
Qed.

Theorem init_inv : forall kinds nils,
  (forall g, kind_ok current_progs (kinds g) = true) -> Inv (init_state current_progs kinds nils).
Proof.
  intros kinds nils Hok. split; [reflexivity|]. split; cbn.
  - intros s. unfold sinv, fresh_sst. cbn. destruct (nils s); [auto|].
    split; [intros g; destruct (kinds g); cbn; discriminate|]. split; [discriminate|]. left. auto 10.
  - intros g. specialize (Hok g). destruct (kinds g); unfold ginv, einv; cbn in *.
    + split; [intros f Hf; discriminate|auto].
    + split; [intros f Hf; discriminate|]. left. auto.
    + split.
      * intros f Hf. injection Hf as <-. exists P0. cbn. auto.
      * auto.
    + discriminate.
Qed.

(* ------------------------------------------------------------------ *)
(* the statements                                                      *)

Definition reachable (st : state) : Prop :=
  exists kinds nils sch, (forall g, kind_ok current_progs (kinds g) = true) /\
                         st = run current_progs (init_state current_progs kinds nils) sch.

Lemma reachable_inv : forall st, reachable st -> Inv st.
Proof. intros st (kinds & nils & sch & Hok & ->). apply run_inv, init_inv, Hok. Qed.

(* no step of any schedule is a write/write, write/read or unordered access *)
Theorem sort_no_violation : forall st, reachable st -> bad st = None.
Proof. intros st H. apply reachable_inv in H. apply H. Qed.

(* (a) *)
Theorem sort_write_section_exclusive : forall st s, reachable st ->
  s_inw (ss st s) <= 1 /\ s_entered (ss st s) <= 1.
Proof.
  intros st s H. apply reachable_inv in H. destruct H as (_ & Hs & _). specialize (Hs s).
  unfold sinv in Hs. destruct (s_nil (ss st s)); [lia|].
  destruct Hs as (_ & _ & [Hm|(_ & h & _ & [Hm|(_ & f & _ & _ & Hso)])]); [lia|lia|].
  destruct Hso as [Hso|[Hso|[Hso|Hso]]]; lia.
Qed.

(* (b) for ensureSorted *)
Theorem sort_ensure_sorted_sound : forall st g lo hi, reachable st -> ensure_finished st g lo hi ->
  forall s, lo <= s <= hi ->
    sorted_for st g s = true /\
    (s_nil (ss st s) = false -> s_done (ss st s) = true) /\ s_inw (ss st s) = 0.
Proof.
  intros st g lo hi H (Hk & Hf & Hl & Hc) s Hr. apply reachable_inv in H.
  destruct H as (_ & Hs & Hg). destruct (Hg g) as (_ & Hgk). rewrite Hk in Hgk. unfold einv in Hgk.
  assert (Hcov : cov (ss st) (gs st g) lo hi (Z.of_nat lo - 1)).
  { destruct Hgk as [H|[H|[H|[H|[H|[H|[H|H]]]]]]];
      try (destruct H as (Hx & _); rewrite Hc in Hx; discriminate).
    - destruct H as (z & Hx & _); rewrite Hc in Hx; discriminate.
    - destruct H as (z & _ & Hx & _). congruence.
    - tauto. }
  assert (Hsf : sfor (ss st) (gs st g) s = true) by (apply Hcov; lia).
  split; [exact Hsf|]. destruct (known_done _ _ _ g (Hs s) Hsf). tauto.
Qed.

(* (b) for RequestSort *)
Theorem sort_request_sort_sound : forall st g s sy b, reachable st ->
  g_kind (gs st g) = KRequest s sy -> g_frame (gs st g) = None -> g_ret (gs st g) = Some b ->
  if b then sorted_for st g s = true /\ (s_nil (ss st s) = false -> s_done (ss st s) = true) /\
            s_inw (ss st s) = 0
  else sy = false.
Proof.
  intros st g s sy b H Hk Hf Hr. apply reachable_inv in H. destruct H as (_ & Hs & Hg).
  destruct (Hg g) as (_ & Hgk). rewrite Hk, Hf in Hgk. destruct Hgk as (_ & _ & H3).
  specialize (H3 b Hr). destruct b; [|assumption].
  split; [exact H3|]. destruct (known_done _ _ _ g (Hs s) H3). tauto.
Qed.

(* ------------------------------------------------------------------ *)
(* (c) progress: the ticket holder never blocks and closes the latch    *)

Definition sorting (st : state) (h s n : nat) : Prop :=
  exists f, g_frame (gs st h) = Some f /\ f_seg f = s /\ s_nil (ss st s) = false /\
    match n with
    | 4 => f_code f = code_of P2 /\ f_var f = true /\ f_inw f = false
    | 3 => f_code f = code_of P3 /\ f_inw f = false
    | 2 => f_code f = code_of P3 /\ f_inw f = true
    | 1 => f_code f = code_of P4
    | _ => False
    end.

Lemma sorting_step : forall st h s n, sorting st h s (S n) ->
  blocked st h = false /\
  (if n =? 0 then s_latch (ss (step current_progs st h 0) s) = true
   else sorting (step current_progs st h 0) h s n).
Proof.
  intros st h s n ([s0 sy var inw code] & Hfr & Hsg & Hn & Hc). cbn in Hsg. subst s0.
  destruct n as [|[|[|[|n]]]]; cbn in Hc; try contradiction.
  - subst code. unfold blocked, step; rewrite Hfr; cbn.
    split; [reflexivity|]. now rewrite upd_same.
  - destruct Hc as (-> & ->). unfold blocked, step; rewrite Hfr; cbn.
    split; [reflexivity|]. eexists. cbn. rewrite !upd_same. cbn. rewrite Hn. repeat split.
  - destruct Hc as (-> & ->). unfold blocked, step; rewrite Hfr; cbn.
    split; [reflexivity|]. eexists. cbn. rewrite !upd_same. cbn. rewrite Hn. repeat split.
  - destruct Hc as (-> & -> & ->). unfold blocked, step; rewrite Hfr; cbn.
    split; [reflexivity|]. eexists. cbn. rewrite !upd_same. cbn. rewrite Hn. repeat split.
Qed.

Lemma sorting_run : forall n st h s, sorting st h s n -> 1 <= n ->
  s_latch (ss (run_g current_progs st h n) s) = true /\
  forall i, i < n -> blocked (run_g current_progs st h i) h = false.
Proof.
  induction n as [|n IH]; intros st h s Hso Hn; [lia|].
  destruct (sorting_step _ _ _ _ Hso) as (Hb & Hnext). cbn [run_g].
  destruct n as [|n'].
  - cbn in Hnext. cbn. split; [assumption|]. intros i Hi. assert (i = 0) by lia. subst. exact Hb.
  - cbn [Nat.eqb] in Hnext. destruct (IH _ _ _ Hnext) as (Hl & Hbl); [lia|]. split; [exact Hl|].
    intros [|i] Hi; [exact Hb|]. cbn [run_g]. apply Hbl. lia.
Qed.

(* a goroutine waiting on waitSortedCh of s: the holder of s's ticket is somebody else,
   it is at most 4 of its own steps away from the close, and none of those steps blocks *)
Theorem sort_waiter_released : forall st g s, reachable st -> waiting_on st g s ->
  exists h n, h <> g /\ s_holder (ss st s) = Some h /\ 1 <= n <= 4 /\
    s_latch (ss (run_g current_progs st h n) s) = true /\
    forall i, i < n -> blocked (run_g current_progs st h i) h = false.
Proof.
  intros st g s H (f & rest & Hfr & Hsg & Hc & Hl). apply reachable_inv in H.
  destruct H as (_ & Hs & Hg). destruct (Hg g) as (Hgf & _).
  destruct (Hgf f Hfr) as (p & Hp & Hpi). rewrite Hc in Hp.
  destruct p; cbv in Hp; try discriminate. cbn in Hpi. rewrite Hsg in Hpi.
  destruct Hpi as (Hn & Ht & _). specialize (Hs s). unfold sinv in Hs. rewrite Hn in Hs.
  destruct Hs as (_ & _ & [Hm|(_ & h & Hh & [Hm|(_ & fh & Hfh & Hsh & Hso)])]);
    [destruct Hm; congruence|destruct Hm; congruence|].
  assert (Hne : h <> g).
  { intros ->. rewrite Hfr in Hfh. injection Hfh as <-. apply sorter_codes in Hso.
    rewrite Hc in Hso. cbv in Hso. destruct Hso as [[Hx _]|[Hx|Hx]]; discriminate. }
  assert (Hex : exists n, 1 <= n <= 4 /\ sorting st h s n).
  { destruct Hso as [Hso|[Hso|[Hso|Hso]]].
    - exists 4. split; [lia|]. exists fh. intuition.
    - exists 3. split; [lia|]. exists fh. intuition.
    - exists 2. split; [lia|]. exists fh. intuition.
    - exists 1. split; [lia|]. exists fh. intuition. }
  destruct Hex as (n & Hn14 & Hsorting).
  destruct (sorting_run n st h s Hsorting) as (Hla & Hbl); [lia|].
  exists h, n. auto.
Qed.

(* the premises are satisfiable on a non-trivial state: two readers over two
   segments, one of them finished, the other waiting on the first one's sort *)
Definition ex_kinds (g : nat) : kind :=
  match g with 0 => KEnsure 0 1 | 1 => KEnsure 0 1 | 2 => KRequest 1 true | _ => KIdle end.

Example ex_reachable_finished :
  let st := run current_progs (init_state current_progs ex_kinds (fun _ => false))
                (repeat (0, 0) 40) in
  reachable st /\ ensure_finished st 0 0 1 /\ s_done (ss st 0) = true /\ s_done (ss st 1) = true.
Proof.
  cbn zeta. split.
  - exists ex_kinds, (fun _ => false), (repeat (0, 0) 40). split; [|reflexivity].
    intros [|[|[|g]]]; reflexivity.
  - vm_compute. repeat split.
Qed.

Example ex_reachable_waiting :
  let st := run current_progs (init_state current_progs ex_kinds (fun _ => false))
                (repeat (0, 0) 9 ++ repeat (2, 0) 5) in
  reachable st /\ waiting_on st 2 1.
Proof.
  cbn zeta. split.
  - exists ex_kinds, (fun _ => false), (repeat (0, 0) 9 ++ repeat (2, 0) 5). split; [|reflexivity].
    intros [|[|[|g]]]; reflexivity.
  - eexists. eexists. vm_compute. repeat split.
Qed.
