(* C17 -- the deferred-sort ticket protocol: proofs about SortProto.v.

   For the programs that stand for the CURRENT source ([current_progs]), for
   every assignment of kinds to goroutines (any number), every set of segments,
   every range and every schedule:
     (a) at most one goroutine is inside the write section of a segment and
         the write section is entered at most once;
     (b) RequestSort = true / ensureSorted(lo,hi) finished => every segment in
         range is sorted, its sort FINISHED, and the goroutine is ordered after
         the end of the write by happens-before; no step is ever a violation;
     (c) a goroutine waiting on waitSortedCh is released by at most 4 steps of
         the ticket holder, none of which blocks.
   Mutants are refuted by computed schedules. *)

From Coq Require Import List Bool Arith ZArith Lia.
Import ListNotations.
From Moss Require Import SortProto.

Lemma upd_same : forall A (f : nat -> A) i v, upd f i v i = v.
Proof. intros; unfold upd; now rewrite Nat.eqb_refl. Qed.

Lemma upd_other : forall A (f : nat -> A) i v j, j <> i -> upd f i v j = f j.
Proof. intros A f i v j Hne; unfold upd; destruct (Nat.eqb_spec j i); [contradiction|reflexivity]. Qed.

(* ------------------------------------------------------------------ *)
(* program points of RequestSort                                       *)

Inductive ph := P0 | P0r | P1 | P2 | P3 | P4 | P5 | P6 | P7 | P8 | P9.

Definition code_of (p : ph) : list stmt :=
  match p with
  | P0 => request_sort_prog
  | P0r => SReturn true :: rs_tail1
  | P1 => rs_tail1
  | P2 => rs_tail2
  | P3 => rs_sorter ++ rs_tail3
  | P4 => SClose WaitSorted :: SReturn true :: rs_tail3
  | P5 => SReturn true :: rs_tail3
  | P6 => rs_tail3
  | P7 => rs_waiter ++ rs_tail4
  | P8 => SReturn true :: rs_tail4
  | P9 => rs_tail4
  end.

Definition phinv (p : ph) (x : sst) (k : bool) (g : nat) (f : frame) : Prop :=
  match p with
  | P0 | P1 => f_inw f = false
  | P0r => s_nil x = true
  | P2 => f_inw f = false /\ s_nil x = false /\
          (if f_var f then s_holder x = Some g /\ s_latch x = false else s_ticket x = false)
  | P3 => s_nil x = false /\ s_holder x = Some g /\ s_latch x = false
  | P4 => f_inw f = false /\ s_nil x = false /\ s_holder x = Some g /\ s_latch x = false
  | P5 | P8 => k = true
  | P6 => s_nil x = false /\ s_ticket x = false
  | P7 => s_nil x = false /\ s_ticket x = false /\ f_sync f = true
  | P9 => f_sync f = false
  end.

Definition finv (x : sst) (k : bool) (g : nat) (f : frame) : Prop :=
  exists p, f_code f = code_of p /\ phinv p x k g f.

(* what the segment knows about its sorter's frame *)
Definition sorter (f : frame) (x : sst) (k : bool) : Prop :=
  (f_code f = code_of P2 /\ f_var f = true /\ f_inw f = false /\
   s_entered x = 0 /\ s_inw x = 0 /\ s_done x = false)
  \/ (f_code f = code_of P3 /\ f_inw f = false /\ s_entered x = 0 /\ s_inw x = 0 /\ s_done x = false)
  \/ (f_code f = code_of P3 /\ f_inw f = true /\ s_entered x = 1 /\ s_inw x = 1 /\ s_done x = false)
  \/ (f_code f = code_of P4 /\ f_inw f = false /\ s_entered x = 1 /\ s_inw x = 0 /\
      s_done x = true /\ k = true).

Definition sinv (GS : nat -> gst) (x : sst) (s : nat) : Prop :=
  if s_nil x then s_inw x = 0 /\ s_entered x = 0 /\ s_holder x = None
  else
    (forall g, g_known (GS g) s = true -> s_done x = true) /\
    (s_read x = true -> s_done x = true) /\
    ( (s_ticket x = true /\ s_holder x = None /\ s_entered x = 0 /\ s_inw x = 0 /\
       s_done x = false /\ s_latch x = false)
      \/ (s_ticket x = false /\ exists g, s_holder x = Some g /\
           ( (s_latch x = true /\ s_latch_hb x = true /\ s_done x = true /\
              s_entered x = 1 /\ s_inw x = 0)
             \/ (s_latch x = false /\ exists f, g_frame (GS g) = Some f /\ f_seg f = s /\
                 sorter f x (g_known (GS g) s))))).

Definition sfor (SS : nat -> sst) (G : gst) (s : nat) : bool := s_nil (SS s) || g_known G s.

Definition cov (SS : nat -> sst) (G : gst) (lo hi : nat) (z : Z) : Prop :=
  forall s, (z < Z.of_nat s)%Z -> lo <= s <= hi -> sfor SS G s = true.

Definition call_ok (G : gst) (z : Z) (lo : nat) (sy : bool) : Prop :=
  match g_frame G with
  | None => True
  | Some f => f_seg f = Z.to_nat z /\ (Z.of_nat lo <= z)%Z /\ f_sync f = sy
  end.

Definition einv (SS : nat -> sst) (G : gst) (lo hi : nat) : Prop :=
  (g_code G = ensure_sorted_prog /\ g_loop G = None /\ g_frame G = None)
  \/ (g_code G = es_tail1 /\ g_loop G = None /\ g_frame G = None)
  \/ (g_code G = es_tail2 /\ g_loop G = None /\ g_frame G = None /\ g_sorted G = true)
  \/ (exists z, g_code G = es_tail3 /\ g_loop G = Some (es_loop1, z) /\ (z <= Z.of_nat hi)%Z /\
                (g_sorted G = true -> cov SS G lo hi z) /\ call_ok G z lo false)
  \/ (g_code G = es_tail3 /\ g_loop G = None /\ g_frame G = None /\
      (g_sorted G = true -> cov SS G lo hi (Z.of_nat lo - 1)))
  \/ (g_code G = [ELoop es_loop2] /\ g_loop G = None /\ g_frame G = None)
  \/ (exists z, g_code G = [] /\ g_loop G = Some (es_loop2, z) /\ (z <= Z.of_nat hi)%Z /\
                cov SS G lo hi z /\ call_ok G z lo true)
  \/ (g_code G = [] /\ g_loop G = None /\ g_frame G = None /\ cov SS G lo hi (Z.of_nat lo - 1)).

Definition ginv (SS : nat -> sst) (G : gst) (g : nat) : Prop :=
  (forall f, g_frame G = Some f -> finv (SS (f_seg f)) (g_known G (f_seg f)) g f) /\
  match g_kind G with
  | KIdle => g_frame G = None /\ g_loop G = None /\ g_code G = []
  | KRogue _ => False
  | KRequest s sy =>
      g_loop G = None /\ g_code G = [] /\
      match g_frame G with
      | Some f => f_seg f = s /\ f_sync f = sy /\ g_ret G = None
      | None => forall b, g_ret G = Some b -> if b then sfor SS G s = true else sy = false
      end
  | KEnsure lo hi => einv SS G lo hi
  end.

Definition Inv (st : state) : Prop :=
  bad st = None /\ (forall s, sinv (gs st) (ss st s) s) /\ (forall g, ginv (ss st) (gs st g) g).

(* ------------------------------------------------------------------ *)
(* frame steps                                                         *)

Lemma sorter_codes : forall f x k, sorter f x k ->
  (f_code f = code_of P2 /\ f_var f = true) \/ f_code f = code_of P3 \/ f_code f = code_of P4.
Proof. intros f x k [H|[H|[H|H]]]; intuition. Qed.

(* a returning frame *)
Lemma fstep_ret : forall g x k f b, finv x k g f -> fstep g x k f = FRet b ->
  if b then s_nil x || k = true else f_sync f = false.
Proof.
  intros g x k [s sy var inw code] b [p [Hc Hp]] Hs. cbn in Hc. subst code.
  destruct p; cbn in Hs, Hp; try discriminate.
  - injection Hs as <-. now rewrite Hp.
  - destruct (recv g NeedSorter x k) as [[[? ?] ?]|]; discriminate.
  - destruct inw; discriminate.
  - injection Hs as <-. subst k. apply orb_true_r.
  - destruct (recv g WaitSorted x k) as [[[? ?] ?]|]; discriminate.
  - injection Hs as <-. subst k. apply orb_true_r.
  - injection Hs as <-. exact Hp.
Qed.

Definition stable (g : nat) (x x' : sst) : Prop :=
  s_nil x' = s_nil x /\
  (s_ticket x = false -> s_ticket x' = false /\ s_holder x' = s_holder x) /\
  (s_latch x = false -> s_holder x <> Some g -> s_latch x' = false).

Lemma stable_refl : forall g x, stable g x x.
Proof. intros; repeat split; auto. Qed.

Lemma sinv_passive : forall GS GS' g x s,
  sinv GS x s ->
  (forall h, h <> g -> GS' h = GS h) ->
  (g_known (GS' g) s = true -> g_known (GS g) s = true \/ (s_nil x = false -> s_done x = true)) ->
  (forall f, g_frame (GS g) = Some f -> f_seg f = s -> ~ sorter f x (g_known (GS g) s)) ->
  sinv GS' x s.
Proof.
  unfold sinv; intros GS GS' g x s H H0 H1 H2. destruct (s_nil x) eqn:Hn; [assumption|].
  destruct H as (Hk & Hr & Hm). split; [|split; [assumption|]].
  - intros h Hh. destruct (Nat.eq_dec h g) as [->|Hne].
    + destruct (H1 Hh) as [Hg|Hd]; [eauto| now apply Hd].
    + rewrite H0 in Hh by assumption. eauto.
  - destruct Hm as [Hm|(Ht & h & Hh & Hm)]; [left; assumption|].
    right. split; [assumption|]. exists h. split; [assumption|].
    destruct Hm as [Hm|(Hl & f & Hf & Hs & Hso)]; [left; assumption|].
    right. split; [assumption|]. destruct (Nat.eq_dec h g) as [->|Hne].
    + exfalso. eapply H2; eauto.
    + rewrite H0 by assumption. eauto.
Qed.

Lemma sinv_passive_frame : forall GS GS' g x s f k',
  sinv GS x s -> (forall h, h <> g -> GS' h = GS h) -> g_frame (GS g) = Some f ->
  g_known (GS' g) s = k' ->
  (k' = true -> g_known (GS g) s = true \/ (s_nil x = false -> s_done x = true)) ->
  ~ ((f_code f = code_of P2 /\ f_var f = true) \/ f_code f = code_of P3 \/ f_code f = code_of P4) ->
  sinv GS' x s.
Proof.
  intros GS GS' g x s f k' Hsi Hoth Hfr Hkn' Hk Hc.
  apply (sinv_passive GS GS' g x s Hsi Hoth).
  - rewrite Hkn'. exact Hk.
  - intros f0 Hf0 _ Hso. rewrite Hfr in Hf0. injection Hf0 as <-.
    apply Hc. eapply sorter_codes; eauto.
Qed.

Ltac passive Hsi Hoth Hfr Hkn' :=
  eapply (sinv_passive_frame _ _ _ _ _ _ _ Hsi Hoth Hfr Hkn');
  [ try (intros ->; left; assumption); try (left; congruence)
  | cbv; intros [[? ?]|[?|?]]; congruence ].

Ltac pack := split; [try reflexivity | split; [ | split; [reflexivity | split; [reflexivity | split; [ | split ]]]]].

Ltac known_other Hk Hoth Hkn Hkn' :=
  let h := fresh "h" in let Hh := fresh "Hh" in let Hne := fresh "Hne" in
  intros h Hh; match type of Hkn' with g_known (_ ?gg) _ = _ => destruct (Nat.eq_dec h gg) as [->|Hne] end;
  [ rewrite Hkn' in Hh; rewrite <- Hkn in Hh; eauto
  | rewrite Hoth in Hh by assumption; eauto ].

Lemma fstep_next : forall GS GS' g x k f x' f' k' v s,
  f_seg f = s -> g_frame (GS g) = Some f -> g_known (GS g) s = k ->
  finv x k g f -> sinv GS x s ->
  fstep g x k f = FNext x' f' k' v ->
  (forall h, h <> g -> GS' h = GS h) -> g_frame (GS' g) = Some f' -> g_known (GS' g) s = k' ->
  v = None /\ finv x' k' g f' /\ f_seg f' = s /\ f_sync f' = f_sync f /\ (k = true -> k' = true) /\
  stable g x x' /\ sinv GS' x' s.
Proof.
  intros GS GS' g x k [s0 sy var inw code] x' f' k' v s Hseg Hfr Hkn [p [Hc Hp]] Hsi Hst Hoth Hfr' Hkn'.
  cbn in Hc, Hseg. subst code s0.
  destruct p; cbn in Hst, Hp.
  - (* P0 *) injection Hst as <- <- <- <-. cbn.
    pack; [ | auto | apply stable_refl | passive Hsi Hoth Hfr Hkn' ].
    destruct (s_nil x) eqn:Hn; [exists P0r|exists P1]; cbn; auto.
  - discriminate.
  - (* P1 *) unfold recv in Hst. destruct (s_nil x) eqn:Hn; [discriminate|].
    destruct (s_ticket x) eqn:Ht; injection Hst as <- <- <- <-; cbn.
    + (* the ticket *)
      unfold sinv in Hsi. rewrite Hn in Hsi. destruct Hsi as (Hk & Hr & Hm).
      destruct Hm as [(_ & Hh & He & Hi & Hd & Hl)|(Hf & _)]; [|congruence].
      pack; [ | auto | | ].
      * exists P2. cbn. auto.
      * unfold stable; cbn. split; [auto|]. split; [congruence|auto].
      * unfold sinv. cbn. rewrite ?Hn. split; [|split; [assumption|]].
        -- known_other Hk Hoth Hkn Hkn'.
        -- right. split; [reflexivity|]. exists g. split; [reflexivity|]. right.
           split; [assumption|]. eexists. split; [exact Hfr'|]. split; [reflexivity|].
           left. cbn. auto 10.
    + pack; [ | auto | apply stable_refl | passive Hsi Hoth Hfr Hkn' ].
      exists P2. cbn. auto.
  - (* P2 *) destruct Hp as (Hi & Hn & Hv). injection Hst as <- <- <- <-. cbn in *. subst inw.
    destruct var.
    + destruct Hv as (Hh & Hl).
      pack; [ | auto | apply stable_refl | ].
      * exists P3. cbn. auto.
      * unfold sinv in *. rewrite Hn in *. destruct Hsi as (Hk & Hr & Hm).
        split; [|split; [assumption|]].
        -- known_other Hk Hoth Hkn Hkn'.
        -- destruct Hm as [(_ & Hh2 & _)|(Ht & h & Hh2 & Hm)]; [congruence|].
           right. split; [assumption|]. exists h. split; [assumption|].
           destruct Hm as [Hm|(Hl2 & f & Hf & Hs & Hso)]; [destruct Hm; congruence|].
           right. split; [assumption|]. assert (h = g) by congruence. subst h.
           rewrite Hfr in Hf. injection Hf as <-.
           eexists. split; [exact Hfr'|]. split; [reflexivity|].
           destruct Hso as [Hso|[Hso|[Hso|Hso]]]; cbv in Hso; try (destruct Hso; discriminate).
           right. left. cbn. intuition.
    + pack; [ | auto | apply stable_refl | passive Hsi Hoth Hfr Hkn' ].
      exists P6. cbn. auto.
  - (* P3 *) destruct Hp as (Hn & Hh & Hl).
    unfold sinv in Hsi. rewrite Hn in Hsi. destruct Hsi as (Hk & Hr & Hm).
    destruct Hm as [(_ & Hh2 & _)|(Ht & h & Hh2 & Hm)]; [congruence|].
    destruct Hm as [Hm|(Hl2 & f & Hf & Hs & Hso)]; [destruct Hm; congruence|].
    assert (h = g) by congruence. subst h. rewrite Hfr in Hf. injection Hf as <-.
    destruct Hso as [Hso|[Hso|[Hso|Hso]]]; try (destruct Hso as [Hso _]; cbv in Hso; discriminate).
    + (* begin *) destruct Hso as (_ & Hi & He & Hw & Hd). cbn in Hi. subst inw.
      injection Hst as <- <- <- <-. cbn.
      assert (Hrd : s_read x = false).
      { destruct (s_read x); [|reflexivity]. rewrite Hr in Hd by reflexivity. discriminate. }
      rewrite Hw, Hrd. cbn.
      pack; [ | auto | | ].
      * exists P3. cbn. auto.
      * unfold stable; cbn. auto.
      * unfold sinv. cbn. rewrite ?Hn. split; [|split; [assumption|]].
        -- known_other Hk Hoth Hkn Hkn'.
        -- right. split; [assumption|]. exists g. split; [assumption|]. right.
           split; [assumption|]. eexists. split; [exact Hfr'|]. split; [reflexivity|].
           right. right. left. cbn. rewrite He, Hw. auto.
    + (* end *) destruct Hso as (_ & Hi & He & Hw & Hd). cbn in Hi. subst inw.
      injection Hst as <- <- <- <-. cbn.
      pack; [ | auto | | ].
      * exists P4. cbn. auto.
      * unfold stable; cbn. auto.
      * unfold sinv. cbn. rewrite ?Hn. split; [auto|split; [auto|]].
        right. split; [assumption|]. exists g. split; [assumption|]. right.
        split; [assumption|]. eexists. split; [exact Hfr'|]. split; [reflexivity|].
        right. right. right. cbn. rewrite Hw. auto 10.
  - (* P4 *) destruct Hp as (Hi & Hn & Hh & Hl). subst inw.
    unfold sinv in Hsi. rewrite Hn in Hsi. destruct Hsi as (Hk & Hr & Hm).
    destruct Hm as [(_ & Hh2 & _)|(Ht & h & Hh2 & Hm)]; [congruence|].
    destruct Hm as [Hm|(Hl2 & f & Hf & Hs & Hso)]; [destruct Hm; congruence|].
    assert (h = g) by congruence. subst h. rewrite Hfr in Hf. injection Hf as <-.
    destruct Hso as [Hso|[Hso|[Hso|Hso]]]; try (destruct Hso as [Hso _]; cbv in Hso; discriminate).
    destruct Hso as (_ & _ & He & Hw & Hd & Hkt).
    injection Hst as <- <- <- <-. cbn. rewrite Hn, Hl. cbn.
    pack; [ | auto | | ].
    + exists P5. cbn. split; congruence.
    + unfold stable; cbn. split; [auto|]. split; [auto|]. intros _ Hne. congruence.
    + unfold sinv. cbn. rewrite ?Hn, ?Hl. split; [|split; [assumption|]].
      * intros h _. assumption.
      * right. split; [assumption|]. exists g. split; [assumption|]. left. repeat split; congruence.
  - discriminate.
  - (* P6 *) destruct Hp as (Hn & Ht). injection Hst as <- <- <- <-. cbn.
    pack; [ | auto | apply stable_refl | passive Hsi Hoth Hfr Hkn' ].
    destruct sy; [exists P7|exists P9]; cbn; auto.
  - (* P7 *) destruct Hp as (Hn & Ht & Hsy). unfold recv in Hst. rewrite Hn in Hst.
    destruct (s_latch x) eqn:Hl; [|discriminate]. injection Hst as <- <- <- <-. cbn.
    assert (Hhb : s_latch_hb x = true /\ s_done x = true).
    { unfold sinv in Hsi. rewrite Hn in Hsi. destruct Hsi as (Hk & Hr & Hm).
      destruct Hm as [(Hx & _)|(_ & h & _ & Hm)]; [congruence|].
      destruct Hm as [Hm|(Hl2 & _)]; [|congruence]. intuition. }
    destruct Hhb as (Hhb & Hd).
    rewrite Hhb, orb_true_r in *.
    pack; [ | auto | apply stable_refl | ].
    + exists P8. cbn. split; reflexivity.
    + passive Hsi Hoth Hfr Hkn'. intros _. right. intros _. assumption.
  - discriminate.
  - discriminate.
Qed.

(* ------------------------------------------------------------------ *)
(* what a step of g leaves true for the others                         *)

Lemma finv_stable : forall g g' x x' k f,
  g' <> g -> stable g x x' -> (s_ticket x = true -> s_holder x = None) ->
  finv x k g' f -> finv x' k g' f.
Proof.
  intros g g' x x' k f Hne (Hn & Ht & Hl) Hth [p [Hc Hp]]. exists p. split; [assumption|].
  assert (Hhold : s_holder x = Some g' -> s_latch x = false ->
                  s_holder x' = Some g' /\ s_latch x' = false).
  { intros Hh Hla. assert (Htf : s_ticket x = false).
    { destruct (s_ticket x); [|reflexivity]. rewrite Hth in Hh by reflexivity. discriminate. }
    destruct (Ht Htf) as [_ Hh']. split; [congruence|]. apply Hl; [assumption|congruence]. }
  destruct p; cbn in *; rewrite ?Hn; auto.
  - destruct Hp as (Hi & Hnn & Hv). split; [assumption|]. split; [assumption|].
    destruct (f_var f); [destruct Hv; auto|]. apply Ht; assumption.
  - destruct Hp as (Hnn & Hh & Hla). destruct (Hhold Hh Hla). auto.
  - destruct Hp as (Hi & Hnn & Hh & Hla). destruct (Hhold Hh Hla). auto.
  - destruct Hp as (Hnn & Htt). split; [assumption|]. apply Ht; assumption.
  - destruct Hp as (Hnn & Htt & Hsy). split; [assumption|]. split; [apply Ht; assumption|assumption].
Qed.

Lemma einv_mono : forall SS SS' G G' lo hi,
  g_code G' = g_code G -> g_loop G' = g_loop G -> g_sorted G' = g_sorted G ->
  (forall s, sfor SS G s = true -> sfor SS' G' s = true) ->
  match g_frame G, g_frame G' with
  | None, None => True
  | Some f, Some f' => f_seg f' = f_seg f /\ f_sync f' = f_sync f
  | _, _ => False
  end ->
  einv SS G lo hi -> einv SS' G' lo hi.
Proof.
  intros SS SS' G G' lo hi Hc Hl Hs Hsf Hfr H. unfold einv in *. rewrite Hc, Hl, Hs.
  assert (Hcov : forall z, cov SS G lo hi z -> cov SS' G' lo hi z).
  { unfold cov; intros z Hz s H1 H2. auto. }
  assert (Hnone : g_frame G = None -> g_frame G' = None).
  { intros Hn. rewrite Hn in Hfr. destruct (g_frame G'); [contradiction|reflexivity]. }
  assert (Hcall : forall z sy, call_ok G z lo sy -> call_ok G' z lo sy).
  { unfold call_ok; intros z sy. destruct (g_frame G), (g_frame G'); try tauto.
    destruct Hfr as [-> ->]; auto. }
  destruct H as [H|[H|[H|[H|[H|[H|[H|H]]]]]]].
  - left. intuition.
  - right; left. intuition.
  - right; right; left. intuition.
  - destruct H as (z & H). right; right; right; left. exists z. intuition.
  - right; right; right; right; left. intuition.
  - right; right; right; right; right; left. intuition.
  - destruct H as (z & H). right; right; right; right; right; right; left. exists z. intuition.
  - right; right; right; right; right; right; right. intuition.
Qed.

Lemma sfor_upd : forall SS G s0 x' s,
  s_nil x' = s_nil (SS s0) -> sfor (upd SS s0 x') G s = sfor SS G s.
Proof.
  intros SS G s0 x' s Hn. unfold sfor, upd. destruct (Nat.eqb_spec s s0); [subst; now rewrite Hn|reflexivity].
Qed.

Lemma ginv_other : forall SS G g g' s0 x',
  g' <> g -> ginv SS G g' -> stable g (SS s0) x' ->
  (s_ticket (SS s0) = true -> s_holder (SS s0) = None) -> ginv (upd SS s0 x') G g'.
Proof.
  intros SS G g g' s0 x' Hne (Hf & Hk) Hst Hth. pose proof Hst as (Hn & _).
  split.
  - intros f Hfr. specialize (Hf f Hfr). unfold upd. destruct (Nat.eqb_spec (f_seg f) s0) as [He|He].
    + subst s0. eapply finv_stable; eauto.
    + assumption.
  - destruct (g_kind G); auto.
    + eapply einv_mono; try eassumption; auto.
      * intros s. now rewrite sfor_upd.
      * destruct (g_frame G); auto.
    + destruct Hk as (H1 & H2 & H3). split; [assumption|]. split; [assumption|].
      destruct (g_frame G); [assumption|]. intros b Hb. specialize (H3 b Hb).
      destruct b; [now rewrite sfor_upd|assumption].
Qed.

Lemma sinv_ticket : forall GS x s, sinv GS x s -> s_ticket x = true -> s_holder x = None.
Proof.
  unfold sinv; intros GS x s H Ht. destruct (s_nil x); [tauto|].
  destruct H as (_ & _ & [H|[H _]]); [tauto|congruence].
Qed.

Lemma sorter_not_ret : forall g f x k b, sorter f x k -> fstep g x k f = FRet b -> False.
Proof.
  intros g [s sy var inw code] x k b H Hst. apply sorter_codes in H. cbn in H.
  destruct H as [[-> _]|[->| ->]]; cbn in Hst; try discriminate.
  destruct inw; discriminate.
Qed.

(* a step that changes only the local state of g (same knowledge) *)
Lemma inv_local : forall st g G',
  Inv st ->
  (forall s, g_known G' s = g_known (gs st g) s) ->
  (forall f, g_frame (gs st g) = Some f ->
             ~ sorter f (ss st (f_seg f)) (g_known (gs st g) (f_seg f))) ->
  ginv (ss st) G' g ->
  Inv (set_g st g G').
Proof.
  intros st g G' (Hb & Hs & Hg) Hk Hns HG'. split; [assumption|]. split; cbn.
  - intros s. apply (sinv_passive (gs st) (upd (gs st) g G') g (ss st s) s (Hs s)).
    + intros h Hne. now apply upd_other.
    + rewrite upd_same, Hk. auto.
    + intros f Hf Hsg. subst s. eapply Hns; eauto.
  - intros h. destruct (Nat.eq_dec h g) as [->|Hne]; [now rewrite upd_same|].
    rewrite upd_other by assumption. apply Hg.
Qed.
