(* Sync2StallC.v - no-stall theorem for data at rest, merger cases while a merged stack
   waits (stackDirtyMid set, top and base empty): the merger is brought to its hand-over,
   woken by the persister's ping if it sleeps, released by the persister's close of the
   outgoing channel if it waits on the dirty limits (checked in parallel with B) *)
From Coq Require Import List Arith Bool Lia.
Import ListNotations.
From Moss Require Import Sync2 Sync2Facts Sync2ProgressA Sync2Progress Sync2StallA.

Section StallC.
Variable c : config.
Hypothesis cap_pos : 1 <= c_cap c.
Hypothesis qcap_pos : 1 <= c_qcap c.

Lemma g_mid_MReply s : gctx c s -> z_base s = false -> z_top s = 0 -> z_mid s = true -> z_mp s = MReply -> ggoal c s.
Proof.
  gintro. intros Hb Ht Hm Emp. unfold ggoal.
  take c s LMReply; dd gdec.
Qed.

Lemma g_mid_MCheck s : gctx c s -> z_base s = false -> z_top s = 0 -> z_mid s = true -> z_mp s = MCheck -> ggoal c s.
Proof.
  gintro. intros Hb Ht Hm Emp. unfold ggoal.
  assert (Hh : z_hp s = true) by (apply K1; auto; rewrite Emp; reflexivity).
  take c s LMCheck; dd gdec.
Qed.

Lemma g_mid_MSelect s : gctx c s -> z_base s = false -> z_top s = 0 -> z_mid s = true -> z_mp s = MSelect -> ggoal c s.
Proof.
  gintro. intros Hb Ht Hm Emp. unfold ggoal.
  destruct (z_incc s) eqn:Ei.
  { take c s LMSelInc; dd gdec. }
  destruct (z_q s) as [|b r] eqn:Eq.
  2:{ take c s LMSelPing; dd gdec. }
  assert (Ha : z_armed s = true).
  { destruct (z_armed s) eqn:Ea; auto. exfalso. sat. lia. }
  destruct (z_pp s) eqn:Epp.
  + take c s LPTop; dd gdec.
  + exfalso. assert (0 < z_wclcur s) by (apply K2; auto; rewrite Eq; reflexivity). lia.
  + take c s LPTop; dd gdec.
  + take c s LPChk; dd gdec.
  + take c s LPUpdOk; dd gdec.
  + take c s LPPublish; dd gdec.
  + take c s LPCloseOut; dd gdec.
  + exfalso. sat. congruence.
  + exfalso. sat. congruence.
Qed.

Lemma g_mid_MDrain s : gctx c s -> z_base s = false -> z_top s = 0 -> z_mid s = true -> z_mp s = MDrain -> ggoal c s.
Proof.
  gintro. intros Hb Ht Hm Emp. unfold ggoal.
  take c s LMDrain; dd gdec.
Qed.

Lemma g_mid_MIngest s : gctx c s -> z_base s = false -> z_top s = 0 -> z_mid s = true -> z_mp s = MIngest -> ggoal c s.
Proof.
  gintro. intros Hb Ht Hm Emp. unfold ggoal.
  take c s LMIngest; dd gdec.
Qed.

Lemma g_mid_MMerge s : gctx c s -> z_base s = false -> z_top s = 0 -> z_mid s = true -> z_mp s = MMerge -> ggoal c s.
Proof.
  gintro. intros Hb Ht Hm Emp. unfold ggoal.
  take c s LMMergeOk; dd gdec.
Qed.

Lemma g_mid_MHandover s : gctx c s -> z_base s = false -> z_top s = 0 -> z_mid s = true -> z_mp s = MHandover -> ggoal c s.
Proof.
  gintro. intros Hb Ht Hm Emp. unfold ggoal.
  take c s LMHandover; dd gdec.
Qed.

Lemma g_mid_MWaitOut s g : gctx c s -> z_base s = false -> z_top s = 0 -> z_mid s = true -> z_mp s = MWaitOut g -> ggoal c s.
Proof.
  gintro. intros Hb Ht Hm Emp. unfold ggoal.
  destruct (z_oready s) eqn:Er.
  { take c s LMOutWake; dd gdec. }
  assert (Epp : z_pp s = PCloseOut (Some g)).
  { destruct I as (I1&I2&I3&I3b&I4&I4b&I5&I6&I7&J1&J1b&J2&J3&J4&J5a&J5b&J5c&I9a&I9b&I10&I11&I12).
    apply (J2 g Emp eq_refl). intros Eo.
    assert (z_base s = true); [|congruence].
    apply J3; [congruence|]. rewrite (I9b Cl). discriminate. }
  exists LPCloseOut, (set_pp PTop (set_oready true s)). split; [reflexivity|]. split.
  { unfold step, step_gen. rewrite Epp, Emp, Nat.eqb_refl. reflexivity. }
  unfold mu_g, dIn, dHo, ow, dPb; zs.
  rewrite ?Emp, ?Er, ?Hb, ?Ht, ?Hm, ?Nat.ltb_irrefl. cbv beta iota. destruct (z_mid s); lia.
Qed.
End StallC.
