(* TreeCyclesFacts.v — "clean shutdown and reopen returns what was written",
   with child collections, for an arbitrary merge operator.
   Organisation: A reference trees up to empty children (rt_sub, rt_restrict);
   B what restore builds (NodeInv_restore, FLive_restore); C the invariant of
   TreeInvFacts restated over an arbitrary starting tree (SInvR) and its
   preservation; D the history ghost with explicit indices (GInvR) and its
   monotone preservation; E distinct child names in stacks and footers (WInv);
   F the theorems: start from any store, close, cycles; G witnesses. *)
From Coq Require Import List NArith Bool Lia Arith.
From Moss Require Import Bytes BytesFacts Segment SegmentFacts Stack StackFacts
     Collection CollectionFacts Store StoreFacts Tree TreeColl TreeFacts TreeInv TreeInvFacts
     TreeCycles.
From Moss Require FlatRun TreeRun.
Import ListNotations.

(* ======================================================================= *)
(* A. reference trees up to the existence of empty children                 *)
(* ======================================================================= *)
Section RrGo.
  Variable rec : rtree -> fnode -> rtree.
  Variable fk : list (cname * fnode).
  Fixpoint rr_go (l : list (cname * rtree)) : list (cname * rtree) :=
    match l with
    | [] => []
    | (n, cr) :: q =>
        match assoc n fk with
        | Some cf => (n, rec cr cf) :: rr_go q
        | None => rr_go q
        end
    end.

  Lemma rr_go_assoc l n :
    assoc n (rr_go l) =
    match assoc n l, assoc n fk with
    | Some cr, Some cf => Some (rec cr cf)
    | _, _ => None
    end.
  Proof.
    induction l as [|[n' cr] q IH]; [reflexivity|].
    cbn [rr_go]. destruct (assoc n' fk) as [cf|] eqn:Ef; cbn [assoc].
    - destruct (beqb n' n) eqn:E; auto.
      apply beqb_true in E. subst n'. now rewrite Ef.
    - destruct (beqb n' n) eqn:E; auto.
      apply beqb_true in E. subst n'. rewrite IH, Ef. destruct (assoc n q); reflexivity.
  Qed.
End RrGo.

Lemma rt_restrict_unfold h kids f :
  rt_restrict (RT h kids) f = RT h (rr_go rt_restrict (fn_kids f) kids).
Proof. reflexivity. Qed.

Lemma rt_restrict_hist r f : rt_hist (rt_restrict r f) = rt_hist r.
Proof. destruct r; reflexivity. Qed.

Lemma rt_restrict_kid r f n :
  assoc n (rt_kids (rt_restrict r f)) =
  match assoc n (rt_kids r), assoc n (fn_kids f) with
  | Some cr, Some cf => Some (rt_restrict cr cf)
  | _, _ => None
  end.
Proof. destruct r as [h kids]. rewrite rt_restrict_unfold. cbn [rt_kids]. apply rr_go_assoc. Qed.

Lemma rt_run_app r0 bs1 bs2 : rt_run r0 (bs1 ++ bs2) = rt_run (rt_run r0 bs1) bs2.
Proof. unfold rt_run. apply fold_left_app. Qed.

Lemma rt_run_snoc r0 bs b : rt_run r0 (bs ++ [b]) = rt_apply (rt_run r0 bs) b.
Proof. now rewrite rt_run_app. Qed.

Lemma rt_run_ref bs : rt_run (RT [] []) bs = ref_tree bs.
Proof. reflexivity. Qed.

Lemma Forall_firstn' {A} (P : A -> Prop) n (l : list A) : Forall P l -> Forall P (firstn n l).
Proof.
  intros H. rewrite <- (firstn_skipn n l) in H. apply Forall_app in H. tauto.
Qed.

Lemma names_iff_assoc {A B} (l1 : list (cname * A)) (l2 : list (cname * B)) n :
  (In n (map fst l1) <-> In n (map fst l2)) -> (assoc n l1 = None <-> assoc n l2 = None).
Proof.
  intros H. split; intros E; apply assoc_none_iff in E; apply assoc_none_iff; intros Hin;
    apply E; now apply H.
Qed.

Section RtFacts.
  Variable fm : bytes -> value -> bytes -> value.
  Notation rt_get := (rt_get fm).
  Notation rt_sub := (rt_sub fm).
  Notation rt_empty := (rt_empty fm).

  Lemma rt_get_snoc r ops k (kids : list (cname * rtree)) :
    rt_get (RT (rt_hist r ++ [ops]) kids) k =
    match find ops k with Some o => apply_op fm k (rt_get r k) o | None => rt_get r k end.
  Proof. unfold TreeColl.rt_get. cbn [rt_hist]. apply ref_from_snoc. Qed.

  Lemma rt_empty_sub c : rt_empty c -> rt_sub (RT [] []) c.
  Proof.
    intros H. inversion H as [r0 Hg Hk]; subst. constructor.
    - intros k. rewrite Hg. reflexivity.
    - intros n c' E. discriminate.
    - intros n c' c0 E. discriminate.
    - intros n c0 _ E. eauto.
  Qed.

  Lemma rt_sub_leaf : rt_sub (RT [] []) (RT [] []).
  Proof. constructor; try (intros; discriminate). reflexivity. Qed.

  Lemma rt_sub_empty c' c : rt_sub c' c -> rt_empty c' -> rt_empty c.
  Proof.
    induction 1 as [r' r Hg H2 H3 IH H4]. intros He.
    inversion He as [r0 Hg' Hk']; subst. constructor.
    - intros k. rewrite <- Hg. apply Hg'.
    - intros n cr Er. destruct (assoc n (rt_kids r')) as [c'|] eqn:E'.
      + apply (IH n c' cr E' Er). eauto.
      + eauto.
  Qed.

  (* applying a batch to both sides keeps the relation: a child the smaller
     tree lacks is created afresh there, and reads as the batch applied to the
     empty child of the bigger tree *)
  Lemma rt_sub_apply b : forall r' r,
      tb_distinct b = true -> rt_sub r' r -> rt_sub (rt_apply r' b) (rt_apply r b).
  Proof.
    induction b as [ops bkids IH] using tbatch_ind'. intros r' r Hd Hs.
    destruct (tb_distinct_inv _ _ Hd) as [Hnd Hkd].
    inversion Hs as [x y Hg H2 H3 H4]; subst.
    rewrite !rt_apply_unfold.
    pose proof (ra_go_spec rt_apply bkids Hnd (rt_kids r')) as S'.
    pose proof (ra_go_spec rt_apply bkids Hnd (rt_kids r)) as S.
    assert (Hcur : forall n,
               rt_sub (match assoc n (rt_kids r') with Some x => x | None => RT [] [] end)
                      (match assoc n (rt_kids r) with Some x => x | None => RT [] [] end)).
    { intros n. destruct (assoc n (rt_kids r')) as [c'|] eqn:E', (assoc n (rt_kids r)) as [c|] eqn:E.
      - eauto.
      - exfalso. apply (H2 n c' E'). exact E.
      - apply rt_empty_sub. eauto.
      - apply rt_sub_leaf. }
    constructor; cbn [rt_kids].
    - intros k. rewrite !rt_get_snoc. now rewrite Hg.
    - intros n c' E'. specialize (S' n). specialize (S n).
      destruct (assoc n bkids) as [[cb|]|]; try congruence.
      rewrite S' in E'. rewrite S. eauto.
    - intros n c' c E' E. specialize (S' n). specialize (S n).
      destruct (assoc n bkids) as [[cb|]|] eqn:Eb.
      + rewrite S' in E'. rewrite S in E. injection E' as <-. injection E as <-.
        apply (IH n cb); [apply assoc_some_in; exact Eb| |apply Hcur].
        apply (Hkd n cb). apply assoc_some_in; exact Eb.
      + congruence.
      + rewrite S' in E'. rewrite S in E. eauto.
    - intros n c E' E. specialize (S' n). specialize (S n).
      destruct (assoc n bkids) as [[cb|]|] eqn:Eb.
      + congruence.
      + congruence.
      + rewrite S' in E'. rewrite S in E. eauto.
  Qed.

  Lemma rt_sub_run bs : forall r' r,
      Forall (fun b => tb_good b = true) bs -> rt_sub r' r -> rt_sub (rt_run r' bs) (rt_run r bs).
  Proof.
    induction bs as [|b bs IH]; intros r' r Hg Hs; [exact Hs|].
    inversion Hg; subst. cbn [rt_run fold_left]. apply IH; auto. apply rt_sub_apply; auto.
  Qed.

  (* a footer that reads as the smaller tree reads as the bigger one *)
  Lemma fn_reads_mod_sub f r' :
    fn_reads_mod fm f r' -> forall r, rt_sub r' r -> fn_reads_mod fm f r.
  Proof.
    induction 1 as [f r' Hg F2 F3 IH F4]. intros r Hs.
    inversion Hs as [x y Hg' H2 H3 H4]; subst.
    constructor.
    - intros k. rewrite Hg. apply Hg'.
    - intros n cf E. destruct (assoc n (rt_kids r')) as [c'|] eqn:E'.
      + eauto.
      + exfalso. apply (F2 n cf E). exact E'.
    - intros n cf cr E Er. destruct (assoc n (rt_kids r')) as [c'|] eqn:E'.
      + apply (IH n cf c' E E'). eauto.
      + exfalso. apply (F2 n cf E). exact E'.
    - intros n cr E Er. destruct (assoc n (rt_kids r')) as [c'|] eqn:E'.
      + apply (rt_sub_empty c' cr); eauto.
      + eauto.
  Qed.

  (* a stack that reads as the smaller tree reads as the bigger one, up to
     the existence of empty children *)
  Lemma reads_as_sub s r' :
    reads_as fm s r' -> forall r, rt_sub r' r -> reads_mod fm s r.
  Proof.
    induction 1 as [s r' Hg Hn Hk IH]. intros r Hs.
    inversion Hs as [x y Hg' H2 H3 H4]; subst.
    assert (Hn' : forall n, assoc n (ss_kids s) = None <-> assoc n (rt_kids r') = None)
      by (intros n; apply names_iff_assoc, Hn).
    constructor.
    - intros k. rewrite Hg. apply Hg'.
    - intros n cs E. destruct (assoc n (rt_kids r')) as [c'|] eqn:E'.
      + eauto.
      + apply Hn' in E'. congruence.
    - intros n cs cr E Er. destruct (assoc n (rt_kids r')) as [c'|] eqn:E'.
      + apply (IH n cs c' E E'). eauto.
      + apply Hn' in E'. congruence.
    - intros n cr E Er. apply Hn' in E. eauto.
  Qed.

  Lemma reads_as_mod s r : reads_as fm s r -> reads_mod fm s r.
  Proof.
    induction 1 as [s r Hg Hn Hk IH].
    assert (Hn' : forall n, assoc n (ss_kids s) = None <-> assoc n (rt_kids r) = None)
      by (intros n; apply names_iff_assoc, Hn).
    constructor; auto.
    - intros n cs E Er. apply Hn' in Er. congruence.
    - intros n cr E Er. apply Hn' in E. congruence.
  Qed.

  (* cutting the reference down to the children that have a footer drops
     empty children only, and makes the child names agree exactly *)
  Lemma rt_restrict_sub f r : fn_reads_mod fm f r -> rt_sub (rt_restrict r f) r.
  Proof.
    induction 1 as [f r Hg F2 F3 IH F4].
    constructor.
    - intros k. unfold TreeColl.rt_get. now rewrite rt_restrict_hist.
    - intros n c' E. rewrite rt_restrict_kid in E.
      destruct (assoc n (rt_kids r)); [discriminate|discriminate].
    - intros n c' c E Er. rewrite rt_restrict_kid, Er in E.
      destruct (assoc n (fn_kids f)) as [cf|] eqn:Ef; [|discriminate].
      injection E as <-. eauto.
    - intros n c E Er. rewrite rt_restrict_kid, Er in E.
      destruct (assoc n (fn_kids f)) as [cf|] eqn:Ef; [discriminate|]. eauto.
  Qed.

  Lemma rt_restrict_exact f r : fn_reads_mod fm f r -> fn_reads_exact fm f (rt_restrict r f).
  Proof.
    induction 1 as [f r Hg F2 F3 IH F4].
    constructor.
    - intros k. rewrite Hg. unfold TreeColl.rt_get. now rewrite rt_restrict_hist.
    - intros n. rewrite rt_restrict_kid. split.
      + intros ->. destruct (assoc n (rt_kids r)); reflexivity.
      + intros E. destruct (assoc n (fn_kids f)) as [cf|] eqn:Ef; [|reflexivity].
        exfalso. destruct (assoc n (rt_kids r)) as [cr|] eqn:Er; [discriminate|].
        apply (F2 n cf Ef). exact Er.
    - intros n cf cr Ef E. rewrite rt_restrict_kid, Ef in E.
      destruct (assoc n (rt_kids r)) as [cr0|] eqn:Er; [|discriminate].
      injection E as <-. eauto.
  Qed.

  Lemma fn_reads_exact_mod f r : fn_reads_exact fm f r -> fn_reads_mod fm f r.
  Proof.
    induction 1 as [f r Hg Hn Hk IH]. constructor; auto.
    - intros n cf E Er. apply Hn in Er. congruence.
    - intros n cr E Er. apply Hn in E. congruence.
  Qed.
End RtFacts.

(* ======================================================================= *)
(* B. what restore builds                                                   *)
(* ======================================================================= *)
Fixpoint rs_go (l : list (cname * fnode)) (hi : N)
  : N * list (cname * cnode) * list (cname * fnode) :=
  match l with
  | [] => (hi, [], [])
  | (n, cf) :: r =>
      let hi' := (hi + 1)%N in
      let '(cc, cf') := restore hi' cf in
      let '(hi2, ck, fk) := rs_go r hi' in
      (hi2, (n, cc) :: ck, (n, cf') :: fk)
  end.

Lemma restore_unfold inc a j kids :
  restore inc (FN a j kids) =
  let '(hi, ck, fk) := rs_go kids inc in (CN inc hi ck, FN a inc fk).
Proof. reflexivity. Qed.

Lemma rs_go_spec l : forall hi hi2 ck fk,
    rs_go l hi = (hi2, ck, fk) ->
    (hi <= hi2)%N /\ map fst ck = map fst l /\ map fst fk = map fst l /\
    forall n,
      match assoc n l with
      | None => assoc n ck = None /\ assoc n fk = None
      | Some cf => exists i, (hi < i <= hi2)%N /\
                             assoc n ck = Some (fst (restore i cf)) /\
                             assoc n fk = Some (snd (restore i cf))
      end.
Proof.
  induction l as [|[n0 cf0] r IH]; intros hi hi2 ck fk E.
  - cbn [rs_go] in E. injection E as <- <- <-. repeat split; auto. lia.
  - cbn [rs_go] in E.
    destruct (restore (hi + 1) cf0) as [cc cf'] eqn:Er.
    destruct (rs_go r (hi + 1)) as [[h2 ck0] fk0] eqn:Eg.
    injection E as <- <- <-.
    destruct (IH _ _ _ _ Eg) as (Hh & Hc & Hf & Hs).
    split; [lia|]. split; [cbn [map fst]; now rewrite Hc|].
    split; [cbn [map fst]; now rewrite Hf|].
    intros n. cbn [assoc]. destruct (beqb n0 n) eqn:En.
    + exists (hi + 1)%N. rewrite Er. cbn [fst snd]. split; [lia|]. auto.
    + specialize (Hs n). destruct (assoc n r) as [cf|]; auto.
      destruct Hs as (i & Hi & H1 & H2). exists i. split; [lia|]. auto.
Qed.

Lemma restore_incar i f : cn_incar (fst (restore i f)) = i /\ fn_incar (snd (restore i f)) = i.
Proof. destruct f as [a j kids]. rewrite restore_unfold. destruct (rs_go kids i) as [[hi ck] fk]. auto. Qed.

Section RestoreInv.
  Variable fm : bytes -> value -> bytes -> value.

  (* the restored collection over the renumbered footer is a live node tree
     that reads as any reference tree the footer reads as exactly *)
  Lemma NodeInv_restore f : forall i r,
      fn_wf f -> fn_reads_exact fm f r ->
      NodeInv fm true true None (fst (restore i f)) None None None None
              (Some (snd (restore i f))) r.
  Proof.
    induction f as [a j kids IH] using fnode_ind'. intros i r Hw He.
    inversion Hw as [f0 Hnd Hwk]; subst. cbn [fn_kids] in *.
    inversion He as [f0 r0 Hg Hn Hk]; subst. cbn [fn_kids fn_segs] in *.
    rewrite restore_unfold.
    destruct (rs_go kids i) as [[hi ck] fk] eqn:Eg. cbn [fst snd].
    destruct (rs_go_spec _ _ _ _ _ Eg) as (Hh & Hc & Hf & Hs).
    constructor.
    - constructor; cbn [cn_kids cn_highest osegs app].
      + intros k. cbn [Stack.sget Tree.fn_get fn_segs]. apply Hg.
      + intros k. reflexivity.
      + intros K ms HK. discriminate.
      + intros _ b Hb. discriminate.
      + now rewrite Hc.
      + intros n. rewrite <- Hn. specialize (Hs n).
        destruct (assoc n kids) as [cf|].
        * destruct Hs as (i0 & _ & -> & _). split; discriminate.
        * destruct Hs as [-> _]. tauto.
      + intros n cm Ea. specialize (Hs n). destruct (assoc n kids) as [cf|].
        * destruct Hs as (i0 & Hi & E1 & _). rewrite E1 in Ea. injection Ea as <-.
          destruct (restore_incar i0 cf) as [-> _]. lia.
        * destruct Hs as [E1 _]. congruence.
      + intros n i0 Hi. repeat split; auto. cbn [fsel fn_kids].
        specialize (Hs n). destruct (assoc n kids) as [cf|].
        * destruct Hs as (i1 & Hi1 & _ & ->).
          destruct (restore_incar i1 cf) as [_ ->].
          assert (i1 <> i0) by lia. apply N.eqb_neq in H. now rewrite H.
        * destruct Hs as [_ ->]. reflexivity.
      + intros HB. exfalso. now apply HB.
      + intros HM. exfalso. now apply HM.
      + discriminate.
      + discriminate.
    - intros n cm cr Ea Er. cbn [cn_kids] in Ea. cbn [option_map sel].
      specialize (Hs n). destruct (assoc n kids) as [cf|] eqn:Ek.
      + destruct Hs as (i0 & Hi & E1 & E2). rewrite E1 in Ea. injection Ea as <-.
        destruct (restore_incar i0 cf) as [Hi1 Hi2]. rewrite Hi1.
        cbn [fsel fn_kids]. rewrite E2, Hi2, N.eqb_refl.
        apply (IH n cf); eauto. apply assoc_some_in; exact Ek.
      + destruct Hs as [E1 _]. congruence.
  Qed.
End RestoreInv.

Lemma FLive_restore f : forall i, FLive (fst (restore i f)) (snd (restore i f)).
Proof.
  induction f as [a j kids IH] using fnode_ind'. intros i.
  rewrite restore_unfold.
  destruct (rs_go kids i) as [[hi ck] fk] eqn:Eg. cbn [fst snd].
  destruct (rs_go_spec _ _ _ _ _ Eg) as (Hh & Hc & Hf & Hs).
  assert (Hex : forall n y, assoc n fk = Some y ->
                 exists cf i0, In (n, cf) kids /\ assoc n ck = Some (fst (restore i0 cf)) /\
                               y = snd (restore i0 cf)).
  { intros n y E. specialize (Hs n). destruct (assoc n kids) as [cf|] eqn:Ek.
    - destruct Hs as (i0 & _ & E1 & E2). exists cf, i0. split; [apply assoc_some_in; auto|].
      split; auto. congruence.
    - destruct Hs as [_ E2]. congruence. }
  constructor; cbn [fn_kids cn_kids].
  - intros n y E. destruct (Hex n y E) as (cf & i0 & _ & E1 & _). congruence.
  - intros n y cm E Ea. destruct (Hex n y E) as (cf & i0 & _ & E1 & ->).
    rewrite E1 in Ea. injection Ea as <-.
    destruct (restore_incar i0 cf) as [-> ->]. reflexivity.
  - intros n y cm E Ea. destruct (Hex n y E) as (cf & i0 & Hin & E1 & ->).
    rewrite E1 in Ea. injection Ea as <-. eapply IH; eauto.
Qed.

(* the renumbered footer reads as the original one, and keeps distinct names *)
Lemma restore_fn_wf f : forall i, fn_wf f -> fn_wf (snd (restore i f)).
Proof.
  induction f as [a j kids IH] using fnode_ind'. intros i Hw.
  inversion Hw as [f0 Hnd Hwk]; subst. cbn [fn_kids] in *.
  rewrite restore_unfold.
  destruct (rs_go kids i) as [[hi ck] fk] eqn:Eg. cbn [fst snd].
  destruct (rs_go_spec _ _ _ _ _ Eg) as (Hh & Hc & Hf & Hs).
  constructor; cbn [fn_kids].
  - now rewrite Hf.
  - intros n y E. specialize (Hs n). destruct (assoc n kids) as [cf|] eqn:Ek.
    + destruct Hs as (i0 & _ & _ & E2). rewrite E2 in E. injection E as <-.
      apply (IH n cf); eauto. apply assoc_some_in; exact Ek.
    + destruct Hs as [_ E2]. congruence.
Qed.

Section RestoreReads.
  Variable fm : bytes -> value -> bytes -> value.
  Lemma restore_reads_mod f : forall i r,
      fn_reads_mod fm f r -> fn_reads_mod fm (snd (restore i f)) r.
  Proof.
    induction f as [a j kids IH] using fnode_ind'. intros i r Hr.
    inversion Hr as [f0 r0 Hg F2 F3 F4]; subst. cbn [fn_kids fn_segs] in *.
    rewrite restore_unfold.
    destruct (rs_go kids i) as [[hi ck] fk] eqn:Eg. cbn [fst snd].
    destruct (rs_go_spec _ _ _ _ _ Eg) as (Hh & Hc & Hf & Hs).
    constructor; cbn [fn_kids fn_segs]; auto.
    - intros n y E. specialize (Hs n). destruct (assoc n kids) as [cf|] eqn:Ek.
      + eauto.
      + destruct Hs as [_ E2]. congruence.
    - intros n y cr E Er. specialize (Hs n). destruct (assoc n kids) as [cf|] eqn:Ek.
      + destruct Hs as (i0 & _ & _ & E2). rewrite E2 in E. injection E as <-.
        apply (IH n cf); eauto. apply assoc_some_in; exact Ek.
      + destruct Hs as [_ E2]. congruence.
    - intros n cr E Er. specialize (Hs n). destruct (assoc n kids) as [cf|] eqn:Ek.
      + destruct Hs as (i0 & _ & _ & E2). congruence.
      + eauto.
  Qed.
End RestoreReads.

(* ======================================================================= *)
(* C. the invariant of the combined system over an arbitrary starting tree  *)
(* ======================================================================= *)
(* SInv of TreeInvFacts with the reference tree as an argument, and with the
   flag "the root has a lower-level snapshot" (lr) separated from the
   configuration: a reopened collection has one whatever has_ll says. *)
Section StateInvR.
  Variable fm : bytes -> value -> bytes -> value.
  Notation NodeInv := (NodeInv fm).

  Record SInvR (c : cfg) (lr : bool) (r : rtree) (cs : cst) : Prop := {
    sr_open : t_closed (c_t cs) = false;
    sr_ll : has_some (t_ll (c_t cs)) = lr;
    sr_lc : has_ll c = true -> lr = true;
    sr_node : NodeInv lr true (cap_of (t_merger (c_t cs)))
                      (t_coll (c_t cs)) (t_top (c_t cs)) (t_mid (c_t cs))
                      (t_base (c_t cs)) (t_clean (c_t cs)) (t_ll (c_t cs)) r;
    sr_top : forall t, t_top (c_t cs) = Some t -> TopOk (t_coll (c_t cs)) t;
    sr_pers : match t_persister (c_t cs) with
              | PIdle => lr = true -> t_ll (c_t cs) = Some (c_store cs)
              | PUpdating =>
                  exists b f ch, t_base (c_t cs) = Some b /\ t_ll (c_t cs) = Some f /\
                                 tree_persist fm ch b f = Some (c_store cs) /\
                                 c_pend cs = Some (c_store cs)
              end;
    sr_cached : forall sn, t_cached (c_t cs) = Some sn -> reads_as fm sn r
  }.

  Lemma sinvr_init_from c f r :
    fn_wf f -> fn_reads_exact fm f r -> SInvR c true r (cinit_from c f).
  Proof.
    intros Hw He. constructor; cbn; auto; try discriminate.
    apply NodeInv_restore; auto.
  Qed.

  (* the original invariant is the instance lr = has_ll c, r = ref_tree bs *)
  Lemma sinv_sinvr c bs cs : SInv fm c bs cs -> SInvR c (has_ll c) (ref_tree bs) cs.
  Proof.
    intros [Ho Hll Hn Ht Hp Hc]. constructor; auto.
  Qed.
End StateInvR.

Section StepInvR.
  Variable fm : bytes -> value -> bytes -> value.
  Notation NodeInv := (NodeInv fm).
  Notation SInvR := (SInvR fm).

  Lemma tstep_batch_invR c lr r cs b s' :
    SInvR c lr r cs -> tb_good b = true ->
    tstep fm c (c_t cs) (TBatch b) = Some s' ->
    SInvR c lr (rt_apply r b) {| c_t := s'; c_pend := c_pend cs; c_store := c_store cs |}.
  Proof.
    intros [Ho Hll Hlc Hn Ht Hp Hc] Hg Hs.
    unfold tstep in Hs. rewrite Ho in Hs.
    destruct (tb_ok b && tb_nonempty b) eqn:G; [|discriminate].
    apply andb_true_iff in G. destruct G as [Gok _].
    assert (Hh : batch_hyp b) by (split; auto).
    destruct (batch_inv fm b _ _ _ _ _ _ _ _ _ _ Hh Hn Ht) as [HN HT].
    destruct (build_top (t_coll (c_t cs)) b (t_top (c_t cs))) as [coll' top'] eqn:Eb.
    injection Hs as <-. cbn [fst snd] in *.
    constructor; cbn; auto.
    - intros t [= <-]. exact HT.
    - discriminate.
  Qed.

  Lemma tstep_ingest_invR c lr r cs s' :
    SInvR c lr r cs -> tstep fm c (c_t cs) TIngest = Some s' ->
    SInvR c lr r {| c_t := s'; c_pend := c_pend cs; c_store := c_store cs |}.
  Proof.
    intros [Ho Hll Hlc Hn Ht Hp Hc] Hs.
    unfold tstep in Hs. rewrite Ho in Hs.
    destruct (t_merger (c_t cs)) eqn:Em; try discriminate.
    injection Hs as <-.
    constructor; cbn; auto.
    - unfold t_assemble. rewrite Hll.
      apply (ingest_inv fm _ _ _ _ _ _ _ _ _ _ Hn eq_refl). left. reflexivity.
    - discriminate.
    - discriminate.
  Qed.

  Lemma tstep_swap_invR c lr r cs t s' :
    SInvR c lr r cs -> tstep fm c (c_t cs) (TSwap t) = Some s' ->
    SInvR c lr r {| c_t := s'; c_pend := c_pend cs; c_store := c_store cs |}.
  Proof.
    intros [Ho Hll Hlc Hn Ht Hp Hc] Hs.
    unfold tstep in Hs. rewrite Ho in Hs.
    destruct (t_merger (c_t cs)) as [|mb|] eqn:Em; try discriminate.
    destruct (t_mid (c_t cs)) as [ms|] eqn:Emid; try discriminate.
    injection Hs as <-. cbn [cap_of] in Hn.
    constructor; cbn; auto.
    - destruct (ss_is_empty ms); [apply (drop_cap fm _ _ _ _ _ _ _ _ _ _ Hn)|].
      apply (swap_inv fm _ _ _ _ _ _ _ _ _ _ Hn mb); [reflexivity|]. right.
      exists ms, t. auto.
    - destruct (ss_is_empty ms); [exact Hc|discriminate].
  Qed.

  Lemma tstep_handover_invR c lr r cs s' :
    SInvR c lr r cs -> tstep fm c (c_t cs) THandover = Some s' ->
    SInvR c lr r {| c_t := s'; c_pend := c_pend cs; c_store := c_store cs |}.
  Proof.
    intros [Ho Hll Hlc Hn Ht Hp Hc] Hs.
    unfold tstep in Hs. rewrite Ho in Hs.
    destruct (t_merger (c_t cs)) as [|mb|] eqn:Em; try discriminate. cbn [cap_of] in Hn.
    destruct (t_base (c_t cs)) as [b|] eqn:Eb.
    { injection Hs as <-. constructor; cbn; auto. }
    destruct (t_mid (c_t cs)) as [ms|] eqn:Emid.
    2:{ injection Hs as <-. constructor; cbn; auto. }
    destruct (has_ll c) eqn:Ec.
    2:{ injection Hs as <-. constructor; cbn; rewrite ?Ec; auto; try discriminate. }
    injection Hs as <-.
    assert (lr = true) by auto. subst lr.
    destruct (t_ll (c_t cs)) as [f|] eqn:Ell; [|discriminate].
    constructor; cbn; rewrite ?Ell; auto.
    - apply (bll_upgrade fm true false); [|right; eauto].
      apply (handover_inv fm _ _ _ _ _ _ _ _ _ Hn eq_refl eq_refl).
      cbn. apply refresh_lleq.
    - destruct (t_persister (c_t cs)); auto.
      destruct Hp as (b' & f' & ch & H1 & _). discriminate.
  Qed.

  Lemma tstep_snap_invR c lr r cs s' :
    SInvR c lr r cs -> tstep fm c (c_t cs) TSnap = Some s' ->
    SInvR c lr r {| c_t := s'; c_pend := c_pend cs; c_store := c_store cs |}.
  Proof.
    intros [Ho Hll Hlc Hn Ht Hp Hc] Hs.
    unfold tstep in Hs. rewrite Ho in Hs. injection Hs as <-.
    constructor; cbn; auto.
    intros sn [= <-]. unfold t_cur_snapshot.
    destruct (t_cached (c_t cs)) as [sn|] eqn:Eca; [auto|].
    unfold t_mk_snapshot, t_assemble. rewrite Hll.
    apply (assemble_reads_as fm _ _ _ _ _ _ _ _ _ _ Hn).
  Qed.

  Lemma cstep_pbegin_invR c lr r cs ch cs' :
    SInvR c lr r cs -> cstep fm c cs (CPBegin ch) = Some cs' -> SInvR c lr r cs'.
  Proof.
    intros [Ho Hll Hlc Hn Ht Hp Hc] Hs.
    cbn [cstep] in Hs. unfold tstep in Hs. rewrite Ho in Hs.
    destruct (t_persister (c_t cs)) eqn:Ep; try discriminate.
    destruct (t_base (c_t cs)) as [b|] eqn:Eb; try discriminate.
    destruct (has_ll c) eqn:Ec; try discriminate.
    unfold c_update in Hs. rewrite Eb in Hs.
    destruct (tree_persist fm ch b (c_store cs)) as [f'|] eqn:Et; [|discriminate].
    injection Hs as <-.
    constructor; cbn; auto.
    exists b, (c_store cs), ch. auto.
  Qed.

  Lemma cstep_pbeginfail_invR c lr r cs cs' :
    SInvR c lr r cs -> cstep fm c cs CPBeginFail = Some cs' -> SInvR c lr r cs'.
  Proof.
    intros [Ho Hll Hlc Hn Ht Hp Hc] Hs.
    cbn [cstep] in Hs. unfold tstep in Hs. rewrite Ho in Hs.
    destruct (t_persister (c_t cs)) eqn:Ep; try discriminate.
    destruct (t_base (c_t cs)) as [b|] eqn:Eb; try discriminate.
    destruct (has_ll c) eqn:Ec; try discriminate.
    cbn in Hs. injection Hs as <-.
    constructor; cbn; auto.
  Qed.

  Lemma cstep_ppublish_invR c lr r cs cs' :
    SInvR c lr r cs -> cstep fm c cs CPPublish = Some cs' -> SInvR c lr r cs'.
  Proof.
    intros [Ho Hll Hlc Hn Ht Hp Hc] Hs.
    cbn [cstep] in Hs.
    destruct (c_pend cs) as [f'|] eqn:Epend; [|discriminate].
    unfold tstep in Hs. rewrite Ho in Hs.
    destruct (t_persister (c_t cs)) eqn:Ep; try discriminate.
    destruct (t_base (c_t cs)) as [b|] eqn:Eb; try discriminate.
    injection Hs as <-.
    destruct Hp as (b0 & f & ch & E1 & Ell & Etp & E2).
    injection E1 as <-. assert (f' = c_store cs) by congruence. subst f'.
    assert (Hl : lr = true) by (rewrite <- Hll, Ell; reflexivity).
    rewrite Ell in Hn.
    constructor; cbn.
    - reflexivity.
    - now rewrite Hl.
    - exact Hlc.
    - apply (persist_inv fm _ _ _ _ _ _ _ _ _ _ _ _ _ Hn Etp).
      intros Hk. apply andb_true_iff in Hk. destruct Hk as [_ Hk]. now apply negb_true_iff in Hk.
    - exact Ht.
    - reflexivity.
    - discriminate.
  Qed.

  Theorem cstep_invR c lr r cs l cs' :
    SInvR c lr r cs -> Forall (fun b => tb_good b = true) (clabel_batches l) ->
    cstep fm c cs l = Some cs' -> SInvR c lr (rt_run r (clabel_batches l)) cs'.
  Proof.
    intros HI Hg Hs.
    destruct l; cbn [clabel_batches rt_run fold_left];
      try (cbn [cstep] in Hs; unfold clift in Hs;
           match type of Hs with
           | match ?x with _ => _ end = _ => destruct x as [s'|] eqn:Et; [|discriminate]
           end; injection Hs as <-).
    - inversion Hg; subst. eapply tstep_batch_invR; eauto.
    - eapply tstep_ingest_invR; eauto.
    - eapply tstep_swap_invR; eauto.
    - eapply tstep_handover_invR; eauto.
    - eapply cstep_pbegin_invR; eauto.
    - eapply cstep_pbeginfail_invR; eauto.
    - eapply cstep_ppublish_invR; eauto.
    - eapply tstep_snap_invR; eauto.
  Qed.

  Theorem crun_invR c lr ls : forall r cs cs',
    SInvR c lr r cs -> Forall (fun b => tb_good b = true) (cbatches ls) ->
    crun fm c cs ls = Some cs' -> SInvR c lr (rt_run r (cbatches ls)) cs'.
  Proof.
    induction ls as [|l ls IH]; intros r cs cs' HI Hg Hr; cbn [crun] in Hr.
    - injection Hr as <-. exact HI.
    - destruct (cstep fm c cs l) as [cs1|] eqn:Es; [|discriminate].
      rewrite cbatches_cons in *. rewrite rt_run_app.
      apply Forall_app in Hg. destruct Hg as [Hg1 Hg2].
      eapply IH; eauto. eapply cstep_invR; eauto.
  Qed.

  Lemma sinvr_snapshot c lr r cs :
    SInvR c lr r cs -> reads_as fm (t_cur_snapshot (c_t cs)) r.
  Proof.
    intros HI. unfold t_cur_snapshot.
    destruct (t_cached (c_t cs)) as [sn|] eqn:Eca.
    - apply (sr_cached _ _ _ _ _ HI sn Eca).
    - unfold t_mk_snapshot, t_assemble. rewrite (sr_ll _ _ _ _ _ HI).
      apply (assemble_reads_as fm _ _ _ _ _ _ _ _ _ _ (sr_node _ _ _ _ _ HI)).
  Qed.

  Lemma sinvr_fresh_snapshot c lr r cs :
    SInvR c lr r cs -> reads_as fm (t_mk_snapshot (c_t cs)) r.
  Proof.
    intros HI. unfold t_mk_snapshot, t_assemble. rewrite (sr_ll _ _ _ _ _ HI).
    apply (assemble_reads_as fm _ _ _ _ _ _ _ _ _ _ (sr_node _ _ _ _ _ HI)).
  Qed.
End StepInvR.

(* ======================================================================= *)
(* D. the history ghost with explicit indices                               *)
(* ======================================================================= *)
(* GInv of TreeInvFacts over an arbitrary starting tree r0, with the index a
   of the lower-level snapshot and the index s of the store's footer exposed:
   the store is at a while the persister is idle and at b while a round is
   running (LowerLevelUpdate has written the new footer). *)
Definition store_idx (p : ppc) (a b : nat) : nat :=
  match p with PIdle => a | PUpdating => b end.

Section GhostR.
  Variable fm : bytes -> value -> bytes -> value.
  Notation NodeInv := (NodeInv fm).
  Notation SInvR := (SInvR fm).

  Definition GInvR (c : cfg) (lr : bool) (r0 : rtree) (bs : list tbatch) (cs : cst)
             (a s : nat) : Prop :=
    exists b d ca cb cd,
      a <= b /\ b <= d /\ d <= length bs /\
      NodeInv lr false None ca None None None None (t_ll (c_t cs))
              (rt_run r0 (firstn a bs)) /\
      NodeInv lr false None cb None None (t_base (c_t cs)) None (t_ll (c_t cs))
              (rt_run r0 (firstn b bs)) /\
      NodeInv lr false (cap_of (t_merger (c_t cs))) cd None (t_mid (c_t cs))
              (t_base (c_t cs)) None (t_ll (c_t cs)) (rt_run r0 (firstn d bs)) /\
      FLiveO ca (t_ll (c_t cs)) /\ SLiveO cb (t_base (c_t cs)) /\ SLiveO cd (t_mid (c_t cs)) /\
      (t_top (c_t cs) = None -> d = length bs) /\
      (t_mid (c_t cs) = None -> b = d) /\
      (t_base (c_t cs) = None -> a = b) /\
      s = store_idx (t_persister (c_t cs)) a b.

  Ltac splits := repeat match goal with |- _ /\ _ => split end.

  Lemma ginvr_init_from c f r0 :
    fn_wf f -> fn_reads_exact fm f r0 -> GInvR c true r0 [] (cinit_from c f) 0 0.
  Proof.
    intros Hw He.
    pose proof (weaken_inv fm _ _ _ _ _ _ _ _ _ _ (NodeInv_restore fm f 0 r0 Hw He)) as H.
    exists 0, 0, (fst (restore 0 f)), (fst (restore 0 f)), (fst (restore 0 f)). cbn.
    splits; auto. apply FLive_restore.
  Qed.

  Lemma ginvr_same c lr r0 bs cs cs' a s :
    t_top (c_t cs') = t_top (c_t cs) ->
    t_mid (c_t cs') = t_mid (c_t cs) -> t_base (c_t cs') = t_base (c_t cs) ->
    t_ll (c_t cs') = t_ll (c_t cs) -> cap_of (t_merger (c_t cs')) = cap_of (t_merger (c_t cs)) ->
    t_persister (c_t cs') = t_persister (c_t cs) ->
    GInvR c lr r0 bs cs a s -> GInvR c lr r0 bs cs' a s.
  Proof.
    intros E0 E1 E2 E3 E4 E5 (b & d & ca & cb & cd & H).
    exists b, d, ca, cb, cd. rewrite E0, E1, E2, E3, E4, E5. exact H.
  Qed.

  Theorem cstep_ginvR c lr r0 bs cs l cs' a s :
    SInvR c lr (rt_run r0 bs) cs -> GInvR c lr r0 bs cs a s ->
    cstep fm c cs l = Some cs' ->
    exists a' s', a <= a' /\ s <= s' /\ GInvR c lr r0 (bs ++ clabel_batches l) cs' a' s'.
  Proof.
    intros [Ho Hll Hlc Hn Ht Hp Hc] HG Hs.
    destruct l; cbn [clabel_batches]; rewrite ?app_nil_r; cbn [cstep] in Hs.
    - (* batch *)
      unfold clift, tstep in Hs. rewrite Ho in Hs.
      destruct (tb_ok b && tb_nonempty b); [|discriminate].
      destruct (build_top (t_coll (c_t cs)) b (t_top (c_t cs))) as [coll' top'].
      injection Hs as <-.
      destruct HG as (b0 & d & ca & cb & cd & H1 & H2 & H3 & HA & HB & HD & LA & LB & LD & ET & EM & EB & ES).
      exists a, s. split; [lia|]. split; [lia|].
      exists b0, d, ca, cb, cd. cbn.
      rewrite !firstn_app_le' by lia. rewrite app_length. cbn.
      splits; auto; try lia. discriminate.
    - (* ingest *)
      unfold clift, tstep in Hs. rewrite Ho in Hs.
      destruct (t_merger (c_t cs)) eqn:Em; try discriminate.
      injection Hs as <-.
      destruct HG as (b0 & d & ca & cb & cd & H1 & H2 & H3 & HA & HB & HD & LA & LB & LD & ET & EM & EB & ES).
      exists a, s. split; [lia|]. split; [lia|].
      exists b0, (length bs), ca, cb, (t_coll (c_t cs)). cbn.
      splits; auto; try lia; try discriminate.
      + rewrite firstn_all. unfold t_assemble. rewrite Hll.
        eapply (weaken_inv fm).
        apply (ingest_inv fm _ _ _ _ _ _ _ _ _ _ Hn eq_refl). left. reflexivity.
      + unfold t_assemble. apply (SLive_assemble fm _ _ _ _ _ _ _ _ _ _ Hn [t_top (c_t cs); t_mid (c_t cs)]).
    - (* swap *)
      unfold clift, tstep in Hs. rewrite Ho in Hs.
      destruct (t_merger (c_t cs)) as [|mb|] eqn:Em; try discriminate.
      destruct (t_mid (c_t cs)) as [ms|] eqn:Emid; try discriminate.
      injection Hs as <-.
      destruct HG as (b0 & d & ca & cb & cd & H1 & H2 & H3 & HA & HB & HD & LA & LB & LD & ET & EM & EB & ES).
      exists a, s. split; [lia|]. split; [lia|].
      exists b0, d, ca, cb, cd. cbn.
      rewrite Em, Emid in HD. cbn [cap_of] in HD. rewrite Emid in LD. cbn [SLiveO] in LD.
      splits; auto; try discriminate.
      + destruct (ss_is_empty ms); [apply (drop_cap fm _ _ _ _ _ _ _ _ _ _ HD)|].
        apply (swap_inv fm _ _ _ _ _ _ _ _ _ _ HD mb); [reflexivity|]. right.
        exists ms, t. auto.
      + destruct (ss_is_empty ms); auto. now apply SLive_merge.
    - (* hand-over *)
      unfold clift, tstep in Hs. rewrite Ho in Hs.
      destruct (t_merger (c_t cs)) as [|mb|] eqn:Em; try discriminate.
      destruct (t_base (c_t cs)) as [b|] eqn:Eb.
      { injection Hs as <-. exists a, s. split; [lia|]. split; [lia|].
        apply (ginvr_same c lr r0 bs cs); cbn; rewrite ?Em; auto. }
      destruct (t_mid (c_t cs)) as [ms|] eqn:Emid.
      2:{ injection Hs as <-. exists a, s. split; [lia|]. split; [lia|].
          apply (ginvr_same c lr r0 bs cs); cbn; rewrite ?Em; auto. }
      destruct (has_ll c) eqn:Ec.
      2:{ injection Hs as <-. exists a, s. split; [lia|]. split; [lia|].
          apply (ginvr_same c lr r0 bs cs); cbn; rewrite ?Em; auto. }
      injection Hs as <-.
      assert (lr = true) by auto. subst lr.
      destruct (t_ll (c_t cs)) as [f|] eqn:Ell; [|discriminate].
      destruct HG as (b0 & d & ca & cb & cd & H1 & H2 & H3 & HA & HB & HD & LA & LB & LD & ET & EM & EB & ES).
      rewrite Emid, Eb, Em, Ell in *. cbn [cap_of] in HD. cbn [SLiveO] in LD.
      assert (HD' : NodeInv true false None cd None None
                            (Some (refresh_llcap (t_coll (c_t cs)) ms (Some f))) None
                            (Some f) (rt_run r0 (firstn d bs))).
      { apply (handover_inv fm _ _ _ _ _ _ _ _ _ HD eq_refl eq_refl). cbn. apply refresh_lleq. }
      assert (Epi : t_persister (c_t cs) = PIdle).
      { destruct (t_persister (c_t cs)); auto.
        destruct Hp as (b' & f' & ch & E1 & _). discriminate. }
      exists a, s. split; [lia|]. split; [lia|].
      exists d, d, ca, cd, cd. cbn. rewrite ?Ell.
      splits; auto; try lia; try discriminate.
      * apply (SLive_lleq _ _ LD). apply refresh_lleq.
      * rewrite ES, Epi. reflexivity.
    - (* pbegin *)
      unfold tstep in Hs. rewrite Ho in Hs.
      destruct (t_persister (c_t cs)) eqn:Ep; try discriminate.
      destruct (t_base (c_t cs)) as [b|] eqn:Eb; try discriminate.
      destruct (has_ll c) eqn:Ec; try discriminate.
      destruct (c_update fm cs ch); [|discriminate]. injection Hs as <-.
      destruct HG as (b0 & d & ca & cb & cd & H1 & H2 & H3 & HA & HB & HD & LA & LB & LD & ET & EM & EB & ES).
      rewrite Ep in ES. exists a, b0. cbn [store_idx] in ES. split; [lia|]. split; [lia|].
      exists b0, d, ca, cb, cd. cbn. rewrite ?Eb.
      rewrite Eb in HB, HD, LB.
      splits; auto. discriminate.
    - (* pbegin, failed *)
      unfold clift, tstep in Hs. rewrite Ho in Hs.
      destruct (t_persister (c_t cs)) eqn:Ep; try discriminate.
      destruct (t_base (c_t cs)) as [b|] eqn:Eb; try discriminate.
      destruct (has_ll c) eqn:Ec; try discriminate.
      cbn in Hs. injection Hs as <-.
      exists a, s. split; [lia|]. split; [lia|].
      apply (ginvr_same c lr r0 bs cs); cbn; rewrite ?Ep; auto.
    - (* publish *)
      destruct (c_pend cs) as [f'|] eqn:Epend; [|discriminate].
      unfold tstep in Hs. rewrite Ho in Hs.
      destruct (t_persister (c_t cs)) eqn:Ep; try discriminate.
      destruct (t_base (c_t cs)) as [b|] eqn:Eb; try discriminate.
      injection Hs as <-.
      destruct Hp as (b0 & f & ch & E1 & Ell & Etp & E2).
      injection E1 as <-. assert (f' = c_store cs) by congruence. subst f'.
      destruct HG as (b1 & d & ca & cb & cd & H1 & H2 & H3 & HA & HB & HD & LA & LB & LD & ET & EM & EB & ES).
      rewrite Ell, Eb in *. cbn [SLiveO] in LB. rewrite Ep in ES. cbn [store_idx] in ES.
      pose proof (persist_inv fm _ _ _ _ _ _ _ _ _ _ _ _ false HB Etp) as HB'.
      pose proof (persist_inv fm _ _ _ _ _ _ _ _ _ _ _ _ false HD Etp) as HD'.
      exists b1, b1. split; [lia|]. split; [lia|].
      exists b1, d, cb, cb, cd. cbn.
      splits; auto; try lia; try (apply HB'; discriminate); try (apply HD'; discriminate).
      eapply FLive_persist; eauto.
    - (* snapshot *)
      unfold clift, tstep in Hs. rewrite Ho in Hs. injection Hs as <-.
      exists a, s. split; [lia|]. split; [lia|].
      apply (ginvr_same c lr r0 bs cs); cbn; auto.
  Qed.

  Theorem crun_ginvR c lr r0 ls : forall bs cs cs' a s,
    SInvR c lr (rt_run r0 bs) cs -> GInvR c lr r0 bs cs a s ->
    Forall (fun b => tb_good b = true) (cbatches ls) ->
    crun fm c cs ls = Some cs' ->
    exists a' s', a <= a' /\ s <= s' /\ GInvR c lr r0 (bs ++ cbatches ls) cs' a' s'.
  Proof.
    induction ls as [|l ls IH]; intros bs cs cs' a s HI HG Hg Hr; cbn [crun] in Hr.
    - injection Hr as <-. cbn. rewrite app_nil_r. exists a, s. auto.
    - destruct (cstep fm c cs l) as [cs1|] eqn:Es; [|discriminate].
      rewrite cbatches_cons in *. rewrite app_assoc.
      apply Forall_app in Hg. destruct Hg as [Hg1 Hg2].
      destruct (cstep_ginvR _ _ _ _ _ _ _ _ _ HI HG Es) as (a1 & s1 & Ha1 & Hs1 & HG1).
      assert (HI1 : SInvR c lr (rt_run r0 (bs ++ clabel_batches l)) cs1).
      { rewrite rt_run_app. eapply cstep_invR; eauto. }
      destruct (IH _ _ _ _ _ HI1 HG1 Hg2 Hr) as (a2 & s2 & Ha2 & Hs2 & HG2).
      exists a2, s2. split; [lia|]. split; [lia|]. exact HG2.
  Qed.
End GhostR.

(* ======================================================================= *)
(* E. distinct child names in stacks and footers                            *)
(* ======================================================================= *)
(* restore needs the child names of every footer node to be distinct; every
   footer the system writes has them distinct because every stack handed to
   the persister was assembled from the collection's bookkeeping. *)
Inductive ss_wf : sstack -> Prop :=
| SW s :
    NoDup (map fst (ss_kids s)) ->
    (forall n c, assoc n (ss_kids s) = Some c -> ss_wf c) ->
    ss_wf s.

Definition ss_wfO (o : option sstack) : Prop :=
  match o with Some s => ss_wf s | None => True end.

Lemma assemble_names m secs ll lr :
  (forall n, In n (map fst (ss_kids (assemble m secs ll lr))) -> In n (map fst (cn_kids m))) /\
  (NoDup (map fst (cn_kids m)) -> NoDup (map fst (ss_kids (assemble m secs ll lr)))).
Proof.
  destruct m as [inc hi mkids]. cbn [assemble ss_kids cn_kids].
  induction mkids as [|[n' cm] r [IH1 IH2]].
  - split; auto.
  - cbn [map fst].
    match goal with |- context [if ?b then _ else _] => destruct b end.
    + cbn [map fst]. split.
      * intros n [->|H]; [left; auto|right; auto].
      * intros H. inversion H; subst. constructor; auto.
    + split.
      * intros n H. right; auto.
      * intros H. inversion H; subst. auto.
Qed.

Lemma refresh_llcap_names m s ll : map fst (ss_kids (refresh_llcap m s ll)) = map fst (ss_kids s).
Proof.
  destruct s as [a inc l0 kids]. cbn [refresh_llcap ss_kids].
  induction kids as [|[n c] r IH]; [reflexivity|]. cbn [map fst]. now rewrite IH.
Qed.

Lemma append_footer_names f s : map fst (fn_kids (append_footer f s)) = map fst (ss_kids s).
Proof.
  destruct s as [a inc l0 kids]. cbn [append_footer fn_kids ss_kids].
  induction kids as [|[n c] r IH]; [reflexivity|]. cbn [map fst]. now rewrite IH.
Qed.

Section WfFacts.
  Variable fm : bytes -> value -> bytes -> value.

  Lemma compact_node_names sp incl f s :
    map fst (fn_kids (compact_node fm sp incl f s)) = map fst (ss_kids s).
  Proof.
    destruct s as [a inc l0 kids]. cbn [compact_node fn_kids ss_kids].
    induction kids as [|[n c] r IH]; [reflexivity|]. cbn [map fst]. now rewrite IH.
  Qed.

  Lemma ss_wf_assemble lr w cap m T M B C L r :
    NodeInv fm lr w cap m T M B C L r ->
    forall os L' lr', ss_wf (assemble m (osecs os) L' lr').
  Proof.
    induction 1 as [w cap m T M B C L r HL Hk IH]. intros os L' lr'.
    pose proof (nl_nodup _ _ _ _ _ _ _ _ _ _ _ HL) as Hnd.
    pose proof (nl_names _ _ _ _ _ _ _ _ _ _ _ HL) as Hnm.
    constructor.
    - now apply assemble_names.
    - intros n c E. rewrite assemble_kid in E by auto.
      destruct (assoc n (cn_kids m)) as [cm|] eqn:Ea; [|discriminate].
      destruct (lr' || _); [|discriminate]. injection E as <-.
      destruct (assoc n (rt_kids r)) as [cr|] eqn:Er; [|apply Hnm in Er; congruence].
      eapply IH; eauto.
  Qed.

  Lemma ss_wf_merge s : ss_wf s -> forall t base, ss_wf (merge_node fm t s base).
  Proof.
    induction 1 as [s Hnd Hk IH]. intros t base. constructor.
    - destruct (merge_node_kids fm t s base) as [-> _]. exact Hnd.
    - intros n c E. rewrite merge_node_kid in E.
      destruct (assoc n (ss_kids s)) as [c0|] eqn:E0; [|discriminate].
      injection E as <-. eapply IH; eauto.
  Qed.

  Lemma ss_wf_refresh s : ss_wf s -> forall m ll, ss_wf (refresh_llcap m s ll).
  Proof.
    induction 1 as [s Hnd Hk IH]. intros m ll. constructor.
    - now rewrite refresh_llcap_names.
    - intros n c E. rewrite refresh_llcap_kid in E.
      destruct (assoc n (ss_kids s)) as [c0|] eqn:E0; [|discriminate].
      injection E as <-.
      destruct (assoc n (cn_kids m)) as [cm|]; [|eauto].
      destruct (N.eqb (cn_incar cm) (ss_incar c0)); eauto.
  Qed.

  Lemma ss_wf_handover s m ll : ss_wf s -> ss_wf (handover_llcap m s ll).
  Proof.
    intros H. unfold handover_llcap. destruct ll; [now apply ss_wf_refresh|].
    inversion H as [s0 Hnd Hk]; subst. constructor; rewrite set_llcap_kids; auto.
  Qed.

  Lemma fn_wf_append b : ss_wf b -> forall L, fn_wf (append_footer L b).
  Proof.
    induction 1 as [s Hnd Hk IH]. intros L. constructor.
    - now rewrite append_footer_names.
    - intros n y E. rewrite append_footer_kid in E.
      destruct (assoc n (ss_kids s)) as [c0|] eqn:E0; [|discriminate].
      injection E as <-. eapply IH; eauto.
  Qed.

  Lemma fn_wf_compact b : ss_wf b -> forall sp incl L, fn_wf (compact_node fm sp incl L b).
  Proof.
    induction 1 as [s Hnd Hk IH]. intros sp incl L. constructor.
    - now rewrite compact_node_names.
    - intros n y E. rewrite compact_node_kid in E.
      destruct (assoc n (ss_kids s)) as [c0|] eqn:E0; [|discriminate].
      injection E as <-. eapply IH; eauto.
  Qed.

  Lemma fn_wf_persist b f ch f' :
    ss_wf b -> fn_wf f -> tree_persist fm ch b f = Some f' -> fn_wf f'.
  Proof.
    intros Hb Hf Etp. destruct ch as [| |sp]; cbn [tree_persist] in Etp.
    - destruct (nothing_to_persist b f); [|discriminate]. now injection Etp as <-.
    - destruct (nothing_to_persist b f); [discriminate|]. injection Etp as <-.
      now apply fn_wf_append.
    - destruct (Nat.leb sp (length (fn_segs f))); [|discriminate].
      destruct (ss_is_empty b && Nat.leb (length (fn_segs f)) 1); [discriminate|].
      injection Etp as <-. now apply fn_wf_compact.
  Qed.

  Definition WInv (cs : cst) : Prop :=
    ss_wfO (t_mid (c_t cs)) /\ ss_wfO (t_base (c_t cs)) /\ fn_wf (c_store cs).

  Lemma winv_init_from c f : fn_wf f -> WInv (cinit_from c f).
  Proof. intros H. (split; [|split]); cbn; auto. now apply restore_fn_wf. Qed.

  Theorem cstep_winv c lr r cs l cs' :
    SInvR fm c lr r cs -> WInv cs -> cstep fm c cs l = Some cs' -> WInv cs'.
  Proof.
    intros [Ho Hll Hlc Hn Ht Hp Hc] (WM & WB & WS) Hs.
    destruct l; cbn [cstep] in Hs.
    - unfold clift, tstep in Hs. rewrite Ho in Hs.
      destruct (tb_ok b && tb_nonempty b); [|discriminate].
      destruct (build_top (t_coll (c_t cs)) b (t_top (c_t cs))) as [coll' top'].
      injection Hs as <-. (split; [|split]); cbn; auto.
    - unfold clift, tstep in Hs. rewrite Ho in Hs.
      destruct (t_merger (c_t cs)); try discriminate.
      injection Hs as <-. (split; [|split]); cbn; auto.
      unfold t_assemble.
      apply (ss_wf_assemble _ _ _ _ _ _ _ _ _ _ Hn [t_top (c_t cs); t_mid (c_t cs)]).
    - unfold clift, tstep in Hs. rewrite Ho in Hs.
      destruct (t_merger (c_t cs)) as [|mb|]; try discriminate.
      destruct (t_mid (c_t cs)) as [ms|] eqn:Emid; try discriminate.
      injection Hs as <-. (split; [|split]); cbn; auto.
      destruct (ss_is_empty ms); auto. now apply ss_wf_merge.
    - unfold clift, tstep in Hs. rewrite Ho in Hs.
      destruct (t_merger (c_t cs)) as [|mb|]; try discriminate.
      destruct (t_base (c_t cs)) as [b|] eqn:Eb.
      { injection Hs as <-. (split; [|split]); cbn; rewrite ?Eb; auto. }
      destruct (t_mid (c_t cs)) as [ms|] eqn:Emid.
      2:{ injection Hs as <-. (split; [|split]); cbn; rewrite ?Eb, ?Emid; auto. }
      destruct (has_ll c).
      2:{ injection Hs as <-. (split; [|split]); cbn; rewrite ?Eb, ?Emid; auto. }
      injection Hs as <-. (split; [|split]); cbn; auto.
      now apply ss_wf_handover.
    - unfold tstep in Hs. rewrite Ho in Hs.
      destruct (t_persister (c_t cs)); try discriminate.
      destruct (t_base (c_t cs)) as [b|] eqn:Eb; try discriminate.
      destruct (has_ll c); try discriminate.
      unfold c_update in Hs. rewrite Eb in Hs.
      destruct (tree_persist fm ch b (c_store cs)) as [f'|] eqn:Et; [|discriminate].
      injection Hs as <-. (split; [|split]); cbn; rewrite ?Eb; auto.
      eapply fn_wf_persist; eauto.
    - unfold clift, tstep in Hs. rewrite Ho in Hs.
      destruct (t_persister (c_t cs)); try discriminate.
      destruct (t_base (c_t cs)) as [b|] eqn:Eb; try discriminate.
      destruct (has_ll c); try discriminate.
      cbn in Hs. injection Hs as <-. (split; [|split]); cbn; rewrite ?Eb; auto.
    - destruct (c_pend cs) as [f'|]; [|discriminate].
      unfold tstep in Hs. rewrite Ho in Hs.
      destruct (t_persister (c_t cs)); try discriminate.
      destruct (t_base (c_t cs)) as [b|] eqn:Eb; try discriminate.
      injection Hs as <-. (split; [|split]); cbn; auto.
    - unfold clift, tstep in Hs. rewrite Ho in Hs. injection Hs as <-.
      (split; [|split]); cbn; auto.
  Qed.

  Theorem crun_winv c lr ls : forall r cs cs',
    SInvR fm c lr r cs -> WInv cs -> Forall (fun b => tb_good b = true) (cbatches ls) ->
    crun fm c cs ls = Some cs' -> WInv cs'.
  Proof.
    induction ls as [|l ls IH]; intros r cs cs' HI HW Hg Hr; cbn [crun] in Hr.
    - now injection Hr as <-.
    - destruct (cstep fm c cs l) as [cs1|] eqn:Es; [|discriminate].
      rewrite cbatches_cons in Hg. apply Forall_app in Hg. destruct Hg as [Hg1 Hg2].
      apply (IH (rt_run r (clabel_batches l)) cs1 cs');
        [eapply cstep_invR; eauto | eapply cstep_winv; eauto | exact Hg2 | exact Hr].
  Qed.
End WfFacts.

(* ======================================================================= *)
(* F. the theorems                                                          *)
(* ======================================================================= *)
Definition cycle_batches (cy : list cycle) : list (list tbatch) :=
  map (fun lc : cycle => cbatches (fst lc)) cy.

Definition cycles_good (cy : list cycle) : Prop :=
  Forall (fun lc : cycle => Forall (fun b => tb_good b = true) (cbatches (fst lc))) cy.

Section FromStore.
  Variable fm : bytes -> value -> bytes -> value.
  Notation SInvR := (SInvR fm).
  Notation GInvR := (GInvR fm).
  Notation good := (fun b => tb_good b = true).

  (* the three invariants after any run from a store footer *)
  Lemma crun_from_all c f r0 ls cs :
    fn_wf f -> fn_reads_mod fm f r0 ->
    Forall good (cbatches ls) ->
    crun fm c (cinit_from c f) ls = Some cs ->
    SInvR c true (rt_run (rt_restrict r0 f) (cbatches ls)) cs /\
    (exists a s, GInvR c true (rt_restrict r0 f) (cbatches ls) cs a s) /\
    WInv cs.
  Proof.
    intros Hw Hr Hg Hrun.
    pose proof (rt_restrict_exact fm f r0 Hr) as He.
    pose proof (sinvr_init_from fm c f _ Hw He) as HI0.
    pose proof (ginvr_init_from fm c f _ Hw He) as HG0.
    pose proof (winv_init_from c f Hw) as HW0.
    split; [|split].
    - apply (crun_invR fm c true ls _ _ _ HI0 Hg Hrun).
    - destruct (crun_ginvR fm c true (rt_restrict r0 f) ls [] _ _ 0 0 HI0 HG0 Hg Hrun)
        as (a & s & _ & _ & HG). cbn [app] in HG. eauto.
    - apply (crun_winv fm c true ls _ _ _ HI0 HW0 Hg Hrun).
  Qed.

  (* (1) START FROM ANY STORE.  If the footer tree f has distinct child names
     at every node and reads as the reference tree r0 up to the existence of
     empty child collections, then after any run of the system opened on f
     the current snapshot reads EXACTLY as the reference tree continued from
     r0 cut down to the children that have a footer. *)
  Theorem tree_snapshot_reads_reference_from c f r0 ls cs :
    fn_wf f -> fn_reads_mod fm f r0 ->
    Forall good (cbatches ls) ->
    crun fm c (cinit_from c f) ls = Some cs ->
    reads_as fm (t_cur_snapshot (c_t cs)) (rt_run (rt_restrict r0 f) (cbatches ls)).
  Proof.
    intros Hw Hr Hg Hrun.
    destruct (crun_from_all c f r0 ls cs Hw Hr Hg Hrun) as (HI & _ & _).
    eapply sinvr_snapshot; eauto.
  Qed.

  Theorem tree_fresh_snapshot_reads_reference_from c f r0 ls cs :
    fn_wf f -> fn_reads_mod fm f r0 ->
    Forall good (cbatches ls) ->
    crun fm c (cinit_from c f) ls = Some cs ->
    reads_as fm (t_mk_snapshot (c_t cs)) (rt_run (rt_restrict r0 f) (cbatches ls)).
  Proof.
    intros Hw Hr Hg Hrun.
    destruct (crun_from_all c f r0 ls cs Hw Hr Hg Hrun) as (HI & _ & _).
    eapply sinvr_fresh_snapshot; eauto.
  Qed.

  (* what the cut-down tree is: r0 without some child collections that hold no
     key at any depth (those without a footer), with the footer's child names *)
  Theorem rt_restrict_spec f r0 :
    fn_reads_mod fm f r0 ->
    rt_sub fm (rt_restrict r0 f) r0 /\ fn_reads_exact fm f (rt_restrict r0 f).
  Proof. intros H. split; [now apply rt_restrict_sub|now apply rt_restrict_exact]. Qed.

  (* ... hence the snapshot reads as the reference tree continued from r0 itself
     up to the existence of empty child collections *)
  Theorem tree_snapshot_reads_reference_from_mod c f r0 ls cs :
    fn_wf f -> fn_reads_mod fm f r0 ->
    Forall good (cbatches ls) ->
    crun fm c (cinit_from c f) ls = Some cs ->
    reads_mod fm (t_cur_snapshot (c_t cs)) (rt_run r0 (cbatches ls)).
  Proof.
    intros Hw Hr Hg Hrun.
    eapply reads_as_sub.
    - eapply tree_snapshot_reads_reference_from; eauto.
    - apply rt_sub_run; auto. now apply rt_restrict_sub.
  Qed.

  (* the theorem of TreeInvFacts is the instance "empty store" *)
  Lemma cinit_from_empty c : has_ll c = true -> cinit_from c fnode_empty = cinit c.
  Proof. intros H. unfold cinit. rewrite H. reflexivity. Qed.

  Lemma fn_wf_empty : fn_wf fnode_empty.
  Proof. constructor; cbn; [constructor|intros; discriminate]. Qed.

  Lemma fn_reads_mod_empty : fn_reads_mod fm fnode_empty (RT [] []).
  Proof. constructor; cbn; try (intros; discriminate). reflexivity. Qed.

  Corollary tree_snapshot_reads_reference_again c ls cs :
    has_ll c = true ->
    Forall good (cbatches ls) ->
    crun fm c (cinit c) ls = Some cs ->
    reads_as fm (t_cur_snapshot (c_t cs)) (ref_tree (cbatches ls)).
  Proof.
    intros Hc Hg Hrun. rewrite <- (cinit_from_empty c Hc) in Hrun.
    apply (tree_snapshot_reads_reference_from c fnode_empty (RT [] []) ls cs
             fn_wf_empty fn_reads_mod_empty Hg Hrun).
  Qed.

  (* ---- the store holds a prefix ------------------------------------------ *)
  Lemma ll_reads c r bs cs a s l :
    GInvR c true r bs cs a s -> t_ll (c_t cs) = Some l ->
    fn_reads_mod fm l (rt_run r (firstn a bs)).
  Proof.
    intros (b & d & ca & cb & cd & H1 & H2 & H3 & HA & HB & HD & LA & LB & LD & _) El.
    rewrite El in HA, LA.
    apply (footer_alone fm _ _ _ _ _ _ _ _ _ _ HA eq_refl eq_refl eq_refl _ eq_refl LA).
  Qed.

  Lemma store_reads c R r bs cs a s :
    SInvR c true R cs -> GInvR c true r bs cs a s ->
    a <= s /\ s <= length bs /\ fn_reads_mod fm (c_store cs) (rt_run r (firstn s bs)).
  Proof.
    intros HI (b & d & ca & cb & cd & H1 & H2 & H3 & HA & HB & HD & LA & LB & LD & ET & EM & EB & ES).
    pose proof (sr_pers _ _ _ _ _ HI) as Hp.
    destruct (t_persister (c_t cs)); cbn [store_idx] in ES; subst s.
    - split; [lia|]. split; [lia|]. rewrite (Hp eq_refl) in HA, LA.
      apply (footer_alone fm _ _ _ _ _ _ _ _ _ _ HA eq_refl eq_refl eq_refl _ eq_refl LA).
    - split; [lia|]. split; [lia|].
      destruct Hp as (b0 & f & ch & Eb & Ell & Etp & _). rewrite Eb, Ell in HB. rewrite Eb in LB.
      pose proof (persist_inv fm _ _ _ _ _ _ _ _ _ _ _ _ false HB Etp ltac:(discriminate)) as HB'.
      apply (footer_alone fm _ _ _ _ _ _ _ _ _ _ HB' eq_refl eq_refl eq_refl _ eq_refl).
      eapply FLive_persist; eauto.
  Qed.

  Lemma caught_up_idx c r bs cs a s :
    GInvR c true r bs cs a s -> caught_up cs -> s = length bs.
  Proof.
    intros (b & d & ca & cb & cd & H1 & H2 & H3 & HA & HB & HD & LA & LB & LD & ET & EM & EB & ES)
           (E1 & E2 & E3 & E4).
    rewrite E4 in ES. cbn [store_idx] in ES.
    rewrite ES, (EB E3), (EM E2). auto.
  Qed.

  (* what Close leaves in the store *)
  Lemma close_reads c R r bs cs a s ch cs' :
    SInvR c true R cs -> GInvR c true r bs cs a s -> WInv cs ->
    close_choice_ok cs ch -> cclose fm c cs ch = Some cs' ->
    exists n, s <= n /\ n <= length bs /\
              fn_reads_mod fm (c_store cs') (rt_run r (firstn n bs)) /\ fn_wf (c_store cs').
  Proof.
    intros HI HG HW Hok Hcl.
    destruct (store_reads c R r bs cs a s HI HG) as (Has & Hs & Hrd).
    destruct HW as (WM & WB & WS).
    unfold cclose in Hcl. destruct ch as [x|].
    - destruct Hok as [Hok|Hok]; [discriminate|].
      unfold c_update in Hcl.
      destruct (t_base (c_t cs)) as [b0|] eqn:Eb; [|discriminate].
      destruct (tree_persist fm x b0 (c_store cs)) as [f'|] eqn:Etp; [|discriminate].
      destruct (tstep fm c (c_t cs) TClose) as [s'|]; [|discriminate].
      injection Hcl as <-. cbn [c_store].
      destruct HG as (b & d & ca & cb & cd & H1 & H2 & H3 & HA & HB & HD & LA & LB & LD & ET & EM & EB & ES).
      pose proof (sr_pers _ _ _ _ _ HI) as Hp. rewrite Hok in Hp, ES. cbn [store_idx] in ES.
      rewrite Eb, (Hp eq_refl) in HB. rewrite Eb in LB. cbn [ss_wfO SLiveO] in *.
      pose proof (persist_inv fm _ _ _ _ _ _ _ _ _ _ _ _ false HB Etp ltac:(discriminate)) as HB'.
      exists b. split; [lia|]. split; [lia|]. split.
      + apply (footer_alone fm _ _ _ _ _ _ _ _ _ _ HB' eq_refl eq_refl eq_refl _ eq_refl).
        eapply FLive_persist; eauto.
      + eapply fn_wf_persist; eauto.
    - destruct (tstep fm c (c_t cs) TClose) as [s'|]; [|discriminate].
      injection Hcl as <-. cbn [c_store]. exists s. auto.
  Qed.

  (* At every moment of a run from a store footer, the store's footer tree has
     distinct child names and reads, on its own, as the reference tree after a
     prefix of the executed batches. *)
  Theorem tree_store_reads_prefix_from c f r0 ls cs :
    fn_wf f -> fn_reads_mod fm f r0 ->
    Forall good (cbatches ls) ->
    crun fm c (cinit_from c f) ls = Some cs ->
    exists n, n <= length (cbatches ls) /\ fn_wf (c_store cs) /\
              fn_reads_mod fm (c_store cs) (rt_run r0 (firstn n (cbatches ls))).
  Proof.
    intros Hw Hr Hg Hrun.
    destruct (crun_from_all c f r0 ls cs Hw Hr Hg Hrun) as (HI & (a & s & HG) & HW).
    destruct (store_reads c _ _ _ cs a s HI HG) as (_ & Hs & Hrd).
    exists s. split; [exact Hs|]. split; [apply HW|].
    eapply fn_reads_mod_sub; [exact Hrd|].
    apply rt_sub_run; [now apply Forall_firstn'|now apply rt_restrict_sub].
  Qed.

  (* ... and that prefix never shrinks: the store at a later moment of the
     same run holds at least as long a prefix as at an earlier one. *)
  Theorem tree_store_prefix_monotone c f r0 ls1 ls2 cs1 cs2 :
    fn_wf f -> fn_reads_mod fm f r0 ->
    Forall good (cbatches (ls1 ++ ls2)) ->
    crun fm c (cinit_from c f) ls1 = Some cs1 ->
    crun fm c cs1 ls2 = Some cs2 ->
    exists n1 n2, n1 <= n2 /\ n1 <= length (cbatches ls1) /\ n2 <= length (cbatches (ls1 ++ ls2)) /\
                  fn_reads_mod fm (c_store cs1) (rt_run r0 (firstn n1 (cbatches ls1))) /\
                  fn_reads_mod fm (c_store cs2) (rt_run r0 (firstn n2 (cbatches (ls1 ++ ls2)))).
  Proof.
    intros Hw Hr Hg Hrun1 Hrun2.
    assert (Hcb : cbatches (ls1 ++ ls2) = cbatches ls1 ++ cbatches ls2).
    { clear. induction ls1 as [|l q IH]; [reflexivity|].
      cbn [app]. rewrite !cbatches_cons, IH. now rewrite app_assoc. }
    rewrite Hcb in *. apply Forall_app in Hg. destruct Hg as [Hg1 Hg2].
    destruct (crun_from_all c f r0 ls1 cs1 Hw Hr Hg1 Hrun1) as (HI1 & (a1 & s1 & HG1) & HW1).
    destruct (crun_ginvR fm c true _ ls2 _ _ _ _ _ HI1 HG1 Hg2 Hrun2) as (a2 & s2 & _ & Hs12 & HG2).
    pose proof (crun_invR fm c true ls2 _ _ _ HI1 Hg2 Hrun2) as HI2.
    destruct (store_reads c _ _ _ cs1 a1 s1 HI1 HG1) as (_ & Hs1 & Hrd1).
    destruct (store_reads c _ _ _ cs2 a2 s2 HI2 HG2) as (_ & Hs2 & Hrd2).
    pose proof (rt_restrict_sub fm f r0 Hr) as Hsub.
    exists s1, s2. split; [exact Hs12|]. split; [exact Hs1|]. split; [exact Hs2|]. split.
    - eapply fn_reads_mod_sub; [exact Hrd1|].
      apply rt_sub_run; [now apply Forall_firstn'|exact Hsub].
    - eapply fn_reads_mod_sub; [exact Hrd2|].
      apply rt_sub_run; [|exact Hsub]. apply Forall_firstn'. apply Forall_app. auto.
  Qed.

  (* (2) CLOSE.  After any run followed by Close the store's footer tree reads
     as the reference tree after a prefix of the executed batches; that prefix
     (n) is no shorter than the one the store held just before Close (s),
     which is no shorter than the one the lower-level snapshot last published
     to the collection holds (a).  A persistence round may complete during
     Close (ch = Some choice) provided it had not begun (close_choice_ok). *)
  Theorem tree_close_leaves_prefix c f r0 ls cs ch cs' :
    fn_wf f -> fn_reads_mod fm f r0 ->
    Forall good (cbatches ls) ->
    crun fm c (cinit_from c f) ls = Some cs ->
    close_choice_ok cs ch -> cclose fm c cs ch = Some cs' ->
    exists a s n,
      a <= s /\ s <= n /\ n <= length (cbatches ls) /\
      (forall l, t_ll (c_t cs) = Some l ->
                 fn_reads_mod fm l (rt_run r0 (firstn a (cbatches ls)))) /\
      fn_reads_mod fm (c_store cs) (rt_run r0 (firstn s (cbatches ls))) /\
      fn_reads_mod fm (c_store cs') (rt_run r0 (firstn n (cbatches ls))) /\
      fn_wf (c_store cs').
  Proof.
    intros Hw Hr Hg Hrun Hok Hcl.
    destruct (crun_from_all c f r0 ls cs Hw Hr Hg Hrun) as (HI & (a & s & HG) & HW).
    destruct (store_reads c _ _ _ cs a s HI HG) as (Has & Hs & Hrd).
    destruct (close_reads c _ _ _ cs a s ch cs' HI HG HW Hok Hcl) as (n & Hsn & Hn & Hrd' & Hw').
    pose proof (rt_restrict_sub fm f r0 Hr) as Hsub.
    assert (Hup : forall x m, fn_reads_mod fm x (rt_run (rt_restrict r0 f) (firstn m (cbatches ls))) ->
                              fn_reads_mod fm x (rt_run r0 (firstn m (cbatches ls)))).
    { intros x m Hx. eapply fn_reads_mod_sub; [exact Hx|].
      apply rt_sub_run; [now apply Forall_firstn'|exact Hsub]. }
    exists a, s, n. split; [exact Has|]. split; [exact Hsn|]. split; [exact Hn|].
    split; [|split; [|split]]; auto.
    intros l El. apply Hup. eapply ll_reads; eauto.
  Qed.

  (* persistence had caught up: nothing pending, nothing with the merger,
     nothing awaiting persistence, the persister idle.  Then what Close leaves
     in the store reads as the WHOLE reference tree. *)
  Theorem tree_caught_up_close_is_complete c f r0 ls cs ch cs' :
    fn_wf f -> fn_reads_mod fm f r0 ->
    Forall good (cbatches ls) ->
    crun fm c (cinit_from c f) ls = Some cs ->
    caught_up cs -> cclose fm c cs ch = Some cs' ->
    fn_reads_mod fm (c_store cs') (rt_run r0 (cbatches ls)) /\ fn_wf (c_store cs').
  Proof.
    intros Hw Hr Hg Hrun Hcu Hcl.
    destruct (crun_from_all c f r0 ls cs Hw Hr Hg Hrun) as (HI & (a & s & HG) & HW).
    assert (Hok : close_choice_ok cs ch) by (right; apply Hcu).
    destruct (close_reads c _ _ _ cs a s ch cs' HI HG HW Hok Hcl) as (n & Hsn & Hn & Hrd' & Hw').
    pose proof (caught_up_idx c _ _ cs a s HG Hcu) as Es.
    assert (n = length (cbatches ls)) by lia. subst n. rewrite firstn_all in Hrd'.
    split; [|exact Hw'].
    eapply fn_reads_mod_sub; [exact Hrd'|].
    apply rt_sub_run; [exact Hg|now apply rt_restrict_sub].
  Qed.

  (* ---- (3) cycles ---------------------------------------------------------- *)
  (* the snapshot of a collection just reopened on the footer tree ff *)
  Definition reopened_snapshot (c : cfg) (ff : fnode) : sstack :=
    t_cur_snapshot (c_t (cinit_from c ff)).

  Lemma reopened_reads c ff R :
    fn_wf ff -> fn_reads_mod fm ff R -> reads_mod fm (reopened_snapshot c ff) R.
  Proof.
    intros Hw Hr.
    apply (tree_snapshot_reads_reference_from_mod c ff R [] (cinit_from c ff) Hw Hr);
      [constructor|reflexivity].
  Qed.

  Definition is_prefix_of (h : list tbatch) (lc : cycle) : Prop :=
    exists n, h = firstn n (cbatches (fst lc)).

  Lemma cycles_gen c cy : forall f0 r0 sts ff,
    fn_wf f0 -> fn_reads_mod fm f0 r0 -> cycles_good cy ->
    cycles_run fm c f0 cy = Some (sts, ff) ->
    Forall2 (fun cs (lc : cycle) => close_choice_ok cs (snd lc)) sts cy ->
    exists hs,
      Forall2 is_prefix_of hs cy /\
      Forall2 (fun cs hl => caught_up cs -> fst hl = cbatches (fst (snd hl))) sts (combine hs cy) /\
      fn_wf ff /\ fn_reads_mod fm ff (rt_run r0 (concat hs)).
  Proof.
    induction cy as [|[ls ch] q IH]; intros f0 r0 sts ff Hw Hr Hg Hrun Hok; cbn [cycles_run] in Hrun.
    - injection Hrun as <- <-. exists []. cbn [combine concat rt_run fold_left].
      split; [constructor|]. split; [constructor|]. split; [exact Hw|exact Hr].
    - destruct (crun fm c (cinit_from c f0) ls) as [cs|] eqn:Erun; [|discriminate].
      destruct (cclose fm c cs ch) as [cs'|] eqn:Ecl; [|discriminate].
      destruct (cycles_run fm c (c_store cs') q) as [[sts' ff']|] eqn:Erest; [|discriminate].
      injection Hrun as <- <-.
      inversion Hg as [|x y Hg1 Hg2]; subst. cbn [fst] in Hg1.
      inversion Hok as [|x1 y1 l1 l2 Hok1 Hok2]; subst. cbn [snd] in Hok1.
      destruct (crun_from_all c f0 r0 ls cs Hw Hr Hg1 Erun) as (HI & (a & s & HG) & HW).
      destruct (close_reads c _ _ _ cs a s ch cs' HI HG HW Hok1 Ecl) as (n & Hsn & Hn & Hrd' & Hw').
      assert (Hrd : fn_reads_mod fm (c_store cs') (rt_run r0 (firstn n (cbatches ls)))).
      { eapply fn_reads_mod_sub; [exact Hrd'|].
        apply rt_sub_run; [now apply Forall_firstn'|now apply rt_restrict_sub]. }
      destruct (IH _ _ _ _ Hw' Hrd Hg2 Erest Hok2) as (hs & Hp & Hc & Hwf & Hrf).
      exists (firstn n (cbatches ls) :: hs). split; [|split; [|split]].
      + constructor; auto. exists n. reflexivity.
      + cbn [combine]. constructor; auto. cbn [fst snd]. intros Hcu.
        pose proof (caught_up_idx c _ _ cs a s HG Hcu) as Es.
        assert (n = length (cbatches ls)) by lia. subst n. apply firstn_all.
      + exact Hwf.
      + cbn [concat]. rewrite rt_run_app. exact Hrf.
  Qed.

  (* any number of run / close / reopen cycles from the store footer f0: the
     final footer tree — and the snapshot of the collection reopened on it —
     reads as the reference tree continued from r0 through a concatenation of
     per-cycle prefixes of the executed batches, up to the existence of empty
     child collections *)
  Theorem tree_cycles_prefixes c f0 r0 cy sts ff :
    fn_wf f0 -> fn_reads_mod fm f0 r0 -> cycles_good cy ->
    cycles_run fm c f0 cy = Some (sts, ff) ->
    Forall2 (fun cs (lc : cycle) => close_choice_ok cs (snd lc)) sts cy ->
    exists hs,
      Forall2 is_prefix_of hs cy /\
      fn_wf ff /\ fn_reads_mod fm ff (rt_run r0 (concat hs)) /\
      reads_mod fm (reopened_snapshot c ff) (rt_run r0 (concat hs)).
  Proof.
    intros Hw Hr Hg Hrun Hok.
    destruct (cycles_gen c cy f0 r0 sts ff Hw Hr Hg Hrun Hok) as (hs & Hp & _ & Hwf & Hrf).
    exists hs. split; [exact Hp|]. split; [exact Hwf|]. split; [exact Hrf|].
    now apply reopened_reads.
  Qed.

  Lemma cycles_run_length c cy : forall f0 sts ff,
    cycles_run fm c f0 cy = Some (sts, ff) -> length sts = length cy.
  Proof.
    induction cy as [|[ls ch] q IH]; intros f0 sts ff Hrun; cbn [cycles_run] in Hrun.
    - now injection Hrun as <- <-.
    - destruct (crun fm c (cinit_from c f0) ls) as [cs|]; [|discriminate].
      destruct (cclose fm c cs ch) as [cs'|]; [|discriminate].
      destruct (cycles_run fm c (c_store cs') q) as [[sts' ff']|] eqn:Erest; [|discriminate].
      injection Hrun as <- <-. cbn [length]. f_equal. eauto.
  Qed.

  (* ... and when persistence had caught up before every Close, it reads as the
     reference tree of ALL batches of all cycles *)
  Theorem tree_cycles_content c f0 r0 cy sts ff :
    fn_wf f0 -> fn_reads_mod fm f0 r0 -> cycles_good cy ->
    cycles_run fm c f0 cy = Some (sts, ff) ->
    Forall caught_up sts ->
    fn_wf ff /\ fn_reads_mod fm ff (rt_run r0 (concat (cycle_batches cy))) /\
    reads_mod fm (reopened_snapshot c ff) (rt_run r0 (concat (cycle_batches cy))).
  Proof.
    intros Hw Hr Hg Hrun Hcu.
    assert (Hok : Forall2 (fun cs (lc : cycle) => close_choice_ok cs (snd lc)) sts cy).
    { pose proof (cycles_run_length c cy f0 sts ff Hrun) as Hlen.
      clear Hrun Hg. revert cy Hlen. induction Hcu as [|cs sts' H1 H2 IH]; intros [|lc q] Hlen;
        try discriminate; constructor.
      - right. apply H1.
      - apply IH. now injection Hlen. }
    destruct (cycles_gen c cy f0 r0 sts ff Hw Hr Hg Hrun Hok) as (hs & Hp & Hc & Hwf & Hrf).
    assert (Ehs : hs = cycle_batches cy).
    { clear - Hp Hc Hcu. revert sts Hc Hcu. induction Hp as [|h lc hs' q' H1 H2 IH]; intros sts Hc Hcu.
      - reflexivity.
      - cbn [combine] in Hc. inversion Hc as [|cs hl sts' l' Hc1 Hc2]; subst.
        inversion Hcu; subst. cbn [cycle_batches map]. f_equal.
        + apply Hc1; auto.
        + eapply IH; eauto. }
    subst hs. split; [exact Hwf|]. split; [exact Hrf|]. now apply reopened_reads.
  Qed.

  (* ... and whatever the last incarnation then runs, its snapshot reads as the
     reference tree of all batches of the closed cycles followed by its own *)
  Corollary tree_cycles_content_then_run c f0 r0 cy sts ff ls cs :
    fn_wf f0 -> fn_reads_mod fm f0 r0 -> cycles_good cy ->
    cycles_run fm c f0 cy = Some (sts, ff) ->
    Forall caught_up sts ->
    Forall good (cbatches ls) ->
    crun fm c (cinit_from c ff) ls = Some cs ->
    reads_mod fm (t_cur_snapshot (c_t cs))
              (rt_run r0 (concat (cycle_batches cy) ++ cbatches ls)).
  Proof.
    intros Hw Hr Hg Hrun Hcu Hgl Hrl.
    destruct (tree_cycles_content c f0 r0 cy sts ff Hw Hr Hg Hrun Hcu) as (Hwf & Hrf & _).
    rewrite rt_run_app.
    apply (tree_snapshot_reads_reference_from_mod c ff _ ls cs Hwf Hrf Hgl Hrl).
  Qed.

  (* the instance the property speaks about: a fresh store, any number of
     caught-up cycles: the final reopened snapshot reads as the reference tree
     of everything that was written *)
  Corollary tree_cycles_content_fresh c cy sts ff :
    cycles_good cy ->
    cycles_run fm c fnode_empty cy = Some (sts, ff) ->
    Forall caught_up sts ->
    reads_mod fm (reopened_snapshot c ff) (ref_tree (concat (cycle_batches cy))).
  Proof.
    intros Hg Hrun Hcu.
    apply (tree_cycles_content c fnode_empty (RT [] []) cy sts ff
             fn_wf_empty fn_reads_mod_empty Hg Hrun Hcu).
  Qed.
End FromStore.

(* every footer the system of TreeInvFacts can reach (from the empty
   collection over the empty store) has distinct child names: the hypothesis
   fn_wf of the theorems above holds of every reachable store *)
Theorem tree_reachable_store_wf fm c ls cs :
  Forall (fun b => tb_good b = true) (cbatches ls) ->
  crun fm c (cinit c) ls = Some cs -> fn_wf (c_store cs).
Proof.
  intros Hg Hrun.
  assert (HW0 : WInv (cinit c)).
  { split; [|split]; cbn; auto. apply fn_wf_empty. }
  pose proof (sinv_sinvr fm c [] (cinit c) (sinv_init fm c)) as HI0.
  apply (crun_winv fm c (has_ll c) ls _ _ _ HI0 HW0 Hg Hrun).
Qed.

(* ---- the harness's Close and Reopen are the steps used here ----------------- *)
(* TreeRun.trstep (the runner that replays recorded traces, over fm0) and the
   system of this file agree on THClose and THReopen, field by field. *)
Definition cst_of (r : TreeRun.trs) : cst :=
  {| c_t := TreeRun.ts r; c_pend := TreeRun.tpend r; c_store := TreeRun.tstore r |}.

Lemma trstep_close_is_cclose r ch r' :
  TreeRun.trstep r (TreeRun.THClose ch) = Some r' ->
  cclose FlatRun.fm0 (TreeRun.tconf r) (cst_of r) ch = Some (cst_of r') /\
  TreeRun.tconf r' = TreeRun.tconf r.
Proof.
  unfold TreeRun.trstep, cclose, cst_of, c_update, TreeRun.do_tree_update. cbn [c_t c_store c_pend].
  destruct ch as [x|].
  - destruct (t_base (TreeRun.ts r)) as [b|]; [|discriminate].
    destruct (tree_persist FlatRun.fm0 x b (TreeRun.tstore r)) as [f'|]; [|discriminate].
    destruct (tstep FlatRun.fm0 (TreeRun.tconf r) (TreeRun.ts r) TClose) as [s|]; [|discriminate].
    intros [= <-]. split; reflexivity.
  - destruct (tstep FlatRun.fm0 (TreeRun.tconf r) (TreeRun.ts r) TClose) as [s|]; [|discriminate].
    intros [= <-]. split; reflexivity.
Qed.

Lemma trstep_reopen_is_cinit_from r r' :
  TreeRun.trstep r TreeRun.THReopen = Some r' ->
  cst_of r' = cinit_from (TreeRun.tconf r) (TreeRun.tstore r) /\
  TreeRun.tconf r' = TreeRun.tconf r.
Proof.
  unfold TreeRun.trstep, cinit_from, cst_of.
  destruct (TreeRun.topen r); [discriminate|].
  destruct (restore 0 (TreeRun.tstore r)) as [coll f'].
  intros [= <-]. split; reflexivity.
Qed.

(* ======================================================================= *)
(* G. witnesses                                                             *)
(* ======================================================================= *)
Definition cy_n : cname := [1%N].
Definition cy_k : bytes := [7%N].
Definition cy_cfg : cfg := {| cache_persisted := false; has_ll := true |}.
(* one full merger round and persistence round *)
Definition cy_round (ch : persist_choice) : list clabel :=
  [CIngest; CSwap (LT 0 [(cy_n, LT 0 [])]); CHandover; CPBegin ch; CPPublish].

(* (a) The condition close_choice_ok cannot be dropped from
   tree_close_leaves_prefix.  The model's Close (TreeRun.trstep, THClose
   (Some ch); mirrored by cclose) persists base onto the store's footer in
   ANY persister state.  If the round had already begun (PUpdating: the store
   already holds the round's footer) the same stack is persisted a second
   time, and with a Merge operand in it the footer reads as no prefix of the
   history: ":a:a" where the reference has nothing or ":a".  The harness
   reports a round completing during Close only while the persister is parked
   before LowerLevelUpdate (director/coll.go, inflight), i.e. PIdle. *)
Definition cy_twice : list clabel :=
  [CBatch (TB [(cy_k, OMerge [97%N])] []); CIngest; CSwap (LT 0 []); CHandover; CPBegin PAppend].

Theorem tree_close_after_begun_round_refuted :
  exists cs cs',
    Forall (fun b => tb_good b = true) (cbatches cy_twice) /\
    crun fm_append cy_cfg (cinit_from cy_cfg fnode_empty) cy_twice = Some cs /\
    t_persister (c_t cs) = PUpdating /\
    cclose fm_append cy_cfg cs (Some PAppend) = Some cs' /\
    forall n, ~ fn_reads_mod fm_append (c_store cs')
                             (rt_run (RT [] []) (firstn n (cbatches cy_twice))).
Proof.
  destruct (crun fm_append cy_cfg (cinit_from cy_cfg fnode_empty) cy_twice) as [cs|] eqn:E;
    [|vm_compute in E; discriminate].
  destruct (cclose fm_append cy_cfg cs (Some PAppend)) as [cs'|] eqn:E';
    [|vm_compute in E; injection E as <-; vm_compute in E'; discriminate].
  exists cs, cs'.
  vm_compute in E. injection E as <-. vm_compute in E'. injection E' as <-.
  split; [repeat constructor|]. split; [reflexivity|]. split; [reflexivity|]. split; [reflexivity|].
  intros n H. inversion H as [f r Hg F2 F3 F4]; subst. specialize (Hg cy_k).
  destruct n as [|[|n]]; vm_compute in Hg; discriminate.
Qed.

(* (b) "Up to the existence of empty child collections" cannot be dropped
   from the cycle theorems (known finding F10b).  A batch that only creates
   an empty child collection leaves nothing to persist: the round is a no-op,
   persistence has caught up, and after Close and reopen the child is gone
   while the reference tree has it. *)
Definition cy_lost : list clabel := CBatch (TB [] [(cy_n, Some (TB [] []))]) :: cy_round PNoop.

Theorem tree_cycles_exact_refuted :
  exists sts ff,
    cycles_good [(cy_lost, None)] /\
    cycles_run fm_append cy_cfg fnode_empty [(cy_lost, None)] = Some (sts, ff) /\
    Forall (caught_up) sts /\
    assoc cy_n (rt_kids (ref_tree (concat (cycle_batches [(cy_lost, None)])))) <> None /\
    assoc cy_n (ss_kids (reopened_snapshot cy_cfg ff)) = None /\
    ~ reads_as fm_append (reopened_snapshot cy_cfg ff)
               (ref_tree (concat (cycle_batches [(cy_lost, None)]))).
Proof.
  destruct (cycles_run fm_append cy_cfg fnode_empty [(cy_lost, None)]) as [[sts ff]|] eqn:E;
    [|vm_compute in E; discriminate].
  exists sts, ff. vm_compute in E. injection E as <- <-.
  split; [repeat constructor|]. split; [reflexivity|].
  split; [repeat constructor|]. split; [vm_compute; discriminate|]. split; [reflexivity|].
  intros H. inversion H as [s r Hg0 Hn Hk0]; subst. specialize (Hn cy_n).
  vm_compute in Hn. destruct Hn as [_ Hn]. destruct Hn; auto.
Qed.

(* (c) the cycle theorems are not vacuous: three incarnations, each catching
   up before its Close (append, append, full compaction), a child collection
   written in every incarnation, a Merge operand resolved against what an
   earlier incarnation persisted *)
Definition cy_c1 : list clabel :=
  CBatch (TB [(cy_k, OSet [100%N])] [(cy_n, Some (TB [(cy_k, OSet [100%N])] []))]) :: cy_round PAppend.
Definition cy_c2 : list clabel :=
  CBatch (TB [] [(cy_n, Some (TB [(cy_k, OMerge [97%N])] []))]) :: cy_round PAppend.
Definition cy_c3 : list clabel :=
  CBatch (TB [(cy_k, OMerge [98%N])] [(cy_n, Some (TB [(cy_k, OMerge [98%N])] []))])
         :: cy_round (PCompact 0).
Definition cy_three : list cycle := [(cy_c1, None); (cy_c2, None); (cy_c3, None)].

Example tree_cycles_example :
  exists sts ff s,
    cycles_good cy_three /\
    cycles_run fm_append cy_cfg fnode_empty cy_three = Some (sts, ff) /\
    Forall caught_up sts /\
    ss_get fm_append (reopened_snapshot cy_cfg ff) cy_k = Some [100; 58; 98]%N /\
    assoc cy_n (ss_kids (reopened_snapshot cy_cfg ff)) = Some s /\
    ss_get fm_append s cy_k = Some [100; 58; 97; 58; 98]%N.
Proof.
  destruct (cycles_run fm_append cy_cfg fnode_empty cy_three) as [[sts ff]|] eqn:E;
    [|vm_compute in E; discriminate].
  destruct (assoc cy_n (ss_kids (reopened_snapshot cy_cfg ff))) as [s|] eqn:Es;
    [|vm_compute in E; injection E as <- <-; vm_compute in Es; discriminate].
  exists sts, ff, s. vm_compute in E. injection E as <- <-. vm_compute in Es. injection Es as <-.
  split; [repeat constructor|]. split; [reflexivity|]. split; [repeat constructor|].
  split; [reflexivity|]. split; reflexivity.
Qed.

Print Assumptions tree_snapshot_reads_reference_from.
Print Assumptions tree_snapshot_reads_reference_from_mod.
Print Assumptions rt_restrict_spec.
Print Assumptions tree_snapshot_reads_reference_again.
Print Assumptions tree_store_reads_prefix_from.
Print Assumptions tree_store_prefix_monotone.
Print Assumptions tree_close_leaves_prefix.
Print Assumptions tree_caught_up_close_is_complete.
Print Assumptions tree_cycles_prefixes.
Print Assumptions tree_cycles_content.
Print Assumptions tree_cycles_content_then_run.
Print Assumptions tree_cycles_content_fresh.
Print Assumptions tree_reachable_store_wf.
Print Assumptions trstep_close_is_cclose.
Print Assumptions trstep_reopen_is_cinit_from.
Print Assumptions tree_close_after_begun_round_refuted.
Print Assumptions tree_cycles_exact_refuted.
Print Assumptions tree_cycles_example.
