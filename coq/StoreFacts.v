(* StoreFacts.v — every way the lower level is updated yields a snapshot that
   reads as "the handed-down stack over the old lower level" — the legality
   condition publish_ok of the collection model. *)
From Coq Require Import List NArith Bool Lia Arith.
From Moss Require Import Bytes BytesFacts Segment SegmentFacts Stack StackFacts
     Collection CollectionFacts Store LowerLevel.

Section WithMerge.
  Variable fm : bytes -> value -> bytes -> value.
  Notation sget := (sget fm).
  Notation llv := (llv fm).

  Lemma find_empty_seg (s : segment) k : nonempty s = false -> find s k = None.
  Proof. destruct s; simpl; auto. discriminate. Qed.

  Lemma sget_filter_nonempty st below k : sget (filter nonempty st) below k = sget st below k.
  Proof.
    induction st as [|s r IH]; simpl; auto.
    destruct (nonempty s) eqn:E; simpl.
    - now rewrite IH.
    - now rewrite (find_empty_seg s k E).
  Qed.

  Theorem persist_append_view higher f k :
    llv (persist_append higher f) k = sget higher (llv f) k.
  Proof.
    unfold Collection.llv, persist_append. rewrite sget_app. apply sget_filter_nonempty.
  Qed.

  Theorem compact_view sp higher f k :
    llv (compact fm sp higher f) k = sget higher (llv f) k.
  Proof.
    unfold Collection.llv, compact.
    set (n := length f - sp).
    transitivity (sget ((higher ++ firstn n f) ++ skipn n f) no_below k).
    2:{ rewrite <- app_assoc, firstn_skipn. apply sget_app. }
    destruct (Nat.eqb sp 0) eqn:E; simpl negb.
    - apply Nat.eqb_eq in E. subst sp. unfold n. rewrite Nat.sub_0_r.
      rewrite firstn_all, skipn_all. rewrite !app_nil_r.
      apply compact_full_view.
    - apply merge_preserves_view. apply merge_range_ok.
  Qed.

  Theorem store_persist_view ch higher f f' k :
    store_persist fm ch higher f = Some f' -> llv f' k = sget higher (llv f) k.
  Proof.
    destruct ch as [| |sp]; simpl.
    - destruct (stack_is_empty higher) eqn:E; [|discriminate]. intros [= <-].
      destruct higher; [reflexivity|discriminate].
    - destruct (stack_is_empty higher); [discriminate|]. intros [= <-]. apply persist_append_view.
    - destruct (Nat.leb sp (length f)); [|discriminate].
      destruct (stack_is_empty higher && Nat.leb (length f) 1); [discriminate|].
      destruct (Nat.eqb sp 0) eqn:E; intros [= <-].
      + apply compact_view.
      + apply compact_view.
  Qed.

  (* --- the application lower level ------------------------------------- *)

  Definition set_only (m : segment) : Prop := forall k o, In (k, o) m -> exists v, o = OSet v.

  Lemma map_get_llv m k : set_only m -> map_get m k = llv [m] k.
  Proof.
    intros H. unfold map_get, Collection.llv. simpl.
    destruct (find m k) eqn:F; auto.
    apply find_some_in in F. destruct (H _ _ F) as [v ->]. reflexivity.
  Qed.

  Lemma proto_value_spec higher m k :
    proto_value fm higher m k = sget higher (map_get m) k.
  Proof.
    unfold proto_value. destruct (newest higher k) as [o|] eqn:E.
    - destruct o as [v| |v]; auto.
      + pose proof (sget_newest_setdel fm higher [] (map_get m) k _ E eq_refl) as H.
        rewrite app_nil_r in H. now rewrite H.
      + pose proof (sget_newest_setdel fm higher [] (map_get m) k _ E eq_refl) as H.
        rewrite app_nil_r in H. now rewrite H.
    - pose proof (sget_newest_none fm higher [] (map_get m) k E) as H.
      rewrite app_nil_r in H. now rewrite H.
  Qed.

  Lemma build_map_keys_sub higher m ks x : In x (keys (build_map fm higher m ks)) -> In x ks.
  Proof.
    induction ks as [|k r IH]; simpl; auto.
    destruct (proto_value fm higher m k); simpl; auto. intros [H|H]; auto.
  Qed.

  Lemma find_build_map higher m ks k :
    NoDup ks -> In k ks ->
    find (build_map fm higher m ks) k =
      match proto_value fm higher m k with Some v => Some (OSet v) | None => None end.
  Proof.
    induction ks as [|a r IH]; simpl; intros Hn Hin; [destruct Hin|].
    inversion Hn; subst. destruct Hin as [->|Hin].
    - destruct (proto_value fm higher m k); simpl.
      + now rewrite beqb_refl.
      + apply find_none_iff. intros H. apply build_map_keys_sub in H. tauto.
    - assert (beqb a k = false) by (apply beqb_false; intros ->; tauto).
      destruct (proto_value fm higher m a); simpl; auto. rewrite H. auto.
  Qed.

  Lemma build_map_set_only higher m ks : set_only (build_map fm higher m ks).
  Proof.
    induction ks as [|k r IH]; simpl; [intros ? ? []|].
    destruct (proto_value fm higher m k); auto.
    intros k' o [[= <- <-]|H]; eauto.
  Qed.

  Lemma map_update_set_only higher m : set_only (map_update fm higher m).
  Proof. apply build_map_set_only. Qed.

  Lemma build_map_asc higher m ks : asc ks -> asc (keys (build_map fm higher m ks)).
  Proof.
    induction ks as [|k r IH]; simpl; intros H; [constructor|].
    pose proof (asc_tail _ _ H).
    destruct (proto_value fm higher m k); simpl; auto.
    apply asc_cons_intro; auto. intros x Hx. apply build_map_keys_sub in Hx.
    eapply asc_head_lt; eauto.
  Qed.

  Theorem map_update_view higher m k :
    set_only m -> llv [map_update fm higher m] k = sget higher (llv [m]) k.
  Proof.
    intros Hs. rewrite <- map_get_llv by apply map_update_set_only.
    rewrite (sget_ext fm higher (llv [m]) (map_get m) k) by (symmetry; apply map_get_llv; auto).
    rewrite <- proto_value_spec.
    unfold map_update, map_get.
    set (ks := kunion (all_keys higher) (kunion (keys m) [])).
    assert (Hasc : asc ks) by (apply kunion_asc, kunion_asc; constructor).
    destruct (in_dec (list_eq_dec N.eq_dec) k ks) as [Hin|Hn].
    - rewrite find_build_map; auto using asc_NoDup.
      destruct (proto_value fm higher m k); reflexivity.
    - assert (find (build_map fm higher m ks) k = None) as ->.
      { apply find_none_iff. intros H. apply build_map_keys_sub in H. tauto. }
      unfold ks in Hn. rewrite !kunion_in in Hn.
      unfold proto_value.
      assert (newest higher k = None) as ->.
      { destruct (newest higher k) eqn:E; auto. exfalso. apply Hn. left.
        apply newest_some_in_all_keys. congruence. }
      unfold map_get. assert (find m k = None) as ->; auto.
      apply find_none_iff. tauto.
  Qed.
End WithMerge.

(* ---- determineExponent: the fuel never decides for a factor >= 2 ... ------------ *)
Lemma det_exp_stops (mult seg : N) :
  (2 <= mult)%N ->
  forall f sz lvl extra, (seg < sz * 2 ^ N.of_nat f)%N ->
    det_exp_aux mult seg sz lvl (f + extra) = det_exp_aux mult seg sz lvl f.
Proof.
  intros Hm. induction f as [|f IH]; intros sz lvl extra Hlt.
  - simpl in Hlt. rewrite N.mul_1_r in Hlt. simpl.
    destruct extra as [|e]; [reflexivity|]. simpl.
    destruct (N.leb_spec sz seg); [lia|]. reflexivity.
  - simpl. destruct (N.leb sz seg && N.ltb 0 sz) eqn:E; [|reflexivity].
    apply IH. rewrite Nat2N.inj_succ, N.pow_succ_r' in Hlt. nia.
Qed.

Theorem determine_exponent_fuel_suffices (mult seg cur : N) (lvl extra : nat) :
  (2 <= mult)%N -> (seg < 2 ^ 64)%N ->
  det_exp_aux mult seg (cur * mult) lvl (64 + extra) = determine_exponent mult seg cur lvl.
Proof.
  intros Hm Hs. unfold determine_exponent.
  destruct (N.eq_dec (cur * mult) 0) as [Z|NZ].
  - rewrite Z. simpl. destruct (N.leb 0 seg); reflexivity.
  - apply det_exp_stops; auto. change (N.of_nat 64) with 64%N. nia.
Qed.

(* ... and for a factor of 1 it ALWAYS decides: the loop of the code does not end (F40) *)
Theorem det_exp_mult_one_never_stops (seg sz : N) (lvl fuel : nat) :
  (0 < sz)%N -> (sz <= seg)%N -> det_exp_aux 1 seg sz lvl fuel = lvl + fuel.
Proof.
  intros Hp Hle. revert lvl. induction fuel as [|f IH]; intros lvl; simpl; [lia|].
  destruct (N.leb_spec sz seg); [|lia]. destruct (N.ltb_spec 0 sz); [|lia]. simpl.
  rewrite N.mul_1_r, IH. lia.
Qed.

(* the repaired code never works with a factor below 2 *)
Lemma eff_mult_ge_2 m : (2 <= eff_mult m)%N.
Proof. unfold eff_mult. destruct (N.ltb_spec m 2); lia. Qed.
