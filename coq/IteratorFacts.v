(* IteratorFacts.v — the moss iterator model (Iterator.v) refines the
   specification iterator (a suffix of live_range). *)
From Coq Require Import List NArith Bool Lia Arith.
From Moss Require Import Bytes BytesFacts Segment SegmentFacts Stack StackFacts Iterator.

(* ====================================================================== *)
(* A. order and list helpers                                               *)

Lemma bleb_true a b : bleb a b = true <-> bcmp a b <> Gt.
Proof. unfold bleb. destruct (bcmp a b); split; congruence. Qed.

Lemma bleb_refl a : bleb a a = true.
Proof. unfold bleb. now rewrite bcmp_refl. Qed.

Lemma bltb_false a b : bltb a b = false <-> bleb b a = true.
Proof.
  unfold bltb, bleb. rewrite (bcmp_antisym a b).
  destruct (bcmp a b); simpl; split; congruence.
Qed.

Lemma bleb_false a b : bleb a b = false <-> bltb b a = true.
Proof.
  unfold bltb, bleb. rewrite (bcmp_antisym a b).
  destruct (bcmp a b); simpl; split; congruence.
Qed.

Lemma bltb_bleb a b : bltb a b = true -> bleb a b = true.
Proof. unfold bltb, bleb. destruct (bcmp a b); congruence. Qed.

Lemma bleb_nil a : bleb [] a = true.
Proof. destruct a; reflexivity. Qed.

Lemma bleb_trans a b c : bleb a b = true -> bleb b c = true -> bleb a c = true.
Proof.
  rewrite !bleb_true. intros H1 H2.
  destruct (bcmp b c) eqn:E; try congruence.
  - apply bcmp_eq in E; subst; auto.
  - rewrite (bcmp_le_lt_trans _ _ _ H1 E). discriminate.
Qed.

Lemma bltb_bleb_trans a b c : bltb a b = true -> bleb b c = true -> bltb a c = true.
Proof.
  rewrite !bltb_true, bleb_true. apply bcmp_lt_le_trans.
Qed.

Lemma bleb_bltb_trans a b c : bleb a b = true -> bltb b c = true -> bltb a c = true.
Proof.
  rewrite !bltb_true, bleb_true. apply bcmp_le_lt_trans.
Qed.

Lemma bltb_trans a b c : bltb a b = true -> bltb b c = true -> bltb a c = true.
Proof. rewrite !bltb_true. apply bcmp_trans. Qed.

Lemma bltb_irrefl a : bltb a a = false.
Proof. unfold bltb. now rewrite bcmp_refl. Qed.

Lemma bleb_antisym a b : bleb a b = true -> bleb b a = true -> a = b.
Proof.
  unfold bleb. rewrite (bcmp_antisym a b). destruct (bcmp a b) eqn:E; simpl; try discriminate.
  intros _ _. now apply bcmp_eq.
Qed.

Lemma bltb_or_bleb a b : bltb a b = true \/ bleb b a = true.
Proof. destruct (bltb a b) eqn:E; auto. right. now apply bltb_false. Qed.

Lemma blt_bltb a b : blt a b <-> bltb a b = true.
Proof. unfold blt. symmetry. apply bltb_true. Qed.

Lemma filter_all {A} (P : A -> bool) l : (forall x, In x l -> P x = true) -> filter P l = l.
Proof.
  induction l as [|a l IH]; simpl; intros H; auto.
  rewrite (H a (or_introl eq_refl)). f_equal. apply IH. intros; apply H; auto.
Qed.

Lemma filter_none {A} (P : A -> bool) l : (forall x, In x l -> P x = false) -> filter P l = [].
Proof.
  induction l as [|a l IH]; simpl; intros H; auto.
  rewrite (H a (or_introl eq_refl)). apply IH. intros; apply H; auto.
Qed.

Lemma filter_filter {A} (P Q : A -> bool) l :
  filter P (filter Q l) = filter (fun x => Q x && P x) l.
Proof.
  induction l as [|a l IH]; simpl; auto.
  destruct (Q a); simpl; [destruct (P a)|]; rewrite IH; auto.
Qed.

Lemma asc_ext l1 l2 : asc l1 -> asc l2 -> (forall x, In x l1 <-> In x l2) -> l1 = l2.
Proof.
  revert l2. induction l1 as [|a l1 IH]; intros [|b l2] H1 H2 H; auto.
  - exfalso. apply (H b). simpl; auto.
  - exfalso. apply (H a). simpl; auto.
  - assert (a = b) as ->.
    { destruct (proj1 (H a) (or_introl eq_refl)) as [E|E]; auto.
      destruct (proj2 (H b) (or_introl eq_refl)) as [F|F]; auto.
      pose proof (asc_head_lt _ _ H2 _ E) as G1.
      pose proof (asc_head_lt _ _ H1 _ F) as G2.
      unfold blt in *. pose proof (bcmp_trans _ _ _ G1 G2) as G.
      rewrite bcmp_refl in G. discriminate. }
    f_equal. apply IH; [eapply asc_tail; eauto|eapply asc_tail; eauto|].
    intros x. split; intros Hx.
    + destruct (proj1 (H x) (or_intror Hx)) as [E|E]; auto. subst.
      pose proof (asc_head_lt _ _ H1 _ Hx) as G. unfold blt in G. rewrite bcmp_refl in G. discriminate.
    + destruct (proj2 (H x) (or_intror Hx)) as [E|E]; auto. subst.
      pose proof (asc_head_lt _ _ H2 _ Hx) as G. unfold blt in G. rewrite bcmp_refl in G. discriminate.
Qed.

Lemma asc_filter P l : asc l -> asc (filter P l).
Proof.
  induction l as [|a l IH]; simpl; intros H; auto.
  pose proof (asc_tail _ _ H) as Ht.
  destruct (P a); auto. apply asc_cons_intro; auto.
  intros x Hx. apply filter_In in Hx. eapply asc_head_lt; eauto. tauto.
Qed.

Lemma keys_filter (P : bytes -> bool) (s : segment) :
  keys (filter (fun e => P (fst e)) s) = filter P (keys s).
Proof.
  induction s as [|[k o] s IH]; simpl; auto.
  destruct (P k); simpl; now rewrite IH.
Qed.

Lemma find_filter (P : bytes -> bool) (s : segment) k :
  find (filter (fun e => P (fst e)) s) k = if P k then find s k else None.
Proof.
  induction s as [|[k' o] s IH]; simpl; [destruct (P k); auto|].
  destruct (P k') eqn:Ek'; simpl.
  - destruct (beqb k' k) eqn:E.
    + apply beqb_true in E; subst. now rewrite Ek'.
    + exact IH.
  - destruct (beqb k' k) eqn:E.
    + apply beqb_true in E; subst. rewrite Ek' in *. exact IH.
    + exact IH.
Qed.

Lemma asc_keys_head_le (k : bytes) (o : op) (r : segment) e :
  asc (keys ((k, o) :: r)) -> In e ((k, o) :: r) -> bleb k (fst e) = true.
Proof.
  intros H [<-|Hin]; simpl; [apply bleb_refl|].
  apply bltb_bleb, blt_bltb. eapply asc_head_lt; eauto. simpl.
  apply in_map; auto.
Qed.

Lemma asc_keys_head_lt (k : bytes) (o : op) (r : segment) e :
  asc (keys ((k, o) :: r)) -> In e r -> bltb k (fst e) = true.
Proof.
  intros H Hin. apply blt_bltb. eapply asc_head_lt; eauto. simpl. apply in_map; auto.
Qed.

(* --- lower_bound on ascending segments -------------------------------- *)

Lemma skipn_lb s x : asc (keys s) ->
  skipn (lower_bound s x) s = filter (fun e => bleb x (fst e)) s.
Proof.
  induction s as [|[k o] r IH]; intros H; auto.
  simpl lower_bound. destruct (bltb k x) eqn:E.
  - simpl. assert (bleb x k = false) as -> by (now apply bleb_false).
    apply IH. eapply asc_tail; eauto.
  - change (skipn 0 ((k, o) :: r)) with ((k, o) :: r). symmetry. apply filter_all.
    intros e He. apply bltb_false in E.
    eapply bleb_trans; eauto. eapply asc_keys_head_le; eauto.
Qed.

Lemma firstn_lb s x : asc (keys s) ->
  firstn (lower_bound s x) s = filter (fun e => bltb (fst e) x) s.
Proof.
  induction s as [|[k o] r IH]; intros H; auto.
  simpl lower_bound. destruct (bltb k x) eqn:E.
  - simpl. rewrite E. f_equal. apply IH. eapply asc_tail; eauto.
  - simpl firstn. symmetry. apply filter_none.
    intros e He. apply bltb_false. apply bltb_false in E.
    eapply bleb_trans; eauto. eapply asc_keys_head_le; eauto.
Qed.

Lemma lb_mono s a b : bleb a b = true -> lower_bound s a <= lower_bound s b.
Proof.
  intros Hab. induction s as [|[k o] r IH]; simpl; auto.
  destruct (bltb k a) eqn:E.
  - rewrite (bltb_bleb_trans _ _ _ E Hab). lia.
  - lia.
Qed.

Lemma lb_le_length s x : lower_bound s x <= length s.
Proof. induction s as [|[k o] r IH]; simpl; [lia|]. destruct (bltb k x); lia. Qed.

Lemma sub_lb s l e : asc (keys s) ->
  firstn (lower_bound s e - lower_bound s l) (skipn (lower_bound s l) s)
  = filter (fun x => bleb l (fst x) && bltb (fst x) e) s.
Proof.
  induction s as [|[k o] r IH]; intros H; auto.
  pose proof (asc_tail _ _ H) as Ht.
  simpl lower_bound. destruct (bltb k l) eqn:El.
  - destruct (bltb k e) eqn:Ee.
    + simpl. assert (bleb l k = false) as -> by (now apply bleb_false). simpl. auto.
    + rewrite Nat.sub_0_l. simpl firstn. symmetry. apply filter_none. intros x [<-|Hx]; simpl.
      * rewrite Ee. apply andb_false_r.
      * apply andb_false_iff; right. apply bltb_false. apply bltb_false in Ee.
        eapply bleb_trans; eauto. apply bltb_bleb. eapply asc_keys_head_lt; eauto.
  - rewrite Nat.sub_0_r. change (skipn 0 ((k, o) :: r)) with ((k, o) :: r).
    change (firstn (lower_bound ((k,o) :: r) e) ((k,o) :: r)
            = filter (fun x => bleb l (fst x) && bltb (fst x) e) ((k,o) :: r)).
    rewrite firstn_lb; auto. apply filter_ext_in. intros x Hx.
    apply bltb_false in El.
    rewrite (bleb_trans _ _ _ El (asc_keys_head_le _ _ _ _ H Hx)). auto.
Qed.

Lemma sub_len s l : asc (keys s) ->
  firstn (length s - lower_bound s l) (skipn (lower_bound s l) s)
  = filter (fun x => bleb l (fst x)) s.
Proof.
  intros H. rewrite firstn_all2; [now apply skipn_lb|].
  rewrite skipn_length. lia.
Qed.

Lemma slice_filter lo hi s : asc (keys s) ->
  slice lo hi s = filter (fun e => in_range lo hi (fst e)) s.
Proof.
  intros H. unfold slice, sc_rest, seg_cursor; simpl. rewrite Nat.leb_refl.
  unfold in_range. destruct hi as [e|].
  - now apply sub_lb.
  - rewrite sub_len; auto. apply filter_ext. intros x. now rewrite andb_true_r.
Qed.

(* ====================================================================== *)
(* B. the prefix-stripped heap comparison is the plain comparison          *)

Lemma strip_aux S E k1 k2 :
  bleb S k1 = true -> bltb k1 E = true -> bleb S k2 = true -> bltb k2 E = true ->
  bcmp (skipn (shared_prefix_len S E) k1) (skipn (shared_prefix_len S E) k2) = bcmp k1 k2.
Proof.
  revert E k1 k2. induction S as [|x S IH]; intros [|y E] k1 k2 H1 H2 H3 H4; simpl; auto.
  destruct (N.eqb x y) eqn:Exy; simpl; auto.
  apply N.eqb_eq in Exy; subst y.
  assert (Hk : forall k, bleb (x :: S) k = true -> bltb k (x :: E) = true ->
               exists k', k = x :: k' /\ bleb S k' = true /\ bltb k' E = true).
  { intros [|z k'] G1 G2; [discriminate|].
    unfold bleb, bltb in G1, G2. simpl in G1, G2.
    destruct (N.compare x z) eqn:C1; try discriminate.
    - apply N.compare_eq in C1; subst z. rewrite N.compare_refl in G2.
      exists k'. unfold bleb, bltb. auto.
    - rewrite N.compare_antisym, C1 in G2. simpl in G2. discriminate. }
  destruct (Hk k1 H1 H2) as [k1' [-> [A1 A2]]].
  destruct (Hk k2 H3 H4) as [k2' [-> [B1 B2]]].
  simpl. rewrite N.compare_refl. apply IH; auto.
Qed.

(* Required lemma 3: for keys inside [start,end) iterator.Less compares like bytes.Compare *)
Lemma C09_prefix_strip start end_ k1 k2 :
  in_range start end_ k1 = true -> in_range start end_ k2 = true ->
  cmp_strip (prefix_len start end_) k1 k2 = bcmp k1 k2.
Proof.
  unfold in_range, cmp_strip, prefix_len. intros H1 H2.
  apply andb_true_iff in H1. apply andb_true_iff in H2.
  destruct H1 as [A1 A2], H2 as [B1 B2].
  destruct start as [[|a s]|]; auto. destruct end_ as [[|b e]|]; auto.
  apply strip_aux; auto.
Qed.

(* ====================================================================== *)
(* C. keys / newest op / view under filtering                              *)

Definition kf (P : bytes -> bool) : entry -> bool := fun e => P (fst e).

Lemma all_keys_filter P ss :
  all_keys (map (filter (kf P)) ss) = filter P (all_keys ss).
Proof.
  apply asc_ext.
  - apply all_keys_asc.
  - apply asc_filter, all_keys_asc.
  - intros x. rewrite filter_In, !all_keys_in. split.
    + intros [s [Hs Hx]]. apply in_map_iff in Hs. destruct Hs as [s0 [<- Hs0]].
      unfold kf in Hx. rewrite keys_filter in Hx. apply filter_In in Hx. destruct Hx; eauto.
    + intros [[s [Hs Hx]] HP]. exists (filter (kf P) s). split; [now apply in_map|].
      unfold kf. rewrite keys_filter. apply filter_In; auto.
Qed.

Lemma newest_filter P ss k :
  newest (map (filter (kf P)) ss) k = if P k then newest ss k else None.
Proof.
  induction ss as [|s r IH]; simpl; [destruct (P k); auto|].
  unfold kf at 1. rewrite find_filter. destruct (P k) eqn:E; auto.
  rewrite IH. reflexivity.
Qed.

Lemma nop_filter P ss k : P k = true -> nop (map (filter (kf P)) ss) k = nop ss k.
Proof. intros H. unfold nop. now rewrite newest_filter, H. Qed.

Lemma view_filter P ss : view (map (filter (kf P)) ss) = filter (kf P) (view ss).
Proof.
  unfold view. rewrite all_keys_filter.
  induction (all_keys ss) as [|k l IH]; simpl; auto.
  unfold kf at 2. simpl. destruct (P k) eqn:E; simpl; auto.
  rewrite IH. f_equal. now rewrite nop_filter.
Qed.

Lemma view_keys ss : keys (view ss) = all_keys ss.
Proof. unfold view, keys. rewrite map_map. simpl. apply map_id. Qed.

Lemma view_asc ss : asc (keys (view ss)).
Proof. rewrite view_keys. apply all_keys_asc. Qed.

Lemma view_in ss k o : In (k, o) (view ss) <-> newest ss k = Some o.
Proof.
  unfold view. rewrite in_map_iff. split.
  - intros [k' [E Hin]]. injection E as -> <-.
    apply newest_some_in_all_keys in Hin. unfold nop. destruct (newest ss k); congruence.
  - intros H. exists k. split.
    + unfold nop. now rewrite H.
    + apply newest_some_in_all_keys. congruence.
Qed.

Lemma find_view ss k : find (view ss) k = newest ss k.
Proof.
  destruct (newest ss k) as [o|] eqn:E.
  - apply find_NoDup_in; [apply asc_NoDup, view_asc|]. now apply view_in.
  - apply find_none_iff. rewrite view_keys. intros H.
    apply newest_some_in_all_keys in H. congruence.
Qed.

(* ====================================================================== *)
(* D. the heap minimum                                                     *)

Definition all_asc (rem : list segment) : Prop := Forall (fun r => asc (keys r)) rem.

(* on the keys present, the stripped comparison is the real one *)
Definition keys_ok (pfx : nat) (rem : list segment) : Prop :=
  forall k1 k2, In k1 (all_keys rem) -> In k2 (all_keys rem) -> cmp_strip pfx k1 k2 = bcmp k1 k2.

Lemma all_keys_cons_in r rest k :
  In k (all_keys (r :: rest)) <-> In k (keys r) \/ In k (all_keys rest).
Proof. unfold all_keys; simpl. apply kunion_in. Qed.

Lemma keys_ok_tail pfx r rest : keys_ok pfx (r :: rest) -> keys_ok pfx rest.
Proof. intros H k1 k2 H1 H2. apply H; apply all_keys_cons_in; auto. Qed.

Lemma min_none_total pfx rem : min_cursor pfx rem = None <-> total rem = 0.
Proof.
  induction rem as [|r rest IH]; simpl; [tauto|].
  destruct r as [|e t]; simpl.
  - destruct (min_cursor pfx rest) as [[j e']|]; simpl.
    + split; [discriminate|]. intros H. apply IH in H. discriminate.
    + split; auto. intros _. now apply IH.
  - split; [|discriminate].
    destruct (min_cursor pfx rest) as [[j e']|]; simpl.
    + destruct (cmp_strip pfx (fst e) (fst e')); discriminate.
    + discriminate.
Qed.

Lemma total_zero_all_keys rem : total rem = 0 -> all_keys rem = [].
Proof.
  induction rem as [|r rest IH]; simpl; auto.
  destruct r; simpl; [|discriminate]. intros H. unfold all_keys in *. simpl. auto.
Qed.

Lemma total_zero_view rem : total rem = 0 -> view rem = [].
Proof. intros H. unfold view. now rewrite total_zero_all_keys. Qed.

Lemma find_lt_head (k : bytes) (r : segment) :
  asc (keys r) -> (forall e, In e r -> bltb k (fst e) = true) -> find r k = None.
Proof.
  intros _ H. apply find_none_iff. intros Hin. unfold keys in Hin.
  apply in_map_iff in Hin. destruct Hin as [e [<- He]]. apply H in He.
  rewrite bltb_irrefl in He. discriminate.
Qed.

Lemma min_cursor_spec pfx rem i k o :
  all_asc rem -> keys_ok pfx rem ->
  min_cursor pfx rem = Some (i, (k, o)) ->
  (exists t, nth i rem [] = (k, o) :: t) /\
  (forall k', In k' (all_keys rem) -> bleb k k' = true) /\
  (forall j, j < i -> find (nth j rem []) k = None).
Proof.
  revert i k o. induction rem as [|r rest IH]; intros i k o Ha Hk; [discriminate|]. cbn [min_cursor].
  inversion Ha as [|? ? Har Harest]; subst.
  pose proof (keys_ok_tail _ _ _ Hk) as Hk'.
  destruct r as [|[k0 o0] t].
  - destruct (min_cursor pfx rest) as [[j [k1 o1]]|] eqn:Em; cbn [option_map fst snd]; [|discriminate].
    intros [= <- <- <-]. destruct (IH j k1 o1 Harest Hk' eq_refl) as [A [B C]].
    split; [exact A|]. split.
    + intros k' Hin. apply all_keys_cons_in in Hin. destruct Hin as [[]|Hin]; auto.
    + intros [|j'] Hj; simpl; auto. apply C. lia.
  - destruct (min_cursor pfx rest) as [[j [k1 o1]]|] eqn:Em; cbn [option_map fst snd].
    + destruct (IH j k1 o1 Harest Hk' eq_refl) as [[t1 A] [B C]].
      assert (Hin1 : In k1 (all_keys (((k0, o0) :: t) :: rest))).
      { apply all_keys_cons_in. right. apply all_keys_in. exists (nth j rest []). split.
        - apply nth_In. destruct (Nat.lt_ge_cases j (length rest)) as [G|G]; auto.
          rewrite nth_overflow in A; [discriminate|lia].
        - rewrite A. simpl. auto. }
      assert (Hin0 : In k0 (all_keys (((k0, o0) :: t) :: rest))).
      { apply all_keys_cons_in. left. simpl. auto. }
      rewrite (Hk k0 k1 Hin0 Hin1).
      destruct (bcmp k0 k1) eqn:Ec.
      * intros [= <- <- <-]. split; [eexists; reflexivity|]. split; [|intros j' Hj'; lia].
        intros k' Hin. apply all_keys_cons_in in Hin. destruct Hin as [Hin|Hin].
        -- unfold keys in Hin. apply in_map_iff in Hin. destruct Hin as [e [<- He]].
           eapply asc_keys_head_le; eauto.
        -- apply bcmp_eq in Ec; subst. auto.
      * intros [= <- <- <-]. split; [eexists; reflexivity|]. split; [|intros j' Hj'; lia].
        intros k' Hin. apply all_keys_cons_in in Hin. destruct Hin as [Hin|Hin].
        -- unfold keys in Hin. apply in_map_iff in Hin. destruct Hin as [e [<- He]].
           eapply asc_keys_head_le; eauto.
        -- apply bleb_trans with k1; auto. apply bltb_bleb. now apply bltb_true.
      * intros [= <- <- <-]. split; [exists t1; exact A|]. split.
        -- intros k' Hin. apply all_keys_cons_in in Hin. destruct Hin as [Hin|Hin]; auto.
           unfold keys in Hin. apply in_map_iff in Hin. destruct Hin as [e [<- He]].
           apply bleb_trans with k0.
           ++ apply bltb_bleb. apply bltb_true. now apply bcmp_gt_lt.
           ++ eapply asc_keys_head_le; eauto.
        -- intros [|j'] Hj; cbn [nth]; [|apply C; lia].
           apply find_lt_head; auto. intros e He.
           apply bltb_bleb_trans with k0.
           ++ apply bltb_true. now apply bcmp_gt_lt.
           ++ eapply asc_keys_head_le; eauto.
    + intros [= <- <- <-]. split; [eexists; reflexivity|]. split; [|intros j' Hj'; lia].
      intros k' Hin. apply all_keys_cons_in in Hin. destruct Hin as [Hin|Hin].
      * unfold keys in Hin. apply in_map_iff in Hin. destruct Hin as [e [<- He]].
        eapply asc_keys_head_le; eauto.
      * apply min_none_total in Em. rewrite (total_zero_all_keys _ Em) in Hin. destruct Hin.
Qed.

Lemma newest_nth (S : list segment) i k o :
  (forall j, j < i -> find (nth j S []) k = None) ->
  find (nth i S []) k = Some o -> newest S k = Some o.
Proof.
  revert S. induction i as [|i IH]; intros [|s r] H1 H2; simpl in *; try discriminate.
  - now rewrite H2.
  - rewrite (H1 0) by lia. apply IH; auto. intros j Hj. apply (H1 (Datatypes.S j)). lia.
Qed.

Lemma seg_head_split (L : segment) k o :
  asc (keys L) -> In (k, o) L -> (forall e, In e L -> bleb k (fst e) = true) ->
  L = (k, o) :: filter (kf (bltb k)) L.
Proof.
  destruct L as [|[k0 o0] t]; intros Ha Hin Hle; [destruct Hin|].
  destruct Hin as [E|Hin].
  - injection E as -> ->. simpl. unfold kf at 1; simpl. rewrite bltb_irrefl. f_equal.
    symmetry. apply filter_all. intros e He. unfold kf. eapply asc_keys_head_lt; eauto.
  - exfalso. pose proof (asc_keys_head_lt _ _ _ _ Ha Hin) as G. simpl in G.
    pose proof (Hle (k0, o0) (or_introl eq_refl)) as G2. simpl in G2.
    pose proof (bltb_bleb_trans _ _ _ G G2) as G3. rewrite bltb_irrefl in G3. discriminate.
Qed.

Definition gtf (k : bytes) : segment -> segment := filter (kf (bltb k)).

Lemma min_newest pfx rem i k o :
  all_asc rem -> keys_ok pfx rem -> min_cursor pfx rem = Some (i, (k, o)) ->
  newest rem k = Some o.
Proof.
  intros Ha Hk Hm. destruct (min_cursor_spec _ _ _ _ _ Ha Hk Hm) as [[t A] [B C]].
  eapply newest_nth; eauto. rewrite A. simpl. now rewrite beqb_refl.
Qed.

Lemma view_min pfx rem i k o :
  all_asc rem -> keys_ok pfx rem -> min_cursor pfx rem = Some (i, (k, o)) ->
  view rem = (k, o) :: view (map (gtf k) rem).
Proof.
  intros Ha Hk Hm. unfold gtf. rewrite view_filter.
  apply seg_head_split.
  - apply view_asc.
  - apply view_in. eapply min_newest; eauto.
  - destruct (min_cursor_spec _ _ _ _ _ Ha Hk Hm) as [_ [B _]].
    intros [k' o'] He. simpl. apply B. rewrite <- view_keys.
    apply (in_map fst) in He. exact He.
Qed.

(* ====================================================================== *)
(* E. iterator.Next on the heap                                            *)

Lemma advance_gtf i rem k o t b :
  nth i rem [] = (k, o) :: t -> bleb k b = true ->
  map (gtf b) (advance i rem) = map (gtf b) rem.
Proof.
  revert i. induction rem as [|r rest IH]; intros [|i] H Hb; simpl in *; auto.
  - subst r. simpl. f_equal. unfold gtf at 2. simpl. unfold kf at 1. simpl.
    assert (bltb b k = false) as -> by (now apply bltb_false). reflexivity.
  - f_equal. apply IH; auto.
Qed.

Lemma advance_total i rem e t :
  nth i rem [] = e :: t -> S (total (advance i rem)) = total rem.
Proof.
  revert i. induction rem as [|r rest IH]; intros [|i] H; simpl in *; try discriminate.
  - subst r. simpl. reflexivity.
  - rewrite <- (IH i H). lia.
Qed.

Lemma asc_keys_tl (r : segment) : asc (keys r) -> asc (keys (tl r)).
Proof. destruct r; simpl; auto. apply asc_tail. Qed.

Lemma advance_asc i rem : all_asc rem -> all_asc (advance i rem).
Proof.
  revert i. induction rem as [|r rest IH]; intros [|i] H; simpl; auto;
  inversion H; subst; constructor; auto.
  - now apply asc_keys_tl.
  - now apply IH.
Qed.

Lemma advance_keys_sub i rem k : In k (all_keys (advance i rem)) -> In k (all_keys rem).
Proof.
  revert i. induction rem as [|r rest IH]; intros [|i] H; simpl in *; auto.
  - apply all_keys_cons_in in H. apply all_keys_cons_in. destruct H as [H|H]; auto.
    left. destruct r; simpl in *; auto.
  - apply all_keys_cons_in in H. apply all_keys_cons_in. destruct H as [H|H]; eauto.
Qed.

Lemma keys_ok_sub pfx rem rem' :
  (forall k, In k (all_keys rem') -> In k (all_keys rem)) -> keys_ok pfx rem -> keys_ok pfx rem'.
Proof. intros H Hk k1 k2 H1 H2. apply Hk; auto. Qed.

Lemma gtf_id k rem : (forall k', In k' (all_keys rem) -> bltb k k' = true) -> map (gtf k) rem = rem.
Proof.
  induction rem as [|r rest IH]; intros H; simpl; auto. f_equal.
  - apply filter_all. intros e He. unfold kf. apply H. apply all_keys_cons_in. left.
    apply in_map; auto.
  - apply IH. intros k' Hk'. apply H. apply all_keys_cons_in. auto.
Qed.

Lemma all_asc_filter P rem : all_asc rem -> all_asc (map (filter (kf P)) rem).
Proof.
  intros H. apply Forall_map. eapply Forall_impl; [|exact H].
  intros r Hr. unfold kf. rewrite keys_filter. now apply asc_filter.
Qed.

Lemma filter_keys_sub P rem k : In k (all_keys (map (filter (kf P)) rem)) -> In k (all_keys rem).
Proof. rewrite all_keys_filter. intros H. apply filter_In in H. tauto. Qed.

Lemma nth_cons_total i (rem : list segment) e t : nth i rem [] = e :: t -> 1 <= total rem.
Proof.
  revert i. induction rem as [|r rest IH]; intros [|i] H; simpl in *; try discriminate.
  - subst; simpl; lia.
  - specialize (IH i H). lia.
Qed.

Definition head_ok (incl : bool) (pfx : nat) (rem : list segment) : Prop :=
  match min_cursor pfx rem with
  | Some (_, (_, ODel)) => incl = true
  | _ => True
  end.

Lemma vis_cons_del s k : vis false ((k, ODel) :: s) = vis false s.
Proof. reflexivity. Qed.

Lemma next_loop_spec incl pfx fuel : forall rem k,
  all_asc rem -> keys_ok pfx rem -> total rem <= fuel ->
  (exists i o, min_cursor pfx rem = Some (i, (k, o))) ->
  exists b,
    bleb k b = true /\
    fst (next_loop incl pfx fuel k rem) = map (gtf b) rem /\
    vis incl (view (fst (next_loop incl pfx fuel k rem))) = vis incl (view (map (gtf k) rem)) /\
    snd (next_loop incl pfx fuel k rem) = negb (Nat.eqb (total (fst (next_loop incl pfx fuel k rem))) 0) /\
    head_ok incl pfx (fst (next_loop incl pfx fuel k rem)).
Proof.
  induction fuel as [|f IH]; intros rem k Ha Hk Hf [i [o Hm]].
  - exfalso. destruct (min_cursor_spec _ _ _ _ _ Ha Hk Hm) as [[t A] _].
    apply nth_cons_total in A. lia.
  - destruct (min_cursor_spec _ _ _ _ _ Ha Hk Hm) as [[t A] [B C]].
    cbn [next_loop]. rewrite Hm.
    set (rem1 := advance i rem).
    assert (Ha1 : all_asc rem1) by (now apply advance_asc).
    assert (Hk1 : keys_ok pfx rem1).
    { eapply keys_ok_sub; [|exact Hk]. intros; eapply advance_keys_sub; eauto. }
    assert (Hf1 : total rem1 <= f).
    { pose proof (advance_total _ _ _ _ A). fold rem1 in H. lia. }
    assert (Hg : forall b, bleb k b = true -> map (gtf b) rem1 = map (gtf b) rem).
    { intros b Hb. eapply advance_gtf; eauto. }
    destruct (min_cursor pfx rem1) as [[i1 [k1 o1]]|] eqn:Em1.
    + assert (Hkk1 : bleb k k1 = true).
      { apply B. eapply advance_keys_sub. fold rem1.
        destruct (min_cursor_spec _ _ _ _ _ Ha1 Hk1 Em1) as [[t1 A1] _].
        apply all_keys_in. exists (nth i1 rem1 []). split.
        - apply nth_In. destruct (Nat.lt_ge_cases i1 (length rem1)) as [G|G]; auto.
          rewrite nth_overflow in A1; [discriminate|lia].
        - rewrite A1. simpl. auto. }
      destruct (beqb k1 k) eqn:Eb.
      * apply beqb_true in Eb. subst k1.
        destruct (IH rem1 k Ha1 Hk1 Hf1 (ex_intro _ i1 (ex_intro _ o1 Em1)))
          as [b [Hb [R1 [R2 [R3 R4]]]]].
        exists b. split; auto. split; [rewrite R1; auto|]. split; auto.
        rewrite R2. rewrite Hg by apply bleb_refl. reflexivity.
      * assert (Hlt : bltb k k1 = true).
        { destruct (bltb k k1) eqn:E; auto. apply bltb_false in E.
          pose proof (bleb_antisym _ _ Hkk1 E). subst. rewrite beqb_refl in Eb. discriminate. }
        assert (Hid : rem1 = map (gtf k) rem).
        { rewrite <- (Hg k (bleb_refl k)). symmetry. apply gtf_id.
          destruct (min_cursor_spec _ _ _ _ _ Ha1 Hk1 Em1) as [_ [B1 _]].
          intros k' Hk'. eapply bltb_bleb_trans; eauto. }
        destruct (negb incl && is_del o1) eqn:Ed.
        -- apply andb_true_iff in Ed. destruct Ed as [Ei Eo].
           apply negb_true_iff in Ei. subst incl. destruct o1; try discriminate.
           destruct (IH rem1 k1 Ha1 Hk1 Hf1 (ex_intro _ i1 (ex_intro _ ODel Em1)))
             as [b [Hb [R1 [R2 [R3 R4]]]]].
           exists b. split; [eapply bleb_trans; eauto|].
           split; [rewrite R1; apply Hg; eapply bleb_trans; eauto|]. split; auto.
           rewrite R2. rewrite <- Hid.
           rewrite (view_min _ _ _ _ _ Ha1 Hk1 Em1). now rewrite vis_cons_del.
        -- exists k. split; [apply bleb_refl|]. cbn [fst snd].
           split; auto. split; [now rewrite Hid|]. split.
           ++ destruct (min_cursor_spec _ _ _ _ _ Ha1 Hk1 Em1) as [[t1 A1] _].
              apply nth_cons_total in A1. destruct (total rem1); [lia|reflexivity].
           ++ unfold head_ok. rewrite Em1. destruct o1; auto.
              destruct incl; auto; discriminate.
    + apply min_none_total in Em1. cbn [fst snd].
      assert (Hid : rem1 = map (gtf k) rem).
      { rewrite <- (Hg k (bleb_refl k)). symmetry. apply gtf_id.
        rewrite (total_zero_all_keys _ Em1). intros k' []. }
      exists k. split; [apply bleb_refl|]. split; auto. split; [now rewrite Hid|].
      split; [now rewrite Em1|].
      unfold head_ok. apply (proj2 (min_none_total pfx rem1)) in Em1. now rewrite Em1.
Qed.

Definition hd_vis (incl : bool) (s : segment) : Prop :=
  match s with (_, ODel) :: _ => incl = true | _ => True end.

Lemma head_ok_view incl pfx rem :
  all_asc rem -> keys_ok pfx rem -> (head_ok incl pfx rem <-> hd_vis incl (view rem)).
Proof.
  intros Ha Hk. unfold head_ok.
  destruct (min_cursor pfx rem) as [[i [k o]]|] eqn:Em.
  - rewrite (view_min _ _ _ _ _ Ha Hk Em). simpl. tauto.
  - apply min_none_total in Em. rewrite (total_zero_view _ Em). simpl. tauto.
Qed.

Lemma hd_vis_cons incl (k : bytes) (o : op) (s : list (bytes * op)) :
  hd_vis incl ((k, o) :: s) -> vis incl ((k, o) :: s) = (k, o) :: vis incl s.
Proof.
  unfold vis. simpl. destruct o; simpl; rewrite ?orb_true_r; auto.
  intros ->. reflexivity.
Qed.

Lemma heap_next_spec incl pfx rem :
  all_asc rem -> keys_ok pfx rem -> hd_vis incl (view rem) ->
  exists b,
    fst (heap_next incl pfx rem) = map (gtf b) rem /\
    vis incl (view (fst (heap_next incl pfx rem))) = tl (vis incl (view rem)) /\
    snd (heap_next incl pfx rem) = negb (Nat.eqb (total (fst (heap_next incl pfx rem))) 0) /\
    hd_vis incl (view (fst (heap_next incl pfx rem))).
Proof.
  intros Ha Hk Hh. unfold heap_next.
  destruct (min_cursor pfx rem) as [[i [k o]]|] eqn:Em.
  - destruct (next_loop_spec incl pfx (total rem) rem k Ha Hk (le_n _)
                (ex_intro _ i (ex_intro _ o Em))) as [b [Hb [R1 [R2 [R3 R4]]]]].
    exists b. split; auto. split; [|split; auto].
    + rewrite R2. rewrite (view_min _ _ _ _ _ Ha Hk Em) in Hh |- *.
      now rewrite (hd_vis_cons _ _ _ _ Hh).
    + apply head_ok_view in R4; auto.
      * rewrite R1. apply all_asc_filter. exact Ha.
      * rewrite R1. eapply keys_ok_sub; [|exact Hk]. intros k'. apply filter_keys_sub.
  - apply min_none_total in Em. exists []. cbn [fst snd].
    split.
    + symmetry. apply gtf_id. rewrite (total_zero_all_keys _ Em). intros k' [].
    + rewrite (total_zero_view _ Em). simpl. rewrite Em. auto.
Qed.

Lemma vis_view_nonempty incl pfx rem :
  all_asc rem -> keys_ok pfx rem -> hd_vis incl (view rem) ->
  nonempty (vis incl (view rem)) = negb (Nat.eqb (total rem) 0).
Proof.
  intros Ha Hk Hh. destruct (min_cursor pfx rem) as [[i [k o]]|] eqn:Em.
  - rewrite (view_min _ _ _ _ _ Ha Hk Em) in Hh |- *.
    rewrite (hd_vis_cons _ _ _ _ Hh). simpl.
    destruct (min_cursor_spec _ _ _ _ _ Ha Hk Em) as [[t A] _].
    apply nth_cons_total in A. destruct (total rem); [lia|reflexivity].
  - apply min_none_total in Em. rewrite (total_zero_view _ Em), Em. reflexivity.
Qed.

(* ====================================================================== *)
(* F. the lower level as an oldest all-Set segment                         *)

Lemma find_ll_seg l k : find (ll_seg l) k = option_map OSet (assoc l k).
Proof.
  induction l as [|[k' v] l IH]; simpl; auto.
  destruct (beqb k' k); auto.
Qed.

Section Bridge.
  Variable fm : bytes -> value -> bytes -> value.

  Lemma sget_ll_seg l k : sget fm [ll_seg l] no_below k = assoc l k.
  Proof. simpl. rewrite find_ll_seg. destruct (assoc l k); reflexivity. Qed.

  Lemma older_bridge segs ll n k : n <= length segs ->
    sget fm (skipn n (with_ll segs ll)) no_below k = sget fm (skipn n segs) (ll_get ll) k.
  Proof.
    intros Hn. destruct ll as [l|]; simpl.
    - rewrite skipn_app. replace (n - length segs) with 0 by lia. simpl.
      rewrite sget_app. apply sget_ext. apply sget_ll_seg.
    - apply sget_ext. reflexivity.
  Qed.

  Lemma full_get_bridge cfg k : full_get fm cfg k = sget fm (all_segs cfg) no_below k.
  Proof.
    unfold full_get, all_segs. symmetry.
    apply (older_bridge (c_segs cfg) (c_ll cfg) 0 k). lia.
  Qed.

  Lemma sget_nth (S : list segment) below i k o :
    (forall j, j < i -> find (nth j S []) k = None) ->
    find (nth i S []) k = Some o ->
    sget fm S below k = apply_op fm k (sget fm (skipn (Datatypes.S i) S) below k) o.
  Proof.
    revert S. induction i as [|i IH]; intros [|s r] H1 H2; simpl in H2; try discriminate.
    - simpl. now rewrite H2.
    - assert (H0 : find s k = None) by (apply (H1 0); lia).
      simpl sget. rewrite H0. rewrite (IH r); auto.
      intros j Hj. apply (H1 (Datatypes.S j)). lia.
  Qed.
End Bridge.

(* ====================================================================== *)
(* G. well-formed heap states                                              *)

Definition upclosed (R P : bytes -> bool) : Prop :=
  (forall k, P k = true -> R k = true) /\
  (forall k k', P k = true -> bleb k k' = true -> R k' = true -> P k' = true).

Lemma hd_vis_true s : hd_vis true s.
Proof. destruct s as [|[k []] s]; simpl; auto. Qed.

Lemma map_filter_filter (P Q : bytes -> bool) (ss : list segment) :
  map (filter (kf Q)) (map (filter (kf P)) ss) = map (filter (kf (fun k => P k && Q k))) ss.
Proof.
  rewrite map_map. apply map_ext. intros s. unfold kf. apply filter_filter.
Qed.

Lemma keys_ok_range lo hi rem :
  (forall k, In k (all_keys rem) -> in_range lo hi k = true) -> keys_ok (prefix_len lo hi) rem.
Proof. intros H k1 k2 H1 H2. apply C09_prefix_strip; auto. Qed.

Lemma in_range_upclosed lo hi : upclosed (in_range lo hi) (in_range lo hi).
Proof. split; auto. Qed.

Lemma upclosed_gt R P b : upclosed R P -> upclosed R (fun k => P k && bltb b k).
Proof.
  intros [H1 H2]. split.
  - intros k H. apply andb_true_iff in H. apply H1. tauto.
  - intros k k' H Hle HR. apply andb_true_iff in H. destruct H as [HP Hb].
    apply andb_true_iff. split; [eapply H2; eauto|]. eapply bltb_bleb_trans; eauto.
Qed.

Lemma in_range_lo_ge start end_ x k :
  bleb (lo_key start) x = true -> in_range (Some x) end_ k = true -> in_range start end_ k = true.
Proof.
  unfold in_range. simpl. intros H H1. apply andb_true_iff in H1. destruct H1 as [A B].
  apply andb_true_iff. split; auto. eapply bleb_trans; eauto.
Qed.

Lemma upclosed_restart start end_ x P :
  bleb (lo_key start) x = true ->
  upclosed (in_range (Some x) end_) P -> upclosed (in_range start end_) P.
Proof.
  intros Hx [H1 H2]. split.
  - intros k Hk. eapply in_range_lo_ge; eauto.
  - intros k k' HP Hle HR. eapply H2; eauto.
    apply H1 in HP. unfold in_range in *. simpl in *.
    apply andb_true_iff in HP. apply andb_true_iff in HR. apply andb_true_iff.
    split; [|tauto]. eapply bleb_trans; [|exact Hle]. tauto.
Qed.

Definition cfg_ok (cfg : config) : Prop := all_asc (all_segs cfg).

Lemma slices_filter cfg lo : cfg_ok cfg ->
  map (slice lo (c_end cfg)) (all_segs cfg)
  = map (filter (kf (in_range lo (c_end cfg)))) (all_segs cfg).
Proof.
  intros H. apply map_ext_in. intros s Hs. apply slice_filter.
  unfold cfg_ok, all_asc in H. rewrite Forall_forall in H. auto.
Qed.

Lemma heap_start_spec cfg lo : cfg_ok cfg ->
  exists P,
    heap_start cfg lo = map (filter (kf P)) (all_segs cfg) /\
    upclosed (in_range lo (c_end cfg)) P /\
    hd_vis (c_incl cfg) (view (heap_start cfg lo)) /\
    vis (c_incl cfg) (view (heap_start cfg lo))
    = vis (c_incl cfg) (filter (kf (in_range lo (c_end cfg))) (view (all_segs cfg))).
Proof.
  intros Hc. unfold heap_start. rewrite (slices_filter cfg lo Hc).
  set (R := in_range lo (c_end cfg)).
  set (rem0 := map (filter (kf R)) (all_segs cfg)).
  set (pfx := prefix_len lo (c_end cfg)).
  assert (Ha : all_asc rem0) by (apply all_asc_filter; exact Hc).
  assert (Hk : keys_ok pfx rem0).
  { apply keys_ok_range. intros k Hin. unfold rem0 in Hin. rewrite all_keys_filter in Hin.
    apply filter_In in Hin. tauto. }
  assert (Hbase : forall incl, hd_vis incl (view rem0) ->
            exists P, rem0 = map (filter (kf P)) (all_segs cfg) /\ upclosed R P /\
                      hd_vis incl (view rem0) /\
                      vis incl (view rem0) = vis incl (filter (kf R) (view (all_segs cfg)))).
  { intros incl Hh. exists R. split; auto. split; [apply in_range_upclosed|]. split; auto.
    unfold rem0. now rewrite view_filter. }
  destruct (c_incl cfg) eqn:Ei.
  - apply Hbase. apply hd_vis_true.
  - destruct (min_cursor pfx rem0) as [[i [k o]]|] eqn:Em.
    + destruct o as [v| |v].
      * apply Hbase. apply (head_ok_view false pfx rem0 Ha Hk). unfold head_ok. now rewrite Em.
      * unfold heap_next. rewrite Em.
        destruct (next_loop_spec false pfx (total rem0) rem0 k Ha Hk (le_n _)
                    (ex_intro _ i (ex_intro _ ODel Em))) as [b [Hb [R1 [R2 [R3 R4]]]]].
        exists (fun k' => R k' && bltb b k'). split; [|split; [|split]].
        -- rewrite R1. unfold rem0, gtf. apply map_filter_filter.
        -- apply upclosed_gt, in_range_upclosed.
        -- apply head_ok_view in R4; auto.
           ++ rewrite R1. apply all_asc_filter. exact Ha.
           ++ rewrite R1. eapply keys_ok_sub; [|exact Hk]. intros k'. apply filter_keys_sub.
        -- rewrite R2. rewrite <- (vis_cons_del (view (map (gtf k) rem0)) k).
           rewrite <- (view_min _ _ _ _ _ Ha Hk Em). unfold rem0. now rewrite view_filter.
      * apply Hbase. apply (head_ok_view false pfx rem0 Ha Hk). unfold head_ok. now rewrite Em.
    + apply Hbase. apply (head_ok_view false pfx rem0 Ha Hk). unfold head_ok. now rewrite Em.
Qed.

(* ====================================================================== *)
(* H. sorted association lists, drop_lt                                    *)

Lemma sorted_head_le {A} (e0 : bytes * A) t e :
  asc (map fst (e0 :: t)) -> In e (e0 :: t) -> bleb (fst e0) (fst e) = true.
Proof.
  intros H [<-|Hin]; [apply bleb_refl|].
  apply bltb_bleb, blt_bltb. eapply asc_head_lt; eauto. simpl. now apply in_map.
Qed.

Lemma drop_lt_filter {A} x (L : list (bytes * A)) :
  asc (map fst L) -> drop_lt x L = filter (fun e => bleb x (fst e)) L.
Proof.
  induction L as [|e r IH]; intros H; auto.
  simpl drop_lt. destruct (bltb (fst e) x) eqn:E.
  - simpl. assert (bleb x (fst e) = false) as -> by (now apply bleb_false).
    apply IH. simpl in H. eapply asc_tail; eauto.
  - symmetry. apply filter_all. intros e' He'. apply bltb_false in E.
    eapply bleb_trans; eauto. eapply sorted_head_le; eauto.
Qed.

Lemma map_tl {A B} (f : A -> B) l : map f (tl l) = tl (map f l).
Proof. destruct l; reflexivity. Qed.

Lemma nonempty_map {A B} (f : A -> B) l : nonempty (map f l) = nonempty l.
Proof. destruct l; reflexivity. Qed.

Lemma filter_map_fst {A B} (f : A -> B) (g : A -> bytes) (h : B -> bytes) (P : bytes -> bool) l :
  (forall a, h (f a) = g a) ->
  filter (fun b => P (h b)) (map f l) = map f (filter (fun a => P (g a)) l).
Proof.
  intros H. induction l as [|a l IH]; simpl; auto.
  rewrite H. destruct (P (g a)); simpl; now rewrite IH.
Qed.

Lemma vis_filter incl (P : entry -> bool) s : vis incl (filter P s) = filter P (vis incl s).
Proof.
  unfold vis. rewrite !filter_filter. apply filter_ext. intros e. apply andb_comm.
Qed.

Lemma seek_bound_ge start x : bleb (lo_key start) (seek_bound start x) = true.
Proof.
  unfold seek_bound. destruct start as [s|]; simpl; [|apply bleb_nil].
  destruct (bltb x s) eqn:E; [apply bleb_refl|now apply bltb_false].
Qed.

Lemma seek_bound_id start x : bleb (lo_key start) x = true -> seek_bound start x = x.
Proof.
  unfold seek_bound. destruct start as [s|]; simpl; auto.
  intros H. destruct (bltb x s) eqn:E; auto.
  pose proof (bltb_bleb_trans _ _ _ E H) as G. rewrite bltb_irrefl in G. discriminate.
Qed.

Lemma seek_bound_x_le start x : bleb x (seek_bound start x) = true.
Proof.
  unfold seek_bound. destruct start as [s|]; [|apply bleb_refl].
  destruct (bltb x s) eqn:E; [now apply bltb_bleb|apply bleb_refl].
Qed.

(* naiveSeekTo against an abstract view of the iterator *)
Lemma naive_seek_spec {S : Type} (absS : S -> list (bytes * value)) (inv : S -> Prop)
      (curkey : S -> option (option bytes)) (next : S -> S * bool) :
  (forall s, inv s ->
     curkey s = match absS s with [] => None | e :: _ => Some (Some (fst e)) end) ->
  (forall s, inv s -> inv (fst (next s)) /\ absS (fst (next s)) = tl (absS s) /\
                      snd (next s) = nonempty (absS (fst (next s)))) ->
  forall n x s, inv s ->
    inv (fst (naive_seek curkey next n x s)) /\
    match snd (naive_seek curkey next n x s) with
    | NOk => absS (fst (naive_seek curkey next n x s)) = drop_lt x (absS s) /\
             absS (fst (naive_seek curkey next n x s)) <> []
    | NDone => absS (fst (naive_seek curkey next n x s)) = [] /\ drop_lt x (absS s) = []
    | NMax => True
    end.
Proof.
  intros Hcur Hnext. induction n as [|n IH]; intros x s Hs; simpl; auto.
  rewrite (Hcur s Hs). destruct (absS s) as [|e t] eqn:Ea.
  - simpl. rewrite Ea. auto.
  - simpl. destruct (bleb x (fst e)) eqn:E.
    + simpl. rewrite Ea. assert (bltb (fst e) x = false) as -> by (now apply bltb_false).
      split; auto. split; auto. discriminate.
    + apply bleb_false in E. rewrite E.
      destruct (Hnext s Hs) as [N1 [N2 N3]]. rewrite Ea in N2. simpl in N2.
      destruct (next s) as [s' ok]. simpl in *.
      destruct ok.
      * specialize (IH x s' N1). rewrite N2 in IH. exact IH.
      * simpl. split; auto. rewrite N2 in N3. destruct t; [|discriminate].
        rewrite N2. auto.
Qed.

Lemma asc_map_fst_filter {A} (Q : bytes * A -> bool) (L : list (bytes * A)) :
  asc (map fst L) -> asc (map fst (filter Q L)).
Proof.
  induction L as [|a l IH]; simpl; intros G; auto.
  pose proof (asc_tail _ _ G) as Gt. destruct (Q a); auto.
  simpl. apply asc_cons_intro; auto. intros y Hy. apply in_map_iff in Hy.
  destruct Hy as [e [<- He]]. apply filter_In in He.
  eapply asc_head_lt; eauto. apply in_map. tauto.
Qed.

Lemma asc_keys_filter (P : entry -> bool) (s : segment) : asc (keys s) -> asc (keys (filter P s)).
Proof.
  induction s as [|[k o] s IH]; simpl; intros H; auto.
  pose proof (asc_tail _ _ H) as Ht. destruct (P (k, o)); auto.
  simpl. apply asc_cons_intro; auto. intros x Hx.
  eapply asc_head_lt; eauto. unfold keys in *. apply in_map_iff in Hx.
  destruct Hx as [e [<- He]]. apply filter_In in He. apply in_map. tauto.
Qed.

Lemma merge_idx segs ll i k v :
  find (nth i (with_ll segs ll) []) k = Some (OMerge v) -> S i <= length segs.
Proof.
  intros H. destruct (le_lt_dec (S i) (length segs)) as [G|G]; auto. exfalso.
  destruct ll as [l|]; simpl in H.
  - rewrite app_nth2 in H by lia. destruct (i - length segs) as [|[|n]]; simpl in H; try discriminate.
    rewrite find_ll_seg in H. destruct (assoc l k); discriminate.
  - rewrite nth_overflow in H by lia. discriminate.
Qed.

(* ====================================================================== *)
(* I. the heap implementation against the specification                    *)

Section Main.
  Variable fm : bytes -> value -> bytes -> value.

  Definition valf (cfg : config) (e : entry) : bytes * value := (fst e, full_get fm cfg (fst e)).
  Definition eval0 (e : entry) : bytes * value := (fst e, apply_op fm (fst e) None (snd e)).
  Definition cpfx (cfg : config) : nat := prefix_len (c_start cfg) (c_end cfg).
  Definition rng (cfg : config) : bytes -> bool := in_range (c_start cfg) (c_end cfg).

  Definition wf_heap (cfg : config) (rem : list segment) : Prop :=
    exists P, rem = map (filter (kf P)) (all_segs cfg) /\ upclosed (rng cfg) P /\
              hd_vis (c_incl cfg) (view rem).

  Definition absH (cfg : config) (rem : list segment) : list (bytes * value) :=
    map (valf cfg) (vis (c_incl cfg) (view rem)).

  Lemma live_range_alt cfg :
    live_range fm cfg = map (valf cfg) (vis false (filter (kf (rng cfg)) (view (all_segs cfg)))).
  Proof. reflexivity. Qed.

  Lemma valf_keys cfg s : map fst (map (valf cfg) s) = keys s.
  Proof. unfold keys. rewrite map_map. reflexivity. Qed.

  Theorem C09_sorted cfg : asc (map fst (live_range fm cfg)).
  Proof.
    rewrite live_range_alt, valf_keys. unfold vis.
    apply asc_keys_filter, asc_keys_filter, view_asc.
  Qed.

  Lemma live_in_range cfg e : In e (live_range fm cfg) -> rng cfg (fst e) = true.
  Proof.
    rewrite live_range_alt. intros H. apply in_map_iff in H. destruct H as [e0 [<- H]].
    unfold vis in H. apply filter_In in H. destruct H as [H _].
    apply filter_In in H. destruct H as [_ H]. exact H.
  Qed.

  Lemma wf_heap_asc cfg rem : cfg_ok cfg -> wf_heap cfg rem -> all_asc rem.
  Proof. intros Hc [P [-> _]]. now apply all_asc_filter. Qed.

  Lemma wf_heap_keys cfg rem : wf_heap cfg rem -> keys_ok (cpfx cfg) rem.
  Proof.
    intros [P [-> [[H1 _] _]]]. apply keys_ok_range. intros k Hin.
    rewrite all_keys_filter in Hin. apply filter_In in Hin. apply H1. tauto.
  Qed.

  Lemma absH_filter cfg rem P :
    c_incl cfg = false -> rem = map (filter (kf P)) (all_segs cfg) -> upclosed (rng cfg) P ->
    absH cfg rem = filter (fun e => P (fst e)) (live_range fm cfg).
  Proof.
    intros Hi -> [H1 _]. unfold absH. rewrite Hi, live_range_alt, view_filter.
    rewrite (filter_map_fst (valf cfg) fst fst P) by reflexivity.
    f_equal. rewrite !vis_filter. change (fun a : entry => P (fst a)) with (kf P).
    rewrite filter_filter. apply filter_ext. intros e. unfold kf.
    destruct (P (fst e)) eqn:E; [now rewrite (H1 _ E)|now rewrite andb_false_r].
  Qed.

  Lemma heap_next_wf cfg rem : cfg_ok cfg -> wf_heap cfg rem ->
    wf_heap cfg (fst (heap_next (c_incl cfg) (cpfx cfg) rem)) /\
    absH cfg (fst (heap_next (c_incl cfg) (cpfx cfg) rem)) = tl (absH cfg rem) /\
    snd (heap_next (c_incl cfg) (cpfx cfg) rem)
    = nonempty (absH cfg (fst (heap_next (c_incl cfg) (cpfx cfg) rem))).
  Proof.
    intros Hc Hw. pose proof (wf_heap_asc _ _ Hc Hw) as Ha.
    pose proof (wf_heap_keys _ _ Hw) as Hk.
    destruct Hw as [P [HP [Hu Hh]]].
    destruct (heap_next_spec (c_incl cfg) (cpfx cfg) rem Ha Hk Hh) as [b [R1 [R2 [R3 R4]]]].
    assert (Hw' : wf_heap cfg (fst (heap_next (c_incl cfg) (cpfx cfg) rem))).
    { exists (fun k => P k && bltb b k). split; [|split; auto].
      - rewrite R1, HP. unfold gtf. apply map_filter_filter.
      - now apply upclosed_gt. }
    split; auto. split.
    - unfold absH. rewrite R2. apply map_tl.
    - rewrite R3. unfold absH. rewrite nonempty_map. symmetry.
      apply (vis_view_nonempty _ (cpfx cfg)); auto.
      + eapply wf_heap_asc; eauto.
      + now apply wf_heap_keys.
  Qed.

  Lemma heap_min_abs cfg rem i k o : cfg_ok cfg -> wf_heap cfg rem ->
    min_cursor (cpfx cfg) rem = Some (i, (k, o)) ->
    absH cfg rem = (k, full_get fm cfg k) :: absH cfg (map (gtf k) rem) /\
    (c_incl cfg = false -> o <> ODel).
  Proof.
    intros Hc Hw Hm. pose proof (wf_heap_asc _ _ Hc Hw) as Ha.
    pose proof (wf_heap_keys _ _ Hw) as Hk. destruct Hw as [P [HP [Hu Hh]]].
    rewrite (view_min _ _ _ _ _ Ha Hk Hm) in Hh. unfold absH.
    rewrite (view_min _ _ _ _ _ Ha Hk Hm). rewrite (hd_vis_cons _ _ _ _ Hh). split; auto.
    intros Hi ->. simpl in Hh. congruence.
  Qed.

  Lemma heap_none_abs cfg rem : min_cursor (cpfx cfg) rem = None -> absH cfg rem = [].
  Proof.
    intros Hm. apply min_none_total in Hm. unfold absH. now rewrite (total_zero_view _ Hm).
  Qed.

  Lemma heap_current_spec cfg rem : cfg_ok cfg -> wf_heap cfg rem -> c_incl cfg = false ->
    heap_current fm cfg (cpfx cfg) rem = spec_current (absH cfg rem).
  Proof.
    intros Hc Hw Hi. unfold heap_current.
    destruct (min_cursor (cpfx cfg) rem) as [[i [k o]]|] eqn:Hm.
    - destruct (heap_min_abs _ _ _ _ _ Hc Hw Hm) as [-> Ho]. specialize (Ho Hi). simpl.
      pose proof (wf_heap_asc _ _ Hc Hw) as Ha. pose proof (wf_heap_keys _ _ Hw) as Hk.
      destruct (min_cursor_spec _ _ _ _ _ Ha Hk Hm) as [[t A] [_ C]].
      destruct Hw as [P [HP _]].
      assert (Hn : forall j, nth j rem [] = filter (kf P) (nth j (all_segs cfg) [])).
      { intros j. rewrite HP. apply (map_nth (filter (kf P)) (all_segs cfg) [] j). }
      assert (HPk : P k = true).
      { assert (G : In (k, o) (nth i rem [])) by (rewrite A; simpl; auto).
        rewrite Hn in G. apply filter_In in G. tauto. }
      assert (Hf : forall j, find (nth j rem []) k = find (nth j (all_segs cfg) []) k).
      { intros j. rewrite Hn. unfold kf. rewrite find_filter. now rewrite HPk. }
      assert (Hfull : full_get fm cfg k
                      = apply_op fm k (sget fm (skipn (S i) (all_segs cfg)) no_below k) o).
      { rewrite full_get_bridge. apply sget_nth.
        - intros j Hj. rewrite <- Hf. now apply C.
        - rewrite <- Hf, A. simpl. now rewrite beqb_refl. }
      destruct o as [v| |v]; [|congruence|].
      + cbn [apply_op] in Hfull. cbn [entry_result]. now rewrite Hfull.
      + cbn [apply_op] in Hfull. cbn [entry_result]. rewrite Hfull. f_equal. f_equal.
        symmetry. unfold all_segs. apply older_bridge.
        apply (merge_idx (c_segs cfg) (c_ll cfg) i k v). fold (all_segs cfg).
        rewrite <- Hf, A. simpl. now rewrite beqb_refl.
    - now rewrite (heap_none_abs _ _ Hm).
  Qed.

  Lemma in_range_some_split start end_ x k :
    bleb (lo_key start) x = true ->
    in_range (Some x) end_ k = in_range start end_ k && bleb x k.
  Proof.
    intros H. unfold in_range. simpl lo_key at 1.
    destruct (bleb x k) eqn:E.
    - rewrite (bleb_trans _ _ _ H E). simpl. now rewrite andb_true_r.
    - simpl. now rewrite andb_false_r.
  Qed.

  Lemma heap_start_wf cfg : cfg_ok cfg ->
    wf_heap cfg (heap_start cfg (c_start cfg)) /\
    vis (c_incl cfg) (view (heap_start cfg (c_start cfg)))
    = vis (c_incl cfg) (filter (kf (rng cfg)) (view (all_segs cfg))).
  Proof.
    intros Hc. destruct (heap_start_spec cfg (c_start cfg) Hc) as [P [E1 [Hu [Hh Hv]]]].
    split; auto. exists P. auto.
  Qed.

  Lemma heap_restart_spec cfg x' : cfg_ok cfg -> c_incl cfg = false ->
    bleb (lo_key (c_start cfg)) x' = true ->
    wf_heap cfg (heap_start cfg (Some x')) /\
    absH cfg (heap_start cfg (Some x')) = drop_lt x' (live_range fm cfg) /\
    negb (Nat.eqb (total (heap_start cfg (Some x'))) 0)
    = nonempty (absH cfg (heap_start cfg (Some x'))).
  Proof.
    intros Hc Hi Hx. destruct (heap_start_spec cfg (Some x') Hc) as [P [E1 [Hu [Hh Hv]]]].
    assert (Hw : wf_heap cfg (heap_start cfg (Some x'))).
    { exists P. split; auto. split; auto. eapply upclosed_restart; eauto. }
    split; auto. split.
    - unfold absH. rewrite Hv, Hi.
      rewrite (drop_lt_filter x' _ (C09_sorted cfg)), live_range_alt.
      rewrite (filter_map_fst (valf cfg) fst fst (bleb x')) by reflexivity.
      f_equal. change (fun a : entry => bleb x' (fst a)) with (kf (bleb x')).
      rewrite <- vis_filter. f_equal. rewrite filter_filter. apply filter_ext.
      intros e. unfold kf. now apply in_range_some_split.
    - unfold absH. rewrite nonempty_map. symmetry.
      apply (vis_view_nonempty _ (cpfx cfg)).
      + eapply wf_heap_asc; eauto.
      + now apply wf_heap_keys.
      + destruct Hw as [Q [_ [_ G]]]. exact G.
  Qed.

  Lemma heap_curkey cfg rem : cfg_ok cfg -> c_incl cfg = false -> wf_heap cfg rem ->
    option_map entry_key (heap_current_ex (cpfx cfg) rem)
    = match absH cfg rem with [] => None | e :: _ => Some (Some (fst e)) end.
  Proof.
    intros Hc Hi Hw. unfold heap_current_ex.
    destruct (min_cursor (cpfx cfg) rem) as [[i [k o]]|] eqn:Hm.
    - destruct (heap_min_abs _ _ _ _ _ Hc Hw Hm) as [-> Ho]. specialize (Ho Hi).
      simpl. destruct o; congruence.
    - now rewrite (heap_none_abs _ _ Hm).
  Qed.

  (* a suffix selected by an upward-closed predicate, dropped further *)
  Lemma drop_lt_upclosed cfg P x k t :
    upclosed (rng cfg) P ->
    filter (fun e => P (fst e)) (live_range fm cfg) = k :: t ->
    bleb (fst k) x = true ->
    drop_lt x (filter (fun e => P (fst e)) (live_range fm cfg)) = drop_lt x (live_range fm cfg).
  Proof.
    intros [H1 H2] Hf Hkx.
    assert (HPk : P (fst k) = true).
    { assert (G : In k (filter (fun e => P (fst e)) (live_range fm cfg))) by (rewrite Hf; simpl; auto).
      apply filter_In in G. tauto. }
    rewrite (drop_lt_filter x (live_range fm cfg) (C09_sorted cfg)).
    rewrite drop_lt_filter by (apply asc_map_fst_filter, C09_sorted).
    rewrite filter_filter. apply filter_ext_in. intros e He.
    destruct (bleb x (fst e)) eqn:E; [|now rewrite andb_false_r].
    rewrite andb_true_r. apply (H2 (fst k)); auto.
    + eapply bleb_trans; eauto.
    + now apply live_in_range.
  Qed.

  Lemma drop_lt_head {A} (k : bytes) (v : A) t : drop_lt k ((k, v) :: t) = (k, v) :: t.
  Proof. simpl. now rewrite bltb_irrefl. Qed.

  Lemma heap_seek_spec cfg x rem : cfg_ok cfg -> c_incl cfg = false -> wf_heap cfg rem ->
    wf_heap cfg (fst (heap_seek cfg (cpfx cfg) x rem)) /\
    absH cfg (fst (heap_seek cfg (cpfx cfg) x rem))
    = drop_lt (seek_bound (c_start cfg) x) (live_range fm cfg) /\
    snd (heap_seek cfg (cpfx cfg) x rem) = nonempty (absH cfg (fst (heap_seek cfg (cpfx cfg) x rem))).
  Proof.
    intros Hc Hi Hw.
    pose proof (heap_restart_spec cfg (seek_bound (c_start cfg) x) Hc Hi (seek_bound_ge _ _)) as Hrs.
    unfold seek_bound in Hrs at 1 2 4 5.
    remember (heap_seek cfg (cpfx cfg) x rem) as R eqn:ER.
    unfold heap_seek in ER. cbv zeta in ER.
    destruct (min_cursor (cpfx cfg) rem) as [[i [k o]]|] eqn:Hm.
    2:{ assert (Hce : heap_current_ex (cpfx cfg) rem = None) by (unfold heap_current_ex; now rewrite Hm).
        rewrite Hce in ER. subst R. cbn [fst snd]. exact Hrs. }
    assert (Hce : heap_current_ex (cpfx cfg) rem = Some (k, o)) by (unfold heap_current_ex; now rewrite Hm).
    rewrite Hce in ER.
    destruct (heap_min_abs _ _ _ _ _ Hc Hw Hm) as [Habs Ho]. specialize (Ho Hi).
    assert (Hek : entry_key (k, o) = Some k) by (destruct o; simpl; congruence).
    rewrite Hek in ER.
    destruct Hw as [P [HP [Hu Hh]]].
    pose proof (absH_filter cfg rem P Hi HP Hu) as Hf.
    assert (Hw : wf_heap cfg rem) by (exists P; auto).
    assert (Hlo : bleb (lo_key (c_start cfg)) k = true).
    { assert (G : In (k, full_get fm cfg k) (live_range fm cfg)).
      { assert (G : In (k, full_get fm cfg k) (absH cfg rem)) by (rewrite Habs; simpl; auto).
        rewrite Hf in G. apply filter_In in G. tauto. }
      apply live_in_range in G. unfold rng, in_range in G. apply andb_true_iff in G. tauto. }
    destruct (bcmp x k) eqn:Ec.
    - apply bcmp_eq in Ec. subst x. subst R. cbn [fst snd]. split; auto. split.
      + rewrite (seek_bound_id _ _ Hlo).
        rewrite <- (drop_lt_upclosed cfg P k (k, full_get fm cfg k) (absH cfg (map (gtf k) rem)) Hu).
        * rewrite <- Hf, Habs. now rewrite drop_lt_head.
        * now rewrite <- Hf.
        * apply bleb_refl.
      + now rewrite Habs.
    - subst R. cbn [fst snd]. exact Hrs.
    - assert (Hkx : bleb k x = true).
      { apply bltb_bleb. apply bltb_true. now apply bcmp_gt_lt. }
      assert (Hsb : seek_bound (c_start cfg) x = x).
      { apply seek_bound_id. eapply bleb_trans; eauto. }
      pose proof (naive_seek_spec (absH cfg) (wf_heap cfg)
                    (fun r => option_map entry_key (heap_current_ex (cpfx cfg) r))
                    (heap_next (c_incl cfg) (cpfx cfg))
                    (fun s Hs => heap_curkey cfg s Hc Hi Hs)
                    (fun s Hs => heap_next_wf cfg s Hc Hs)
                    (naive_fuel (c_tries cfg) (total rem)) x rem Hw) as Hn.
      destruct (naive_seek (fun r => option_map entry_key (heap_current_ex (cpfx cfg) r))
                           (heap_next (c_incl cfg) (cpfx cfg))
                           (naive_fuel (c_tries cfg) (total rem)) x rem) as [r res].
      cbn [fst snd] in Hn. destruct Hn as [Hwr Hres].
      assert (Hd : drop_lt x (absH cfg rem) = drop_lt x (live_range fm cfg)).
      { rewrite Hf. eapply (drop_lt_upclosed cfg P x); eauto.
        - rewrite <- Hf. exact Habs.
        - exact Hkx. }
      destruct res; subst R; cbn [fst snd].
      + destruct Hres as [R1 R2]. split; auto. rewrite Hsb, <- Hd. split; auto.
        destruct (absH cfg r); [congruence|reflexivity].
      + destruct Hres as [R1 R2]. split; auto. rewrite Hsb, <- Hd, R1, R2. auto.
      + exact Hrs.
  Qed.

  (* ==================================================================== *)
  (* J. iteratorSingle                                                     *)

  Lemma skipn_S_tl {A} n (l : list A) : skipn (S n) l = tl (skipn n l).
  Proof.
    revert l. induction n as [|n IH]; intros [|a l]; auto.
    change (skipn (S (S n)) (a :: l)) with (skipn (S n) l).
    change (skipn (S n) (a :: l)) with (skipn n l). apply IH.
  Qed.

  Lemma window_next {A} e n (l : list A) :
    firstn (e - S n) (skipn (S n) l) = tl (firstn (e - n) (skipn n l)).
  Proof.
    rewrite skipn_S_tl. destruct (le_lt_dec e n) as [G|G].
    - replace (e - S n) with 0 by lia. replace (e - n) with 0 by lia. reflexivity.
    - replace (e - n) with (S (e - S n)) by lia. destruct (skipn n l); simpl; auto.
      now rewrite firstn_nil.
  Qed.

  Lemma window_nonempty {A} e n (l : list A) : e <= length l ->
    nonempty (firstn (e - n) (skipn n l)) = negb (e <=? n).
  Proof.
    intros He. destruct (le_lt_dec e n) as [G|G].
    - replace (e - n) with 0 by lia. simpl. symmetry. apply negb_false_iff. now apply Nat.leb_le.
    - assert (E : (e <=? n) = false) by (apply Nat.leb_gt; lia). rewrite E. simpl.
      assert (L : length (skipn n l) > 0) by (rewrite skipn_length; lia).
      destruct (skipn n l); simpl in L; [lia|].
      replace (e - n) with (S (e - S n)) by lia. reflexivity.
  Qed.

  Lemma hd_skipn {A} n (l : list A) : hd_error (skipn n l) = nth_error l n.
  Proof. revert l. induction n as [|n IH]; intros [|a l]; simpl; auto. Qed.

  Lemma window_hd {A} e n (l : list A) :
    hd_error (firstn (e - n) (skipn n l)) = if n <? e then nth_error l n else None.
  Proof.
    destruct (n <? e) eqn:E.
    - apply Nat.ltb_lt in E. replace (e - n) with (S (e - S n)) by lia.
      rewrite <- hd_skipn. destruct (skipn n l); reflexivity.
    - apply Nat.ltb_ge in E. replace (e - n) with 0 by lia. reflexivity.
  Qed.

  Definition pos_ok (c : scursor) : Prop :=
    sc_start c <= sc_curr c /\ sc_end c <= length (sc_seg c).

  Definition same_frame (c c' : scursor) : Prop :=
    sc_seg c' = sc_seg c /\ sc_start c' = sc_start c /\ sc_end c' = sc_end c.

  Lemma same_frame_refl c : same_frame c c.
  Proof. repeat split. Qed.

  Lemma same_frame_trans a b c : same_frame a b -> same_frame b c -> same_frame a c.
  Proof. unfold same_frame. intuition congruence. Qed.

  Lemma sc_rest_eq c : pos_ok c ->
    sc_rest c = firstn (sc_end c - sc_curr c) (skipn (sc_curr c) (sc_seg c)).
  Proof.
    intros [H _]. unfold sc_rest. apply Nat.leb_le in H. now rewrite H.
  Qed.

  Lemma sc_current_rest c : pos_ok c -> sc_current c = hd_error (sc_rest c).
  Proof.
    intros H. rewrite (sc_rest_eq c H), window_hd. destruct H as [H _].
    unfold sc_current. apply Nat.leb_le in H. now rewrite H.
  Qed.

  Lemma sc_next_spec c : pos_ok c ->
    pos_ok (fst (sc_next c)) /\ same_frame c (fst (sc_next c)) /\
    sc_rest (fst (sc_next c)) = tl (sc_rest c) /\
    snd (sc_next c) = nonempty (sc_rest (fst (sc_next c))) /\
    sc_curr (fst (sc_next c)) = S (sc_curr c).
  Proof.
    intros H. assert (H' : pos_ok (fst (sc_next c))).
    { destruct H as [H1 H2]. split; simpl; auto. }
    split; auto. split; [repeat split|].
    rewrite (sc_rest_eq _ H'), (sc_rest_eq _ H).
    unfold sc_next. cbn [fst snd sc_seg sc_start sc_end sc_curr]. split; [|split; auto].
    - apply window_next.
    - rewrite window_nonempty; auto. destruct H; auto.
  Qed.

  Lemma vis_tl_hd incl (s : segment) : hd_vis incl s -> vis incl (tl s) = tl (vis incl s).
  Proof.
    destruct s as [|[k o] s]; auto. intros H. pose proof (hd_vis_cons _ _ _ _ H) as E.
    change (vis incl (tl ((k, o) :: s))) with (tl ((k, o) :: vis incl s)).
    f_equal. symmetry. exact E.
  Qed.

  Definition snx_post (incl : bool) (c : scursor) (r : scursor * option entry * bool) : Prop :=
    pos_ok (fst (fst r)) /\ same_frame c (fst (fst r)) /\
    snd (fst r) = hd_error (sc_rest (fst (fst r))) /\
    hd_vis incl (sc_rest (fst (fst r))) /\
    vis incl (sc_rest (fst (fst r))) = vis incl (tl (sc_rest c)) /\
    snd r = nonempty (sc_rest (fst (fst r))) /\
    exists pre, sc_rest c = pre ++ sc_rest (fst (fst r)).

  Lemma single_next_aux_spec incl : forall fuel c,
    pos_ok c -> sc_end c - sc_curr c <= fuel ->
    snx_post incl c (single_next_aux incl fuel c).
  Proof.
    induction fuel as [|f IH]; intros c Hp Hf;
      destruct (sc_next_spec c Hp) as [N1 [N2 [N3 [N4 N5]]]];
      pose proof (sc_current_rest _ N1) as Hcur;
      cbn [single_next_aux];
      change (sc_next c) with (fst (sc_next c), snd (sc_next c));
      set (c' := fst (sc_next c)) in *; cbv iota; rewrite N4, Hcur;
      (assert (Hpre : exists pre, sc_rest c = pre ++ sc_rest c')
        by (rewrite N3; destruct (sc_rest c) as [|e t]; [exists []|exists [e]]; reflexivity));
      destruct (sc_rest c') as [|[k o] t] eqn:Er; cbn [nonempty hd_error].
    - unfold snx_post. cbn [fst snd]. rewrite <- N3, !Er.
      split; [exact N1|split; [exact N2|]]. repeat split; auto.
    - exfalso. rewrite (sc_rest_eq _ N1) in Er. rewrite N5 in Er.
      destruct N2 as [_ [_ E]]. rewrite E in Er.
      replace (sc_end c - S (sc_curr c)) with 0 in Er by lia. discriminate.
    - unfold snx_post. cbn [fst snd]. rewrite <- N3, !Er.
      split; [exact N1|split; [exact N2|]]. repeat split; auto.
    - assert (Hgen : o <> ODel \/ incl = true -> snx_post incl c (c', Some (k, o), true)).
      { intros Ho. unfold snx_post. cbn [fst snd]. rewrite <- N3, !Er.
        split; [exact N1|split; [exact N2|]]. repeat split; auto.
        simpl. destruct o; auto. destruct Ho; congruence. }
      destruct o as [v| |v]; try (apply Hgen; left; discriminate).
      destruct incl eqn:Ei; [apply Hgen; auto|].
      assert (Hf' : sc_end c' - sc_curr c' <= f).
      { destruct N2 as [_ [_ E]]. rewrite E, N5. lia. }
      destruct (IH c' N1 Hf') as [A1 [A2 [A3 [A4 [A5 [A6 [pre2 A7]]]]]]].
      unfold snx_post.
      split; [exact A1|split; [exact (same_frame_trans c c' _ N2 A2)|]]. repeat split; auto.
      + rewrite A5, <- N3, Er. reflexivity.
      + destruct Hpre as [pre1 Hpre]. exists (pre1 ++ pre2). rewrite Hpre.
        rewrite <- app_assoc. f_equal. rewrite <- A7. symmetry. exact Er.
  Qed.

  Definition frame_ok (cfg : config) (seg : segment) (c : scursor) : Prop :=
    sc_seg c = seg /\ asc (keys seg) /\
    sc_start c = lower_bound seg (lo_key (c_start cfg)) /\
    sc_end c = match c_end cfg with Some e => lower_bound seg e | None => length seg end.

  Definition wf_single (cfg : config) (seg : segment) (c : scursor) (cur : option entry) : Prop :=
    frame_ok cfg seg c /\ sc_start c <= sc_curr c /\
    cur = hd_error (sc_rest c) /\ hd_vis (c_incl cfg) (sc_rest c) /\
    exists P, upclosed (rng cfg) P /\ sc_rest c = filter (kf P) seg.

  Definition absS (cfg : config) (c : scursor) : list (bytes * value) :=
    map eval0 (vis (c_incl cfg) (sc_rest c)).

  (* what a single segment (or the lower level alone) shows inside the bounds *)
  Definition SL (cfg : config) (seg : segment) : list (bytes * value) :=
    map eval0 (vis false (filter (kf (rng cfg)) seg)).

  Lemma frame_pos_ok cfg seg c : frame_ok cfg seg c -> sc_start c <= sc_curr c -> pos_ok c.
  Proof.
    intros [E1 [_ [_ E3]]] H. split; auto. rewrite E3, E1.
    destruct (c_end cfg); [apply lb_le_length|lia].
  Qed.

  Lemma frame_ok_same cfg seg c c' : frame_ok cfg seg c -> same_frame c c' -> frame_ok cfg seg c'.
  Proof.
    intros [E1 [E2 [E3 E4]]] [F1 [F2 F3]]. unfold frame_ok. rewrite F1, F2, F3. auto.
  Qed.

  Lemma asc_app_lt (pre : segment) e t a :
    asc (keys (pre ++ e :: t)) -> In a pre -> bltb (fst a) (fst e) = true.
  Proof.
    induction pre as [|b pre IH]; intros H Hin; [destruct Hin|].
    destruct Hin as [->|Hin].
    - apply blt_bltb. simpl in H. eapply asc_head_lt; eauto.
      unfold keys. rewrite map_app. apply in_or_app. right. simpl. auto.
    - apply IH; auto. simpl in H. eapply asc_tail; eauto.
  Qed.

  Lemma suffix_upclosed R seg P pre suf :
    asc (keys seg) -> filter (kf P) seg = pre ++ suf -> upclosed R P ->
    exists P', upclosed R P' /\ suf = filter (kf P') seg.
  Proof.
    intros Ha Hf [H1 H2].
    set (Q := fun k => match suf with [] => false | e :: _ => bleb (fst e) k end).
    exists (fun k => P k && Q k). split.
    - split.
      + intros k H. apply andb_true_iff in H. apply H1. tauto.
      + intros k k' H Hle HR. apply andb_true_iff in H. destruct H as [HP HQ].
        apply andb_true_iff. split; [eapply H2; eauto|].
        unfold Q in *. destruct suf; auto. eapply bleb_trans; eauto.
    - assert (Hasc : asc (keys (pre ++ suf))).
      { rewrite <- Hf. now apply asc_keys_filter. }
      assert (E : filter (kf (fun k => P k && Q k)) seg = filter (kf Q) (filter (kf P) seg)).
      { unfold kf. now rewrite filter_filter. }
      rewrite E, Hf, filter_app. unfold Q. destruct suf as [|e t].
      + rewrite !filter_none; auto.
      + rewrite filter_none, filter_all; auto.
        * intros a Ha'. unfold kf. eapply sorted_head_le; eauto.
          assert (G : asc (keys (e :: t))).
          { clear - Hasc. induction pre; auto. apply IHpre. simpl in Hasc. eapply asc_tail; eauto. }
          exact G.
        * intros a Ha'. unfold kf. apply bleb_false. eapply asc_app_lt; eauto.
  Qed.

  Lemma hd_vis_nonempty incl (s : segment) : hd_vis incl s -> nonempty (vis incl s) = nonempty s.
  Proof.
    destruct s as [|[k o] s]; auto. intros H. unfold vis. simpl.
    destruct o; simpl in *; subst; rewrite ?orb_true_r; auto.
  Qed.

  Lemma single_next_spec cfg seg c cur : wf_single cfg seg c cur ->
    let r := single_next (c_incl cfg) c in
    wf_single cfg seg (fst (fst r)) (snd (fst r)) /\
    absS cfg (fst (fst r)) = tl (absS cfg c) /\
    snd r = nonempty (absS cfg (fst (fst r))).
  Proof.
    intros [Hfr [Hpos [Hcur [Hh [P [Hu HP]]]]]]. cbv zeta.
    pose proof (frame_pos_ok _ _ _ Hfr Hpos) as Hp.
    destruct (single_next_aux_spec (c_incl cfg) (sc_end c - sc_curr c) c Hp (le_n _))
      as [A1 [A2 [A3 [A4 [A5 [A6 [pre A7]]]]]]].
    fold (single_next (c_incl cfg) c) in *.
    set (r := single_next (c_incl cfg) c) in *.
    split; [|split].
    - split; [eapply frame_ok_same; eauto|]. split; [apply A1|]. split; auto. split; auto.
      destruct Hfr as [_ [Hasc _]].
      eapply (suffix_upclosed (rng cfg) seg P pre); eauto. now rewrite <- HP.
    - unfold absS. rewrite A5. rewrite (vis_tl_hd _ _ Hh). apply map_tl.
    - rewrite A6. unfold absS. rewrite nonempty_map. symmetry. now apply hd_vis_nonempty.
  Qed.

  Lemma single_current_spec cfg seg c cur : wf_single cfg seg c cur -> c_incl cfg = false ->
    match cur with None => RDone | Some e => entry_result fm (fun _ => None) e end
    = spec_current (absS cfg c).
  Proof.
    intros [_ [_ [Hcur [Hh _]]]] Hi. unfold absS. rewrite Hi in *. subst cur.
    destruct (sc_rest c) as [|[k o] t]; auto.
    pose proof (hd_vis_cons _ _ _ _ Hh) as E.
    change (vis false ((k, o) :: t)) with (vis false (@cons (bytes * op) (k, o) t)).
    rewrite E. simpl. destruct o; simpl in *; auto. discriminate.
  Qed.

  Lemma seek_pos seg start x :
    (if lower_bound seg x <? lower_bound seg (lo_key start)
     then lower_bound seg (lo_key start) else lower_bound seg x)
    = lower_bound seg (seek_bound start x).
  Proof.
    unfold seek_bound. destruct start as [s|]; simpl.
    - destruct (bltb x s) eqn:E.
      + pose proof (lb_mono seg x s (bltb_bleb _ _ E)) as G.
        destruct (lower_bound seg x <? lower_bound seg s) eqn:F; auto.
        apply Nat.ltb_ge in F. lia.
      + apply bltb_false in E. pose proof (lb_mono seg s x E) as G.
        destruct (lower_bound seg x <? lower_bound seg s) eqn:F; auto.
        apply Nat.ltb_lt in F. lia.
    - assert (E : lower_bound seg [] = 0).
      { destruct seg as [|[k o] r]; auto. simpl. destruct k; reflexivity. }
      rewrite E. reflexivity.
  Qed.

  Lemma upclosed_lo cfg x' : upclosed (rng cfg) (fun k => rng cfg k && bleb x' k).
  Proof.
    split.
    - intros k H. apply andb_true_iff in H. tauto.
    - intros k k' H Hle HR. apply andb_true_iff in H. rewrite HR. simpl.
      eapply bleb_trans; eauto. tauto.
  Qed.

  Lemma sc_seek_spec cfg seg c x : frame_ok cfg seg c ->
    let c' := fst (sc_seek x c) in
    let x' := seek_bound (c_start cfg) x in
    frame_ok cfg seg c' /\ sc_start c' <= sc_curr c' /\
    sc_rest c' = filter (kf (fun k => rng cfg k && bleb x' k)) seg /\
    snd (sc_seek x c) = nonempty (sc_rest c').
  Proof.
    intros Hfr. pose proof Hfr as [E1 [Ha [E2 E3]]]. cbv zeta.
    assert (Hcurr : sc_curr (fst (sc_seek x c)) = lower_bound seg (seek_bound (c_start cfg) x)).
    { unfold sc_seek. cbn [fst sc_curr]. rewrite E1, E2. apply seek_pos. }
    assert (Hfr' : frame_ok cfg seg (fst (sc_seek x c))).
    { eapply frame_ok_same; eauto. repeat split. }
    assert (Hpos : sc_start (fst (sc_seek x c)) <= sc_curr (fst (sc_seek x c))).
    { rewrite Hcurr. change (sc_start (fst (sc_seek x c))) with (sc_start c). rewrite E2.
      apply lb_mono. apply seek_bound_ge. }
    pose proof (frame_pos_ok _ _ _ Hfr' Hpos) as Hp.
    split; auto. split; auto.
    assert (Hrest : sc_rest (fst (sc_seek x c))
                    = slice (Some (seek_bound (c_start cfg) x)) (c_end cfg) seg).
    { rewrite (sc_rest_eq _ Hp), Hcurr.
      change (sc_end (fst (sc_seek x c))) with (sc_end c).
      change (sc_seg (fst (sc_seek x c))) with (sc_seg c). rewrite E1, E3.
      unfold slice, sc_rest, seg_cursor. cbn [sc_start sc_curr sc_end sc_seg lo_key].
      now rewrite Nat.leb_refl. }
    split.
    - rewrite Hrest, slice_filter; auto. apply filter_ext. intros e. unfold kf.
      apply in_range_some_split. apply seek_bound_ge.
    - rewrite (sc_rest_eq _ Hp). unfold sc_seek. cbn [fst snd sc_end sc_curr sc_seg].
      rewrite window_nonempty; auto. destruct Hp as [_ Hp]. exact Hp.
  Qed.

  Lemma SL_sorted cfg seg : asc (keys seg) -> asc (map fst (SL cfg seg)).
  Proof.
    intros H. unfold SL. rewrite map_map. simpl. change (map (fun x : entry => fst x)) with keys.
    unfold vis. now apply asc_keys_filter, asc_keys_filter.
  Qed.

  Lemma SL_in_range cfg seg e : In e (SL cfg seg) -> rng cfg (fst e) = true.
  Proof.
    unfold SL. intros H. apply in_map_iff in H. destruct H as [e0 [<- H]].
    unfold vis in H. apply filter_In in H. destruct H as [H _].
    apply filter_In in H. destruct H as [_ H]. exact H.
  Qed.

  Lemma SL_drop cfg seg x' : asc (keys seg) ->
    drop_lt x' (SL cfg seg)
    = map eval0 (vis false (filter (kf (fun k => rng cfg k && bleb x' k)) seg)).
  Proof.
    intros Ha. rewrite (drop_lt_filter x' _ (SL_sorted cfg seg Ha)). unfold SL.
    rewrite (filter_map_fst eval0 fst fst (bleb x')) by reflexivity.
    f_equal. change (fun a : entry => bleb x' (fst a)) with (kf (bleb x')).
    rewrite <- vis_filter. f_equal. unfold kf. now rewrite filter_filter.
  Qed.

  Lemma absS_filter cfg seg c P : c_incl cfg = false ->
    upclosed (rng cfg) P -> sc_rest c = filter (kf P) seg ->
    absS cfg c = filter (fun e => P (fst e)) (SL cfg seg).
  Proof.
    intros Hi [H1 _] HP. unfold absS, SL. rewrite Hi, HP.
    rewrite (filter_map_fst eval0 fst fst P) by reflexivity.
    f_equal. rewrite !vis_filter. change (fun a : entry => P (fst a)) with (kf P).
    rewrite filter_filter. apply filter_ext. intros e. unfold kf.
    destruct (P (fst e)) eqn:E; [now rewrite (H1 _ E)|now rewrite andb_false_r].
  Qed.

  Lemma drop_lt_upclosed_gen R P (L : list (bytes * value)) x k t :
    asc (map fst L) -> (forall e, In e L -> R (fst e) = true) -> upclosed R P ->
    filter (fun e => P (fst e)) L = k :: t -> bleb (fst k) x = true ->
    drop_lt x (filter (fun e => P (fst e)) L) = drop_lt x L.
  Proof.
    intros Hs HR [H1 H2] Hf Hkx.
    assert (HPk : P (fst k) = true).
    { assert (G : In k (filter (fun e => P (fst e)) L)) by (rewrite Hf; simpl; auto).
      apply filter_In in G. tauto. }
    rewrite (drop_lt_filter x L Hs).
    rewrite drop_lt_filter by (now apply asc_map_fst_filter).
    rewrite filter_filter. apply filter_ext_in. intros e He.
    destruct (bleb x (fst e)) eqn:E; [|now rewrite andb_false_r].
    rewrite andb_true_r. apply (H2 (fst k)); auto. eapply bleb_trans; eauto.
  Qed.

  Definition single_fall (cfg : config) (x : bytes) (c : scursor) : scursor * option entry * bool :=
    let incl := c_incl cfg in
    let (c', ok) := sc_seek x c in
    if ok then
      match sc_current c' with
      | Some (k, ODel) => if incl then (c', Some (k, ODel), true) else single_next incl c'
      | o => (c', o, true)
      end
    else (c', None, false).

  Definition snaive (cfg : config) (x : bytes) (c : scursor) (cur : option entry) :=
    naive_seek (fun s : scursor * option entry => option_map entry_key (snd s))
               (fun s => let '(c', cur', ok) := single_next (c_incl cfg) (fst s) in ((c', cur'), ok))
               (naive_fuel (c_tries cfg) (sc_end c - sc_curr c)) x (c, cur).

  Lemma single_seek_unfold cfg x c cur :
    single_seek cfg x c cur =
    match match cur with Some e => entry_key e | None => None end with
    | Some k =>
        match bcmp x k with
        | Eq => (c, cur, true)
        | Gt => match snaive cfg x c cur with
                | (s, NOk) => (fst s, snd s, true)
                | (s, NDone) => (fst s, snd s, false)
                | (s, NMax) => single_fall cfg x (fst s)
                end
        | Lt => single_fall cfg x c
        end
    | None => single_fall cfg x c
    end.
  Proof. reflexivity. Qed.

  Definition seek_post (cfg : config) (seg : segment) (x : bytes)
             (r : scursor * option entry * bool) : Prop :=
    wf_single cfg seg (fst (fst r)) (snd (fst r)) /\
    absS cfg (fst (fst r)) = drop_lt (seek_bound (c_start cfg) x) (SL cfg seg) /\
    snd r = nonempty (absS cfg (fst (fst r))).

  Lemma single_fall_spec cfg seg c x : frame_ok cfg seg c -> c_incl cfg = false ->
    seek_post cfg seg x (single_fall cfg x c).
  Proof.
    intros Hfr Hi. destruct (sc_seek_spec cfg seg c x Hfr) as [F1 [F2 [F3 F4]]].
    pose proof (frame_pos_ok _ _ _ F1 F2) as Hp.
    pose proof (sc_current_rest _ Hp) as Hcur.
    pose proof Hfr as [_ [Ha _]].
    unfold single_fall. cbv zeta. rewrite Hi.
    change (sc_seek x c) with (fst (sc_seek x c), snd (sc_seek x c)).
    set (c' := fst (sc_seek x c)) in *. cbv iota. rewrite F4, Hcur.
    set (x' := seek_bound (c_start cfg) x) in *.
    set (P0 := fun k => rng cfg k && bleb x' k) in *.
    assert (Hgen : forall o, hd_error (sc_rest c') = o -> hd_vis false (sc_rest c') ->
              seek_post cfg seg x (c', o, nonempty (sc_rest c'))).
    { intros o Ho Hh. unfold seek_post. cbn [fst snd]. split; [|split].
      - split; auto. split; auto. split; auto. rewrite Hi. split; auto.
        exists P0. split; auto. apply upclosed_lo.
      - unfold absS. rewrite Hi, F3. symmetry. now apply SL_drop.
      - unfold absS. rewrite Hi, nonempty_map. symmetry. now apply hd_vis_nonempty. }
    destruct (sc_rest c') as [|[k o] t] eqn:Er.
    - cbn [nonempty]. apply (Hgen None); simpl; auto.
    - cbn [nonempty hd_error].
      destruct o as [v| |v]; try (apply (Hgen (Some _)); simpl; auto; fail).
      (* landed on a deletion: Next *)
      destruct (single_next_aux_spec false (sc_end c' - sc_curr c') c' Hp (le_n _))
        as [A1 [A2 [A3 [A4 [A5 [A6 [pre A7]]]]]]].
      fold (single_next false c') in *. set (r := single_next false c') in *.
      unfold seek_post. split; [|split].
      + split; [eapply frame_ok_same; eauto|]. split; [apply A1|]. split; auto.
        rewrite Hi. split; auto.
        eapply (suffix_upclosed (rng cfg) seg P0 pre); eauto.
        * rewrite <- F3, <- Er. exact A7.
        * apply upclosed_lo.
      + unfold absS. rewrite Hi, A5, Er. cbn [tl].
        rewrite SL_drop by exact Ha.
        change (fun k0 => rng cfg k0 && bleb (seek_bound (c_start cfg) x) k0) with P0.
        rewrite <- F3. reflexivity.
      + rewrite A6. unfold absS. rewrite Hi, nonempty_map. symmetry. now apply hd_vis_nonempty.
  Qed.

  Lemma single_curkey cfg seg (s : scursor * option entry) :
    c_incl cfg = false -> wf_single cfg seg (fst s) (snd s) ->
    option_map entry_key (snd s)
    = match absS cfg (fst s) with [] => None | e :: _ => Some (Some (fst e)) end.
  Proof.
    intros Hi [_ [_ [Hcur [Hh _]]]]. rewrite Hcur. unfold absS. rewrite Hi in *.
    destruct (sc_rest (fst s)) as [|[k o] t]; auto.
    pose proof (hd_vis_cons _ _ _ _ Hh) as E.
    change (vis false ((k, o) :: t)) with (vis false (@cons (bytes * op) (k, o) t)).
    rewrite E. simpl. destruct o; simpl in *; auto. discriminate.
  Qed.

  Lemma single_seek_spec cfg seg c cur x : wf_single cfg seg c cur -> c_incl cfg = false ->
    seek_post cfg seg x (single_seek cfg x c cur).
  Proof.
    intros Hw Hi. rewrite single_seek_unfold.
    pose proof Hw as [Hfr [Hpos [Hcur [Hh [P [Hu HP]]]]]].
    pose proof Hfr as [_ [Ha _]].
    pose proof (single_curkey cfg seg (c, cur) Hi Hw) as Hck. cbn [fst snd] in Hck.
    assert (Hkey : match cur with Some e => entry_key e | None => None end
                   = match absS cfg c with [] => None | e :: _ => Some (fst e) end).
    { destruct cur as [e|]; simpl in Hck.
      - destruct (absS cfg c); [discriminate|]. now injection Hck.
      - destruct (absS cfg c); [reflexivity|discriminate]. }
    rewrite Hkey.
    pose proof (absS_filter cfg seg c P Hi Hu HP) as Hf.
    destruct (absS cfg c) as [|[k v] t] eqn:Eabs.
    { now apply single_fall_spec. }
    cbn [fst].
    assert (Hlo : bleb (lo_key (c_start cfg)) k = true).
    { assert (G : In (k, v) (SL cfg seg)).
      { assert (G : In (k, v) ((k, v) :: t)) by (simpl; auto).
        rewrite Hf in G. apply filter_In in G. tauto. }
      apply SL_in_range in G. unfold rng, in_range in G. apply andb_true_iff in G. tauto. }
    destruct (bcmp x k) eqn:Ec.
    - apply bcmp_eq in Ec. subst x. unfold seek_post. cbn [fst snd]. split; auto. split.
      + rewrite (seek_bound_id _ _ Hlo).
        rewrite <- (drop_lt_upclosed_gen (rng cfg) P (SL cfg seg) k (k, v) t); auto.
        * rewrite <- Hf. now rewrite Eabs, drop_lt_head.
        * now apply SL_sorted.
        * apply SL_in_range.
        * apply bleb_refl.
      + now rewrite Eabs.
    - now apply single_fall_spec.
    - assert (Hkx : bleb k x = true).
      { apply bltb_bleb. apply bltb_true. now apply bcmp_gt_lt. }
      assert (Hsb : seek_bound (c_start cfg) x = x).
      { apply seek_bound_id. eapply bleb_trans; eauto. }
      pose proof (naive_seek_spec (fun s : scursor * option entry => absS cfg (fst s))
                    (fun s => wf_single cfg seg (fst s) (snd s))
                    (fun s : scursor * option entry => option_map entry_key (snd s))
                    (fun s => let '(c', cur', ok) := single_next (c_incl cfg) (fst s) in ((c', cur'), ok))
                    (fun s Hs => single_curkey cfg seg s Hi Hs)) as Hn.
      assert (Hnx : forall s : scursor * option entry, wf_single cfg seg (fst s) (snd s) ->
                 wf_single cfg seg
                   (fst (fst (let '(c', cur', ok) := single_next (c_incl cfg) (fst s) in ((c', cur'), ok))))
                   (snd (fst (let '(c', cur', ok) := single_next (c_incl cfg) (fst s) in ((c', cur'), ok)))) /\
                 absS cfg (fst (fst (let '(c', cur', ok) := single_next (c_incl cfg) (fst s) in ((c', cur'), ok))))
                 = tl (absS cfg (fst s)) /\
                 snd (let '(c', cur', ok) := single_next (c_incl cfg) (fst s) in ((c', cur'), ok))
                 = nonempty (absS cfg (fst (fst (let '(c', cur', ok) := single_next (c_incl cfg) (fst s) in ((c', cur'), ok)))))).
      { intros s Hs. pose proof (single_next_spec cfg seg (fst s) (snd s) Hs) as G. cbv zeta in G.
        destruct (single_next (c_incl cfg) (fst s)) as [[c' cur'] ok]. exact G. }
      specialize (Hn Hnx (naive_fuel (c_tries cfg) (sc_end c - sc_curr c)) x (c, cur) Hw).
      fold (snaive cfg x c cur) in Hn.
      destruct (snaive cfg x c cur) as [s res]. cbn [fst snd] in Hn. destruct Hn as [Hws Hres].
      assert (Hd : drop_lt x (absS cfg c) = drop_lt x (SL cfg seg)).
      { rewrite Eabs, Hf. apply (drop_lt_upclosed_gen (rng cfg) P (SL cfg seg) x (k, v) t); auto.
        - now apply SL_sorted.
        - apply SL_in_range. }
      destruct res.
      + destruct Hres as [R1 R2]. unfold seek_post. cbn [fst snd]. split; auto.
        rewrite Hsb, <- Hd. split; auto.
        destruct (absS cfg (fst s)); [congruence|reflexivity].
      + destruct Hres as [R1 R2]. unfold seek_post. cbn [fst snd]. split; auto.
        rewrite Hsb, <- Hd, R1, R2. auto.
      + apply single_fall_spec; auto. destruct Hws as [G _]. exact G.
  Qed.

  (* ==================================================================== *)
  (* K. iterator.optimize_pre_fix: exactly one live cursor                         *)

  Lemma seg_ext (a b : segment) :
    asc (keys a) -> asc (keys b) -> (forall k, find a k = find b k) -> a = b.
  Proof.
    revert b. induction a as [|[k o] a IH]; intros [|[k' o'] b] Ha Hb H; auto.
    - specialize (H k'). simpl in H. rewrite beqb_refl in H. discriminate.
    - specialize (H k). simpl in H. rewrite beqb_refl in H. discriminate.
    - assert (k = k') as <-.
      { pose proof (H k) as H1. pose proof (H k') as H2. simpl in H1, H2.
        rewrite beqb_refl in H1, H2.
        destruct (beqb k' k) eqn:E1; [apply beqb_true in E1; auto|].
        destruct (beqb k k') eqn:E2; [apply beqb_true in E2; auto|].
        symmetry in H1. apply find_some_key in H1. apply find_some_key in H2.
        pose proof (asc_head_lt _ _ Hb _ H1) as G1. pose proof (asc_head_lt _ _ Ha _ H2) as G2.
        unfold blt in *. pose proof (bcmp_trans _ _ _ G1 G2) as G.
        rewrite bcmp_refl in G. discriminate. }
      assert (o = o') as <-.
      { specialize (H k). simpl in H. rewrite beqb_refl in H. congruence. }
      f_equal. apply IH; [eapply asc_tail; eauto|eapply asc_tail; eauto|].
      intros x. destruct (beqb k x) eqn:E.
      + apply beqb_true in E. subst x.
        assert (G1 : find a k = None).
        { apply find_none_iff. intros Hin. pose proof (asc_head_lt _ _ Ha _ Hin) as G.
          unfold blt in G. rewrite bcmp_refl in G. discriminate. }
        assert (G2 : find b k = None).
        { apply find_none_iff. intros Hin. pose proof (asc_head_lt _ _ Hb _ Hin) as G.
          unfold blt in G. rewrite bcmp_refl in G. discriminate. }
        congruence.
      + specialize (H x). simpl in H. now rewrite E in H.
  Qed.

  Lemma total_zero_nth rem j : total rem = 0 -> nth j rem [] = [].
  Proof.
    revert j. induction rem as [|r rest IH]; intros [|j] H; simpl in *; auto.
    - destruct r; [auto|discriminate].
    - apply IH. lia.
  Qed.

  Lemma only_cursor_spec rem i : only_cursor rem = Some i ->
    (exists e t, nth i rem [] = e :: t) /\ (forall j, j <> i -> nth j rem [] = []).
  Proof.
    revert i. induction rem as [|r rest IH]; intros i H; simpl in H; [discriminate|].
    destruct r as [|e t].
    - destruct (only_cursor rest) as [i'|] eqn:E; [|discriminate]. injection H as <-.
      destruct (IH i' eq_refl) as [A B]. split; auto.
      intros [|j] Hj; simpl; auto.
    - destruct (Nat.eqb (total rest) 0) eqn:E; [|discriminate]. injection H as <-.
      apply Nat.eqb_eq in E. split; [simpl; eauto|].
      intros [|j] Hj; [congruence|]. simpl. now apply total_zero_nth.
  Qed.

  Lemma all_empty_newest rest k : (forall j, nth j rest [] = []) -> newest rest k = None.
  Proof.
    induction rest as [|r rest IH]; intros H; simpl; auto.
    pose proof (H 0) as H0. simpl in H0. subst r. simpl. apply IH.
    intros j. apply (H (S j)).
  Qed.

  Lemma newest_only rem i k :
    (forall j, j <> i -> nth j rem [] = []) -> newest rem k = find (nth i rem []) k.
  Proof.
    revert i. induction rem as [|r rest IH]; intros i H; simpl.
    - destruct i; reflexivity.
    - destruct i as [|i]; simpl.
      + rewrite (all_empty_newest rest k).
        * destruct (find r k); reflexivity.
        * intros j. apply (H (S j)). discriminate.
      + pose proof (H 0) as H0. simpl in H0. rewrite H0 by discriminate. simpl.
        apply IH. intros j Hj. apply (H (S j)). congruence.
  Qed.

  Lemma sget_none (T : list segment) k :
    (forall j, find (nth j T []) k = None) -> sget fm T no_below k = None.
  Proof.
    induction T as [|s r IH]; intros H; simpl; auto.
    pose proof (H 0) as H0. simpl in H0. rewrite H0. apply IH. intros j. apply (H (S j)).
  Qed.

  Lemma sget_only (T : list segment) i k o :
    (forall j, j <> i -> find (nth j T []) k = None) -> find (nth i T []) k = Some o ->
    sget fm T no_below k = apply_op fm k None o.
  Proof.
    revert i. induction T as [|s r IH]; intros i H1 H2.
    - destruct i; discriminate.
    - destruct i as [|i]; simpl in H2; simpl sget.
      + rewrite H2. rewrite sget_none; auto. intros j. apply (H1 (S j)). discriminate.
      + pose proof (H1 0) as H0. simpl in H0. rewrite H0 by discriminate.
        apply (IH i); auto. intros j Hj. apply (H1 (S j)). congruence.
  Qed.

  Lemma only_abs cfg P (rem : list segment) i incl : cfg_ok cfg ->
    rem = map (filter (kf P)) (all_segs cfg) -> only_cursor rem = Some i ->
    map (valf cfg) (vis incl (view rem)) = map eval0 (vis incl (nth i rem [])).
  Proof.
    intros Hc HP Ho. destruct (only_cursor_spec _ _ Ho) as [[e [t A]] B].
    assert (Hn : forall j, nth j rem [] = filter (kf P) (nth j (all_segs cfg) [])).
    { intros j. rewrite HP. apply (map_nth (filter (kf P)) (all_segs cfg) [] j). }
    assert (Hasc : asc (keys (nth i rem []))).
    { assert (Ha : all_asc rem) by (rewrite HP; now apply all_asc_filter).
      unfold all_asc in Ha. rewrite Forall_forall in Ha. apply Ha. apply nth_In.
      destruct (Nat.lt_ge_cases i (length rem)) as [G|G]; auto.
      rewrite (nth_overflow rem [] G) in A. discriminate. }
    assert (Hv : view rem = nth i rem []).
    { apply seg_ext; auto; [apply view_asc|]. intros k. rewrite find_view. now apply newest_only. }
    rewrite Hv. apply map_ext_in. intros [k o] Hin. unfold valf, eval0. cbn [fst snd]. f_equal.
    unfold vis in Hin. apply filter_In in Hin. destruct Hin as [Hin _].
    assert (HPk : P k = true).
    { rewrite Hn in Hin. apply filter_In in Hin. tauto. }
    assert (Hf : forall j, find (nth j rem []) k = find (nth j (all_segs cfg) []) k).
    { intros j. rewrite Hn. unfold kf. rewrite find_filter. now rewrite HPk. }
    rewrite full_get_bridge. apply (sget_only _ i).
    - intros j Hj. rewrite <- Hf, (B j Hj). reflexivity.
    - rewrite <- Hf. apply find_NoDup_in; auto. now apply asc_NoDup.
  Qed.

  Lemma view_only (rem : list segment) i : all_asc rem -> only_cursor rem = Some i ->
    view rem = nth i rem [].
  Proof.
    intros Ha Ho. destruct (only_cursor_spec _ _ Ho) as [[e [t A]] B].
    apply seg_ext; [apply view_asc| |].
    - unfold all_asc in Ha. rewrite Forall_forall in Ha. apply Ha. apply nth_In.
      destruct (Nat.lt_ge_cases i (length rem)) as [G|G]; auto.
      rewrite (nth_overflow rem [] G) in A. discriminate.
    - intros k. rewrite find_view. now apply newest_only.
  Qed.

  Lemma upclosed_suffix R P (s : segment) :
    asc (keys s) -> (forall e, In e s -> R (fst e) = true) -> upclosed R P ->
    exists pre, s = pre ++ filter (kf P) s.
  Proof.
    intros Ha HR [H1 H2]. induction s as [|e s IH]; [exists []; reflexivity|].
    simpl. unfold kf at 1. destruct (P (fst e)) eqn:E.
    - exists []. simpl. f_equal. symmetry. apply filter_all. intros e' He'. unfold kf.
      apply (H2 (fst e)); auto.
      + destruct e as [k o]. apply bltb_bleb. eapply asc_keys_head_lt; eauto.
      + apply HR. simpl; auto.
    - destruct IH as [pre IH].
      + simpl in Ha. eapply asc_tail; eauto.
      + intros e' He'. apply HR. simpl; auto.
      + exists (e :: pre). simpl. now f_equal.
  Qed.

  Lemma firstn_length_app {A} (l1 l2 : list A) : firstn (length l1) (l1 ++ l2) = l1.
  Proof. induction l1; simpl; auto. now f_equal. Qed.

  Lemma skipn_length_app {A} (l1 l2 : list A) : skipn (length l1) (l1 ++ l2) = l2.
  Proof. induction l1; simpl; auto. Qed.

  Lemma skipn_add {A} n m (l : list A) : skipn (n + m) l = skipn m (skipn n l).
  Proof.
    revert l. induction n as [|n IH]; intros l; auto.
    destruct l as [|a l]; simpl; [now rewrite skipn_nil|]. apply IH.
  Qed.

  (* the last |r| positions of the window [a,b) when the window ends with r *)
  Lemma window_suffix {A} (seg : list A) a b pre r :
    b <= length seg ->
    firstn (b - a) (skipn a seg) = pre ++ r ->
    r <> [] ->
    a <= b - length r /\ firstn (b - (b - length r)) (skipn (b - length r) seg) = r.
  Proof.
    intros Hb H Hr.
    assert (Hlen : length pre + length r = b - a).
    { rewrite <- app_length, <- H, firstn_length, skipn_length. lia. }
    assert (Hr' : length r > 0) by (destruct r; simpl; [congruence|lia]).
    split; [lia|].
    replace (b - (b - length r)) with (length r) by lia.
    set (T := skipn a seg) in *.
    assert (HT : T = (pre ++ r) ++ skipn (b - a) T).
    { rewrite <- H. symmetry. apply firstn_skipn. }
    replace (b - length r) with (a + length pre) by lia.
    rewrite skipn_add. fold T. rewrite HT at 1. rewrite <- app_assoc.
    rewrite skipn_length_app. apply firstn_length_app.
  Qed.

  (* ==================================================================== *)
  (* L. states                                                             *)

  Definition wf_lower (all rest : segment) : Prop :=
    asc (keys all) /\ (forall e, In e all -> exists v, snd e = OSet v) /\
    (forall e, In e rest -> In e all).

  Definition wf_impl (cfg : config) (i : impl) : Prop :=
    match i with
    | IHeap rem => wf_heap cfg rem
    | ISingle c cur => wf_single cfg (sc_seg c) c cur
    | ILower all rest => wf_lower all rest
    end.

  Definition abs_impl (cfg : config) (i : impl) : list (bytes * value) :=
    match i with
    | IHeap rem => absH cfg rem
    | ISingle c _ => absS cfg c
    | ILower _ rest => map eval0 rest
    end.

  (* remaining entries *)
  Definition abs (st : iter_state) : list (bytes * value) := abs_impl (st_cfg st) (st_impl st).

  Definition wf_pre_fix (st : iter_state) : Prop :=
    cfg_ok (st_cfg st) /\ st_pfx st = cpfx (st_cfg st) /\ wf_impl (st_cfg st) (st_impl st).

  (* SeekTo on the optimized implementations looks at ONE segment only; it is
     right exactly when that segment alone already shows live_range *)
  Definition seek_safe (st : iter_state) : Prop :=
    match st_impl st with
    | IHeap _ => True
    | ISingle c _ => SL (st_cfg st) (sc_seg c) = live_range fm (st_cfg st)
    | ILower all _ => map eval0 all = live_range fm (st_cfg st)
    end.

  Lemma vis_all_set incl (s : segment) :
    (forall e, In e s -> exists v, snd e = OSet v) -> vis incl s = s.
  Proof.
    intros H. apply filter_all. intros e He. destruct (H e He) as [v ->]. simpl.
    apply orb_true_r.
  Qed.

  Lemma nth_with_ll_lt segs ll i : i < length segs -> nth i (with_ll segs ll) [] = nth i segs [].
  Proof. intros H. destruct ll; simpl; auto. now rewrite app_nth1. Qed.

  Lemma nth_with_ll_ge segs ll i :
    length segs <= i -> nth i (with_ll segs ll) [] <> [] ->
    exists l, ll = Some l /\ nth i (with_ll segs ll) [] = ll_seg l.
  Proof.
    intros H A. destruct ll as [l|]; simpl in *.
    - exists l. split; auto. rewrite app_nth2 in * by lia.
      destruct (i - length segs) as [|[|n]]; simpl in *; auto; congruence.
    - rewrite nth_overflow in A by lia. congruence.
  Qed.

  (* remaining raw entries (what CurrentEx walks through) *)
  Definition raw_impl (cfg : config) (i : impl) : segment :=
    match i with
    | IHeap rem => vis (c_incl cfg) (view rem)
    | ISingle c _ => vis (c_incl cfg) (sc_rest c)
    | ILower _ rest => rest
    end.

  Lemma optimize_spec cfg rem : cfg_ok cfg -> wf_heap cfg rem ->
    wf_impl cfg (optimize_pre_fix cfg rem) /\ abs_impl cfg (optimize_pre_fix cfg rem) = absH cfg rem /\
    raw_impl cfg (optimize_pre_fix cfg rem) = vis (c_incl cfg) (view rem).
  Proof.
    intros Hc Hw. unfold optimize_pre_fix.
    destruct (only_cursor rem) as [i|] eqn:Ho; [|split; auto].
    pose proof (wf_heap_asc _ _ Hc Hw) as Ha.
    pose proof (view_only rem i Ha Ho) as Hv.
    destruct (only_cursor_spec _ _ Ho) as [[e [t A]] B].
    destruct Hw as [P [HP [Hu Hh]]].
    pose proof (only_abs cfg P rem i (c_incl cfg) Hc HP Ho) as Habs.
    assert (Hn : nth i rem [] = filter (kf P) (nth i (all_segs cfg) [])).
    { rewrite HP. apply (map_nth (filter (kf P)) (all_segs cfg) [] i). }
    assert (Hseg : asc (keys (nth i (all_segs cfg) []))).
    { unfold cfg_ok, all_asc in Hc. rewrite Forall_forall in Hc.
      destruct (Nat.lt_ge_cases i (length (all_segs cfg))) as [G|G].
      - apply Hc. now apply nth_In.
      - replace (nth i (all_segs cfg) []) with (@nil entry); [constructor|].
        symmetry. now apply nth_overflow. }
    set (r := nth i rem []) in *.
    set (seg' := nth i (all_segs cfg) []) in *.
    assert (Hsl : slice (c_start cfg) (c_end cfg) seg' = filter (kf (rng cfg)) seg')
      by (now apply slice_filter).
    assert (HPr : filter (kf P) (filter (kf (rng cfg)) seg') = r).
    { rewrite Hn. unfold kf. rewrite filter_filter. apply filter_ext. intros x.
      destruct Hu as [H1 _]. destruct (P (fst x)) eqn:E; [now rewrite (H1 _ E)|now rewrite andb_false_r]. }
    destruct (upclosed_suffix (rng cfg) P (filter (kf (rng cfg)) seg')) as [pre Hpre]; auto.
    { unfold kf. now apply asc_keys_filter. }
    { intros x Hx. apply filter_In in Hx. tauto. }
    rewrite HPr in Hpre.
    assert (Hrne : r <> []) by (rewrite A; discriminate).
    destruct (i <? length (c_segs cfg)) eqn:Ei.
    - apply Nat.ltb_lt in Ei.
      assert (Eseg : nth i (c_segs cfg) [] = seg').
      { unfold seg', all_segs. symmetry. now apply nth_with_ll_lt. }
      rewrite Eseg.
      set (a := lower_bound seg' (lo_key (c_start cfg))).
      set (b := match c_end cfg with Some e0 => lower_bound seg' e0 | None => length seg' end).
      assert (Hb : b <= length seg').
      { unfold b. destruct (c_end cfg); [apply lb_le_length|lia]. }
      assert (Hwin : firstn (b - a) (skipn a seg') = pre ++ r).
      { rewrite <- Hpre, <- Hsl. unfold slice, sc_rest, seg_cursor.
        cbn [sc_start sc_curr sc_end sc_seg]. fold a. fold b. now rewrite Nat.leb_refl. }
      destruct (window_suffix seg' a b pre r Hb Hwin Hrne) as [W1 W2].
      cbn [seg_cursor sc_seg sc_start sc_end]. fold a. fold b.
      set (c := mk_sc seg' a b (b - length r)).
      assert (Hrest : sc_rest c = r).
      { unfold sc_rest, c. cbn [sc_start sc_curr sc_end sc_seg].
        apply Nat.leb_le in W1. now rewrite W1. }
      split.
      + cbn [wf_impl sc_seg]. change (sc_seg c) with seg'.
        split; [repeat split; auto|]. split; [exact W1|]. split; [now rewrite Hrest|].
        split; [rewrite Hrest, <- Hv; exact Hh|].
        exists P. split; auto. now rewrite Hrest.
      + split.
        * cbn [abs_impl]. unfold absS, absH. rewrite Hrest. symmetry. exact Habs.
        * cbn [raw_impl]. now rewrite Hrest, Hv.
    - apply Nat.ltb_ge in Ei.
      assert (Hne : seg' <> []).
      { intros E. apply Hrne. rewrite Hn, E. reflexivity. }
      destruct (nth_with_ll_ge (c_segs cfg) (c_ll cfg) i Ei Hne) as [l [El Enth]].
      fold (all_segs cfg) in Enth. fold seg' in Enth.
      assert (Hset : forall x, In x seg' -> exists v, snd x = OSet v).
      { intros x Hx. rewrite Enth in Hx. unfold ll_seg in Hx. apply in_map_iff in Hx.
        destruct Hx as [y [<- _]]. simpl. eauto. }
      split.
      + cbn [wf_impl]. split; [|split].
        * rewrite Hsl. unfold kf. now apply asc_keys_filter.
        * intros x Hx. rewrite Hsl in Hx. apply filter_In in Hx. apply Hset. tauto.
        * intros x Hx. rewrite Hsl. rewrite <- HPr in Hx. apply filter_In in Hx. tauto.
      + assert (Hvr : vis (c_incl cfg) r = r).
        { apply vis_all_set.
          intros x Hx. apply Hset. rewrite Hn in Hx. apply filter_In in Hx. tauto. }
        split.
        * cbn [abs_impl]. unfold absH. rewrite Habs. now rewrite Hvr.
        * cbn [raw_impl]. now rewrite Hv, Hvr.
  Qed.

  (* ==================================================================== *)
  (* M. the C09 theorems                                                   *)

  Theorem C09_wf_start_pre_fix cfg : cfg_ok cfg -> wf_pre_fix (iter_start_pre_fix cfg).
  Proof.
    intros Hc. destruct (heap_start_wf cfg Hc) as [Hw _].
    split; [exact Hc|]. split; [reflexivity|].
    apply (optimize_spec cfg _ Hc Hw).
  Qed.

  Theorem C09_start_pre_fix cfg : cfg_ok cfg -> c_incl cfg = false ->
    abs (iter_start_pre_fix cfg) = live_range fm cfg.
  Proof.
    intros Hc Hi. destruct (heap_start_wf cfg Hc) as [Hw Hv].
    unfold abs. cbn [iter_start_pre_fix st_cfg st_impl].
    rewrite (proj1 (proj2 (optimize_spec cfg _ Hc Hw))). unfold absH. rewrite Hv, Hi. reflexivity.
  Qed.

  Theorem C09_current_pre_fix st : wf_pre_fix st -> c_incl (st_cfg st) = false ->
    iter_current fm st = spec_current (abs st).
  Proof.
    intros [Hc [Hp Hw]] Hi. unfold iter_current, abs.
    destruct (st_impl st) as [rem|c cur|all rest]; cbn [wf_impl abs_impl] in *.
    - rewrite Hp. now apply heap_current_spec.
    - eapply single_current_spec; eauto.
    - destruct rest as [|[k o] rest]; auto. destruct Hw as [_ [Hset Hsub]].
      destruct (Hset (k, o)) as [v Hv]; [apply Hsub; simpl; auto|].
      simpl in Hv. subst o. reflexivity.
  Qed.

  Theorem C09_next_pre_fix st : wf_pre_fix st ->
    wf_pre_fix (fst (iter_next st)) /\
    st_cfg (fst (iter_next st)) = st_cfg st /\
    abs (fst (iter_next st)) = tl (abs st) /\
    snd (iter_next st) = nonempty (tl (abs st)).
  Proof.
    intros [Hc [Hp Hw]]. unfold iter_next, abs, wf_pre_fix.
    destruct (st_impl st) as [rem|c cur|all rest] eqn:Ei; cbn [wf_impl abs_impl] in *.
    - rewrite Hp. destruct (heap_next_wf _ _ Hc Hw) as [A [B C]].
      destruct (heap_next (c_incl (st_cfg st)) (cpfx (st_cfg st)) rem) as [rem' ok].
      cbn [fst snd st_cfg st_pfx st_impl wf_impl abs_impl] in *.
      rewrite <- B. auto.
    - pose proof (single_next_spec _ _ _ _ Hw) as G. cbv zeta in G.
      destruct (single_next (c_incl (st_cfg st)) c) as [[c' cur'] ok].
      cbn [fst snd st_cfg st_pfx st_impl wf_impl abs_impl] in *.
      destruct G as [A [B C]]. rewrite <- B.
      assert (Es : sc_seg c' = sc_seg c) by (destruct A as [[E _] _]; exact E).
      rewrite Es. auto.
    - cbn [fst snd st_cfg st_pfx st_impl wf_impl abs_impl].
      split; [|split; [reflexivity|split]].
      + split; auto. split; auto. destruct Hw as [H1 [H2 H3]]. split; auto. split; auto.
        intros e He. apply H3. destruct rest; simpl in *; auto.
      + apply map_tl.
      + rewrite <- map_tl, nonempty_map. destruct (tl rest); reflexivity.
  Qed.

  Lemma drop_lt_all_ge {A} b (L : list (bytes * A)) :
    (forall e, In e L -> bleb b (fst e) = true) -> drop_lt b L = L.
  Proof.
    destruct L as [|e L]; auto. intros H. simpl.
    assert (bltb (fst e) b = false) as ->; auto. apply bltb_false. apply H. simpl; auto.
  Qed.

  Lemma drop_lt_seek_bound cfg x :
    drop_lt (seek_bound (c_start cfg) x) (live_range fm cfg) = drop_lt x (live_range fm cfg).
  Proof.
    unfold seek_bound. destruct (c_start cfg) as [s|] eqn:Es; auto.
    destruct (bltb x s) eqn:E; auto.
    assert (G : forall e, In e (live_range fm cfg) -> bleb s (fst e) = true).
    { intros e He. apply live_in_range in He. unfold rng, in_range in He. rewrite Es in He.
      apply andb_true_iff in He. tauto. }
    rewrite !drop_lt_all_ge; auto.
    intros e He. apply bltb_bleb. eapply bltb_bleb_trans; eauto.
  Qed.

  Theorem C09_seek_pre_fix x st : wf_pre_fix st -> c_incl (st_cfg st) = false -> seek_safe st ->
    wf_pre_fix (fst (iter_seek x st)) /\
    st_cfg (fst (iter_seek x st)) = st_cfg st /\
    seek_safe (fst (iter_seek x st)) /\
    abs (fst (iter_seek x st))
    = drop_lt (seek_bound (c_start (st_cfg st)) x) (live_range fm (st_cfg st)) /\
    snd (iter_seek x st) = nonempty (abs (fst (iter_seek x st))).
  Proof.
    intros [Hc [Hp Hw]] Hi Hs. unfold iter_seek, abs, wf_pre_fix, seek_safe in *.
    destruct (st_impl st) as [rem|c cur|all rest] eqn:Ei; cbn [wf_impl abs_impl] in *.
    - rewrite Hp. destruct (heap_seek_spec _ x _ Hc Hi Hw) as [A [B C]].
      destruct (heap_seek (st_cfg st) (cpfx (st_cfg st)) x rem) as [rem' ok].
      cbn [fst snd st_cfg st_pfx st_impl wf_impl abs_impl] in *. auto 10.
    - pose proof (single_seek_spec _ _ _ _ x Hw Hi) as G. unfold seek_post in G.
      destruct (single_seek (st_cfg st) x c cur) as [[c' cur'] ok].
      cbn [fst snd st_cfg st_pfx st_impl wf_impl abs_impl] in *.
      destruct G as [A [B C]].
      assert (Es : sc_seg c' = sc_seg c) by (destruct A as [[E _] _]; exact E).
      rewrite Es. rewrite <- Hs. auto 10.
    - cbn [fst snd st_cfg st_pfx st_impl wf_impl abs_impl].
      destruct Hw as [H1 [H2 H3]].
      assert (Hsk : skipn (lower_bound all x) all = filter (kf (bleb x)) all) by (now apply skipn_lb).
      split; [|split; [reflexivity|split; [exact Hs|split]]].
      + split; auto. split; auto. split; auto. split; auto.
        intros e He. eapply In_skipn_in; eauto.
      + rewrite drop_lt_seek_bound. rewrite <- Hs.
        rewrite drop_lt_filter.
        * rewrite (filter_map_fst eval0 fst fst (bleb x)) by reflexivity. now rewrite Hsk.
        * rewrite map_map. simpl. exact H1.
      + rewrite nonempty_map. destruct (skipn (lower_bound all x) all); reflexivity.
  Qed.

  Theorem C09_done_sticky_pre_fix st : wf_pre_fix st -> c_incl (st_cfg st) = false -> abs st = [] ->
    iter_current fm st = RDone /\
    snd (iter_next st) = false /\
    abs (fst (iter_next st)) = [].
  Proof.
    intros Hw Hi Ha. rewrite (C09_current_pre_fix st Hw Hi), Ha.
    destruct (C09_next_pre_fix st Hw) as [_ [_ [B C]]]. rewrite B, C, Ha. auto.
  Qed.

  Lemma seek_safe_next_pre_fix st : wf_pre_fix st -> seek_safe st -> seek_safe (fst (iter_next st)).
  Proof.
    intros [Hc [Hp Hw]] Hs. unfold iter_next, seek_safe in *.
    destruct (st_impl st) as [rem|c cur|all rest] eqn:Ei; cbn [wf_impl] in *.
    - destruct (heap_next _ _ rem). exact I.
    - pose proof (single_next_spec _ _ _ _ Hw) as G. cbv zeta in G.
      destruct (single_next (c_incl (st_cfg st)) c) as [[c' cur'] ok].
      cbn [fst snd st_cfg st_impl] in *. destruct G as [[[E _] _] _]. now rewrite E.
    - exact Hs.
  Qed.

  Fixpoint no_seek (prog : list call) : bool :=
    match prog with
    | [] => true
    | CSeek _ :: _ => false
    | _ :: p => no_seek p
    end.

  Lemma run_sim_pre_fix : forall prog st, wf_pre_fix st -> c_incl (st_cfg st) = false ->
    seek_safe st \/ no_seek prog = true ->
    run_calls fm st prog = run_spec_from fm (st_cfg st) (abs st) prog.
  Proof.
    induction prog as [|c p IH]; intros st Hw Hi Hs; auto.
    destruct c as [|x|]; cbn [run_calls run_spec_from].
    - destruct (C09_next_pre_fix st Hw) as [A [B [C D]]].
      pose proof (seek_safe_next_pre_fix st Hw) as E.
      destruct (iter_next st) as [st' ok]. cbn [fst snd] in *.
      rewrite D. f_equal. rewrite <- C, <- B. apply IH; auto; [congruence|].
      destruct Hs; auto.
    - destruct Hs as [Hs|Hs]; [|discriminate].
      destruct (C09_seek_pre_fix x st Hw Hi Hs) as [A [B [C [D E]]]].
      destruct (iter_seek x st) as [st' ok]. cbn [fst snd] in *.
      rewrite E, D. f_equal. rewrite <- D, <- B. apply IH; auto. congruence.
    - rewrite (C09_current_pre_fix st Hw Hi). f_equal. apply IH; auto.
  Qed.

  (* Required theorem 2.  seek_safe (iter_start_pre_fix cfg) is the extra hypothesis the
     optimized single-cursor implementations need (see C09_seek_refuted below);
     it is `True` whenever the heap implementation is chosen. *)
  Theorem C09_program_pre_fix cfg prog : cfg_ok cfg -> c_incl cfg = false ->
    seek_safe (iter_start_pre_fix cfg) ->
    run_model_pre_fix fm cfg prog = run_spec fm cfg prog.
  Proof.
    intros Hc Hi Hs. unfold run_model_pre_fix, run_spec. rewrite <- (C09_start_pre_fix cfg Hc Hi).
    apply (run_sim_pre_fix prog (iter_start_pre_fix cfg)); auto. now apply C09_wf_start_pre_fix.
  Qed.

  (* without SeekTo no extra hypothesis is needed *)
  Theorem C09_program_noseek_pre_fix cfg prog : cfg_ok cfg -> c_incl cfg = false ->
    no_seek prog = true ->
    run_model_pre_fix fm cfg prog = run_spec fm cfg prog.
  Proof.
    intros Hc Hi Hs. unfold run_model_pre_fix, run_spec. rewrite <- (C09_start_pre_fix cfg Hc Hi).
    apply (run_sim_pre_fix prog (iter_start_pre_fix cfg)); auto. now apply C09_wf_start_pre_fix.
  Qed.

  Lemma keys_ll_seg l : keys (ll_seg l) = map fst l.
  Proof. unfold keys, ll_seg. rewrite map_map. reflexivity. Qed.

  (* the hypotheses as stated by the caller *)
  Lemma cfg_ok_intro cfg :
    (forall s, In s (c_segs cfg) -> asc (keys s)) ->
    (forall l, c_ll cfg = Some l -> asc (map fst l)) ->
    cfg_ok cfg.
  Proof.
    intros H1 H2. unfold cfg_ok, all_asc, all_segs. apply Forall_forall. intros s Hs.
    destruct (c_ll cfg) as [l|] eqn:E; simpl in Hs; auto.
    apply in_app_or in Hs. destruct Hs as [Hs|[<-|[]]]; auto.
    rewrite keys_ll_seg. now apply H2.
  Qed.

  (* A checkable sufficient condition for seek_safe (iter_start_pre_fix cfg): if the
     optimizer fires on cursor i, cursor i was already the only live cursor
     BEFORE the leading-deletion skip of startIterator. *)
  Definition opt_safe_pre_fix (cfg : config) : bool :=
    match only_cursor (heap_start cfg (c_start cfg)) with
    | None => true
    | Some i =>
        match only_cursor (map (slice (c_start cfg) (c_end cfg)) (all_segs cfg)) with
        | Some j => Nat.eqb i j
        | None => false
        end
    end.

  Lemma opt_safe_seek_safe_pre_fix cfg : cfg_ok cfg -> opt_safe_pre_fix cfg = true -> seek_safe (iter_start_pre_fix cfg).
  Proof.
    intros Hc Ho. unfold opt_safe_pre_fix in Ho. unfold seek_safe, iter_start_pre_fix, optimize_pre_fix.
    cbn [st_impl st_cfg].
    destruct (only_cursor (heap_start cfg (c_start cfg))) as [i|] eqn:E1; [|exact I].
    destruct (only_cursor (map (slice (c_start cfg) (c_end cfg)) (all_segs cfg))) as [j|] eqn:E2;
      [|discriminate].
    apply Nat.eqb_eq in Ho. subst j.
    rewrite (slices_filter cfg (c_start cfg) Hc) in E2.
    set (rem0 := map (filter (kf (rng cfg))) (all_segs cfg)) in *.
    pose proof (only_abs cfg (rng cfg) rem0 i false Hc eq_refl E2) as Habs.
    destruct (only_cursor_spec _ _ E2) as [[e [t A]] _].
    assert (Hn : @nth segment i rem0 [] = filter (kf (rng cfg)) (nth i (all_segs cfg) [])).
    { apply (map_nth (filter (kf (rng cfg))) (all_segs cfg) [] i). }
    change (@nth segment i rem0 [] = e :: t) in A. rewrite Hn in Habs, A.
    assert (Hlive : live_range fm cfg = SL cfg (nth i (all_segs cfg) [])).
    { rewrite live_range_alt. unfold SL. rewrite <- Habs. unfold rem0. now rewrite view_filter. }
    destruct (i <? length (c_segs cfg)) eqn:Ei; cbn [st_impl sc_seg seg_cursor].
    - apply Nat.ltb_lt in Ei. unfold all_segs in Hlive.
      rewrite nth_with_ll_lt in Hlive by exact Ei. now rewrite Hlive.
    - apply Nat.ltb_ge in Ei.
      assert (Hne : nth i (all_segs cfg) [] <> []).
      { intros E. rewrite E in A. discriminate. }
      destruct (nth_with_ll_ge (c_segs cfg) (c_ll cfg) i Ei Hne) as [l [El Enth]].
      fold (all_segs cfg) in Enth.
      assert (Hasc : asc (keys (nth i (all_segs cfg) []))).
      { unfold cfg_ok, all_asc in Hc. rewrite Forall_forall in Hc. apply Hc. apply nth_In.
        destruct (Nat.lt_ge_cases i (length (all_segs cfg))) as [G|G]; auto.
        exfalso. apply Hne. now apply nth_overflow. }
      rewrite slice_filter by exact Hasc. rewrite Hlive. unfold SL. f_equal.
      symmetry. apply vis_all_set. intros x Hx. apply filter_In in Hx. destruct Hx as [Hx _].
      rewrite Enth in Hx. unfold ll_seg in Hx. apply in_map_iff in Hx.
      destruct Hx as [y [<- _]]. simpl. eauto.
  Qed.

  Corollary C09_program_opt_safe_pre_fix cfg prog : cfg_ok cfg -> c_incl cfg = false ->
    opt_safe_pre_fix cfg = true ->
    run_model_pre_fix fm cfg prog = run_spec fm cfg prog.
  Proof.
    intros Hc Hi Ho. apply C09_program_pre_fix; auto. now apply opt_safe_seek_safe_pre_fix.
  Qed.

  (* ==================================================================== *)
  (* N. CurrentEx / raw enumeration (any IncludeDeletions, any lower level) *)

  Definition raw (st : iter_state) : segment := raw_impl (st_cfg st) (st_impl st).

  Lemma hd_vis_hd incl (s : segment) : hd_vis incl s -> hd_error (vis incl s) = hd_error s.
  Proof.
    destruct s as [|[k o] s]; auto. intros H. unfold vis. simpl.
    destruct o; simpl in *; subst; rewrite ?orb_true_r; auto.
  Qed.

  Lemma raw_start_pre_fix cfg : cfg_ok cfg ->
    raw (iter_start_pre_fix cfg) = vis (c_incl cfg) (raw_range cfg).
  Proof.
    intros Hc. destruct (heap_start_wf cfg Hc) as [Hw Hv].
    unfold raw. cbn [iter_start_pre_fix st_cfg st_impl].
    rewrite (proj2 (proj2 (optimize_spec cfg _ Hc Hw))). exact Hv.
  Qed.

  Lemma raw_current_ex_pre_fix st : wf_pre_fix st -> iter_current_ex st = hd_error (raw st).
  Proof.
    intros [Hc [Hp Hw]]. unfold iter_current_ex, raw.
    destruct (st_impl st) as [rem|c cur|all rest]; cbn [wf_impl raw_impl] in *; auto.
    - rewrite Hp. unfold heap_current_ex.
      pose proof (wf_heap_asc _ _ Hc Hw) as Ha. pose proof (wf_heap_keys _ _ Hw) as Hk.
      destruct Hw as [P [_ [_ Hh]]].
      destruct (min_cursor (cpfx (st_cfg st)) rem) as [[i [k o]]|] eqn:Hm.
      + rewrite (view_min _ _ _ _ _ Ha Hk Hm) in Hh |- *.
        rewrite (hd_vis_cons _ _ _ _ Hh). reflexivity.
      + apply min_none_total in Hm. now rewrite (total_zero_view _ Hm).
    - destruct Hw as [_ [_ [Hcur [Hh _]]]]. rewrite Hcur. symmetry. now apply hd_vis_hd.
  Qed.

  Lemma raw_next_pre_fix st : wf_pre_fix st ->
    raw (fst (iter_next st)) = tl (raw st) /\ snd (iter_next st) = nonempty (tl (raw st)).
  Proof.
    intros [Hc [Hp Hw]]. unfold iter_next, raw.
    destruct (st_impl st) as [rem|c cur|all rest] eqn:Ei; cbn [wf_impl raw_impl] in *.
    - rewrite Hp.
      pose proof (wf_heap_asc _ _ Hc Hw) as Ha. pose proof (wf_heap_keys _ _ Hw) as Hk.
      destruct (heap_next_wf _ _ Hc Hw) as [Hw' _].
      destruct Hw as [P [_ [_ Hh]]].
      destruct (heap_next_spec (c_incl (st_cfg st)) (cpfx (st_cfg st)) rem Ha Hk Hh)
        as [b [R1 [R2 [R3 R4]]]].
      pose proof (vis_view_nonempty (c_incl (st_cfg st)) (cpfx (st_cfg st)) _
                    (wf_heap_asc _ _ Hc Hw') (wf_heap_keys _ _ Hw') R4) as Hne.
      destruct (heap_next (c_incl (st_cfg st)) (cpfx (st_cfg st)) rem) as [rem' ok].
      cbn [fst snd st_cfg st_impl raw_impl] in *. rewrite <- R2, Hne. auto.
    - destruct Hw as [Hfr [Hpos [Hcur [Hh _]]]].
      pose proof (frame_pos_ok _ _ _ Hfr Hpos) as Hpk.
      destruct (single_next_aux_spec (c_incl (st_cfg st)) (sc_end c - sc_curr c) c Hpk (le_n _))
        as [A1 [A2 [A3 [A4 [A5 [A6 _]]]]]].
      fold (single_next (c_incl (st_cfg st)) c) in *.
      destruct (single_next (c_incl (st_cfg st)) c) as [[c' cur'] ok].
      cbn [fst snd st_cfg st_impl raw_impl] in *.
      rewrite <- (vis_tl_hd _ _ Hh), <- A5. split; auto.
      rewrite A6. symmetry. now apply hd_vis_nonempty.
    - cbn [fst snd st_cfg st_impl raw_impl]. split; auto.
  Qed.

  Lemma scan_raw_pre_fix : forall fuel st, wf_pre_fix st -> length (raw st) <= S fuel ->
    scan_ex fuel st = raw st.
  Proof.
    induction fuel as [|f IH]; intros st Hw Hl; cbn [scan_ex];
      rewrite (raw_current_ex_pre_fix st Hw); destruct (raw st) as [|e t] eqn:Er; auto; cbn [hd_error].
    - destruct t; [reflexivity|simpl in Hl; lia].
    - destruct (raw_next_pre_fix st Hw) as [A B]. destruct (C09_next_pre_fix st Hw) as [Hw' _].
      rewrite Er in A, B. cbn [tl] in A, B.
      destruct (iter_next st) as [st' ok]. cbn [fst snd] in *. subst ok.
      destruct t as [|e' t']; [reflexivity|]. cbn [nonempty]. f_equal.
      rewrite <- A. apply IH; auto. rewrite A. simpl in *. lia.
  Qed.

  Lemma raw_range_alt cfg :
    raw_range cfg = map (fun k => (k, nop (all_segs cfg) k))
                        (filter (in_range (c_start cfg) (c_end cfg)) (all_keys (all_segs cfg))).
  Proof.
    unfold raw_range, view.
    apply (filter_map_fst (fun k => (k, nop (all_segs cfg) k)) (fun k => k) fst
             (in_range (c_start cfg) (c_end cfg))). reflexivity.
  Qed.

  (* the CurrentEx results under repeated Next *)
  Theorem C09_raw_gen_pre_fix cfg : cfg_ok cfg ->
    scan_ex (length (raw_range cfg)) (iter_start_pre_fix cfg) = vis (c_incl cfg) (raw_range cfg).
  Proof.
    intros Hc. rewrite <- (raw_start_pre_fix cfg Hc). apply scan_raw_pre_fix.
    - now apply C09_wf_start_pre_fix.
    - rewrite (raw_start_pre_fix cfg Hc). unfold vis.
      induction (raw_range cfg) as [|a l IHl]; simpl; [lia|].
      destruct (c_incl cfg || negb (is_del (snd a))); simpl; lia.
  Qed.

  Theorem C09_raw_pre_fix cfg : cfg_ok cfg -> c_incl cfg = true ->
    scan_ex (length (raw_range cfg)) (iter_start_pre_fix cfg)
    = map (fun k => (k, nop (all_segs cfg) k))
          (filter (in_range (c_start cfg) (c_end cfg)) (all_keys (all_segs cfg))).
  Proof.
    intros Hc Hi. rewrite (C09_raw_gen_pre_fix cfg Hc), Hi, <- raw_range_alt.
    apply filter_all. intros e _. reflexivity.
  Qed.

  (* the specification list, characterised *)
  Lemma live_range_spec cfg k v :
    In (k, v) (live_range fm cfg) <->
    in_range (c_start cfg) (c_end cfg) k = true /\
    (exists o, newest (all_segs cfg) k = Some o /\ o <> ODel) /\
    v = sget fm (c_segs cfg) (ll_get (c_ll cfg)) k.
  Proof.
    rewrite live_range_alt. unfold valf, full_get. rewrite in_map_iff. split.
    - intros [[k' o] [E H]]. simpl in E. injection E as -> <-.
      unfold vis in H. apply filter_In in H. destruct H as [H Hd].
      apply filter_In in H. destruct H as [H Hr]. apply view_in in H.
      split; [exact Hr|]. split; auto. exists o. split; auto.
      intros ->. discriminate.
    - intros [Hr [[o [Hn Ho]] ->]]. exists (k, o). split; auto.
      unfold vis. apply filter_In. split.
      + apply filter_In. split; [now apply view_in|exact Hr].
      + simpl. destruct o; auto.
  Qed.

  (* ==================================================================== *)
  (* Q. maxTries <= 0: the unbounded naive seek never reports ErrMaxTries,
        so the fuel used for it in Iterator.v is not observable            *)

  Lemma naive_no_max {S : Type} (m : S -> nat) (inv : S -> Prop)
        (curkey : S -> option (option bytes)) (next : S -> S * bool) :
    (forall s, inv s -> inv (fst (next s)) /\ (curkey s = None \/ m (fst (next s)) < m s)) ->
    forall n x s, inv s -> m s < n -> snd (naive_seek curkey next n x s) <> NMax.
  Proof.
    intros Hstep. induction n as [|n IH]; intros x s Hs Hm; [lia|].
    simpl. destruct (Hstep s Hs) as [Hi Hd].
    destruct (curkey s) as [key|] eqn:Ek; [|simpl; discriminate].
    destruct (bleb x match key with Some k => k | None => [] end); [simpl; discriminate|].
    destruct (next s) as [s' ok]. simpl in *. destruct ok; [|simpl; discriminate].
    apply IH; auto. destruct Hd as [Hd|Hd]; [discriminate|lia].
  Qed.

  Lemma kinsert_length k l : length (kinsert k l) <= S (length l).
  Proof.
    induction l as [|a l IH]; simpl; auto. destruct (bcmp k a); simpl; lia.
  Qed.

  Lemma kunion_length a b : length (kunion a b) <= length a + length b.
  Proof.
    unfold kunion. induction a as [|k a IH]; simpl; auto.
    pose proof (kinsert_length k (fold_right kinsert b a)). lia.
  Qed.

  Lemma all_keys_length rem : length (all_keys rem) <= total rem.
  Proof.
    induction rem as [|r rest IH]; [simpl; auto|].
    change (length (kunion (keys r) (all_keys rest)) <= length r + total rest).
    pose proof (kunion_length (keys r) (all_keys rest)) as G.
    assert (E : length (keys r) = length r) by apply map_length. lia.
  Qed.

  Lemma vis_length incl s : length (vis incl s) <= length s.
  Proof.
    unfold vis. induction s as [|a l IH]; simpl; auto.
    destruct (incl || negb (is_del (snd a))); simpl; lia.
  Qed.

  Theorem naive_unbounded_heap cfg x rem : cfg_ok cfg -> wf_heap cfg rem ->
    c_tries cfg = 0 ->
    snd (naive_seek (fun r => option_map entry_key (heap_current_ex (cpfx cfg) r))
                    (heap_next (c_incl cfg) (cpfx cfg))
                    (naive_fuel (c_tries cfg) (total rem)) x rem) <> NMax.
  Proof.
    intros Hc Hw Ht. rewrite Ht. unfold naive_fuel. simpl Nat.eqb. cbv iota.
    apply (naive_no_max (fun r => length (vis (c_incl cfg) (view r))) (wf_heap cfg)); auto.
    - intros s Hs. destruct (heap_next_wf _ _ Hc Hs) as [Hs' _]. split; auto.
      pose proof (wf_heap_asc _ _ Hc Hs) as Ha. pose proof (wf_heap_keys _ _ Hs) as Hk.
      destruct Hs as [P [_ [_ Hh]]].
      destruct (heap_next_spec (c_incl cfg) (cpfx cfg) s Ha Hk Hh) as [b [_ [R2 _]]].
      rewrite R2. unfold heap_current_ex.
      destruct (min_cursor (cpfx cfg) s) as [[i [k o]]|] eqn:Hm; [right|left; reflexivity].
      rewrite (view_min _ _ _ _ _ Ha Hk Hm) in Hh |- *.
      rewrite (hd_vis_cons _ _ _ _ Hh). simpl. lia.
    - pose proof (vis_length (c_incl cfg) (view rem)) as G1.
      pose proof (all_keys_length rem) as G2.
      unfold view in G1 at 2. rewrite map_length in G1. lia.
  Qed.

  Theorem naive_unbounded_single cfg seg x c cur : wf_single cfg seg c cur ->
    c_tries cfg = 0 -> snd (snaive cfg x c cur) <> NMax.
  Proof.
    intros Hw Ht. unfold snaive. rewrite Ht. unfold naive_fuel. simpl Nat.eqb. cbv iota.
    apply (naive_no_max (fun s : scursor * option entry => length (vis (c_incl cfg) (sc_rest (fst s))))
             (fun s => wf_single cfg seg (fst s) (snd s))); auto.
    - intros s Hs. pose proof (single_next_spec cfg seg (fst s) (snd s) Hs) as G. cbv zeta in G.
      destruct Hs as [Hfr [Hpos [Hcur [Hh _]]]].
      pose proof (frame_pos_ok _ _ _ Hfr Hpos) as Hpk.
      destruct (single_next_aux_spec (c_incl cfg) (sc_end (fst s) - sc_curr (fst s)) (fst s) Hpk (le_n _))
        as [_ [_ [_ [_ [A5 _]]]]].
      fold (single_next (c_incl cfg) (fst s)) in A5.
      destruct (single_next (c_incl cfg) (fst s)) as [[c' cur'] ok]. cbn [fst snd] in *.
      split; [tauto|]. rewrite A5, Hcur.
      destruct (sc_rest (fst s)) as [|[k o] t]; [left; reflexivity|right].
      pose proof (hd_vis_cons _ _ _ _ Hh) as E.
      change (vis (c_incl cfg) ((k, o) :: t)) with (vis (c_incl cfg) (@cons (bytes * op) (k, o) t)).
      rewrite E. simpl. lia.
    - cbn [fst]. pose proof (vis_length (c_incl cfg) (sc_rest c)) as G1.
      destruct Hw as [Hfr [Hpos _]]. pose proof (frame_pos_ok _ _ _ Hfr Hpos) as Hpk.
      assert (G2 : length (sc_rest c) <= sc_end c - sc_curr c).
      { rewrite (sc_rest_eq _ Hpk), firstn_length. lia. }
      lia.
  Qed.

  (* ==================================================================== *)
  (* R. THE REPAIRED ITERATOR: optimize() takes a fast path only when exactly
        one cursor existed before the leading-deletion skip
        (numCursorsAtStart == 1).  seek_safe then holds by construction and
        no extra hypothesis is left in the C09 theorems.                    *)

  (* general form of opt_safe_seek_safe_pre_fix *)
  Lemma seek_safe_optimize cfg pfx (rem : list segment) i : cfg_ok cfg ->
    only_cursor rem = Some i ->
    only_cursor (map (slice (c_start cfg) (c_end cfg)) (all_segs cfg)) = Some i ->
    seek_safe (mk_st cfg pfx (optimize_pre_fix cfg rem)).
  Proof.
    intros Hc E1 E2. unfold seek_safe, optimize_pre_fix. cbn [st_impl st_cfg]. rewrite E1.
    rewrite (slices_filter cfg (c_start cfg) Hc) in E2.
    set (rem0 := map (filter (kf (rng cfg))) (all_segs cfg)) in *.
    pose proof (only_abs cfg (rng cfg) rem0 i false Hc eq_refl E2) as Habs.
    destruct (only_cursor_spec _ _ E2) as [[e [t A]] _].
    assert (Hn : @nth segment i rem0 [] = filter (kf (rng cfg)) (nth i (all_segs cfg) [])).
    { apply (map_nth (filter (kf (rng cfg))) (all_segs cfg) [] i). }
    change (@nth segment i rem0 [] = e :: t) in A. rewrite Hn in Habs, A.
    assert (Hlive : live_range fm cfg = SL cfg (nth i (all_segs cfg) [])).
    { rewrite live_range_alt. unfold SL. rewrite <- Habs. unfold rem0. now rewrite view_filter. }
    destruct (i <? length (c_segs cfg)) eqn:Ei; cbn [st_impl sc_seg seg_cursor].
    - apply Nat.ltb_lt in Ei. unfold all_segs in Hlive.
      rewrite nth_with_ll_lt in Hlive by exact Ei. now rewrite Hlive.
    - apply Nat.ltb_ge in Ei.
      assert (Hne : nth i (all_segs cfg) [] <> []).
      { intros E. rewrite E in A. discriminate. }
      destruct (nth_with_ll_ge (c_segs cfg) (c_ll cfg) i Ei Hne) as [l [El Enth]].
      fold (all_segs cfg) in Enth.
      assert (Hasc : asc (keys (nth i (all_segs cfg) []))).
      { unfold cfg_ok, all_asc in Hc. rewrite Forall_forall in Hc. apply Hc. apply nth_In.
        destruct (Nat.lt_ge_cases i (length (all_segs cfg))) as [G|G]; auto.
        exfalso. apply Hne. now apply nth_overflow. }
      rewrite slice_filter by exact Hasc. rewrite Hlive. unfold SL. f_equal.
      symmetry. apply vis_all_set. intros x Hx. apply filter_In in Hx. destruct Hx as [Hx _].
      rewrite Enth in Hx. unfold ll_seg in Hx. apply in_map_iff in Hx.
      destruct Hx as [y [<- _]]. simpl. eauto.
  Qed.

  Lemma num_cursors_zero rem : num_cursors rem = 0 -> total rem = 0.
  Proof.
    unfold num_cursors. induction rem as [|r rest IH]; simpl; auto.
    destruct r; simpl; [exact IH|discriminate].
  Qed.

  Lemma num_cursors_one rem : num_cursors rem = 1 -> exists j, only_cursor rem = Some j.
  Proof.
    unfold num_cursors. induction rem as [|r rest IH]; simpl; [discriminate|].
    destruct r as [|e t]; simpl.
    - intros H. destruct (IH H) as [j ->]. simpl. eauto.
    - intros H. injection H as H. apply num_cursors_zero in H. rewrite H. simpl. eauto.
  Qed.

  (* a cursor that is live after the skip was live before it *)
  Lemma only_cursor_same cfg P (rem : list segment) i j :
    rem = map (filter (kf P)) (all_segs cfg) -> upclosed (rng cfg) P ->
    only_cursor rem = Some i ->
    only_cursor (map (filter (kf (rng cfg))) (all_segs cfg)) = Some j -> i = j.
  Proof.
    intros HP [H1 _] Ei Ej.
    destruct (only_cursor_spec _ _ Ei) as [[e [t A]] _].
    destruct (only_cursor_spec _ _ Ej) as [_ B].
    destruct (Nat.eq_dec i j) as [|Hne]; auto. exfalso.
    specialize (B i Hne).
    assert (Hn : nth i rem [] = filter (kf P) (nth i (all_segs cfg) [])).
    { rewrite HP. apply (map_nth (filter (kf P)) (all_segs cfg) [] i). }
    assert (Hn0 : @nth segment i (map (filter (kf (rng cfg))) (all_segs cfg)) []
                  = filter (kf (rng cfg)) (nth i (all_segs cfg) [])).
    { apply (map_nth (filter (kf (rng cfg))) (all_segs cfg) [] i). }
    change (@nth segment i (map (filter (kf (rng cfg))) (all_segs cfg)) [] = []) in B.
    rewrite Hn0 in B.
    assert (G : In e (filter (kf (rng cfg)) (nth i (all_segs cfg) []))).
    { assert (G : In e (nth i rem [])) by (rewrite A; simpl; auto).
      rewrite Hn in G. apply filter_In in G. destruct G as [G1 G2].
      apply filter_In. split; auto. unfold kf in *. now apply H1. }
    rewrite B in G. destruct G.
  Qed.

  Lemma optimize_fixed_spec cfg n rem : cfg_ok cfg -> wf_heap cfg rem ->
    wf_impl cfg (optimize cfg n rem) /\ abs_impl cfg (optimize cfg n rem) = absH cfg rem /\
    raw_impl cfg (optimize cfg n rem) = vis (c_incl cfg) (view rem).
  Proof.
    intros Hc Hw. unfold optimize. destruct (Nat.eqb n 1).
    - now apply optimize_spec.
    - auto.
  Qed.

  (* reachable states of the repaired iterator *)
  Definition wf (st : iter_state) : Prop := wf_pre_fix st /\ seek_safe st.

  Theorem C09_wf_start cfg : cfg_ok cfg -> wf (iter_start cfg).
  Proof.
    intros Hc. destruct (heap_start_wf cfg Hc) as [Hw _]. split.
    - split; [exact Hc|]. split; [reflexivity|].
      apply (optimize_fixed_spec cfg _ _ Hc Hw).
    - unfold iter_start, optimize.
      destruct (Nat.eqb (num_cursors_at_start cfg (c_start cfg)) 1) eqn:En; [|exact I].
      apply Nat.eqb_eq in En. unfold num_cursors_at_start in En.
      destruct (num_cursors_one _ En) as [j Ej].
      destruct (only_cursor (heap_start cfg (c_start cfg))) as [i|] eqn:Ei.
      + assert (i = j) as ->.
        { destruct Hw as [P [HP [Hu _]]].
          apply (only_cursor_same cfg P _ i j HP Hu Ei).
          rewrite (slices_filter cfg (c_start cfg) Hc) in Ej. exact Ej. }
        now apply (seek_safe_optimize cfg _ _ j).
      + unfold seek_safe, optimize_pre_fix. cbn [st_impl]. rewrite Ei. exact I.
  Qed.

  Theorem C09_start cfg : cfg_ok cfg -> c_incl cfg = false ->
    abs (iter_start cfg) = live_range fm cfg.
  Proof.
    intros Hc Hi. destruct (heap_start_wf cfg Hc) as [Hw Hv].
    unfold abs. cbn [iter_start st_cfg st_impl].
    rewrite (proj1 (proj2 (optimize_fixed_spec cfg _ _ Hc Hw))). unfold absH. rewrite Hv, Hi. reflexivity.
  Qed.

  Theorem C09_current st : wf st -> c_incl (st_cfg st) = false ->
    iter_current fm st = spec_current (abs st).
  Proof. intros [Hw _]. now apply C09_current_pre_fix. Qed.

  Theorem C09_next st : wf st ->
    wf (fst (iter_next st)) /\
    st_cfg (fst (iter_next st)) = st_cfg st /\
    abs (fst (iter_next st)) = tl (abs st) /\
    snd (iter_next st) = nonempty (tl (abs st)).
  Proof.
    intros [Hw Hs]. destruct (C09_next_pre_fix st Hw) as [A [B [C D]]].
    repeat split; auto; try apply A. now apply seek_safe_next_pre_fix.
  Qed.

  Theorem C09_seek x st : wf st -> c_incl (st_cfg st) = false ->
    wf (fst (iter_seek x st)) /\
    st_cfg (fst (iter_seek x st)) = st_cfg st /\
    abs (fst (iter_seek x st))
    = drop_lt (seek_bound (c_start (st_cfg st)) x) (live_range fm (st_cfg st)) /\
    snd (iter_seek x st) = nonempty (abs (fst (iter_seek x st))).
  Proof.
    intros [Hw Hs] Hi. destruct (C09_seek_pre_fix x st Hw Hi Hs) as [A [B [C [D E]]]].
    repeat split; auto; apply A.
  Qed.

  Theorem C09_done_sticky st : wf st -> c_incl (st_cfg st) = false -> abs st = [] ->
    iter_current fm st = RDone /\
    snd (iter_next st) = false /\
    abs (fst (iter_next st)) = [].
  Proof. intros [Hw _]. now apply C09_done_sticky_pre_fix. Qed.

  (* Required theorem 2, repaired iterator: no extra hypothesis *)
  Theorem C09_program cfg prog : cfg_ok cfg -> c_incl cfg = false ->
    run_model fm cfg prog = run_spec fm cfg prog.
  Proof.
    intros Hc Hi. unfold run_model, run_spec. rewrite <- (C09_start cfg Hc Hi).
    destruct (C09_wf_start cfg Hc) as [Hw Hs].
    apply (run_sim_pre_fix prog (iter_start cfg)); auto.
  Qed.

  Lemma raw_start cfg : cfg_ok cfg -> raw (iter_start cfg) = vis (c_incl cfg) (raw_range cfg).
  Proof.
    intros Hc. destruct (heap_start_wf cfg Hc) as [Hw Hv].
    unfold raw. cbn [iter_start st_cfg st_impl].
    rewrite (proj2 (proj2 (optimize_fixed_spec cfg _ _ Hc Hw))). exact Hv.
  Qed.

  Theorem C09_raw_gen cfg : cfg_ok cfg ->
    scan_ex (length (raw_range cfg)) (iter_start cfg) = vis (c_incl cfg) (raw_range cfg).
  Proof.
    intros Hc. rewrite <- (raw_start cfg Hc). apply scan_raw_pre_fix.
    - apply (proj1 (C09_wf_start cfg Hc)).
    - rewrite (raw_start cfg Hc). unfold vis.
      induction (raw_range cfg) as [|a l IHl]; simpl; [lia|].
      destruct (c_incl cfg || negb (is_del (snd a))); simpl; lia.
  Qed.

  Theorem C09_raw cfg : cfg_ok cfg -> c_incl cfg = true ->
    scan_ex (length (raw_range cfg)) (iter_start cfg)
    = map (fun k => (k, nop (all_segs cfg) k))
          (filter (in_range (c_start cfg) (c_end cfg)) (all_keys (all_segs cfg))).
  Proof.
    intros Hc Hi. rewrite (C09_raw_gen cfg Hc), Hi, <- raw_range_alt.
    apply filter_all. intros e _. reflexivity.
  Qed.

(* END-MAIN *)
End Main.

(* ====================================================================== *)
(* O. refutations: what the optimized implementations get wrong            *)

Local Open Scope N_scope.

Ltac solve_cfg_ok :=
  unfold cfg_ok, all_asc, all_segs; simpl;
  repeat (constructor; try reflexivity).

Definition kA : bytes := [97].   (* "a" *)
Definition kB : bytes := [98].   (* "b" *)
Definition kC : bytes := [99].
Definition kD : bytes := [100].
Definition kE : bytes := [101].

(* newer segment deletes "a"; the leading-deletion skip of startIterator
   exhausts it, optimize_pre_fix() then returns an iteratorSingle over the OLDER
   segment, and SeekTo("a") on that resurrects the deleted entry. *)
Definition cfg_r1 : config :=
  mk_cfg [[(kA, ODel)]; [(kA, OSet [1]); (kB, OSet [2])]] None None None false 100.

Theorem C09_seek_refuted :
  exists cfg x, cfg_ok cfg /\ c_incl cfg = false /\
    abs fm_append (fst (iter_seek x (iter_start_pre_fix cfg)))
    <> drop_lt (seek_bound (c_start cfg) x) (live_range fm_append cfg).
Proof.
  exists cfg_r1, kA. split; [solve_cfg_ok|]. split; [reflexivity|].
  vm_compute. discriminate.
Qed.

Theorem C09_program_refuted :
  exists cfg prog, cfg_ok cfg /\ c_incl cfg = false /\
    run_model_pre_fix fm_append cfg prog <> run_spec fm_append cfg prog.
Proof.
  exists cfg_r1, [CSeek kA; CCurrent]. split; [solve_cfg_ok|]. split; [reflexivity|].
  vm_compute. discriminate.
Qed.

(* same through the lower level: the lower-level iterator is returned as is *)
Definition cfg_r2 : config :=
  mk_cfg [[(kA, ODel)]] (Some [(kA, [1]); (kB, [2])]) None None false 100.

Theorem C09_program_lower_refuted :
  run_model_pre_fix fm_append cfg_r2 [CSeek kA; CCurrent] = [ROk; RCur kA (Some [1])] /\
  run_spec fm_append cfg_r2 [CSeek kA; CCurrent] = [ROk; RCur kB (Some [2])].
Proof. split; vm_compute; reflexivity. Qed.

(* iteratorSingle.Current merges against nil (no base): after the same kind of
   backward seek a Merge operand shadowed by a newer deletion is shown, merged
   with nothing although an older segment holds a base value. *)
Definition cfg_r3 : config :=
  mk_cfg [[(kA, ODel)]; [(kA, OMerge [120]); (kB, OSet [2])]; [(kA, OSet [7])]]
         None None None false 100.

Theorem C09_single_merge_refuted :
  run_model_pre_fix fm_append cfg_r3 [CSeek kA; CCurrent] = [ROk; RCur kA (Some [58; 120])] /\
  run_spec fm_append cfg_r3 [CSeek kA; CCurrent] = [ROk; RCur kB (Some [2])].
Proof. split; vm_compute; reflexivity. Qed.

(* with IncludeDeletions a forward SeekTo steps OVER deletion entries at or
   after the target (Current returns a nil key for them and
   bytes.Compare(x, nil) > 0), while a restart would have stopped on them *)
Definition cfg_r4 : config :=
  mk_cfg [[(kA, OSet [1]); (kC, ODel); (kD, OSet [4])]; [(kB, OSet [2])]] None None None true 100.

Theorem seek_skips_deletion_with_include_deletions :
  run_model fm_append cfg_r4 [CSeek kC; CCurrent] = [ROk; RCur kD (Some [4])] /\
  run_model fm_append cfg_r4 [CNext; CNext; CCurrent] = [ROk; ROk; RDeleted].
Proof. split; vm_compute; reflexivity. Qed.

(* ====================================================================== *)
(* P. examples                                                             *)

Definition ex_s1 : segment := [(kA, ODel); (kC, OMerge [120])].
Definition ex_s2 : segment := [(kA, OSet [1]); (kB, OSet [2]); (kC, OSet [3]); (kD, ODel)].
Definition ex_ll : list kv := [(kB, [20]); (kD, [40]); (kE, [50])].

(* shadowing, tombstones, merge over an older Set, lower level *)
Example ex_scan :
  run_iter fm_append 100 false [ex_s1; ex_s2] (Some ex_ll) None None
           [CCurrent; CNext; CCurrent; CNext; CCurrent; CNext; CCurrent]
  = [RCur kB (Some [2]); ROk; RCur kC (Some [3; 58; 120]); ROk; RCur kE (Some [50]); RDone; RDone].
Proof. vm_compute. reflexivity. Qed.

(* forward, backward and past-the-end seeks *)
Example ex_seek :
  run_iter fm_append 100 false [ex_s1; ex_s2] (Some ex_ll) None None
           [CSeek kC; CCurrent; CSeek kA; CCurrent; CSeek [122]; CCurrent; CNext; CSeek kB; CCurrent]
  = [ROk; RCur kC (Some [3; 58; 120]); ROk; RCur kB (Some [2]); RDone; RDone; RDone; ROk;
     RCur kB (Some [2])].
Proof. vm_compute. reflexivity. Qed.

(* bounds sharing the prefix "k": prefixLen = 1; max_tries = 1 forces restarts *)
Definition pk (x : N) : bytes := [107; x].
Definition ex_p1 : segment := [(pk 1, OSet [1]); (pk 3, ODel); (pk 5, OMerge [33]); ([108], OSet [9])].
Definition ex_p2 : segment := [([106], OSet [0]); (pk 2, OSet [2]); (pk 3, OSet [3]); (pk 5, OSet [5]); (pk 7, OSet [7])].

Example ex_prefix :
  run_iter fm_append 1 false [ex_p1; ex_p2] None (Some (pk 1)) (Some (pk 9))
           [CCurrent; CSeek (pk 5); CCurrent; CNext; CCurrent; CSeek [0]; CCurrent; CNext; CNext; CCurrent]
  = [RCur (pk 1) (Some [1]); ROk; RCur (pk 5) None; ROk; RCur (pk 7) (Some [7]); ROk;
     RCur (pk 1) (Some [1]); ROk; ROk; RCur (pk 5) None].
Proof. vm_compute. reflexivity. Qed.

Example ex_prefix_len : prefix_len (Some (pk 1)) (Some (pk 9)) = 1%nat.
Proof. reflexivity. Qed.

(* model = spec on these (instances of C09_program_pre_fix, by computation) *)
Example ex_model_spec :
  let cfg := mk_cfg [ex_s1; ex_s2] (Some ex_ll) (Some kB) (Some kE) false 1 in
  let prog := [CCurrent; CSeek kE; CCurrent; CSeek kA; CCurrent; CSeek kD; CCurrent; CNext] in
  run_model fm_append cfg prog = run_spec fm_append cfg prog /\
  run_model fm_append cfg prog = [RCur kB (Some [2]); RDone; RDone; ROk; RCur kB (Some [2]); RDone; RDone; RDone].
Proof. split; vm_compute; reflexivity. Qed.

(* raw enumeration with IncludeDeletions *)
Example ex_raw :
  scan_ex 10 (iter_start (mk_cfg [ex_s1; ex_s2] (Some ex_ll) None None true 100))
  = [(kA, ODel); (kB, OSet [2]); (kC, OMerge [120]); (kD, ODel); (kE, OSet [50])].
Proof. vm_compute. reflexivity. Qed.

(* the repaired iterator on the three refutation inputs: now as specified *)
Example ex_repaired :
  run_model fm_append cfg_r1 [CSeek kA; CCurrent] = [ROk; RCur kB (Some [2])] /\
  run_model fm_append cfg_r2 [CSeek kA; CCurrent] = [ROk; RCur kB (Some [2])] /\
  run_model fm_append cfg_r3 [CSeek kA; CCurrent] = [ROk; RCur kB (Some [2])] /\
  run_iter fm_append 100 false [[(kA, ODel)]; [(kA, OSet [1]); (kB, OSet [2])]] None None None
           [CCurrent; CSeek kA; CCurrent; CNext; CSeek kA; CCurrent]
  = [RCur kB (Some [2]); ROk; RCur kB (Some [2]); RDone; ROk; RCur kB (Some [2])] /\
  run_iter_pre_fix fm_append 100 false [[(kA, ODel)]; [(kA, OSet [1]); (kB, OSet [2])]] None None None
           [CCurrent; CSeek kA; CCurrent; CNext; CSeek kA; CCurrent]
  = [RCur kB (Some [2]); ROk; RCur kA (Some [1]); ROk; ROk; RCur kA (Some [1])].
Proof. repeat split; vm_compute; reflexivity. Qed.

(* the fast paths are still taken when they are safe: a single live segment *)
Example ex_fast_path_kept :
  (match st_impl (iter_start (mk_cfg [[(kA, ODel); (kB, OSet [2])]; []] None None None false 100)) with
   | ISingle _ _ => true | _ => false end) = true /\
  (match st_impl (iter_start (mk_cfg [[]] (Some [(kA, [1])]) None None false 100)) with
   | ILower _ _ => true | _ => false end) = true /\
  (match st_impl (iter_start cfg_r1) with IHeap _ => true | _ => false end) = true /\
  (match st_impl (iter_start_pre_fix cfg_r1) with ISingle _ _ => true | _ => false end) = true.
Proof. repeat split; vm_compute; reflexivity. Qed.

(* main theorems, repaired iterator *)
Print Assumptions C09_prefix_strip.
Print Assumptions C09_sorted.
Print Assumptions C09_wf_start.
Print Assumptions C09_start.
Print Assumptions C09_current.
Print Assumptions C09_next.
Print Assumptions C09_seek.
Print Assumptions C09_done_sticky.
Print Assumptions C09_program.
Print Assumptions C09_raw.
(* iterator of the pinned commit *)
Print Assumptions C09_seek_pre_fix.
Print Assumptions C09_program_pre_fix.
Print Assumptions C09_program_noseek_pre_fix.
Print Assumptions C09_program_opt_safe_pre_fix.
Print Assumptions C09_raw_pre_fix.
Print Assumptions C09_seek_refuted.
Print Assumptions C09_program_refuted.
Print Assumptions C09_program_lower_refuted.
Print Assumptions C09_single_merge_refuted.
