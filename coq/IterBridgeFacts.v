From Coq Require Import List NArith Bool Lia Arith.
From Moss Require Import Bytes BytesFacts Segment SegmentFacts Stack StackFacts Collection CollectionFacts
     Iterator IteratorFacts IterBridge.

(* two key-ascending association lists with the same members are equal *)
Lemma asc_pairs_ext {A} (l1 l2 : list (bytes * A)) :
  asc (map fst l1) -> asc (map fst l2) -> (forall x, In x l1 <-> In x l2) -> l1 = l2.
Proof.
  revert l2. induction l1 as [|a l1 IH]; intros [|b l2] H1 H2 H; auto.
  - exfalso. apply (H b). simpl; auto.
  - exfalso. apply (H a). simpl; auto.
  - simpl in H1, H2.
    assert (a = b) as ->.
    { destruct (proj1 (H a) (or_introl eq_refl)) as [E|E]; auto.
      destruct (proj2 (H b) (or_introl eq_refl)) as [F|F]; auto.
      pose proof (asc_head_lt _ _ H2 _ (in_map fst _ _ E)) as G1.
      pose proof (asc_head_lt _ _ H1 _ (in_map fst _ _ F)) as G2.
      unfold blt in *. pose proof (bcmp_trans _ _ _ G1 G2) as G.
      rewrite bcmp_refl in G. discriminate. }
    f_equal. apply IH; [eapply asc_tail; eauto|eapply asc_tail; eauto|].
    intros x. split; intros Hx.
    + destruct (proj1 (H x) (or_intror Hx)) as [E|E]; auto. subst.
      pose proof (asc_head_lt _ _ H1 _ (in_map fst _ _ Hx)) as G. unfold blt in G. rewrite bcmp_refl in G. discriminate.
    + destruct (proj2 (H x) (or_intror Hx)) as [E|E]; auto. subst.
      pose proof (asc_head_lt _ _ H2 _ (in_map fst _ _ Hx)) as G. unfold blt in G. rewrite bcmp_refl in G. discriminate.
Qed.

Section WithMerge.
  Variable fm : bytes -> value -> bytes -> value.
  Notation llv := (llv fm).
  Notation sget := (sget fm).

  (* --- reads in terms of the newest op --------------------------------- *)
  Lemma sget_newest_some ss below k o :
    newest ss k = Some o -> exists cur, sget ss below k = apply_op fm k cur o.
  Proof.
    induction ss as [|s r IH]; simpl; [discriminate|].
    destruct (find s k) as [o'|] eqn:E.
    - intros [= ->]. eauto.
    - exact IH.
  Qed.

  Lemma sget_newest_none' ss below k : newest ss k = None -> sget ss below k = below k.
  Proof.
    intros H. pose proof (sget_newest_none fm ss [] below k H) as G.
    rewrite app_nil_r in G. exact G.
  Qed.

  Lemma live_iff_not_del ss k o :
    nonil fm -> newest ss k = Some o -> (sget ss no_below k <> None <-> o <> ODel).
  Proof.
    intros Hn H. destruct (sget_newest_some ss no_below k o H) as [cur ->].
    destruct o; simpl; split; intros G; try congruence; try discriminate.
  Qed.

  (* --- the lower level as a key/value list ------------------------------ *)
  Lemma assoc_notin (f : bytes -> list kv) ks k :
    (forall a e, In e (f a) -> fst e = a) -> ~ In k ks -> assoc (flat_map f ks) k = None.
  Proof.
    intros Hf. induction ks as [|a r IH]; simpl; auto. intros Hn.
    assert (Ha : a <> k) by tauto. assert (Hr : ~ In k r) by tauto.
    specialize (IH Hr). revert Hf Ha IH. generalize (flat_map f r). intros rest Hf Ha IH.
    specialize (Hf a). induction (f a) as [|[k' v] l IHl]; simpl; auto.
    assert (k' = a) by (apply (Hf (k', v)); simpl; auto). subst k'.
    apply beqb_false in Ha. rewrite Ha. apply IHl. intros e He. apply Hf. simpl; auto.
  Qed.

  Lemma ll_entry_fst l a e : In e (ll_entry fm l a) -> fst e = a.
  Proof. unfold ll_entry. destruct (llv l a); simpl; [intros [<-|[]]; reflexivity|intros []]. Qed.

  Lemma assoc_ll_entries_aux l ks k :
    NoDup ks -> assoc (flat_map (ll_entry fm l) ks) k = if in_dec (list_eq_dec N.eq_dec) k ks then llv l k else None.
  Proof.
    induction ks as [|a r IH]; intros Hnd; simpl; auto.
    inversion Hnd as [|? ? Hna Hr]; subst. specialize (IH Hr).
    destruct (list_eq_dec N.eq_dec a k) as [->|Hne].
    - unfold ll_entry at 1. destruct (llv l k) as [b|] eqn:E; simpl.
      + now rewrite beqb_refl.
      + apply assoc_notin; auto. intros a e. apply ll_entry_fst.
    - assert (Hb : beqb a k = false) by now apply beqb_false.
      unfold ll_entry at 1. destruct (llv l a) as [b|]; simpl; [rewrite Hb|];
        rewrite IH; destruct (in_dec (list_eq_dec N.eq_dec) k r); auto.
  Qed.

  Lemma llv_notin l k : ~ In k (all_keys l) -> llv l k = None.
  Proof.
    intros H. unfold Collection.llv. rewrite sget_newest_none'; auto.
    destruct (newest l k) eqn:E; auto. exfalso. apply H.
    apply newest_some_in_all_keys. congruence.
  Qed.

  (* a point read of the list is a point read of the lower level *)
  Lemma assoc_ll_entries l k : assoc (ll_entries fm l) k = llv l k.
  Proof.
    unfold ll_entries. rewrite assoc_ll_entries_aux by (apply asc_NoDup, all_keys_asc).
    destruct (in_dec (list_eq_dec N.eq_dec) k (all_keys l)); auto.
    symmetry. now apply llv_notin.
  Qed.

  Lemma keys_ll_seg l ks :
    keys (ll_seg (flat_map (ll_entry fm l) ks))
    = filter (fun k => match llv l k with Some _ => true | None => false end) ks.
  Proof.
    induction ks as [|a r IH]; simpl; auto.
    unfold ll_seg, keys in *. rewrite !map_app.
    unfold ll_entry at 1. destruct (llv l a); simpl; [f_equal|]; exact IH.
  Qed.

  Lemma ll_entries_asc l : asc (keys (ll_seg (ll_entries fm l))).
  Proof. unfold ll_entries. rewrite keys_ll_seg. apply asc_filter, all_keys_asc. Qed.

  (* --- sortedness of the sections is an invariant ------------------------ *)
  Definition segs_asc (ss : list segment) : Prop := Forall (fun s => asc (keys s)) ss.

  Definition secs_asc (s : cstate) : Prop :=
    segs_asc (top s) /\ segs_asc (olist (mid s)) /\ segs_asc (olist (base s)) /\ segs_asc (clean s) /\
    match cached s with Some sn => segs_asc (sn_segs sn) | None => True end.

  Lemma segs_asc_app a b : segs_asc a -> segs_asc b -> segs_asc (a ++ b).
  Proof. intros; apply Forall_app; auto. Qed.

  Lemma segs_asc_skipn n ss : segs_asc ss -> segs_asc (skipn n ss).
  Proof.
    intros H. apply Forall_forall. intros x Hx. apply In_skipn_in in Hx.
    unfold segs_asc in H. rewrite Forall_forall in H. auto.
  Qed.

  Lemma secs_asc_cur s : secs_asc s -> segs_asc (sn_segs (cur_snapshot s)).
  Proof.
    intros (Ht & Hm & Hb & Hc & Hs). unfold cur_snapshot. destruct (cached s); auto.
    simpl. repeat apply segs_asc_app; auto.
  Qed.

  Lemma step_secs_asc c s l s' : secs_asc s -> step fm c s l = Some s' -> secs_asc s'.
  Proof.
    intros HI. pose proof (secs_asc_cur s HI) as Hcur.
    destruct HI as (Ht & Hm & Hb & Hc & Hs). unfold step.
    destruct (closed s); [discriminate|].
    destruct l as [b| |lvl| | |l'| | |].
    - destruct (uniq_keys (keys b) && negb (Nat.eqb (length b) 0)) eqn:E; [|discriminate].
      intros [= <-]. unfold secs_asc; simpl. repeat split; auto.
      constructor; auto. apply sort_seg_asc. apply uniq_keys_NoDup.
      apply andb_true_iff in E. tauto.
    - destruct (merger s); try discriminate. intros [= <-]. unfold secs_asc; simpl.
      repeat split; auto; try constructor. now apply segs_asc_app.
    - destruct (merger s) as [|mbase mll|]; try discriminate.
      destruct (Nat.ltb lvl (length (olist (mid s))) || Nat.eqb (length (olist (mid s))) 0); [|discriminate].
      intros [= <-]. unfold secs_asc; simpl. repeat split; auto.
      + destruct (olist (mid s)) as [|m0 mr] eqn:Em; [constructor|].
        destruct (Nat.ltb lvl (length (m0 :: mr))); auto.
        unfold merge_stack, split_at. constructor; [apply merge_range_asc|].
        now apply segs_asc_skipn.
      + destruct (olist (mid s)); [exact Hs|exact I].
    - destruct (merger s); try discriminate.
      destruct (base s) as [bb|] eqn:Eb; destruct (mid s) as [mm|] eqn:Em;
        try (intros [= <-]; unfold secs_asc; simpl; rewrite ?Eb, ?Em; simpl; repeat split; auto; fail).
      destruct (has_ll c); intros [= <-]; unfold secs_asc; simpl; rewrite ?Eb, ?Em; simpl;
        repeat split; auto; constructor.
    - destruct (persister s); try discriminate. destruct (base s) eqn:Eb; try discriminate.
      destruct (has_ll c); [|discriminate]. intros [= <-]. unfold secs_asc; simpl. rewrite <- ?Eb. repeat split; auto.
    - destruct (persister s); try discriminate. destruct (base s) as [bb|] eqn:Eb; try discriminate.
      destruct (publish_ok fm bb (ll s) l'); [|discriminate]. intros [= <-]. unfold secs_asc; simpl.
      repeat split; auto; try constructor.
      destruct (cache_persisted c && negb (existsb seg_has_merge bb)); auto. constructor.
    - destruct (persister s); try discriminate. intros [= <-]. unfold secs_asc; simpl. repeat split; auto.
    - intros [= <-]. unfold secs_asc; simpl. repeat split; auto.
    - intros [= <-]. unfold secs_asc; simpl. repeat split; constructor.
  Qed.

  Lemma run_secs_asc c ls : forall s s', secs_asc s -> run fm c s ls = Some s' -> secs_asc s'.
  Proof.
    induction ls as [|l r IH]; simpl; intros s s' HI.
    - intros [= <-]. exact HI.
    - destruct (step fm c s l) as [s1|] eqn:E; [|discriminate].
      apply IH. eapply step_secs_asc; eauto.
  Qed.

  Lemma secs_asc_init l0 : secs_asc (init l0).
  Proof. unfold secs_asc; simpl. repeat split; constructor. Qed.

  (* --- the iterator configuration of a snapshot -------------------------- *)
  Lemma snap_cfg_ok sn start end_ tries :
    segs_asc (sn_segs sn) -> cfg_ok (snap_cfg fm sn start end_ tries).
  Proof.
    intros H. unfold cfg_ok, all_asc, snap_cfg, all_segs; simpl.
    apply Forall_app. split; auto. constructor; [apply ll_entries_asc|constructor].
  Qed.

  Lemma snap_cfg_full_get sn start end_ tries k :
    full_get fm (snap_cfg fm sn start end_ tries) k = snap_get fm sn k.
  Proof.
    unfold full_get, snap_cfg, snap_get; simpl. apply sget_ext. apply assoc_ll_entries.
  Qed.

  (* membership in the specification list, by value: exactly the keys of the
     range whose read is not nil, each with its read *)
  Lemma live_range_by_value cfg k v :
    nonil fm ->
    (In (k, v) (live_range fm cfg) <->
     in_range (c_start cfg) (c_end cfg) k = true /\ v = full_get fm cfg k /\ v <> None).
  Proof.
    intros Hn. rewrite live_range_spec. fold (full_get fm cfg k).
    rewrite (full_get_bridge fm cfg k). split.
    - intros (Hr & (o & Ho & Hd) & ->). repeat split; auto.
      apply (live_iff_not_del _ _ _ Hn Ho); auto.
    - intros (Hr & -> & Hv). repeat split; auto.
      destruct (newest (all_segs cfg) k) as [o|] eqn:E.
      + exists o. split; auto. apply (live_iff_not_del _ _ _ Hn E); auto.
      + exfalso. apply Hv. now rewrite sget_newest_none'.
  Qed.

  (* the key/value list standing for the lower level is what the lower level's
     own iterator enumerates (C09 applied to the store snapshot) *)
  Lemma ll_entries_is_ll_iteration l :
    nonil fm -> map (fun e => (fst e, Some (snd e))) (ll_entries fm l) = live_range fm (ll_cfg l).
  Proof.
    intros Hn.
    assert (A : forall k v, In (k, v) (map (fun e : kv => (fst e, Some (snd e))) (ll_entries fm l)) <->
                            In (k, v) (live_range fm (ll_cfg l))).
    { intros k v. rewrite (live_range_by_value (ll_cfg l) k v Hn). unfold ll_cfg, full_get; simpl.
      rewrite in_map_iff. split.
      - intros [[k' b] [E Hin]]. simpl in E. injection E as -> <-.
        unfold ll_entries in Hin. apply in_flat_map in Hin. destruct Hin as [a [Ha Hin]].
        unfold ll_entry in Hin. destruct (llv l a) as [b'|] eqn:E; [|destruct Hin].
        destruct Hin as [[= <- <-]|[]]. repeat split; try discriminate.
        + unfold in_range; simpl. destruct a; reflexivity.
        + symmetry. exact E.
      - intros (_ & -> & Hv). change (Stack.sget fm l (ll_get None) k) with (llv l k) in *.
        destruct (llv l k) as [b|] eqn:E; [|congruence]. exists (k, b). split; auto.
        unfold ll_entries. apply in_flat_map. exists k. split.
        + destruct (in_dec (list_eq_dec N.eq_dec) k (all_keys l)); auto.
          rewrite llv_notin in E; auto. discriminate.
        + unfold ll_entry. rewrite E. simpl; auto. }
    apply asc_pairs_ext.
    - rewrite map_map. simpl. pose proof (ll_entries_asc l) as G.
      unfold keys, ll_seg in G. rewrite map_map in G. exact G.
    - apply C09_sorted.
    - intros [k v]. apply A.
  Qed.

  (* C01 / C09 / C10, iteration: on every reachable state, whatever the schedule,
     an iterator over the current snapshot (any bounds, any naive-seek budget)
     answers every program of Next / SeekTo / Current calls like the
     specification iterator over a list that is strictly ascending and holds
     exactly the keys of the range the reference maps to a value, each with
     that value: nothing missing, nothing extra, nothing stale. *)
  Theorem iteration_is_reference c l0 ls s start end_ tries :
    nonil fm -> run fm c (init l0) ls = Some s -> closed s = false ->
    let cfg := snap_cfg fm (cur_snapshot s) start end_ tries in
    (forall prog, run_model fm cfg prog = run_spec fm cfg prog) /\
    asc (map fst (live_range fm cfg)) /\
    (forall k v, In (k, v) (live_range fm cfg) <->
       in_range start end_ k = true /\ v <> None /\
       v = ref_from fm (llv l0) (batches ls) k).
  Proof.
    intros Hn Hr Hc cfg.
    assert (Hok : cfg_ok cfg).
    { apply snap_cfg_ok. apply secs_asc_cur. eapply run_secs_asc; [apply secs_asc_init|eauto]. }
    split; [|split].
    - intros prog. apply C09_program; auto.
    - apply C09_sorted.
    - intros k v. rewrite (live_range_by_value cfg k v Hn).
      unfold cfg at 3. rewrite snap_cfg_full_get.
      destruct (reads_are_reference fm c l0 ls s Hr Hc k) as [H1 _]. rewrite H1.
      unfold cfg; simpl. tauto.
  Qed.
End WithMerge.
