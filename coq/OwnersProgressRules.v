(* OwnersProgressRules.v -- the strengthened ownership invariant (a KIND discipline
   of the heap: a mapping holds a FileRef, a footer mappings and child footers, a
   wrapper a footer, a stack at most one wrapper and child stacks; the kinds of
   what roots and handles point to) and one total-correctness rule per primitive
   of the little language of Owners.v: under the invariant the primitive runs,
   re-establishes the invariant and changes the state as stated.  Used by
   OwnersProgressFacts.v. *)
From Coq Require Import List Arith Bool Lia.
From Moss Require Import Owners OwnersFacts OwnersProgress.
Import ListNotations.

(* ------------------------------------------------------------------ *)
(* how a heap may change *)

Definition kext (h h' : heap) : Prop :=
  forall o ob, nth_error h o = Some ob ->
    exists ob', nth_error h' o = Some ob' /\ o_kind ob' = o_kind ob /\ o_top ob' = o_top ob.

(* AddRef, a new object: nothing is lost *)
Definition grow (h h' : heap) : Prop :=
  forall o ob, nth_error h o = Some ob ->
    exists ob', nth_error h' o = Some ob' /\ o_kind ob' = o_kind ob /\ o_top ob' = o_top ob /\
                o_refs ob' = o_refs ob /\ o_kids ob' = o_kids ob /\ o_cnt ob <= o_cnt ob'.

(* DecRef with its cascade: what is alive afterwards was alive and holds what it held *)
Definition dec (h h' : heap) : Prop :=
  length h' = length h /\
  forall o ob, nth_error h o = Some ob ->
    exists ob', nth_error h' o = Some ob' /\ o_kind ob' = o_kind ob /\ o_top ob' = o_top ob /\
                (o_cnt ob' > 0 -> o_refs ob' = o_refs ob /\ o_kids ob' = o_kids ob /\ o_cnt ob > 0).

Lemma kext_refl h : kext h h.
Proof. intros o ob H. exists ob. auto. Qed.
Lemma kext_trans a b c : kext a b -> kext b c -> kext a c.
Proof.
  intros H1 H2 o ob H. destruct (H1 o ob H) as [ob1 [E1 [K1 T1]]].
  destruct (H2 o ob1 E1) as [ob2 [E2 [K2 T2]]]. exists ob2. repeat split; congruence.
Qed.
Lemma grow_refl h : grow h h.
Proof. intros o ob H. exists ob. auto 10. Qed.
Lemma grow_trans a b c : grow a b -> grow b c -> grow a c.
Proof.
  intros H1 H2 o ob H. destruct (H1 o ob H) as [ob1 [E1 [K1 [T1 [R1 [D1 C1]]]]]].
  destruct (H2 o ob1 E1) as [ob2 [E2 [K2 [T2 [R2 [D2 C2]]]]]]. exists ob2.
  repeat split; try congruence. lia.
Qed.
Lemma grow_kext a b : grow a b -> kext a b.
Proof. intros H o ob E. destruct (H o ob E) as [ob' [E' [K [T _]]]]. eauto. Qed.
Lemma dec_refl h : dec h h.
Proof. split; auto. intros o ob H. exists ob. auto 10. Qed.
Lemma dec_trans a b c : dec a b -> dec b c -> dec a c.
Proof.
  intros [L1 H1] [L2 H2]. split; [congruence|]. intros o ob H.
  destruct (H1 o ob H) as [ob1 [E1 [K1 [T1 P1]]]].
  destruct (H2 o ob1 E1) as [ob2 [E2 [K2 [T2 P2]]]]. exists ob2.
  repeat split; try congruence; destruct (P2 H0) as [A [B C]]; destruct (P1 C) as [A' [B' C']];
    congruence || assumption.
Qed.
Lemma dec_kext a b : dec a b -> kext a b.
Proof. intros [_ H] o ob E. destruct (H o ob E) as [ob' [E' [K [T _]]]]. eauto. Qed.

Lemma kext_upd h o ob ob' : nth_error h o = Some ob ->
  o_kind ob' = o_kind ob -> o_top ob' = o_top ob -> kext h (upd o ob' h).
Proof.
  intros Ho K T a oa Ha. destruct (Nat.eq_dec o a) as [->|N].
  - rewrite nth_upd_same by (eapply nth_some_lt; eauto). rewrite Ho in Ha. inversion Ha; subst. eauto.
  - rewrite nth_upd_other by auto. eauto.
Qed.
Lemma grow_upd h o ob ob' : nth_error h o = Some ob ->
  o_kind ob' = o_kind ob -> o_top ob' = o_top ob -> o_refs ob' = o_refs ob ->
  o_kids ob' = o_kids ob -> o_cnt ob <= o_cnt ob' -> grow h (upd o ob' h).
Proof.
  intros Ho K T R D C a oa Ha. destruct (Nat.eq_dec o a) as [->|N].
  - rewrite nth_upd_same by (eapply nth_some_lt; eauto). rewrite Ho in Ha. inversion Ha; subst.
    exists ob'. auto 10.
  - rewrite nth_upd_other by auto. exists oa. auto 10.
Qed.
Lemma grow_snoc h ob : grow h (h ++ [ob]).
Proof.
  intros a oa Ha. exists oa. split; [|auto 10]. rewrite nth_error_app1; auto. eapply nth_some_lt; eauto.
Qed.
Lemma dec_upd h o ob ob' : nth_error h o = Some ob ->
  o_kind ob' = o_kind ob -> o_top ob' = o_top ob ->
  (o_cnt ob' > 0 -> o_refs ob' = o_refs ob /\ o_kids ob' = o_kids ob /\ o_cnt ob > 0) ->
  dec h (upd o ob' h).
Proof.
  intros Ho K T P. split; [apply upd_length|]. intros a oa Ha. destruct (Nat.eq_dec o a) as [->|N].
  - rewrite nth_upd_same by (eapply nth_some_lt; eauto). rewrite Ho in Ha. inversion Ha; subst.
    exists ob'. auto.
  - rewrite nth_upd_other by auto. exists oa. auto 10.
Qed.

(* ------------------------------------------------------------------ *)
(* kinds *)

Definition has (h : heap) (o : oid) (k : kind) (t : bool) : Prop :=
  exists ob, nth_error h o = Some ob /\ o_kind ob = k /\ o_top ob = t.
Definition hask (h : heap) (o : oid) (k : kind) : Prop := exists t, has h o k t.
Definition live (h : heap) (o : oid) : Prop := cnt_of h o > 0.

Lemma has_kext h h' o k t : kext h h' -> has h o k t -> has h' o k t.
Proof.
  intros K [ob [E [A B]]]. destruct (K o ob E) as [ob' [E' [A' B']]]. exists ob'.
  repeat split; congruence.
Qed.
Lemma hask_kext h h' o k : kext h h' -> hask h o k -> hask h' o k.
Proof. intros K [t H]. exists t. eapply has_kext; eauto. Qed.
Lemma has_hask h o k t : has h o k t -> hask h o k.
Proof. intros H. exists t. exact H. Qed.
Lemma live_grow h h' o : grow h h' -> live h o -> live h' o.
Proof.
  unfold live, cnt_of. intros Gr L. destruct (nth_error h o) as [ob|] eqn:E; [|lia].
  destruct (Gr o ob E) as [ob' [E' [_ [_ [_ [_ C]]]]]]. rewrite E'. lia.
Qed.

(* the kind of what an object of kind k holds a counted reference on *)
Definition ref_kind (k : kind) : kind :=
  match k with KFile => KFile | KMmap => KFile | KFooter => KMmap | KWrap => KFooter | KStack => KWrap end.

Definition ty_obj (h : heap) (ob : obj) : Prop :=
  (forall r, In r (o_refs ob) -> o_kind ob <> KFile /\ hask h r (ref_kind (o_kind ob))) /\
  (forall c, In c (o_kids ob) ->
     (o_kind ob = KFooter \/ o_kind ob = KStack) /\ has h c (o_kind ob) false) /\
  (o_kind ob = KStack -> length (o_refs ob) <= 1).
Definition Ty (h : heap) : Prop := forall a ob, nth_error h a = Some ob -> ty_obj h ob.

Lemma ty_obj_kext h h' ob : kext h h' -> ty_obj h ob -> ty_obj h' ob.
Proof.
  intros K [A [B C]]. split; [|split]; auto.
  - intros r Hr. destruct (A r Hr) as [N H]. split; auto. eapply hask_kext; eauto.
  - intros c Hc. destruct (B c Hc) as [N H]. split; auto. eapply has_kext; eauto.
Qed.
Lemma ty_obj_same h ob ob' : o_kind ob' = o_kind ob -> o_refs ob' = o_refs ob ->
  o_kids ob' = o_kids ob -> ty_obj h ob -> ty_obj h ob'.
Proof. unfold ty_obj. intros -> -> ->. auto. Qed.
Lemma ty_obj_empty h ob : o_refs ob = [] -> o_kids ob = [] -> ty_obj h ob.
Proof. unfold ty_obj. intros -> ->. simpl. repeat split; try contradiction. lia. Qed.

Lemma Ty_upd h o ob ob' : Ty h -> nth_error h o = Some ob ->
  o_kind ob' = o_kind ob -> o_top ob' = o_top ob -> ty_obj h ob' -> Ty (upd o ob' h).
Proof.
  intros T Ho K Tp W. pose proof (kext_upd h o ob ob' Ho K Tp) as X.
  intros a oa Ha. destruct (Nat.eq_dec o a) as [->|N].
  - rewrite nth_upd_same in Ha by (eapply nth_some_lt; eauto). inversion Ha; subst.
    eapply ty_obj_kext; eauto.
  - rewrite nth_upd_other in Ha by auto. eapply ty_obj_kext; eauto.
Qed.
Lemma Ty_snoc h ob : Ty h -> ty_obj h ob -> Ty (h ++ [ob]).
Proof.
  intros T W a oa Ha. pose proof (grow_kext _ _ (grow_snoc h ob)) as X.
  destruct (lt_dec a (length h)).
  - rewrite nth_error_app1 in Ha by lia. eapply ty_obj_kext; eauto.
  - rewrite nth_error_app2 in Ha by lia. destruct (a - length h) as [|k]; simpl in Ha.
    + inversion Ha; subst. eapply ty_obj_kext; eauto.
    + destruct k; discriminate.
Qed.

Lemma release_frame : forall fuel work h fs lg h' fs' lg',
  Ty h -> release fuel work h fs lg = Some (h', fs', lg') -> Ty h' /\ dec h h'.
Proof.
  induction fuel as [|f IH]; intros work h fs lg h' fs' lg' T H.
  - destruct work; simpl in H; [|discriminate]. inversion H; subst. split; auto. apply dec_refl.
  - destruct work as [|o w]; simpl in H.
    + inversion H; subst. split; auto. apply dec_refl.
    + destruct (nth_error h o) as [ob|] eqn:Ho; [|discriminate].
      destruct (o_cnt ob) as [|[|n]] eqn:Ec; [discriminate| |].
      * destruct (IH _ _ _ _ _ _ _ (Ty_upd h o ob (cleared ob) T Ho eq_refl eq_refl
                                      (ty_obj_empty _ (cleared ob) eq_refl eq_refl)) H) as [T' D].
        split; auto. eapply dec_trans; [|exact D].
        apply (dec_upd h o ob (cleared ob) Ho eq_refl eq_refl). simpl. lia.
      * destruct (IH _ _ _ _ _ _ _ (Ty_upd h o ob (set_cnt ob (S n)) T Ho eq_refl eq_refl
                    (ty_obj_same _ _ _ eq_refl eq_refl eq_refl (T o ob Ho))) H) as [T' D].
        split; auto. eapply dec_trans; [|exact D].
        apply (dec_upd h o ob (set_cnt ob (S n)) Ho eq_refl eq_refl). simpl. intros _.
        repeat split; auto. lia.
Qed.

(* ------------------------------------------------------------------ *)
(* the strengthened invariant *)

Definition slot_kind (s : slot) : kind :=
  match s with SFooter | PNext => KFooter | SLL => KWrap | _ => KStack end.

Definition okind (h : heap) (x : option oid) (k : kind) : Prop :=
  match x with Some o => hask h o k | None => True end.

Definition handle_ty (h : heap) (hd : handle) : Prop :=
  match hd with
  | HSnap s => hask h s KStack
  | HFoot f => hask h f KFooter
  | HIter ss ll c | HIter_pre_fix ss ll c => okind h ss KStack /\ okind h ll KFooter /\ okind h c KFooter
  end.

Definition RootsTy (st : state) : Prop :=
  (forall sl o, regs st sl = Some o -> hask (hp st) o (slot_kind sl)) /\
  (forall hd, In hd (handles st) -> handle_ty (hp st) hd).

Definition G (st : state) : Prop := Inv st /\ Ty (hp st) /\ RootsTy st.

Lemma okind_kext h h' x k : kext h h' -> okind h x k -> okind h' x k.
Proof. destruct x; simpl; auto. apply hask_kext. Qed.
Lemma handle_ty_kext h h' hd : kext h h' -> handle_ty h hd -> handle_ty h' hd.
Proof.
  intros K. destruct hd; simpl; try (apply hask_kext; exact K);
    intros [A [B C]]; repeat split; eapply okind_kext; eauto.
Qed.

Lemma RootsTy_ext st st' : kext (hp st) (hp st') ->
  (forall sl o, regs st' sl = Some o -> regs st sl = Some o \/ hask (hp st') o (slot_kind sl)) ->
  (forall hd, In hd (handles st') -> In hd (handles st) \/ handle_ty (hp st') hd) ->
  RootsTy st -> RootsTy st'.
Proof.
  intros K R H [A B]. split.
  - intros sl o E. destruct (R sl o E) as [E'|E']; auto. eapply hask_kext; eauto.
  - intros hd Hin. destruct (H hd Hin) as [E'|E']; auto. eapply handle_ty_kext; eauto.
Qed.

(* liveness from the invariant *)
Lemma live_root st o : G st -> In o (roots st) -> live (hp st) o.
Proof. intros [[A _ _] _] Hin. unfold live. rewrite (A o). apply cn_in in Hin. lia. Qed.
Lemma live_ref st a ob o : G st -> nth_error (hp st) a = Some ob -> In o (orefs ob) -> live (hp st) o.
Proof.
  intros [[A _ _] _] Ha Hin. unfold live. rewrite (A o).
  assert (In o (allrefs (hp st))) by (eapply in_allrefs; eauto). apply cn_in in H. lia.
Qed.
Lemma live_has h o : live h o -> exists ob, nth_error h o = Some ob /\ o_cnt ob > 0.
Proof. unfold live, cnt_of. destruct (nth_error h o) as [ob|]; [eauto|lia]. Qed.

(* ------------------------------------------------------------------ *)
(* running to the end *)

Definition runs (m : M) (s : state) (Q : state -> Prop) : Prop := exists s', m s = Some s' /\ Q s'.
Definition hsplit (l rs l' : list oid) : Prop := forall x, cn x l = cn x rs + cn x l'.

Lemma runs_ret s (Q : state -> Prop) : Q s -> runs ret s Q.
Proof. intros H. exists s. split; auto. Qed.
Lemma runs_bind a b s Q : runs a s (fun s1 => runs b s1 Q) -> runs (a ;; b) s Q.
Proof. intros [s1 [E [s2 [E2 H]]]]. exists s2. unfold bind. rewrite E. auto. Qed.
Lemma runs_rd {A} (f : state -> A) k s Q : runs (k (f s)) s Q -> runs (rd f k) s Q.
Proof. auto. Qed.
Lemma runs_guard b m s (Q : state -> Prop) :
  (b s = true -> runs m s Q) -> (b s = false -> Q s) -> runs (guard b m) s Q.
Proof.
  intros H1 H2. unfold runs, guard. destruct (b s); [apply H1; auto|]. exists s. auto.
Qed.
Lemma runs_conseq m s (Q Q' : state -> Prop) : runs m s Q -> (forall s', Q s' -> Q' s') -> runs m s Q'.
Proof. intros [s' [E H]] K. exists s'. auto. Qed.

Lemma removes_ok rs : forall l, (forall x, cn x rs <= cn x l) -> exists l', removes rs l = Some l'.
Proof.
  induction rs as [|r t IH]; intros l H; simpl; [eauto|].
  assert (Hin : In r l).
  { apply cn_in. specialize (H r). rewrite cn_cons, Nat.eqb_refl in H. lia. }
  destruct (in_remove1 r l Hin) as [l1 R1]. rewrite R1. apply IH. intros x.
  pose proof (remove1_cn _ _ _ R1 x) as Q. specialize (H x). rewrite cn_cons in H.
  destruct (Nat.eqb r x); lia.
Qed.

Lemma runs_addref o s (Q : state -> Prop) : G s -> live (hp s) o ->
  (forall h' lg',
     G (mkState h' (files s) (regs s) (handles s) (o :: hand s) (leaked s) lg' (ct s)) ->
     grow (hp s) h' ->
     Q (mkState h' (files s) (regs s) (handles s) (o :: hand s) (leaked s) lg' (ct s))) ->
  runs (addref o) s Q.
Proof.
  intros [I [T R]] L K. destruct (live_has _ _ L) as [ob [Ho Ec]].
  unfold runs. assert (E : exists n, o_cnt ob = S n) by (destruct (o_cnt ob); [lia|eauto]).
  destruct E as [n En]. eexists. split.
  - unfold addref. rewrite Ho, En. reflexivity.
  - apply K.
    + split; [|split].
      * apply (pres_addref o s); auto. unfold addref. rewrite Ho, En. reflexivity.
      * simpl. eapply Ty_upd; eauto. eapply ty_obj_same; [| | |apply (T o ob Ho)]; reflexivity.
      * eapply RootsTy_ext; [| | |exact R]; simpl; auto.
        eapply kext_upd; eauto.
    + eapply grow_upd; eauto. simpl. lia.
Qed.

Lemma runs_decref o s (Q : state -> Prop) : G s -> In o (hand s) ->
  (forall h' fs' l' lg',
     G (mkState h' fs' (regs s) (handles s) l' (leaked s) lg' (ct s)) ->
     dec (hp s) h' -> hsplit (hand s) [o] l' ->
     Q (mkState h' fs' (regs s) (handles s) l' (leaked s) lg' (ct s))) ->
  runs (decref o) s Q.
Proof.
  intros [I [T R]] Hin K.
  destruct (decref_of_held_reference_succeeds s o I Hin) as [s' E]. exists s'. split; auto.
  pose proof (pres_decref o s s' I E) as I'. unfold decref in E.
  destruct (remove1 o (hand s)) as [l|] eqn:Rm; [|discriminate].
  destruct (release (S (total (hp s))) [o] (hp s) (files s) (elog s)) as [[[h' fs'] lg']|] eqn:Rl;
    [|discriminate].
  inversion E; subst s'; clear E.
  destruct (release_frame _ _ _ _ _ _ _ _ T Rl) as [T' D].
  apply K; auto.
  - split; [exact I'|split; [exact T'|]].
    eapply RootsTy_ext; [| | |exact R]; simpl; auto. apply dec_kext; auto.
  - intros x. pose proof (remove1_cn _ _ _ Rm x) as Q1. rewrite cn_cons, cn_nil. lia.
Qed.

Lemma ref_kind_rank ob ob' : o_kind ob <> KFile -> o_kind ob' = ref_kind (o_kind ob) -> rank ob' < rank ob.
Proof.
  unfold rank. intros N E. rewrite E. destruct (o_kind ob), (o_top ob), (o_top ob'); simpl; try lia; congruence.
Qed.

Definition allk (h : heap) (l : list oid) (k : kind) : Prop := forall c, In c l -> hask h c k.
Definition allhas (h : heap) (l : list oid) (k : kind) (t : bool) : Prop := forall c, In c l -> has h c k t.
Definition alllive (h : heap) (l : list oid) : Prop := forall c, In c l -> live h c.
Definition hle (rs l : list oid) : Prop := forall x, cn x rs <= cn x l.
Definition hbal (l N P : list oid) : Prop := forall x, cn x l + cn x N = cn x P.

(* a new object *)
Lemma runs_alloc_k k top rs ks file cont s (Q : state -> Prop) : G s ->
  hle (rs ++ ks) (hand s) ->
  (k <> KFile \/ rs = []) ->
  allk (hp s) rs (ref_kind k) ->
  (ks = [] \/ (top = true /\ (k = KFooter \/ k = KStack))) ->
  allhas (hp s) ks k false ->
  (k = KStack -> length rs <= 1) ->
  (forall h' l' id,
     G (mkState h' (files s) (regs s) (handles s) (id :: l') (leaked s) (elog s) (ct s)) ->
     grow (hp s) h' -> has h' id k top -> hsplit (hand s) (rs ++ ks) l' ->
     runs (cont id) (mkState h' (files s) (regs s) (handles s) (id :: l') (leaked s) (elog s) (ct s)) Q) ->
  runs (alloc_k k top rs ks file cont) s Q.
Proof.
  intros [I [T R]] Hc Hf Hr Hk Hks Hl K.
  destruct (removes_ok (rs ++ ks) (hand s) Hc) as [l Rm].
  set (ob := mkObj k top 1 rs ks file false).
  assert (RK : rank_lt_all (hp s) (rs ++ ks) (rank ob) = true).
  { unfold rank_lt_all. apply forallb_forall. intros r Hin. apply in_app_or in Hin.
    destruct Hin as [Hin|Hin].
    - destruct (Hr r Hin) as [t [ob' [E [A B]]]]. rewrite E. apply Nat.ltb_lt.
      apply ref_kind_rank; simpl; auto. destruct Hf as [Hf|Hf]; auto. subst rs. destruct Hin.
    - destruct (Hks r Hin) as [ob' [E [A B]]]. rewrite E. apply Nat.ltb_lt.
      destruct Hk as [->|[-> Hk]]; [destruct Hin|]. unfold rank. simpl. rewrite A, B.
      destruct Hk as [->| ->]; lia. }
  assert (A : alloc k top rs ks file s =
              Some (mkState (hp s ++ [ob]) (files s) (regs s) (handles s)
                            (length (hp s) :: l) (leaked s) (elog s) (ct s))).
  { unfold alloc. fold ob. rewrite Rm, RK. reflexivity. }
  pose proof (grow_snoc (hp s) ob) as Gr.
  assert (HG : G (mkState (hp s ++ [ob]) (files s) (regs s) (handles s)
                          (length (hp s) :: l) (leaked s) (elog s) (ct s))).
  { split; [|split].
    - eapply pres_alloc; eauto.
    - simpl. apply Ty_snoc; auto. split; [|split]; simpl.
      + intros r Hin. split; auto. destruct Hf as [Hf|Hf]; auto. subst rs. destruct Hin.
      + intros c Hin. split; auto. destruct Hk as [->|[_ Hk]]; [destruct Hin|auto].
      + exact Hl.
    - eapply RootsTy_ext; [| | |exact R]; simpl; auto. apply grow_kext; auto. }
  destruct (K (hp s ++ [ob]) l (length (hp s)) HG Gr) as [s' [E H]].
  - exists ob. split; [|auto]. rewrite nth_error_app2 by lia. rewrite Nat.sub_diag. reflexivity.
  - intros x. apply (removes_cn _ _ _ Rm x).
  - exists s'. split; auto. unfold alloc_k, rd, fresh, bind. rewrite A. exact E.
Qed.

Lemma root_of_in (r : regfile) sl o : r sl = Some o -> In o (root_of r).
Proof.
  intros E. unfold root_of. apply in_flat_map. exists sl. split.
  - destruct sl; simpl; auto 12.
  - rewrite E. simpl. auto.
Qed.

Lemma G_frame s s' : hp s' = hp s -> regs s' = regs s -> handles s' = handles s ->
  hand s' = hand s -> leaked s' = leaked s -> G s -> G s'.
Proof.
  intros E1 E2 E3 E4 E5 [I [T R]]. unfold G, Inv, RootsTy, roots in *.
  rewrite E1, E2, E3, E4, E5. auto.
Qed.

Lemma runs_put sl o s (Q : state -> Prop) : G s -> regs s sl = None -> In o (hand s) ->
  hask (hp s) o (slot_kind sl) ->
  (forall l',
     G (mkState (hp s) (files s) (rset (regs s) sl (Some o)) (handles s) l' (leaked s) (elog s) (ct s)) ->
     hsplit (hand s) [o] l' ->
     Q (mkState (hp s) (files s) (rset (regs s) sl (Some o)) (handles s) l' (leaked s) (elog s) (ct s))) ->
  runs (put sl o) s Q.
Proof.
  intros [I [T R]] En Hin Hk K. destruct (in_remove1 o _ Hin) as [l Rm].
  assert (P : put sl o s = Some (mkState (hp s) (files s) (rset (regs s) sl (Some o)) (handles s) l
                                         (leaked s) (elog s) (ct s))).
  { unfold put. rewrite En, Rm. reflexivity. }
  eexists. split; [exact P|]. apply K.
  - split; [|split]; auto.
    + eapply pres_put; eauto.
    + eapply RootsTy_ext; [| | |exact R]; simpl; auto. apply kext_refl.
      intros sl' o'. unfold rset. destruct (slot_eqb sl sl') eqn:Q1; auto.
      intros X. inversion X; subst. right. apply slot_eqb_eq in Q1. subst. exact Hk.
  - intros x. pose proof (remove1_cn _ _ _ Rm x) as Q1. rewrite cn_cons, cn_nil. lia.
Qed.

Lemma runs_take sl s (Q : state -> Prop) : G s ->
  (G (mkState (hp s) (files s) (rset (regs s) sl None) (handles s)
              (olist (regs s sl) ++ hand s) (leaked s) (elog s) (ct s)) ->
   Q (mkState (hp s) (files s) (rset (regs s) sl None) (handles s)
              (olist (regs s sl) ++ hand s) (leaked s) (elog s) (ct s))) ->
  runs (take sl) s Q.
Proof.
  intros [I [T R]] K. eexists. split; [reflexivity|]. apply K. split; [|split]; auto.
  - eapply pres_take; eauto. reflexivity.
  - eapply RootsTy_ext; [| | |exact R]; simpl; auto. apply kext_refl.
    intros sl' o'. unfold rset. destruct (slot_eqb sl sl'); auto. discriminate.
Qed.

Lemma runs_pushh hd s (Q : state -> Prop) : G s -> hle (hrefs hd) (hand s) ->
  handle_ty (hp s) hd ->
  (forall l',
     G (mkState (hp s) (files s) (regs s) (handles s ++ [hd]) l' (leaked s) (elog s) (ct s)) ->
     hsplit (hand s) (hrefs hd) l' ->
     Q (mkState (hp s) (files s) (regs s) (handles s ++ [hd]) l' (leaked s) (elog s) (ct s))) ->
  runs (pushh hd) s Q.
Proof.
  intros [I [T R]] Hc Hk K. destruct (removes_ok _ _ Hc) as [l Rm].
  assert (P : pushh hd s = Some (mkState (hp s) (files s) (regs s) (handles s ++ [hd]) l
                                         (leaked s) (elog s) (ct s))).
  { unfold pushh. rewrite Rm. reflexivity. }
  eexists. split; [exact P|]. apply K.
  - split; [|split]; auto.
    + eapply pres_pushh; eauto.
    + eapply RootsTy_ext; [| | |exact R]; simpl; auto. apply kext_refl.
      intros hd' Hin. apply in_app_or in Hin. destruct Hin as [Hin|[<-|[]]]; auto.
  - intros x. apply (removes_cn _ _ _ Rm x).
Qed.

Lemma in_del_nth {A} (x : A) l : forall i, In x (del_nth i l) -> In x l.
Proof.
  induction l as [|y r IH]; intros [|i] H; simpl in *; auto. destruct H as [H|H]; eauto.
Qed.

Lemma runs_poph i hd s (Q : state -> Prop) : G s -> nth_error (handles s) i = Some hd ->
  (G (mkState (hp s) (files s) (regs s) (del_nth i (handles s)) (hrefs hd ++ hand s)
              (leaked s) (elog s) (ct s)) ->
   Q (mkState (hp s) (files s) (regs s) (del_nth i (handles s)) (hrefs hd ++ hand s)
              (leaked s) (elog s) (ct s))) ->
  runs (poph i) s Q.
Proof.
  intros [I [T R]] E K.
  assert (P : poph i s = Some (mkState (hp s) (files s) (regs s) (del_nth i (handles s))
                                       (hrefs hd ++ hand s) (leaked s) (elog s) (ct s))).
  { unfold poph. rewrite E. reflexivity. }
  eexists. split; [exact P|]. apply K. split; [|split]; auto.
  - eapply pres_poph; eauto.
  - eapply RootsTy_ext; [| | |exact R]; simpl; auto. apply kext_refl.
    intros hd' Hin. left. eapply in_del_nth; eauto.
Qed.

Lemma runs_set_ctl f s (Q : state -> Prop) : G s ->
  (G (with_ct s (f (ct s))) -> Q (with_ct s (f (ct s)))) -> runs (set_ctl f) s Q.
Proof.
  intros HG K. eexists. split; [reflexivity|]. apply K. eapply G_frame; [..|exact HG]; reflexivity.
Qed.
Lemma runs_unlog s (Q : state -> Prop) : G s ->
  (forall lg, G (mkState (hp s) (files s) (regs s) (handles s) (hand s) (leaked s) lg (ct s)) ->
              Q (mkState (hp s) (files s) (regs s) (handles s) (hand s) (leaked s) lg (ct s))) ->
  runs unlog s Q.
Proof.
  intros HG K. eexists. split; [reflexivity|]. apply K. eapply G_frame; [..|exact HG]; reflexivity.
Qed.
Lemma runs_bump_file s (Q : state -> Prop) : G s ->
  (forall fs c, copen c = copen (ct s) -> sopen c = sopen (ct s) -> mph c = mph (ct s) ->
                pph c = pph (ct s) -> pbase c = pbase (ct s) -> nch c = nch (ct s) -> inc c = inc (ct s) ->
     G (mkState (hp s) fs (regs s) (handles s) (hand s) (leaked s) (elog s) c) ->
     Q (mkState (hp s) fs (regs s) (handles s) (hand s) (leaked s) (elog s) c)) ->
  runs bump_file s Q.
Proof.
  intros HG K. eexists. split; [reflexivity|]. apply K; try reflexivity.
  eapply G_frame; [..|exact HG]; reflexivity.
Qed.
Lemma runs_finish s (Q : state -> Prop) : hand s = [] -> Q s -> runs finish s Q.
Proof. intros E H. exists s. unfold finish. rewrite E. auto. Qed.
Lemma runs_check b s (Q : state -> Prop) : b s = true -> Q s -> runs (check b) s Q.
Proof. intros E H. exists s. unfold check. rewrite E. auto. Qed.

Lemma runs_setrm o s (Q : state -> Prop) : G s -> (exists ob, nth_error (hp s) o = Some ob) ->
  (forall h', G (mkState h' (files s) (regs s) (handles s) (hand s) (leaked s) (elog s) (ct s)) ->
              grow (hp s) h' ->
              Q (mkState h' (files s) (regs s) (handles s) (hand s) (leaked s) (elog s) (ct s))) ->
  runs (setrm o) s Q.
Proof.
  intros [I [T R]] [ob Ho] K. eexists. split.
  - unfold setrm. rewrite Ho. reflexivity.
  - apply K.
    + split; [|split].
      * apply (pres_setrm o s); auto. unfold setrm. rewrite Ho. reflexivity.
      * simpl. eapply Ty_upd; eauto. eapply ty_obj_same; [| | |apply (T o ob Ho)]; reflexivity.
      * eapply RootsTy_ext; [| | |exact R]; simpl; auto. eapply kext_upd; eauto.
    + eapply grow_upd; eauto.
Qed.

(* hand-over re-pointing the lower level of a stack *)
Lemma runs_setrefs a rs s (Q : state -> Prop) : G s -> live (hp s) a -> hask (hp s) a KStack ->
  hle rs (hand s) -> allk (hp s) rs KWrap ->
  length rs <= 1 ->
  (forall h' l',
     G (mkState h' (files s) (regs s) (handles s) (refs_at (hp s) a ++ l') (leaked s) (elog s) (ct s)) ->
     kext (hp s) h' -> (forall o, o <> a -> nth_error h' o = nth_error (hp s) o) ->
     length (refs_at (hp s) a) <= 1 -> hsplit (hand s) rs l' ->
     Q (mkState h' (files s) (regs s) (handles s) (refs_at (hp s) a ++ l') (leaked s) (elog s) (ct s))) ->
  runs (setrefs a rs) s Q.
Proof.
  intros [I [T R]] L [ta [ob0 [Ha0 [Ka Ta]]]] Hc Hr Hl K.
  destruct (live_has _ _ L) as [ob [Ha Ec]]. rewrite Ha in Ha0. inversion Ha0; subst ob0; clear Ha0.
  destruct (removes_ok rs (hand s) Hc) as [l Rm].
  assert (E : exists n, o_cnt ob = S n) by (destruct (o_cnt ob); [lia|eauto]). destruct E as [n En].
  assert (RK : rank_lt_all (hp s) rs (rank ob) = true).
  { unfold rank_lt_all. apply forallb_forall. intros r Hin.
    destruct (Hr r Hin) as [t [ob' [E [A B]]]]. rewrite E. apply Nat.ltb_lt.
    apply ref_kind_rank; rewrite Ka; simpl; auto. discriminate. }
  assert (P : setrefs a rs s = Some (mkState (upd a (set_refs ob rs) (hp s)) (files s) (regs s) (handles s)
                                        (o_refs ob ++ l) (leaked s) (elog s) (ct s))).
  { unfold setrefs. rewrite Ha, En, Rm, RK. reflexivity. }
  assert (RA : refs_at (hp s) a = o_refs ob) by (unfold refs_at; rewrite Ha; reflexivity).
  exists (mkState (upd a (set_refs ob rs) (hp s)) (files s) (regs s) (handles s)
                  (o_refs ob ++ l) (leaked s) (elog s) (ct s)).
  split; [exact P|]. rewrite <- RA. apply K.
  - rewrite RA. split; [|split].
    + eapply pres_setrefs; eauto.
    + simpl. eapply Ty_upd; eauto. destruct (T a ob Ha) as [A [B C]]. split; [|split]; simpl; auto.
      intros r Hin. rewrite Ka. split; [discriminate|]. simpl. auto.
    + eapply RootsTy_ext; [| | |exact R]; simpl; auto. eapply kext_upd; eauto.
  - eapply kext_upd; eauto.
  - intros o N. rewrite nth_upd_other by auto. reflexivity.
  - rewrite RA. destruct (T a ob Ha) as [_ [_ C]]. auto.
  - intros x. apply (removes_cn _ _ _ Rm x).
Qed.

Lemma cn_zero_nil (l : list oid) : (forall x, cn x l = 0) -> l = [].
Proof.
  destruct l as [|a r]; auto. intros H. specialize (H a). rewrite cn_cons, Nat.eqb_refl in H. lia.
Qed.

(* ------------------------------------------------------------------ *)
(* facts about lists of objects *)

(* what a (live) object holds *)
Definition holds (h : heap) (o : oid) (rs ks : list oid) : Prop :=
  exists ob, nth_error h o = Some ob /\ o_refs ob = rs /\ o_kids ob = ks.

Lemma allk_kext h h' l k : kext h h' -> allk h l k -> allk h' l k.
Proof. intros K A c Hc. eapply hask_kext; eauto. Qed.
Lemma allhas_kext h h' l k t : kext h h' -> allhas h l k t -> allhas h' l k t.
Proof. intros K A c Hc. eapply has_kext; eauto. Qed.
Lemma alllive_grow h h' l : grow h h' -> alllive h l -> alllive h' l.
Proof. intros K A c Hc. eapply live_grow; eauto. Qed.
Lemma holds_grow h h' o rs ks : grow h h' -> holds h o rs ks -> holds h' o rs ks.
Proof.
  intros K [ob [E [A B]]]. destruct (K o ob E) as [ob' [E' [_ [_ [R [D _]]]]]].
  exists ob'. repeat split; congruence.
Qed.
Lemma holds_dec h h' o rs ks : dec h h' -> live h' o -> holds h o rs ks -> holds h' o rs ks.
Proof.
  intros [_ K] L [ob [E [A B]]]. destruct (K o ob E) as [ob' [E' [_ [_ P]]]].
  unfold live, cnt_of in L. rewrite E' in L. destruct (P L) as [R [D _]].
  exists ob'. repeat split; congruence.
Qed.
Lemma allk_nil h k : allk h [] k. Proof. intros c []. Qed.
Lemma allhas_nil h k t : allhas h [] k t. Proof. intros c []. Qed.
Lemma alllive_nil h : alllive h []. Proof. intros c []. Qed.
Lemma allk_app h a b k : allk h a k -> allk h b k -> allk h (a ++ b) k.
Proof. intros A B c Hc. apply in_app_or in Hc. destruct Hc; auto. Qed.
Lemma allhas_app h a b k t : allhas h a k t -> allhas h b k t -> allhas h (a ++ b) k t.
Proof. intros A B c Hc. apply in_app_or in Hc. destruct Hc; auto. Qed.
Lemma allk_one h o k : hask h o k -> allk h [o] k.
Proof. intros H c [<-|[]]. exact H. Qed.
Lemma allhas_one h o k t : has h o k t -> allhas h [o] k t.
Proof. intros H c [<-|[]]. exact H. Qed.
Lemma allk_olist h x k : okind h x k -> allk h (olist x) k.
Proof. destruct x; simpl; [apply allk_one|intros _; apply allk_nil]. Qed.
Lemma firstn_In {A} (x : A) : forall n l, In x (firstn n l) -> In x l.
Proof.
  induction n as [|n IH]; intros [|y r] H; simpl in *; try contradiction.
  destruct H as [H|H]; [left; exact H|right; apply IH; exact H].
Qed.
Lemma allk_firstn h n l k : allk h l k -> allk h (firstn n l) k.
Proof. intros A c Hc. apply A. eapply firstn_In; eauto. Qed.
Lemma alllive_firstn h n l : alllive h l -> alllive h (firstn n l).
Proof. intros A c Hc. apply A. eapply firstn_In; eauto. Qed.
Lemma allhas_allk h l k t : allhas h l k t -> allk h l k.
Proof. intros A c Hc. exists t. auto. Qed.

(* ------------------------------------------------------------------ *)
(* what a read of the heap tells *)

Lemma hask_obj h o k : hask h o k -> forall ob, nth_error h o = Some ob -> o_kind ob = k.
Proof. intros [t [ob' [E [A _]]]] ob E'. congruence. Qed.

Lemma refs_facts s a k : G s -> hask (hp s) a k ->
  allk (hp s) (refs_of a s) (ref_kind k) /\ alllive (hp s) (refs_of a s).
Proof.
  intros HG Ha. pose proof HG as [_ [T _]]. unfold refs_of, refs_at.
  destruct (nth_error (hp s) a) as [ob|] eqn:E.
  - destruct (T a ob E) as [A _]. rewrite <- (hask_obj _ _ _ Ha ob E). split.
    + intros c Hc. apply (A c Hc).
    + intros c Hc. eapply live_ref; eauto. unfold orefs. apply in_or_app. auto.
  - split; intros c [].
Qed.
Lemma kids_facts s a k : G s -> hask (hp s) a k ->
  allhas (hp s) (kids_of a s) k false /\ alllive (hp s) (kids_of a s).
Proof.
  intros HG Ha. pose proof HG as [_ [T _]]. unfold kids_of, kids_at.
  destruct (nth_error (hp s) a) as [ob|] eqn:E.
  - destruct (T a ob E) as [_ [B _]]. rewrite <- (hask_obj _ _ _ Ha ob E). split.
    + intros c Hc. apply (B c Hc).
    + intros c Hc. eapply live_ref; eauto. unfold orefs. apply in_or_app. auto.
  - split; intros c [].
Qed.
Lemma first_ref_facts s a k o : G s -> first_ref a s = Some o -> hask (hp s) a k ->
  hask (hp s) o (ref_kind k) /\ live (hp s) o.
Proof.
  intros HG E Ha. destruct (refs_facts s a k HG Ha) as [A B].
  unfold first_ref in E. unfold refs_of in *. destruct (refs_at (hp s) a) as [|x r]; [discriminate|].
  inversion E; subst. split; [apply A|apply B]; left; reflexivity.
Qed.
Lemma kid_facts s a k i c : G s -> nth_error (kids_of a s) i = Some c -> hask (hp s) a k ->
  has (hp s) c k false /\ live (hp s) c.
Proof.
  intros HG E Ha. destruct (kids_facts s a k HG Ha) as [A B].
  apply nth_error_In in E. auto.
Qed.
Lemma child_fref_facts s : forall ks fr, G s -> allk (hp s) ks KFooter -> child_fref ks s = Some fr ->
  hask (hp s) fr KFile /\ live (hp s) fr.
Proof.
  induction ks as [|k r IH]; intros fr HG A E; simpl in E; [discriminate|].
  destruct (refs_facts s k KFooter HG (A k (or_introl eq_refl))) as [B _].
  destruct (refs_of k s) as [|m ms] eqn:Er.
  - apply IH; auto. intros c Hc. apply A. right. exact Hc.
  - apply (first_ref_facts s m KMmap fr HG E). apply B. left. reflexivity.
Qed.
Lemma file_ref_facts s f fr : G s -> hask (hp s) f KFooter ->
  match refs_of f s with m :: _ => first_ref m s | [] => child_fref (kids_of f s) s end = Some fr ->
  hask (hp s) fr KFile /\ live (hp s) fr.
Proof.
  intros HG Hf E. destruct (refs_facts s f KFooter HG Hf) as [B _].
  destruct (refs_of f s) as [|m ms] eqn:Er.
  - apply (child_fref_facts s (kids_of f s) fr HG); auto.
    eapply allhas_allk. apply (kids_facts s f KFooter HG Hf).
  - apply (first_ref_facts s m KMmap fr HG E). apply B. left. reflexivity.
Qed.
Lemma first_file_facts s f fr : G s -> hask (hp s) f KFooter ->
  match refs_of f s with m :: _ => first_ref m s | [] => None end = Some fr ->
  hask (hp s) fr KFile /\ live (hp s) fr.
Proof.
  intros HG Hf E. destruct (refs_facts s f KFooter HG Hf) as [B _].
  destruct (refs_of f s) as [|m ms] eqn:Er; [discriminate|].
  apply (first_ref_facts s m KMmap fr HG E). apply B. left. reflexivity.
Qed.
Lemma reg_facts s sl o : G s -> regs s sl = Some o -> hask (hp s) o (slot_kind sl).
Proof. intros [_ [_ [A _]]] E. eauto. Qed.
Lemma handle_facts s i hd : G s -> nth_error (handles s) i = Some hd -> handle_ty (hp s) hd.
Proof. intros [_ [_ [_ B]]] E. apply B. eapply nth_error_In; eauto. Qed.
Lemma holds_of s a k : G s -> hask (hp s) a k -> holds (hp s) a (refs_of a s) (kids_of a s).
Proof.
  intros _ [t [ob [E _]]]. exists ob. unfold refs_of, kids_of, refs_at, kids_at. rewrite E. auto.
Qed.
Lemma holds_refs s a rs ks : holds (hp s) a rs ks -> refs_of a s = rs /\ kids_of a s = ks.
Proof. intros [ob [E [A B]]]. unfold refs_of, kids_of, refs_at, kids_at. rewrite E. auto. Qed.
Lemma holds_kid s b rs ks c k : G s -> holds (hp s) b rs ks -> In c ks -> hask (hp s) b k ->
  has (hp s) c k false /\ live (hp s) c /\ c <> b.
Proof.
  intros HG [ob [E [A B]]] Hin Hk. pose proof HG as [[_ _ C] [T _]].
  destruct (T b ob E) as [_ [Kd _]]. rewrite B in Kd. destruct (Kd c Hin) as [_ Hc].
  rewrite (hask_obj _ _ _ Hk ob E) in Hc. split; [exact Hc|]. split.
  - eapply live_ref; eauto. unfold orefs. apply in_or_app. right. rewrite B. exact Hin.
  - intros ->. destruct (C b ob b E) as [ob' [E' Lt]].
    { unfold orefs. apply in_or_app. right. rewrite B. exact Hin. }
    rewrite E in E'. inversion E'; subst. lia.
Qed.
Lemma holds_other h h' a b rs ks : (forall o, o <> a -> nth_error h' o = nth_error h o) -> b <> a ->
  holds h b rs ks -> holds h' b rs ks.
Proof. intros F N [ob [E X]]. exists ob. rewrite (F b N). auto. Qed.
Lemma refs_olist s c : G s -> hask (hp s) c KStack -> refs_of c s = olist (first_ref c s).
Proof.
  intros [_ [T _]] [t [ob [E [K _]]]]. unfold first_ref, refs_of, refs_at. rewrite E.
  destruct (T c ob E) as [_ [_ L]]. specialize (L K).
  destruct (o_refs ob) as [|x [|y r]]; simpl in *; auto. lia.
Qed.
Lemma hask_exists h o k : hask h o k -> exists ob, nth_error h o = Some ob.
Proof. intros [t [ob [E _]]]. eauto. Qed.

(* ------------------------------------------------------------------ *)
(* tactics: one step of an operation's program *)

Ltac cbnst := cbn [hp files regs handles hand leaked elog ct with_ct with_hp] in *.

Ltac hand_at x :=
  repeat match goal with
         | H : hsplit _ _ _ |- _ => specialize (H x)
         | H : hle _ _ |- _ => specialize (H x)
         | H : hbal _ _ _ |- _ => specialize (H x)
         end.
Ltac hand_lia x :=
  hand_at x;
  repeat match goal with
         | H : cn x _ = _ |- _ => revert H
         | H : cn x _ <= _ |- _ => revert H
         | H : cn x _ + _ = _ |- _ => revert H
         end;
  cbn [hrefs olist app];
  repeat (rewrite cn_app || rewrite cn_cons || rewrite cn_nil);
  rewrite ?Nat.eqb_refl; intros; lia.
Ltac hand_le := let x := fresh "x" in unfold hle, hbal, hsplit; intro x; hand_lia x.
Ltac hand_in := match goal with |- In ?o _ => apply cn_in; hand_lia o end.
Ltac hand_nil := first [ reflexivity | apply cn_zero_nil; let x := fresh "x" in intro x; hand_lia x ].
Ltac hand_split := hand_le.
Lemma length_olist {A} (x : option A) : length (olist x) <= 1.
Proof. destruct x; simpl; lia. Qed.

Ltac withG tac :=
  match goal with
  | |- runs _ ?s _ => match goal with HG : G s |- _ => tac HG end
  end.

Ltac in_regs_at sl := apply (root_of_in _ sl); cbn [rset slot_eqb]; solve [ reflexivity | assumption ].
Ltac in_regs o :=
  apply in_or_app; left;
  first [ in_regs_at SFooter | in_regs_at SLL | in_regs_at STop | in_regs_at SMid | in_regs_at SBase
        | in_regs_at SClean | in_regs_at SCached | in_regs_at MMid | in_regs_at MBase | in_regs_at PNext ].
Ltac in_handles o :=
  apply in_or_app; right; apply in_or_app; left;
  match goal with
  | E : nth_error _ _ = Some ?hd |- _ =>
      apply in_flat_map; exists hd; split;
      [ solve [ eapply nth_error_In; exact E | apply in_or_app; left; eapply nth_error_In; exact E ]
      | cbn [hrefs olist app]; simpl; solve [ auto 6 ] ]
  end.
Ltac in_hand o :=
  apply in_or_app; right; apply in_or_app; right; apply in_or_app; left; hand_in.
Ltac in_roots o := first [ solve [in_regs o] | solve [in_handles o] | solve [in_hand o] ].

Ltac live_tac :=
  cbnst;
  first
  [ assumption
  | match goal with A : alllive ?h ?l |- live ?h ?o => apply A; solve [ simpl; auto ] end
  | match goal with
    | HG : G (mkState ?h ?a ?b ?c ?d ?e ?f ?g) |- live ?h ?o =>
        apply (live_root (mkState h a b c d e f g) o HG); unfold roots; cbnst; in_roots o
    | HG : G ?s |- live (hp ?s) ?o =>
        apply (live_root s o HG); unfold roots; cbnst; in_roots o
    end ].

(* carrying facts over a change of the heap *)
Ltac tr_kext K :=
  repeat match goal with
  | H : has ?h _ _ _ |- _ => match type of K with kext h _ => apply (has_kext _ _ _ _ _ K) in H end
  | H : hask ?h _ _ |- _ => match type of K with kext h _ => apply (hask_kext _ _ _ _ K) in H end
  | H : allk ?h _ _ |- _ => match type of K with kext h _ => apply (allk_kext _ _ _ _ K) in H end
  | H : allhas ?h _ _ _ |- _ => match type of K with kext h _ => apply (allhas_kext _ _ _ _ _ K) in H end
  | H : okind ?h _ _ |- _ => match type of K with kext h _ => apply (okind_kext _ _ _ _ K) in H end
  | H : handle_ty ?h _ |- _ => match type of K with kext h _ => apply (handle_ty_kext _ _ _ K) in H end
  end.
Ltac tr_grow Hg :=
  repeat match goal with
  | H : live ?h _ |- _ => match type of Hg with grow h _ => apply (live_grow _ _ _ Hg) in H end
  | H : alllive ?h _ |- _ => match type of Hg with grow h _ => apply (alllive_grow _ _ _ Hg) in H end
  | H : holds ?h _ _ _ |- _ => match type of Hg with grow h _ => apply (holds_grow _ _ _ _ _ Hg) in H end
  end;
  let K := fresh "K" in pose proof (grow_kext _ _ Hg) as K; tr_kext K; clear K.
Ltac tr_dec Hd :=
  repeat match goal with
  | H : holds ?h ?o _ _ |- _ =>
      match type of Hd with dec h _ =>
        apply (holds_dec _ _ _ _ _ Hd) in H; [|solve [live_tac]] end
  end;
  let K := fresh "K" in pose proof (dec_kext _ _ Hd) as K; tr_kext K; clear K.
