(* OwnersRevertScenarios.v -- the LIVE tie of the extended ownership model
   (OwnersRevert.v): the operation lists of the scripted scenarios with
   SnapshotPrevious, SnapshotRevert and Store.OpenCollection that the director
   family "owners" (harness/director/famowners.go) runs against the real
   library.  ocaml/ownersrun.ml evaluates xrun_events on the lists below and
   compares them, event for event and modulo a renaming of object ids, with the
   AddRef/DecRef events recorded from the real code. *)
From Coq Require Import List Arith Bool Lia NArith.
From Moss Require Import Owners OwnersFacts OwnersScenarios OwnersRevert OwnersRevertFacts.
Import ListNotations.

Definition rnd (nc : bool) (ntop nkid : nat) : list op := round nc (PAppend false ntop nkid) false.

(* 13: two appended rounds, the collection closed, Store.Snapshot, SnapshotPrevious (found),
   SnapshotRevert to the previous snapshot WHICH STAYS OPEN, Store.OpenCollection, one more
   round (it re-uses the mappings the reverted footer shares with the held snapshot), a store
   snapshot and its previous one (the footer the revert wrote), the held snapshots closed,
   collection and store closed *)
Definition sc_revert_previous_held : list xop :=
  xops (rnd false 1 0 ++ rnd false 1 0 ++ [OpCollClose; OpStoreSnap]) ++
  [XPrev 0 true 1 0 0; XRevert 1 RvDone; XOpenColl] ++
  xops (rnd false 1 0 ++ [OpStoreSnap]) ++
  [XPrev 2 true 1 0 0] ++
  xops ([OpCloseH 1; OpCloseH 0; OpCloseH 1; OpCloseH 0] ++ closing2).

(* 14: the same with a child collection: previous snapshot with a child footer, its child
   snapshot held too, a revert to the CHILD snapshot refused, the revert (new child footers,
   each owned by the new footer), OpenCollection (the child collection restored, the child
   footers renumbered in place), a round writing both collections, a collection snapshot, its
   child snapshot and an iterator on it; the previous snapshot is closed while its child
   snapshot and everything built on the shared mappings is still open *)
Definition sc_revert_child_previous_held : list xop :=
  xops (rnd true 1 1 ++ rnd false 1 1 ++ [OpCollClose; OpStoreSnap]) ++
  [XPrev 0 true 1 1 1; XOp (OpChildSnap 1 0); XRevert 2 RvRefused; XRevert 1 RvDone; XOpenColl] ++
  xops (rnd false 1 1 ++ [OpSnapFresh; OpChildSnap 3 0; OpIterStart 4 IKLower;
        OpCloseH 1; OpCloseH 0; OpCloseH 1; OpCloseH 2; OpCloseH 1; OpCloseH 0] ++ closing2).

(* 15: the previous snapshot is closed right after the revert, BEFORE the continuation: the
   reverted footer alone keeps the shared mappings alive through two more rounds *)
Definition sc_revert_previous_closed_first : list xop :=
  xops (rnd false 1 0 ++ rnd false 1 0 ++ [OpCollClose; OpStoreSnap]) ++
  [XPrev 0 true 1 0 0; XOp (OpCloseH 0); XRevert 0 RvDone; XOp (OpCloseH 0); XOpenColl] ++
  xops (rnd false 1 0 ++ rnd false 1 0 ++
        [OpSnapFresh; OpIterStart 0 IKLower; OpCloseH 0; OpCloseH 0] ++ closing2).

(* 16: all data in the child collection (the data file is reached through the child footers:
   repair 8f6c423): SnapshotPrevious, revert, OpenCollection, a round, SnapshotPrevious of the
   new state, a second revert - to the CURRENT snapshot - with the collection closed again *)
Definition sc_revert_child_only : list xop :=
  xops (rnd true 0 1 ++ rnd false 0 1 ++ [OpCollClose; OpStoreSnap]) ++
  [XPrev 0 true 0 1 1; XRevert 1 RvDone; XOpenColl] ++
  xops (rnd false 0 1 ++ [OpStoreSnap]) ++
  [XPrev 2 true 0 1 1; XOp OpCollClose; XRevert 2 RvDone] ++
  xops [OpCloseH 3; OpCloseH 2; OpCloseH 1; OpCloseH 0; OpStoreClose].

Definition owners_revert_scenarios : list (list xop) :=
  [sc_revert_previous_held; sc_revert_child_previous_held; sc_revert_previous_closed_first;
   sc_revert_child_only].

Example owners_revert_scenarios_current_code :
  forallb (forallb xcurrent_code) owners_revert_scenarios = true.
Proof. vm_compute. reflexivity. Qed.

Example owners_revert_scenarios_run :
  forallb (fun sc => match xrun sc with Some st => all_closed_b st | None => false end)
          owners_revert_scenarios = true.
Proof. vm_compute. reflexivity. Qed.

(* every revert of the scenarios is a revert (not one the model refuses as illegal): the
   store's footer is another object afterwards *)
Definition revert_changes_footer (sc : list xop) : bool :=
  (fix go (st : state) (ops : list xop) : bool :=
     match ops with
     | [] => true
     | o :: r => match xstep o st with
                 | Some st' =>
                     match o with
                     | XRevert _ RvDone =>
                         match regs st SFooter, regs st' SFooter with
                         | Some a, Some b => negb (Nat.eqb a b) | _, _ => false end
                     | _ => true
                     end && go st' r
                 | None => false
                 end
     end) init sc.
Example owners_revert_scenarios_revert :
  forallb revert_changes_footer owners_revert_scenarios = true.
Proof. vm_compute. reflexivity. Qed.

Example owners_revert_scenarios_files :
  map xrun_nfiles owners_revert_scenarios = [Some 1; Some 1; Some 1; Some 1].
Proof. vm_compute. reflexivity. Qed.

(* what the theorems say about these histories, instantiated *)
Example owners_revert_scenarios_all_released :
  forall sc st, In sc owners_revert_scenarios -> xrun sc = Some st ->
    (forall o, cnt_of (hp st) o = 0) /\ open_fds st = [] /\ mappings st = 0.
Proof.
  intros sc st Hin H.
  assert (F : forallb xcurrent_code sc = true).
  { pose proof owners_revert_scenarios_current_code as C. rewrite forallb_forall in C. auto. }
  assert (A : all_closed st).
  { pose proof owners_revert_scenarios_run as C. rewrite forallb_forall in C.
    specialize (C sc Hin). rewrite H in C. unfold all_closed_b in C. unfold all_closed.
    destruct (handles st); [|discriminate]. apply andb_prop in C. destruct C as [C1 C2].
    apply negb_true_iff in C1, C2. auto. }
  exact (x_all_closed_all_released_current_code sc st F H A).
Qed.

(* ------------------------------------------------------------------ *)
(* the extended model never gets stuck (a primitive refusing: AddRef or DecRef of a released
   object, a reference given back that is not held, a slot overwritten, a local left over).
   PARTIAL, as in OwnersFacts.v: checked exhaustively for every sequence of up to 4 operations
   over a concrete alphabet (the 43 operations of OwnersFacts.alphabet and 11 history
   operations) from the initial state, every sequence of up to 3 operations from inside the
   four scenarios (before and after the revert), every sequence of up to 2 operations from
   the end states of 40 pseudo-random histories of 150 operations, and 300 pseudo-random
   histories of 300 operations in which rounds, snapshots, previous snapshots, reverts and
   close / open of the collection are weighted up. *)
Definition xnew : list xop :=
  [XPrev 0 true 1 1 1; XPrev 1 true 2 0 0; XPrev 0 true 0 1 1; XPrev 2 false 0 0 0;
   XRevert 0 RvDone; XRevert 1 RvDone; XRevert 2 RvDone; XRevert 0 RvWriteFail;
   XRevert 1 RvWriteFail; XRevert 1 RvRefused; XOpenColl].
Definition xalphabet : list xop := xops alphabet ++ xnew.
Definition xhist : list xop :=
  [XOp OpStoreSnap; XPrev 0 true 1 1 1; XPrev 1 true 1 0 0; XRevert 0 RvDone; XRevert 1 RvDone;
   XRevert 2 RvDone; XRevert 3 RvDone; XOp OpCollClose; XOpenColl; XOp (OpCloseH 0); XOp (OpCloseH 2)].
Definition xalphabet_busy : list xop :=
  xops alphabet_busy ++ xnew ++ xhist ++ xhist ++ xhist.

Fixpoint xexplore (depth : nat) (st : state) : bool :=
  match depth with
  | 0 => true
  | S d => forallb (fun o => match xstep o st with
                             | Some st' => xexplore d st'
                             | None => false end) xalphabet
  end.
Fixpoint xrand_run (al : list xop) (n : nat) (x : N) (st : state) : option state :=
  match n with
  | O => Some st
  | S n' => let x' := lcg x in
            match xstep (nth (N.to_nat ((x' / 65536) mod (N.of_nat (length al)))%N) al XOpenColl) st with
            | Some st' => xrand_run al n' x' st'
            | None => None
            end
  end.

(* the number of reverts that replaced the store's footer and of collections opened in a
   pseudo-random history: the histories below do exercise the new operations *)
Fixpoint xrand_count (al : list xop) (n : nat) (x : N) (st : state) (k : nat * nat) : nat * nat :=
  match n with
  | O => k
  | S n' => let x' := lcg x in
            let o := nth (N.to_nat ((x' / 65536) mod (N.of_nat (length al)))%N) al XOpenColl in
            match xstep o st with
            | Some st' =>
                xrand_count al n' x' st'
                  (match o with
                   | XRevert _ RvDone =>
                       match regs st SFooter, regs st' SFooter with
                       | Some a, Some b => if Nat.eqb a b then k else (S (fst k), snd k)
                       | _, _ => k end
                   | XOpenColl => if negb (copen (ct st)) && copen (ct st')
                                  then (fst k, S (snd k)) else k
                   | _ => k
                   end)
            | None => k
            end
  end.

Theorem x_no_fault_bounded_partial :
  xexplore 4 init = true /\
  forallb (fun sc => match xrun (firstn 17 sc) with Some st => xexplore 3 st | None => false end)
          owners_revert_scenarios = true /\
  forallb (fun sc => match xrun (firstn 20 sc) with Some st => xexplore 3 st | None => false end)
          owners_revert_scenarios = true /\
  forallb (fun s => match xrand_run xalphabet_busy 150 s init with
                    | Some st => xexplore 2 st | None => false end) (seeds 40 11%N) = true /\
  forallb (fun s => is_ok (xrand_run xalphabet_busy 300 s init)) (seeds 300 1%N) = true.
Proof. vm_compute. repeat split. Qed.

Example x_random_histories_do_revert :
  let t := fold_right (fun s acc => let c := xrand_count xalphabet_busy 300 s init (0, 0) in
                                    (fst c + fst acc, snd c + snd acc)) (0, 0) (seeds 300 1%N) in
  Nat.leb 300 (fst t) && Nat.leb 300 (snd t) = true.
Proof. vm_compute. reflexivity. Qed.

Print Assumptions owners_revert_scenarios_current_code.
Print Assumptions owners_revert_scenarios_run.
Print Assumptions owners_revert_scenarios_revert.
Print Assumptions owners_revert_scenarios_files.
Print Assumptions owners_revert_scenarios_all_released.
Print Assumptions x_no_fault_bounded_partial.
Print Assumptions x_random_histories_do_revert.
