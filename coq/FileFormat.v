(* FileFormat.v — byte image of a persisted segment and of a footer, and the
   backward footer scan.  Executable definitions only; proofs are in
   FileFormatFacts.v.

   Go sources modelled here:
     segment.go       : mutate / mutateEx (kvs pair + buf layout),
                        persistBasicSegment, loadBasicSegment, getOperationKeyVal
     store_compact.go : compactWriter.Mutate (same layout, same keyStart rule)
     store.go         : StoreMagicBeg / StoreMagicEnd, footerBegLen, footerEndLen,
                        StoreVersion
     store_footer.go  : persistFooterUnsynced, ReadFooter, ScanFooter

   A file is the list of its bytes.  os.File semantics assumed:
     - WriteAt past EOF zero-fills the gap; WriteAt of 0 bytes does nothing;
     - ReadAt of n > 0 bytes returns err = io.EOF iff fewer than n bytes are
       available at the offset; ReadAt of 0 bytes always succeeds.            *)
From Moss Require Export Codec.
Open Scope N_scope.

Definition blen (b : bytes) : N := N.of_nat (length b).
Definition take (n : N) (b : bytes) : bytes := firstn (N.to_nat n) b.
Definition drop (n : N) (b : bytes) : bytes := skipn (N.to_nat n) b.
(* b[lo:hi] when 0 <= lo <= hi <= len b (callers check the bounds) *)
Definition subs (b : bytes) (lo hi : N) : bytes := take (hi - lo) (drop lo b).
Definition zeros (n : N) : bytes := repeat 0 (N.to_nat n).

(* ---------- file primitives ---------- *)

(* the n bytes at off, if they are all there *)
Definition slice (f : bytes) (off n : N) : option bytes :=
  if off + n <=? blen f then Some (take n (drop off f)) else None.

(* File.ReadAt(make([]byte, n), off): None = err != nil (io.EOF on a short read) *)
Definition read_at (f : bytes) (off n : N) : option bytes :=
  if n =? 0 then Some [] else slice f off n.

(* File.WriteAt(d, off) *)
Definition write_at (f : bytes) (off : N) (d : bytes) : bytes :=
  match d with
  | [] => f
  | _ =>
    if blen f <=? off then f ++ zeros (off - blen f) ++ d
    else take off f ++ d ++ drop (off + blen d) f
  end.

Definition file_delta := list (N * bytes).      (* WriteAt calls: offset, data *)
Definition apply_delta (f : bytes) (d : file_delta) : bytes :=
  fold_left (fun g w => write_at g (fst w) (snd w)) d f.

(* ---------- the in-memory image of a segment: kvs []uint64 and buf []byte ---------- *)

Definition op_code (o : op) : N :=
  match o with OSet _ => OperationSet | ODel => OperationDel | OMerge _ => OperationMerge end.
(* Del passes val = nil to mutate *)
Definition op_val (o : op) : bytes :=
  match o with OSet v => v | ODel => [] | OMerge v => v end.

(* mutate: keyStart := len(buf); buf = append(buf, key...); buf = append(buf, val...)
   mutateEx: if keyLength <= 0 && valLength <= 0 { keyStart = 0 }
             kvs = append(kvs, encodeOpKeyLenValLen(op, kl, vl), uint64(keyStart))
   [off] is len(buf) before the entry. *)
Fixpoint kvs_words (s : segment) (off : N) : list N :=
  match s with
  | [] => []
  | (k, o) :: r =>
      let kl := blen k in
      let vl := blen (op_val o) in
      encode (op_code o) kl vl :: u64 (key_start_rule off kl vl)
        :: kvs_words r (off + kl + vl)
  end.

Fixpoint seg_buf (s : segment) : bytes :=
  match s with
  | [] => []
  | (k, o) :: r => k ++ op_val o ++ seg_buf r
  end.

(* Uint64SliceToByteSlice on a little-endian machine (StoreEndian) *)
Definition kvs_bytes (ws : list N) : bytes := flat_map le_u64 ws.

Record segment_loc := {
  KvsOffset : N; KvsBytes : N;
  BufOffset : N; BufBytes : N;
  TotOpsSet : N; TotOpsDel : N;
  TotKeyByte : N; TotValByte : N
}.

Definition count_ops (p : op -> bool) (s : segment) : N :=
  N.of_nat (length (filter (fun e => p (snd e)) s)).
Definition is_set (o : op) : bool := match o with OSet _ => true | _ => false end.
Definition tot_key_bytes (s : segment) : N :=
  fold_right (fun e acc => blen (fst e) + acc) 0 s.
Definition tot_val_bytes (s : segment) : N :=
  fold_right (fun e acc => blen (op_val (snd e)) + acc) 0 s.

(* persistBasicSegment(seg, file, pos): the two WriteAt calls (run by two
   goroutines; the regions are disjoint) ... *)
Definition seg_kvs_pos (P pos : N) : N := pageAlignCeil P pos.
Definition seg_buf_pos (P pos : N) (s : segment) : N :=
  pageAlignCeil P (seg_kvs_pos P pos + blen (kvs_bytes (kvs_words s 0))).

Definition persist_segment (P pos : N) (s : segment) : file_delta :=
  [ (seg_kvs_pos P pos, kvs_bytes (kvs_words s 0));
    (seg_buf_pos P pos s, seg_buf s) ].

(* ... and the SegmentLoc it returns.  (There is no TotOpsMerge field.) *)
Definition persist_segment_loc (P pos : N) (s : segment) : segment_loc :=
  {| KvsOffset := seg_kvs_pos P pos;
     KvsBytes := blen (kvs_bytes (kvs_words s 0));
     BufOffset := seg_buf_pos P pos s;
     BufBytes := blen (seg_buf s);
     TotOpsSet := count_ops is_set s;
     TotOpsDel := count_ops is_del s;
     TotKeyByte := tot_key_bytes s;
     TotValByte := tot_val_bytes s |}.

(* the segments the round-trip theorem is about: every key and value within
   the limits enforced by mutateEx, and buf addressable by an int *)
Definition entry_ok (e : entry) : Prop :=
  blen (fst e) <= maxKeyLength /\ blen (op_val (snd e)) <= maxValLength.
Definition seg_ok (s : segment) : Prop :=
  Forall entry_ok s /\ blen (seg_buf s) < 9223372036854775808.     (* 2^63 *)

(* the file has d at off (nothing is claimed for an empty d: WriteAt of no
   bytes writes nothing and does not extend the file) *)
Definition contains (f : bytes) (off : N) (d : bytes) : Prop :=
  d <> [] -> slice f off (blen d) = Some d.

(* ---------- loading ---------- *)

(* ByteSliceToUint64Slice: len/8 words, a trailing partial word is dropped *)
Fixpoint words_of (b : bytes) : list N :=
  match b with
  | b0 :: b1 :: b2 :: b3 :: b4 :: b5 :: b6 :: b7 :: r =>
      le_dec [b0; b1; b2; b3; b4; b5; b6; b7] :: words_of r
  | _ => []
  end.

(* b[lo:hi] with Go's bounds check (against len; Go checks against cap, which
   for the mmap'ed buf may be larger — the model is the stricter one) *)
Definition sub_checked (b : bytes) (lo hi : N) : option bytes :=
  if (lo <=? hi) && (hi <=? blen b) then Some (subs b lo hi) else None.

(* the operation constant back to a constructor; a Del carries no value in the
   model (the Go layer ignores it); any other code is rejected (Go does not
   validate it here) *)
Definition mk_op (code : N) (v : bytes) : option op :=
  if code =? OperationSet then Some (OSet v)
  else if code =? OperationDel then Some ODel
  else if code =? OperationMerge then Some (OMerge v)
  else None.

(* getOperationKeyVal: None where Go would panic on a slice bound *)
Definition get_operation_key_val (buf : bytes) (opklvl kstart : N) : option entry :=
  let '(code, keyLen, valLen) := decode opklvl in
  let vstart := kstart + keyLen in
  match sub_checked buf kstart vstart, sub_checked buf vstart (vstart + valLen) with
  | Some k, Some v =>
      match mk_op code v with Some o => Some (k, o) | None => None end
  | _, _ => None
  end.

(* all a.Len() = len(kvs)/2 entries *)
Fixpoint entries_of (ws : list N) (buf : bytes) : option segment :=
  match ws with
  | w :: ks :: r =>
      match get_operation_key_val buf w ks, entries_of r buf with
      | Some e, Some s => Some (e :: s)
      | _, _ => None
      end
  | _ => Some []
  end.

(* doLoadSegments + loadBasicSegment.  mref.buf is the mmap of
   file[KvsOffset : BufOffset+BufBytes]; kvs = mref.buf[0:KvsBytes] and
   buf = mref.buf[BufOffset-KvsOffset:][:BufBytes], each only when its byte
   count is > 0, with the two length checks of loadBasicSegment.  Bytes are
   read straight from the file at the absolute offsets; a range that is not
   wholly inside the file gives None (Go: mmap succeeds, later SIGBUS or
   zero-fill — see the report). *)
Definition load_segment (f : bytes) (loc : segment_loc) : option segment :=
  let endOffset := BufOffset loc + BufBytes loc in
  if endOffset <? KvsOffset loc then None else
  let nbytes := endOffset - KvsOffset loc in
  let kvs :=
    if 0 <? KvsBytes loc then
      if nbytes <? KvsBytes loc then None
      else option_map words_of (slice f (KvsOffset loc) (KvsBytes loc))
    else Some [] in
  let buf :=
    if 0 <? BufBytes loc then
      if BufOffset loc <? KvsOffset loc then None
      else slice f (BufOffset loc) (BufBytes loc)
    else Some [] in
  match kvs, buf with
  | Some ws, Some b => entries_of ws b
  | _, _ => None
  end.

(* ---------- footer framing (persistFooterUnsynced) ---------- *)

Definition magicBeg : bytes := [48; 109; 49; 111; 50; 115].     (* "0m1o2s" *)
Definition magicEnd : bytes := [51; 115; 52; 112; 53; 115].     (* "3s4p5s" *)
Definition lenMagicBeg : N := 6.
Definition lenMagicEnd : N := 6.
Definition footerBegLen : N := 20.     (* lenMagicBeg + lenMagicBeg + 4 + 4 *)
Definition footerEndLen : N := 24.     (* 8 + 4 + lenMagicEnd + lenMagicEnd *)
Definition StoreVersion : N := 4.

Definition footer_len (json : bytes) : N := footerBegLen + blen json + footerEndLen.

Definition footer_bytes (footerPos : N) (json : bytes) : bytes :=
  magicBeg ++ magicBeg ++ le_u32 StoreVersion ++ le_u32 (footer_len json)
  ++ json
  ++ le_u64 footerPos ++ le_u32 (footer_len json) ++ magicEnd ++ magicEnd.

Definition footer_pos (P : N) (f : bytes) : N := pageAlignCeil P (blen f).

Definition persist_footer (P : N) (f : bytes) (json : bytes) : bytes :=
  write_at f (footer_pos P f) (footer_bytes (footer_pos P f) json).

(* ---------- ScanFooter ---------- *)

Inductive scan_result :=
| Found (pos : N) (payload : bytes)     (* framing accepted; json.Unmarshal is next *)
| NoValidFooter                         (* ErrNoValidFooter *)
| ScanError                             (* return nil, err *)
| ScanPanic.                            (* run-time panic *)

Inductive step_result := Done (r : scan_result) | Continue.   (* Continue: pos -= P *)

Definition magic_beg_ok (beg : bytes) : bool :=
  beqb magicBeg (subs beg 0 lenMagicBeg) &&
  beqb magicBeg (subs beg lenMagicBeg (2 * lenMagicBeg)).

Definition magic_end_ok (data : bytes) (n : N) : bool :=
  beqb magicEnd (subs data (n - lenMagicEnd * 2) (n - lenMagicEnd)) &&
  beqb magicEnd (subs data (n - lenMagicEnd) n).

(* one iteration of the outer loop at a candidate position, as the code has it *)
Definition scan_step (f : bytes) (pos : N) : step_result :=
  match read_at f pos footerBegLen with
  | None => Done ScanError                                  (* if err != nil { return nil, err } *)
  | Some beg =>
    if negb (magic_beg_ok beg) then Continue else
    let version := le_dec (subs beg 12 16) in
    if negb (version =? StoreVersion) then Done ScanError else
    let length := le_dec (subs beg 16 20) in
    if length <? footerBegLen then Done ScanPanic else      (* make([]byte, negative) *)
    let n := length - footerBegLen in
    match read_at f (pos + footerBegLen) n with
    | None => Done ScanError                                (* short read: io.EOF *)
    | Some data =>
      if n <? lenMagicEnd * 2 then Done ScanPanic else      (* data[n-12:n-6], negative bound *)
      if magic_end_ok data n then
        if length <? footerBegLen + footerEndLen then Done ScanPanic  (* data[content:], content < 0 *)
        else
        let content := length - footerBegLen - footerEndLen in
        let offset := le_dec (subs data content (content + 8)) in
        if negb (offset =? pos) then Done ScanError else
        let length1 := le_dec (subs data (content + 8) (content + 12)) in
        if negb (length1 =? length) then Done ScanError else
        Done (Found pos (subs data 0 content))
      else Continue
    end
  end.

(* the repaired iteration: whatever is not a complete, self-consistent footer
   is "not a footer here" *)
Definition scan_step_repaired (f : bytes) (pos : N) : step_result :=
  match read_at f pos footerBegLen with
  | None => Continue
  | Some beg =>
    if negb (magic_beg_ok beg) then Continue else
    let version := le_dec (subs beg 12 16) in
    if negb (version =? StoreVersion) then Continue else
    let length := le_dec (subs beg 16 20) in
    if length <? footerBegLen + footerEndLen then Continue else
    let n := length - footerBegLen in
    match read_at f (pos + footerBegLen) n with
    | None => Continue
    | Some data =>
      if magic_end_ok data n then
        let content := length - footerBegLen - footerEndLen in
        let offset := le_dec (subs data content (content + 8)) in
        if negb (offset =? pos) then Continue else
        let length1 := le_dec (subs data (content + 8) (content + 12)) in
        if negb (length1 =? length) then Continue else
        Done (Found pos (subs data 0 content))
      else Continue
    end
  end.

Fixpoint scan_loop (step : bytes -> N -> step_result)
         (fuel : nat) (P : N) (f : bytes) (pos : N) : scan_result :=
  match fuel with
  | O => NoValidFooter                     (* never reached: scan_fuel suffices *)
  | S k =>
    if pos =? 0 then NoValidFooter         (* if pos <= 0 *)
    else match step f pos with
         | Done r => r
         | Continue => scan_loop step k P f (pos - P)
         end
  end.

Definition scan_fuel (P pos : N) : nat := S (N.to_nat (pos / P)).

Definition scan_with (step : bytes -> N -> step_result) (P : N) (f : bytes) (pos : N)
  : scan_result :=
  let p := pageAlignFloor P pos in
  scan_loop step (scan_fuel P p) P f p.

Definition scan_footer : N -> bytes -> N -> scan_result := scan_with scan_step.
Definition scan_footer_repaired : N -> bytes -> N -> scan_result := scan_with scan_step_repaired.

(* ReadFooter: ScanFooter(.., finfo.Size()-1) *)
Definition read_footer (P : N) (f : bytes) : scan_result := scan_footer P f (blen f - 1).
Definition read_footer_repaired (P : N) (f : bytes) : scan_result :=
  scan_footer_repaired P f (blen f - 1).

(* ---------- the payload: json.Unmarshal and the load of the segments it names ---------
   The framing of a footer can be intact while its payload is not what was written: a
   footer of three or more pages whose first and last page reached the disk and a page in
   between did not.  `valid` stands for "json.Unmarshal succeeds and the segments load".
   The current code (repair of F43) treats an invalid payload like any other candidate
   that is not a footer: it scans on.  The pinned code returned the error. *)
Section Payload.
  Variable valid : bytes -> bool.

  Definition scan_step_json (f : bytes) (pos : N) : step_result :=
    match scan_step_repaired f pos with
    | Done (Found p payload) => if valid payload then Done (Found p payload) else Continue
    | r => r
    end.

  Definition scan_step_json_pinned (f : bytes) (pos : N) : step_result :=
    match scan_step_repaired f pos with
    | Done (Found p payload) => if valid payload then Done (Found p payload) else Done ScanError
    | r => r
    end.

  Definition read_footer_json (P : N) (f : bytes) : scan_result :=
    scan_with scan_step_json P f (blen f - 1).
  Definition read_footer_json_pinned (P : N) (f : bytes) : scan_result :=
    scan_with scan_step_json_pinned P f (blen f - 1).
End Payload.

(* ---------- files as the store writes them ---------- *)

(* one persist round: some bytes appended (the segments' kvs/buf regions with
   their alignment gaps — any bytes at all), then a footer *)
Definition round := (bytes * bytes)%type.        (* appended data, footer payload *)
Definition add_round (P : N) (f : bytes) (r : round) : bytes :=
  persist_footer P (f ++ fst r) (snd r).
Definition build (P : N) (header : bytes) (rounds : list round) : bytes :=
  fold_left (add_round P) rounds header.

(* does a page-aligned offset look like the start of a footer? *)
Definition magic_at (f : bytes) (q : N) : bool :=
  match read_at f q footerBegLen with
  | Some beg => magic_beg_ok beg
  | None => false
  end.

(* no page-aligned offset above [lo], other than [F], starts with magicBeg magicBeg *)
Definition no_fake_footer (P : N) (f : bytes) (lo F : N) : Prop :=
  forall q, aligned P q -> lo < q -> q <> F -> magic_at f q = false.

(* ---------- test entry points (for extraction) ---------- *)

Definition scan_code (r : scan_result) : N * N :=
  match r with
  | Found p _ => (0, p)
  | NoValidFooter => (1, 0)
  | ScanError => (2, 0)
  | ScanPanic => (3, 0)
  end.

Definition scan_footer_bytes (P : N) (file : bytes) : N * N := scan_code (read_footer P file).
Definition scan_footer_repaired_bytes (P : N) (file : bytes) : N * N :=
  scan_code (read_footer_repaired P file).

(* the crash images the harness builds leave a page that was not written as zeros, and the
   JSON text moss writes never holds a NUL byte: on those images "json.Unmarshal succeeds"
   is "the payload holds no NUL byte" *)
Definition payload_no_nul (b : bytes) : bool :=
  fold_left (fun acc x => acc && negb (N.eqb x 0)) b true.   (* a left fold: constant stack in the extracted runner *)
Definition scan_footer_json_bytes (P : N) (file : bytes) : N * N :=
  scan_code (read_footer_json payload_no_nul P file).

Definition op_eqb (a b : op) : bool :=
  match a, b with
  | OSet x, OSet y => beqb x y
  | ODel, ODel => true
  | OMerge x, OMerge y => beqb x y
  | _, _ => false
  end.
Fixpoint seg_eqb (a b : segment) : bool :=
  match a, b with
  | [], [] => true
  | (k1, o1) :: r1, (k2, o2) :: r2 => beqb k1 k2 && op_eqb o1 o2 && seg_eqb r1 r2
  | _, _ => false
  end.

(* persist s at the end of a pos-byte file, load it back, compare *)
Definition roundtrip_check (P pos : N) (s : segment) : bool :=
  let f := apply_delta (zeros pos) (persist_segment P pos s) in
  match load_segment f (persist_segment_loc P pos s) with
  | Some s' => seg_eqb s s'
  | None => false
  end.
