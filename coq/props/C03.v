(* C03 — Batches become visible atomically and in order under concurrency. *)
From Coq Require Import List.
From Moss Require Import Collection Theorems History HistoryFacts.

(* the model: every critical section is one label; for ANY interleaving of the
   writers' batches (disjoint key sets) with merger / persister / compaction
   labels, a snapshot shows on writer w's keys exactly the reference of w's own
   batches executed so far: complete effects of a prefix, nothing of a later batch *)
Theorem C03_snapshot_is_per_writer_prefix :
  forall (fm : bytes -> value -> bytes -> value) (own : bytes -> nat) c l0 ls s (h : tagged),
    run fm c (init l0) ls = Some s -> closed s = false ->
    batches ls = map snd h -> respects own h ->
    forall k, snap_get fm (cur_snapshot s) k
              = ref_from fm (llv fm l0) (map snd (of_writer (own k) h)) k.
Proof. exact snapshot_is_per_writer_prefix. Qed.
Print Assumptions C03_snapshot_is_per_writer_prefix.

(* ... that prefix is a prefix of the writer's batch list and grows with time *)
Theorem C03_prefix_of_writer_batches :
  forall w (h : tagged) n,
    of_writer w (firstn n h) = firstn (length (of_writer w (firstn n h))) (of_writer w h).
Proof. exact of_writer_firstn. Qed.
Print Assumptions C03_prefix_of_writer_batches.

Theorem C03_prefix_never_shrinks :
  forall w (h : tagged) n1 n2, n1 <= n2 ->
    length (of_writer w (firstn n1 h)) <= length (of_writer w (firstn n2 h)).
Proof. exact of_writer_firstn_mono. Qed.
Print Assumptions C03_prefix_never_shrinks.

(* the checker applied to recorded histories of the real, free-running system
   decides exactly the declarative conditions *)
Theorem C03_checker_sound : forall h, check_hist h = true -> hist_ok h.
Proof. exact check_hist_sound. Qed.
Print Assumptions C03_checker_sound.

Theorem C03_checker_complete : forall h, hist_ok h -> check_hist h = true.
Proof. exact check_hist_complete. Qed.
Print Assumptions C03_checker_complete.
