(* C06 — I/O failures never publish corrupt state or lose data. *)
From Moss Require Import Collection Faults FaultsFacts Theorems.

(* for EVERY failure pattern of a round (any operation, bursts, persisting): *)
Theorem C06_success_means_served :
  forall fail k, error (run_round fail k) = false ->
    served_new (run_round fail k) = true /\ new_complete (run_round fail k) = true.
Proof. exact success_means_served. Qed.
Print Assumptions C06_success_means_served.

Theorem C06_failure_is_surfaced_and_harmless :
  forall fail k, served_new (run_round fail k) = false ->
    error (run_round fail k) = true /\ old_exists (run_round fail k) = true.
Proof. exact failure_is_surfaced_and_harmless. Qed.
Print Assumptions C06_failure_is_surfaced_and_harmless.

Theorem C06_no_good_file_replaced_by_incomplete_one :
  forall fail k, old_exists (run_round fail k) = false ->
    served_new (run_round fail k) = true /\ new_complete (run_round fail k) = true /\
    new_exists (run_round fail k) = true.
Proof. exact old_file_removed_only_after_complete_footer. Qed.
Print Assumptions C06_no_good_file_replaced_by_incomplete_one.

Theorem C06_served_footer_is_complete :
  forall fail k, served_new (run_round fail k) = true -> new_complete (run_round fail k) = true.
Proof. exact served_footer_is_complete. Qed.
Print Assumptions C06_served_footer_is_complete.

Theorem C06_catches_up_when_operations_succeed_again :
  forall k, served_new (run_round (fun _ => false) k) = true /\ error (run_round (fun _ => false) k) = false.
Proof. exact retry_without_failures_succeeds. Qed.
Print Assumptions C06_catches_up_when_operations_succeed_again.

(* the collection side: a failed LowerLevelUpdate leaves every section as it was *)
Theorem C06_collection_unchanged_by_failed_round :
  forall (fm : bytes -> value -> bytes -> value) c s s1 s2,
    step fm c s LPBegin = Some s1 -> step fm c s1 LPFail = Some s2 ->
    base s2 = base s /\ top s2 = top s /\ mid s2 = mid s /\ ll s2 = ll s /\ clean s2 = clean s
    /\ persister s2 = PIdle.
Proof. exact failed_update_keeps_base. Qed.
Print Assumptions C06_collection_unchanged_by_failed_round.
