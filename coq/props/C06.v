(* C06 — I/O failures never publish corrupt state or lose data. *)
From Moss Require Import Collection Faults FaultsFacts Theorems.

(* for EVERY failure pattern of a round (any operation, bursts, persisting): *)
Theorem C06_success_means_served :
  forall fail k, error (run_round fail k) = false ->
    served_new (run_round fail k) = true /\ new_complete (run_round fail k) = true.
Proof. exact success_means_served. Qed.
Print Assumptions C06_success_means_served.

Theorem C06_failure_is_surfaced_and_harmless :
  forall fail k, served_new (run_round fail k) = false ->
    error (run_round fail k) = true /\ old_exists (run_round fail k) = true.
Proof. exact failure_is_surfaced_and_harmless. Qed.
Print Assumptions C06_failure_is_surfaced_and_harmless.

Theorem C06_no_good_file_replaced_by_incomplete_one :
  forall fail k, old_exists (run_round fail k) = false ->
    served_new (run_round fail k) = true /\ new_complete (run_round fail k) = true /\
    new_exists (run_round fail k) = true.
Proof. exact old_file_removed_only_after_complete_footer. Qed.
Print Assumptions C06_no_good_file_replaced_by_incomplete_one.

Theorem C06_served_footer_is_complete :
  forall fail k, served_new (run_round fail k) = true -> new_complete (run_round fail k) = true.
Proof. exact served_footer_is_complete. Qed.
Print Assumptions C06_served_footer_is_complete.

Theorem C06_catches_up_when_operations_succeed_again :
  forall k, served_new (run_round (fun _ => false) k) = true /\ error (run_round (fun _ => false) k) = false.
Proof. exact retry_without_failures_succeeds. Qed.
Print Assumptions C06_catches_up_when_operations_succeed_again.

(* the collection side: a failed LowerLevelUpdate leaves every section as it was *)
Theorem C06_collection_unchanged_by_failed_round :
  forall (fm : bytes -> value -> bytes -> value) c s s1 s2,
    step fm c s LPBegin = Some s1 -> step fm c s1 LPFail = Some s2 ->
    base s2 = base s /\ top s2 = top s /\ mid s2 = mid s /\ ll s2 = ll s /\ clean s2 = clean s
    /\ persister s2 = PIdle.
Proof. exact failed_update_keeps_base. Qed.
Print Assumptions C06_collection_unchanged_by_failed_round.

(* ---- the faithful model of a persistence round and its error paths (StoreOps.v):
   files with existence / reference count / scheduled-for-removal / complete footers /
   un-synced footers, in-memory Footer objects, the served footer, the stack waiting in
   the persister; every fallible step of store.go persist(), store_compact.go
   compactMaybe()/compact() and store_footer.go persistFooter() in code order with the
   code's own reaction to a failure; an arbitrary failure oracle; any sequence of round
   kinds (append, partial compaction, full compaction, no-op), with persister retries *)
From Moss Require Import StoreOps StoreOpsFacts.

(* (a) the served footer always lives in a file that exists and is not scheduled for removal *)
Theorem C06_served_footer_alive :
  forall o fo ks,
  let st := reachable o fo ks in
  forall f, o_file (cur st) = Some f ->
    f_exists (files st f) = true /\ f_doomed (files st f) = false /\
    f_header (files st f) = true /\ f_refs (files st f) = 1%nat /\
    In {| d_id := s_cur st; d_content := o_content (cur st) |} (f_footers (files st f)).
Proof. exact served_footer_alive_run. Qed.
Print Assumptions C06_served_footer_alive.

(* (d) no round is applied twice; an error is never reported for a round that was committed *)
Theorem C06_no_round_applied_twice :
  forall o fo ks, NoDup (o_content (cur (reachable o fo ks))).
Proof. exact no_round_applied_twice_run. Qed.
Print Assumptions C06_no_round_applied_twice.

Theorem C06_no_error_after_commit :
  forall o fo ks n st, Inv n st ->
  Forall (fun oc => ro_error oc = true -> ro_committed oc = false) (snd (run o fo n ks st)).
Proof. exact no_error_after_commit_run. Qed.
Print Assumptions C06_no_error_after_commit.

(* (e) once operations succeed again the retried round goes through and serves everything *)
Theorem C06_retry_after_failures_succeeds :
  forall o fo ks k,
  k <> RNoop ->
  (forall s, fo (length ks) s = false) ->
  let st := reachable o fo ks in
  let st' := fst (persister_round o fo (length ks) k st) in
  let oc := snd (persister_round o fo (length ks) k st) in
  ro_error oc = false /\ dirty st' = [] /\
  o_content (cur st') = o_content (cur st) ++ ro_handed oc /\
  incl (dirty st) (ro_handed oc).
Proof. exact retry_after_failures_succeeds. Qed.
Print Assumptions C06_retry_after_failures_succeeds.

(* (f) close + reopen serves the last served footer (when the newest file is the served one) *)
Theorem C06_reopen_serves_last_served :
  forall n st f,
  Inv n st -> Newest st -> o_file (cur st) = Some f -> dirty st = [] ->
  reopen (close_all st) = ReopenServes f {| d_id := s_cur st; d_content := o_content (cur st) |}.
Proof. exact reopen_serves_last_served. Qed.
Print Assumptions C06_reopen_serves_last_served.

(* ... and without that side condition it is FALSE of the code as it stands (observation O2
   in DESIGN.md, reproduced on the real code with two injected failures): a full compaction
   whose footer sync fails AND whose clean-up Stat fails leaves a newer file with a complete
   footer behind; later rounds appended to the older file are lost by the next open *)
Theorem C06_reopen_after_two_failures_refuted :
  exists o ks fo,
    let st := reachable o fo ks in
    Forall (fun oc => ro_error oc = false) (skipn 2 (snd (run o fo 0 ks init))) /\
    dirty st = [] /\ o_file (cur st) = Some 0%nat /\ o_content (cur st) = [0; 1; 3]%nat /\
    reopen (close_all st) = ReopenServes 1 {| d_id := 2; d_content := [0; 1]%nat |} /\
    dir_of (close_all st) = [0; 1]%nat /\
    dir_after_reopen o (close_all st) = [1]%nat.
Proof. exact reopen_serves_what_was_served_refuted. Qed.
Print Assumptions C06_reopen_after_two_failures_refuted.
