(* C04 — Clean shutdown and reopen returns what was written. *)
From Moss Require Import Collection Store Theorems.

(* Close at any point: the directory holds the reference content after some
   prefix of the executed batches - never a mixture *)
Theorem C04_close_leaves_prefix :
  forall (fm : bytes -> value -> bytes -> value) c l0 ls s l',
    run fm c (init l0) ls = Some s -> closed s = false -> store_at_close fm s l' ->
    exists n, n <= length (batches ls) /\
              forall k, llv fm l' k = ref_from fm (llv fm l0) (firstn n (batches ls)) k.
Proof. exact close_leaves_prefix. Qed.
Print Assumptions C04_close_leaves_prefix.

(* persistence caught up: the directory holds all executed batches *)
Theorem C04_caught_up_is_complete :
  forall (fm : bytes -> value -> bytes -> value) c l0 ls s,
    run fm c (init l0) ls = Some s -> closed s = false -> dirty_segments s = 0 ->
    forall k, llv fm (ll s) k = ref_from fm (llv fm l0) (batches ls) k.
Proof. exact caught_up_close_is_complete. Qed.
Print Assumptions C04_caught_up_is_complete.

(* any number of close/reopen cycles *)
Theorem C04_cycles :
  forall (fm : bytes -> value -> bytes -> value) c l0 hs lf,
    cycles fm c l0 hs lf -> forall k, llv fm lf k = ref_from fm (llv fm l0) (concat hs) k.
Proof. exact cycles_content. Qed.
Print Assumptions C04_cycles.
