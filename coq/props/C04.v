(* C04 — Clean shutdown and reopen returns what was written. *)
From Moss Require Import Collection Store Theorems.

(* Close at any point: the directory holds the reference content after some
   prefix of the executed batches - never a mixture *)
Theorem C04_close_leaves_prefix :
  forall (fm : bytes -> value -> bytes -> value) c l0 ls s l',
    run fm c (init l0) ls = Some s -> closed s = false -> store_at_close fm s l' ->
    exists n, n <= length (batches ls) /\
              forall k, llv fm l' k = ref_from fm (llv fm l0) (firstn n (batches ls)) k.
Proof. exact close_leaves_prefix. Qed.
Print Assumptions C04_close_leaves_prefix.

(* persistence caught up: the directory holds all executed batches *)
Theorem C04_caught_up_is_complete :
  forall (fm : bytes -> value -> bytes -> value) c l0 ls s,
    run fm c (init l0) ls = Some s -> closed s = false -> dirty_segments s = 0 ->
    forall k, llv fm (ll s) k = ref_from fm (llv fm l0) (batches ls) k.
Proof. exact caught_up_close_is_complete. Qed.
Print Assumptions C04_caught_up_is_complete.

(* any number of close/reopen cycles *)
Theorem C04_cycles :
  forall (fm : bytes -> value -> bytes -> value) c l0 hs lf,
    cycles fm c l0 hs lf -> forall k, llv fm lf k = ref_from fm (llv fm l0) (concat hs) k.
Proof. exact cycles_content. Qed.
Print Assumptions C04_cycles.

(* ---- with child collections (TreeCycles.v): the combined system collection +
   store, started from ANY well-formed store that reads as r0, closed at any point
   (an in-flight round that had not begun may complete during Close) and reopened,
   any number of times; "modulo empty children" is forced by known finding F10b *)
From Coq Require Import List.
From Moss Require Import Tree TreeColl TreeRun TreeInv TreeCycles TreeCyclesFacts.

Theorem C04_tree_close_leaves_prefix :
  forall (fm : bytes -> value -> bytes -> value) (c : cfg) (f : fnode) (r0 : rtree)
         (ls : list clabel) (cs : cst) (ch : option persist_choice) (cs' : cst),
    fn_wf f -> fn_reads_mod fm f r0 ->
    Forall (fun b => tb_good b = true) (cbatches ls) ->
    crun fm c (cinit_from c f) ls = Some cs ->
    close_choice_ok cs ch -> cclose fm c cs ch = Some cs' ->
    exists a s n,
      a <= s /\ s <= n /\ n <= length (cbatches ls) /\
      (forall l, t_ll (c_t cs) = Some l ->
                 fn_reads_mod fm l (rt_run r0 (firstn a (cbatches ls)))) /\
      fn_reads_mod fm (c_store cs) (rt_run r0 (firstn s (cbatches ls))) /\
      fn_reads_mod fm (c_store cs') (rt_run r0 (firstn n (cbatches ls))) /\
      fn_wf (c_store cs').
Proof. exact tree_close_leaves_prefix. Qed.
Print Assumptions C04_tree_close_leaves_prefix.

Theorem C04_tree_caught_up_close_is_complete :
  forall (fm : bytes -> value -> bytes -> value) (c : cfg) (f : fnode) (r0 : rtree)
         (ls : list clabel) (cs : cst) (ch : option persist_choice) (cs' : cst),
    fn_wf f -> fn_reads_mod fm f r0 ->
    Forall (fun b => tb_good b = true) (cbatches ls) ->
    crun fm c (cinit_from c f) ls = Some cs ->
    caught_up cs -> cclose fm c cs ch = Some cs' ->
    fn_reads_mod fm (c_store cs') (rt_run r0 (cbatches ls)) /\ fn_wf (c_store cs').
Proof. exact tree_caught_up_close_is_complete. Qed.
Print Assumptions C04_tree_caught_up_close_is_complete.

(* any number of open / run / close cycles: the reopened snapshot reads as the
   reference of a concatenation of per-cycle prefixes ... *)
Theorem C04_tree_cycles_prefixes :
  forall (fm : bytes -> value -> bytes -> value) (c : cfg) (f0 : fnode) (r0 : rtree)
         (cy : list cycle) (sts : list cst) (ff : fnode),
    fn_wf f0 -> fn_reads_mod fm f0 r0 -> cycles_good cy ->
    cycles_run fm c f0 cy = Some (sts, ff) ->
    Forall2 (fun cs (lc : cycle) => close_choice_ok cs (snd lc)) sts cy ->
    exists hs,
      Forall2 is_prefix_of hs cy /\
      fn_wf ff /\ fn_reads_mod fm ff (rt_run r0 (concat hs)) /\
      reads_mod fm (reopened_snapshot c ff) (rt_run r0 (concat hs)).
Proof. exact tree_cycles_prefixes. Qed.
Print Assumptions C04_tree_cycles_prefixes.

(* ... and of ALL batches of all cycles when persistence had caught up before each close *)
Theorem C04_tree_cycles_content :
  forall (fm : bytes -> value -> bytes -> value) (c : cfg) (f0 : fnode) (r0 : rtree)
         (cy : list cycle) (sts : list cst) (ff : fnode),
    fn_wf f0 -> fn_reads_mod fm f0 r0 -> cycles_good cy ->
    cycles_run fm c f0 cy = Some (sts, ff) ->
    Forall caught_up sts ->
    fn_wf ff /\ fn_reads_mod fm ff (rt_run r0 (concat (cycle_batches cy))) /\
    reads_mod fm (reopened_snapshot c ff) (rt_run r0 (concat (cycle_batches cy))).
Proof. exact tree_cycles_content. Qed.
Print Assumptions C04_tree_cycles_content.

(* the runner's close and reopen labels ARE these definitions *)
Theorem C04_runner_close_is_cclose :
  forall (r : trs) (ch : option persist_choice) (r' : trs),
    trstep r (THClose ch) = Some r' ->
    cclose fm0 (tconf r) (cst_of r) ch = Some (cst_of r') /\ tconf r' = tconf r.
Proof. exact trstep_close_is_cclose. Qed.
Print Assumptions C04_runner_close_is_cclose.
Theorem C04_runner_reopen_is_cinit_from :
  forall (r r' : trs),
    trstep r THReopen = Some r' ->
    cst_of r' = cinit_from (tconf r) (tstore r) /\ tconf r' = tconf r.
Proof. exact trstep_reopen_is_cinit_from. Qed.
Print Assumptions C04_runner_reopen_is_cinit_from.

(* "exactly, not modulo empty children" is false: known finding F10b *)
Theorem C04_tree_cycles_exact_refuted :
  exists sts ff,
    cycles_good [(cy_lost, None)] /\
    cycles_run fm_append cy_cfg fnode_empty [(cy_lost, None)] = Some (sts, ff) /\
    Forall (caught_up) sts /\
    assoc cy_n (rt_kids (ref_tree (concat (cycle_batches [(cy_lost, None)])))) <> None /\
    assoc cy_n (ss_kids (reopened_snapshot cy_cfg ff)) = None /\
    ~ reads_as fm_append (reopened_snapshot cy_cfg ff)
               (ref_tree (concat (cycle_batches [(cy_lost, None)]))).
Proof. exact tree_cycles_exact_refuted. Qed.
Print Assumptions C04_tree_cycles_exact_refuted.
