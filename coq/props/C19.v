(* C19 — Bytes round-trip exactly; limits and API variants are safe. *)
From Coq Require Import NArith.
From Moss Require Import Bytes Segment Codec CodecFacts FileFormat FileFormatFacts.
Open Scope N_scope.

Theorem C19_word_roundtrips_within_limits :
  forall op_code key_len val_len : N,
    key_len <= 2 ^ 24 - 1 -> val_len <= 2 ^ 28 - 1 -> valid_op_code op_code ->
    decode (encode op_code key_len val_len) = (op_code, key_len, val_len).
Proof. exact C19_word_roundtrip. Qed.
Print Assumptions C19_word_roundtrips_within_limits.

(* the ErrKeyTooLarge / ErrValueTooLarge guard is exactly the non-aliasing condition *)
Theorem C19_limit_guard_is_exact :
  forall op_code key_len val_len : N, valid_op_code op_code ->
    mutate_guard key_len val_len = None <->
    decode (encode op_code key_len val_len) = (op_code, key_len, val_len).
Proof. exact C19_guard_exact. Qed.
Print Assumptions C19_limit_guard_is_exact.

Theorem C19_oversize_would_alias :
  forall op_code key_len val_len : N,
    2 ^ 24 <= key_len \/ 2 ^ 28 <= val_len ->
    decode (encode op_code key_len val_len) <> (op_code, key_len, val_len).
Proof. exact C19_word_limit_exact. Qed.
Print Assumptions C19_oversize_would_alias.

(* a persisted segment loads back bit-exactly: arbitrary byte strings within the
   limits, empty key, empty values, 0x00/0xFF, magic look-alikes; the rest of
   the file is arbitrary *)
Theorem C19_persisted_segment_roundtrips :
  forall (P pos : N) (s : segment) (f : bytes),
    0 < P -> seg_ok s ->
    contains f (seg_kvs_pos P pos) (kvs_bytes (kvs_words s 0)) ->
    contains f (seg_buf_pos P pos s) (seg_buf s) ->
    load_segment f (persist_segment_loc P pos s) = Some s.
Proof. exact C19_segment_roundtrip. Qed.
Print Assumptions C19_persisted_segment_roundtrips.

Theorem C19_page_alignment :
  forall P : N, 0 < P -> forall pos : N,
    pageAlignFloor P pos <= pos /\ pos <= pageAlignCeil P pos < pos + P.
Proof. exact page_align_sandwich. Qed.
Print Assumptions C19_page_alignment.
