(* C19 — Bytes round-trip exactly; limits and API variants are safe. *)
From Coq Require Import NArith.
From Moss Require Import Bytes Segment Codec CodecFacts FileFormat FileFormatFacts.
Open Scope N_scope.

Theorem C19_word_roundtrips_within_limits :
  forall op_code key_len val_len : N,
    key_len <= 2 ^ 24 - 1 -> val_len <= 2 ^ 28 - 1 -> valid_op_code op_code ->
    decode (encode op_code key_len val_len) = (op_code, key_len, val_len).
Proof. exact C19_word_roundtrip. Qed.
Print Assumptions C19_word_roundtrips_within_limits.

(* the ErrKeyTooLarge / ErrValueTooLarge guard is exactly the non-aliasing condition *)
Theorem C19_limit_guard_is_exact :
  forall op_code key_len val_len : N, valid_op_code op_code ->
    mutate_guard key_len val_len = None <->
    decode (encode op_code key_len val_len) = (op_code, key_len, val_len).
Proof. exact C19_guard_exact. Qed.
Print Assumptions C19_limit_guard_is_exact.

Theorem C19_oversize_would_alias :
  forall op_code key_len val_len : N,
    2 ^ 24 <= key_len \/ 2 ^ 28 <= val_len ->
    decode (encode op_code key_len val_len) <> (op_code, key_len, val_len).
Proof. exact C19_word_limit_exact. Qed.
Print Assumptions C19_oversize_would_alias.

(* a persisted segment loads back bit-exactly: arbitrary byte strings within the
   limits, empty key, empty values, 0x00/0xFF, magic look-alikes; the rest of
   the file is arbitrary *)
Theorem C19_persisted_segment_roundtrips :
  forall (P pos : N) (s : segment) (f : bytes),
    0 < P -> seg_ok s ->
    contains f (seg_kvs_pos P pos) (kvs_bytes (kvs_words s 0)) ->
    contains f (seg_buf_pos P pos s) (seg_buf s) ->
    load_segment f (persist_segment_loc P pos s) = Some s.
Proof. exact C19_segment_roundtrip. Qed.
Print Assumptions C19_persisted_segment_roundtrips.

Theorem C19_page_alignment :
  forall P : N, 0 < P -> forall pos : N,
    pageAlignFloor P pos <= pos /\ pos <= pageAlignCeil P pos < pos + P.
Proof. exact page_align_sandwich. Qed.
Print Assumptions C19_page_alignment.

(* ---- the in-memory batch buffer (buf []byte, kvs []uint64, Alloc handles): BatchBuf.v ---- *)
From Moss Require Import SegmentFacts BatchBuf BatchBufFacts.
From Moss Require Index.

(* every legal sequence of Set/Del/Merge/Alloc/copy/AllocSet/AllocDel/AllocMerge calls, keys
   and values of any length and content: the batch decodes to what it decoded to before,
   followed by the accepted operations in call order with exactly their bytes *)
Theorem C19_batch_calls_roundtrip :
  forall (cs : list call) (st : bstate) (es : segment),
    wf st -> run_legal st cs -> entries st = Some es ->
    entries (run st cs) = Some (es ++ accepted_run st cs).
Proof. exact run_entries. Qed.
Print Assumptions C19_batch_calls_roundtrip.

(* one call: earlier entries are never disturbed, a rejected call contributes nothing *)
Theorem C19_batch_call_appends :
  forall (st : bstate) (c : call) (es : segment),
    wf st -> call_legal st c -> entries st = Some es ->
    entries (fst (step st c)) = Some (es ++ accepted st c).
Proof. exact step_entries. Qed.
Print Assumptions C19_batch_call_appends.

(* every mixture of plain and Alloc-built operations (Alloc, copy, AllocXxx on the two
   halves): the batch holds exactly the operations that returned nil, in call order *)
Theorem C19_plain_and_alloc_built_mixture :
  forall (hs : list hop) (st : bstate) (es : segment),
    wf st -> hlegal st hs -> entries st = Some es ->
    entries (hrun st hs) = Some (es ++ haccepted st hs).
Proof. exact hrun_entries. Qed.
Print Assumptions C19_plain_and_alloc_built_mixture.

(* a handle returned by Alloc is live, reads n zero bytes, lies behind every registered
   range and behind every live handle: handed-out ranges never overlap *)
Theorem C19_alloc_handles_disjoint :
  forall (st : bstate) (n : N) (st' : bstate) (h : handle) (es : segment),
    wf st -> entries st = Some es -> alloc st n = (st', RHandle h) ->
    h_live st' h /\ h_len h = n /\ h_lo h = blen (b_buf st) /\ read st' h = zeros n /\
    Forall (fun r => range_disjoint r (h_lo h) (h_hi h)) (ranges st') /\
    (forall h0, h_live st h0 -> h_hi h0 <= h_lo h) /\
    b_gen st' = b_gen st /\ b_cap st' = b_cap st /\ b_kvs st' = b_kvs st.
Proof. exact alloc_handle_fresh. Qed.
Print Assumptions C19_alloc_handles_disjoint.

Theorem C19_copy_into_handle_reads_back :
  forall (st : bstate) (h : handle) (d : bytes),
    h_live st h -> blen d = h_len h -> read (fill st h d) h = d.
Proof. exact fill_read. Qed.
Print Assumptions C19_copy_into_handle_reads_back.

Theorem C19_copy_leaves_other_handles :
  forall (st : bstate) (h : handle) (d : bytes) (h' : handle),
    h_lo h' <= h_hi h' -> h_hi h' <= blen (b_buf st) -> h_lo h <= h_hi h ->
    (h_hi h' <= h_lo h \/ h_hi h <= h_lo h') ->
    read (fill st h d) h' = read st h'.
Proof. exact fill_read_other. Qed.
Print Assumptions C19_copy_leaves_other_handles.

(* Alloc / AllocSet / AllocDel / AllocMerge returning an error leave the batch untouched *)
Theorem C19_rejected_alloc_call_changes_nothing :
  forall (st : bstate) (c : call) (e : berr),
    is_plain c = false -> snd (step st c) = RErr e -> fst (step st c) = st.
Proof. exact rejected_alloc_call_unchanged. Qed.
Print Assumptions C19_rejected_alloc_call_changes_nothing.

(* a rejected Set / Del / Merge registers nothing but its bytes stay in buf *)
Theorem C19_rejected_plain_call_keeps_bytes :
  forall (st : bstate) (c : call) (e : berr),
    is_plain c = true -> snd (step st c) = RErr e ->
    b_kvs (fst (step st c)) = b_kvs st /\ b_buf (fst (step st c)) = b_buf st ++ call_data c.
Proof. exact rejected_plain_keeps_bytes. Qed.
Print Assumptions C19_rejected_plain_call_keeps_bytes.

(* buf moves to a new array only when a plain operation does not fit *)
Theorem C19_buffer_moves_only_on_overflow :
  forall (st : bstate) (c : call),
    blen (b_buf st) + call_bytes c <= b_cap st ->
    b_gen (fst (step st c)) = b_gen st /\ b_cap (fst (step st c)) = b_cap st.
Proof. exact step_same_array. Qed.
Print Assumptions C19_buffer_moves_only_on_overflow.

(* sort permutes kvs pairs only; a sorted batch with unique keys is a Segment.v segment *)
Theorem C19_sorted_batch_is_model_segment :
  forall (st : bstate) (es : segment),
    entries st = Some es -> NoDup (keys es) ->
    entries (sort_batch st) = Some (sort_seg es) /\ asc (keys (sort_seg es)) /\
    (forall x, In x (sort_seg es) <-> In x es) /\
    (forall k, find (sort_seg es) k = find es k).
Proof. exact sorted_batch_is_segment. Qed.
Print Assumptions C19_sorted_batch_is_model_segment.

Theorem C19_batch_find_start_is_lower_bound :
  forall (st : bstate) (es : segment) (key : bytes),
    entries st = Some es -> NoDup (keys es) ->
    batch_find_start (sort_batch st) key = Index.lower_bound (keys (sort_seg es)) key.
Proof. exact batch_find_start_spec. Qed.
Print Assumptions C19_batch_find_start_is_lower_bound.

Theorem C19_batch_get_is_find :
  forall (st : bstate) (es : segment) (key : bytes),
    entries st = Some es -> NoDup (keys es) -> batch_get (sort_batch st) key = find es key.
Proof. exact batch_get_spec. Qed.
Print Assumptions C19_batch_get_is_find.

(* REFUTED (finding): a handle obtained from Alloc of this batch and filled before use
   registers a wrong entry once a plain operation has outgrown the capacity in between *)
Theorem C19_refuted_handle_survives_growth :
  snd (alloc (new_batch 4 8) 4) = RHandle stale_h /\
  read (run (new_batch 4 8) [CAlloc 4; CFill stale_h b_k1v1]) stale_h = b_k1v1 /\
  map (fun c => res_code (snd (step (new_batch 4 8) c))) [CAlloc 4] = [0] /\
  b_gen (run (new_batch 4 8) stale_calls) = 1 /\
  b_kvs (run (new_batch 4 8) stale_calls) =
    [encode OperationSet 8 8; 4; encode OperationSet 2 2; 24] /\
  blen (b_buf (run (new_batch 4 8) stale_calls)) = 20 /\
  entries (run (new_batch 4 8) stale_calls) <>
    Some [(b_plainkey, OSet b_plainval); ([107; 49], OSet [118; 49])].
Proof. exact stale_handle_refuted. Qed.
Print Assumptions C19_refuted_handle_survives_growth.

(* REFUTED: AllocSet registers the bytes that FOLLOW the key, not the value slice passed *)
Theorem C19_refuted_detached_value :
  entries (run (new_batch 2 16) detached_calls) = Some [([107; 49], OSet [120; 120])] /\
  snd (step (run (new_batch 2 16) (removelast detached_calls))
            (CAllocSet (mkH 0 0 2 16) (mkH 0 4 6 16))) = ROk.
Proof. exact detached_value_refuted. Qed.
Print Assumptions C19_refuted_detached_value.
