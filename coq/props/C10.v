(* C10 — All read paths agree with each other. *)
From Moss Require Import Collection Theorems Refuted.

Theorem C10_collection_get_agrees :
  forall (fm : bytes -> value -> bytes -> value) (c : cfg) (l0 : llsnap)
         (ls : list label) (s : cstate),
    run fm c (init l0) ls = Some s -> closed s = false ->
    forall k, coll_get fm s k = snap_get fm (cur_snapshot s) k.
Proof. exact collection_get_agrees. Qed.
Print Assumptions C10_collection_get_agrees.

Theorem C10_refuted_pre_fix_sectionwise_get :
  exists ls s k,
    run fm_append cfg_mem (init []) ls = Some s /\
    coll_get_sectionwise fm_append s k <> snap_get fm_append (mk_snapshot s) k.
Proof. exact C10_refuted_pre_fix. Qed.
Print Assumptions C10_refuted_pre_fix_sectionwise_get.

(* the three read paths in ONE statement (ReadPaths): on every reachable state of an open
   collection, what an iterator over a fresh snapshot enumerates - any bounds, any naive-seek
   budget, any program of Next / SeekTo / Current calls - is a strictly ascending list holding
   exactly the in-range keys for which Snapshot.Get and Collection.Get return a value, each with
   that value (operator never returning nil: with a nil-returning one this is finding F17b) *)
From Coq Require Import List.
From Moss Require Import SegmentFacts Iterator IterBridge IterBridgeFacts ReadPaths.
Theorem C10_three_read_paths_agree :
  forall (fm : bytes -> value -> bytes -> value) (c : cfg) (l0 : llsnap) (ls : list label) (s : cstate)
         (start end_ : option bytes) (tries : nat),
    nonil fm -> run fm c (init l0) ls = Some s -> closed s = false ->
    let cfg := snap_cfg fm (cur_snapshot s) start end_ tries in
    (forall prog, run_model fm cfg prog = run_spec fm cfg prog) /\
    asc (map fst (live_range fm cfg)) /\
    (forall k v, In (k, v) (live_range fm cfg) <->
       in_range start end_ k = true /\ v <> None /\
       v = snap_get fm (cur_snapshot s) k /\ v = coll_get fm s k).
Proof. exact three_read_paths_agree. Qed.
Print Assumptions C10_three_read_paths_agree.
