(* C10 — All read paths agree with each other. *)
From Moss Require Import Collection Theorems Refuted.

Theorem C10_collection_get_agrees :
  forall (fm : bytes -> value -> bytes -> value) (c : cfg) (l0 : llsnap)
         (ls : list label) (s : cstate),
    run fm c (init l0) ls = Some s -> closed s = false ->
    forall k, coll_get fm s k = snap_get fm (cur_snapshot s) k.
Proof. exact collection_get_agrees. Qed.
Print Assumptions C10_collection_get_agrees.

Theorem C10_refuted_pre_fix_sectionwise_get :
  exists ls s k,
    run fm_append cfg_mem (init []) ls = Some s /\
    coll_get_sectionwise fm_append s k <> snap_get fm_append (mk_snapshot s) k.
Proof. exact C10_refuted_pre_fix. Qed.
Print Assumptions C10_refuted_pre_fix_sectionwise_get.
