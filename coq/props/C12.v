(* C12 — History can be walked back and reverted to exactly. *)
From Coq Require Import List.
From Moss Require Import Collection Store Previous PreviousFacts.

(* walking back: after an append round the walk from the new current footer is
   the footer that was current, then the old walk (so by induction: every
   round since the last compaction, newest first, then nil) *)
Theorem C12_walk_after_append :
  forall fuel f higher i, links_ok f -> current f = Some i ->
    h_walk (S fuel) (h_append f higher) (length f) = i :: h_walk fuel f i.
Proof. exact walk_after_append. Qed.
Print Assumptions C12_walk_after_append.

(* compactions (partial or full) cut the history *)
Theorem C12_walk_after_compaction :
  forall (fm : bytes -> value -> bytes -> value) fuel f sp higher,
    h_walk fuel (h_compact_partial fm f sp higher) (length f) = [] /\
    h_walk fuel (h_compact_full fm f higher) 0 = [].
Proof. exact walk_after_compaction. Qed.
Print Assumptions C12_walk_after_compaction.

(* what SnapshotPrevious returns is what the store exposed then: older footers never change *)
Theorem C12_older_footers_immutable :
  forall (f : hfile) (x : hfooter) i, i < length f -> nth_error (f ++ [x]) i = nth_error f i.
Proof. exact older_footers_immutable. Qed.
Print Assumptions C12_older_footers_immutable.

(* revert: exact content, new current, history still walkable, nothing older changed *)
Theorem C12_revert_is_exact :
  forall f t f' ft i,
    links_ok f -> nth_error f t = Some ft -> current f = Some i -> h_revert f t = Some f' ->
    current f' = Some (length f) /\
    (exists fr, nth_error f' (length f) = Some fr /\ h_segs fr = h_segs ft) /\
    (forall fuel, h_walk (S fuel) f' (length f) = i :: h_walk fuel f i) /\
    (forall j, j < length f -> nth_error f' j = nth_error f j).
Proof. exact revert_is_exact. Qed.
Print Assumptions C12_revert_is_exact.

(* batches persisted afterwards build on the reverted content *)
Theorem C12_append_after_revert_builds_on_target :
  forall (fm : bytes -> value -> bytes -> value) f t f' ft higher k,
    nth_error f t = Some ft -> h_revert f t = Some f' ->
    llv fm (cur_segs (h_append f' higher)) k = sget fm higher (llv fm (h_segs ft)) k.
Proof. exact append_after_revert_builds_on_target. Qed.
Print Assumptions C12_append_after_revert_builds_on_target.
