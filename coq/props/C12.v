(* C12 — History can be walked back and reverted to exactly. *)
From Coq Require Import List.
From Moss Require Import Collection Store Previous PreviousFacts.

(* walking back: after an append round the walk from the new current footer is
   the footer that was current, then the old walk (so by induction: every
   round since the last compaction, newest first, then nil) *)
Theorem C12_walk_after_append :
  forall fuel f higher i, links_ok f -> current f = Some i ->
    h_walk (S fuel) (h_append f higher) (length f) = i :: h_walk fuel f i.
Proof. exact walk_after_append. Qed.
Print Assumptions C12_walk_after_append.

(* compactions (partial or full) cut the history *)
Theorem C12_walk_after_compaction :
  forall (fm : bytes -> value -> bytes -> value) fuel f sp higher,
    h_walk fuel (h_compact_partial fm f sp higher) (length f) = [] /\
    h_walk fuel (h_compact_full fm f higher) 0 = [].
Proof. exact walk_after_compaction. Qed.
Print Assumptions C12_walk_after_compaction.

(* what SnapshotPrevious returns is what the store exposed then: older footers never change *)
Theorem C12_older_footers_immutable :
  forall (f : hfile) (x : hfooter) i, i < length f -> nth_error (f ++ [x]) i = nth_error f i.
Proof. exact older_footers_immutable. Qed.
Print Assumptions C12_older_footers_immutable.

(* revert: exact content, new current, history still walkable, nothing older changed *)
Theorem C12_revert_is_exact :
  forall f t f' ft i,
    links_ok f -> nth_error f t = Some ft -> current f = Some i -> h_revert f t = Some f' ->
    current f' = Some (length f) /\
    (exists fr, nth_error f' (length f) = Some fr /\ h_segs fr = h_segs ft) /\
    (forall fuel, h_walk (S fuel) f' (length f) = i :: h_walk fuel f i) /\
    (forall j, j < length f -> nth_error f' j = nth_error f j).
Proof. exact revert_is_exact. Qed.
Print Assumptions C12_revert_is_exact.

(* batches persisted afterwards build on the reverted content *)
Theorem C12_append_after_revert_builds_on_target :
  forall (fm : bytes -> value -> bytes -> value) f t f' ft higher k,
    nth_error f t = Some ft -> h_revert f t = Some f' ->
    llv fm (cur_segs (h_append f' higher)) k = sget fm higher (llv fm (h_segs ft)) k.
Proof. exact append_after_revert_builds_on_target. Qed.
Print Assumptions C12_append_after_revert_builds_on_target.

(* ---------------------------------------------------------------------------
   With child collections: a footer is a tree, the file is only reachable through
   a persisted segment somewhere in that tree (PrevTree.v).  The statements are
   over whole histories of persistence rounds (appended / compacted into the same
   file / first footer of a new file) and reverts.
   --------------------------------------------------------------------------- *)
From Moss Require Import Tree TreeRun PrevTree PrevTreeFacts.

(* the property's first sentence, for every history the store accepts: walking back
   from the current snapshot yields exactly the contents exposed since the last
   compaction (or new file), newest first, then nil; the head is the current content.
   The specification side (spec_run) is written over the history alone — no links,
   no indices.  Premise: every footer written holds a persisted segment somewhere
   (without one the file cannot be found: C12_previous_needs_a_segment). *)
Theorem C12_walk_is_history :
  forall evs f, Forall ev_segs_ok evs -> th_run [] evs = Some f -> f <> [] ->
    tcur_bs f :: walk_contents f = fst (spec_run evs).
Proof. exact walk_is_history. Qed.
Print Assumptions C12_walk_is_history.

Theorem C12_tree_revert_is_exact :
  forall f t f' ft i,
    tlinks_ok f -> nth_error f t = Some ft -> tcurrent f = Some i -> th_revert f t = Some f' ->
    tcurrent f' = Some (length f) /\
    (exists fr, nth_error f' (length f) = Some fr /\ tf_node fr = tf_node ft /\ tf_bs fr = tf_bs ft) /\
    (fn_any_segs (tf_node ft) = true ->
       forall fuel, th_walk (S fuel) f' (length f) = i :: th_walk fuel f i) /\
    (forall j, j < length f -> nth_error f' j = nth_error f j).
Proof. exact tree_revert_is_exact. Qed.
Print Assumptions C12_tree_revert_is_exact.

(* every footer of the current file that holds a segment anywhere in its tree is a revert target *)
Theorem C12_tree_revert_defined :
  forall f t ft, f <> [] -> nth_error f t = Some ft -> fn_any_segs (tf_node ft) = true ->
    exists f', th_revert f t = Some f'.
Proof. exact tree_revert_defined. Qed.
Print Assumptions C12_tree_revert_defined.

Theorem C12_tree_round_after_revert_builds_on_target :
  forall f t f' ft k b n,
    nth_error f t = Some ft -> th_revert f t = Some f' ->
    tcur_bs (th_round k f' b n) = tf_bs ft ++ [b].
Proof. exact tree_round_after_revert_builds_on_target. Qed.
Print Assumptions C12_tree_round_after_revert_builds_on_target.

(* the limit of the mechanism: a footer whose tree holds no segment leads nowhere *)
Theorem C12_previous_needs_a_segment :
  forall f i fi, nth_error f i = Some fi -> fn_any_segs (tf_node fi) = false -> th_previous f i = None.
Proof. exact tree_previous_needs_a_segment. Qed.
Print Assumptions C12_previous_needs_a_segment.

(* F37 (repaired, 8f6c423): the pinned SnapshotPrevious looked for the file in the top-level
   collection only — with all data in a child collection it answered nil after two rounds *)
Theorem C12_refuted_pre_fix_previous_child_only_F37 :
  exists f i j, th_run [] [ERound TKAppend (b_child seg1) child_only_1; ERound TKAppend (b_child seg2) child_only_2] = Some f /\
    tcurrent f = Some i /\ th_previous f i = Some j /\ th_previous_pinned f i = None /\
    walk_contents f = [[b_child seg1]].
Proof. exact previous_pinned_refuted_F37. Qed.
Print Assumptions C12_refuted_pre_fix_previous_child_only_F37.

(* F38 (repaired, 8f6c423): the pinned SnapshotRevert refused every target in which some
   collection has no persisted segment *)
Theorem C12_refuted_pre_fix_revert_segmentless_collection_F38 :
  exists f t f', tlinks_ok f /\ nth_error f t <> None /\
    th_revert f t = Some f' /\ th_revert_pinned f t = None /\
    tcur_bs f' = [b_top_and_empty_child seg1].
Proof. exact revert_pinned_refuted_F38. Qed.
Print Assumptions C12_refuted_pre_fix_revert_segmentless_collection_F38.

(* F42 (repaired, f656f50): the pinned first footer of a new data file was its own predecessor:
   the walk never ended; the repaired code (and th_round TKNewFile) answer nil *)
Theorem C12_refuted_pre_fix_new_file_walk_never_ends_F42 :
  forall f b n, fn_any_segs n = true ->
    forall fuel, th_walk fuel (th_round_newfile_pinned f b n) 0 = repeat 0 fuel.
Proof. exact new_file_walk_pinned_never_ends_F42. Qed.
Print Assumptions C12_refuted_pre_fix_new_file_walk_never_ends_F42.

Theorem C12_new_file_walk_is_nil :
  forall f b n fuel, th_walk fuel (th_round TKNewFile f b n) 0 = nil.
Proof. exact new_file_walk_is_nil. Qed.
Print Assumptions C12_new_file_walk_is_nil.
