(* C09 — Iterators enumerate the range in order and seek correctly. *)
From Coq Require Import List.
From Moss Require Import Bytes Segment SegmentFacts Stack Iterator IteratorFacts.

(* for every snapshot shape, bounds and program of Next / SeekTo / Current
   calls (any length, backward seeks, seeks after exhaustion, any naive-seek
   budget), the iterator answers exactly as the specification iterator over
   the sorted list of live in-range entries *)
Theorem C09_every_program_matches_the_specification :
  forall (fm : bytes -> value -> bytes -> value) (cfg : config) (prog : list call),
    cfg_ok cfg -> c_incl cfg = false -> run_model fm cfg prog = run_spec fm cfg prog.
Proof. exact C09_program. Qed.
Print Assumptions C09_every_program_matches_the_specification.

Theorem C09_start_enumerates_live_range :
  forall (fm : bytes -> value -> bytes -> value) (cfg : config),
    cfg_ok cfg -> c_incl cfg = false -> abs fm (iter_start cfg) = live_range fm cfg.
Proof. exact C09_start. Qed.
Print Assumptions C09_start_enumerates_live_range.

Theorem C09_live_range_strictly_ascending :
  forall (fm : bytes -> value -> bytes -> value) (cfg : config), asc (map fst (live_range fm cfg)).
Proof. exact C09_sorted. Qed.
Print Assumptions C09_live_range_strictly_ascending.

Theorem C09_next_drops_the_head :
  forall (fm : bytes -> value -> bytes -> value) (st : iter_state), wf fm st ->
    wf fm (fst (iter_next st)) /\ st_cfg (fst (iter_next st)) = st_cfg st /\
    abs fm (fst (iter_next st)) = tl (abs fm st) /\ snd (iter_next st) = nonempty (tl (abs fm st)).
Proof. exact C09_next. Qed.
Print Assumptions C09_next_drops_the_head.

(* SeekTo(x): the smallest live in-range key >= max(x, start), wherever x lies *)
Theorem C09_seek_positions_correctly :
  forall (fm : bytes -> value -> bytes -> value) (x : bytes) (st : iter_state),
    wf fm st -> c_incl (st_cfg st) = false ->
    wf fm (fst (iter_seek x st)) /\ st_cfg (fst (iter_seek x st)) = st_cfg st /\
    abs fm (fst (iter_seek x st)) = drop_lt (seek_bound (c_start (st_cfg st)) x) (live_range fm (st_cfg st)) /\
    snd (iter_seek x st) = nonempty (abs fm (fst (iter_seek x st))).
Proof. exact C09_seek. Qed.
Print Assumptions C09_seek_positions_correctly.

Theorem C09_done_is_sticky :
  forall (fm : bytes -> value -> bytes -> value) (st : iter_state),
    wf fm st -> c_incl (st_cfg st) = false -> abs fm st = [] ->
    iter_current fm st = RDone /\ snd (iter_next st) = false /\ abs fm (fst (iter_next st)) = [].
Proof. exact C09_done_sticky. Qed.
Print Assumptions C09_done_is_sticky.

(* the heap compares keys with the bounds' shared prefix stripped: harmless *)
Theorem C09_prefix_stripped_compare_is_exact :
  forall (start end_ : option bytes) (k1 k2 : bytes),
    in_range start end_ k1 = true -> in_range start end_ k2 = true ->
    cmp_strip (prefix_len start end_) k1 k2 = bcmp k1 k2.
Proof. exact C09_prefix_strip. Qed.
Print Assumptions C09_prefix_stripped_compare_is_exact.

(* the iterator of the pinned commit: refuted (optimize() after the leading-deletion skip) *)
Theorem C09_refuted_pre_fix :
  exists (cfg : config) (prog : list call),
    cfg_ok cfg /\ c_incl cfg = false /\ run_model_pre_fix fm_append cfg prog <> run_spec fm_append cfg prog.
Proof. exact C09_program_refuted. Qed.
Print Assumptions C09_refuted_pre_fix.

(* ---- IteratorOptions.IncludeDeletions = true (outside the property's text, which
   speaks of live keys; kept here because the model covers the mode) ---------------
   Every program answers exactly like the specification iterator over ALL entries of
   the range (deletions included) whose SeekTo performs the naive forward walk of
   naiveSeekTo ... *)
From Moss Require Import IteratorIncl IteratorInclFacts.
Theorem C09_incl_every_program_matches_the_exact_specification :
  forall (fm : bytes -> value -> bytes -> value) (cfg : config) (prog : list call),
    cfg_ok cfg -> c_incl cfg = true ->
    run_model fm cfg prog = run_spec_incl_naive fm cfg prog.
Proof. exact C09i_program_naive. Qed.
Print Assumptions C09_incl_every_program_matches_the_exact_specification.

(* ... and NOT like the natural one ("SeekTo(x) positions at the first entry >= x"):
   standing on a live entry below x, SeekTo steps over deletion entries at or after x,
   because Current() reports a nil key for them (observation O1 in DESIGN.md; confirmed
   on the real code) *)
Theorem C09_incl_natural_seek_refuted :
  exists cfg prog, cfg_ok cfg /\ c_incl cfg = true /\
    run_model fm_append cfg prog <> run_spec_incl fm_append cfg prog.
Proof. exact C09i_program_refuted. Qed.
Print Assumptions C09_incl_natural_seek_refuted.
