(* C11 — Child collections are isolated, atomic with their batch, deletable:
   the per-node facts of the tree model (Tree.v).  The history-level
   statements (lifecycle, recreate-starts-empty, survives persistence and
   reopen) are decided by the lock-step correspondence against the reference
   tree; see DESIGN.md section 4, C11. *)
From Moss Require Import Collection Store Tree TreeColl TreeFacts.

(* isolation, parent side *)
Theorem C11_children_never_touch_parent_segments :
  forall m ops bkids cur,
    ss_segs (snd (build_top m (TB ops bkids) cur))
    = batch_segs ops ++ match cur with Some s => ss_segs s | None => [] end.
Proof. exact build_top_parent_segs. Qed.
Print Assumptions C11_children_never_touch_parent_segments.

Theorem C11_child_only_batch_keeps_parent_reads :
  forall (fm : bytes -> value -> bytes -> value) m bkids cur below k,
    sget fm (ss_segs (snd (build_top m (TB [] bkids) (Some cur)))) below k
    = sget fm (ss_segs cur) below k.
Proof. exact child_only_batch_keeps_parent_reads. Qed.
Print Assumptions C11_child_only_batch_keeps_parent_reads.

(* merging keeps every node's reads, children and incarnations *)
Theorem C11_merge_keeps_node_view :
  forall (fm : bytes -> value -> bytes -> value) t s base k,
    sget fm (ss_segs (merge_node fm t s base)) (node_below fm s base) k
    = sget fm (ss_segs s) (node_below fm s base) k.
Proof. exact merge_node_view. Qed.
Print Assumptions C11_merge_keeps_node_view.

Theorem C11_merge_keeps_children :
  forall (fm : bytes -> value -> bytes -> value) t s base,
    map fst (ss_kids (merge_node fm t s base)) = map fst (ss_kids s) /\
    ss_incar (merge_node fm t s base) = ss_incar s.
Proof. exact merge_node_kids. Qed.
Print Assumptions C11_merge_keeps_children.

(* persistence, compaction and reopen keep every node's reads *)
Theorem C11_persist_keeps_node_view :
  forall (fm : bytes -> value -> bytes -> value) f s k,
    sget fm (fn_segs (append_footer f s)) no_below k = sget fm (ss_segs s) (fn_get fm f) k.
Proof. exact append_footer_view. Qed.
Print Assumptions C11_persist_keeps_node_view.

Theorem C11_compaction_keeps_node_view :
  forall (fm : bytes -> value -> bytes -> value) sp f s k,
    sget fm (fn_segs (compact_node fm sp (negb (Nat.eqb sp 0)) f s)) no_below k
    = sget fm (ss_segs s) (fn_get fm f) k.
Proof. exact compact_node_view. Qed.
Print Assumptions C11_compaction_keeps_node_view.

Theorem C11_reopen_keeps_content :
  forall inc f,
    fn_segs (snd (restore inc f)) = fn_segs f /\
    map fst (fn_kids (snd (restore inc f))) = map fst (fn_kids f) /\
    cn_incar (fst (restore inc f)) = inc /\ fn_incar (snd (restore inc f)) = inc.
Proof. exact restore_keeps_content. Qed.
Print Assumptions C11_reopen_keeps_content.
