(* C11 — Child collections are isolated, atomic with their batch, deletable:
   the per-node facts of the tree model (Tree.v).  The history-level
   statements (lifecycle, recreate-starts-empty, survives persistence and
   reopen) are decided by the lock-step correspondence against the reference
   tree; see DESIGN.md section 4, C11. *)
From Moss Require Import Collection Store Tree TreeColl TreeFacts.

(* isolation, parent side *)
Theorem C11_children_never_touch_parent_segments :
  forall m ops bkids cur,
    ss_segs (snd (build_top m (TB ops bkids) cur))
    = batch_segs ops ++ match cur with Some s => ss_segs s | None => [] end.
Proof. exact build_top_parent_segs. Qed.
Print Assumptions C11_children_never_touch_parent_segments.

Theorem C11_child_only_batch_keeps_parent_reads :
  forall (fm : bytes -> value -> bytes -> value) m bkids cur below k,
    sget fm (ss_segs (snd (build_top m (TB [] bkids) (Some cur)))) below k
    = sget fm (ss_segs cur) below k.
Proof. exact child_only_batch_keeps_parent_reads. Qed.
Print Assumptions C11_child_only_batch_keeps_parent_reads.

(* merging keeps every node's reads, children and incarnations *)
Theorem C11_merge_keeps_node_view :
  forall (fm : bytes -> value -> bytes -> value) t s base k,
    sget fm (ss_segs (merge_node fm t s base)) (node_below fm s base) k
    = sget fm (ss_segs s) (node_below fm s base) k.
Proof. exact merge_node_view. Qed.
Print Assumptions C11_merge_keeps_node_view.

Theorem C11_merge_keeps_children :
  forall (fm : bytes -> value -> bytes -> value) t s base,
    map fst (ss_kids (merge_node fm t s base)) = map fst (ss_kids s) /\
    ss_incar (merge_node fm t s base) = ss_incar s.
Proof. exact merge_node_kids. Qed.
Print Assumptions C11_merge_keeps_children.

(* persistence, compaction and reopen keep every node's reads *)
Theorem C11_persist_keeps_node_view :
  forall (fm : bytes -> value -> bytes -> value) f s k,
    sget fm (fn_segs (append_footer f s)) no_below k = sget fm (ss_segs s) (fn_get fm f) k.
Proof. exact append_footer_view. Qed.
Print Assumptions C11_persist_keeps_node_view.

Theorem C11_compaction_keeps_node_view :
  forall (fm : bytes -> value -> bytes -> value) sp f s k,
    sget fm (fn_segs (compact_node fm sp (negb (Nat.eqb sp 0)) f s)) no_below k
    = sget fm (ss_segs s) (fn_get fm f) k.
Proof. exact compact_node_view. Qed.
Print Assumptions C11_compaction_keeps_node_view.

Theorem C11_reopen_keeps_content :
  forall inc f,
    fn_segs (snd (restore inc f)) = fn_segs f /\
    map fst (fn_kids (snd (restore inc f))) = map fst (fn_kids f) /\
    cn_incar (fst (restore inc f)) = inc /\ fn_incar (snd (restore inc f)) = inc.
Proof. exact restore_keeps_content. Qed.
Print Assumptions C11_reopen_keeps_content.

(* END TO END: the combined system "collection with child collections + store"
   (TreeInv.v: every lower-level update is what the store model computes, for
   any persist choice incl. every compaction splice point; any placement of
   merger and persister steps; arbitrary merge operator).  For every label
   sequence whose batches name each child at most once per node (tb_good; real
   batches keep children in a map), the current snapshot READS AS THE REFERENCE
   TREE: at the root and at every path of child names every key reads what the
   reference holds, and the child names are exactly the reference's - a deleted
   child is gone, a re-created child does not see its predecessor. *)
From Coq Require Import List.
From Moss Require Import TreeInv TreeInvFacts.
Theorem C11_tree_snapshot_reads_reference :
  forall (fm : bytes -> value -> bytes -> value) (c : cfg) (ls : list clabel) (cs : cst),
    Forall (fun b => tb_good b = true) (cbatches ls) ->
    crun fm c (cinit c) ls = Some cs ->
    reads_as fm (t_cur_snapshot (c_t cs)) (ref_tree (cbatches ls)).
Proof. exact tree_snapshot_reads_reference. Qed.
Print Assumptions C11_tree_snapshot_reads_reference.

Theorem C11_tree_reads_reference_at_every_path :
  forall (fm : bytes -> value -> bytes -> value) (c : cfg) (ls : list clabel) (cs : cst) (p : list cname),
    Forall (fun b => tb_good b = true) (cbatches ls) ->
    crun fm c (cinit c) ls = Some cs ->
    match ss_at (t_cur_snapshot (c_t cs)) p, rt_at (ref_tree (cbatches ls)) p with
    | Some s', Some r' =>
        (forall k, ss_get fm s' k = rt_get fm r' k) /\
        (forall n, In n (map fst (ss_kids s')) <-> In n (map fst (rt_kids r')))
    | None, None => True
    | _, _ => False
    end.
Proof. exact tree_snapshot_reads_reference_at_every_path. Qed.
Print Assumptions C11_tree_reads_reference_at_every_path.

(* the store's footer tree READ ON ITS OWN holds the reference after a prefix of
   the batches, and the whole reference once nothing is pending - up to the
   existence of empty child collections (fn_reads_mod: every key agrees at every
   footer node, every child footer belongs to a child of the reference; a child
   of the reference without a footer holds no key at any depth).  The weakening
   is forced by known finding F10b. *)
Theorem C11_tree_store_reads_prefix :
  forall (fm : bytes -> value -> bytes -> value) (c : cfg) (ls : list clabel) (cs : cst),
    has_ll c = true ->
    Forall (fun b => tb_good b = true) (cbatches ls) ->
    crun fm c (cinit c) ls = Some cs ->
    exists a, a <= length (cbatches ls) /\
              fn_reads_mod fm (c_store cs) (ref_tree (firstn a (cbatches ls))).
Proof. exact tree_store_reads_prefix. Qed.
Print Assumptions C11_tree_store_reads_prefix.

Theorem C11_tree_drained_store_is_reference :
  forall (fm : bytes -> value -> bytes -> value) (c : cfg) (ls : list clabel) (cs : cst),
    has_ll c = true ->
    Forall (fun b => tb_good b = true) (cbatches ls) ->
    crun fm c (cinit c) ls = Some cs ->
    t_persister (c_t cs) = PIdle ->
    t_top (c_t cs) = None -> t_mid (c_t cs) = None -> t_base (c_t cs) = None ->
    fn_reads_mod fm (c_store cs) (ref_tree (cbatches ls)).
Proof. exact tree_drained_store_is_reference. Qed.
Print Assumptions C11_tree_drained_store_is_reference.

(* the hand-over of the pinned commit (only the root of the stack given to the
   persister got the current lower-level snapshot): refuted - finding F28 *)
Theorem C11_refuted_pre_fix_stale_child_lower_level :
  exists cs s r,
    Forall (fun b => tb_good b = true) (cbatches cex_run) /\
    crun_pre_fix fm_append cex_cfg (cinit cex_cfg) cex_run = Some cs /\
    assoc cex_n (ss_kids (t_cur_snapshot (c_t cs))) = Some s /\
    assoc cex_n (rt_kids (ref_tree (cbatches cex_run))) = Some r /\
    ss_get fm_append s cex_k = Some [58; 97; 58; 98; 58; 99]%N /\
    rt_get fm_append r cex_k = Some [100; 58; 97; 58; 98; 58; 99]%N.
Proof. exact tree_theorem_refuted_pre_fix. Qed.
Print Assumptions C11_refuted_pre_fix_stale_child_lower_level.

(* FROM ANY STORE, AND ACROSS REOPEN CYCLES (TreeCycles).  The end-to-end theorem does not
   need the empty store: opened on ANY footer tree f with distinct child names that reads as
   the reference tree r0 (up to the existence of empty child collections, F10b), after every
   label sequence the snapshot reads EXACTLY as the reference tree continued from r0 cut down
   to the children that have a footer ... *)
From Moss Require Import Tree TreeColl TreeRun TreeCycles TreeCyclesFacts TreeCyclesRun.
Theorem C11_tree_snapshot_reads_reference_from_any_store :
  forall (fm : bytes -> value -> bytes -> value) (c : cfg) (f : fnode) (r0 : rtree)
         (ls : list clabel) (cs : cst),
    fn_wf f -> fn_reads_mod fm f r0 ->
    Forall (fun b => tb_good b = true) (cbatches ls) ->
    crun fm c (cinit_from c f) ls = Some cs ->
    reads_as fm (t_cur_snapshot (c_t cs)) (rt_run (rt_restrict r0 f) (cbatches ls)) /\
    rt_sub fm (rt_restrict r0 f) r0 /\ fn_reads_exact fm f (rt_restrict r0 f).
Proof. exact tree_snapshot_reads_reference_from_any_store. Qed.
Print Assumptions C11_tree_snapshot_reads_reference_from_any_store.

(* ... and IN THE MIDDLE of incarnation n+1: after any number of open / run / close cycles
   (closed at any point; an in-flight round that had not begun may complete during Close) the
   collection reopened on the resulting store and run through ANY further label sequence
   reads as the reference tree of per-cycle prefixes followed by the batches of the current
   run (all batches of all cycles when persistence had caught up before each Close) *)
Theorem C11_tree_reads_reference_across_reopen_cycles :
  forall (fm : bytes -> value -> bytes -> value) (c : cfg) (f0 : fnode) (r0 : rtree)
         (cy : list cycle) (sts : list cst) (ff : fnode) (ls : list clabel) (cs : cst),
    fn_wf f0 -> fn_reads_mod fm f0 r0 -> cycles_good cy ->
    cycles_run fm c f0 cy = Some (sts, ff) ->
    Forall2 (fun st (lc : cycle) => close_choice_ok st (snd lc)) sts cy ->
    Forall (fun b => tb_good b = true) (cbatches ls) ->
    crun fm c (cinit_from c ff) ls = Some cs ->
    exists hs,
      Forall2 is_prefix_of hs cy /\
      reads_mod fm (t_cur_snapshot (c_t cs)) (rt_run r0 (concat hs ++ cbatches ls)).
Proof. exact tree_cycles_then_run_reads_reference. Qed.
Print Assumptions C11_tree_reads_reference_across_reopen_cycles.

Theorem C11_tree_reads_everything_across_caught_up_cycles :
  forall (fm : bytes -> value -> bytes -> value) (c : cfg) (f0 : fnode) (r0 : rtree)
         (cy : list cycle) (sts : list cst) (ff : fnode) (ls : list clabel) (cs : cst),
    fn_wf f0 -> fn_reads_mod fm f0 r0 -> cycles_good cy ->
    cycles_run fm c f0 cy = Some (sts, ff) ->
    Forall caught_up sts ->
    Forall (fun b => tb_good b = true) (cbatches ls) ->
    crun fm c (cinit_from c ff) ls = Some cs ->
    reads_mod fm (t_cur_snapshot (c_t cs))
              (rt_run r0 (concat (cycle_batches cy) ++ cbatches ls)).
Proof. exact tree_cycles_then_run_reads_everything. Qed.
Print Assumptions C11_tree_reads_everything_across_caught_up_cycles.
