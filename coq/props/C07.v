(* C07 — Compaction never changes content and reclaims garbage. *)
From Moss Require Import Collection Store StackFacts StoreFacts TreeFacts Tree.

(* content: for every splice point (0 = full compaction into a new file) *)
Theorem C07_compaction_keeps_content :
  forall (fm : bytes -> value -> bytes -> value) sp higher f k,
    llv fm (compact fm sp higher f) k = sget fm higher (llv fm f) k.
Proof. exact compact_view. Qed.
Print Assumptions C07_compaction_keeps_content.

(* the same for every node of a tree of child collections *)
Theorem C07_compaction_keeps_child_content :
  forall (fm : bytes -> value -> bytes -> value) sp f s k,
    sget fm (fn_segs (compact_node fm sp (negb (Nat.eqb sp 0)) f s)) no_below k
    = sget fm (ss_segs s) (fn_get fm f) k.
Proof. exact compact_node_view. Qed.
Print Assumptions C07_compaction_keeps_child_content.

(* shape of a full compaction: one segment, strictly ascending keys ... *)
Theorem C07_full_compaction_sorted :
  forall upper fg, SegmentFacts.asc (keys (merge_range false false upper fg)).
Proof. intros. apply merge_range_asc. Qed.
Print Assumptions C07_full_compaction_sorted.

(* ... and no deletion marker (for operators that never return nil) *)
Theorem C07_full_compaction_no_tombstones :
  forall (fm : bytes -> value -> bytes -> value) upper k,
    (forall k c v, fm k c v <> None) ->
    find (merge_range false false upper (sget fm upper no_below)) k <> Some ODel.
Proof. exact compact_full_no_del. Qed.
Print Assumptions C07_full_compaction_no_tombstones.
