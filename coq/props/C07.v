(* C07 — Compaction never changes content and reclaims garbage. *)
From Moss Require Import Collection Store StackFacts StoreFacts TreeFacts Tree.

(* content: for every splice point (0 = full compaction into a new file) *)
Theorem C07_compaction_keeps_content :
  forall (fm : bytes -> value -> bytes -> value) sp higher f k,
    llv fm (compact fm sp higher f) k = sget fm higher (llv fm f) k.
Proof. exact compact_view. Qed.
Print Assumptions C07_compaction_keeps_content.

(* the same for every node of a tree of child collections *)
Theorem C07_compaction_keeps_child_content :
  forall (fm : bytes -> value -> bytes -> value) sp f s k,
    sget fm (fn_segs (compact_node fm sp (negb (Nat.eqb sp 0)) f s)) no_below k
    = sget fm (ss_segs s) (fn_get fm f) k.
Proof. exact compact_node_view. Qed.
Print Assumptions C07_compaction_keeps_child_content.

(* shape of a full compaction: one segment, strictly ascending keys ... *)
Theorem C07_full_compaction_sorted :
  forall upper fg, SegmentFacts.asc (keys (merge_range false false upper fg)).
Proof. intros. apply merge_range_asc. Qed.
Print Assumptions C07_full_compaction_sorted.

(* ... and no deletion marker (for operators that never return nil) *)
Theorem C07_full_compaction_no_tombstones :
  forall (fm : bytes -> value -> bytes -> value) upper k,
    (forall k c v, fm k c v <> None) ->
    find (merge_range false false upper (sget fm upper no_below)) k <> Some ODel.
Proof. exact compact_full_no_del. Qed.
Print Assumptions C07_full_compaction_no_tombstones.

(* the level arithmetic of calcPartialCompactionStart: the model computes determineExponent
   with fuel; for every factor the repaired code can work with (>= 2: eff_mult) and every
   segment size below 2^64 the fuel never decides ... *)
Theorem C07_level_exponent_fuel_suffices :
  forall (mult seg cur : N) (lvl extra : nat),
    (2 <= mult)%N -> (seg < 2 ^ 64)%N ->
    det_exp_aux mult seg (cur * mult) lvl (64 + extra) = determine_exponent mult seg cur lvl.
Proof. exact determine_exponent_fuel_suffices. Qed.
Print Assumptions C07_level_exponent_fuel_suffices.

Theorem C07_effective_multiplier_at_least_two : forall m, (2 <= eff_mult m)%N.
Proof. exact eff_mult_ge_2. Qed.
Print Assumptions C07_effective_multiplier_at_least_two.

(* ... F40 (repaired): with CompactionLevelMultiplier = 1 the pinned code used the factor 1,
   for which the fuel ALWAYS decides - the loop in the code never ends, the persister spins,
   Close never returns *)
Theorem C07_refuted_pre_fix_multiplier_one_never_stops_F40 :
  forall (seg sz : N) (lvl fuel : nat),
    (0 < sz)%N -> (sz <= seg)%N -> det_exp_aux 1 seg sz lvl fuel = (lvl + fuel)%nat.
Proof. exact det_exp_mult_one_never_stops. Qed.
Print Assumptions C07_refuted_pre_fix_multiplier_one_never_stops_F40.
