(* C14 — Lookups do not depend on the segment key index. *)
From Moss Require Import Bytes Segment SegmentFacts Index IndexFacts.

Theorem C14_window_contains_key :
  forall quota min_key_bytes ks key idx l r,
    asc ks -> build_index quota min_key_bytes ks = Some idx -> lookup idx key = (l, r) ->
    l <= r /\ r <= length ks /\
    (forall p, p < l -> blt (skey ks p) key) /\
    (forall p, r <= p -> p < length ks -> blt key (skey ks p)) /\
    (forall p, nth_error ks p = Some key -> l <= p < r) /\
    l <= lower_bound ks key <= r.
Proof. exact C14_window. Qed.
Print Assumptions C14_window_contains_key.

Theorem C14_point_lookup_independent :
  forall quota min_key_bytes ks key, asc ks ->
    find_key_pos (build_index quota min_key_bytes ks) ks key = position ks key.
Proof. exact C14_get_indep. Qed.
Print Assumptions C14_point_lookup_independent.

Theorem C14_range_start_independent :
  forall quota min_key_bytes ks key, asc ks ->
    find_start_pos (build_index quota min_key_bytes ks) ks key = lower_bound ks key.
Proof. exact C14_start_indep. Qed.
Print Assumptions C14_range_start_independent.

Theorem C14_unindexed_search_correct :
  forall ks key, asc ks ->
    find_key_pos None ks key = position ks key /\
    find_start_pos None ks key = lower_bound ks key.
Proof. exact C14_no_index_correct. Qed.
Print Assumptions C14_unindexed_search_correct.
