(* C01 — Reads reflect exactly the batches executed so far. *)
From Moss Require Import Collection Theorems.

Theorem C01_snapshot_reads_reference :
  forall (fm : bytes -> value -> bytes -> value) (c : cfg) (l0 : llsnap)
         (ls : list label) (s : cstate),
    run fm c (init l0) ls = Some s -> closed s = false ->
    forall k, snap_get fm (cur_snapshot s) k = ref_from fm (llv fm l0) (batches ls) k.
Proof. exact snapshot_reads_reference. Qed.
Print Assumptions C01_snapshot_reads_reference.

(* ... and iteration: on every reachable state an iterator over the current
   snapshot (any bounds, any naive-seek budget, any program of Next / SeekTo /
   Current calls) behaves like the specification iterator over a strictly
   ascending list holding exactly the keys of the range that the reference maps
   to a value, each with that value.  `nonil`: the operator never returns nil
   (with a nil-returning operator the statement is false: known finding F17b). *)
From Coq Require Import List.
From Moss Require Import SegmentFacts Iterator IterBridge IterBridgeFacts.
Theorem C01_iteration_is_reference :
  forall (fm : bytes -> value -> bytes -> value) (c : cfg) (l0 : llsnap)
         (ls : list label) (s : cstate) (start end_ : option bytes) (tries : nat),
    nonil fm -> run fm c (init l0) ls = Some s -> closed s = false ->
    let cfg := snap_cfg fm (cur_snapshot s) start end_ tries in
    (forall prog, run_model fm cfg prog = run_spec fm cfg prog) /\
    asc (map fst (live_range fm cfg)) /\
    (forall k v, In (k, v) (live_range fm cfg) <->
       in_range start end_ k = true /\ v <> None /\
       v = ref_from fm (llv fm l0) (batches ls) k).
Proof. exact iteration_is_reference. Qed.
Print Assumptions C01_iteration_is_reference.

(* the lower level's part of that iterator is what the lower level's own
   iterator enumerates *)
Theorem C01_lower_level_entries_are_its_iteration :
  forall (fm : bytes -> value -> bytes -> value) (l : llsnap),
    nonil fm ->
    map (fun e => (fst e, Some (snd e))) (ll_entries fm l) = live_range fm (ll_cfg l).
Proof. exact ll_entries_is_ll_iteration. Qed.
Print Assumptions C01_lower_level_entries_are_its_iteration.

Example nonil_is_satisfiable : nonil (fun _ cur v => Some (match cur with Some c => c ++ v | None => v end)).
Proof. intros k cur v. discriminate. Qed.
