(* C01 — Reads reflect exactly the batches executed so far. *)
From Moss Require Import Collection Theorems.

Theorem C01_snapshot_reads_reference :
  forall (fm : bytes -> value -> bytes -> value) (c : cfg) (l0 : llsnap)
         (ls : list label) (s : cstate),
    run fm c (init l0) ls = Some s -> closed s = false ->
    forall k, snap_get fm (cur_snapshot s) k = ref_from fm (llv fm l0) (batches ls) k.
Proof. exact snapshot_reads_reference. Qed.
Print Assumptions C01_snapshot_reads_reference.
