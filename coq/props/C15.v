(* C15 — Handles keep their data alive; closing everything releases everything:
   the reference-count monitor applied to event traces of the implementation. *)
From Coq Require Import List ZArith.
From Moss Require Import Refs RefsFacts.
Open Scope Z_scope.

(* an accepted trace has, for every object, a well-formed count history:
   steps of one, and nothing at all after the count reached zero - so nothing
   is used, re-acquired or released again after its release *)
Theorem C15_no_use_after_release :
  forall all_closed tr, refs_check all_closed tr = ROK -> forall o, wf_counts (counts_of o tr).
Proof. exact refs_check_no_use_after_release. Qed.
Print Assumptions C15_no_use_after_release.

(* when every handle, the collection and the store are closed, no object is
   left with a positive count *)
Theorem C15_everything_released :
  forall tr, refs_check true tr = ROK ->
    exists st, rrun [] tr = inl st /\ forall o c, In (o, c) st -> c <= 0.
Proof. exact refs_check_no_leak. Qed.
Print Assumptions C15_everything_released.

(* ---- the ownership model (Owners.v): a heap of counted objects (FileRef, MmapRef,
   Footer, SegmentStack, SnapshotWrapper) with the counted references each holds, the
   roots (store footer, collection sections, lower-level snapshot, cached snapshot,
   merger's and persister's temporaries) and every open user handle; one operation per
   AddRef/DecRef sequence of the code, in code order (snapshots, child snapshots, store
   snapshots, previous, iterators incl. re-creating SeekTo, batches, merger steps,
   persistence incl. partial and full compaction, closes).  Five recorded AddRef/DecRef
   traces of the real code equal the model's event for event (model_matches_recorded_trace1..5) *)
From Moss Require Import Owners OwnersFacts.
Close Scope Z_scope.
Open Scope nat_scope.

Theorem C15_ownership_invariant :
  forall ops st, run ops = Some st ->
  forall o, cnt_of (hp st) o = cn o (roots st) + cn o (allrefs (hp st)).
Proof. exact ownership_invariant. Qed.
Print Assumptions C15_ownership_invariant.

Theorem C15_no_dangling_reference :
  forall ops st, run ops = Some st ->
  (forall o, In o (roots st) -> cnt_of (hp st) o > 0) /\
  (forall a ob r, nth_error (hp st) a = Some ob -> In r (orefs ob) ->
                  o_cnt ob > 0 /\ cnt_of (hp st) r > 0).
Proof. exact no_dangling_reference. Qed.
Print Assumptions C15_no_dangling_reference.

Theorem C15_handle_data_alive :
  forall ops st, run ops = Some st ->
  forall hd r o, In hd (handles st) -> In r (hrefs hd) -> reach (hp st) r o ->
    cnt_of (hp st) o > 0.
Proof. exact handle_data_alive. Qed.
Print Assumptions C15_handle_data_alive.

Theorem C15_all_closed_all_released :
  forall ops st,
  run ops = Some st -> all_closed st -> leaked st = [] ->
  (forall o, cnt_of (hp st) o = 0) /\ open_fds st = [] /\ mappings st = 0.
Proof. exact all_closed_all_released. Qed.
Print Assumptions C15_all_closed_all_released.

(* the current code (repairs F32, F33, F34a in place): nothing leaks, a heap iterator
   keeps its stack alive *)
Theorem C15_all_closed_all_released_current_code :
  forall ops st,
  forallb current_code ops = true -> run ops = Some st -> all_closed st ->
  (forall o, cnt_of (hp st) o = 0) /\ open_fds st = [] /\ mappings st = 0.
Proof. exact all_closed_all_released_current_code. Qed.
Print Assumptions C15_all_closed_all_released_current_code.

Theorem C15_iterator_stack_alive :
  forall ops st, run ops = Some st ->
  forall s ll c, In (HIter (Some s) ll c) (handles st) ->
    cnt_of (hp st) s > 0 /\ forall o, reach (hp st) s o -> cnt_of (hp st) o > 0.
Proof. exact iterator_stack_alive. Qed.
Print Assumptions C15_iterator_stack_alive.

(* what the model refuted about the pinned code - confirmed on the real code, then
   repaired (F32 iterator borrowing its snapshot's stack, F33 leak on an error return,
   F34 witness a: refutations of the ..._pre_fix operations) or listed (F31, witness b:
   a refutation of the current code) *)
Theorem C15_refuted_pre_fix_iterator_borrows_stack :
  exists ops st, forallb no_ll_error ops = true /\ run ops = Some st /\ ~ borrow_safe st.
Proof. exact iterator_borrow_safe_refuted_pre_fix. Qed.
Print Assumptions C15_refuted_pre_fix_iterator_borrows_stack.

Theorem C15_refuted_pre_fix_only_current_file_remains :
  exists st, forallb no_ll_error w_files_a_pre_fix = true /\ run w_files_a_pre_fix = Some st /\
             all_closed st /\ stale_file st.
Proof. exact only_current_file_refuted_pre_fix. Qed.
Print Assumptions C15_refuted_pre_fix_only_current_file_remains.

Theorem C15_refuted_only_current_file_remains :
  exists st, forallb current_code w_files_b = true /\ run w_files_b = Some st /\
             all_closed st /\ stale_file st.
Proof. exact only_current_file_refuted. Qed.
Print Assumptions C15_refuted_only_current_file_remains.

Theorem C15_refuted_pre_fix_leak_on_error_return :
  exists st o, run w_leak_pre_fix = Some st /\ all_closed st /\
               cnt_of (hp st) o > 0 /\ open_fds st <> [] /\ mappings st > 0.
Proof. exact all_released_with_error_return_refuted_pre_fix. Qed.
Print Assumptions C15_refuted_pre_fix_leak_on_error_return.
