(* C15 — Handles keep their data alive; closing everything releases everything:
   the reference-count monitor applied to event traces of the implementation. *)
From Coq Require Import List ZArith.
From Moss Require Import Refs RefsFacts.
Open Scope Z_scope.

(* an accepted trace has, for every object, a well-formed count history:
   steps of one, and nothing at all after the count reached zero - so nothing
   is used, re-acquired or released again after its release *)
Theorem C15_no_use_after_release :
  forall all_closed tr, refs_check all_closed tr = ROK -> forall o, wf_counts (counts_of o tr).
Proof. exact refs_check_no_use_after_release. Qed.
Print Assumptions C15_no_use_after_release.

(* when every handle, the collection and the store are closed, no object is
   left with a positive count *)
Theorem C15_everything_released :
  forall tr, refs_check true tr = ROK ->
    exists st, rrun [] tr = inl st /\ forall o c, In (o, c) st -> c <= 0.
Proof. exact refs_check_no_leak. Qed.
Print Assumptions C15_everything_released.

(* ---- the ownership model (Owners.v): a heap of counted objects (FileRef, MmapRef,
   Footer, SegmentStack, SnapshotWrapper) with the counted references each holds, the
   roots (store footer, collection sections, lower-level snapshot, cached snapshot,
   merger's and persister's temporaries) and every open user handle; one operation per
   AddRef/DecRef sequence of the code, in code order (snapshots, child snapshots, store
   snapshots, previous, iterators incl. re-creating SeekTo, batches, merger steps,
   persistence incl. partial and full compaction, closes).  Five recorded AddRef/DecRef
   traces of the real code equal the model's event for event (model_matches_recorded_trace1..5) *)
From Moss Require Import Owners OwnersFacts.
Close Scope Z_scope.
Open Scope nat_scope.

Theorem C15_ownership_invariant :
  forall ops st, run ops = Some st ->
  forall o, cnt_of (hp st) o = cn o (roots st) + cn o (allrefs (hp st)).
Proof. exact ownership_invariant. Qed.
Print Assumptions C15_ownership_invariant.

Theorem C15_no_dangling_reference :
  forall ops st, run ops = Some st ->
  (forall o, In o (roots st) -> cnt_of (hp st) o > 0) /\
  (forall a ob r, nth_error (hp st) a = Some ob -> In r (orefs ob) ->
                  o_cnt ob > 0 /\ cnt_of (hp st) r > 0).
Proof. exact no_dangling_reference. Qed.
Print Assumptions C15_no_dangling_reference.

Theorem C15_handle_data_alive :
  forall ops st, run ops = Some st ->
  forall hd r o, In hd (handles st) -> In r (hrefs hd) -> reach (hp st) r o ->
    cnt_of (hp st) o > 0.
Proof. exact handle_data_alive. Qed.
Print Assumptions C15_handle_data_alive.

Theorem C15_all_closed_all_released :
  forall ops st,
  run ops = Some st -> all_closed st -> leaked st = [] ->
  (forall o, cnt_of (hp st) o = 0) /\ open_fds st = [] /\ mappings st = 0.
Proof. exact all_closed_all_released. Qed.
Print Assumptions C15_all_closed_all_released.

(* the current code (repairs F32, F33, F34a in place): nothing leaks, a heap iterator
   keeps its stack alive *)
Theorem C15_all_closed_all_released_current_code :
  forall ops st,
  forallb current_code ops = true -> run ops = Some st -> all_closed st ->
  (forall o, cnt_of (hp st) o = 0) /\ open_fds st = [] /\ mappings st = 0.
Proof. exact all_closed_all_released_current_code. Qed.
Print Assumptions C15_all_closed_all_released_current_code.

Theorem C15_iterator_stack_alive :
  forall ops st, run ops = Some st ->
  forall s ll c, In (HIter (Some s) ll c) (handles st) ->
    cnt_of (hp st) s > 0 /\ forall o, reach (hp st) s o -> cnt_of (hp st) o > 0.
Proof. exact iterator_stack_alive. Qed.
Print Assumptions C15_iterator_stack_alive.

(* what the model refuted about the pinned code - confirmed on the real code, then
   repaired (F32 iterator borrowing its snapshot's stack, F33 leak on an error return,
   F34 witness a: refutations of the ..._pre_fix operations) or listed (F31, witness b:
   a refutation of the current code) *)
Theorem C15_refuted_pre_fix_iterator_borrows_stack :
  exists ops st, forallb no_ll_error ops = true /\ run ops = Some st /\ ~ borrow_safe st.
Proof. exact iterator_borrow_safe_refuted_pre_fix. Qed.
Print Assumptions C15_refuted_pre_fix_iterator_borrows_stack.

Theorem C15_refuted_pre_fix_only_current_file_remains :
  exists st, forallb no_ll_error w_files_a_pre_fix = true /\ run w_files_a_pre_fix = Some st /\
             all_closed st /\ stale_file st.
Proof. exact only_current_file_refuted_pre_fix. Qed.
Print Assumptions C15_refuted_pre_fix_only_current_file_remains.

Theorem C15_refuted_only_current_file_remains :
  exists st, forallb current_code w_files_b = true /\ run w_files_b = Some st /\
             all_closed st /\ stale_file st.
Proof. exact only_current_file_refuted. Qed.
Print Assumptions C15_refuted_only_current_file_remains.

Theorem C15_refuted_pre_fix_leak_on_error_return :
  exists st o, run w_leak_pre_fix = Some st /\ all_closed st /\
               cnt_of (hp st) o > 0 /\ open_fds st <> [] /\ mappings st > 0.
Proof. exact all_released_with_error_return_refuted_pre_fix. Qed.
Print Assumptions C15_refuted_pre_fix_leak_on_error_return.

(* ---- the ownership model EXTENDED with the history operations of a store
   (OwnersRevert.v): SnapshotPrevious as it is after repair 8f6c423 (XPrev), SnapshotRevert
   (XRevert: new footer sharing the mappings of the footer reverted to, new child footers,
   swap with the store's footer) and Store.OpenCollection on the reverted store (XOpenColl:
   restoreCollection renumbers the child footers in place), next to every operation of
   Owners.v (XOp).  The same four statements for every sequence of operations of the
   extended system; four more scripted scenarios of the owners family tie it to the code *)
From Moss Require Import OwnersRevert OwnersRevertFacts.

Theorem C15_revert_ownership_invariant :
  forall ops st, xrun ops = Some st ->
  forall o, cnt_of (hp st) o = cn o (roots st) + cn o (allrefs (hp st)).
Proof. exact x_ownership_invariant. Qed.
Print Assumptions C15_revert_ownership_invariant.

Theorem C15_revert_no_dangling_reference :
  forall ops st, xrun ops = Some st ->
  (forall o, In o (roots st) -> cnt_of (hp st) o > 0) /\
  (forall a ob r, nth_error (hp st) a = Some ob -> In r (orefs ob) ->
                  o_cnt ob > 0 /\ cnt_of (hp st) r > 0).
Proof. exact x_no_dangling_reference. Qed.
Print Assumptions C15_revert_no_dangling_reference.

Theorem C15_revert_handle_data_alive :
  forall ops st, xrun ops = Some st ->
  forall hd r o, In hd (handles st) -> In r (hrefs hd) -> reach (hp st) r o ->
    cnt_of (hp st) o > 0.
Proof. exact x_handle_data_alive. Qed.
Print Assumptions C15_revert_handle_data_alive.

Theorem C15_revert_all_closed_all_released :
  forall ops st,
  xrun ops = Some st -> all_closed st -> leaked st = [] ->
  (forall o, cnt_of (hp st) o = 0) /\ open_fds st = [] /\ mappings st = 0.
Proof. exact x_all_closed_all_released. Qed.
Print Assumptions C15_revert_all_closed_all_released.

Theorem C15_revert_all_closed_all_released_current_code :
  forall ops st,
  forallb xcurrent_code ops = true -> xrun ops = Some st -> all_closed st ->
  (forall o, cnt_of (hp st) o = 0) /\ open_fds st = [] /\ mappings st = 0.
Proof. exact x_all_closed_all_released_current_code. Qed.
Print Assumptions C15_revert_all_closed_all_released_current_code.

(* what SnapshotRevert touches is alive while the handle passed to it is open *)
Theorem C15_revert_touches_live_objects :
  forall ops st h t,
  xrun ops = Some st -> nth_error (handles st) h = Some (HFoot t) ->
  cnt_of (hp st) t > 0 /\
  (forall m, In m (refs_of t st) -> cnt_of (hp st) m > 0) /\
  (forall c m, In c (kids_of t st) -> In m (refs_of c st) ->
     cnt_of (hp st) c > 0 /\ cnt_of (hp st) m > 0) /\
  (forall fr, file_ref t st = Some fr -> cnt_of (hp st) fr > 0).
Proof. exact x_revert_touches_live_objects. Qed.
Print Assumptions C15_revert_touches_live_objects.

(* PROGRESS of the revert: after every history, with every handle and every outcome, the
   revert operation runs to its end - no AddRef or DecRef of a released object, no
   reference given back that is not held, no reference left in a local *)
From Moss Require Import OwnersRevertProgress.
Theorem C15_revert_never_faults :
  forall ops st h m,
  xrun ops = Some st -> exists st', xrun (ops ++ [XRevert h m]) = Some st'.
Proof. exact x_revert_never_faults_after_any_history. Qed.
Print Assumptions C15_revert_never_faults.

(* the extension is conservative: histories of the operations of Owners.v run as before *)
Theorem C15_revert_model_extends_owners :
  forall ops, xrun (xops ops) = run ops.
Proof. exact xrun_embeds. Qed.
Print Assumptions C15_revert_model_extends_owners.

(* ---- PROGRESS for the whole alphabet (OwnersProgress.v, OwnersProgressRules.v,
   OwnersProgressLoops.v, OwnersProgressFacts.v): the model never gets stuck under legal
   use.  legal st op is executable and says only what the caller controls (the operation is
   one of the current code; calls on a closed collection or store, on a handle that is not
   in the table, merger / persister steps out of turn are no-ops of the model as they are
   ErrClosed / nothing counted in the code) - no reference count, no liveness.  The
   ownership invariant is strengthened by a kind discipline of the heap, the kinds of what
   roots and handles point to, and what the merger's and persister's temporaries hold
   between steps; every operation re-establishes it and runs to its end. *)
From Moss Require Import OwnersProgress OwnersProgressRules OwnersProgressLoops OwnersProgressFacts.

Theorem C15_legal_step_never_faults :
  forall st o, reachable st -> legal st o = true -> exists st', step o st = Some st'.
Proof. exact legal_step_never_faults. Qed.
Print Assumptions C15_legal_step_never_faults.

Theorem C15_legal_use_never_faults :
  forall ops, legal_seq ops = true -> exists st, run ops = Some st.
Proof. exact legal_use_never_faults. Qed.
Print Assumptions C15_legal_use_never_faults.

(* legal asks nothing but the alphabet of the current code *)
Theorem C15_legal_is_current_code :
  forall ops, legal_seq ops = true <-> forallb current_code ops = true.
Proof. exact legal_seq_iff. Qed.
Print Assumptions C15_legal_is_current_code.

Theorem C15_ownership_invariant_unconditional :
  forall ops, legal_seq ops = true ->
  exists st, run ops = Some st /\
    forall o, cnt_of (hp st) o = cn o (roots st) + cn o (allrefs (hp st)).
Proof. exact ownership_invariant_unconditional. Qed.
Print Assumptions C15_ownership_invariant_unconditional.

Theorem C15_no_dangling_reference_unconditional :
  forall ops, legal_seq ops = true ->
  exists st, run ops = Some st /\
    (forall o, In o (roots st) -> cnt_of (hp st) o > 0) /\
    (forall a ob r, nth_error (hp st) a = Some ob -> In r (orefs ob) ->
                    o_cnt ob > 0 /\ cnt_of (hp st) r > 0).
Proof. exact no_dangling_reference_unconditional. Qed.
Print Assumptions C15_no_dangling_reference_unconditional.

Theorem C15_handle_data_alive_unconditional :
  forall ops, legal_seq ops = true ->
  exists st, run ops = Some st /\
    forall hd r o, In hd (handles st) -> In r (hrefs hd) -> reach (hp st) r o ->
      cnt_of (hp st) o > 0.
Proof. exact handle_data_alive_unconditional. Qed.
Print Assumptions C15_handle_data_alive_unconditional.

Theorem C15_all_closed_all_released_unconditional :
  forall ops, legal_seq ops = true ->
  exists st, run ops = Some st /\
    (all_closed st ->
     (forall o, cnt_of (hp st) o = 0) /\ open_fds st = [] /\ mappings st = 0).
Proof. exact all_closed_all_released_unconditional. Qed.
Print Assumptions C15_all_closed_all_released_unconditional.

(* the same for the extended system (XPrev, XRevert, XOpenColl and every embedded operation) *)
From Moss Require Import OwnersRevertProgressFacts.

Theorem C15_revert_legal_step_never_faults :
  forall st x, xreachable st -> xlegal st x = true -> exists st', xstep x st = Some st'.
Proof. exact xlegal_step_never_faults. Qed.
Print Assumptions C15_revert_legal_step_never_faults.

Theorem C15_revert_legal_use_never_faults :
  forall ops, xlegal_seq ops = true -> exists st, xrun ops = Some st.
Proof. exact xlegal_use_never_faults. Qed.
Print Assumptions C15_revert_legal_use_never_faults.

Theorem C15_revert_legal_is_current_code :
  forall ops, xlegal_seq ops = true <-> forallb xcurrent_code ops = true.
Proof. exact xlegal_seq_iff. Qed.
Print Assumptions C15_revert_legal_is_current_code.

Theorem C15_revert_ownership_invariant_unconditional :
  forall ops, xlegal_seq ops = true ->
  exists st, xrun ops = Some st /\
    forall o, cnt_of (hp st) o = cn o (roots st) + cn o (allrefs (hp st)).
Proof. exact x_ownership_invariant_unconditional. Qed.
Print Assumptions C15_revert_ownership_invariant_unconditional.

Theorem C15_revert_no_dangling_reference_unconditional :
  forall ops, xlegal_seq ops = true ->
  exists st, xrun ops = Some st /\
    (forall o, In o (roots st) -> cnt_of (hp st) o > 0) /\
    (forall a ob r, nth_error (hp st) a = Some ob -> In r (orefs ob) ->
                    o_cnt ob > 0 /\ cnt_of (hp st) r > 0).
Proof. exact x_no_dangling_reference_unconditional. Qed.
Print Assumptions C15_revert_no_dangling_reference_unconditional.

Theorem C15_revert_handle_data_alive_unconditional :
  forall ops, xlegal_seq ops = true ->
  exists st, xrun ops = Some st /\
    forall hd r o, In hd (handles st) -> In r (hrefs hd) -> reach (hp st) r o ->
      cnt_of (hp st) o > 0.
Proof. exact x_handle_data_alive_unconditional. Qed.
Print Assumptions C15_revert_handle_data_alive_unconditional.

Theorem C15_revert_all_closed_all_released_unconditional :
  forall ops, xlegal_seq ops = true ->
  exists st, xrun ops = Some st /\
    (all_closed st ->
     (forall o, cnt_of (hp st) o = 0) /\ open_fds st = [] /\ mappings st = 0).
Proof. exact x_all_closed_all_released_unconditional. Qed.
Print Assumptions C15_revert_all_closed_all_released_unconditional.
