(* C15 — Handles keep their data alive; closing everything releases everything:
   the reference-count monitor applied to event traces of the implementation. *)
From Coq Require Import List ZArith.
From Moss Require Import Refs RefsFacts.
Open Scope Z_scope.

(* an accepted trace has, for every object, a well-formed count history:
   steps of one, and nothing at all after the count reached zero - so nothing
   is used, re-acquired or released again after its release *)
Theorem C15_no_use_after_release :
  forall all_closed tr, refs_check all_closed tr = ROK -> forall o, wf_counts (counts_of o tr).
Proof. exact refs_check_no_use_after_release. Qed.
Print Assumptions C15_no_use_after_release.

(* when every handle, the collection and the store are closed, no object is
   left with a positive count *)
Theorem C15_everything_released :
  forall tr, refs_check true tr = ROK ->
    exists st, rrun [] tr = inl st /\ forall o c, In (o, c) st -> c <= 0.
Proof. exact refs_check_no_leak. Qed.
Print Assumptions C15_everything_released.
