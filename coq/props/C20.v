(* C20 — Zero dirty gauges mean everything is in the lower level (child-free part). *)
From Moss Require Import Collection Theorems.

Theorem C20_zero_gauges_mean_persisted :
  forall (fm : bytes -> value -> bytes -> value) (c : cfg) (l0 : llsnap)
         (ls : list label) (s : cstate),
    run fm c (init l0) ls = Some s -> closed s = false -> dirty_segments s = 0 ->
    forall k, llv fm (ll s) k = ref_from fm (llv fm l0) (batches ls) k.
Proof. exact drained_lower_level_is_reference. Qed.
Print Assumptions C20_zero_gauges_mean_persisted.
