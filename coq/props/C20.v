(* C20 — Zero dirty gauges mean everything is in the lower level (child-free part). *)
From Moss Require Import Collection Theorems.

Theorem C20_zero_gauges_mean_persisted :
  forall (fm : bytes -> value -> bytes -> value) (c : cfg) (l0 : llsnap)
         (ls : list label) (s : cstate),
    run fm c (init l0) ls = Some s -> closed s = false -> dirty_segments s = 0 ->
    forall k, llv fm (ll s) k = ref_from fm (llv fm l0) (batches ls) k.
Proof. exact drained_lower_level_is_reference. Qed.
Print Assumptions C20_zero_gauges_mean_persisted.

(* the converse, for data at rest (fine-grained wait/notify model, Sync2): F39.  With the
   pinned merger (Mut7: goes to sleep whenever the top is empty) a state is reachable in which
   a merged stack waits, the persister waits for a base, the merger sleeps, the ping queue is
   empty and NOTHING is enabled: the gauges stay non-zero for ever. *)
From Moss Require Import Sync2 Sync2Facts Sync2ProgressA Sync2Progress.
Theorem C20_refuted_pre_fix_persist_stall_F39 :
  exists s, reachable_gen Mut7 cfg_plain s /\ z_closed s = false /\ z_mid s = true /\
            z_base s = false /\ z_mp s = MSelect /\ z_armed s = true /\ z_pp s = PWait /\
            z_q s = nil /\ stuck Mut7 cfg_plain s.
Proof. exact persist_stall_mut7_refuted. Qed.
Print Assumptions C20_refuted_pre_fix_persist_stall_F39.

(* the repaired code, PARTIAL: in every state satisfying the proved invariants in which a merged
   stack waits for a free persister and no caller is pending, some background step other than a
   failing merge is enabled and decreases the distance to the hand-over - proved for every merger
   program point except the hand-over step itself and the dirty-limit wait (full statement: the
   same without the first two premises). *)
Theorem C20_no_persist_stall_partial :
  forall c, (1 <= c_cap c)%nat -> (1 <= c_qcap c)%nat -> forall s,
    z_mp s <> MHandover -> (forall g, z_mp s <> MWaitOut g) ->
    inv c s -> invK c s -> c_ll c = true -> z_closed s = false ->
    z_mid s = true -> z_base s = false -> ~ pending s ->
    exists l s', bg l = true /\ l <> LMMergeFail /\ step c s l = Some s' /\
                 (mu_p s' < mu_p s)%nat /\ ~ pending s'.
Proof. exact no_persist_stall_partial. Qed.
Print Assumptions C20_no_persist_stall_partial.
