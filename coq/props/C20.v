(* C20 — Zero dirty gauges mean everything is in the lower level (child-free part). *)
From Moss Require Import Collection Theorems.

Theorem C20_zero_gauges_mean_persisted :
  forall (fm : bytes -> value -> bytes -> value) (c : cfg) (l0 : llsnap)
         (ls : list label) (s : cstate),
    run fm c (init l0) ls = Some s -> closed s = false -> dirty_segments s = 0 ->
    forall k, llv fm (ll s) k = ref_from fm (llv fm l0) (batches ls) k.
Proof. exact drained_lower_level_is_reference. Qed.
Print Assumptions C20_zero_gauges_mean_persisted.

(* the converse, for data at rest (fine-grained wait/notify model, Sync2): F39.  With the
   pinned merger (Mut7: goes to sleep whenever the top is empty) a state is reachable in which
   a merged stack waits, the persister waits for a base, the merger sleeps, the ping queue is
   empty and NOTHING is enabled: the gauges stay non-zero for ever. *)
From Moss Require Import Sync2 Sync2Facts Sync2ProgressA Sync2Progress.
Theorem C20_refuted_pre_fix_persist_stall_F39 :
  exists s, reachable_gen Mut7 cfg_plain s /\ z_closed s = false /\ z_mid s = true /\
            z_base s = false /\ z_mp s = MSelect /\ z_armed s = true /\ z_pp s = PWait /\
            z_q s = nil /\ stuck Mut7 cfg_plain s.
Proof. exact persist_stall_mut7_refuted. Qed.
Print Assumptions C20_refuted_pre_fix_persist_stall_F39.

(* the repaired code, PARTIAL: in every state satisfying the proved invariants in which a merged
   stack waits for a free persister and no caller is pending, some background step other than a
   failing merge is enabled and decreases the distance to the hand-over - proved for every merger
   program point except the hand-over step itself and the dirty-limit wait (full statement: the
   same without the first two premises). *)
Theorem C20_no_persist_stall_partial :
  forall c, (1 <= c_cap c)%nat -> (1 <= c_qcap c)%nat -> forall s,
    z_mp s <> MHandover -> (forall g, z_mp s <> MWaitOut g) ->
    inv c s -> invK c s -> c_ll c = true -> z_closed s = false ->
    z_mid s = true -> z_base s = false -> ~ pending s ->
    exists l s', bg l = true /\ l <> LMMergeFail /\ step c s l = Some s' /\
                 (mu_p s' < mu_p s)%nat /\ ~ pending s'.
Proof. exact no_persist_stall_partial. Qed.
Print Assumptions C20_no_persist_stall_partial.

(* the repaired code, FULL one-step statement: the same without the two program-point premises
   (the hand-over step itself; the dirty-limit wait, where the persister's close of the outgoing
   channel is enabled and releases the merger). *)
From Moss Require Import Sync2StallA Sync2Stall.
Theorem C20_no_persist_stall :
  forall c, (1 <= c_cap c)%nat -> (1 <= c_qcap c)%nat -> forall s,
    inv c s -> invK c s -> c_ll c = true -> z_closed s = false ->
    z_mid s = true -> z_base s = false -> ~ pending s ->
    exists l s', bg l = true /\ l <> LMMergeFail /\ step c s l = Some s' /\
                 (mu_p s' < mu_p s)%nat /\ ~ pending s'.
Proof. exact no_persist_stall. Qed.
Print Assumptions C20_no_persist_stall.

(* one step, ANY dirty data (top, mid or base), every program point of merger and persister: a
   background step (bg: no new call, no Close, no failing merge, no failing lower-level update) is
   enabled and strictly decreases the measure mu_g. *)
Theorem C20_gauges_step :
  forall c, (1 <= c_cap c)%nat -> (1 <= c_qcap c)%nat -> forall s,
    inv c s -> invK c s -> c_ll c = true -> z_closed s = false -> ~ pending s ->
    dirty s = true ->
    exists l s', bg l = true /\ step c s l = Some s' /\ (mu_g s' < mu_g s)%nat.
Proof. exact gauges_step. Qed.
Print Assumptions C20_gauges_step.

(* THE CONVERSE CLAUSE: from every state an open collection with a lower level reaches without a
   failing merge, in which no caller is pending, there is a schedule of background steps (no
   failing merge, every lower-level update succeeds), no longer than mu_g s <= 72, after which the
   gauges are zero: nothing in stackDirtyTop, stackDirtyMid, stackDirtyBase (everything handed over
   and the last round published); the collection is still open, still nobody pending. *)
Theorem C20_gauges_reach_zero :
  forall c, (1 <= c_cap c)%nat -> (1 <= c_qcap c)%nat -> forall s,
    reachable_nf c s -> c_ll c = true -> z_closed s = false -> ~ pending s ->
    exists ls s', List.Forall (fun l => bg l = true) ls /\
                  (length ls <= mu_g s)%nat /\ (mu_g s <= 72)%nat /\
                  run c s ls = Some s' /\ gauges_zero s' /\
                  ~ pending s' /\ z_closed s' = false /\ reachable_nf c s'.
Proof. exact gauges_reach_zero. Qed.
Print Assumptions C20_gauges_reach_zero.

(* the hypotheses are met by a non-trivial reachable state: a batch in the top, a merged stack
   whose hand-over was skipped, a stack with the persister *)
Theorem C20_gauges_hypotheses_satisfiable :
  exists s, reachable_nf cfg_plain s /\ c_ll cfg_plain = true /\ z_closed s = false /\
            ~ pending s /\ z_top s = 1%nat /\ z_mid s = true /\ z_base s = true /\
            z_mp s = MReply /\ z_pp s = PWoken /\ dirty s = true.
Proof. exact gauges_hyps_satisfiable. Qed.
Print Assumptions C20_gauges_hypotheses_satisfiable.

(* "without a failing merge" cannot be dropped (observation O4): after a failed merge the merger
   goes to sleep on the un-merged stack, the persister waits, nothing is enabled. *)
Theorem C20_stall_after_merge_failure_O4 :
  exists s, reachable_gen MutNone cfg_plain s /\ z_closed s = false /\ z_mid s = true /\
            z_base s = false /\ z_mp s = MSelect /\ z_pp s = PWait /\ stuck MutNone cfg_plain s.
Proof. exact persist_stall_after_merge_failure. Qed.
Print Assumptions C20_stall_after_merge_failure_O4.
