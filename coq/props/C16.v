(* C16 — Calls return, back-pressure is bounded, Close is final. *)
From Coq Require Import List.
From Moss Require Import Sync SyncFacts.

(* for any number of writers and any interleaving of arrivals, merger cycles,
   synchronous notifications and Close: accepted-but-unmerged batches never
   exceed MaxPreMergerBatches *)
Theorem C16_backpressure_is_bounded :
  forall cap ls, y_top (sy_run (sy_init cap) ls) <= cap.
Proof. exact bounded_top. Qed.
Print Assumptions C16_backpressure_is_bounded.

(* every ExecuteBatch call has returned nil, returned ErrClosed, or waits behind a FULL top *)
Theorem C16_every_call_accounted_for :
  forall cap ls, let s := sy_run (sy_init cap) ls in
    y_arrived s = y_ok s + y_closed_ret s + y_wait s /\ (y_wait s > 0 -> y_top s = y_cap s).
Proof. exact calls_accounted. Qed.
Print Assumptions C16_every_call_accounted_for.

(* Close releases every blocked writer and every pending synchronous notification, for good *)
Theorem C16_close_is_final :
  forall cap ls1 ls2, let s := sy_run (sy_init cap) (ls1 ++ SClose :: ls2) in
    y_closed s = true /\ y_wait s = 0 /\ y_syncwait s = 0 /\ y_queued s = 0.
Proof. exact close_is_final. Qed.
Print Assumptions C16_close_is_final.

Theorem C16_execute_batch_after_close_fails :
  forall s, y_closed s = true ->
    y_closed_ret (sy_step s SArrive) = S (y_closed_ret s) /\ y_ok (sy_step s SArrive) = y_ok s /\
    y_top (sy_step s SArrive) = y_top s.
Proof. exact after_close_execute_batch_fails. Qed.
Print Assumptions C16_execute_batch_after_close_fails.

(* progress: a merger cycle strictly reduces the number of blocked writers, so
   after at most `wait` cycles none is left (scheduler fairness is assumed) *)
Theorem C16_blocked_writers_drain :
  forall s, y_closed s = false -> y_asleep s = false -> y_cap s > 0 ->
    y_wait (sy_run s (ingests (y_wait s))) = 0.
Proof. exact blocked_writers_drain. Qed.
Print Assumptions C16_blocked_writers_drain.

(* ---------------------------------------------------------------------------
   The FINE-GRAINED wait/notify model (Sync2.v): one step = one critical section or
   one blocking/channel operation outside the lock of collection.go /
   collection_merger.go / persister.go, program counters for merger, persister and
   Close, any number of writers and notifiers (counted per program point), the ping
   queue with its capacity, the dirty-limit wait, failing merges and failing
   lower-level updates.  Theorems are over every schedule (every reachable state).
   --------------------------------------------------------------------------- *)
From Moss Require Import Sync2 Sync2Facts Sync2ProgressA Sync2Progress Sync2Run Sync2RunFacts.
Close Scope N_scope.
Open Scope nat_scope.

Theorem C16_fine_top_never_exceeds_cap :
  forall c, 1 <= c_cap c -> 1 <= c_qcap c -> forall s, reachable c s -> z_top s <= c_cap c.
Proof. exact bounded_top2. Qed.
Print Assumptions C16_fine_top_never_exceeds_cap.

(* no lost wake-up: a writer asleep on the top-space condition that no Broadcast has reached
   really is held back by a full top of an open collection *)
Theorem C16_fine_no_lost_wakeup :
  forall c, 1 <= c_cap c -> 1 <= c_qcap c -> forall s,
    reachable c s -> 0 < z_wwait s -> z_top s = c_cap c /\ z_closed s = false.
Proof. exact no_lost_wakeup. Qed.
Print Assumptions C16_fine_no_lost_wakeup.

(* nobody blocks while holding the collection lock (F26's class of defect) *)
Theorem C16_fine_no_block_under_lock :
  forall c, 1 <= c_cap c -> 1 <= c_qcap c -> forall s, reachable c s -> z_lk s = false.
Proof. exact no_block_under_lock. Qed.
Print Assumptions C16_fine_no_block_under_lock.

(* from the moment stopCh is closed every NotifyMerger in flight can return ErrClosed by a
   step of its own, whatever everybody else is doing (F36's repair) ... *)
Theorem C16_fine_close_releases_every_notifier :
  forall c, 1 <= c_cap c -> 1 <= c_qcap c -> forall s, z_closed s = true -> 0 < notif_pending s ->
    exists l s', is_stop l = true /\ step c s l = Some s' /\
                 S (notif_pending s') = notif_pending s /\ z_nerr s' = S (z_nerr s) /\
                 z_nans s' = z_nans s.
Proof. exact close_releases_all. Qed.
Print Assumptions C16_fine_close_releases_every_notifier.

(* ... and a notification issued after Close returns ErrClosed as well *)
Theorem C16_fine_notify_after_close_returns :
  forall c, 1 <= c_cap c -> 1 <= c_qcap c -> forall s b, z_closed s = true ->
    exists s1 s2, step c s (LNCall b) = Some s1 /\ step c s1 (LNStopSend b) = Some s2 /\
                  notif_pending s2 = notif_pending s /\ z_nerr s2 = S (z_nerr s).
Proof. exact notify_after_close_returns. Qed.
Print Assumptions C16_fine_notify_after_close_returns.

(* PROGRESS while open: in every state satisfying the (proved) invariant in which some call
   has not returned, some background or in-flight step is enabled that strictly decreases a
   natural-number measure; hence a schedule of such steps no longer than the measure after
   which every call has returned.  Covers the persister, the dirty limits, the ping queue
   and a failed update followed by a successful one ("as long as the lower level makes
   progress": the schedule picks LPUpdOk). *)
Theorem C16_fine_open_collection_always_progresses :
  forall c, 1 <= c_cap c -> 1 <= c_qcap c -> forall s,
    inv c s -> z_closed s = false -> pending s ->
    exists l s', bg l = true /\ step c s l = Some s' /\ mu_o c s' < mu_o c s.
Proof. exact open_step. Qed.
Print Assumptions C16_fine_open_collection_always_progresses.

Theorem C16_fine_open_collection_drains :
  forall c, 1 <= c_cap c -> 1 <= c_qcap c -> forall n s,
    inv c s -> z_closed s = false -> mu_o c s <= n ->
    exists ls s', Forall (fun l => bg l = true) ls /\ length ls <= mu_o c s /\
                  run c s ls = Some s' /\ ~ pending s' /\ z_closed s' = false /\ inv c s'.
Proof. exact open_drain. Qed.
Print Assumptions C16_fine_open_collection_drains.

(* Close drain: in every invariant state of a closing collection that is not yet at rest some
   background step decreases the measure (the merger may run one more cycle: a pending
   hand-over is retried), hence a background schedule no longer than the measure after which
   merger, persister and Close are done and no caller is in flight *)
Theorem C16_fine_close_progresses :
  forall c, 1 <= c_cap c -> 1 <= c_qcap c -> forall s,
    inv c s -> z_closed s = true -> 0 < mu_c s ->
    exists l s', bg l = true /\ step c s l = Some s' /\ mu_c s' < mu_c s.
Proof. exact close_step. Qed.
Print Assumptions C16_fine_close_progresses.

Theorem C16_fine_close_drains :
  forall c, 1 <= c_cap c -> 1 <= c_qcap c -> forall n s,
    inv c s -> z_closed s = true -> mu_c s <= n ->
    exists ls s', Forall (fun l => bg l = true) ls /\ length ls <= mu_c s /\
                  run c s ls = Some s' /\ at_rest s' /\ inv c s'.
Proof. exact close_drain. Qed.
Print Assumptions C16_fine_close_drains.

(* every state the lock-step driver (Sync2Run.apply_label: the label's outside or gated step,
   then every free step until none is enabled) visits is a reachable state of the model:
   the theorems above apply to what the real code is compared with *)
Theorem C16_fine_lockstep_states_are_reachable :
  forall c s l s', apply_label c s l = Some s' -> exists ls, run c s ls = Some s'.
Proof. exact apply_label_is_run. Qed.
Print Assumptions C16_fine_lockstep_states_are_reachable.

(* F36 (repaired, 7ee2acf): with the pinned NotifyMerger (no stop case: Mut6) a synchronous
   notification issued after Close waits for ever in every continuation *)
Theorem C16_refuted_pre_fix_notify_after_close_F36 :
  exists s, reachable_gen Mut6 cfg_noll s /\ z_cp s = CRet /\ z_mp s = MDone /\ z_pp s = PDone /\
    waitpong s = 1 /\
    (forall ls s', run_gen Mut6 cfg_noll s ls = Some s' -> 1 <= waitpong s' /\ z_nans s' = z_nans s).
Proof. exact close_releases_all_mut6_refuted. Qed.
Print Assumptions C16_refuted_pre_fix_notify_after_close_F36.
