(* C16 — Calls return, back-pressure is bounded, Close is final. *)
From Coq Require Import List.
From Moss Require Import Sync SyncFacts.

(* for any number of writers and any interleaving of arrivals, merger cycles,
   synchronous notifications and Close: accepted-but-unmerged batches never
   exceed MaxPreMergerBatches *)
Theorem C16_backpressure_is_bounded :
  forall cap ls, y_top (sy_run (sy_init cap) ls) <= cap.
Proof. exact bounded_top. Qed.
Print Assumptions C16_backpressure_is_bounded.

(* every ExecuteBatch call has returned nil, returned ErrClosed, or waits behind a FULL top *)
Theorem C16_every_call_accounted_for :
  forall cap ls, let s := sy_run (sy_init cap) ls in
    y_arrived s = y_ok s + y_closed_ret s + y_wait s /\ (y_wait s > 0 -> y_top s = y_cap s).
Proof. exact calls_accounted. Qed.
Print Assumptions C16_every_call_accounted_for.

(* Close releases every blocked writer and every pending synchronous notification, for good *)
Theorem C16_close_is_final :
  forall cap ls1 ls2, let s := sy_run (sy_init cap) (ls1 ++ SClose :: ls2) in
    y_closed s = true /\ y_wait s = 0 /\ y_syncwait s = 0 /\ y_queued s = 0.
Proof. exact close_is_final. Qed.
Print Assumptions C16_close_is_final.

Theorem C16_execute_batch_after_close_fails :
  forall s, y_closed s = true ->
    y_closed_ret (sy_step s SArrive) = S (y_closed_ret s) /\ y_ok (sy_step s SArrive) = y_ok s /\
    y_top (sy_step s SArrive) = y_top s.
Proof. exact after_close_execute_batch_fails. Qed.
Print Assumptions C16_execute_batch_after_close_fails.

(* progress: a merger cycle strictly reduces the number of blocked writers, so
   after at most `wait` cycles none is left (scheduler fairness is assumed) *)
Theorem C16_blocked_writers_drain :
  forall s, y_closed s = false -> y_asleep s = false -> y_cap s > 0 ->
    y_wait (sy_run s (ingests (y_wait s))) = 0.
Proof. exact blocked_writers_drain. Qed.
Print Assumptions C16_blocked_writers_drain.
