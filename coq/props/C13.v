(* C13 — Write-back to an application lower level loses and reorders nothing. *)
From Moss Require Import Collection LowerLevel Theorems StoreFacts.

(* the protocol's result is a legal lower-level update *)
Theorem C13_protocol_legal :
  forall (fm : bytes -> value -> bytes -> value) b m,
    set_only m -> publish_ok fm b [m] [map_update fm b m] = true.
Proof. exact map_update_legal. Qed.
Print Assumptions C13_protocol_legal.

(* at every moment: lower level overlaid with the unpersisted sections = reference *)
Theorem C13_overlay :
  forall (fm : bytes -> value -> bytes -> value) (c : cfg) (l0 : llsnap)
         (ls : list label) (s : cstate),
    run fm c (init l0) ls = Some s -> closed s = false ->
    forall k, snap_get fm (cur_snapshot s) k = ref_from fm (llv fm l0) (batches ls) k.
Proof. exact snapshot_reads_reference. Qed.
Print Assumptions C13_overlay.

(* drained: the lower level equals the reference *)
Theorem C13_drained :
  forall (fm : bytes -> value -> bytes -> value) (c : cfg) (l0 : llsnap)
         (ls : list label) (s : cstate),
    run fm c (init l0) ls = Some s -> closed s = false -> dirty_segments s = 0 ->
    forall k, llv fm (ll s) k = ref_from fm (llv fm l0) (batches ls) k.
Proof. exact drained_lower_level_is_reference. Qed.
Print Assumptions C13_drained.

(* nothing out of order: the lower level always holds a prefix of the history *)
Theorem C13_in_order :
  forall (fm : bytes -> value -> bytes -> value) (c : cfg) (l0 : llsnap)
         (ls : list label) (s : cstate),
    run fm c (init l0) ls = Some s -> closed s = false ->
    exists a, a <= length (batches ls) /\
              forall k, llv fm (ll s) k = ref_from fm (llv fm l0) (firstn a (batches ls)) k.
Proof. exact lower_level_is_prefix. Qed.
Print Assumptions C13_in_order.

(* after a failed LowerLevelUpdate the same mutations are offered again *)
Theorem C13_failed_update_reoffered :
  forall (fm : bytes -> value -> bytes -> value) c s s1 s2,
    step fm c s LPBegin = Some s1 -> step fm c s1 LPFail = Some s2 ->
    base s2 = base s /\ top s2 = top s /\ mid s2 = mid s /\ ll s2 = ll s /\ clean s2 = clean s
    /\ persister s2 = PIdle.
Proof. exact failed_update_keeps_base. Qed.
Print Assumptions C13_failed_update_reoffered.
