(* C17 — Permitted concurrent use is free of data races (lock-protected
   fields of collection and Store; see DESIGN.md section 4, C17 for scope). *)
From Coq Require Import List.
From Moss Require Import Locks LocksFacts.

(* lock-set discipline implies: every two conflicting accesses to a covered
   location are ordered by happens-before; hence no data race *)
Theorem C17_discipline_orders_conflicts :
  forall guard tr, wf_exec tr -> disciplined guard tr ->
  forall x, covered guard x ->
  forall i j, conflict_on tr x i j -> hb tr i j \/ hb tr j i.
Proof. exact C17_conflicts_ordered. Qed.
Print Assumptions C17_discipline_orders_conflicts.

Theorem C17_discipline_implies_race_freedom :
  forall guard tr, wf_exec tr -> disciplined guard tr ->
  forall x, covered guard x -> forall i j, ~ race_on tr x i j.
Proof. exact C17_discipline_drf. Qed.
Print Assumptions C17_discipline_implies_race_freedom.

(* the reflective check used on the table regenerated from /repo on every run *)
Theorem C17_table_check_sound :
  forall tbl, check_table tbl = true -> forall a, In a tbl -> a_justification a <> JNone.
Proof. exact C17_table_sound. Qed.
Print Assumptions C17_table_check_sound.

(* ------------------------------------------------------------------ *)
(* The deferred-sort TICKET protocol (segment.RequestSort, segmentStack.ensureSorted).
   [current_progs] is the IR of the two functions; the C17 check regenerates that IR
   from /repo's segment.go and segment_stack.go (harness/sortscan) and proves it equal.
   [reachable st]: st is reached from an initial state with any assignment of
   readers (ensureSorted over any range), RequestSort callers (either flag) to any
   number of goroutines, any set of born-sorted segments, by any schedule. *)
From Moss Require Import SortProto SortProtoFacts SortProtoSafety SortProtoMutants.

(* no step of any schedule enters a write section that is occupied or that a reader has
   searched, searches a segment that is being sorted or whose sort it is not ordered after
   (happens-before through the close of waitSortedCh), or closes a closed channel *)
Theorem C17_sort_protocol_no_violation : forall st, reachable st -> bad st = None.
Proof. exact sort_no_violation. Qed.
Print Assumptions C17_sort_protocol_no_violation.

(* (a) at most one goroutine inside the write section of a segment; entered at most once *)
Theorem C17_sort_write_section_exclusive : forall st s, reachable st ->
  s_inw (ss st s) <= 1 /\ s_entered (ss st s) <= 1.
Proof. exact sort_write_section_exclusive. Qed.
Print Assumptions C17_sort_write_section_exclusive.

(* (b) a reader that finished ensureSorted(lo,hi) finds every segment in range sorted, its
   sort finished, nobody inside, and is ordered after the end of the write *)
Theorem C17_ensure_sorted_then_reads_are_ordered : forall st g lo hi,
  reachable st -> ensure_finished st g lo hi ->
  forall s, lo <= s <= hi ->
    sorted_for st g s = true /\
    (s_nil (ss st s) = false -> s_done (ss st s) = true) /\ s_inw (ss st s) = 0.
Proof. exact sort_ensure_sorted_sound. Qed.
Print Assumptions C17_ensure_sorted_then_reads_are_ordered.

(* (b) RequestSort: true means sorted and ordered; false only when not synchronous *)
Theorem C17_request_sort_answer_sound : forall st g s sy b, reachable st ->
  g_kind (gs st g) = KRequest s sy -> g_frame (gs st g) = None -> g_ret (gs st g) = Some b ->
  if b then sorted_for st g s = true /\ (s_nil (ss st s) = false -> s_done (ss st s) = true) /\
            s_inw (ss st s) = 0
  else sy = false.
Proof. exact sort_request_sort_sound. Qed.
Print Assumptions C17_request_sort_answer_sound.

(* (c) no deadlock: whoever waits on waitSortedCh is released by at most four steps of the
   ticket holder (another goroutine), none of which blocks *)
Theorem C17_sort_waiter_released_by_sorter : forall st g s, reachable st -> waiting_on st g s ->
  exists h n, h <> g /\ s_holder (ss st s) = Some h /\ 1 <= n <= 4 /\
    s_latch (ss (run_g current_progs st h n) s) = true /\
    forall i, i < n -> blocked (run_g current_progs st h i) h = false.
Proof. exact sort_waiter_released. Qed.
Print Assumptions C17_sort_waiter_released_by_sorter.

(* the regressions that were seeded into this protocol, and three more, each violate it on
   a computed schedule *)
Theorem C17_sort_mutants_refuted :
  refuted m_wait_strict /\ refuted m_wait_low /\ refuted m_assign /\
  refuted m_rogue /\ refuted m_else_sorts /\ refuted m_close_first.
Proof.
  exact (conj m_wait_strict_refuted (conj m_wait_low_refuted (conj m_assign_refuted
        (conj m_rogue_refuted (conj m_else_sorts_refuted m_close_first_refuted))))).
Qed.
Print Assumptions C17_sort_mutants_refuted.
