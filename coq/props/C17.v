(* C17 — Permitted concurrent use is free of data races (lock-protected
   fields of collection and Store; see DESIGN.md section 4, C17 for scope). *)
From Coq Require Import List.
From Moss Require Import Locks LocksFacts.

(* lock-set discipline implies: every two conflicting accesses to a covered
   location are ordered by happens-before; hence no data race *)
Theorem C17_discipline_orders_conflicts :
  forall guard tr, wf_exec tr -> disciplined guard tr ->
  forall x, covered guard x ->
  forall i j, conflict_on tr x i j -> hb tr i j \/ hb tr j i.
Proof. exact C17_conflicts_ordered. Qed.
Print Assumptions C17_discipline_orders_conflicts.

Theorem C17_discipline_implies_race_freedom :
  forall guard tr, wf_exec tr -> disciplined guard tr ->
  forall x, covered guard x -> forall i j, ~ race_on tr x i j.
Proof. exact C17_discipline_drf. Qed.
Print Assumptions C17_discipline_implies_race_freedom.

(* the reflective check used on the table regenerated from /repo on every run *)
Theorem C17_table_check_sound :
  forall tbl, check_table tbl = true -> forall a, In a tbl -> a_justification a <> JNone.
Proof. exact C17_table_sound. Qed.
Print Assumptions C17_table_check_sound.
