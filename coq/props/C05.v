(* C05 — A crash at any point leaves a readable, prefix-consistent store:
   the byte-level part (which footer the backward scan finds). *)
From Coq Require Import NArith List.
From Moss Require Import Bytes Segment Codec CodecFacts FileFormat FileFormatFacts.
Open Scope N_scope.

(* a file cut ANYWHERE inside its last footer is read as its previous footer *)
Theorem C05_torn_footer_falls_back :
  forall P : N, footerBegLen <= P ->
  forall (header : bytes) (rounds : list round) (d1 : list N) (j1 : bytes) (d2 : list N) (j2 : bytes) (t : N),
    let g1 := build P header rounds ++ d1 in
    let F1 := footer_pos P g1 in
    let f1 := build P header (rounds ++ [(d1, j1)]) in
    let g2 := f1 ++ d2 in
    let F2 := footer_pos P g2 in
    let f := build P header ((rounds ++ [(d1, j1)]) ++ [(d2, j2)]) in
    0 < blen g1 -> footer_len j1 < 2 ^ 32 -> F1 < 2 ^ 64 -> footer_len j2 < 2 ^ 32 ->
    no_fake_footer P f F1 F2 ->
    F2 <= t -> t < F2 + footer_len j2 ->
    read_footer_repaired P (take t f) = Found F1 j1.
Proof. exact C05_scan_torn_repaired. Qed.
Print Assumptions C05_torn_footer_falls_back.

(* ... and when there is no previous footer the scan ends with "no valid footer" *)
Theorem C05_torn_first_footer :
  forall P : N, footerBegLen <= P ->
  forall (header d2 : list N) (j2 : bytes) (t : N),
    let g2 := header ++ d2 in
    let F2 := footer_pos P g2 in
    let f := build P header [(d2, j2)] in
    footer_len j2 < 2 ^ 32 -> no_fake_footer P f 0 F2 ->
    F2 <= t -> t < F2 + footer_len j2 ->
    read_footer_repaired P (take t f) = NoValidFooter.
Proof. exact C05_scan_torn_repaired_first. Qed.
Print Assumptions C05_torn_first_footer.

(* a complete file: the scan finds its LAST footer (multi-page footers and
   files whose last page holds fewer than 20 bytes included) *)
Theorem C05_complete_file_finds_last_footer :
  forall P : N, footerBegLen <= P ->
  forall (header : bytes) (rounds : list round) (d : list N) (json : bytes),
    let g := build P header rounds ++ d in
    let f := build P header (rounds ++ [(d, json)]) in
    let F := footer_pos P g in
    0 < blen g -> footer_len json < 2 ^ 32 -> F < 2 ^ 64 -> no_fake_footer P f F F ->
    read_footer_repaired P f = Found F json.
Proof. exact C05_repaired_finds_last. Qed.
Print Assumptions C05_complete_file_finds_last_footer.

(* whatever bytes follow the last complete footer - partially written
   segments, a torn footer, any subset of its pages, zero fill - are ignored,
   as long as none of them is itself accepted as a complete footer *)
Theorem C05_anything_after_the_last_footer_is_ignored :
  forall P : N, footerBegLen <= P ->
  forall (header : bytes) (rounds : list round) (d1 : list N) (j1 : bytes) (tail : list N),
    let g1 := build P header rounds ++ d1 in
    let F1 := footer_pos P g1 in
    let f1 := build P header (rounds ++ [(d1, j1)]) in
    0 < blen g1 -> footer_len j1 < 2 ^ 32 -> F1 < 2 ^ 64 ->
    no_accepted_footer P (f1 ++ tail) F1 ->
    read_footer_repaired P (f1 ++ tail) = Found F1 j1.
Proof. exact C05_repaired_ignores_tail. Qed.
Print Assumptions C05_anything_after_the_last_footer_is_ignored.

(* every cut of the next round - in its data, its alignment gap or its footer *)
Theorem C05_any_cut_of_the_next_round :
  forall P : N, footerBegLen <= P ->
  forall (header : bytes) (rounds : list round) (d1 : list N) (j1 : bytes) (d2 : list N) (j2 : bytes) (t : N),
    let g1 := build P header rounds ++ d1 in
    let F1 := footer_pos P g1 in
    let f1 := build P header (rounds ++ [(d1, j1)]) in
    let g2 := f1 ++ d2 in
    let F2 := footer_pos P g2 in
    let f := build P header ((rounds ++ [(d1, j1)]) ++ [(d2, j2)]) in
    0 < blen g1 -> footer_len j1 < 2 ^ 32 -> F1 < 2 ^ 64 -> footer_len j2 < 2 ^ 32 ->
    no_fake_footer P f F1 F2 ->
    blen f1 <= t -> t < F2 + footer_len j2 ->
    read_footer_repaired P (take t f) = Found F1 j1.
Proof. exact C05_repaired_any_cut. Qed.
Print Assumptions C05_any_cut_of_the_next_round.

(* the scan as the pinned commit had it: EVERY cut strictly inside the last
   footer made the whole file unreadable *)
Theorem C05_refuted_pre_fix_torn_footer_is_an_error :
  forall P : N, footerBegLen <= P ->
  forall (header : bytes) (rounds : list round) (d2 : list N) (j2 : bytes) (t : N),
    let g2 := build P header rounds ++ d2 in
    let F2 := footer_pos P g2 in
    let f := build P header (rounds ++ [(d2, j2)]) in
    0 < blen g2 -> footer_len j2 < 2 ^ 32 -> no_fake_footer P f F2 F2 ->
    F2 < t -> t < F2 + footer_len j2 ->
    read_footer P (take t f) = ScanError.
Proof. exact C05_scan_torn_always_error. Qed.
Print Assumptions C05_refuted_pre_fix_torn_footer_is_an_error.

(* the fuel of the scan loop never decides the answer *)
Theorem C05_scan_fuel_suffices :
  forall P : N, footerBegLen <= P ->
  forall (step : bytes -> N -> step_result) (f : bytes) (pos : N) (extra : nat),
    scan_loop step (scan_fuel P (pageAlignFloor P pos) + extra) P f (pageAlignFloor P pos)
    = scan_with step P f pos.
Proof. exact scan_fuel_suffices. Qed.
Print Assumptions C05_scan_fuel_suffices.

(* write ordering: whenever the trace of file operations keeps the barrier
   (everything written before a footer is synced before the footer is issued —
   checked on every recorded trace of the real code by the extracted barrier_ok),
   then in EVERY crash image (any crash point, any subset or tearing of the
   writes not yet followed by a sync) a footer that is completely on disk has
   everything written before it completely on disk. *)
From Moss Require Import Crash CrashFacts.
Theorem C05_complete_footer_has_its_data :
  forall (tr : list cop) (p : nat) (present : nat -> bool) (i j : nat),
    barrier_ok tr = true -> legal_image tr p present ->
    is_footer_at tr i = true -> present i = true ->
    (j < i)%nat -> is_write_at tr j = true -> present j = true.
Proof. exact complete_footer_has_its_data. Qed.
Print Assumptions C05_complete_footer_has_its_data.

(* ... and without the barrier it fails *)
Theorem C05_without_barrier_refuted :
  exists tr p present i j,
    legal_image tr p present /\ is_footer_at tr i = true /\ present i = true /\
    (j < i)%nat /\ is_write_at tr j = true /\ present j = false.
Proof. exact no_barrier_refuted. Qed.
Print Assumptions C05_without_barrier_refuted.

(* ---------------------------------------------------------------------------
   Crash consistency of the persistence round itself (StoreOps is the faithful,
   step-by-step model of Store.persist / compact / persistFooter tied to the real
   code by the `ops` family; StoreCrash restates one round as a straight-line
   program of primitive state changes, proves that program equal to
   persister_round, and takes a crash point after every primitive — plus the torn
   state inside the creation of a file).  A crash image of the directory is any
   image the file system may leave: with NoSync (process kill) exactly what was
   written; otherwise (power failure) footers not yet followed by a sync may be
   missing, kept footers read as written (the barrier theorem above), files with a
   surviving footer exist with their header.
   --------------------------------------------------------------------------- *)
From Moss Require Import StoreOps StoreOpsFacts StoreCrash StoreCrashFacts.
Close Scope N_scope.
Open Scope nat_scope.

(* the straight-line program IS the round of the tied model *)
Theorem C05_round_program_is_the_round :
  forall o fo n k st, l_cur st = s_cur st ->
    round_end o fo n k st = fst (persister_round o fo n k st).
Proof. exact round_prog_correct. Qed.
Print Assumptions C05_round_program_is_the_round.

(* every crash point of every round of every history, every legal image: the store
   that reopens serves what was served before the interrupted attempt, extended by a
   prefix of what had been handed to the persister — or, when nothing had ever been
   committed, is empty / refuses to open (F5) *)
Theorem C05_crash_anywhere_reopens_a_prefix :
  forall o fo ks r j s img,
    (forall i, i < r -> rm_stat_ok fo i) ->
    crash_state o fo ks r j = Some s ->
    crash_image true o s img ->
    let st := reachable o fo (firstn r ks) in
    crash_ok (o_file (cur st) = None) (o_content (cur st))
             (pending (handed r (nth r ks RNoop) st)) (reopen_image s img).
Proof. exact crash_prefix_consistent. Qed.
Print Assumptions C05_crash_anywhere_reopens_a_prefix.

(* a round that reported success survives every later crash *)
Theorem C05_committed_round_survives_every_later_crash :
  forall o fo ks1 k ks2 kc j s img,
    let ks := ks1 ++ k :: ks2 in
    let r := length ks in
    (forall i, i < r -> rm_stat_ok fo i) ->
    k <> RNoop ->
    let oc := snd (persister_round o fo (length ks1) k (reachable o fo ks1)) in
    ro_error oc = false ->
    crash_state o fo (ks ++ [kc]) r j = Some s ->
    crash_image true o s img ->
    exists t d,
      reopen_image s img = ReopenServes t d /\
      prefix (o_content (cur (reachable o fo (ks1 ++ [k])))) (d_content d) /\
      incl (ro_handed oc) (d_content d) /\
      prefix (d_content d) (pending (handed r kc (reachable o fo ks))).
Proof. exact committed_round_survives. Qed.
Print Assumptions C05_committed_round_survives_every_later_crash.

(* the hypotheses that cannot be dropped, each with a computed witness *)
Theorem C05_crash_before_first_commit_refuted_F5 :
  forall o, o = opts0 \/ o = opts_nosync ->
  exists ks fo r j img,
    (forall i, rm_stat_ok fo i) /\
    o_file (cur (reachable o fo (firstn r ks))) = None /\
    crash_at o fo ks r j (fun s =>
      crash_image true o s img /\ reopen_image s img = ReopenError).
Proof. exact crash_before_first_commit_refuted. Qed.
Print Assumptions C05_crash_before_first_commit_refuted_F5.

(* F30: after a failed clean-up (the unlink of the abandoned newer file failed) a
   crash image can reopen the abandoned file: [0;1;3] was served, [0;1] comes back *)
Theorem C05_crash_after_failed_cleanup_refuted_F30 :
  exists o ks fo r j img,
    (forall i, i <> 1 -> rm_stat_ok fo i) /\
    map ro_error (snd (run o fo 0 ks init)) = [false; true; false; false] /\
    o_content (cur (reachable o fo (firstn r ks))) = [0; 1; 3] /\
    crash_at o fo ks r j (fun s =>
      crash_image true o s img /\
      reopen_image s img = ReopenServes 1 {| d_id := 2; d_content := [0; 1] |}) /\
    ~ prefix [0; 1; 3] [0; 1].
Proof. exact crash_after_failed_cleanup_refuted. Qed.
Print Assumptions C05_crash_after_failed_cleanup_refuted_F30.

(* outside the stated crash model (observation O2): moss never syncs the directory;
   if a power failure may undo an unlink that was issued, one failed mmap is enough *)
Theorem C05_crash_with_undone_unlink_refuted_O2 :
  exists o ks fo r j img,
    (forall i, rm_stat_ok fo i /\ rm_old_stat_ok fo i) /\
    map ro_error (snd (run o fo 0 ks init)) = [false; true; false; false] /\
    o_content (cur (reachable o fo (firstn r ks))) = [0; 1; 3] /\
    dir_of (reachable o fo (firstn r ks)) = [0] /\
    crash_at o fo ks r j (fun s =>
      crash_image_undo s img /\
      reopen_image s img = ReopenServes 1 {| d_id := 2; d_content := [0; 1] |}).
Proof. exact crash_with_undone_unlink_refuted. Qed.
Print Assumptions C05_crash_with_undone_unlink_refuted_O2.

Close Scope nat_scope.
Open Scope N_scope.

(* F43: the payload.  `valid` stands for "json.Unmarshal succeeds (and the segments load)".
   The repaired scan treats a candidate whose framing is accepted but whose payload is
   invalid - a footer of three pages or more with a page in between missing - like any
   other torn footer: for ANY file holding a complete footer (F1, j1) with a valid payload in
   which every later candidate is rejected by the framing checks or invalid, (F1, j1) is read *)
Theorem C05_torn_multi_page_footer_is_skipped :
  forall P : N, footerBegLen <= P ->
  forall (valid : bytes -> bool) (f' : bytes) (F1 : N) (j1 : bytes),
    aligned P F1 -> 0 < F1 ->
    slice f' F1 (footer_len j1) = Some (footer_bytes F1 j1) ->
    footer_len j1 < 2 ^ 32 -> F1 < 2 ^ 64 ->
    valid j1 = true ->
    no_valid_footer P valid f' F1 ->
    read_footer_json valid P f' = Found F1 j1.
Proof. exact C05_json_general. Qed.
Print Assumptions C05_torn_multi_page_footer_is_skipped.

(* the pinned scan returned the error of json.Unmarshal: with the newest accepted candidate
   invalid, the open fails whatever intact footers lie before it *)
Theorem C05_refuted_pre_fix_unparsable_payload_is_fatal_F43 :
  forall P : N, footerBegLen <= P ->
  forall (valid : bytes -> bool) (f' : bytes) (q p : N) (j : bytes),
    aligned P q -> 0 < q -> q <= blen f' - 1 ->
    scan_step_repaired f' q = Done (Found p j) -> valid j = false ->
    (forall q', aligned P q' -> q < q' -> q' <= blen f' - 1 -> scan_step_repaired f' q' = Continue) ->
    read_footer_json_pinned valid P f' = ScanError.
Proof. exact C05_json_pinned_refuted. Qed.
Print Assumptions C05_refuted_pre_fix_unparsable_payload_is_fatal_F43.

(* SEVERAL FILES, MIXED SYNCING (CrashFiles): "that prefix is at least as long as the one covered
   by the last persistence round that completed with syncing enabled" - also when LATER rounds
   (a full compaction among them) ran without syncing.  A recorded trace of creates, footer
   writes, Syncs and unlinks that keeps the discipline files_ok (new files get the highest number;
   no footer is written below a newer file that holds one; the file holding the newest durable
   footer is never unlinked), cut at ANY point, in ANY crash image (every file keeps its synced
   footers and any subset of the later ones): the reopened directory serves a footer at least as
   new as the newest footer that was ever made durable.  The discipline is evaluated on every
   recorded trace of the real code by the crash runner. *)
From Moss Require Import CrashFiles CrashFilesFacts.
Theorem C05_crash_serves_at_least_the_last_synced_footer :
  forall (tr : list fev) (n : nat) (img : image) (g : nat),
    files_ok tr = true ->
    let s := drun (firstn n tr) in
    img_ok s img -> g_synced s = Some g ->
    exists z id, reopen s img = Some (z, id) /\ (g <= id)%nat /\ In id (img z).
Proof. exact crash_serves_at_least_last_synced. Qed.
Print Assumptions C05_crash_serves_at_least_the_last_synced_footer.

(* a footer synced while its file exists is covered from then on, whatever follows *)
Theorem C05_synced_footer_stays_covered :
  forall (tr2 : list fev) (s : dstate) (g : nat),
    g_synced s = Some g ->
    exists g', g_synced (fold_left dstep tr2 s) = Some g' /\ (g <= g')%nat.
Proof. exact g_synced_mono. Qed.
Print Assumptions C05_synced_footer_stays_covered.

(* the pinned full compaction under NoSync with a zero-valued CompactionSyncAfterBytes (finding
   F44): the new file is never synced, the old one is unlinked; the trace breaks the discipline
   and the image in which nothing un-synced reached the disk reopens to NOTHING *)
Theorem C05_refuted_pre_fix_unsynced_compaction_unlinks_synced_file_F44 :
  files_ok tr_unsynced_compaction = false /\
  exists img, let s := drun tr_unsynced_compaction in
    img_ok s img /\ g_synced s = Some 0%nat /\ reopen s img = None.
Proof. exact unsynced_compaction_loses_synced_round_refuted. Qed.
Print Assumptions C05_refuted_pre_fix_unsynced_compaction_unlinks_synced_file_F44.

(* the second clause is needed too: a footer written below a newer file holding one (F30's
   situation) makes the reopen serve the staler file *)
Theorem C05_footer_below_newer_file_refuted :
  files_ok tr_stale_newer_file = false /\
  exists img, let s := drun tr_stale_newer_file in
    img_ok s img /\ g_synced s = Some 2%nat /\ reopen s img = Some (2, 1)%nat.
Proof. exact footer_below_newer_file_refuted. Qed.
Print Assumptions C05_footer_below_newer_file_refuted.
