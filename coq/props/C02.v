(* C02 — A snapshot is frozen for its whole life. *)
From Moss Require Import Collection Theorems.

Theorem C02_snapshot_frozen :
  forall (fm : bytes -> value -> bytes -> value) (c : cfg) (l0 : llsnap)
         (ls1 ls2 : list label) (s1 s2 : cstate),
    run fm c (init l0) ls1 = Some s1 -> closed s1 = false ->
    run fm c s1 ls2 = Some s2 ->
    forall k, snap_get fm (cur_snapshot s1) k = ref_from fm (llv fm l0) (batches ls1) k.
Proof. exact snapshot_frozen. Qed.
Print Assumptions C02_snapshot_frozen.

Theorem C02_cached_snapshot_sound :
  forall (fm : bytes -> value -> bytes -> value) (c : cfg) (l0 : llsnap)
         (ls : list label) (s : cstate),
    run fm c (init l0) ls = Some s -> closed s = false ->
    forall k, snap_get fm (cur_snapshot s) k = snap_get fm (mk_snapshot s) k.
Proof. exact cached_snapshot_sound. Qed.
Print Assumptions C02_cached_snapshot_sound.
