(* C08 — Merge operands fold in order, exactly once. *)
From Moss Require Import Collection Store Theorems StackFacts StoreFacts Refuted.

(* every read is the left fold of the operator over the batch history,
   wherever the operands sit (any schedule, CachePersisted on or off) *)
Theorem C08_reads_fold_in_order :
  forall (fm : bytes -> value -> bytes -> value) (c : cfg) (l0 : llsnap)
         (ls : list label) (s : cstate),
    run fm c (init l0) ls = Some s -> closed s = false ->
    forall k, snap_get fm (cur_snapshot s) k = ref_from fm (llv fm l0) (batches ls) k.
Proof. exact snapshot_reads_reference. Qed.
Print Assumptions C08_reads_fold_in_order.

(* persistence and every compaction (any splice point) keep the fold *)
Theorem C08_store_keeps_fold :
  forall (fm : bytes -> value -> bytes -> value) ch higher f f' k,
    store_persist fm ch higher f = Some f' ->
    llv fm f' k = sget fm higher (llv fm f) k.
Proof. exact store_persist_view. Qed.
Print Assumptions C08_store_keeps_fold.

Theorem C08_refuted_pre_fix :
  exists (b : list segment) (k : bytes),
    sget fm_append b (sget fm_append b no_below) k <> sget fm_append b no_below k.
Proof. exact C08_refuted_pre_fix_cached_merge. Qed.
Print Assumptions C08_refuted_pre_fix.
