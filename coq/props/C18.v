(* C18 — ReadOnly never touches the directory. *)
From Moss Require Import OpenDir OpenDirFacts.

(* whatever the directory holds (several data files, incomplete newer files),
   a read-only open performs no create / write / remove and opens read-only *)
Theorem C18_readonly_open_never_mutates :
  forall o d, o_readonly o = true ->
    forallb (fun e => negb (mutating e)) (snd (open_store o d)) = true.
Proof. exact readonly_open_never_mutates. Qed.
Print Assumptions C18_readonly_open_never_mutates.

(* whatever is executed afterwards, persistence and compaction do nothing *)
Theorem C18_readonly_persist_never_mutates :
  forall o cur has_data compacts, o_readonly o = true ->
    persist_effects o cur has_data compacts = [].
Proof. exact readonly_persist_never_mutates. Qed.
Print Assumptions C18_readonly_persist_never_mutates.

(* it serves the newest data file that has a valid footer *)
Theorem C18_serves_newest_valid :
  forall o d, d <> [] ->
    fst (open_store o d) =
      match newest_valid (rev d) with Some (s, f) => Opened s f | None => OpenFailed end.
Proof. exact open_serves_newest_valid. Qed.
Print Assumptions C18_serves_newest_valid.

(* a read-write open removes only OTHER data files *)
Theorem C18_open_removes_only_others :
  forall o d seq fid, fst (open_store o d) = Opened seq fid ->
    forall s, In (ERemove s) (snd (open_store o d)) -> s <> seq /\ In s (map fst d).
Proof. exact open_removes_only_others. Qed.
Print Assumptions C18_open_removes_only_others.
