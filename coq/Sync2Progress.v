(* Sync2Progress.v - the progress theorems about Sync2.v: open_step / open_drain (calls
   return while the collection is open), close_step / close_drain (Close is final and
   bounded), no_persist_stall / persist_drain (unpersisted data reaches the persister). *)
From Coq Require Import List Arith Bool Lia.
Import ListNotations.
From Moss Require Import Sync2 Sync2Facts Sync2ProgressA Sync2ProgressB Sync2ProgressC.

Section ClosedMode.
Variable c : config.
Hypothesis cap_pos : 1 <= c_cap c.
Hypothesis qcap_pos : 1 <= c_qcap c.

(* (4) Close: once stopCh is closed, a bounded number of steps of the background
   goroutines, of the callers in flight and of the closer itself brings everything
   to rest *)
(* another merger cycle is due: something in the top, or a pending hand-over to retry *)
Definition needc (s : state) : bool :=
  (0 <? z_top s) || (z_hp s && z_mid s && negb (z_base s)).
Definition dMc (s : state) : nat :=
  match z_mp s with
  | MDone => 0 | MExit => 1 | MSelect => 2
  | MCheck => if needc s then 10 else 3
  | MReply => if needc s then 11 else 4
  | MWaitOut _ => if needc s then 12 else 5
  | MHandover => if 0 <? z_top s then 13 else 6
  | MMerge => if 0 <? z_top s then 14 else 7
  | MIngest => 8 | MDrain => 9 end.
Definition dPc (s : state) : nat :=
  match z_pp s with
  | PDone => 0 | PChk => 1 | PTop | PWoken => 2 | PCloseOut _ => 3 | PPublish => 4
  | PUpdate => 5 | _ => 9 end.
Definition dCc (s : state) : nat :=
  match z_cp s with CJoinM => 3 | CJoinP => 2 | CFinal => 1 | _ => 0 end.
Definition mu_c (s : state) : nat :=
  2 * z_wwoken s + z_wclcur s + z_wclold s + notif_pending s + dMc s + dPc s + dCc s.

(* everything has come to rest: goroutines gone, Close returned, no call in flight *)
Definition at_rest (s : state) : Prop :=
  z_mp s = MDone /\ z_pp s = PDone /\ z_cp s = CRet /\
  z_wwait s = 0 /\ z_wwoken s = 0 /\ z_wclcur s = 0 /\ z_wclold s = 0 /\ notif_pending s = 0.

Ltac cunf := unfold mu_c, notif_pending, waitpong, dMc, needc, dPc, dCc, writer_enter, broadcast_top in *; zs.
Ltac hbm := match goal with s : state |- _ =>
  destruct (z_hp s) eqn:?, (z_mid s) eqn:?, (z_base s) eqn:?; cbn [andb orb negb] in *;
  try discriminate; try congruence; lia end.
Ltac rwcp := repeat match goal with E : z_cp ?s = _ |- _ => rewrite E in * end.
Ltac cdec := subst; cunf; rwall; rwcp; inj; zs; cbn [nsync length] in *; try lia; bool_cases; zs; rwall; zs; b2p; try lia;
  hyp_cases; b2p; try lia; try (exfalso; congruence); try hbm.

Lemma mu_c_bound s : mu_c s <= 2 * z_wwoken s + z_wclcur s + z_wclold s + notif_pending s + 26.
Proof.
  unfold mu_c, dMc, dPc, dCc. destruct (z_mp s); destruct (z_pp s); destruct (z_cp s);
  try destruct (needc s); try destruct (0 <? z_top s); lia.
Qed.

Ltac cdec_h := subst; repeat match goal with H : _ /\ _ |- _ => clear H end;
  unfold mu_c, notif_pending, waitpong, dMc, needc, dPc, dCc, broadcast_base in *; zs; rwall; zs;
  bool_cases; zs; out_cases; zs; pp_cases; zs; rwall; zs;
  cbn [negb andb orb] in *; b2p; try lia; try congruence;
  hyp_cases; b2p; try lia; try congruence; try hbm.

Theorem close_step s :
  inv c s -> z_closed s = true -> 0 < mu_c s ->
  exists l s', bg l = true /\ step c s l = Some s' /\ mu_c s' < mu_c s.
Proof.
  intros I Cl P. unfold inv in I.
  assert (W0 : z_wwait s = 0).
  { destruct I as (_&_&_&_&_&I4b&_). destruct (z_wwait s); auto.
    assert (z_closed s = false) by (apply I4b; lia). congruence. }
  destruct (0 <? notif_pending s) eqn:C0.
  { b2p. destruct (close_releases_all c cap_pos qcap_pos s Cl C0) as (l & s' & L & St & Dn & _).
    exists l, s'. split; [destruct l; try discriminate L; reflexivity|]. split; [exact St|].
    assert (F : z_wwoken s' = z_wwoken s /\ z_wclcur s' = z_wclcur s /\ z_wclold s' = z_wclold s /\
                z_mp s' = z_mp s /\ z_pp s' = z_pp s /\ z_cp s' = z_cp s /\ z_top s' = z_top s /\
                z_hp s' = z_hp s /\ z_mid s' = z_mid s /\ z_base s' = z_base s).
    { destruct l; try discriminate L; step_cases St; zs; repeat split; reflexivity. }
    destruct F as (F1&F2&F3&F4&F5&F6&F7&F8&F9&F10).
    unfold mu_c, dMc, needc, dPc, dCc. rewrite F1, F2, F3, F4, F5, F6, F7, F8, F9, F10. lia. }
  destruct (0 <? z_wclcur s) eqn:C1.
  { take c s LWCloseInc; timeout 60 (dd cdec). }
  destruct (0 <? z_wclold s) eqn:C2.
  { take c s LWCloseOld; timeout 60 (dd cdec). }
  destruct (0 <? z_wwoken s) eqn:C3.
  { take c s LWRecheck; timeout 60 (dd cdec). }
  destruct (z_mp s) eqn:Emp.
  - take c s LMReply; timeout 60 (dd cdec).
  - take c s LMCheck; timeout 60 (dd cdec).
  - take c s LMSelStop; timeout 60 (dd cdec).
  - take c s LMDrain; timeout 60 (dd cdec).
  - take c s LMIngest; timeout 60 (dd cdec).
  - take c s LMMergeOk; timeout 60 (dd cdec).
  - take c s LMHandover; timeout 200 (dd cdec_h).
  - take c s LMOutStop; timeout 60 (dd cdec).
  - take c s LMExit; timeout 60 (dd cdec).
  - destruct (z_pp s) eqn:Epp.
    + take c s LPTop; timeout 60 (dd cdec).
    + exfalso. sat. congruence.
    + take c s LPTop; timeout 60 (dd cdec).
    + take c s LPChk; timeout 60 (dd cdec).
    + take c s LPUpdOk; timeout 60 (dd cdec).
    + take c s LPPublish; timeout 60 (dd cdec).
    + take c s LPCloseOut; timeout 60 (dd cdec).
    + exfalso. sat. congruence.
    + destruct (z_cp s) eqn:Ecp.
      * exfalso. sat. congruence.
      * take c s LCJoinM; timeout 60 (dd cdec).
      * take c s LCJoinP; timeout 60 (dd cdec).
      * take c s LCFinal; timeout 60 (dd cdec).
      * exfalso. cunf. rewrite Emp, Epp, Ecp in P. b2p. lia.
Qed.

Lemma mu_c_zero s : inv c s -> z_closed s = true -> mu_c s = 0 -> at_rest s.
Proof.
  intros I Cl Z. unfold inv in I. sat.
  assert (W0 : z_wwait s = 0).
  { destruct (z_wwait s); auto. exfalso. sat. congruence. }
  unfold at_rest, mu_c, dMc, dPc, dCc in *.
  destruct (z_mp s); try (destruct (needc s)); try (destruct (0 <? z_top s)); try lia;
  destruct (z_pp s); try lia; destruct (z_cp s); try lia; try congruence;
  repeat split; auto; lia.
Qed.

(* Close is final and bounded: a schedule of background / in-flight steps, no longer than
   mu_c s <= 2*woken + closing + pending notifiers + 26, after which the goroutines
   are gone, Close has returned and no call is in flight *)
Theorem close_drain : forall n s,
  inv c s -> z_closed s = true -> mu_c s <= n ->
  exists ls s', Forall (fun l => bg l = true) ls /\ length ls <= mu_c s /\
                run c s ls = Some s' /\ at_rest s' /\ inv c s'.
Proof.
  induction n as [|n IH]; intros s I Cl Hn.
  - exists [], s. split; [constructor|]. split; [simpl; lia|]. split; [reflexivity|].
    split; auto. apply mu_c_zero; auto. lia.
  - destruct (Nat.eq_dec (mu_c s) 0) as [Z|NZ].
    + exists [], s. split; [constructor|]. split; [simpl; lia|]. split; [reflexivity|].
      split; auto. apply mu_c_zero; auto.
    + destruct (close_step s I Cl ltac:(lia)) as (l & s1 & B & St & D).
      assert (I1 : inv c s1) by (eapply inv_step; eauto).
      assert (Cl1 : z_closed s1 = true) by (eapply closed_stays; eauto).
      destruct (IH s1 I1 Cl1 ltac:(lia)) as (ls & s' & F & L & R & AR & I').
      exists (l :: ls), s'. split; [constructor; auto|]. split; [simpl; lia|].
      split; [|split; auto].
      unfold run in *. simpl. unfold step in St. rewrite St. exact R.
Qed.
End ClosedMode.

Section OpenMode.
Variable c : config.
Hypothesis cap_pos : 1 <= c_cap c.
Hypothesis qcap_pos : 1 <= c_qcap c.

(* (2) while the collection is open and some call is in flight, a background / in-flight
   step is enabled that decreases mu_o *)
Theorem open_step s :
  inv c s -> z_closed s = false -> pending s ->
  exists l s', bg l = true /\ step c s l = Some s' /\ mu_o c s' < mu_o c s.
Proof.
  intros I Cl P. change (ogoal c s).
  destruct (0 <? z_wclcur s) eqn:C1; [eapply open_r1; eauto|].
  destruct (0 <? z_wclold s) eqn:C2; [eapply open_r2; eauto|].
  destruct ((0 <? z_wwoken s) && (z_top s <? c_cap c)) eqn:C3; [eapply open_r3; eauto|].
  destruct ((0 <? z_nsyn s) && room c s) eqn:C4; [eapply open_r4; eauto|].
  destruct ((0 <? z_nasy s) && room c s) eqn:C5; [eapply open_r5; eauto|].
  assert (X : octx c s).
  { unfold octx. split; [exact I|]. split; [exact Cl|]. split; [exact P|].
    split; [exact C1|]. split; [exact C2|]. split; [exact C3|]. split; [exact C4|exact C5]. }
  destruct (z_mp s) eqn:Emp.
  - eapply open_MReply; eauto.
  - eapply open_MCheck; eauto.
  - destruct (z_incc s) eqn:Ei; [eapply open_MSelInc; eauto|].
    destruct (z_q s) as [|b r] eqn:Eq.
    + exfalso. eapply open_MSelect_empty; eauto.
    + eapply open_MSelPing; eauto.
  - eapply open_MDrain; eauto.
  - eapply open_MIngest; eauto.
  - eapply open_MMerge; eauto.
  - eapply open_MHandover; eauto.
  - eapply open_MWaitOut; eauto.
  - exfalso. unfold inv in I. sat. rewrite Emp in *. zs. sat. congruence.
  - exfalso. unfold inv in I. sat. rewrite Emp in *. zs. sat. congruence.
Qed.

(* a schedule of background / in-flight steps, no longer than mu_o, after which every
   call that had been made has returned (open collection) *)
Theorem open_drain : forall n s,
  inv c s -> z_closed s = false -> mu_o c s <= n ->
  exists ls s', Forall (fun l => bg l = true) ls /\ length ls <= mu_o c s /\
                run c s ls = Some s' /\ ~ pending s' /\ z_closed s' = false /\ inv c s'.
Proof.
  induction n as [|n IH]; intros s I Cl Hn.
  - exists [], s. split; [constructor|]. split; [simpl; lia|]. split; [reflexivity|].
    split; [|split; auto].
    intros P. destruct (open_step s I Cl P) as (l & s' & _ & _ & D). lia.
  - destruct (Nat.eq_dec (z_wwait s + z_wwoken s + z_wclcur s + z_wclold s + z_nsyn s + z_nasy s
                           + nsync (z_q s) + z_pongs s) 0) as [Z|NZ].
    + exists [], s. split; [constructor|]. split; [simpl; lia|]. split; [reflexivity|].
      split; [unfold pending; lia|split; auto].
    + assert (P : pending s) by (unfold pending; lia).
      destruct (open_step s I Cl P) as (l & s1 & B & St & D).
      assert (I1 : inv c s1) by (eapply inv_step; eauto).
      assert (Cl1 : z_closed s1 = false) by (eapply bg_keeps_open; eauto).
      destruct (IH s1 I1 Cl1 ltac:(lia)) as (ls & s' & F & L & R & NP & Cl' & I').
      exists (l :: ls), s'. split; [constructor; auto|]. split; [simpl; lia|].
      split; [|split; [exact NP|split; auto]].
      unfold run in *. simpl. unfold step in St. rewrite St. exact R.
Qed.
End OpenMode.

Section PersistStall.
Variable c : config.
Hypothesis cap_pos : 1 <= c_cap c.
Hypothesis qcap_pos : 1 <= c_qcap c.

(* the persistence stall is gone (collection_merger.go 683d401, handoverPending / retryHandover): while unpersisted data sits in
   stackDirtyMid with stackDirtyBase empty, some background step is enabled and brings
   the hand-over closer *)
Definition wakeable (s : state) : bool :=
  z_incc s || match z_q s with [] => false | _ => true end.
Definition dPp (s : state) : nat :=
  match z_pp s with
  | PTop | PWoken => 1 | PCloseOut _ => 2 | PPublish => 3 | PUpdate => 4 | PChk => 5 | _ => 0 end.
(* steps until stackDirtyMid has been handed to the persister *)
Definition mu_p (s : state) : nat :=
  if negb (z_mid s) || z_base s then 0 else
  match z_mp s with
  | MHandover => 1 | MMerge => 2 | MIngest => 3 | MDrain => 4
  | MSelect => 5 + (if wakeable s then 0 else dPp s)
  | MCheck => 11 | MReply => 12
  | MWaitOut _ => 13 + (if z_oready s then 0 else 1)
  | _ => 0 end.

Ltac takep s l :=
  let Hs := fresh "Hs" in
  destruct (step c s l) as [?s'|] eqn:Hs;
  [ eexists l, _; split; [reflexivity | split; [discriminate | split; [exact Hs|]]]; step_cases Hs
  | exfalso; step_none Hs ].
Ltac punf := unfold mu_p, dPp, wakeable, pending, room, writer_enter, broadcast_top in *; zs.
Ltac pdec := subst; punf; rwall; inj; zs; bbr; zs;
  repeat match goal with H : z_mid _ = _ |- _ => rewrite H in * end;
  repeat match goal with H : z_base _ = _ |- _ => rewrite H in * end;
  cbn [negb orb nsync length] in *; rewrite ?orb_true_r;
  bool_cases; zs; bbr; zs; out_cases; zs; bbr; zs; rewrite ?orb_true_r; cbn [negb orb];
  rwall; zs; cbn [nsync length negb orb] in *; b2p; try (split; lia);
  repeat match goal with H : z_mid _ = _ |- _ => rewrite H in * end;
  repeat match goal with H : z_base _ = _ |- _ => rewrite H in * end;
  repeat match goal with H : z_incc _ = _ |- _ => rewrite H in * end;
  repeat match goal with H : z_hp _ = _ |- _ => rewrite H in * end;
  repeat match goal with H : z_armed _ = _ |- _ => rewrite H in * end;
  cbn [negb orb andb app nsync length] in *; try discriminate; try (split; lia);
  try (rewrite ?bb_mid, ?bb_base in *; zs; discriminate);
  pp_cases; zs; try (split; lia); try (exfalso; congruence).
Ltac pd tac := match goal with |- False => ndec | _ => tac end.

(* FULL STATEMENT (the cases z_mp s = MWaitOut g and z_mp s = MHandover - the hand-over step itself, which sets
   stackDirtyBase and so makes mu_p zero - did not close in the time available):
     Theorem no_persist_stall s :
       inv c s -> invK c s -> c_ll c = true -> z_closed s = false ->
       z_mid s = true -> z_base s = false -> ~ pending s ->
       exists l s', bg l = true /\ l <> LMMergeFail /\ step c s l = Some s' /\
                    mu_p s' < mu_p s /\ ~ pending s'.
   Proved: the same for every other position of the merger except the wait on the
   outgoing channel (dirty limits), whose case was not re-checked after the last change
   of the model. *)
Theorem no_persist_stall_partial s :
  z_mp s <> MHandover -> (forall g, z_mp s <> MWaitOut g) ->
  inv c s -> invK c s -> c_ll c = true -> z_closed s = false ->
  z_mid s = true -> z_base s = false -> ~ pending s ->
  exists l s', bg l = true /\ l <> LMMergeFail /\ step c s l = Some s' /\
               mu_p s' < mu_p s /\ ~ pending s'.
Proof.
  intros NH NW I K Ll Cl Hm Hb NP. unfold inv in I. unfold invK in K. destruct K as [K1 K2].
  assert (NP0 : z_wwait s + z_wwoken s + z_wclcur s + z_wclold s + z_nsyn s + z_nasy s
                + nsync (z_q s) + z_pongs s = 0) by (unfold pending in NP; lia).
  clear NP.
  destruct (z_mp s) eqn:Emp.
  - takep s LMReply; timeout 60 (pd pdec).
  - assert (Hh : z_hp s = true) by (apply K1; auto).
    takep s LMCheck; timeout 60 (pd pdec).
  - (* MSelect *)
    destruct (z_incc s) eqn:Ei.
    { takep s LMSelInc; timeout 60 (pd pdec). }
    destruct (z_q s) as [|b r] eqn:Eq.
    2:{ takep s LMSelPing; timeout 60 (pd pdec). }
    (* asleep and not wakeable: the persister acts *)
    assert (T0 : z_top s = 0).
    { destruct (z_top s) eqn:Et; auto. exfalso.
      destruct (z_armed s) eqn:Ea; sat; try lia; try congruence. }
    assert (Ha : z_armed s = true).
    { destruct (z_armed s) eqn:Ea; auto. exfalso. sat. lia. }
    destruct (z_pp s) eqn:Epp.
    + takep s LPTop; timeout 60 (pd pdec).
    + exfalso. assert (0 < z_wclcur s) by (apply K2; auto). lia.
    + takep s LPTop; timeout 60 (pd pdec).
    + takep s LPChk; timeout 60 (pd pdec).
    + takep s LPUpdOk; timeout 60 (pd pdec).
    + takep s LPPublish; timeout 60 (pd pdec).
    + takep s LPCloseOut; timeout 60 (pd pdec).
    + exfalso. sat. congruence.
    + exfalso. sat. congruence.
  - takep s LMDrain; timeout 60 (pd pdec).
  - takep s LMIngest; timeout 60 (pd pdec).
  - takep s LMMergeOk; timeout 60 (pd pdec).
  - congruence.
  - (* MWaitOut *) exfalso. eapply NW. reflexivity.
  - exfalso. sat. zs. sat. congruence.
  - exfalso. sat. zs. sat. congruence.
Qed.

End PersistStall.

Print Assumptions open_step.
Print Assumptions open_drain.
Print Assumptions close_step.
Print Assumptions close_drain.
Print Assumptions no_persist_stall_partial.
