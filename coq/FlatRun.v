(* FlatRun.v — executable glue between harness traces (child-free) and the
   collection model: translate a harness label, step the model, and compare
   the model's state and reads with what the implementation showed.
   Everything here is computation; nothing is proved about it. *)
From Moss Require Export Collection Store LowerLevel.

Definition fm0 := fm_append.

Inductive llkind := LLNone | LLStore | LLMap.

Inductive hlabel :=
| HBatch (b : segment)
| HIngest
| HSwap (lvl : nat)
| HHandover
| HPBegin (ch : persist_choice)      (* LowerLevelUpdate ran and succeeded; for the store: what Persist did *)
| HPBeginFail
| HPPublish
| HNotify
| HSnap (id : nat)
| HSnapClose (id : nat)
| HClose (ch : option persist_choice) (* Some = an in-flight round persisted while closing *)
| HReopen.

(* observation of the implementation after a label; stacks OLDEST first as dumped *)
Record fobs := {
  o_top : option (list segment);
  o_mid : option (list segment);
  o_base : option (list segment);
  o_clean : option (list segment);
  o_ll : option (list segment);        (* store footer / map content as one segment; None = no lower level *)
  o_cached : bool;
  o_gets : list (bytes * value);       (* fresh Snapshot: Get per universe key *)
  o_iter : list (bytes * value);       (* fresh Snapshot: full iteration *)
  o_cget : list (bytes * value);       (* Collection.Get per universe key *)
  o_dirty_ops : nat;
  o_dirty_segs : nat;
  o_held : list (nat * (list (bytes * value) * list (bytes * value)));  (* id, gets, iter *)
  o_store : option (list segment)      (* the store's own current footer *)
}.

Record frs := {
  st : cstate;
  kind : llkind;
  conf : cfg;
  pend : option llsnap;                (* result of a LowerLevelUpdate not yet published *)
  store_ll : llsnap;                   (* the store's footer (or the map), newest first *)
  hist : list segment;                 (* batches since the collection was (re)opened *)
  all_hist : list segment;             (* batches since the beginning that are not known to be lost *)
  reopen_ok : bool;                    (* the last reopen served a batch-prefix state *)
  base0 : llsnap;                      (* lower level the current incarnation started from *)
  held : list (nat * snapshot);
  held_ref : list (nat * (list segment * llsnap));  (* per held snapshot: the batches and the lower level it was taken over *)
  is_open : bool
}.

Definition finit (c : cfg) (k : llkind) : frs :=
  {| st := init []; kind := k; conf := c; pend := None; store_ll := []; hist := [];
     all_hist := []; reopen_ok := true; base0 := []; held := []; held_ref := []; is_open := true |}.

Definition set_st (r : frs) (s : cstate) : frs :=
  {| st := s; kind := kind r; conf := conf r; pend := pend r; store_ll := store_ll r;
     hist := hist r; all_hist := all_hist r; reopen_ok := reopen_ok r; base0 := base0 r; held := held r; held_ref := held_ref r; is_open := is_open r |}.

Definition lift (r : frs) (o : option cstate) : option frs :=
  match o with Some s => Some (set_st r s) | None => None end.

Definition do_ll_update (r : frs) (ch : persist_choice) : option llsnap :=
  match base (st r) with
  | None => None
  | Some b =>
      match kind r with
      | LLNone => None
      | LLStore => store_persist fm0 ch b (store_ll r)
      | LLMap => match store_ll r with
                 | [m] => Some [map_update fm0 b m]
                 | [] => Some [map_update fm0 b []]
                 | _ => None
                 end
      end
  end.

(* C04 oracle: the longest n such that the persisted content reads as the
   reference after the first n batches (on every key that occurs anywhere). *)
Definition reads_as_prefix (all : list segment) (l : llsnap) (n : nat) : bool :=
  forallb (fun k => value_eqb (ref_from fm0 no_below (firstn n all) k) (llv fm0 l k))
          (all_keys (all ++ l)).
Fixpoint prefix_search (all : list segment) (l : llsnap) (n : nat) : option nat :=
  if reads_as_prefix all l n then Some n
  else match n with O => None | S m => prefix_search all l m end.
Definition prefix_len (all : list segment) (l : llsnap) : option nat :=
  prefix_search all l (length all).

Definition fstep (r : frs) (l : hlabel) : option frs :=
  let c := conf r in
  match l with
  | HBatch b =>
      match step fm0 c (st r) (LBatch b) with
      | Some s => Some {| st := s; kind := kind r; conf := c; pend := pend r; store_ll := store_ll r;
                          hist := hist r ++ [b]; all_hist := all_hist r ++ [b]; reopen_ok := reopen_ok r; base0 := base0 r; held := held r; held_ref := held_ref r; is_open := true |}
      | None => None
      end
  | HIngest => lift r (step fm0 c (st r) LIngest)
  | HSwap lvl => lift r (step fm0 c (st r) (LSwap lvl))
  | HHandover => lift r (step fm0 c (st r) LHandover)
  | HPBegin ch =>
      match step fm0 c (st r) LPBegin, do_ll_update r ch with
      | Some s, Some l' =>
          Some {| st := s; kind := kind r; conf := c; pend := Some l'; store_ll := l';
                  hist := hist r; all_hist := all_hist r; reopen_ok := reopen_ok r; base0 := base0 r; held := held r; held_ref := held_ref r; is_open := true |}
      | _, _ => None
      end
  | HPBeginFail =>
      match step fm0 c (st r) LPBegin with
      | Some s => lift r (step fm0 c s LPFail)
      | None => None
      end
  | HPPublish =>
      match pend r with
      | Some l' =>
          match step fm0 c (st r) (LPPublish l') with
          | Some s => Some {| st := s; kind := kind r; conf := c; pend := None; store_ll := store_ll r;
                              hist := hist r; all_hist := all_hist r; reopen_ok := reopen_ok r; base0 := base0 r; held := held r; held_ref := held_ref r; is_open := true |}
          | None => None
          end
      | None => None
      end
  | HNotify => Some r
  | HSnap id =>
      match step fm0 c (st r) LSnap with
      | Some s => Some {| st := s; kind := kind r; conf := c; pend := pend r; store_ll := store_ll r;
                          hist := hist r; all_hist := all_hist r; reopen_ok := reopen_ok r; base0 := base0 r;
                          held := (id, cur_snapshot (st r)) :: held r;
                          held_ref := (id, (hist r, base0 r)) :: held_ref r; is_open := true |}
      | None => None
      end
  | HSnapClose id =>
      Some {| st := st r; kind := kind r; conf := c; pend := pend r; store_ll := store_ll r;
              hist := hist r; all_hist := all_hist r; reopen_ok := reopen_ok r; base0 := base0 r;
              held := filter (fun p => negb (Nat.eqb (fst p) id)) (held r);
              held_ref := filter (fun p => negb (Nat.eqb (fst p) id)) (held_ref r); is_open := is_open r |}
  | HClose ch =>
      let sl := match ch with
                | Some c' => match do_ll_update r c' with Some l' => Some l' | None => None end
                | None => Some (store_ll r)
                end in
      match sl, step fm0 c (st r) LClose with
      | Some l', Some s =>
          Some {| st := s; kind := kind r; conf := c; pend := None; store_ll := l';
                  hist := hist r; all_hist := all_hist r; reopen_ok := reopen_ok r; base0 := base0 r; held := held r; held_ref := held_ref r; is_open := false |}
      | _, _ => None
      end
  | HReopen =>
      if is_open r then None else
      let n := prefix_len (all_hist r) (store_ll r) in
      Some {| st := init (store_ll r); kind := kind r; conf := c; pend := None;
              store_ll := store_ll r; hist := [];
              all_hist := match n with Some i => firstn i (all_hist r) | None => all_hist r end;
              reopen_ok := match n with Some _ => true | None => false end;
              base0 := store_ll r; held := held r; held_ref := held_ref r; is_open := true |}
  end.

(* ---- comparison ---------------------------------------------------------- *)

Definition op_eqb (a b : op) : bool :=
  match a, b with
  | OSet x, OSet y => beqb x y
  | ODel, ODel => true
  | OMerge x, OMerge y => beqb x y
  | _, _ => false
  end.

Fixpoint list_eqb {A} (e : A -> A -> bool) (a b : list A) : bool :=
  match a, b with
  | [], [] => true
  | x :: a', y :: b' => e x y && list_eqb e a' b'
  | _, _ => false
  end.

Definition entry_eqb (a b : entry) : bool := beqb (fst a) (fst b) && op_eqb (snd a) (snd b).
Definition seg_eqb : segment -> segment -> bool := list_eqb entry_eqb.
Definition stack_eqb : list segment -> list segment -> bool := list_eqb seg_eqb.

Definition ostack_eqb (nil_is_empty : bool) (model : option (list segment)) (impl : option (list segment)) : bool :=
  match model, impl with
  | None, None => true
  | Some a, Some b => stack_eqb a b
  | None, Some [] => nil_is_empty
  | Some [], None => nil_is_empty
  | _, _ => false
  end.

Definition kv_eqb (a b : bytes * value) : bool := beqb (fst a) (fst b) && value_eqb (snd a) (snd b).

(* iteration of a snapshot as the model predicts it: live keys ascending *)
Definition snap_iter (sn : snapshot) : list (bytes * value) :=
  let ks := all_keys (sn_segs sn ++ sn_ll sn) in
  fold_right (fun k acc => match snap_get fm0 sn k with
                           | Some v => (k, Some v) :: acc
                           | None => acc end) [] ks.

Definition gets_of (f : bytes -> value) (univ : list bytes) : list (bytes * value) :=
  map (fun k => (k, f k)) univ.

Inductive mismatch :=
| MTop | MMid | MBase | MClean | MLL | MCached | MGets | MIter | MCGet | MDirtySegs | MDirtyOps
| MHeld (id : nat) | MStore
| SpecGets | SpecIter | SpecCGet | SpecHeld (id : nat) | SpecReopenPrefix | SpecZeroGauges.

(* C07: what a full compaction must leave: at most one segment, keys strictly
   ascending (every key once), no deletion marker *)
Definition full_shape_ok (f : list segment) : bool :=
  Nat.leb (length f) 1 &&
  forallb (fun s => sortedb s && forallb (fun e => match snd e with ODel => false | _ => true end) s) f.

Definition flag (b : bool) (m : mismatch) : list mismatch := if b then [] else [m].

(* reference content: ref over the lower level this incarnation started from *)
Definition ref_of (h : list segment) (b0 : llsnap) : bytes -> value := ref_from fm0 (llv fm0 b0) h.
Definition ref_iter_of (h : list segment) (b0 : llsnap) : list (bytes * value) :=
  let ks := all_keys (h ++ b0) in
  fold_right (fun k acc => match ref_of h b0 k with
                           | Some v => (k, Some v) :: acc
                           | None => acc end) [] ks.
Definition ref_now (r : frs) : bytes -> value := ref_of (hist r) (base0 r).
Definition ref_iter (r : frs) : list (bytes * value) := ref_iter_of (hist r) (base0 r).

(* model vs implementation, and implementation vs specification *)
Definition fcheck (r : frs) (univ : list bytes) (o : fobs) : list mismatch :=
  let s := st r in
  let sn := mk_snapshot s in
  flag (ostack_eqb true (Some (rev (top s))) (o_top o)) MTop
  ++ flag (ostack_eqb false (option_map (@rev segment) (mid s)) (o_mid o)) MMid
  ++ flag (ostack_eqb false (option_map (@rev segment) (base s)) (o_base o)) MBase
  ++ flag (ostack_eqb true (Some (rev (clean s))) (o_clean o)) MClean
  ++ flag (match kind r with
           | LLNone => match o_ll o with None => true | _ => false end
           | LLMap => ostack_eqb true (Some (filter nonempty (rev (ll s))))
                                 (option_map (filter nonempty) (o_ll o))
           | LLStore => ostack_eqb true (Some (rev (ll s))) (o_ll o)
           end) MLL
  ++ flag (Bool.eqb (match cached s with Some _ => true | None => false end) (o_cached o)) MCached
  ++ flag (list_eqb kv_eqb (gets_of (snap_get fm0 (cur_snapshot s)) univ) (o_gets o)) MGets
  ++ flag (list_eqb kv_eqb (snap_iter (cur_snapshot s)) (o_iter o)) MIter
  ++ flag (list_eqb kv_eqb (gets_of (coll_get fm0 s) univ) (o_cget o)) MCGet
  ++ flag (Nat.eqb (dirty_segments s) (o_dirty_segs o)) MDirtySegs
  ++ flag (Nat.eqb (dirty_ops s) (o_dirty_ops o)) MDirtyOps
  ++ flag (match o_store o with
           | Some f => match kind r with
                       | LLMap => stack_eqb (filter nonempty (rev (store_ll r))) (filter nonempty f)
                       | _ => stack_eqb (rev (store_ll r)) f
                       end
           | None => true end) MStore
  ++ concat (map (fun h =>
       match List.find (fun p => Nat.eqb (fst p) (fst h)) (held r) with
       | Some (_, hs) =>
           flag (list_eqb kv_eqb (gets_of (snap_get fm0 hs) univ) (fst (snd h))
                 && list_eqb kv_eqb (snap_iter hs) (snd (snd h))) (MHeld (fst h))
       | None => [MHeld (fst h)]
       end) (o_held o))
  (* the specification: a held snapshot still reads the reference of the moment it was taken *)
  ++ concat (map (fun h =>
       match List.find (fun p => Nat.eqb (fst p) (fst h)) (held_ref r) with
       | Some (_, (hh, hb)) =>
           flag (list_eqb kv_eqb (gets_of (ref_of hh hb) univ) (fst (snd h))
                 && list_eqb kv_eqb (ref_iter_of hh hb) (snd (snd h))) (SpecHeld (fst h))
       | None => [SpecHeld (fst h)]
       end) (o_held o))
  (* the specification: reads are the reference *)
  ++ flag (list_eqb kv_eqb (gets_of (ref_now r) univ) (o_gets o)) SpecGets
  ++ flag (list_eqb kv_eqb (ref_iter r) (o_iter o)) SpecIter
  ++ flag (list_eqb kv_eqb (gets_of (ref_now r) univ) (o_cget o)) SpecCGet
  ++ flag (reopen_ok r) SpecReopenPrefix
  (* C20: zero dirty gauges => the store's own snapshot equals the reference *)
  ++ flag (match kind r, o_store o with
           | LLNone, _ => true
           | _, Some f =>
               negb (Nat.eqb (o_dirty_ops o) 0 && Nat.eqb (o_dirty_segs o) 0)
               || forallb (fun k => value_eqb (llv fm0 (rev f) k) (ref_now r k))
                          (all_keys (hist r ++ base0 r ++ f))
           | _, None => true
           end) SpecZeroGauges.
