(* Segment.v — operations, segments (sorted unique-key op lists), point lookup.
   Executable definitions only. *)
From Moss Require Export Bytes.

Inductive op := OSet (v : bytes) | ODel | OMerge (v : bytes).

Definition entry := (bytes * op)%type.
Definition segment := list entry.       (* invariant: keys strictly ascending by bcmp *)

(* Segment.Get: specification-level lookup (first match; on a sorted unique
   segment this is what the binary search of findKeyPos returns — Index.v). *)
Fixpoint find (s : segment) (k : bytes) : option op :=
  match s with
  | [] => None
  | (k', o) :: r => if beqb k' k then Some o else find r k
  end.

Definition keys (s : segment) : list bytes := map fst s.

Fixpoint sorted_keys (l : list bytes) : bool :=
  match l with
  | [] => true
  | a :: r => match r with
              | [] => true
              | b :: _ => bltb a b && sorted_keys r
              end
  end.
Definition sortedb (s : segment) : bool := sorted_keys (keys s).

(* insertion of a key into a strictly ascending key list (no duplicates) *)
Fixpoint kinsert (k : bytes) (l : list bytes) : list bytes :=
  match l with
  | [] => [k]
  | a :: r => match bcmp k a with
              | Lt => k :: l
              | Eq => l
              | Gt => a :: kinsert k r
              end
  end.
Definition kunion (a b : list bytes) : list bytes := fold_right kinsert b a.

(* insertion sort of a batch's ops by key (doSort / deferred sort); keys unique *)
Fixpoint einsert (e : entry) (s : segment) : segment :=
  match s with
  | [] => [e]
  | a :: r => match bcmp (fst e) (fst a) with
              | Gt => a :: einsert e r
              | _ => e :: s
              end
  end.
Definition sort_seg (s : segment) : segment := fold_right einsert [] s.

Fixpoint uniq_keys (l : list bytes) : bool :=
  match l with
  | [] => true
  | a :: r => negb (existsb (beqb a) r) && uniq_keys r
  end.

(* op kind predicates *)
Definition is_merge (o : op) : bool := match o with OMerge _ => true | _ => false end.
Definition is_del (o : op) : bool := match o with ODel => true | _ => false end.
Definition seg_has_merge (s : segment) : bool := existsb (fun e => is_merge (snd e)) s.

(* key/value byte totals as the stats count them *)
Definition op_val_len (o : op) : nat :=
  match o with OSet v => length v | ODel => 0 | OMerge v => length v end.
Definition seg_bytes (s : segment) : nat :=
  fold_right (fun e acc => length (fst e) + op_val_len (snd e) + acc) 0 s.
